"""Property table used by ./check and gen_manifest.py: one JSON file per property under props/."""
import glob, json, os
HERE = os.path.dirname(os.path.abspath(__file__))

PROOF_NOTE = ("Trusted base: Coq 8.16.1 kernel + vm_compute (no native_compute, no extraction); theorems are about the "
              "hand-written executable model in coq/Model; the tie to /repo is the correspondence check run on every "
              "invocation (Go harness built with -tags verif against the working tree, cases evaluated by coqc). "
              "Go mutations cannot break a proof; they are detected by the correspondence and by the property predicate "
              "evaluated on sampled runs. External libraries (gjson, regexp, bloom hash, snappy/zstd, CRC32C, encoding/json, "
              "Go scheduler, OS) are modelled as oracles, not verified. See DESIGN.md section 3.")

PROPS = {}
for f in sorted(glob.glob(os.path.join(HERE, "props", "C*.json"))):
    PROPS[os.path.basename(f)[:-5]] = json.load(open(f))
