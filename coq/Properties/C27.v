(* C27 — The engine is silent by default.
   Statements only; every proof is [exact <lemma from Proofs/SilentProofs.v>].

   The full property quantifies over every operation history, fault sequence and deadline:
   "without a configured logger no engine operation writes to stdout or stderr". What is
   proved here is the static half, over the reference graph regenerated from the Go sources
   on every run: no function, method or package-level declaration of package bloomsearch
   (non-test files, both build-tag settings) refers to an identifier through which the
   process's standard streams can be reached without a caller-supplied writer, and the
   logger used when Config.Logger is nil is slog.New(slog.DiscardHandler). So whatever the
   history, the engine's own code has no path to fd 1/2. PARTIAL: the dependencies (gjson,
   bloom, klauspost/compress) and the Go runtime are not scanned; they are covered only by
   the dynamic capture of a child process's stdout/stderr (harness command c27). *)
From BS Require Import Model.Silent Generated.SilentGraph Proofs.SilentProofs.
From Coq Require Import List String.
Import ListNotations.
Open Scope string_scope.

(* no function of the package references an output sink *)
Theorem C27_no_sink_partial : forall f, In f graph -> forall r, In r (fn_refs f) -> is_sink r = false.
Proof. exact no_sink. Qed.
Print Assumptions C27_no_sink_partial.

(* when config.Logger is nil the engine's logger is slog.New(slog.DiscardHandler); otherwise it
   is the configured one; the logger field is written nowhere else *)
Theorem C27_discard :
  run_writes true LUnset logger_var_writes = LBuilt discard_ctor /\
  run_writes false LUnset logger_var_writes = LConfig /\
  (forall fn e, In (fn, e) logger_field_writes -> fn = "NewBloomSearchEngine" /\ e = GLocal logger_var) /\
  (exists fn, In (fn, GLocal logger_var) logger_field_writes).
Proof. exact discard_when_nil. Qed.
Print Assumptions C27_discard.

(* the bindings, literally: logger := config.Logger; if logger == nil { logger = slog.New(slog.DiscardHandler) } *)
Theorem C27_logger_bindings :
  logger_var_writes = expected_var_writes /\ logger_field_writes = expected_field_writes logger_var.
Proof. exact logger_bindings. Qed.
Print Assumptions C27_logger_bindings.

(* the scan covered the files the property is anchored in, with the verif tag on and off *)
Theorem C27_anchor_files_scanned :
  In "engine.go" scanned_files /\ In "ingest.go" scanned_files /\ In "flush.go" scanned_files /\
  In "merge.go" scanned_files /\ In "query_exec.go" scanned_files /\
  In "verif_on.go" scanned_files /\ In "verif_off.go" scanned_files.
Proof. exact anchors_scanned. Qed.
Print Assumptions C27_anchor_files_scanned.

(* non-vacuity: the graph is populated, and is_sink is not constantly false *)
Example C27_graph_nonempty :
  exists f, In f graph /\ fn_file f = "flush.go" /\ fn_name f = "BloomSearchEngine.handleFlush" /\ fn_refs f <> [].
Proof. exact graph_nonempty. Qed.

Example C27_sinks_recognised :
  is_sink ("fmt", "Println") = true /\ is_sink ("fmt", "Printf") = true /\ is_sink ("fmt", "Print") = true /\
  is_sink ("os", "Stdout") = true /\ is_sink ("os", "Stderr") = true /\ is_sink ("os", "NewFile") = true /\
  is_sink ("builtin", "println") = true /\ is_sink ("builtin", "print") = true /\
  is_sink ("log", "Printf") = true /\ is_sink ("log", "Default") = true /\ is_sink ("log", "SetOutput") = true /\
  is_sink ("log/slog", "Warn") = true /\ is_sink ("log/slog", "Default") = true /\ is_sink ("log/slog", "SetDefault") = true /\
  is_sink ("syscall", "Write") = true /\
  is_sink ("fmt", "Errorf") = false /\ is_sink ("fmt", "Fprintf") = false /\ is_sink ("log/slog", "New") = false /\
  is_sink ("log/slog", "DiscardHandler") = false /\ is_sink ("os", "OpenFile") = false.
Proof. exact sinks_are_sinks. Qed.
