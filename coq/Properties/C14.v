(* C14 — Queries concurrent with flushes and merges see a consistent snapshot.
   Statements only; every proof is [exact <lemma from Proofs/MetaStoresProofs.v>].

   Model/MetaStores.v: one step per atomic action of a flush (create | publish=Close | MetaStore.Update
   | ack | failure cleanup), of the single-flight merge (start | create output | publish | Update |
   remove source | end | abort) and of a query (start | take the MetaStore's candidate set | read one
   block: ok, or the file is gone and no handle is held -> block error | end). [mrun k] accepts any
   interleaving of any number of flushes, merges and queries. MemoryMetaStore: the candidate set is
   copied in ONE step (under the read lock), Update is ONE step. FileSystemDataStore as MetaStore:
   the candidate set is the directory: readdir snapshot, then per file whatever is there at parse
   time; a merge output is visible from its publish, sources disappear one by one.
   [q_acked0 q] = the rows acknowledged before query q started; [q_got q] = the rows it delivered;
   [q_err q = false] = its Err() is nil. Cancelled queries are not modelled (C14 is about queries that
   run to their end); the row predicate of the query is taken as "every row" (it filters both
   sides alike). *)
From BS Require Import Model.MetaStores Proofs.MetaStoresProofs.
From Coq Require Import List Bool Arith.
Import ListNotations.

(* MemoryMetaStore, every interleaving: a query that finishes with a nil error returns every row
   acknowledged before it started exactly once and nothing that was not ingested. *)
Theorem C14_mem : forall ls s i q,
  mrun MemStore m0 ls = Some s -> nth_error (s_queries s) i = Some q ->
  q_done q = true -> q_err q = false ->
  NoDup (q_got q) /\ incl (q_acked0 q) (q_got q) /\ incl (q_got q) (s_ingested s).
Proof. exact mem_snapshot_consistent. Qed.
Print Assumptions C14_mem.

(* FileSystemDataStore as MetaStore: refuted (D3). The scan runs between the publish of a merge
   output and the removal of its sources: every merged row twice, nil error. *)
Theorem C14_fs_refuted :
  exists s q, mrun FsMeta m0 fs_dup = Some s /\ nth_error (s_queries s) 0 = Some q /\
    q_done q = true /\ q_err q = false /\ q_acked0 q = [1; 2] /\ q_got q = [1; 2; 1; 2] /\ ~ NoDup (q_got q).
Proof. exact fs_dup_refuted. Qed.
Print Assumptions C14_fs_refuted.

(* ... and the other side of the same window: the readdir snapshot predates the publish, the
   per-file parse follows the removal: acknowledged rows silently missing, nil error. *)
Theorem C14_fs_refuted_missing :
  exists s q, mrun FsMeta m0 fs_miss = Some s /\ nth_error (s_queries s) 0 = Some q /\
    q_done q = true /\ q_err q = false /\ q_acked0 q = [1; 2] /\ q_got q = [] /\ ~ incl (q_acked0 q) (q_got q).
Proof. exact fs_miss_refuted. Qed.
Print Assumptions C14_fs_refuted_missing.

(* On the memory store the second schedule ends in an error instead (the property's last
   sentence): the snapshot still names the sources, their reads fail, Err() is non-nil. *)
Theorem C14_mem_reports_error :
  exists s q, mrun MemStore m0 mem_sched = Some s /\ nth_error (s_queries s) 0 = Some q /\ q_done q = true /\ q_err q = true.
Proof. exact mem_sched_err. Qed.
Print Assumptions C14_mem_reports_error.

(* C14_fs_no_overlap_partial. The intended positive statement for FileSystemDataStore as MetaStore,

     forall ls s i q, mrun FsMeta m0 ls = Some s -> nth_error (s_queries s) i = Some q ->
       q_done q = true -> q_err q = false -> q_overlap q = false ->
       NoDup (q_got q) /\ incl (q_acked0 q) (q_got q) /\ incl (q_got q) (s_ingested s)

   ([q_overlap q = false]: no merge was running at any moment of the query) is NOT proved here: it
   needs a second invariant family for the non-atomic scan. It is exercised by the correspondence
   (every FS run without a merge overlapping the query must satisfy the property predicate). *)

(* non-vacuity of C14_mem: a query overlapping a flush and a whole merge finishes with a nil error *)
Example C14_nonvacuous :
  exists s q, mrun MemStore m0 mem_ok = Some s /\ nth_error (s_queries s) 0 = Some q /\
    q_done q = true /\ q_err q = false /\ q_overlap q = true /\ q_got q = [1; 2] /\ s_acked s = [1; 2; 3].
Proof. exact mem_ok_run. Qed.
