(* C14 — Queries concurrent with flushes and merges see a consistent snapshot.
   Statements only; every proof is [exact <lemma from Proofs/MetaStoresProofs.v>].

   Model/MetaStores.v: one step per atomic action of a flush (create | publish=Close | MetaStore.Update
   | ack | failure cleanup), of the single-flight merge (start | create output | publish | Update |
   remove source | end | abort) and of a query (start | take the MetaStore's candidate set | read one
   block: ok, or the file is gone and no handle is held -> block error | end). [mrun k] accepts any
   interleaving of any number of flushes, merges and queries. MemoryMetaStore: the candidate set is
   copied in ONE step (under the read lock), Update is ONE step. FileSystemDataStore as MetaStore:
   the candidate set is the directory: readdir snapshot, then per file whatever is there at parse
   time; a merge output is visible from its publish, sources disappear one by one.
   [q_acked0 q] = the rows acknowledged before query q started; [q_got q] = the rows it delivered;
   [q_err q = false] = its Err() is nil. Cancelled queries are not modelled (C14 is about queries that
   run to their end); the row predicate of the query is taken as "every row" (it filters both
   sides alike). *)
From BS Require Import Model.MetaStores Proofs.MetaStoresProofs Proofs.FsMetaProofs.
From Coq Require Import List Bool Arith.
Import ListNotations.

(* MemoryMetaStore, every interleaving: a query that finishes with a nil error returns every row
   acknowledged before it started exactly once and nothing that was not ingested. *)
Theorem C14_mem : forall ls s i q,
  mrun MemStore m0 ls = Some s -> nth_error (s_queries s) i = Some q ->
  q_done q = true -> q_err q = false ->
  NoDup (q_got q) /\ incl (q_acked0 q) (q_got q) /\ incl (q_got q) (s_ingested s).
Proof. exact mem_snapshot_consistent. Qed.
Print Assumptions C14_mem.

(* FileSystemDataStore as MetaStore: refuted (D3). The scan runs between the publish of a merge
   output and the removal of its sources: every merged row twice, nil error. *)
Theorem C14_fs_refuted :
  exists s q, mrun FsMeta m0 fs_dup = Some s /\ nth_error (s_queries s) 0 = Some q /\
    q_done q = true /\ q_err q = false /\ q_acked0 q = [1; 2] /\ q_got q = [1; 2; 1; 2] /\ ~ NoDup (q_got q).
Proof. exact fs_dup_refuted. Qed.
Print Assumptions C14_fs_refuted.

(* ... and the other side of the same window: the readdir snapshot predates the publish, the
   per-file parse follows the removal: acknowledged rows silently missing, nil error. *)
Theorem C14_fs_refuted_missing :
  exists s q, mrun FsMeta m0 fs_miss = Some s /\ nth_error (s_queries s) 0 = Some q /\
    q_done q = true /\ q_err q = false /\ q_acked0 q = [1; 2] /\ q_got q = [] /\ ~ incl (q_acked0 q) (q_got q).
Proof. exact fs_miss_refuted. Qed.
Print Assumptions C14_fs_refuted_missing.

(* On the memory store the second schedule ends in an error instead (the property's last
   sentence): the snapshot still names the sources, their reads fail, Err() is non-nil. *)
Theorem C14_mem_reports_error :
  exists s q, mrun MemStore m0 mem_sched = Some s /\ nth_error (s_queries s) 0 = Some q /\ q_done q = true /\ q_err q = true.
Proof. exact mem_sched_err. Qed.
Print Assumptions C14_mem_reports_error.

(* FileSystemDataStore as MetaStore, histories without merges (queries x flushes x failed flushes,
   every interleaving): the non-atomic scan is harmless when files only appear.

   This is C14_fs_no_overlap_partial. The intended restricted statement,

     forall ls s i q, mrun FsMeta m0 ls = Some s -> nth_error (s_queries s) i = Some q ->
       q_done q = true -> q_err q = false -> q_overlap q = false ->
       NoDup (q_got q) /\ incl (q_acked0 q) (q_got q) /\ incl (q_got q) (s_ingested s)

   ([q_overlap q = false]: no merge was running at any moment of the query; merges before and after
   it are allowed) is proved here only for histories that contain no merge step at all; the general
   form needs the invariant to be carried across completed merges as well. The correspondence
   exercises the general form (every FS run whose query no merge overlaps must satisfy the predicate). *)
Theorem C14_fs_no_merge_partial : forall ls s i q,
  forallb no_merge ls = true -> mrun FsMeta m0 ls = Some s -> nth_error (s_queries s) i = Some q ->
  q_done q = true -> q_err q = false ->
  NoDup (q_got q) /\ incl (q_acked0 q) (q_got q) /\ incl (q_got q) (s_ingested s).
Proof. exact fs_no_merge_consistent. Qed.
Print Assumptions C14_fs_no_merge_partial.

(* non-vacuity of C14_mem: a query overlapping a flush and a whole merge finishes with a nil error *)
Example C14_nonvacuous :
  exists s q, mrun MemStore m0 mem_ok = Some s /\ nth_error (s_queries s) 0 = Some q /\
    q_done q = true /\ q_err q = false /\ q_overlap q = true /\ q_got q = [1; 2] /\ s_acked s = [1; 2; 3].
Proof. exact mem_ok_run. Qed.

(* non-vacuity of C14_fs_no_merge_partial: the scan lists a reservation that is published before it
   is parsed; the query returns the acknowledged rows once, plus the new file's rows *)
Example C14_fs_nonvacuous :
  exists s q, forallb no_merge fs_ok = true /\ mrun FsMeta m0 fs_ok = Some s /\ nth_error (s_queries s) 0 = Some q /\
    q_done q = true /\ q_err q = false /\ q_acked0 q = [1; 2] /\ q_got q = [3; 1; 2].
Proof. exact fs_ok_run. Qed.
