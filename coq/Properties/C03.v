(* C03 — Returned rows faithfully reproduce the stored JSON and are independent.
   Statements only; every proof is [exact <lemma from Proofs/>].
   Partial by nature (DESIGN 1.4): that gjson's parse and encoding/json's decoder agree on every
   scalar, and that no string aliases a buffer through unsafe.String, are library / runtime facts
   exercised by the correspondence (fidelity against the JSON round trip, pointer-range check,
   ownership-log replay), not theorems. *)
From BS Require Import Lib.Bytes Model.Framing Model.Validate Model.FilterRegion Model.Footer Model.ScanPool Model.Materialize
  Proofs.FramingProofs Proofs.FilterRegionProofs Proofs.FooterProofs Proofs.ScanPoolProofs Proofs.MaterializeProofs.
From Coq Require Import List ZArith NArith Bool Lia.
Import ListNotations.
Open Scope Z_scope.

(* what is framed is what is scanned, for any rows that fit the uint32 length prefix *)
Theorem C03_frame_roundtrip : forall rows, Forall small_row rows -> scan (frame rows) = (rows, true).
Proof. exact scan_frame. Qed.
Print Assumptions C03_frame_roundtrip.

(* every scanned row is a sub-slice of the block's data (offset and length inside it): views, no allocation *)
Theorem C03_scan_views : forall data rows ok, bytes_ok data -> scan data = (rows, ok) ->
  Forall small_row rows /\
  (exists tail, data = frame rows ++ tail /\ (ok = true -> tail = [])) /\
  Forall (fun p => 4 <= fst p /\ 0 <= snd p /\ fst p + snd p <= lenZ data) (scan_extents data).
Proof. exact scan_sound. Qed.
Print Assumptions C03_scan_views.

(* what a block stores decodes (checksum, decompression) to the framed rows: the bytes scanned at
   query time are byte for byte the rows marshaled at ingest *)
Theorem C03_store_roundtrip : forall crc decompress compress filters_of entries,
  (forall x, compress CNone x = x) ->
  (forall k x, k <> CNone -> k <> COther -> decompress k (compress k x) = Some x) ->
  forall cfg rows off rel, cfg <> COther -> Forall small_row rows ->
  let d := built_desc crc compress filters_of entries cfg rows in
  decode_block crc decompress (mkblock off rel d) (d_c d) = Some (frame rows) /\ scan (frame rows) = (rows, true).
Proof. exact store_roundtrip. Qed.
Print Assumptions C03_store_roundtrip.

(* in every state any interleaving of any number of scans, pool gets and puts, buffer fills, row
   materializations and caller mutations can reach: delivered rows are pairwise distinct regions,
   none of them a pooled buffer or a buffer some scan holds, and no step other than the caller's own
   write to a row changes that row's content *)
Theorem C03_independent : forall n evs s, oreplay (o_init n) evs = Some s ->
  NoDup (o_delivered s) /\
  (forall d, In d (o_delivered s) -> ~ In d (map fst (o_held s)) /\ ~ In d (map fst (o_pooled s))) /\
  (forall e s' d, ostep s e = Some s' -> In d (o_delivered s) -> (forall v, e <> OMut d v) -> o_heap s' d = o_heap s d).
Proof. exact ownership_independent. Qed.
Print Assumptions C03_independent.

(* a row is materialized from a buffer its scan still holds exclusively, into a fresh region holding a copy *)
Theorem C03_row_from_held : forall s r s', oinv s -> ostep s (ORow r) = Some s' ->
  In r (map fst (o_held s)) /\ ~ In r (map fst (o_pooled s)) /\
  exists d, o_delivered s' = d :: o_delivered s /\ o_heap s' d = o_heap s r /\ ~ In d (o_delivered s) /\ d <> r.
Proof. exact row_from_held. Qed.
Print Assumptions C03_row_from_held.

(* readPooledBlockRowData as a program over the pool (uncompressed rows -- spelled "none" or, in legacy
   metadata, "" -- are the read buffer itself; a codec decodes into a second buffer and the first goes
   straight back): when the read returns, the buffer the caller scans is held by this scan; no
   getScanBuffer call of any scan can be handed it before release; release is enabled and afterwards
   a second release or a late materialization from it is rejected *)
Theorem C03_pooled_read_holds : forall k c d csize ccap dsize dcap s s' evs r,
  pooled_read k c d csize ccap dsize dcap = (evs, r) -> oreplay s evs = Some s' ->
  assoc_n r (o_held s') = Some (if pooled_self k then ccap else dcap) /\
  (forall size cap, ostep s' (OGet r size cap) = None) /\
  exists s'', oreplay s' (pooled_release k ccap dcap r) = Some s'' /\
              assoc_n r (o_held s'') = None /\
              (forall cap, ostep s'' (OPut r cap) = None) /\ ostep s'' (ORow r) = None.
Proof. exact pooled_read_holds. Qed.
Print Assumptions C03_pooled_read_holds.

(* pool classes (bits.Len arithmetic): a buffer filed under class k by put has capacity >= 2^k >= any
   request served from class k, and both class indexes stay inside the pool array *)
Theorem C03_bufclass : forall size c k, put_class c = Some k -> get_class size = GClass k -> size <= c.
Proof. exact pool_fit. Qed.
Print Assumptions C03_bufclass.

Theorem C03_get_class_range : forall size k, get_class size = GClass k -> size <= 2 ^ k /\ minShift <= k <= maxShift.
Proof. exact get_class_fits. Qed.
Print Assumptions C03_get_class_range.

Theorem C03_put_class_range : forall c k, put_class c = Some k -> 2 ^ k <= c /\ minShift <= k <= maxShift.
Proof. exact put_class_covers. Qed.
Print Assumptions C03_put_class_range.

(* materialized objects (fixed code): every key carries the value of its last member, as the
   encoding/json round trip does *)
Theorem C03_materialize_last_wins : forall V k members, get_key V k (mat_last V members) = last_member V k members.
Proof. exact mat_last_spec. Qed.
Print Assumptions C03_materialize_last_wins.

(* the pinned tree (finding D2, fixed in the repo): gjson's Value keeps the first duplicate -- regression witness *)
Theorem C03_pinned_first_wins_refuted :
  exists (members : list (str * N)) k, get_key N k (mat_first N members) <> last_member N k members.
Proof. exact mat_first_refuted. Qed.
Print Assumptions C03_pinned_first_wins_refuted.

(* non-vacuity: a trace with two scans, buffer reuse across them, rows delivered and mutated is accepted *)
Example C03_nonvacuous :
  exists s, oreplay (o_init 0)
    [OGet 0 3000 4096; OFill 0 7; ORow 0; OPut 0 4096; OGet 0 2500 4096; OGet 2 100 1024; OFill 0 9; ORow 0; OMut 1 5; ORow 2; OPut 2 1024; OPut 0 4096]%N = Some s
    /\ o_delivered s = [4; 3; 1]%N /\ o_heap s 1%N = 5%N /\ o_heap s 3%N = 9%N.
Proof. eexists. vm_compute. repeat split; reflexivity. Qed.
