(* placeholder *)
