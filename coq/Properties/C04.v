(* C04 — Prefilters never prune a block holding a row that satisfies them.
   Statements only; every proof is [exact <lemma from Proofs/MinMaxProofs.v>]. *)
From BS Require Import Lib.Bytes Model.MinMax Proofs.MinMaxProofs.
From Coq Require Import ZArith List Lia.
Open Scope Z_scope.

(* ConvertToMinMaxInt64 returns [clamp floor, clamp ceil] of the exact value, for every
   Go numeric kind, named or not, of any magnitude. *)
Theorem C04_conv_brackets : forall v x lo hi,
  gv_wf v -> gv_exact v = Some x -> conv v = Some (lo, hi) -> brackets x lo hi.
Proof. exact conv_brackets. Qed.
Print Assumptions C04_conv_brackets.

(* every integer or float value that is not NaN is indexed (named types included) *)
Theorem C04_indexed_total : forall v x, gv_exact v = Some x -> exists lo hi, conv v = Some (lo, hi).
Proof. exact conv_total. Qed.
Print Assumptions C04_indexed_total.

(* EvaluateMinMaxCondition never excludes a range that covers a satisfying value: all ten
   operators, all int64 operands, all saturation states *)
Theorem C04_minmax : forall x lo hi mn mx,
  brackets x lo hi -> in64 mn -> in64 mx -> mn <= lo -> hi <= mx ->
  forall c, ncond_in64 c -> val_sat x c = true -> eval_minmax (mn, mx) c = true.
Proof. exact minmax_core. Qed.
Print Assumptions C04_minmax.

(* every AND/OR tree (nil, empty, unknown nodes included) inherits it *)
Theorem C04_tree : forall b r e,
  covers_row b r -> pexpr_in64 e -> row_pexpr r e = true -> eval_pexpr b e = true.
Proof. exact tree_sound. Qed.
Print Assumptions C04_tree.

(* the ingest loop's index covers every indexed value of every buffered row *)
Theorem C04_update : forall keys rs r k v lo hi,
  In r rs -> In k keys -> assoc k (r_vals r) = Some v -> conv v = Some (lo, hi) ->
  mm_covers (index_rows keys rs) k lo hi.
Proof. exact index_rows_covers. Qed.
Print Assumptions C04_update.

(* merged ranges are unions: whatever either source covered stays covered *)
Theorem C04_merge_union_left : forall m1 m2 k lo hi,
  mm_covers m1 k lo hi -> mm_covers (merge_mm m1 m2) k lo hi.
Proof. exact merge_mm_keeps. Qed.
Print Assumptions C04_merge_union_left.

Theorem C04_merge_union_right : forall m1 m2 k lo hi,
  mm_covers m2 k lo hi -> mm_covers (merge_mm m1 m2) k lo hi.
Proof. exact merge_mm_covers_right. Qed.
Print Assumptions C04_merge_union_right.

(* the pinned tree (before fix D1) violated C04_indexed_total: kept as a regression witness *)
Theorem C04_pinned_named_refuted :
  exists v x, gv_wf v /\ gv_exact v = Some x /\ conv_pinned v = None.
Proof. exact conv_pinned_named_refuted. Qed.
Print Assumptions C04_pinned_named_refuted.

(* non-vacuity: a float beyond int64 in a saturated block satisfies the premises of C04_minmax *)
Example C04_nonvacuous :
  let x := XFin (3 * 2 ^ 70) 1 in
  let c := {| n_op := OpGT; n_val := MaxInt64; n_vals := []; n_min := 0; n_max := 0 |} in
  brackets x MaxInt64 MaxInt64 /\ val_sat x c = true /\ eval_minmax (5, MaxInt64) c = true.
Proof. cbv zeta. split; [|split; vm_compute; reflexivity]. unfold brackets, in64, MaxInt64, MinInt64. lia. Qed.

(* ---- kernel ties (DESIGN.md 10.7).  The Go functions the theorems above are about are translated
   from the current source on every run (Generated/Kernels.v); each tie states that the translated
   function equals the model definition used above, on the whole range of the Go types
   (Generated/KernelTie.v; `True` for a kernel the translator reports as not translated). ---- *)
From BS Require Import Generated.KernelTie Proofs.KTie_clamp_u Proofs.KTie_update_mm Proofs.KTie_eval_minmax Proofs.KTie_eval_numeric Proofs.KTie_eval_string.

Theorem C04_kernel_tie_clamp_u : tie_clamp_u.
Proof. exact k_clamp_u_tie. Qed.
Print Assumptions C04_kernel_tie_clamp_u.

Theorem C04_kernel_tie_update_mm : tie_update_mm.
Proof. exact k_update_mm_tie. Qed.
Print Assumptions C04_kernel_tie_update_mm.

Theorem C04_kernel_tie_eval_minmax : tie_eval_minmax.
Proof. exact k_eval_minmax_tie. Qed.
Print Assumptions C04_kernel_tie_eval_minmax.

Theorem C04_kernel_tie_eval_numeric : tie_eval_numeric.
Proof. exact k_eval_numeric_tie. Qed.
Print Assumptions C04_kernel_tie_eval_numeric.

Theorem C04_kernel_tie_eval_string : tie_eval_string.
Proof. exact k_eval_string_tie. Qed.
Print Assumptions C04_kernel_tie_eval_string.
