(* C23 - Query statistics account for every evaluated block exactly once. *)
From BS Require Import Model.Stats Model.Cursor Model.HandlePool Model.QueryLTS
  Proofs.StatsProofs Proofs.CursorProofs Proofs.QueryLTSProofs Proofs.QueryInvProofs Proofs.DeliveryProofs.
From Coq Require Import List ZArith Bool Arith.
Import ListNotations.
Local Open Scope Z_scope.

(* Stats(): the totals are the per-block sums, every entry is counted as processed or skipped *)
Theorem C23_totals : forall matched l,
  let s := stats_of matched l in
  qs_processed s = count_if (fun b => negb (bs_skipped b)) l /\
  qs_skipped s = count_if bs_skipped l /\
  qs_rows s = sumZ bs_rows l /\ qs_bytes s = sumZ bs_bytes l /\
  qs_matched s = matched /\ qs_blocks s = l /\
  qs_processed s + qs_skipped s = Z.of_nat (length l).
Proof. exact stats_totals. Qed.
Print Assumptions C23_totals.

(* in every reachable state of the pipeline, an entry of a pruned block carries zero rows and bytes *)
Theorem C23_skipped_zero : forall fx cap es s q,
  reachable fx cap es s -> In q (g_qs s) -> forallb skipped_zero (m_stats (c_m (q_cur q))) = true.
Proof. exact stats_skipped_zero. Qed.
Print Assumptions C23_skipped_zero.

(* ... so skipped blocks contribute nothing to RowsScanned / BytesScanned *)
Theorem C23_skipped_contribute_nothing : forall l,
  forallb skipped_zero l = true ->
  sumZ bs_rows l = sumZ bs_rows (filter (fun b => negb (bs_skipped b)) l) /\
  sumZ bs_bytes l = sumZ bs_bytes (filter (fun b => negb (bs_skipped b)) l).
Proof. exact skipped_contribute_nothing. Qed.
Print Assumptions C23_skipped_contribute_nothing.

(* iteration ran to the end of the closed channel: RowsMatched = rows returned *)
Theorem C23_matched : forall fx s,
  creachable fx s -> complete s = true -> h_matched (c_h s) = Z.of_nat (length (n_returned (c_n s))).
Proof. exact matched_complete. Qed.
Print Assumptions C23_matched.

(* a scan that was not disturbed records RowsProcessed = the block's row count (and every matched row delivered) *)
Theorem C23_full_rows_scan : forall e r sd w v w' effs j rows bytes,
  bw_local e r sd w v = Some (w', effs) -> bw_pc w' = BEnded j rows bytes ->
  (exists todo, bw_pc w = BScan j todo true \/ bw_pc w = BEnding j true todo) ->
  exists b, job_block e j = Some b /\ scan_todo (bw_pc w) = Some (j, []) /\ rows = b_rows b /\ bytes = b_bytes b.
Proof. exact clean_scan_delivers_all. Qed.
Print Assumptions C23_full_rows_scan.

(* Stats is complete once Next has returned false: nothing is recorded after the workers are done *)
Theorem C23_frozen : forall fx s ls s',
  m_finished (c_m s) = true -> cursor_steps fx s ls = Some s' ->
  m_finished (c_m s') = true /\ m_errs (c_m s') = m_errs (c_m s) /\ cur_stats s' = cur_stats s.
Proof. exact frozen. Qed.
Print Assumptions C23_frozen.

(* PARTIAL.  Not proved over the composed pipeline (they need the invariant that a block travels file worker ->
   job channel -> block worker exactly once), but evaluated as predicates on the Stats() of every replayed query:
     C23_once                - no (file, block offset) twice in BlockStats            [keys_nodup]
     C23_all_or_none         - for queries not terminated early (internal ctx not cancelled before the workers
                               were done): all or none of a file's prefilter-surviving blocks   [all_or_none]
     C23_returned_processed  - the block of every returned row is listed as processed       [returned_listed]
     C23_full_rows           - on clean completion every processed block has RowsProcessed = TotalRows [full_rows]
   (Cases/RunnerQ.v, q_violates). *)
