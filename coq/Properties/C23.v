(* C23 - Query statistics account for every evaluated block exactly once. *)
From BS Require Import Model.Stats Model.Cursor Model.HandlePool Model.QueryLTS
  Proofs.StatsProofs Proofs.CursorProofs Proofs.QueryLTSProofs Proofs.QueryInvProofs Proofs.DeliveryProofs Proofs.QueryTokenProofs.
From Coq Require Import List ZArith Bool Arith.
Import ListNotations.
Local Open Scope Z_scope.

(* Stats(): the totals are the per-block sums, every entry is counted as processed or skipped *)
Theorem C23_totals : forall matched l,
  let s := stats_of matched l in
  qs_processed s = count_if (fun b => negb (bs_skipped b)) l /\
  qs_skipped s = count_if bs_skipped l /\
  qs_rows s = sumZ bs_rows l /\ qs_bytes s = sumZ bs_bytes l /\
  qs_matched s = matched /\ qs_blocks s = l /\
  qs_processed s + qs_skipped s = Z.of_nat (length l).
Proof. exact stats_totals. Qed.
Print Assumptions C23_totals.

(* in every reachable state of the pipeline, an entry of a pruned block carries zero rows and bytes *)
Theorem C23_skipped_zero : forall fx cap es s q,
  reachable fx cap es s -> In q (g_qs s) -> forallb skipped_zero (m_stats (c_m (q_cur q))) = true.
Proof. exact stats_skipped_zero. Qed.
Print Assumptions C23_skipped_zero.

(* ... so skipped blocks contribute nothing to RowsScanned / BytesScanned *)
Theorem C23_skipped_contribute_nothing : forall l,
  forallb skipped_zero l = true ->
  sumZ bs_rows l = sumZ bs_rows (filter (fun b => negb (bs_skipped b)) l) /\
  sumZ bs_bytes l = sumZ bs_bytes (filter (fun b => negb (bs_skipped b)) l).
Proof. exact skipped_contribute_nothing. Qed.
Print Assumptions C23_skipped_contribute_nothing.

(* iteration ran to the end of the closed channel: RowsMatched = rows returned *)
Theorem C23_matched : forall fx s,
  creachable fx s -> complete s = true -> h_matched (c_h s) = Z.of_nat (length (n_returned (c_n s))).
Proof. exact matched_complete. Qed.
Print Assumptions C23_matched.

(* a scan that was not disturbed records RowsProcessed = the block's row count (and every matched row delivered) *)
Theorem C23_full_rows_scan : forall e r sd w v w' effs j rows bytes,
  bw_local e r sd w v = Some (w', effs) -> bw_pc w' = BEnded j rows bytes ->
  (exists todo, bw_pc w = BScan j todo true \/ bw_pc w = BEnding j true todo) ->
  exists b, job_block e j = Some b /\ scan_todo (bw_pc w) = Some (j, []) /\ rows = b_rows b /\ bytes = b_bytes b.
Proof. exact clean_scan_delivers_all. Qed.
Print Assumptions C23_full_rows_scan.

(* Stats is complete once Next has returned false: nothing is recorded after the workers are done *)
Theorem C23_frozen : forall fx s ls s',
  m_finished (c_m s) = true -> cursor_steps fx s ls = Some s' ->
  m_finished (c_m s') = true /\ m_errs (c_m s') = m_errs (c_m s) /\ cur_stats s' = cur_stats s.
Proof. exact frozen. Qed.
Print Assumptions C23_frozen.

(* no block twice in BlockStats - in every reachable state of the pipeline, whatever was cancelled, closed or
   failed - provided the MetaStore yields each file at most once and block offsets within a file are distinct *)
Theorem C23_once : forall fx cap es s q,
  Forall (fun ec => NoDup (item_ids (e_items (fst ec)))) es ->
  reachable fx cap es s -> In q (g_qs s) -> offsets_distinct (q_env q) ->
  keys_nodup (m_stats (c_m (q_cur q))) = true.
Proof. exact stats_once. Qed.
Print Assumptions C23_once.

(* the Stats list is, key for key and in order, the list of blocks the pipeline recorded (ghost [q_recorded]) *)
Theorem C23_stats_are_recorded : forall fx cap es s q,
  reachable fx cap es s -> In q (g_qs s) ->
  map bs_key (m_stats (c_m (q_cur q))) = map (jkey (q_env q)) (q_recorded q) /\
  Forall (fun j => job_block (q_env q) j <> None) (q_recorded q).
Proof. exact stats_are_recorded. Qed.
Print Assumptions C23_stats_are_recorded.

(* all or none: a query that was not terminated early (its context was not cancelled - by the caller or by Close -
   while the pipeline ran; failures are allowed) and whose job channels hold no untaken job when the workers are
   done has recorded, exactly once each, every block of every file handed to the file workers, and no block of
   any other file.  (That an uncancelled pipeline leaves no job behind in a channel is the one step not proved
   over the composition; the runner evaluates it on every replayed log.) *)
Theorem C23_all_or_none : forall fx cap es s q fe i,
  Forall (fun ec => NoDup (item_ids (e_items (fst ec)))) es ->
  reachable fx cap es s -> In q (g_qs s) ->
  m_finished (c_m (q_cur q)) = true -> not_cancelled q = true -> ftok q = [] -> btok q = [] ->
  find_file (f_id fe) (e_items (q_env q)) = Some fe -> (i < length (f_blocks fe))%nat ->
  (In (f_id fe) (q_started q) -> count_occ job_dec (q_recorded q) (f_id fe, i) = 1%nat) /\
  (~ In (f_id fe) (q_started q) -> count_occ job_dec (q_recorded q) (f_id fe, i) = 0%nat).
Proof. exact recorded_file_all. Qed.
Print Assumptions C23_all_or_none.

(* block conservation behind both: every block of a started file is in exactly one place - a job channel, a
   worker's hands, the recorded list - at most once, and exactly once while the query is not cancelled *)
Theorem C23_block_conservation : forall fx cap es s q,
  reachable fx cap es s -> In q (g_qs s) ->
  (forall x, total_tok q x <= count_occ job_dec (started_tok q) x)%nat /\
  (not_cancelled q = true -> forall x, total_tok q x = count_occ job_dec (started_tok q) x).
Proof. exact block_conservation. Qed.
Print Assumptions C23_block_conservation.

(* PARTIAL.  Evaluated as predicates on the Stats() of every replayed query, not proved over the composition:
     C23_returned_processed  - the block of every returned row is listed as processed       [returned_listed]
     C23_full_rows           - on clean completion every processed block has RowsProcessed = TotalRows [full_rows]
                               (per scan it is C23_full_rows_scan above)
     the channel-emptiness premise of C23_all_or_none                                       [channels_drained]
   (Cases/RunnerQ.v, q_violates). *)
