(* C19 — Corrupted or malformed files fail cleanly and never yield wrong rows.
   Statements only; every proof is [exact <lemma from Proofs/>].  All framing fields are int64
   values; the models compute with explicit wrap-around (Lib/Wrap64.v), so "in bounds" below is a
   statement about plain integers derived from wrapped arithmetic.  CRC32C, the bloom decoder,
   the JSON decoder and the decompressors are arbitrary functions (section variables). *)
From BS Require Import Lib.Bytes Lib.Wrap64 Lib.Crc32c Model.Framing Model.Validate Model.FilterRegion Model.Footer
  Proofs.FramingProofs Proofs.ValidateProofs Proofs.FilterRegionProofs Proofs.FooterProofs.
From Coq Require Import List ZArith NArith Bool Lia.
Import ListNotations.
Open Scope Z_scope.

(* FileMetadata.validate accepts exactly the metadata whose region, row-data extents and filter
   sections lie inside the data area (bounds by subtraction: no value wraps on the way) *)
Theorem C19_validate_bounds : forall m limit, meta_i64 m -> i64 limit ->
  (validate m limit = true <-> meta_in m limit).
Proof. exact validate_spec. Qed.
Print Assumptions C19_validate_bounds.

(* planBlockFilterReads: regionStart + regionSize is added in int64 and the regionEnd < regionStart
   test rejects exactly the sums that wrapped; accepted plans have every section inside [start, end] *)
Theorem C19_plan_rejects_overflow : forall blocks roff rsize,
  i64 roff -> i64 rsize -> Forall block_i64 blocks ->
  match plan_reads blocks roff rsize with
  | Some (rs, re, has) =>
      rs = roff /\ re = roff + rsize /\ 0 <= rs /\ rs <= re /\ i64 re /\
      Forall (section_in rs re) blocks /\ (has = true <-> Exists (fun b => 0 < bfs b) blocks)
  | None =>
      roff < 0 \/ rsize < 0 \/ Max64 < roff + rsize \/ ~ Forall (section_in roff (roff + rsize)) blocks
  end.
Proof. exact plan_reads_spec. Qed.
Print Assumptions C19_plan_rejects_overflow.

(* every read ReadFileMetadata plans on any file of any content lies in [0, size) -- hence no
   request (allocation) exceeds the file's size -- and metadata it returns is in bounds *)
Theorem C19_read_plan_in_bounds : forall crc dec_ok jdec,
  (forall s m, jdec s = Some m -> meta_i64 m) ->
  forall file, lenZ file <= Max64 ->
    Forall (ext_in_file (lenZ file)) (fst (read_metadata crc dec_ok jdec file)) /\
    forall m sz ff, snd (read_metadata crc dec_ok jdec file) = Some (m, sz, ff) ->
      sz = lenZ file /\ sz_ok_stmt (lenZ file) m.
Proof. exact read_metadata_safe. Qed.
Print Assumptions C19_read_plan_in_bounds.

(* with metadata ReadFileMetadata returned, ReadDataBlockRowData and ReadDataBlockBloomFilters
   read (and size their buffers by) extents inside the file *)
Theorem C19_helper_reads_in_file : forall crc dec_ok jdec,
  (forall s m, jdec s = Some m -> meta_i64 m) ->
  forall file m sz ff b, lenZ file <= Max64 ->
    snd (read_metadata crc dec_ok jdec file) = Some (m, sz, ff) -> In b (m_blocks m) ->
    ext_in_file (lenZ file) (rdo b, rds b) /\ 0 <= bfs b /\ (bfs b = 0 \/ ext_in_file (lenZ file) (bfo b, bfs b)).
Proof. exact accepted_blocks_in_file. Qed.
Print Assumptions C19_helper_reads_in_file.

(* the chunked region reader: after a successful plan, for any evaluation order, every chunk read
   lies inside the region, is at most max(section, cap) bytes, and every block is served from the
   bytes at its recorded offset (never from the wrong bytes), with no read failure *)
Theorem C19_cursor_reads_in_region : forall blocks rs re target fsize order c,
  0 <= rs -> rs <= re -> i64 re -> re <= fsize -> 0 <= target ->
  Forall block_i64 blocks -> Forall (section_in rs re) blocks ->
  chunk_ok rs re c -> Forall (fun i => (i < length blocks)%nat) order ->
  Forall2 (fun i st => exists b, nth_error blocks i = Some b /\ step_good rs re target b st)
          order (cursor_pass blocks rs re target fsize c order).
Proof. exact cursor_pass_good. Qed.
Print Assumptions C19_cursor_reads_in_region.

(* BlockRowScanner: on arbitrary bytes every row handed out lies inside the data, the rows handed
   out are a framed prefix of the data, and a clean end means the data was exactly a framing *)
Theorem C19_scan_safe : forall data rows ok, bytes_ok data -> scan data = (rows, ok) ->
  Forall small_row rows /\
  (exists tail, data = frame rows ++ tail /\ (ok = true -> tail = [])) /\
  Forall (fun p => 4 <= fst p /\ 0 <= snd p /\ fst p + snd p <= lenZ data) (scan_extents data).
Proof. exact scan_sound. Qed.
Print Assumptions C19_scan_safe.

(* parseFilterSection accepts a section only if it is, byte for byte, the canonical encoding of the
   filters it returns -- checksum included, no trailing bytes, no length beyond the section *)
Theorem C19_parse_section_safe : forall crc dec_ok, (forall s, (crc s < 4294967296)%N) -> forall s fs, bytes_ok s ->
  parse_section crc dec_ok s = Some fs -> encode_section crc fs = Some s /\ filters_ok dec_ok fs.
Proof. exact parse_section_sound. Qed.
Print Assumptions C19_parse_section_safe.

(* CRC before parse: a section whose stored checksum does not match is rejected *)
Theorem C19_section_crc_gate : forall crc dec_ok s fs, parse_section crc dec_ok s = Some fs ->
  Z.of_N (crc (firstn (Z.to_nat (lenZ s - 4)) s)) = rd32 (skipn (Z.to_nat (lenZ s - 4)) s).
Proof. exact parse_section_crc_gate. Qed.
Print Assumptions C19_section_crc_gate.

(* CRC before decompression and scanning: a block whose row data does not hash to the recorded
   value decodes to nothing *)
Theorem C19_crc_gate : forall crc decompress b c d, b_has_hash b = true ->
  decode_block crc decompress b c = Some d -> crc c = b_hash b.
Proof. exact decode_block_crc_gate. Qed.
Print Assumptions C19_crc_gate.

(* decompression output is bounded by UncompressedSize *)
Theorem C19_decode_size_bound : forall crc decompress b c d, b_comp b <> CNone ->
  decode_block crc decompress b c = Some d -> lenZ d = b_usize b /\ 0 <= b_usize b.
Proof. exact decode_block_size. Qed.
Print Assumptions C19_decode_size_bound.

(* with the metadata held by the MetaStore, whatever the file's bytes have become, a block read
   fails or returns exactly the rows it held -- for every mutation that is not a CRC32C collision *)
Theorem C19_no_wrong_rows : forall crc decompress file file' b rows rows',
  b_has_hash b = true ->
  read_rows crc decompress file b = Some rows -> read_rows crc decompress file' b = Some rows' ->
  (forall c c', read_at file (rdo b) (rds b) = Some c -> read_at file' (rdo b) (rds b) = Some c' ->
                crc c' = crc c -> c' = c) ->
  rows' = rows.
Proof. exact read_rows_exact_or_error. Qed.
Print Assumptions C19_no_wrong_rows.

(* non-vacuity: metadata validate accepts; and a check that adds offset and size before comparing
   (instead of subtracting) accepts out-of-bounds metadata that validate rejects *)
Example C19_nonvacuous :
  let m := {| m_roff := 600; m_rsize := 300; m_ffs := 0; m_cnt := (0, 0, 0);
              m_blocks := [ {| rdo := 0; rds := 600; bfo := 600; bfs := 300; b_rows := 1; b_usize := 0;
                               b_comp := CNone; b_hash := 0%N; b_has_hash := false; b_cnt := (0, 0, 0) |} ] |} in
  validate m 1000 = true /\ plan_reads (m_blocks m) 600 300 = Some (600, 900, true).
Proof. vm_compute. split; reflexivity. Qed.

Example C19_additive_check_unsound :
  exists m limit, meta_i64 m /\ i64 limit /\ validate_additive m limit = true /\ ~ meta_in m limit /\ validate m limit = false.
Proof. exact validate_additive_unsound. Qed.

(* known finding c19-valid-section-splice: the guarantee of C19_no_wrong_rows has no counterpart for
   filter sections -- kept as the refuted statement with its witness *)
Theorem C19_filter_section_unbound_refuted :
  exists (file file' : str) (b : blockJ) (fs fs' : filters),
    lenZ file' = lenZ file /\
    read_filters crc32c (fun _ => true) file b = Some fs /\
    read_filters crc32c (fun _ => true) file' b = Some fs' /\ fs' <> fs.
Proof. exact filter_section_unbound. Qed.
Print Assumptions C19_filter_section_unbound_refuted.

(* ---- kernel ties (DESIGN.md 10.7).  The Go functions the theorems above are about are translated
   from the current source on every run (Generated/Kernels.v); each tie states that the translated
   function equals the model definition used above, on the whole range of the Go types
   (Generated/KernelTie.v; `True` for a kernel the translator reports as not translated). ---- *)
From BS Require Import Generated.KernelTie Proofs.KTie_validate_fs Proofs.KTie_validate Proofs.KTie_plan_reads.

Theorem C19_kernel_tie_validate_fs : tie_validate_fs.
Proof. exact k_validate_fs_tie. Qed.
Print Assumptions C19_kernel_tie_validate_fs.

Theorem C19_kernel_tie_validate : tie_validate.
Proof. exact k_validate_tie. Qed.
Print Assumptions C19_kernel_tie_validate.

Theorem C19_kernel_tie_plan_reads : tie_plan_reads.
Proof. exact k_plan_reads_tie. Qed.
Print Assumptions C19_kernel_tie_plan_reads.
