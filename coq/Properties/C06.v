(* C06 - acknowledgements are truthful: nil means durable, error means absent.
   Store outcomes are carried by the labels [LSEnd k ok], so the statements hold for every
   fault oracle: failures at any subset of store-call positions. *)
From BS Require Import Model.Pipeline Proofs.PipelineBase Proofs.PipelineTruth Proofs.PipelineProofs.
From Coq Require Import List ZArith Arith.
Import ListNotations.

(* nil on the done channel of a batch with rows: its rows are visible exactly once, and they were made
   visible by an Update ok that followed a Close ok of the file holding them *)
Theorem C06_nil_durable : forall c s r, reachable c s -> ack s r = Some RNil -> is_rows s r = true ->
  count_occ Nat.eq_dec (visible s) r = 1%nat /\ exists ws, In (ws, true) (commits s) /\ In r ws.
Proof. exact nil_durable. Qed.
Print Assumptions C06_nil_durable.

(* committed => Close ok before Update ok, for every commit *)
Theorem C06_close_before_update : forall c s ws b, reachable c s -> In (ws, b) (commits s) -> b = true.
Proof. exact commits_closed. Qed.
Print Assumptions C06_close_before_update.

(* an error on the done channel: no row of the batch is visible in any later state (MetaStore.Update is
   atomic in the model: a failed Update adds nothing) *)
Theorem C06_err_absent : forall c s r, reachable c s -> ack s r = Some RErr ->
  forall ls s', steps c s ls s' -> ~ In r (visible s').
Proof. exact err_absent. Qed.
Print Assumptions C06_err_absent.

(* a batch with an unmarshalable row leaves no trace: buffer, flush queue and visible rows unchanged *)
Theorem C06_invalid_no_trace : forall c s s', step c s LActorReject = Some s' ->
  buf s' = buf s /\ fch s' = fch s /\ visible s' = visible s /\
  exists r, apc s = AHold r /\ apc s' = AAckNow r RErr.
Proof. exact invalid_no_trace. Qed.
Print Assumptions C06_invalid_no_trace.

(* visible rows never disappear and never appear twice *)
Theorem C06_visible_nodup : forall c s, reachable c s -> NoDup (visible s).
Proof. exact visible_nodup. Qed.
Print Assumptions C06_visible_nodup.
