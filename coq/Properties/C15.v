(* C15 — The filesystem store is crash-consistent.
   Statements only; every proof is [exact <lemma from Proofs/FsCrashProofs.v>].

   State and steps are those of Model/FsStore.v (one step per os.* call, any of them may fail);
   Model/FsCrash.v adds the engine's use of the store ([erun]: store steps under a discipline, and
   [EAck a] = the done channels of writer a's flush receive nil, allowed only after its Close
   returned nil) and the crash semantics of DESIGN appendix C:
     process crash  = the volatile directory and page-cache contents;
     power loss     = for every name independently its durable binding or any binding it went
                      through since the last directory fsync; for every inode any content between its
                      fsynced bytes and its volatile bytes ([power_image]).
   A crash may happen in ANY reachable state, i.e. at every os-call boundary of every call.
   [recover] = the directory scan of a fresh engine on the image.
   Disciplines: [flush_disc] (flush-only histories: ingest, flush, failed flushes with
   Abort/TombstoneFile cleanup; no file of an acknowledged flush is removed), [merge_disc rows]
   (a live file may also be removed once another successfully closed live file holds all its
   rows -- what merge() does: outputs are closed before Update removes the sources).
   Rows are a ghost: [rows a] = the rows the engine wrote into writer a's file. *)
From BS Require Import Lib.Bytes Model.FsStore Model.FsCrash Proofs.FsStoreProofs Proofs.FsCrashProofs.
From Coq Require Import List Bool Arith.
Import ListNotations.

(* Flush-only histories, every history, every failure schedule, every crash point, both kinds of
   crash. The recovered directory shows (1) only complete files: each is exactly the bytes a writer
   wrote, fsynced, its handle closed -- nothing invented, nothing partial; (2) every acknowledged
   file; (3) each file under one name only, so no row more often than it was written. *)
Theorem C15_flush_only : forall c els es img,
  erun c flush_disc e0 els = Some es -> valid c [] = false -> crash_image (s_fs (e_s es)) img ->
  (forall b d, In (b, d) (recover c img) ->
     exists a w, W (e_s es) a = Some w /\ w_base w = b /\ w_hasino w = true /\ d = w_written w /\
                 w_hopen w = false /\ synced (s_fs (e_s es)) (w_ino w) /\ bound (s_fs (e_s es)) (b, Dat) (w_ino w)) /\
  (forall a w, In a (e_acked es) -> W (e_s es) a = Some w -> valid c (w_written w) = true ->
     In (w_base w, w_written w) (recover c img)) /\
  NoDup (map fst (recover c img)).
Proof. exact crash_flush_only. Qed.
Print Assumptions C15_flush_only.

(* Histories with merges: nothing acknowledged is lost and nothing is invented. The no-duplicate
   clause is NOT claimed (see the two refutations below). *)
Theorem C15_merge_weakened : forall rows c els es img,
  erun c (merge_disc rows) e0 els = Some es -> valid c [] = false -> crash_image (s_fs (e_s es)) img ->
  (forall m w, W (e_s es) m = Some w -> w_cok w = true -> valid c (w_written w) = true) ->
  (forall b d, In (b, d) (recover c img) ->
     exists a w, W (e_s es) a = Some w /\ w_base w = b /\ w_hasino w = true /\ d = w_written w /\
                 w_hopen w = false /\ synced (s_fs (e_s es)) (w_ino w) /\ bound (s_fs (e_s es)) (b, Dat) (w_ino w)) /\
  (forall a r, In a (e_acked es) -> In r (rows a) ->
     exists m w, W (e_s es) m = Some w /\ In r (rows m) /\ In (w_base w, w_written w) (recover c img)) /\
  NoDup (map fst (recover c img)).
Proof. exact crash_merge. Qed.
Print Assumptions C15_merge_weakened.

(* D3, refutation 1: a process crash between the publish of a merge output (its Close) and the
   removal of the sources (Update): a new engine sees every merged row twice. *)
Theorem C15_merge_refuted_process :
  exists es, erun wcfg (merge_disc wrows) e0 hist_publish = Some es /\
    crash_image (s_fs (e_s es)) (proc_image (s_fs (e_s es))) /\
    e_acked es = [1; 0] /\
    ~ NoDup (rows_of wrows (recovered_writers wcfg (e_s es) (proc_image (s_fs (e_s es))))).
Proof. exact merge_window_process. Qed.
Print Assumptions C15_merge_refuted_process.

(* D3, refutation 2: Update and TombstoneFile remove without a directory fsync; a power loss after
   the removal resurrects the sources next to the output. *)
Theorem C15_merge_refuted_power :
  exists es, erun wcfg (merge_disc wrows) e0 hist_removed = Some es /\
    proc_image (s_fs (e_s es)) = [((lit "z", Dat), lit "AB")] /\
    crash_image (s_fs (e_s es)) img_all /\
    ~ NoDup (rows_of wrows (recovered_writers wcfg (e_s es) img_all)).
Proof. exact merge_window_power. Qed.
Print Assumptions C15_merge_refuted_power.

(* the executable image check used by the correspondence implies the power-loss relation *)
Theorem C15_power_check_sound : forall f img, power_okb f img = true -> power_image f img.
Proof. exact power_okb_sound. Qed.
Print Assumptions C15_power_check_sound.

(* non-vacuity: an acknowledged flush, a flush that fails at the directory fsync and is cleaned
   up, an unfinished third one; after power loss the acknowledged file is there, the complete but
   unacknowledged file of the failed flush is resurrected (allowed: its rows were ingested), the
   reservation does not parse *)
Example C15_nonvacuous :
  exists es, erun wcfg flush_disc e0 hist_flush = Some es /\ e_acked es = [0] /\
    crash_image (s_fs (e_s es)) [((lit "x", Dat), lit "A"); ((lit "y", Dat), lit "B"); ((lit "z", Dat), [])] /\
    recover wcfg [((lit "x", Dat), lit "A"); ((lit "y", Dat), lit "B"); ((lit "z", Dat), [])]
      = [(lit "x", lit "A"); (lit "y", lit "B")].
Proof. exact flush_nonvacuous. Qed.
