(* C17 — Every written file describes itself truthfully.
   Statements only; every proof is [exact <lemma from Proofs/FooterProofs.v>].
   write_file is the assembly both handleFlush (every action a WBuild from a partition buffer) and
   executeMergeGroup (WBuild for mergeDataBlocks' rebuilt blocks, WCopy for copyDataBlock's verbatim
   blocks) perform; the list of actions is arbitrary.  JSON encoding, compression, the bloom filter
   builder and the row walker are arbitrary functions with the stated round-trip premises. *)
From BS Require Import Lib.Bytes Lib.Wrap64 Model.Framing Model.Validate Model.FilterRegion Model.Footer
  Proofs.FramingProofs Proofs.ValidateProofs Proofs.FilterRegionProofs Proofs.FooterProofs.
From Coq Require Import List ZArith NArith Bool Lia.
Import ListNotations.
Open Scope Z_scope.

(* The file parses with ReadFileMetadata, which returns the metadata written, the file's size and the
   file-level filters; the layout is row data contiguous from 0, the region right behind it with the
   sections in block order, then the footer; the file-level entry counts are those of all rows; and
   for every block: row count, uncompressed size, CRC32C, compression and distinct entry counts are
   what its row data contains (describes), and ReadDataBlockBloomFilters / ReadDataBlockRowData +
   BlockRowScanner return exactly the filters and rows written.  A copied block is truthful in the
   output provided it was truthful in its source (induction over merge histories). *)
Theorem C17_write_read : forall crc dec_ok decompress jdec jenc compress filters_of entries,
  (forall s, (crc s < 4294967296)%N) ->
  (forall x, compress CNone x = x) ->
  (forall k x, k <> CNone -> k <> COther -> decompress k (compress k x) = Some x) ->
  forall cfg acts, cfg <> COther ->
  Forall (action_ok crc dec_ok decompress filters_of entries cfg) acts ->
  let all := flat_map rows_of_action acts in
  let file := fst (write_file crc jenc compress filters_of entries cfg acts) in
  let m := snd (write_file crc jenc compress filters_of entries cfg acts) in
  filters_ok dec_ok (filters_of all) -> lenZ file <= Max64 -> lenZ (jenc m) < 4294967296 -> jdec (jenc m) = Some m ->
  snd (read_metadata crc dec_ok jdec file) = Some (m, lenZ file, filters_of all) /\
  layout_ok (lenZ file) (lenZ (jenc m)) m = true /\
  m_cnt m = counts_of entries all /\
  Forall2 (fun a b => exists fs, action_filters crc dec_ok decompress filters_of entries a fs /\
             describes crc dec_ok decompress file b (rows_of_action a) fs (counts_of entries (rows_of_action a)) = true /\
             read_filters crc dec_ok file b = Some fs /\
             (Forall small_row (rows_of_action a) -> read_rows crc decompress file b = Some (rows_of_action a)) /\
             (match a with WBuild _ => b_has_hash b = true /\ b_comp b = cfg | WCopy _ _ _ _ => True end))
          acts (m_blocks m).
Proof. exact write_file_truthful. Qed.
Print Assumptions C17_write_read.

(* region_rebase: after blockFilterRegionWriter.finish the row-data extents are back to back from the
   first offset and the rebased filter sections are back to back from the region offset, in block order *)
Theorem C17_region_rebase : forall ds off rel roff, Forall desc_wf ds ->
  contiguous off (map (fun b => (rdo b, rds b)) (region_finish roff (blocks_of off rel ds))) = Some (off + lenZ (datas ds)) /\
  contiguous (rel + roff) (map (fun b => (bfo b, bfs b)) (region_finish roff (blocks_of off rel ds))) = Some (rel + roff + lenZ (secs ds)).
Proof. exact blocks_contiguous. Qed.
Print Assumptions C17_region_rebase.

(* the writers' running totals: UncompressedSize = sum of (4 + |row|), Rows = number of rows *)
Theorem C17_uncompressed_size : forall rows, acc_usize rows = lenZ (frame rows).
Proof. exact acc_usize_frame. Qed.
Print Assumptions C17_uncompressed_size.

Theorem C17_row_count : forall rows, acc_rows rows = Z.of_nat (length rows).
Proof. exact acc_rows_length. Qed.
Print Assumptions C17_row_count.

(* what ReadFileMetadata accepts it can also seek by: every extent of the returned metadata is inside the file *)
Theorem C17_accepted_is_in_bounds : forall m limit, meta_i64 m -> i64 limit -> validate m limit = true -> meta_in m limit.
Proof. exact validate_bounds. Qed.
Print Assumptions C17_accepted_is_in_bounds.

(* non-vacuity: a concrete two-block merge output (one rebuilt block, one block copied verbatim from a
   concrete source file, compression changing from snappy to zstd) satisfies every premise of
   C17_write_read, and reads back *)
Example C17_nonvacuous :
  (forall s, (ex_crc s < 4294967296)%N) /\ (forall x, ex_compress CNone x = x) /\
  (forall k x, k <> CNone -> k <> COther -> ex_decompress k (ex_compress k x) = Some x) /\
  Forall (action_ok ex_crc ex_dec_ok ex_decompress ex_filters ex_entries CZstd) ex_acts /\
  filters_ok ex_dec_ok (ex_filters (flat_map rows_of_action ex_acts)) /\
  lenZ (fst ex_out) <= Max64 /\ lenZ (ex_jenc (snd ex_out)) < 4294967296 /\ ex_jdec (ex_jenc (snd ex_out)) = Some (snd ex_out) /\
  snd (read_metadata ex_crc ex_dec_ok ex_jdec (fst ex_out)) = Some (snd ex_out, lenZ (fst ex_out), ex_filters (flat_map rows_of_action ex_acts)) /\
  length (m_blocks (snd ex_out)) = 2%nat.
Proof. exact c17_example. Qed.
