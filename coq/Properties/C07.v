(* C07 - acknowledgements respect acceptance order; Flush is a durability barrier. *)
From BS Require Import Model.Pipeline Proofs.PipelineBase Proofs.PipelineTruth Proofs.PipelineProofs.
From Coq Require Import List ZArith.
Import ListNotations.

(* FIFO invariant: the in-flight requests (worker's hand, flush queue, request being enqueued, buffer,
   actor's hand, ingest queue) are in acceptance order *)
Theorem C07_fifo : forall c s, reachable c s -> subseq (pipeline s) (accepted s).
Proof. exact fifo. Qed.
Print Assumptions C07_fifo.

(* when the flush worker is about to deliver to r (the only sender of a nil that carries a durability
   claim), every request accepted before r has been attempted already; if flush cancellation has not
   fired it was answered (or had no channel); and if it was answered nil its rows are visible *)
Theorem C07_order : forall c s x r t, reachable c s -> wpc s = WAck x (r :: t) ->
  forall a, before (accepted s) a r ->
    In a (map fst (finished s)) /\
    (fcanc s = false -> answers s a = 1%nat \/ chan_of s a = Some ChNil) /\
    (ack s a = Some RNil -> is_rows s a = true -> In a (visible s)).
Proof. exact order. Qed.
Print Assumptions C07_order.

(* the instance for Flush: a force request travels the same queue, also when nothing is buffered *)
Theorem C07_flush_barrier : forall c s r t, reachable c s -> wpc s = WAck RNil (r :: t) ->
  kind_of s r = Some KForce ->
  forall a, before (accepted s) a r ->
    In a (map fst (finished s)) /\
    (fcanc s = false -> answers s a = 1%nat \/ chan_of s a = Some ChNil) /\
    (ack s a = Some RNil -> is_rows s a = true -> In a (visible s)).
Proof. exact flush_barrier. Qed.
Print Assumptions C07_flush_barrier.

(* the ingest actor itself only ever sends nil for an empty batch (no durability claim, DESIGN 7.1) *)
Theorem C07_actor_nil_is_empty : forall c s r, reachable c s -> apc s = AAckNow r RNil ->
  exists v, kind_of s r = Some (KBatch v []).
Proof. exact actor_nil_is_empty. Qed.
Print Assumptions C07_actor_nil_is_empty.
