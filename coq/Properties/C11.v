(* C11 — Merging preserves stored content and query answers.
   Statements only; every proof is [exact <lemma from Proofs/MergePlanProofs.v>].
   [merge_ok e c st st'] says st' is a possible result of a committed Merge with limits c on
   the store st: for any order the candidate sort may produce (ties), any Go map iteration
   order over the partitions of each group, any fresh output pointers, any sizes the
   compressor produces.  [store_wf] is: pointers unique, block metadata truthful (Rows,
   UncompressedSize), ranges sane, every row inside a block with its partition whose ranges
   cover its indexed values, filters built from (at least) the entries of the rows. *)
From BS Require Import Lib.Bytes Model.Json Model.Expr Model.MinMax Proofs.MinMaxProofs Model.MergePlan Proofs.MergePlanProofs Proofs.MergeBridge.
From Coq Require Import ZArith List Permutation Lia.
Open Scope Z_scope.

(* the multiset of stored rows is unchanged *)
Theorem C11_rows : forall e c st st',
  NoDup (map f_ptr st) -> merge_ok e c st st' -> Permutation (all_rows st') (all_rows st).
Proof. exact merge_rows. Qed.
Print Assumptions C11_rows.

(* every row of the new store sits in a block with the row's partition whose minmax ranges
   cover the row's indexed values *)
Theorem C11_partition_minmax : forall e c st st' f b r,
  store_wf st -> merge_ok e c st st' -> In f st' -> In b (f_blocks f) -> In r (b_rows b) ->
  b_part b = mr_part r /\
  (forall k lo hi, In (k, (lo, hi)) (mr_vals r) -> mm_covers (b_minmax b) k lo hi).
Proof. exact merge_rows_covered. Qed.
Print Assumptions C11_partition_minmax.

(* the new store is well formed again, so everything composes over repeated merges *)
Theorem C11_wf_preserved : forall e c st st', store_wf st -> merge_ok e c st st' -> store_wf st'.
Proof. exact merge_store_wf. Qed.
Print Assumptions C11_wf_preserved.

(* a combined block has exactly the minmax keys each of its sources had *)
Theorem C11_merged_keys : forall c e g b k,
  bgroup_ok c g -> In b g ->
  (assoc k (b_minmax (merged_block e g)) <> None <-> assoc k (b_minmax b) <> None).
Proof. exact merged_block_keys. Qed.
Print Assumptions C11_merged_keys.

(* the merged ranges contain every source range: a prefilter that kept a source block keeps
   the combined block *)
Theorem C11_prefilter_monotone : forall c e g b pre,
  bgroup_ok c g -> (forall x, In x g -> block_wf x) -> In b g ->
  block_passes pre (b_meta b) = true -> block_passes pre (b_meta (merged_block e g)) = true.
Proof. exact merged_prefilter_monotone. Qed.
Print Assumptions C11_prefilter_monotone.

(* Queries.  Q, row_sat (the row matcher), guard (the bloom pruning test), ftest (a built
   filter) are arbitrary; the three premises are the facts C01/C02 establish about them
   (see [filter_facts] in Proofs/MergePlanProofs.v) *)

(* without a prefilter: the same multiset before and after *)
Theorem C11_query_eq : forall Q row_sat guard ftest, filter_facts Q row_sat guard ftest ->
  forall e c st st' q, store_wf st -> merge_ok e c st st' ->
  Permutation (run_query Q row_sat guard ftest None q st') (run_query Q row_sat guard ftest None q st).
Proof. exact ff_merge_query_eq. Qed.
Print Assumptions C11_query_eq.

(* with a prefilter: a superset, as multisets ... *)
Theorem C11_query_superset : forall Q row_sat guard ftest, filter_facts Q row_sat guard ftest ->
  forall e c st st' pre q, store_wf st -> merge_ok e c st st' ->
  msub (run_query Q row_sat guard ftest pre q st) (run_query Q row_sat guard ftest pre q st').
Proof. exact ff_merge_query_superset. Qed.
Print Assumptions C11_query_superset.

(* the same two theorems with the premises discharged: Q = (bloom tree, regex tree) of C01/C02,
   the row matcher is the documented row predicate [row_sat] on the row's JSON document (J maps a row
   tag to its document) restricted to rows whose recorded entries include the document's entries
   (what indexing guarantees, C18), the pruning test is the query Query builds (bloom part AND regex
   field guard) evaluated on the filters; for every tokenizer and regex oracle *)
Theorem C11_query_eq_concrete : forall tok re J e c st st' q,
  store_wf st -> merge_ok e c st st' ->
  Permutation (run_query Qr (row_satR tok re J) guardR ftestR None q st')
              (run_query Qr (row_satR tok re J) guardR ftestR None q st).
Proof. exact merge_query_eq_concrete. Qed.
Print Assumptions C11_query_eq_concrete.

Theorem C11_query_superset_concrete : forall tok re J e c st st' pre q,
  store_wf st -> merge_ok e c st st' ->
  msub (run_query Qr (row_satR tok re J) guardR ftestR pre q st)
       (run_query Qr (row_satR tok re J) guardR ftestR pre q st').
Proof. exact merge_query_superset_concrete. Qed.
Print Assumptions C11_query_superset_concrete.

Theorem C11_concrete_row_predicate : forall tok re J q r,
  ents_ok tok J r = true -> row_satR tok re J q r = row_sat tok re (fst q) (snd q) (J (mr_tag r)).
Proof. exact row_satR_exact. Qed.
Print Assumptions C11_concrete_row_predicate.

(* ... of rows that match the bloom and regex expression *)
Theorem C11_query_sat : forall Q row_sat guard ftest pre q st r,
  In r (run_query Q row_sat guard ftest pre q st) -> row_sat q r = true.
Proof. exact run_query_sat. Qed.
Print Assumptions C11_query_sat.

(* repeated merges, with any limits at each step *)
Theorem C11_repeated_rows : forall st st',
  store_wf st -> merges st st' -> Permutation (all_rows st') (all_rows st).
Proof. exact merges_rows. Qed.
Print Assumptions C11_repeated_rows.

Theorem C11_repeated_wf : forall st st',
  store_wf st -> merges st st' -> store_wf st'.
Proof. exact merges_wf. Qed.
Print Assumptions C11_repeated_wf.

Theorem C11_repeated_query_eq : forall Q row_sat guard ftest, filter_facts Q row_sat guard ftest ->
  forall st st' q, store_wf st -> merges st st' ->
  Permutation (run_query Q row_sat guard ftest None q st') (run_query Q row_sat guard ftest None q st).
Proof. exact ff_merges_query_eq. Qed.
Print Assumptions C11_repeated_query_eq.

Theorem C11_repeated_query_superset : forall Q row_sat guard ftest, filter_facts Q row_sat guard ftest ->
  forall st st' pre q, store_wf st -> merges st st' ->
  msub (run_query Q row_sat guard ftest pre q st) (run_query Q row_sat guard ftest pre q st').
Proof. exact ff_merges_query_superset. Qed.
Print Assumptions C11_repeated_query_superset.

(* non-vacuity 1: the premises about the filters are satisfiable (an exact filter) *)
Example C11_filter_facts_satisfiable :
  filter_facts str (fun q r => mem_str q (mr_ents r)) (fun q m => m q) (fun _ E x => mem_str x E).
Proof.
  split; [|split].
  - intros p E x H. apply mem_str_In. exact H.
  - intros q m1 m2 H. apply H.
  - intros q r H. exact H.
Qed.

(* non-vacuity 2: a well-formed store on which a merge really combines two blocks *)
Definition ex_row (t : Z) (v : Z) : mrow :=
  {| mr_tag := t; mr_part := lit "p"; mr_vals := [(lit "n", (v, v))]; mr_len := 10; mr_ents := [lit "id"] |}.
Definition ex_block (id v : Z) : block :=
  {| b_id := id; b_meta := {| b_partition := lit "p"; b_mm := [(lit "n", (v, v))] |};
     b_nrows := 1; b_usize := 14; b_disk := 50; b_fparam := 0; b_ents := [lit "id"]; b_rows := [ex_row id v] |}.
Definition ex_file (p v : Z) : file :=
  {| f_ptr := p; f_blocks := [ex_block p v]; f_fparam := 0; f_ents := [lit "id"] |}.
Definition ex_store : list file := [ex_file 1 5; ex_file 2 9].
Definition ex_cfg : cfg := {| c_max_rows := 10; c_max_bytes := 1000; c_max_file_size := 1000; c_max_files := 10 |}.
Definition ex_env : env := {| e_disk := fun _ => 80; e_fparam := 0 |}.

Example C11_nonvacuous :
  store_wf ex_store /\
  merge_ok ex_env ex_cfg ex_store (merge_store ex_env ex_cfg ex_store [[lit "p"]] [100] ex_store) /\
  map (fun b => (b_minmax b, map mr_tag (b_rows b)))
      (all_blocks (merge_store ex_env ex_cfg ex_store [[lit "p"]] [100] ex_store))
  = [([(lit "n", (5, 9)); (lit "n", (5, 5))], [1; 2])].
Proof.
  assert (Hb : forall p v, in64 v -> block_wf (ex_block p v)).
  { intros p v Hv. unfold block_wf. simpl. split; [reflexivity|]. split; [reflexivity|]. split; [|split].
    - constructor; [|constructor]. simpl. unfold in64 in *. lia.
    - intros r [<-|[]]. split; [reflexivity|]. intros k lo hi [H|[]]. inversion H; subst.
      eexists _, _. split; [reflexivity|lia].
    - intros r x [<-|[]] Hx. exact Hx. }
  assert (Hf : forall p v, in64 v -> file_wf (ex_file p v)).
  { intros p v Hv. split.
    - intros b [<-|[]]. apply Hb. exact Hv.
    - intros b r x [<-|[]] [<-|[]] Hx. exact Hx. }
  split; [|split].
  - split.
    + simpl. constructor; [simpl; intuition discriminate|]. constructor; [simpl; tauto|constructor].
    + intros f [<-|[<-|[]]]; apply Hf; unfold in64, MinInt64, MaxInt64; lia.
  - exists ex_store, [[lit "p"]], [100]. split; [reflexivity|].
    assert (E : plan_files_ord ex_cfg ex_store = [ex_store]) by (vm_compute; reflexivity).
    rewrite E. split.
    + constructor; [|constructor]. split; [repeat constructor; simpl; tauto|].
      intros b [<-|[<-|[]]]; simpl; auto.
    + split; [reflexivity|]. split; [repeat constructor; simpl; tauto|]. split; [|reflexivity].
      intros p [<-|[]]. simpl. intuition discriminate.
  - vm_compute. reflexivity.
Qed.
