(* C16 — FileSystemDataStore behaves like its specification.
   Statements only; every proof is [exact <lemma from Proofs/FsStoreProofs.v>].

   The model (Model/FsStore.v) is a labelled transition system whose steps are the os.* calls of
   file_system_store.go with their outcomes (any of them may fail), over a directory of names,
   inodes with content, and handles that pin inodes. [run] = any sequence of steps of any number of
   writers, any draw stream (every LReserve carries the drawn name), any failures. [run_g] = the
   same with a well-behaved caller: no TombstoneFile/Update removal of a pointer while a writer of
   that pointer is still open (created and neither closed successfully nor aborted), and no second
   Abort of a writer that was already aborted (guard_ok). [spec_files] = the abstract state: the
   files whose Close returned nil and that were not tombstoned since, with the bytes written. *)
From BS Require Import Lib.Bytes Model.FsStore Proofs.FsStoreProofs.
From Coq Require Import List Bool Arith.
Import ListNotations.

(* Every run, every caller, with or without the ownership check: whatever a directory scan lists
   under a pointer is exactly what some writer of that pointer has written (never another file's
   bytes, never a reservation). [valid c [] = false]: the footer parser rejects an empty file. *)
Theorem C16_scan_sound : forall c ls s b d,
  run c s0 ls = Some s -> valid c [] = false -> In (b, d) (scan c s) ->
  exists a w, W s a = Some w /\ w_base w = b /\ w_hasino w = true /\
              D (s_fs s) (b, Dat) = Some (w_ino w) /\ d = w_written w /\ valid c d = true.
Proof. exact C16_sound_run. Qed.
Print Assumptions C16_scan_sound.

(* Well-behaved caller, any failures: every file whose Close succeeded and that was not tombstoned
   is listed with exactly the bytes written ... *)
Theorem C16_scan_complete : forall c ls s b d,
  run_g c s0 ls = Some s -> In (b, d) (spec_files s) -> valid c d = true -> In (b, d) (scan c s).
Proof. exact C16_complete_run. Qed.
Print Assumptions C16_scan_complete.

(* ... and everything listed is such a file, or a complete file whose own Close renamed it and
   then failed at (or has not reached) the directory fsync and that nobody removed since
   ([window_files]; the store documents this transient visibility). *)
Theorem C16_scan_spec : forall c ls s b d,
  run_g c s0 ls = Some s -> valid c [] = false -> In (b, d) (scan c s) ->
  In (b, d) (spec_files s) \/ In (b, d) (window_files s).
Proof. exact C16_spec_run. Qed.
Print Assumptions C16_scan_spec.

(* Without an injected failure of the directory fsync or of Abort's removal, at any moment when no
   Close is between its rename and its directory fsync (in particular between calls): the scan
   lists exactly the files whose Close succeeded and that were not tombstoned. *)
Theorem C16_scan_exact : forall c ls s b d,
  run_g c s0 ls = Some s -> valid c [] = false -> forallb faultfree ls = true ->
  (forall a w, W s a = Some w -> w_ph w <> PRenamed) ->
  (In (b, d) (scan c s) <-> In (b, d) (spec_files s) /\ valid c d = true).
Proof. exact C16_exact_run. Qed.
Print Assumptions C16_scan_exact.

(* No CreateFile step ever overwrites or exposes another file: the creating steps only add names
   (any run, any caller) ... *)
Theorem C16_no_clobber : forall c ls s l s',
  run c s0 ls = Some s ->
  match l with LBegin _ | LReserve _ _ _ | LGiveUp _ | LResClose _ _ | LTmpCreate _ _ => True | _ => False end ->
  step c s l = Some s' ->
  forall n i, D (s_fs s) n = Some i -> D (s_fs s') n = Some i /\ idata (s_fs s') i = idata (s_fs s) i.
Proof. exact C16_no_clobber_run. Qed.
Print Assumptions C16_no_clobber.

(* ... and its one removing step removes the caller's own 0-byte reservation and nothing else. *)
Theorem C16_no_clobber_unreserve : forall c ls s a r s',
  run_g c s0 ls = Some s -> step c s (LUnreserve a r) = Some s' ->
  exists w, W s a = Some w /\ D (s_fs s) (w_base w, Dat) = Some (w_res w) /\ idata (s_fs s) (w_res w) = Some [] /\
    (forall n, n <> (w_base w, Dat) -> D (s_fs s') n = D (s_fs s) n) /\
    (forall i, idata (s_fs s') i = idata (s_fs s) i).
Proof. exact C16_unreserve_run. Qed.
Print Assumptions C16_no_clobber_unreserve.

(* TombstoneFile removes every artifact of its pointer and touches nothing else. *)
Theorem C16_tombstone_clean : forall c s b s',
  run c s (plan_tombstone b None s) = Some s' ->
  D (s_fs s') (b, Dat) = None /\ D (s_fs s') (b, Tmp) = None /\
  (forall n, fst n <> b -> D (s_fs s') n = D (s_fs s) n) /\
  (forall i, idata (s_fs s') i = idata (s_fs s) i).
Proof. exact tombstone_clean. Qed.
Print Assumptions C16_tombstone_clean.

(* The unguarded statement is false for the code as pinned (no ownership check): D8. A's pointer
   is tombstoned while A is open, B draws the same name, A.Close returns nil and the pointer
   holds B's partial bytes. Kept as the regression witness of the fix. *)
Theorem C16_unguarded_refuted :
  exists s, exec_all (d8_cfg false) s0 d8_ops = Some s /\
            In (lit "x", lit "AAAA") (spec_files s) /\ read_file s (lit "x") = Some (lit "BB") /\
            scan (d8_cfg false) s = [(lit "x", lit "BB")].
Proof. exact d8_refuted. Qed.
Print Assumptions C16_unguarded_refuted.

(* With the ownership check (the fixed code), whatever any caller did before, a Close that returns
   nil has published exactly the bytes written through that writer (atomic call, any failures). *)
Theorem C16_close_publishes_own : forall c ls s a fault s' w,
  run c s0 ls = Some s -> own_check c = true -> W s a = Some w ->
  run c s (plan_close c a fault s) = Some s' ->
  last (plan_close c a fault s) LReadDir = LDirSync a true ->
  read_file s' (w_base w) = Some (w_written w) /\
  exists w', W s' a = Some w' /\ w_cok w' = true /\ w_written w' = w_written w /\ w_base w' = w_base w.
Proof. exact C16_close_owned_run. Qed.
Print Assumptions C16_close_publishes_own.

(* the D8 call sequence on the fixed model: the stale Close fails, nothing is published *)
Theorem C16_d8_fixed :
  exists s, exec_all (d8_cfg true) s0 d8_ops = Some s /\ spec_files s = [] /\ scan (d8_cfg true) s = [].
Proof. exact d8_fixed. Qed.
Print Assumptions C16_d8_fixed.

(* non-vacuity of the guarded, failure-free premises: a run with a published file, a collision, a
   tombstone and a reuse of the name *)
Example C16_nonvacuous : exists s, run_g nv_cfg s0 nv_labels = Some s /\ forallb faultfree nv_labels = true /\
  spec_files s = [(lit "x", lit "CC")] /\ scan nv_cfg s = [(lit "x", lit "CC")] /\
  (forall a w, W s a = Some w -> w_ph w <> PRenamed).
Proof. exact nv_run. Qed.
