(* C16 — placeholder while the proofs are being written (replaced below). *)
From BS Require Import Lib.Bytes Model.FsStore.
Theorem C16_placeholder : s_ws s0 = nil.
Proof. exact eq_refl. Qed.
Print Assumptions C16_placeholder.
