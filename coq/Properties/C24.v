(* C24 — Pruning is effective: disqualified data is never read. Statements only.
   Decisions are those of the file stage, evaluateBlockFilters and the block workers, read off
   Model/QueryFn.v (file_candidate, reads_region, reads_rows, opens_file). *)
From BS Require Import Lib.Bytes Model.Json Model.Expr Model.MinMax Model.QueryFn
  Proofs.ExprProofs Proofs.QueryFnProofs Proofs.IndexProofs.
From Coq Require Import List.
Import ListNotations.

(* a file whose file-level filters rule out the pruning query is never opened *)
Theorem C24_no_open_pruned_file : forall q f, prune_q (fl_filters f) (pq q) = false -> opens_file q f = false.
Proof. exact no_open_pruned_file. Qed.
Print Assumptions C24_no_open_pruned_file.

(* nor is a file all of whose blocks the prefilter rules out *)
Theorem C24_no_open_prefiltered_file : forall q f,
  (forall b, In b (fl_blocks f) -> block_passes (q_pre q) (bk_meta b) = false) -> opens_file q f = false.
Proof. exact no_region_for_prefiltered_out. Qed.
Print Assumptions C24_no_open_prefiltered_file.

(* row data of a block its prefilter or its block filters rule out is never read *)
Theorem C24_no_rows_prefilter : forall q f b, block_passes (q_pre q) (bk_meta b) = false -> reads_rows q f b = false.
Proof. exact no_rows_pruned_by_prefilter. Qed.
Print Assumptions C24_no_rows_prefilter.
Theorem C24_no_rows_block_filters : forall q f b, prune_q (bk_filters b) (pq q) = false -> reads_rows q f b = false.
Proof. exact no_rows_pruned_by_block_filters. Qed.
Print Assumptions C24_no_rows_block_filters.

(* without bloom or regex conditions no block filter region is read *)
Theorem C24_no_conditions_no_pruning_query : forall q, q_bloom q = None -> q_regex q = None -> pq q = None.
Proof. exact pq_none_no_conditions. Qed.
Print Assumptions C24_no_conditions_no_pruning_query.
Theorem C24_no_region_without_conditions : forall q f, pq q = None -> reads_region q f = false.
Proof. exact no_region_without_conditions. Qed.
Print Assumptions C24_no_region_without_conditions.

(* every returned row comes from a block whose row data was read in a file that was opened *)
Theorem C24_results_only_from_read_blocks : forall tok re q files r,
  In r (run_query tok re q files) ->
  exists f b, In f files /\ In b (fl_blocks f) /\ reads_rows q f b = true /\ opens_file q f = true /\ In r (bk_rows b).
Proof. exact results_only_from_read_blocks. Qed.
Print Assumptions C24_results_only_from_read_blocks.

(* ---- kernel ties (DESIGN.md 10.7).  The Go functions the theorems above are about are translated
   from the current source on every run (Generated/Kernels.v); each tie states that the translated
   function equals the model definition used above, on the whole range of the Go types
   (Generated/KernelTie.v; `True` for a kernel the translator reports as not translated). ---- *)
From BS Require Import Generated.KernelTie Proofs.KTie_eval_minmax.

Theorem C24_kernel_tie_eval_minmax : tie_eval_minmax.
Proof. exact k_eval_minmax_tie. Qed.
Print Assumptions C24_kernel_tie_eval_minmax.
