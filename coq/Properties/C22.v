(* C22 - Query I/O stays within MaxQueryConcurrency; stalled queries starve no one.
   [sreachable cap n s]: any sequence of acquire/release by n workers over a semaphore of capacity cap
   (Model/Slots.v); [reachable fx cap es s]: the composed pipeline, K queries sharing the semaphore, cap =
   MaxQueryConcurrency (any value, 1 included), every interleaving, stalled consumers included. *)
From BS Require Import Model.Stats Model.Cursor Model.HandlePool Model.Slots Model.QueryLTS
  Proofs.SlotsProofs Proofs.QueryLTSProofs Proofs.QueryInvProofs.
From Coq Require Import List ZArith Bool Arith.
Import ListNotations.

(* the semaphore never holds more than its capacity *)
Theorem C22_slots_bounded : forall cap n s,
  sreachable cap n s -> used s <= s_cap s /\ s_cap s = cap /\ length (s_held s) = n.
Proof. exact slots_bounded. Qed.
Print Assumptions C22_slots_bounded.

(* a slot's occupancy toggles, it does not nest *)
Theorem C22_slot_toggle : forall s w,
  (nth_error (s_held s) w = Some true -> call_step s (CallAcquire w true) = Some s /\ call_step s (CallAcquire w false) = None) /\
  (nth_error (s_held s) w = Some false -> call_step s (CallRelease w) = Some s).
Proof. exact slot_toggle. Qed.
Print Assumptions C22_slot_toggle.

(* across all queries: workers inside a DataStore open/read section (= handles checked out or being opened)
   <= slots in use <= MaxQueryConcurrency *)
Theorem C22_bound : forall fx cap es s,
  reachable fx cap es s -> (sum_plen (g_qs s) <= Z.of_nat (g_used s))%Z /\ g_used s <= cap.
Proof. exact io_bounded. Qed.
Print Assumptions C22_bound.

(* a worker blocked in deliver (slow consumer) or in dispatch (next stage), or one that has exited, holds no slot *)
Theorem C22_no_hold_while_blocked : forall fx cap es s q,
  reachable fx cap es s -> In q (g_qs s) ->
  (forall w, In w (q_fws q) -> fw_blocked w = true \/ fw_exited w = true -> fw_held w = false) /\
  (forall w, In w (q_bws q) -> bw_blocked w = true \/ bw_exited w = true -> bw_held w = false).
Proof. exact no_hold_while_blocked. Qed.
Print Assumptions C22_no_hold_while_blocked.

(* queries share nothing but the semaphore: a step of one query leaves every other query's state alone.
   With C22_no_hold_while_blocked and C21_semaphore_accounting: the workers of a query whose consumer has stopped
   reading end up blocked in deliver holding nothing, so the whole budget stays available to the others.
   PARTIAL (C22_other_progress): the conclusion "hence B completes under fairness" is a liveness statement over
   the composition and is not proved; the harness checks it on every run (a query finishes while another is stalled). *)
Theorem C22_queries_independent : forall fx s l s' qa qb,
  qstep fx s l = Some s' -> (match l with LAct q _ _ | LExt q _ => q end) = qa -> qa <> qb ->
  nth_error (g_qs s') qb = nth_error (g_qs s) qb.
Proof. exact other_queries_untouched. Qed.
Print Assumptions C22_queries_independent.
