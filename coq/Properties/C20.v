(* C20 - The Results cursor always reaches a correct terminal state.
   Statements only; every proof is [exact <lemma>].  [fx]: false = the pinned Results.Next (defect D7),
   true = the tree after the fix.  [creachable fx s]: s is reachable by ANY schedule of the consumer
   (Next), any number of Close callers, the caller's cancellation, and any behaviour of the query's
   workers and teardown goroutine (Model/Cursor.v); [reachable fx cap es s]: the composed pipeline of K
   queries (Model/QueryLTS.v) under any interleaving, store / iterator failure and cancel / Close point. *)
From BS Require Import Model.Stats Model.Cursor Model.HandlePool Model.QueryLTS
  Proofs.CursorProofs Proofs.QueryLTSProofs Proofs.QueryInvProofs.
From Coq Require Import List ZArith Bool Arith.
Import ListNotations.

(* once Next has returned false it keeps returning false, whatever else happens *)
Theorem C20_sticky : forall fx s ls s',
  creachable fx s -> n_done (c_n s) = true -> cursor_steps fx s ls = Some s' ->
  n_done (c_n s') = true /\ Forall (fun l => forall b, next_result l = Some b -> b = false) ls.
Proof. exact next_sticky. Qed.
Print Assumptions C20_sticky.

(* the terminal state is decided once: the first finalizer (Next or Close) wins, nothing changes it later *)
Theorem C20_first_wins : forall fx s ls s',
  m_finalized (c_m s) = true -> cursor_steps fx s ls = Some s' ->
  m_finalized (c_m s') = true /\ m_err (c_m s') = m_err (c_m s).
Proof. exact first_wins. Qed.
Print Assumptions C20_first_wins.

(* Err (fixed code): nil only if nothing failed and, when Next decided, the caller's cancel had not returned
   before the deciding read; the ctx error only if the caller cancelled, and always when the cancel had
   returned before Next decided; otherwise every recorded failure, joined.  ([m_finby = ByClose]: a deliberate
   Close decided first - Close is not an error state and reports the recorded failures, DESIGN 7 / Err's doc.) *)
Theorem C20_err : forall s,
  creachable true s -> m_finalized (c_m s) = true ->
  (m_err (c_m s) = TNil -> m_errs (c_m s) = [] /\ (m_finby (c_m s) = ByNext -> m_decphase (c_m s) <> CYes)) /\
  (m_err (c_m s) = TCancel -> m_finby (c_m s) = ByNext /\ m_decphase (c_m s) <> CNo) /\
  (m_finby (c_m s) = ByNext -> m_decphase (c_m s) = CYes -> m_err (c_m s) = TCancel) /\
  (m_err (c_m s) <> TCancel -> m_err (c_m s) = joined (m_errs (c_m s))) /\
  m_finished (c_m s) = true.
Proof. exact terminal_err. Qed.
Print Assumptions C20_err.

(* the pinned code keeps everything except "cancelled before Next decided => the ctx error" ... *)
Theorem C20_err_pinned : forall s,
  creachable false s -> m_finalized (c_m s) = true ->
  (m_err (c_m s) = TNil -> m_errs (c_m s) = []) /\
  (m_err (c_m s) = TCancel -> m_finby (c_m s) = ByNext /\ m_decphase (c_m s) <> CNo) /\
  (m_err (c_m s) <> TCancel -> m_err (c_m s) = joined (m_errs (c_m s))).
Proof. exact terminal_err_pinned. Qed.
Print Assumptions C20_err_pinned.

(* ... and that clause fails on it (D7): Next decided, the cancel had returned, nobody called Close, Err = nil *)
Theorem C20_err_pinned_refuted :
  exists s, creachable false s /\ n_done (c_n s) = true /\ m_finalized (c_m s) = true /\
            m_finby (c_m s) = ByNext /\ m_decphase (c_m s) = CYes /\ x_caller (c_x s) = CYes /\
            m_int_at_done (c_m s) = true /\ o_once (c_o s) = ONew /\ m_err (c_m s) = TNil.
Proof. exact terminal_err_pinned_refuted. Qed.
Print Assumptions C20_err_pinned_refuted.

(* after the workers are done nothing recorded changes: Err reports every failure, Stats is complete *)
Theorem C20_frozen : forall fx s ls s',
  m_finished (c_m s) = true -> cursor_steps fx s ls = Some s' ->
  m_finished (c_m s') = true /\ m_errs (c_m s') = m_errs (c_m s) /\ cur_stats s' = cur_stats s.
Proof. exact frozen. Qed.
Print Assumptions C20_frozen.

(* Close: a second Close does nothing *)
Theorem C20_close_idempotent : forall fx s k,
  o_once (c_o s) = ODone ->
  cursor_step fx s (LCloseBegin k) = None /\
  (nth_error (o_closers (c_o s)) k = Some CIdle -> cursor_step fx s (LCloseRet k) = Some s).
Proof. exact close_idempotent. Qed.
Print Assumptions C20_close_idempotent.

(* Close never touches what the consumer owns (safe concurrently with Next), and decides the terminal state
   only if nobody has: then it is the recorded failures *)
Theorem C20_close_step : forall fx s k s' l,
  (l = LCloseBegin k \/ l = LCloseFinal k \/ l = LCloseRet k) ->
  cursor_step fx s l = Some s' ->
  c_n s' = c_n s /\ c_h s' = c_h s /\
  (m_finalized (c_m s) = true -> c_m s' = c_m s) /\
  (m_finalized (c_m s) = false -> m_finalized (c_m s') = true ->
   m_err (c_m s') = joined (m_errs (c_m s)) /\ m_finby (c_m s') = ByClose).
Proof. exact close_step. Qed.
Print Assumptions C20_close_step.

(* Close returns as soon as the workers are done, whatever the consumer does *)
Theorem C20_close_progress : forall fx s k,
  nth_error (o_closers (c_o s)) k = Some CWait -> m_finished (c_m s) = true ->
  exists s', cursor_step fx s (LCloseFinal k) = Some s' /\
             exists s'', cursor_step fx s' (LCloseRet k) = Some s'' /\ o_once (c_o s'') = ODone.
Proof. exact close_progress. Qed.
Print Assumptions C20_close_progress.

(* Next comes to an end, cursor part: inside one call every consumer step moves forward (at most four) ... *)
Theorem C20_next_call_bounded : forall fx s l s',
  cursor_step fx s l = Some s' -> consumer_label l = true -> next_result l = None -> pc_rank s' < pc_rank s.
Proof. exact next_call_bounded. Qed.
Print Assumptions C20_next_call_bounded.

(* ... once the workers are done the consumer is never blocked ... *)
Theorem C20_consumer_progress : forall fx s,
  creachable fx s -> m_finished (c_m s) = true ->
  exists l, consumer_label l = true /\ cursor_step fx s l <> None.
Proof. exact consumer_progress. Qed.
Print Assumptions C20_consumer_progress.

(* ... and Next = true can happen at most once per row still buffered: then it is false *)
Theorem C20_drain_bound : forall fx s ls s',
  creachable fx s -> m_finished (c_m s) = true -> cursor_steps fx s ls = Some s' ->
  count_true ls + rows_available s' <= rows_available s.
Proof. exact drain_bound. Qed.
Print Assumptions C20_drain_bound.

(* in the composed pipeline every query's cursor is such a cursor (so all of the above holds for it), and its
   channels close only after the file stage and every worker have exited - on engines started, never started or
   stopped alike: the pipeline state of the engine does not occur in the model of a query.
   PARTIAL (C20_terminates): that the teardown goroutine always gets to markWorkersDone (every worker's blocking
   operation selects on the query context; without cancellation the pipeline drains) is not proved as a
   liveness theorem over the composition; the harness checks it on every run (Next false within a generous wait). *)
Theorem C20_pipeline_cursor : forall fx cap es s q,
  reachable fx cap es s -> In q (g_qs s) -> creachable fx (q_cur q).
Proof. exact pipeline_cursor. Qed.
Print Assumptions C20_pipeline_cursor.

(* non-vacuity: a decided terminal state of each kind is reachable on the fixed code *)
Example C20_nonvacuous :
  (exists s, creachable true s /\ m_finalized (c_m s) = true /\ m_err (c_m s) = TCancel) /\
  (exists s, creachable true s /\ m_finalized (c_m s) = true /\ m_err (c_m s) = TJoin [5%Z] /\ m_finby (c_m s) = ByClose).
Proof.
  split.
  - destruct (cursor_steps true (cinit 0) [LNextWait; LCancelBegin; LCancelEnd; LWorkersDone; LNextClosed true; LTermDecide true; LFinish]) as [s|] eqn:E;
      [|vm_compute in E; discriminate].
    exists s. split; [eapply creachable_steps; [apply cr_init|exact E]|]. vm_compute in E. injection E as <-. split; reflexivity.
  - destruct (cursor_steps true (cinit 1) [LRecordErr 5%Z; LCloseBegin 0; LWorkersDone; LCloseFinal 0]) as [s|] eqn:E;
      [|vm_compute in E; discriminate].
    exists s. split; [eapply creachable_steps; [apply cr_init|exact E]|]. vm_compute in E. injection E as <-. repeat split; reflexivity.
Qed.
