From BS Require Import Model.Stats Model.Cursor Proofs.CursorProofs.
From Coq Require Import List ZArith.

Theorem C20_first_wins : forall fx s ls s',
  m_finalized (c_m s) = true -> cursor_steps fx s ls = Some s' ->
  m_finalized (c_m s') = true /\ m_err (c_m s') = m_err (c_m s).
Proof. exact first_wins. Qed.
Print Assumptions C20_first_wins.
