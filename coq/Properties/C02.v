(* C02 — Query results are exact at row level and block-granular for prefilters.
   Statements only. *)
From BS Require Import Lib.Bytes Lib.Sublist Model.Json Model.Expr Model.MinMax Model.QueryFn
  Model.Matcher Proofs.ExprProofs Proofs.MinMaxProofs Proofs.QueryFnProofs Proofs.MatcherProofs.
From Coq Require Import List.
Import ListNotations.

(* every returned row is a stored row that satisfies the bloom and regex expressions: bloom
   false positives never leak, because the row-level predicate decides *)
Theorem C02_sound : forall tok re q files r,
  In r (run_query tok re q files) ->
  exists f b, In f files /\ In b (fl_blocks f) /\ In r (bk_rows b) /\ row_matches tok re q r = true.
Proof. exact result_sound. Qed.
Print Assumptions C02_sound.

(* each stored row is returned at most as many times as it was stored: the result is an
   order-preserving sub-multiset of the stored rows *)
Theorem C02_at_most_stored : forall tok re q files, sublist (run_query tok re q files) (all_rows files).
Proof. exact at_most_stored. Qed.
Print Assumptions C02_at_most_stored.

(* without a prefilter the result is exactly the matching stored rows *)
Theorem C02_exact_no_prefilter : forall tok re q files,
  wf_files tok files -> q_pre q = None ->
  run_query tok re q files = filter (row_matches tok re q) (all_rows files).
Proof. exact exact_no_prefilter. Qed.
Print Assumptions C02_exact_no_prefilter.

(* with a prefilter it is exactly the matching rows of the blocks whose metadata passes it *)
Theorem C02_block_granular : forall tok re q files,
  wf_files tok files ->
  run_query tok re q files =
  flat_map (scan_block tok re q) (filter (fun b => block_passes (q_pre q) (bk_meta b)) (all_blocks files)).
Proof. exact block_granular. Qed.
Print Assumptions C02_block_granular.

(* strictness: a condition never holds on a block lacking the metadata it references *)
Theorem C02_strict_partition : forall b sc, eval_pcond b (PPartition (Some sc)) = true -> b_partition b <> [].
Proof. exact strict_partition. Qed.
Print Assumptions C02_strict_partition.

Theorem C02_strict_minmax : forall b f nc, eval_pcond b (PMinMax f (Some nc)) = true -> assoc f (b_mm b) <> None.
Proof. exact strict_minmax. Qed.
Print Assumptions C02_strict_minmax.

(* the compiled row matcher - condition table, monotone flags, early exit during the walk, lazy
   regex phase, constant folding of nil / empty / unknown nodes - computes exactly the documented
   semantics, for every row, query, tokenizer and regex oracle *)
Theorem C02_compiled_matcher : forall tok re es qb qr,
  compiled_match tok re qb qr es = (sat_bq tok es qb && sat_rq re es qr)%bool.
Proof. exact compiled_match_correct. Qed.
Print Assumptions C02_compiled_matcher.
