(* C13 — Merge is all-or-nothing and commits only durable output.
   Statements only; every proof is [exact <lemma from Proofs/MergeCommitProofs.v>].
   [merge_prog fo has_abort outp groups] is merge() as a program over store calls: fo is the
   fault oracle (the n-th store call fails iff fo n; any function), has_abort whether the
   DataStore's writer implements Abort, outp i the pointer CreateFile hands out for group i,
   groups the merge groups with the calls their bodies make.  It returns the trace of store
   calls with their outcomes and the return class of Merge. *)
From BS Require Import Lib.Bytes Model.MergePlan Model.MergeCommit Proofs.MergeCommitProofs.
From Coq Require Import ZArith List Bool.
Open Scope Z_scope.

(* every run, under every fault oracle, is exactly one of: nothing to merge / aborted /
   committed with clean source cleanup / committed with failed source cleanup — and returns
   (stats,nil) / (nil,err) / (stats,nil) / (stats, ErrPostCommitCleanup) respectively *)
Theorem C13_all_or_nothing : forall fo has_abort outp groups,
  (forall o, In o (outs_from outp 0 (length groups)) -> ~ In o (flat_map g_srcs groups)) ->
  run_class (fst (merge_prog fo has_abort outp groups)) (snd (merge_prog fo has_abort outp groups)).
Proof. exact merge_prog_class. Qed.
Print Assumptions C13_all_or_nothing.

(* the return value contract, both directions *)
Theorem C13_result : forall fo has_abort outp groups,
  (forall o, In o (outs_from outp 0 (length groups)) -> ~ In o (flat_map g_srcs groups)) ->
  let tr := fst (merge_prog fo has_abort outp groups) in
  let r := snd (merge_prog fo has_abort outp groups) in
  (r = RetStats <-> (committedb tr && source_cleanup_ok tr) || nothingb tr = true) /\
  (r = RetStatsCleanup <-> committedb tr && negb (source_cleanup_ok tr) = true) /\
  (r = RetErr <-> abortedb tr && negb (committedb tr) && negb (nothingb tr) = true) /\
  r <> RetInProgress.
Proof. exact merge_prog_result. Qed.
Print Assumptions C13_result.

(* what "committed" means, position by position: one successful Update; every output handed
   out is in its write list and was closed successfully before it (durable before referenced);
   no output is ever aborted or tombstoned; no source is tombstoned before the Update; every
   source's tombstone is attempted after it *)
Theorem C13_committed_means : forall tr,
  committedb tr = true ->
  exists pre ws ds post,
    tr = pre ++ Ev (KUpdate ws ds) true :: post /\
    existsb is_update_ok pre = false /\ existsb is_update_ok post = false /\
    (forall o, In o (created tr) -> In o ws) /\
    (forall o, In o ws -> In o (created pre) /\ closed_ok pre o = true) /\
    (forall e, In e tr -> touches_cleanup ws e = false) /\
    (forall e, In e pre -> touches_cleanup ds e = false) /\
    (forall d, In d ds -> tomb_attempted post d = true).
Proof. exact committedb_spec. Qed.
Print Assumptions C13_committed_means.

(* what "aborted" means: no successful Update, and every output CreateFile handed out was
   aborted or tombstoned (attempted) *)
Theorem C13_aborted_means : forall tr,
  abortedb tr = true ->
  existsb is_update_ok tr = false /\ forall o, In o (created tr) -> cleanup_attempted tr o = true.
Proof. exact abortedb_spec. Qed.
Print Assumptions C13_aborted_means.

(* MemoryMetaStore (atomic Update): at every point of every run the visible content is exactly
   the content before the merge, until the one successful Update; from then on it is the old
   content minus all grouped sources plus all outputs.  Hence an aborted run leaves the content
   untouched and nothing partial is ever referenced. *)
Theorem C13_memory_visibility : forall fo has_abort outp groups outf st,
  (forall w, In w (the_outs outp groups) -> f_ptr (outf w) = w) -> NoDup (the_outs outp groups) ->
  (forall w, In w (the_outs outp groups) -> ~ In w (map f_ptr st)) ->
  (forall w, In w (the_outs outp groups) -> ~ In w (the_dels groups)) ->
  let tr := fst (merge_prog fo has_abort outp groups) in
  forall t1 t2, tr = t1 ++ t2 ->
    vis_after MSMemory outf st t1 = st \/
    (committedb tr = true /\ existsb is_update_ok t1 = true /\
     vis_after MSMemory outf st t1 = remove_ptrs (the_dels groups) st ++ map outf (the_outs outp groups)).
Proof. exact merge_memory_visibility. Qed.
Print Assumptions C13_memory_visibility.

(* the only Update a run can contain is Update(all outputs, all grouped sources) *)
Theorem C13_update_args : forall fo has_abort outp groups ws ds ok,
  In (Ev (KUpdate ws ds) ok) (fst (merge_prog fo has_abort outp groups)) ->
  ws = the_outs outp groups /\ ds = the_dels groups.
Proof. exact merge_prog_update_args. Qed.
Print Assumptions C13_update_args.

(* single flight.  Any interleaving of any number of callers (a replayable event list): a
   store call is made by the lock holder only ... *)
Theorem C13_single_flight_exclusion : forall l s c s',
  sf_replay sf_init l = Some s -> sf_step s (SfCall c) = Some s' -> sf_holder s = Some c.
Proof. exact sf_call_by_holder. Qed.
Print Assumptions C13_single_flight_exclusion.

(* ... and a Merge that starts while another one holds the lock can only return
   ErrMergeInProgress next: in particular it performs no store call *)
Theorem C13_single_flight_refused : forall l s c1 c2 s2 t2 s3 e s4,
  sf_replay sf_init l = Some s -> sf_holder s = Some c1 ->
  sf_step s (SfTry c2) = Some s2 ->
  sf_replay s2 t2 = Some s3 -> (forall x, In x t2 -> sf_caller x <> c2) ->
  sf_caller e = c2 -> sf_step s3 e = Some s4 ->
  e = SfRet c2 true.
Proof. exact sf_overlap_refused. Qed.
Print Assumptions C13_single_flight_refused.

(* D3, FileSystemDataStore used as MetaStore.  The program is the same; what a directory scan
   shows is not.  (a) between an output's Close and the Update, sources and output are visible
   together although nothing failed: "visible content exactly as before" does not hold at every
   point (it does for MemoryMetaStore, C13_memory_visibility). *)
Theorem C13_fs_visible_twice_refuted :
  let tr := fst (merge_prog (fun _ => false) true w_outp w_groups) in
  exists t1 t2, tr = t1 ++ t2 /\ existsb is_update_ok t1 = false /\
    map f_ptr (vis_after MSFs wfile w_store t1) = [1; 2; 3; 4; 100] /\
    map f_ptr (vis_after MSMemory wfile w_store t1) = [1; 2; 3; 4].
Proof. exact fs_visible_twice_witness. Qed.
Print Assumptions C13_fs_visible_twice_refuted.

(* (b) a read fault in a later group plus a failing cleanup tombstone: Merge returns (nil, err),
   the run is "aborted", yet an earlier group's output stays visible next to its sources *)
Theorem C13_fs_orphan_output_refuted :
  let r := merge_prog w_fault true w_outp w_groups in
  snd r = RetErr /\ abortedb (fst r) = true /\
  map f_ptr (vis_after MSFs wfile w_store (fst r)) = [1; 2; 3; 4; 100] /\
  map f_ptr (vis_after MSMemory wfile w_store (fst r)) = [1; 2; 3; 4].
Proof. exact fs_orphan_output_witness. Qed.
Print Assumptions C13_fs_orphan_output_refuted.

(* (c) what does hold for the filesystem store, final state only (writer with Abort): if no
   TombstoneFile fails in an uncommitted run - in particular under any single fault - the
   directory shows exactly the old content after Merge returned; a committed run shows the old
   content minus the sources plus the outputs whatever the source tombstones did *)
Theorem C13_fs_final : forall outf, (forall p, f_ptr (outf p) = p) ->
  forall fo outp groups st,
  NoDup (the_outs outp groups) ->
  (forall o, In o (the_outs outp groups) -> ~ In o (ptrs st)) ->
  (forall o, In o (the_outs outp groups) -> ~ In o (the_dels groups)) ->
  let tr := fst (merge_prog fo true outp groups) in
  (committedb tr = false -> (forall e, In e tr -> is_tomb_ev e = true -> e_ok e = true) ->
   vis_after MSFs outf st tr = st) /\
  (committedb tr = true ->
   vis_after MSFs outf st tr = remove_ptrs (the_dels groups) st ++ map outf (the_outs outp groups)).
Proof. exact merge_fs_final. Qed.
Print Assumptions C13_fs_final.

(* non-vacuity: the freshness premise is satisfiable and all four classes occur *)
Example C13_nonvacuous :
  (forall o, In o (outs_from w_outp 0 (length w_groups)) -> ~ In o (flat_map g_srcs w_groups)) /\
  snd (merge_prog (fun _ => false) true w_outp w_groups) = RetStats /\
  committedb (fst (merge_prog (fun _ => false) true w_outp w_groups)) = true /\
  snd (merge_prog (fun n => Nat.eqb n 17) true w_outp w_groups) = RetStatsCleanup /\
  snd (merge_prog (fun n => Nat.eqb n 10) true w_outp w_groups) = RetErr /\
  snd (merge_prog (fun _ => false) true w_outp []) = RetStats.
Proof.
  split; [|vm_compute; auto 6].
  vm_compute. intros o [<-|[<-|[]]]; intuition discriminate.
Qed.
