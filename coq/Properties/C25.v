(* C25 — Query expression trees mean what they say and survive serialization. Statements only. *)
From BS Require Import Lib.Bytes Model.Json Model.Expr Model.MinMax Model.QueryFn Model.Builder
  Proofs.ExprProofs Proofs.BuilderProofs.
From Coq Require Import List Bool.
Import ListNotations.

(* the flattening constructors mean And / Or of the arguments the caller wrote, for every
   evaluator: row matching, filter pruning, block prefiltering, row-level prefilter truth, regex *)
Theorem C25_and_sat : forall tok es l, sat_bexpr tok es (mk_and l) = sat_bexpr tok es (BAnd l).
Proof. exact ctor_and_sat. Qed.
Print Assumptions C25_and_sat.
Theorem C25_or_sat : forall tok es l, sat_bexpr tok es (mk_or l) = sat_bexpr tok es (BOr l).
Proof. exact ctor_or_sat. Qed.
Print Assumptions C25_or_sat.
Theorem C25_and_prune : forall F l, prune_eval F (mk_and l) = prune_eval F (BAnd l).
Proof. exact ctor_and_prune. Qed.
Print Assumptions C25_and_prune.
Theorem C25_or_prune : forall F l, prune_eval F (mk_or l) = prune_eval F (BOr l).
Proof. exact ctor_or_prune. Qed.
Print Assumptions C25_or_prune.
Theorem C25_pand_block : forall b l, eval_pexpr b (mk_pand l) = eval_pexpr b (PAnd l).
Proof. exact ctor_pand_block. Qed.
Print Assumptions C25_pand_block.
Theorem C25_por_block : forall b l, eval_pexpr b (mk_por l) = eval_pexpr b (POr l).
Proof. exact ctor_por_block. Qed.
Print Assumptions C25_por_block.
Theorem C25_pand_row : forall r l, row_pexpr r (mk_pand l) = row_pexpr r (PAnd l).
Proof. exact ctor_pand_row. Qed.
Print Assumptions C25_pand_row.
Theorem C25_por_row : forall r l, row_pexpr r (mk_por l) = row_pexpr r (POr l).
Proof. exact ctor_por_row. Qed.
Print Assumptions C25_por_row.
Theorem C25_rand_sat : forall re es l, sat_rexpr re es (mk_rand l) = sat_rexpr re es (RAnd l).
Proof. exact ctor_rand_sat. Qed.
Print Assumptions C25_rand_sat.
Theorem C25_ror_sat : forall re es l, sat_rexpr re es (mk_ror l) = sat_rexpr re es (ROr l).
Proof. exact ctor_ror_sat. Qed.
Print Assumptions C25_ror_sat.

(* any builder call sequence evaluates like the nested conjunction the caller wrote (the last
   Match / MatchRegex / MatchPrefilter replaces what came before; later calls are AND-ed), for every
   evaluator that reads And as conjunction *)
Theorem C25_builder : forall (evb : bexpr -> bool), (forall cs, evb (BAnd cs) = forallb evb cs) ->
  forall (evr : rexpr -> bool), (forall cs, evr (RAnd cs) = forallb evr cs) ->
  forall calls,
    evqb evb (q_bloom (build calls)) = evqb evb (q_bloom (den calls)) /\
    evqr evr (q_regex (build calls)) = evqr evr (q_regex (den calls)) /\
    q_pre (build calls) = q_pre (den calls).
Proof. exact builder_means_conjunction. Qed.
Print Assumptions C25_builder.

Theorem C25_builder_rows : forall tok re calls row,
  row_sat tok re (q_bloom (build calls)) (q_regex (build calls)) row =
  row_sat tok re (q_bloom (den calls)) (q_regex (den calls)) row.
Proof. exact builder_row_sat. Qed.
Print Assumptions C25_builder_rows.

(* the exported JSON shapes (struct tags, omitempty) decode back to the same tree *)
Theorem C25_json_bloom : forall e n, (bexpr_depth e <= n)%nat -> bexpr_of_json n (bexpr_json e) = e.
Proof. exact bexpr_rt. Qed.
Print Assumptions C25_json_bloom.
Theorem C25_json_regex : forall e n, (rexpr_depth e <= n)%nat -> rexpr_of_json n (rexpr_json e) = e.
Proof. exact rexpr_rt. Qed.
Print Assumptions C25_json_regex.
Theorem C25_json_prefilter : forall e n, (pexpr_depth e <= n)%nat -> pexpr_of_json n (pexpr_json e) = e.
Proof. exact pexpr_rt. Qed.
Print Assumptions C25_json_prefilter.
