(* C01 — Queries never miss a stored matching row (no false negatives).
   Statements only; proofs are in Proofs/ExprProofs.v, Proofs/QueryFnProofs.v, Proofs/MinMaxProofs.v. *)
From BS Require Import Lib.Bytes Model.Json Model.Expr Model.MinMax Model.QueryFn
  Model.Index Proofs.ExprProofs Proofs.MinMaxProofs Proofs.QueryFnProofs Proofs.IndexProofs.
From Coq Require Import List.
Import ListNotations.

(* For every tokenizer [tok], regex oracle [re], query, and set of files whose filters cover
   their rows and whose block metadata covers their rows' partition id and indexed values
   (flush, merge and external writers are all instances), a stored row that matches the bloom
   and regex expressions and whose own partition id / indexed values satisfy the prefilter is
   returned. Compression, false-positive rate and the split into files and blocks do not occur
   in the statement: it holds for all of them. *)
Theorem C01_no_false_negatives : forall tok re q files f b r,
  wf_files tok files -> pre_in64 q -> In f files -> In b (fl_blocks f) -> In r (bk_rows b) ->
  row_matches tok re q r = true -> row_pre q r = true ->
  In r (run_query tok re q files).
Proof. exact no_false_negatives. Qed.
Print Assumptions C01_no_false_negatives.

(* with multiplicities: the block's whole matching content is a segment of the result *)
Theorem C01_multiset : forall tok re q files f b r,
  wf_files tok files -> pre_in64 q -> In f files -> In b (fl_blocks f) -> In r (bk_rows b) ->
  row_matches tok re q r = true -> row_pre q r = true ->
  exists l1 l2, run_query tok re q files = l1 ++ filter (row_matches tok re q) (bk_rows b) ++ l2.
Proof. exact no_false_negatives_multiset. Qed.
Print Assumptions C01_multiset.

(* composition with C18: rows of any flush are found by any query they match, for every hash
   function, tokenizer and key set (the well-formedness premise is discharged by C18_flush_wf) *)
Theorem C01_flush_then_query : forall tok re locs keys buffers q pb r,
  (forall pb', In pb' buffers -> rows_ok keys (fst pb') (snd pb')) -> pre_in64 q ->
  In pb buffers -> In r (snd pb) ->
  row_matches tok re q r = true -> row_pre q r = true ->
  In r (run_query tok re q [flush_file tok locs keys buffers]).
Proof. exact flush_then_query. Qed.
Print Assumptions C01_flush_then_query.

(* pruning is monotone and never uses a property of the hash: filters that answer true on a
   row's entries cannot reject an expression the row satisfies *)
Theorem C01_prune_sound : forall tok F es e,
  covers tok F es -> sat_bexpr tok es e = true -> prune_eval F e = true.
Proof. exact prune_sound. Qed.
Print Assumptions C01_prune_sound.

(* the shared walker emits every non-empty delimiter-split prefix of every emitted path *)
Theorem C01_prefix_emitted : forall row L lf f rest,
  In (L, lf) (walk_row row) -> L = f ++ dot :: rest -> f <> [] -> exists lf', In (f, lf') (walk_row row).
Proof. exact prefix_emitted. Qed.
Print Assumptions C01_prefix_emitted.

(* the regex field-existence guard never rejects a row the regex tree accepts *)
Theorem C01_guard_sound : forall tok re row e g,
  sat_rexpr re (walk_row row) e = true -> guard e = Some g -> sat_bexpr tok (walk_row row) g = true.
Proof. exact guard_sound. Qed.
Print Assumptions C01_guard_sound.

(* compiling a regex tree for matching keeps its meaning (nil-condition nodes stay true) *)
Theorem C01_rcompile_sem : forall re es e, sat_rexpr re es (rcompile e) = sat_rexpr re es e.
Proof. exact rcompile_sem. Qed.
Print Assumptions C01_rcompile_sem.

(* AndBloomQueries with its flattening means conjunction, for matching and for pruning *)
Theorem C01_and_queries_sat : forall tok es a b,
  sat_bq tok es (and_queries a b) = (sat_bq tok es a && sat_bq tok es b)%bool.
Proof. exact sat_and_queries. Qed.
Print Assumptions C01_and_queries_sat.

Theorem C01_and_queries_prune : forall F a b,
  prune_q F (and_queries a b) = (prune_q F a && prune_q F b)%bool.
Proof. exact prune_and_queries. Qed.
Print Assumptions C01_and_queries_prune.

(* regression witnesses for the pinned tree (before fix D4): a nil-condition child of a regex Or
   was dropped by the matcher's compilation and by the guard *)
Theorem C01_pinned_rcompile_refuted : forall re,
  sat_rexpr re (walk_row d4_row) d4_tree = true /\
  sat_rexpr re (walk_row d4_row) (rcompile_pinned d4_tree) = false.
Proof. exact rcompile_pinned_refuted. Qed.
Print Assumptions C01_pinned_rcompile_refuted.

Theorem C01_pinned_guard_refuted : forall tok re,
  exists g, sat_rexpr re (walk_row d4_row) d4_tree2 = true /\ guard_pinned d4_tree2 = Some g /\
            sat_bexpr tok (walk_row d4_row) g = false.
Proof. exact guard_pinned_refuted. Qed.
Print Assumptions C01_pinned_guard_refuted.

(* non-vacuity: a flat key containing the delimiter, matched through its prefix path by a regex
   condition, in a file whose filters cover it *)
Definition ex_row : json := JObj [(lit "a.b", JStr (lit "x"))].
Example C01_nonvacuous :
  sat_rexpr (fun _ _ => true) (walk_row ex_row) (RCond (Some (lit "a", lit "."))) = true /\
  sat_bexpr (fun _ => []) (walk_row ex_row) (BCond (Some (CField (lit "a")))) = true.
Proof. split; reflexivity. Qed.

(* ---- kernel ties (DESIGN.md 10.7).  The Go functions the theorems above are about are translated
   from the current source on every run (Generated/Kernels.v); each tie states that the translated
   function equals the model definition used above, on the whole range of the Go types
   (Generated/KernelTie.v; `True` for a kernel the translator reports as not translated). ---- *)
From BS Require Import Generated.KernelTie Proofs.KTie_eval_minmax.

Theorem C01_kernel_tie_eval_minmax : tie_eval_minmax.
Proof. exact k_eval_minmax_tie. Qed.
Print Assumptions C01_kernel_tie_eval_minmax.
