(* C08 - Stop's contract. *)
From BS Require Import Model.Pipeline Proofs.PipelineBase Proofs.PipelineTruth Proofs.PipelineProofs.
From Coq Require Import List ZArith.
Import ListNotations.

(* once the stopped flag is set no request is admitted: IngestRows/Flush take the refuse branch *)
Theorem C08_refuse : forall c s, stopped s = true ->
  (forall r k ch, step c s (LTry r k ch) = None) /\ step c s LRefuse = Some s.
Proof. exact refuse. Qed.
Print Assumptions C08_refuse.

Theorem C08_refuse_forever : forall c s ls s', steps c s ls s' -> stopped s = true -> stopped s' = true.
Proof. exact stopped_persists. Qed.
Print Assumptions C08_refuse_forever.

Theorem C08_no_accept_after_stop : forall c s r, reachable c s -> stopped s = true -> step c s (LSent r) = None.
Proof. exact no_accept_after_stop. Qed.
Print Assumptions C08_no_accept_after_stop.

(* nil only after everything was answered (same statement as C05_graceful) *)
Theorem C08_nil_means_drained : forall c s, c_fixD6 c = true -> c_fixD9 c = true -> reachable c s ->
  stop_returned s = Some RNil ->
  forall r, In r (accepted s) -> chan_of s r <> Some ChNil -> answers s r = 1%nat.
Proof. exact graceful. Qed.
Print Assumptions C08_nil_means_drained.

(* the deadline: once Stop waits in its select and its context is done, Stop's own thread returns
   within three of its own steps, whatever the stores and done channels do.
   PARTIAL with respect to DESIGN C08_deadline_returns: the wait for stateMu (callers blocked on a
   full ingest buffer are released only through flush cancellation) is a liveness argument over
   the callers' and the actor's steps and is not proved. *)
Theorem C08_deadline_returns_partial : forall c s, c_fixD5 c = true -> spc s = SWait -> sdone s = true ->
  exists s1, step c s (LStopBr RErr) = Some s1 /\
  exists s2, step c s1 LFlushCancel = Some s2 /\
  exists s3, step c s2 (LStopReturn RErr) = Some s3 /\ stop_returned s3 = Some RErr.
Proof. exact deadline_returns. Qed.
Print Assumptions C08_deadline_returns_partial.

(* after a deadline return the flush context is cancelled (or the workers are gone), and a flush request
   taken from then on is abandoned: neither the ack-only nor the CreateFile path can start.  Store calls of
   a flush that was already past its ctx.Err() test run under the cancelled context. *)
Theorem C08_quiet_after_deadline : forall c s, c_fixD5 c = true -> reachable c s -> stop_returned s = Some RErr ->
  (fcanc s = true \/ wpc s = WExited \/ started s = false) /\
  (forall s1, step c s LWorkerTake = Some s1 -> step c s1 LFlBegin = None /\ step c s1 LFlAckOnly = None).
Proof. exact quiet_after_deadline. Qed.
Print Assumptions C08_quiet_after_deadline.

(* a waiter that can still receive is not met with silence: a delivery is given up only after the flush
   context was cancelled and never on a channel with buffer space (DESIGN 7.2b).
   PARTIAL: that every waiter is eventually attempted is liveness (see C05_progress_partial). *)
Theorem C08_no_silence_partial : forall c s r x, reachable c s -> In (r, FGivenUp x) (finished s) ->
  fcanc s = true /\ chan_of s r <> Some ChBuf /\ chan_of s r <> Some ChNil.
Proof. exact no_silence. Qed.
Print Assumptions C08_no_silence_partial.

(* the pinned tree (before fix D5): after Stop returned its deadline error a queued flush is taken and
   starts CreateFile under a live context *)
Theorem C08_quiet_pinned_D5_refuted :
  exists s s1 s2 s3, reachable (cfg0 false true true) s /\ stop_returned s = Some RErr /\
    step (cfg0 false true true) s LWorkerTake = Some s1 /\ step (cfg0 false true true) s1 LFlBegin = Some s2 /\
    step (cfg0 false true true) s2 (LSBegin KCreate) = Some s3 /\ fcanc s3 = false.
Proof. exact quiet_refuted_pinned. Qed.
Print Assumptions C08_quiet_pinned_D5_refuted.
