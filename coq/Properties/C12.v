(* C12 — Merge output respects the configured layout limits.
   Statements only; every proof is [exact <lemma from Proofs/>]. *)
From BS Require Import Lib.Bytes Model.MinMax Model.MergePlan Model.MergeCommit
  Proofs.MergePlanProofs Proofs.MergeCommitProofs.
From Coq Require Import ZArith NArith List Permutation.
Open Scope Z_scope.

(* processPartitionBlocks: a group that combines blocks (two or more) is within
   MaxRowGroupRows and MaxRowGroupBytes on the blocks' metadata, and all its members have
   one partition and one minmax key set.  Any block population, any limits, any partition
   visiting order. *)
Theorem C12_block_limits : forall c porder bs g,
  In g (plan_blocks c porder bs) -> (2 <= length g)%nat ->
  blocks_rows g <= c_max_rows c /\ blocks_usize g <= c_max_bytes c /\
  forall x y, In x g -> In y g ->
    b_part x = b_part y /\ Permutation (map fst (b_minmax x)) (map fst (b_minmax y)).
Proof. exact plan_blocks_limits. Qed.
Print Assumptions C12_block_limits.

(* ... and, the sources' metadata being truthful, the combined block really holds at most
   that many rows and uncompressed bytes *)
Theorem C12_output_limits : forall c e g,
  bgroup_ok c g -> (2 <= length g)%nat -> (forall b, In b g -> block_wf b) ->
  Z.of_nat (length (b_rows (out_block e g))) <= c_max_rows c /\
  zsum (map row_usize (b_rows (out_block e g))) <= c_max_bytes c.
Proof. exact merged_block_limits. Qed.
Print Assumptions C12_output_limits.

(* every source block lands in exactly one output block *)
Theorem C12_blocks_partitioned : forall c porder bs,
  NoDup porder -> (forall b, In b bs -> In (b_part b) porder) ->
  Permutation (concat (plan_blocks c porder bs)) bs.
Proof. exact plan_blocks_partition. Qed.
Print Assumptions C12_blocks_partitioned.

(* blockMergeKey is injective in (partition, key set): equal keys iff equal partition and the
   same minmax keys *)
Theorem C12_key_inj : forall m1 m2,
  merge_key m1 = merge_key m2 <->
  b_partition m1 = b_partition m2 /\ Permutation (map fst (b_mm m1)) (map fst (b_mm m2)).
Proof. exact merge_key_iff. Qed.
Print Assumptions C12_key_inj.

(* the framing argument, for any prefix-free length code ... *)
Theorem C12_framing_inj : forall lenc : N -> str,
  (forall n m s t, lenc n ++ s = lenc m ++ t -> n = m) ->
  forall xs ys, frame lenc xs = frame lenc ys -> xs = ys.
Proof. exact frame_inj. Qed.
Print Assumptions C12_framing_inj.

(* ... of which binary.AppendUvarint is one *)
Theorem C12_uvarint_prefix_free : forall fuel n m s t,
  uvarint fuel n ++ s = uvarint fuel m ++ t -> n = m.
Proof. exact uvarint_prefix_free. Qed.
Print Assumptions C12_uvarint_prefix_free.

(* identifyFileMergeGroups: at most MaxFilesToMergePerOperation files are grouped in one
   call, every group has at least two files whose footprints (sum of the blocks' OnDiskSize)
   total at most MaxFileSize, and the groups are taken from the candidates without repetition *)
Theorem C12_files : forall c files,
  let groups := plan_files c files in
  Z.of_nat (length (concat groups)) <= Z.max 0 (c_max_files c) /\
  Forall (fun g => (2 <= length g)%nat /\ files_size g <= c_max_file_size c) groups /\
  exists leftover, Permutation (concat groups ++ leftover) files.
Proof. exact plan_files_limits. Qed.
Print Assumptions C12_files.

(* the same for whatever order sort.Slice leaves equal keys in (indeed for any order) *)
Theorem C12_files_any_order : forall c files sorted,
  Permutation sorted files ->
  let groups := plan_files_ord c sorted in
  Z.of_nat (length (concat groups)) <= Z.max 0 (c_max_files c) /\
  Forall (fun g => (2 <= length g)%nat /\ files_size g <= c_max_file_size c) groups /\
  exists leftover, Permutation (concat groups ++ leftover) files.
Proof. exact plan_files_any_order. Qed.
Print Assumptions C12_files_any_order.

(* groups are pairwise disjoint (no pointer twice) *)
Theorem C12_files_disjoint : forall c files,
  NoDup (map f_ptr files) -> NoDup (map f_ptr (concat (plan_files c files))).
Proof. exact plan_files_disjoint. Qed.
Print Assumptions C12_files_disjoint.

(* a file larger than MaxFileSize is never merged with anything *)
Theorem C12_oversized_alone : forall c g f,
  group_ok c g -> (forall x, In x g -> 0 <= f_total_size x) -> In f g -> f_total_size f <= c_max_file_size c.
Proof. exact oversized_never_grouped. Qed.
Print Assumptions C12_oversized_alone.

(* whatever MetaStore.Update merge() issues, under any fault oracle: its delete list is
   exactly the grouped files, its write list one output per group *)
Theorem C12_deletes : forall c fo ha outp porders files ws ds ok,
  In (Ev (KUpdate ws ds) ok) (fst (merge_engine c fo ha outp porders files)) ->
  ds = map f_ptr (concat (plan_files c files)) /\ ws = map outp (seq 0 (length (plan_files c files))).
Proof. exact merge_engine_update_args. Qed.
Print Assumptions C12_deletes.

(* non-vacuity: a population where the cumulative test is what stops the group (the third
   block pairs with the seed but does not fit any more), and a file plan that hits the
   file-count limit *)
Definition c12_blk (id rows : Z) : block :=
  {| b_id := id; b_meta := {| b_partition := lit "p"; b_mm := [] |};
     b_nrows := rows; b_usize := 10 * rows; b_disk := 100; b_fparam := 0; b_ents := []; b_rows := [] |}.
Definition c12_cfg : cfg := {| c_max_rows := 10; c_max_bytes := 1000; c_max_file_size := 250; c_max_files := 3 |}.
Definition c12_file (p : Z) : file := {| f_ptr := p; f_blocks := [c12_blk p 4]; f_fparam := 0; f_ents := [] |}.

Example C12_nonvacuous :
  map (map b_id) (plan_blocks c12_cfg [lit "p"] [c12_blk 1 4; c12_blk 2 4; c12_blk 3 4; c12_blk 4 2])
    = [[1; 2; 4]; [3]] /\
  map (map f_ptr) (plan_files c12_cfg [c12_file 1; c12_file 2; c12_file 3; c12_file 4; c12_file 5])
    = [[1; 2]].
Proof. vm_compute. auto. Qed.

(* ---- kernel ties (DESIGN.md 10.7).  The Go functions the theorems above are about are translated
   from the current source on every run (Generated/Kernels.v); each tie states that the translated
   function equals the model definition used above, on the whole range of the Go types
   (Generated/KernelTie.v; `True` for a kernel the translator reports as not translated). ---- *)
From BS Require Import Generated.KernelTie Proofs.KTie_on_disk_size Proofs.KTie_within.

Theorem C12_kernel_tie_on_disk_size : tie_on_disk_size.
Proof. exact k_on_disk_size_tie. Qed.
Print Assumptions C12_kernel_tie_on_disk_size.

Theorem C12_kernel_tie_within : tie_within.
Proof. exact k_within_tie. Qed.
Print Assumptions C12_kernel_tie_within.
