(* C05 - every accepted batch is answered exactly once.
   Statements only; every proof is [exact <lemma from Proofs/Pipeline*.v>].
   [reachable c s] ranges over every interleaving of callers, ingest actor, flush worker,
   Start/Stop, the AfterFunc callback and every store outcome, for every configuration c. *)
From BS Require Import Model.Pipeline Proofs.PipelineBase Proofs.PipelineTruth Proofs.PipelineProofs.
From Coq Require Import List ZArith.
Import ListNotations.

(* no done channel ever receives two values *)
Theorem C05_at_most_once : forall c s, reachable c s -> forall r, (answers s r <= 1)%nat.
Proof. exact at_most_once. Qed.
Print Assumptions C05_at_most_once.

(* Loc: every accepted request is in exactly one place - in flight or finished *)
Theorem C05_loc : forall c s, reachable c s ->
  NoDup (pipeline s ++ map fst (finished s)) /\ Permutation.Permutation (accepted s) (pipeline s ++ map fst (finished s)).
Proof. exact loc. Qed.
Print Assumptions C05_loc.

(* Stop returned nil => every accepted batch that supplied a channel received exactly one value.
   Batches accepted before Start, racing with Stop, empty and rejected ones are not special
   cased: they are ordinary requests of the LTS.  Needs the code with D6 (Stop starts the
   workers of a never-started engine) and D9 (nil only if the deadline callback never ran) fixed. *)
Theorem C05_graceful : forall c s, c_fixD6 c = true -> c_fixD9 c = true -> reachable c s ->
  stop_returned s = Some RNil ->
  forall r, In r (accepted s) -> chan_of s r <> Some ChNil -> answers s r = 1%nat.
Proof. exact graceful. Qed.
Print Assumptions C05_graceful.

(* the caller that keeps receiving: a delivery attempt is never blocked by the engine when the
   channel has room or a receiver; with a nil channel it is skipped.
   PARTIAL with respect to DESIGN C05_progress (which asks for an enabled step decreasing a
   lexicographic measure under weak fairness): what is proved is that the only place a request
   can wait for its caller - the delivery attempt - is enabled whenever the caller can receive. *)
Theorem C05_progress_partial : forall c s w r x, target s w = Some (r, x) ->
  (chan_of s r = Some ChBuf \/ chan_of s r = Some ChDrain -> exists s', step c s (LAck w AOk) = Some s') /\
  (chan_of s r = Some ChNil -> exists s', step c s (LAck w ANil) = Some s') /\
  (fcanc s = true -> chan_of s r = Some ChAbandon -> exists s', step c s (LAck w AGiveUp) = Some s').
Proof. exact delivery_enabled. Qed.
Print Assumptions C05_progress_partial.

(* no deadlock: with a started engine, time able to elapse, stores that answer (every [LSEnd] is enabled
   by construction) and no abandoned channel among the in-flight requests, the engine itself has an
   enabled step as long as a request is in flight - the cases accepted-before-Start, racing-with-Stop,
   empty and unmarshalable are ordinary states of the LTS.
   PARTIAL: the decreasing measure that turns this into "eventually answered" under weak fairness
   is not formalised. *)
Theorem C05_progress_enabled_partial : forall c s, cfg_wf c -> reachable c s -> started s = true -> c_timeless c = false ->
  pipeline s <> [] ->
  (forall r, In r (pipeline s) -> chan_of s r <> Some ChAbandon) ->
  exists l s', internal l /\ step c s l = Some s'.
Proof. exact no_deadlock. Qed.
Print Assumptions C05_progress_enabled_partial.

(* the pinned tree (before fix D6): never-started engine, Stop returns nil, the batch is never answered *)
Theorem C05_graceful_pinned_D6_refuted :
  exists s, reachable (cfg0 true false true) s /\ stop_returned s = Some RNil /\
            In 0%nat (accepted s) /\ chan_of s 0%nat = Some ChBuf /\ answers s 0%nat = 0%nat.
Proof. exact graceful_refuted_never_started. Qed.
Print Assumptions C05_graceful_pinned_D6_refuted.

(* the pinned tree (before fix D9): the deadline fired, a delivery was given up, Stop still returns nil *)
Theorem C05_graceful_pinned_D9_refuted :
  exists s, reachable (cfg0 true true false) s /\ stop_returned s = Some RNil /\
            In 0%nat (accepted s) /\ chan_of s 0%nat = Some ChDrain /\ answers s 0%nat = 0%nat.
Proof. exact graceful_refuted_giveup. Qed.
Print Assumptions C05_graceful_pinned_D9_refuted.

(* non-vacuity of C05_graceful: a run of the fixed model with a batch accepted before Start and one
   racing with Stop, both answered nil after a graceful Stop *)
Example C05_nonvacuous :
  exists s, reachable (cfg0 true true true) s /\ stop_returned s = Some RNil /\ accepted s = [0%nat; 1%nat] /\
            ack s 0%nat = Some RNil /\ ack s 1%nat = Some RNil /\ visible s = [0%nat; 1%nat].
Proof. exact good_run. Qed.
