(* C21 - Queries release every resource they acquire.
   [preachable p]: any sequence of pool operations by any number of readers (Model/HandlePool.v);
   [reachable fx cap es s]: the composed pipeline of K queries (Model/QueryLTS.v), every interleaving, every
   cancel / Close point, every store and iterator failure, any consumer speed. *)
From BS Require Import Model.Stats Model.Cursor Model.HandlePool Model.Slots Model.QueryLTS
  Proofs.HandlePoolProofs Proofs.SlotsProofs Proofs.QueryLTSProofs Proofs.QueryInvProofs.
From Coq Require Import List ZArith Bool Arith Permutation.
Import ListNotations.

(* no handle is lent to two readers at once *)
Theorem C21_exclusive : forall p, preachable p -> NoDup (held_handles p).
Proof. exact pool_exclusive. Qed.
Print Assumptions C21_exclusive.

(* a handle in a reader's hands has not been closed and is not idle in any entry *)
Theorem C21_no_use_after_close : forall p h,
  preachable p -> In h (held_handles p) -> ~ In h (p_closedh p) /\ ~ In h (idle_all (p_files p)).
Proof. exact pool_no_use_after_close. Qed.
Print Assumptions C21_no_use_after_close.

(* no handle is closed twice, only opened handles are closed, an idle handle is not a closed one *)
Theorem C21_closed_once : forall p,
  preachable p -> NoDup (p_closedh p) /\ (forall h, In h (p_closedh p) -> In h (p_opened p)) /\
                  (forall h, In h (idle_all (p_files p)) -> ~ In h (p_closedh p)).
Proof. exact pool_closed_once. Qed.
Print Assumptions C21_closed_once.

(* after closeAll, with no reader left in the pool: every opened handle closed exactly once *)
Theorem C21_pool_all_closed : forall p,
  preachable p -> p_closed p = true -> p_held p = [] ->
  Permutation (p_closedh p) (p_opened p) /\ NoDup (p_closedh p).
Proof. exact pool_all_closed. Qed.
Print Assumptions C21_pool_all_closed.

(* the pipeline: when the cursor's channels are closed - the only way Next returns false or Close returns -
   the file stage (hence the MetaStore iterator's range loop), every file worker and every block worker have exited *)
Theorem C21_all_exited : forall fx cap es s q,
  reachable fx cap es s -> In q (g_qs s) -> m_finished (c_m (q_cur q)) = true ->
  fs_exited q = true /\ forallb fw_exited (q_fws q) = true /\ forallb bw_exited (q_bws q) = true /\ q_td q = TDone.
Proof. exact all_exited. Qed.
Print Assumptions C21_all_exited.

(* ... every handle the query opened has been closed exactly once, none is checked out or being opened ... *)
Theorem C21_handles_closed : forall fx cap es s q,
  reachable fx cap es s -> In q (g_qs s) -> m_finished (c_m (q_cur q)) = true ->
  Permutation (p_closedh (q_pool q)) (p_opened (q_pool q)) /\ NoDup (p_closedh (q_pool q)) /\
  p_held (q_pool q) = [] /\ p_opening (q_pool q) = [] /\ p_closed (q_pool q) = true.
Proof. exact handles_closed. Qed.
Print Assumptions C21_handles_closed.

(* ... and the query holds no slot of the concurrency budget; the semaphore holds exactly what workers hold *)
Theorem C21_budget : forall fx cap es s q,
  reachable fx cap es s -> In q (g_qs s) -> m_finished (c_m (q_cur q)) = true -> q_slots q = 0.
Proof. exact budget_returned. Qed.
Print Assumptions C21_budget.

Theorem C21_semaphore_accounting : forall fx cap es s,
  reachable fx cap es s -> g_used s = sum_slots (g_qs s) /\ g_used s <= cap.
Proof. exact semaphore_is_held_slots. Qed.
Print Assumptions C21_semaphore_accounting.

(* every query's pool is a pool of the component model: the three handle theorems above hold inside the pipeline *)
Theorem C21_pipeline_pool : forall fx cap es s q,
  reachable fx cap es s -> In q (g_qs s) -> preachable (q_pool q).
Proof. exact pipeline_pool. Qed.
Print Assumptions C21_pipeline_pool.

(* PARTIAL: goroutine exit is modelled at hook granularity (the *.exit events are the last thing a goroutine
   does before its WaitGroup.Done); that the Go runtime then really ends the goroutine is observed
   (runtime.NumGoroutine settles), not modelled. *)

(* non-vacuity: a reader does hold a handle in some reachable pool state, and a closed pool with every handle closed exists *)
Example C21_nonvacuous :
  (exists p, preachable p /\ held_handles p = [0]) /\
  (exists p, preachable p /\ p_closed p = true /\ p_held p = [] /\ p_opened p = [0] /\ p_closedh p = [0]).
Proof.
  split.
  - destruct (pool_steps pinit [PRetain 1%Z; PAcquireOpen 7 1%Z; POpenOk 7]) as [p|] eqn:E; [|vm_compute in E; discriminate].
    exists p. split; [eapply preachable_steps; [apply pr_init|exact E]|]. vm_compute in E. injection E as <-. reflexivity.
  - destruct (pool_steps pinit [PRetain 1%Z; PAcquireOpen 7 1%Z; POpenOk 7; PPut 7 1%Z false; PCloseAll]) as [p|] eqn:E; [|vm_compute in E; discriminate].
    exists p. split; [eapply preachable_steps; [apply pr_init|exact E]|]. vm_compute in E. injection E as <-. repeat split; reflexivity.
Qed.
