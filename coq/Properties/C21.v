From BS Require Import Model.Slots Proofs.SlotsProofs.
Theorem C21_placeholder : forall cap n s, sreachable cap n s -> used s <= s_cap s /\ s_cap s = cap /\ length (s_held s) = n.
Proof. exact slots_bounded. Qed.
Print Assumptions C21_placeholder.
