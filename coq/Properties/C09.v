(* C09 - bounded backpressure. *)
From BS Require Import Model.Pipeline Proofs.PipelineBase Proofs.PipelineBounds.
From Coq Require Import List ZArith.
Open Scope Z_scope.

(* accepted-but-unattempted requests never exceed IngestBufferSize + 1 + (cap(flushChan) + 2) * MaxBufferedRows,
   with no hypothesis on the stores: they may stall at any call, for ever *)
Theorem C09_bound : forall c s, cfg_wf c -> reachable c s -> unanswered s <= bound c.
Proof. exact unanswered_bound. Qed.
Print Assumptions C09_bound.

(* a full ingest buffer admits nothing: the caller blocks or takes its ctx branch *)
Theorem C09_blocks : forall c s r, len (ich s) = c_icap c -> step c s (LSent r) = None.
Proof. exact full_blocks. Qed.
Print Assumptions C09_blocks.

(* non-vacuity: the bound is a function of the three configuration values only *)
Example C09_bound_value : bound (mkCfg 4 1 10 100 10 100 true true true true true) = 35.
Proof. reflexivity. Qed.
