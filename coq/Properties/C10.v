(* C10 - buffered rows are flushed without an explicit Flush (DESIGN 7.7a: a started engine). *)
From BS Require Import Model.Pipeline Proofs.PipelineBase Proofs.PipelineBounds Proofs.PipelineProofs.
From Coq Require Import List ZArith.
Import ListNotations.
Open Scope Z_scope.

(* the actor's step on a valid non-empty batch: afterwards rows, bytes and every partition are below
   their limits; a reached limit forces the flush; a flush empties the buffer into a flush request that
   carries the batch.  No Force request and no Stop is involved. *)
Theorem C10_limits : forall c s fl s', cfg_wf c -> reachable c s -> step c s (LActorBuffer fl) = Some s' ->
  below_limits c (buf s') /\
  (exists r ct, apc s = AHold r /\ kind_of s r = Some (KBatch true ct) /\
     (limit_flush c (buf_add r ct (buf s)) ct = true -> fl = true) /\
     (fl = true -> buf s' = buf_empty /\ apc s' = AEnq (mk_freq (buf_add r ct (buf s))) /\
                   fw (mk_freq (buf_add r ct (buf s))) = b_w (buf s) ++ [r]) /\
     (fl = false -> buf s' = buf_add r ct (buf s) /\ apc s' = AIdle)).
Proof. exact buffer_step_limits. Qed.
Print Assumptions C10_limits.

(* at every reachable state the buffer is below every limit *)
Theorem C10_always_below : forall c s, cfg_wf c -> reachable c s -> below_limits c (buf s).
Proof. exact always_below. Qed.
Print Assumptions C10_always_below.

(* the time trigger. PARTIAL with respect to DESIGN C10_time: the model has no clock; what is proved is
   that with rows buffered and the actor at its select the ticker branch is enabled and issues the
   flush carrying the whole buffer; that it fires within MaxBufferedTime + one tick is measured. *)
Theorem C10_time_partial : forall c s, apc s = AIdle -> amode s = MRun -> 0 < b_rows (buf s) -> c_timeless c = false ->
  exists s', step c s LTickFlush = Some s' /\ apc s' = AEnq (mk_freq (buf s)) /\ buf s' = buf_empty.
Proof. exact tick_enabled. Qed.
Print Assumptions C10_time_partial.

(* C10_no_wait_on_flush: none of the statements above mentions a Force request or Stop - they hold in
   histories without either.  Non-vacuity: a run with MaxBufferedRows = 2, no Flush, no Stop, in which the
   second batch triggers the flush and both batches end up answered nil and visible. *)
Example C10_no_wait_on_flush :
  exists s, reachable cfg_small s /\ stop_returned s = None /\ stopped s = false /\
            ack s 0%nat = Some RNil /\ ack s 1%nat = Some RNil /\ visible s = [0%nat; 1%nat] /\ pipeline s = [].
Proof. exact limit_run. Qed.
