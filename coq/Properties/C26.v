(* C26 — Bloom filters meet the configured false-positive rate at any volume.
   Statements only; every proof is [exact <lemma from Proofs/SizingProofs.v>].

   Full property: for any set of rows and any configured rate p, the fraction of absent
   entries a written file's or block's filter reports as present stays within statistical
   tolerance of p, whatever the number of distinct entries.

   PARTIAL. What is proved is the engine's half of that: over every history of flushes and
   merges (any rows, any partition into blocks, any merge plan, any rate per operation),
   every filter left in the store — block level and file level — was created with
   n = max(1, number of distinct entries of the rows it covers) and the rate configured when
   it was built, received exactly those entries, and the counts recorded in the metadata
   are those same numbers. NOT proved: the analytic step that a filter with
   m = ceil(-n ln p / ln^2 2) bits and k = ceil(ln 2 * m / n) hash functions has a
   false-positive rate near p. That is a statement about real-valued ceilings composed with
   the murmur-based double hashing of bits-and-blooms/bloom, which no model here carries; it
   is exercised by the harness (Cap/K against bloom.EstimateParameters, bit occupancy and
   measured rate against the binomial/occupancy tolerance). *)
From BS Require Import Lib.Bytes Model.Sizing Proofs.SizingProofs.
From Coq Require Import List ZArith Permutation.
Import ListNotations.
Open Scope Z_scope.

(* the number of distinct entries depends on the set of entries only *)
Theorem C26_distinct : forall xs ys, (forall x, In x xs <-> In x ys) -> distinct_count xs = distinct_count ys.
Proof. exact distinct_count_set. Qed.
Print Assumptions C26_distinct.

(* ... hence not on insertion order *)
Theorem C26_distinct_order : forall xs ys, Permutation xs ys -> distinct_count xs = distinct_count ys.
Proof. exact distinct_count_perm. Qed.
Print Assumptions C26_distinct_order.

(* ... and not on multiplicity: re-inserting entries already seen changes nothing *)
Theorem C26_distinct_multiplicity : forall xs ys, incl ys xs -> distinct_count (xs ++ ys) = distinct_count xs.
Proof. exact distinct_count_repeat. Qed.
Print Assumptions C26_distinct_multiplicity.

(* it is the cardinality: every duplicate-free enumeration of the set has that length *)
Theorem C26_distinct_cardinality : forall l xs,
  NoDup l -> (forall x, In x l <-> In x xs) -> zlen l = distinct_count xs.
Proof. exact distinct_count_char. Qed.
Print Assumptions C26_distinct_cardinality.

(* every filter written by flush or merge, at file and block level, over all histories:
   created with n = max(1, |distinct entries it covers|) and the configured rate, and it
   received exactly those entries (each once) *)
Theorem C26_sized_from_measured_partial : forall ops st, run_ops [] ops = Some st ->
  forall f, In f st ->
  (forall c, filter_sized (filter_of c (fl_filters f)) (fl_rate f) (rows_ents c (file_rows f))) /\
  (forall b, In b (fl_blocks f) ->
     forall c, filter_sized (filter_of c (b_filters b)) (b_rate b) (rows_ents c (b_rows b))).
Proof. exact sized_from_measured. Qed.
Print Assumptions C26_sized_from_measured_partial.

(* the counts recorded in file and block metadata are the distinct counts, the number of
   entries the filter received, and (clamped at 1) the n the filter was sized for *)
Theorem C26_counts_recorded : forall ops st, run_ops [] ops = Some st ->
  forall f, In f st ->
  (forall c, count_recorded (count_of c (fl_counts f)) (filter_of c (fl_filters f)) (rows_ents c (file_rows f))) /\
  (forall b, In b (fl_blocks f) ->
     forall c, count_recorded (count_of c (b_counts b)) (filter_of c (b_filters b)) (rows_ents c (b_rows b))).
Proof. exact counts_recorded. Qed.
Print Assumptions C26_counts_recorded.

(* the file-level filter holds exactly the union of what the block-level filters hold *)
Theorem C26_covers_union : forall ops st, run_ops [] ops = Some st ->
  forall f, In f st -> forall c x,
  In x (f_members (filter_of c (fl_filters f))) <->
  exists b, In b (fl_blocks f) /\ In x (f_members (filter_of c (b_filters b))).
Proof. exact covers_union. Qed.
Print Assumptions C26_covers_union.

(* "the configured rate": a flushed file and all its blocks carry the rate of the flush ... *)
Theorem C26_flush_rate : forall rate parts,
  fl_rate (flush_file rate parts) = rate /\
  Forall (fun b => b_rate b = rate) (fl_blocks (flush_file rate parts)) /\
  map b_rows (fl_blocks (flush_file rate parts)) = parts.
Proof. exact flush_file_rates. Qed.
Print Assumptions C26_flush_rate.

(* ... a merged file carries the rate of the merge; its blocks are, group by group, the source
   block itself (copied: filters, counts and rate untouched) or a block rebuilt from the
   concatenated rows at the merge's rate *)
Theorem C26_merge_shape : forall rate gs,
  fl_rate (merge_file rate gs) = rate /\
  Forall2 (fun g b => match g with
                      | OCopy src => b = src
                      | OMerge srcs => b = fst (build_block rate (concat (map b_rows srcs)))
                      end) gs (fl_blocks (merge_file rate gs)).
Proof. exact merge_file_shape. Qed.
Print Assumptions C26_merge_shape.

(* non-vacuity: a history with two flushes at different rates and a merge (one merged block,
   one copied block) runs to a store, with the sizes one expects *)
Example C26_history_runs :
  exists f, run_ops [] ex_ops = Some [f] /\ fl_rate f = 30 /\
            map b_rate (fl_blocks f) = [30; 10] /\
            f_n (ff_token (fl_filters f)) = 2 /\ f_n (ff_field (fl_filters f)) = 2 /\ f_n (ff_ftok (fl_filters f)) = 3 /\
            map (fun b => f_n (ff_token (b_filters b))) (fl_blocks f) = [2; 1].
Proof. exact ex_history_runs. Qed.
