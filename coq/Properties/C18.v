(* C18 — Indexes cover their data at every level of the hierarchy. Statements only. *)
From BS Require Import Lib.Bytes Model.Json Model.Expr Model.MinMax Model.QueryFn Model.Index
  Proofs.ExprProofs Proofs.MinMaxProofs Proofs.QueryFnProofs Proofs.IndexProofs.
From Coq Require Import List NArith ZArith.
Import ListNotations.

(* a bloom filter built by inserting a set of entries answers true on each of them, for every
   hash function (no property of the hash is used) *)
Theorem C18_bloom_no_false_negative : forall locs xs x, In x xs -> bf_test locs (bf_build locs xs) x = true.
Proof. exact bloom_no_fn. Qed.
Print Assumptions C18_bloom_no_false_negative.

(* a flushed file is well formed: every block's filters contain every field path, token and
   field:token pair of every row in the block; the file's filters contain every entry of every
   block; every block's minmax ranges cover every indexed value of its rows; the block's partition
   id is the partition of each of its rows — for every tokenizer, hash, key set and row set *)
Theorem C18_flush_wf : forall tok locs keys buffers,
  (forall pb, In pb buffers -> rows_ok keys (fst pb) (snd pb)) ->
  wf_file tok (flush_file tok locs keys buffers).
Proof. exact flush_file_wf. Qed.
Print Assumptions C18_flush_wf.

(* the index lists exactly the keys its rows provided a numeric, non-NaN value for *)
Theorem C18_keys_exact : forall keys rs k,
  assoc k (index_rows keys rs) <> None <->
  exists r v lo hi, In r rs /\ In k keys /\ assoc k (r_vals r) = Some v /\ conv v = Some (lo, hi).
Proof. exact index_rows_keys. Qed.
Print Assumptions C18_keys_exact.

(* a merged block (rows re-streamed, filters rebuilt, ranges unioned) stays well formed *)
Theorem C18_merge_block_wf : forall tok locs p srcs b r,
  (forall s, In s srcs -> b_partition (bk_meta s) = p /\ mm_all (b_mm (bk_meta s))) ->
  In b srcs -> In r (bk_rows b) -> covers_row (bk_meta b) (sr_pre r) ->
  covers tok (bk_filters (merge_blocks tok locs p srcs)) (walk_row (sr_json r)) /\
  covers_row (bk_meta (merge_blocks tok locs p srcs)) (sr_pre r).
Proof. exact merge_blocks_wf. Qed.
Print Assumptions C18_merge_block_wf.

(* a file assembled from well-formed blocks (merged or copied verbatim) whose file-level filters
   are rebuilt from all of its rows is well formed *)
Theorem C18_file_wf : forall tok locs blocks,
  (forall b r, In b blocks -> In r (bk_rows b) ->
     covers tok (bk_filters b) (walk_row (sr_json r)) /\ covers_row (bk_meta b) (sr_pre r)) ->
  wf_file tok (make_file tok locs blocks).
Proof. exact make_file_wf. Qed.
Print Assumptions C18_file_wf.

(* ranges recorded by flush stay int64 and ordered (needed by every later merge) *)
Theorem C18_ranges_wf : forall keys rs, (forall r, In r rs -> row_vals_ok keys r) -> mm_all (index_rows keys rs).
Proof. exact index_rows_all. Qed.
Print Assumptions C18_ranges_wf.

Theorem C18_merge_ranges_wf : forall m1 m2, mm_all m1 -> mm_all m2 -> mm_all (merge_mm m1 m2).
Proof. exact merge_mm_all. Qed.
Print Assumptions C18_merge_ranges_wf.

(* ---- kernel ties (DESIGN.md 10.7).  The Go functions the theorems above are about are translated
   from the current source on every run (Generated/Kernels.v); each tie states that the translated
   function equals the model definition used above, on the whole range of the Go types
   (Generated/KernelTie.v; `True` for a kernel the translator reports as not translated). ---- *)
From BS Require Import Generated.KernelTie Proofs.KTie_update_mm.

Theorem C18_kernel_tie_update_mm : tie_update_mm.
Proof. exact k_update_mm_tie. Qed.
Print Assumptions C18_kernel_tie_update_mm.
