(* Order-preserving sub-multisets. *)
From Coq Require Import List Arith Lia.
Import ListNotations.

Inductive sublist {A} : list A -> list A -> Prop :=
| sl_nil : sublist [] []
| sl_skip x l1 l2 : sublist l1 l2 -> sublist l1 (x :: l2)
| sl_keep x l1 l2 : sublist l1 l2 -> sublist (x :: l1) (x :: l2).

Lemma sublist_refl {A} (l : list A) : sublist l l.
Proof. induction l; constructor; assumption. Qed.

Lemma sublist_nil {A} (l : list A) : sublist [] l.
Proof. induction l; constructor; assumption. Qed.

Lemma sublist_filter {A} (p : A -> bool) (l : list A) : sublist (filter p l) l.
Proof. induction l as [|x l IH]; simpl; [constructor|]. destruct (p x); constructor; assumption. Qed.

Lemma sublist_app {A} (a b c d : list A) : sublist a b -> sublist c d -> sublist (a ++ c) (b ++ d).
Proof. intros H1 H2. induction H1; simpl; try constructor; assumption. Qed.

Lemma sublist_trans {A} (a b c : list A) : sublist a b -> sublist b c -> sublist a c.
Proof.
  intros H1 H2. revert a H1. induction H2; intros a H1.
  - exact H1.
  - constructor. apply IHsublist. exact H1.
  - inversion H1 as [|y a1 b1 Hs|y a1 b1 Hs]; subst; constructor; apply IHsublist; exact Hs.
Qed.

Lemma sublist_flat_map {A B} (f g : A -> list B) (l : list A) :
  (forall x, In x l -> sublist (f x) (g x)) -> sublist (flat_map f l) (flat_map g l).
Proof.
  induction l as [|x l IH]; intro H; simpl; [constructor|].
  apply sublist_app; [apply H; left; reflexivity| apply IH; intros y Hy; apply H; right; exact Hy].
Qed.

Lemma sublist_In {A} (a b : list A) x : sublist a b -> In x a -> In x b.
Proof. intro H. induction H; simpl; intro Hx; auto. destruct Hx; auto. Qed.

Lemma sublist_length {A} (a b : list A) : sublist a b -> length a <= length b.
Proof. intro H. induction H; simpl; lia. Qed.

Lemma sublist_count {A} (eq_dec : forall x y : A, {x = y} + {x <> y}) (a b : list A) x :
  sublist a b -> count_occ eq_dec a x <= count_occ eq_dec b x.
Proof.
  intro H. induction H; simpl; auto.
  - destruct (eq_dec x0 x); lia.
  - destruct (eq_dec x0 x); lia.
Qed.
