(* Go's int64 arithmetic: values in [-2^63, 2^63), + and - wrap around.
   Used exactly where a property is about overflow (family T bounds checks). *)
From Coq Require Import ZArith Bool Lia.
Open Scope Z_scope.

Definition Max64 : Z := 9223372036854775807.
Definition Min64 : Z := -9223372036854775808.
Definition two63 : Z := 9223372036854775808.
Definition two64 : Z := 18446744073709551616.

Definition wrap64 (z : Z) : Z := (z + two63) mod two64 - two63.
Definition add64 (a b : Z) : Z := wrap64 (a + b).
Definition sub64 (a b : Z) : Z := wrap64 (a - b).

Definition i64 (z : Z) : Prop := Min64 <= z <= Max64.
Definition i64b (z : Z) : bool := (Min64 <=? z) && (z <=? Max64).

Lemma i64b_spec z : i64b z = true <-> i64 z.
Proof. unfold i64b, i64. rewrite andb_true_iff, !Z.leb_le. tauto. Qed.

Lemma wrap64_id z : i64 z -> wrap64 z = z.
Proof.
  unfold i64, wrap64, Min64, Max64, two63, two64. intro H.
  rewrite Z.mod_small by lia. lia.
Qed.

Lemma wrap64_i64 z : i64 (wrap64 z).
Proof.
  unfold i64, wrap64, Min64, Max64, two63, two64.
  pose proof (Z.mod_pos_bound (z + 9223372036854775808) 18446744073709551616 ltac:(lia)). lia.
Qed.

(* subtraction of two non-negative int64 values never wraps *)
Lemma sub64_nonneg a b : 0 <= a -> 0 <= b -> i64 a -> i64 b -> sub64 a b = a - b.
Proof. intros. unfold sub64. apply wrap64_id. unfold i64, Min64, Max64 in *. lia. Qed.

(* a - b with b <= a, both int64, a - b representable when b >= 0 or the gap is small *)
Lemma sub64_le a b : i64 a -> i64 b -> 0 <= b -> b <= a -> sub64 a b = a - b.
Proof. intros. unfold sub64. apply wrap64_id. unfold i64, Min64, Max64 in *. lia. Qed.

(* the sum of two non-negative int64 values wraps iff the wrapped result is below an operand *)
Lemma add64_nonneg_cases a b : 0 <= a -> 0 <= b -> i64 a -> i64 b ->
  (a + b <= Max64 /\ add64 a b = a + b) \/ (a + b > Max64 /\ add64 a b = a + b - two64 /\ add64 a b < 0).
Proof.
  intros Ha Hb Ia Ib. unfold add64, wrap64, i64, Min64, Max64, two63, two64 in *.
  destruct (Z_le_gt_dec (a + b) 9223372036854775807) as [L|G].
  - left. split; [exact L|]. rewrite Z.mod_small by lia. lia.
  - right. split; [exact G|].
    replace (a + b + 9223372036854775808) with ((a + b - 9223372036854775808) + 1 * 18446744073709551616) by lia.
    rewrite Z.mod_add by lia. rewrite Z.mod_small by lia. lia.
Qed.

Lemma add64_no_wrap a b : 0 <= a -> 0 <= b -> i64 a -> i64 b -> a <= add64 a b -> add64 a b = a + b.
Proof.
  intros Ha Hb Ia Ib H. destruct (add64_nonneg_cases a b Ha Hb Ia Ib) as [[_ E]|[_ [_ N]]]; [exact E|lia].
Qed.
