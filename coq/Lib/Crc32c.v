(* CRC32C (Castagnoli, reflected polynomial 0x82F63B78), bit-serial, executable.
   The family-T theorems are parametric in the checksum function; the case runner
   instantiates it with this definition, so the correspondence also compares the
   engine's checksums with an independent computation. *)
From BS Require Import Lib.Bytes.
From Coq Require Import List NArith.
Open Scope N_scope.

Definition crc_poly : N := 2197175160.      (* 0x82F63B78 *)
Definition crc_mask : N := 4294967295.      (* 0xFFFFFFFF *)

Definition crc_shift (c : N) : N :=
  if N.odd c then N.lxor (N.shiftr c 1) crc_poly else N.shiftr c 1.

Definition crc_byte (c b : N) : N :=
  let c := N.lxor c b in
  crc_shift (crc_shift (crc_shift (crc_shift (crc_shift (crc_shift (crc_shift (crc_shift c))))))).

Definition crc32c (s : str) : N := N.lxor (fold_left crc_byte s crc_mask) crc_mask.
