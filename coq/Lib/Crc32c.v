(* CRC32C (Castagnoli, reflected polynomial 0x82F63B78), executable.
   The family-T theorems are parametric in the checksum function; the case runner
   instantiates it with this definition, so the correspondence also compares the
   engine's checksums with an independent computation.  Four bits per step through a
   16-entry table (the table is the bit-serial shift applied four times). *)
From BS Require Import Lib.Bytes.
From Coq Require Import List NArith.
Open Scope N_scope.

Definition crc_poly : N := 2197175160.      (* 0x82F63B78 *)
Definition crc_mask : N := 4294967295.      (* 0xFFFFFFFF *)

Definition crc_shift (c : N) : N :=
  if N.odd c then N.lxor (N.shiftr c 1) crc_poly else N.shiftr c 1.

Definition crc_shift4 (c : N) : N := crc_shift (crc_shift (crc_shift (crc_shift c))).

(* crc_shift4 of the sixteen nibbles, precomputed *)
Definition crc_t16 (i : N) : N :=
  match i with
  | 0 => 0 | 1 => 274646895 | 2 => 549293790 | 3 => 820201905
  | 4 => 1098587580 | 5 => 1361435347 | 6 => 1640403810 | 7 => 1905808397
  | 8 => 2197175160 | 9 => 2460548119 | 10 => 2722870694 | 11 => 2987750089
  | 12 => 3280807620 | 13 => 3553878443 | 14 => 3811616794 | _ => 4084100981
  end.

Definition crc_nibble (c : N) : N := N.lxor (N.shiftr c 4) (crc_t16 (N.land c 15)).

Definition crc_byte (c b : N) : N := crc_nibble (crc_nibble (N.lxor c b)).

Definition crc32c (s : str) : N := N.lxor (fold_left crc_byte s crc_mask) crc_mask.

(* the table is what the bit-serial definition computes *)
Lemma crc_t16_spec : forallb (fun i => (crc_t16 i =? crc_shift4 i)) [0;1;2;3;4;5;6;7;8;9;10;11;12;13;14;15] = true.
Proof. vm_compute. reflexivity. Qed.
