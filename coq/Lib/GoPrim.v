(* Primitives the generated kernel definitions (Generated/Kernels.v) are written with:
   the remaining fixed-width operations of Go's int64 / uint64 (Wrap64.v has add64, sub64),
   and the loop combinators `for ... range` statements are translated to, with the lemmas
   that characterise them.  No Go-specific knowledge beyond the language's own semantics. *)
From BS Require Import Lib.Wrap64.
From Coq Require Import ZArith List Bool Lia.
Import ListNotations.
Local Open Scope Z_scope.

(* ---- int64 (Go int, int64 on a 64-bit platform) ---- *)
Definition mul64 (a b : Z) : Z := wrap64 (a * b).
Definition neg64 (a : Z) : Z := wrap64 (- a).

(* ---- uint64 ---- *)
Definition u64 (z : Z) : Prop := 0 <= z < two64.
Definition wrapu64 (z : Z) : Z := z mod two64.
Definition addu64 (a b : Z) : Z := wrapu64 (a + b).
Definition subu64 (a b : Z) : Z := wrapu64 (a - b).
Definition mulu64 (a b : Z) : Z := wrapu64 (a * b).

(* what a wrapped value is, in a form linear arithmetic can use: the value plus a multiple
   of 2^64, inside the type's range *)
Lemma wrap64_spec z : exists k, wrap64 z = z + k * 18446744073709551616 /\
  -9223372036854775808 <= wrap64 z <= 9223372036854775807.
Proof.
  unfold wrap64, two63, two64.
  pose proof (Z.div_mod (z + 9223372036854775808) 18446744073709551616 ltac:(lia)) as D.
  pose proof (Z.mod_pos_bound (z + 9223372036854775808) 18446744073709551616 ltac:(lia)) as B.
  exists (- ((z + 9223372036854775808) / 18446744073709551616)). lia.
Qed.

Lemma wrapu64_spec z : exists k, wrapu64 z = z + k * 18446744073709551616 /\
  0 <= wrapu64 z <= 18446744073709551615.
Proof.
  unfold wrapu64, two64.
  pose proof (Z.div_mod z 18446744073709551616 ltac:(lia)) as D.
  pose proof (Z.mod_pos_bound z 18446744073709551616 ltac:(lia)) as B.
  exists (- (z / 18446744073709551616)). lia.
Qed.

(* ---- strings: byte lists; Go compares strings bytewise ---- *)
Definition gstring := list Z.

Fixpoint gstr_eqb (a b : gstring) : bool :=
  match a, b with
  | [], [] => true
  | x :: a', y :: b' => (x =? y) && gstr_eqb a' b'
  | _, _ => false
  end.

Fixpoint gstr_cmp (a b : gstring) : comparison :=
  match a, b with
  | [], [] => Eq
  | [], _ :: _ => Lt
  | _ :: _, [] => Gt
  | x :: a', y :: b' => match x ?= y with Eq => gstr_cmp a' b' | c => c end
  end.

Definition gstr_ltb a b := match gstr_cmp a b with Lt => true | _ => false end.
Definition gstr_leb a b := match gstr_cmp a b with Gt => false | _ => true end.
Definition gstr_gtb a b := gstr_ltb b a.
Definition gstr_geb a b := gstr_leb b a.

(* ---- loops ----
   A `for _, x := range xs { body }` statement is a function from the variables the body
   assigns (the loop state S) to what one iteration does: go on with a new state, leave
   the loop (`break`), or leave the function (`return r`). *)
Inductive lstep (S R : Type) : Type :=
| LNext (s : S)      (* end of the body, or `continue` *)
| LBreak (s : S)     (* `break` *)
| LRet (r : R).      (* `return r` *)
Arguments LNext {S R} s.
Arguments LBreak {S R} s.
Arguments LRet {S R} r.

Inductive lend (S R : Type) : Type :=
| LDone (s : S)      (* the statement after the loop runs, with these values *)
| LReturn (r : R).   (* the function returned from inside the loop *)
Arguments LDone {S R} s.
Arguments LReturn {S R} r.

Fixpoint range_loop {A S R : Type} (body : A -> S -> lstep S R) (xs : list A) (s : S) : lend S R :=
  match xs with
  | [] => LDone s
  | x :: t =>
      match body x s with
      | LNext s' => range_loop body t s'
      | LBreak s' => LDone s'
      | LRet r => LReturn r
      end
  end.

(* the same with the index available to the body (i is the index of the head of xs) *)
Fixpoint range_loop_i {A S R : Type} (body : Z -> A -> S -> lstep S R) (i : Z) (xs : list A) (s : S) : lend S R :=
  match xs with
  | [] => LDone s
  | x :: t =>
      match body i x s with
      | LNext s' => range_loop_i body (i + 1) t s'
      | LBreak s' => LDone s'
      | LRet r => LReturn r
      end
  end.

Lemma range_loop_i_ignores {A S R} (body : A -> S -> lstep S R) xs : forall i s,
  range_loop_i (fun _ => body) i xs s = range_loop body xs s.
Proof.
  induction xs as [|x t IH]; intros i s; cbn [range_loop range_loop_i]; [reflexivity|].
  destruct (body x s); [apply IH|reflexivity|reflexivity].
Qed.

(* early exit on the first hit, nothing else: existsb *)
Lemma range_loop_exists {A S R} (body : A -> S -> lstep S R) (p : A -> bool) (r : R) xs s :
  (forall x, body x s = if p x then LRet r else LNext s) ->
  range_loop body xs s = if existsb p xs then LReturn r else LDone s.
Proof.
  intro Hb. induction xs as [|x t IH]; cbn [range_loop existsb]; [reflexivity|].
  rewrite Hb. destruct (p x); cbn [orb]; [reflexivity|exact IH].
Qed.

(* early exit on the first miss, nothing else: forallb *)
Lemma range_loop_forall {A S R} (body : A -> S -> lstep S R) (p : A -> bool) (r : R) xs s :
  (forall x, body x s = if p x then LNext s else LRet r) ->
  range_loop body xs s = if forallb p xs then LDone s else LReturn r.
Proof.
  intro Hb. induction xs as [|x t IH]; cbn [range_loop forallb]; [reflexivity|].
  rewrite Hb. destruct (p x); cbn [andb]; [exact IH|reflexivity].
Qed.

(* a loop without break or return is a left fold *)
Lemma range_loop_fold {A S R} (body : A -> S -> lstep S R) (f : S -> A -> S) xs : forall s,
  (forall x s, body x s = LNext (f s x)) ->
  range_loop body xs s = LDone (fold_left f xs s).
Proof.
  intros s Hb. revert s. induction xs as [|x t IH]; intro s; cbn [range_loop fold_left]; [reflexivity|].
  rewrite Hb. apply IH.
Qed.

(* invariant rule: P holds of the state on every normal exit, Q of every returned value *)
Lemma range_loop_inv {A S R} (body : A -> S -> lstep S R) (P : S -> Prop) (Q : R -> Prop) xs : forall s,
  P s ->
  (forall x s, P s -> match body x s with LNext s' | LBreak s' => P s' | LRet r => Q r end) ->
  match range_loop body xs s with LDone s' => P s' | LReturn r => Q r end.
Proof.
  intros s Hs Hb. revert s Hs. induction xs as [|x t IH]; intros s Hs; cbn [range_loop]; [exact Hs|].
  specialize (Hb x s Hs). destruct (body x s); [apply IH; exact Hb|exact Hb|exact Hb].
Qed.

(* a loop whose body never leaves it (no break, no return) is the left fold of its state *)
Definition lnext {S R : Type} (d : S) (r : lstep S R) : S :=
  match r with LNext s => s | LBreak s => s | LRet _ => d end.

Lemma range_loop_noexit {A S R} (body : A -> S -> lstep S R) xs : forall s,
  (forall x s, exists s', body x s = LNext s') ->
  range_loop body xs s = LDone (fold_left (fun s x => lnext s (body x s)) xs s).
Proof.
  intros s Hb. revert s. induction xs as [|x t IH]; intro s; cbn [range_loop fold_left]; [reflexivity|].
  destruct (Hb x s) as [s' E]. rewrite E. cbn [lnext]. apply IH.
Qed.
