(* Byte strings as lists of N (each < 256), hex literals for case files,
   lexicographic comparison (Go's string comparison is bytewise). *)
From Coq Require Export List NArith ZArith Bool String Ascii.
Export ListNotations.
Open Scope N_scope.

Definition str := list N.

Definition hexval (c : ascii) : N :=
  let n := N_of_ascii c in
  if (48 <=? n) && (n <=? 57) then n - 48
  else if (97 <=? n) && (n <=? 102) then n - 87
  else if (65 <=? n) && (n <=? 70) then n - 55
  else 0.

Fixpoint unhex (s : string) : str :=
  match s with
  | String a (String b rest) => (hexval a * 16 + hexval b) :: unhex rest
  | _ => []
  end.

(* plain ASCII literal -> str (for readable examples) *)
Fixpoint lit (s : string) : str :=
  match s with
  | EmptyString => []
  | String a rest => N_of_ascii a :: lit rest
  end.

Fixpoint str_eqb (a b : str) : bool :=
  match a, b with
  | [], [] => true
  | x :: a', y :: b' => (x =? y) && str_eqb a' b'
  | _, _ => false
  end.

Fixpoint str_cmp (a b : str) : comparison :=
  match a, b with
  | [], [] => Eq
  | [], _ :: _ => Lt
  | _ :: _, [] => Gt
  | x :: a', y :: b' =>
      match x ?= y with
      | Eq => str_cmp a' b'
      | c => c
      end
  end.

Definition str_ltb a b := match str_cmp a b with Lt => true | _ => false end.
Definition str_leb a b := match str_cmp a b with Gt => false | _ => true end.

Fixpoint is_prefix (p s : str) : bool :=
  match p, s with
  | [], _ => true
  | x :: p', y :: s' => (x =? y) && is_prefix p' s'
  | _ :: _, [] => false
  end.

Definition mem_str (x : str) (l : list str) : bool := existsb (str_eqb x) l.

Lemma str_eqb_eq a b : str_eqb a b = true <-> a = b.
Proof.
  revert b; induction a as [|x a IH]; intros [|y b]; simpl; split; intro H;
    try reflexivity; try discriminate.
  - apply andb_true_iff in H as [H1 H2]. apply N.eqb_eq in H1. apply IH in H2. congruence.
  - inversion H; subst. rewrite N.eqb_refl. simpl. apply IH. reflexivity.
Qed.

Lemma str_eqb_refl a : str_eqb a a = true.
Proof. apply str_eqb_eq; reflexivity. Qed.

Lemma str_eqb_neq a b : str_eqb a b = false <-> a <> b.
Proof.
  split; intro H.
  - intro E. apply str_eqb_eq in E. congruence.
  - destruct (str_eqb a b) eqn:E; [apply str_eqb_eq in E; contradiction|reflexivity].
Qed.

Lemma mem_str_In x l : mem_str x l = true <-> In x l.
Proof.
  unfold mem_str. rewrite existsb_exists. split.
  - intros [y [Hy E]]. apply str_eqb_eq in E. subst. exact Hy.
  - intro H. exists x. split; [exact H|apply str_eqb_refl].
Qed.

Lemma str_cmp_eq a b : str_cmp a b = Eq <-> a = b.
Proof.
  revert b; induction a as [|x a IH]; intros [|y b]; simpl; split; intro H;
    try reflexivity; try discriminate.
  - destruct (x ?= y) eqn:C; try discriminate.
    apply N.compare_eq in C. apply IH in H. congruence.
  - inversion H; subst. rewrite N.compare_refl. apply IH. reflexivity.
Qed.
