(* Invariants of the composed read pipeline (Model/QueryLTS.v), over every schedule of every
   goroutine of K concurrent queries, every store / iterator failure and every point at which a
   cancel or Close can land. *)
From BS Require Import Model.Stats Model.Cursor Model.HandlePool Model.QueryLTS
                       Proofs.CursorProofs Proofs.HandlePoolProofs.
From Coq Require Import List ZArith Bool Arith Lia Permutation.
Import ListNotations.

Inductive reachable (fx : bool) (cap : nat) (es : list (qenv * nat)) : gstate -> Prop :=
| r_init : reachable fx cap es (ginit cap es)
| r_step s l s' : reachable fx cap es s -> qstep fx s l = Some s' -> reachable fx cap es s'.

Lemma reachable_steps fx cap es s ls s' : reachable fx cap es s -> qsteps fx s ls = Some s' -> reachable fx cap es s'.
Proof.
  revert s. induction ls as [|l t IH]; intros s R H; cbn in H.
  - injection H as <-. exact R.
  - destruct (qstep fx s l) eqn:E; [|discriminate]. eapply IH; [|exact H]. econstructor; eassumption.
Qed.

(* ------------------------------------------------------------------ lists *)
Lemma nth_error_set_nth_eq {A} i (x : A) l y : nth_error l i = Some y -> nth_error (set_nth i x l) i = Some x.
Proof. intros H. rewrite nth_error_set_nth, Nat.eqb_refl, H. reflexivity. Qed.

Lemma nth_error_set_nth_neq {A} i j (x : A) l : i <> j -> nth_error (set_nth i x l) j = nth_error l j.
Proof. intros H. rewrite nth_error_set_nth. destruct (Nat.eqb_spec i j); [contradiction|reflexivity]. Qed.

Lemma set_nth_length {A} i (x : A) l : length (set_nth i x l) = length l.
Proof. revert i. induction l; intros [|i]; cbn; auto. Qed.

Lemma Forall_set_nth {A} (P : A -> Prop) i x l : Forall P l -> P x -> Forall P (set_nth i x l).
Proof.
  revert i. induction l as [|a t IH]; intros i F Px; destruct i; cbn; auto; inversion F; subst; constructor; auto.
Qed.

Lemma forallb_set_nth {A} (f : A -> bool) i x l : forallb f l = true -> f x = true -> forallb f (set_nth i x l) = true.
Proof.
  revert i. induction l as [|a t IH]; intros i F Px; destruct i; cbn in *; auto;
    apply andb_prop in F; destruct F as [F1 F2]; rewrite ?Px, ?F1, ?F2; auto. rewrite IH; auto.
Qed.

Lemma forallb_nth {A} (f : A -> bool) l i x : forallb f l = true -> nth_error l i = Some x -> f x = true.
Proof. intros F N. rewrite forallb_forall in F. apply F. eapply nth_error_In; eassumption. Qed.

Definition b2n (b : bool) : nat := if b then 1 else 0.

Lemma filter_set_nth {A} (f : A -> bool) i x y l :
  nth_error l i = Some y ->
  length (filter f (set_nth i x l)) + b2n (f y) = length (filter f l) + b2n (f x).
Proof.
  revert i. induction l as [|a t IH]; intros i H; destruct i; cbn in *; try discriminate.
  - injection H as ->. destruct (f x), (f y); cbn; lia.
  - specialize (IH _ H). destruct (f a); cbn; lia.
Qed.

(* ------------------------------------------------------------------ what effects touch *)
(* everything an effect list can do to the parts of a query other than cursor and pool *)
Fixpoint n_spawn_fw (es : list eff) : nat := match es with [] => 0 | ESpawnFW :: t => S (n_spawn_fw t) | _ :: t => n_spawn_fw t end.
Fixpoint n_spawn_bw (es : list eff) : nat := match es with [] => 0 | ESpawnBW :: t => S (n_spawn_bw t) | _ :: t => n_spawn_bw t end.
Fixpoint n_acq (es : list eff) : nat := match es with [] => 0 | ESlotAcq :: t => S (n_acq t) | _ :: t => n_acq t end.
Fixpoint n_rel (es : list eff) : nat := match es with [] => 0 | ESlotRel :: t => S (n_rel t) | _ :: t => n_rel t end.

Ltac eff_cases H :=
  unfold apply_eff in H;
  repeat match type of H with
  | context [match ?x with _ => _ end] => destruct x eqn:?; try discriminate H
  | context [if ?x then _ else _] => destruct x eqn:?; try discriminate H
  end; try discriminate H; injection H as H; subst.

Lemma apply_eff_frame fx cap u q e u' q' :
  apply_eff fx cap (u, q) e = Some (u', q') ->
  q_env q' = q_env q /\ q_fs q' = q_fs q /\ q_td q' = q_td q /\
  q_fws q' = q_fws q ++ repeat new_fw (n_spawn_fw [e]) /\
  q_bws q' = q_bws q ++ repeat new_bw (n_spawn_bw [e]) /\
  u' + n_rel [e] = u + n_acq [e] /\ (u <= cap -> u' <= cap).
Proof.
  intros H. destruct e; eff_cases H; cbn; rewrite ?app_nil_r; repeat split; auto; try lia.
  apply Nat.ltb_lt in Heqb. lia.
Qed.

Lemma n_spawn_fw_cons e t : n_spawn_fw (e :: t) = n_spawn_fw [e] + n_spawn_fw t.
Proof. destruct e; reflexivity. Qed.
Lemma n_spawn_bw_cons e t : n_spawn_bw (e :: t) = n_spawn_bw [e] + n_spawn_bw t.
Proof. destruct e; reflexivity. Qed.
Lemma n_acq_cons e t : n_acq (e :: t) = n_acq [e] + n_acq t.
Proof. destruct e; reflexivity. Qed.
Lemma n_rel_cons e t : n_rel (e :: t) = n_rel [e] + n_rel t.
Proof. destruct e; reflexivity. Qed.

Lemma apply_effs_frame fx cap es : forall u q u' q',
  apply_effs fx cap (u, q) es = Some (u', q') ->
  q_env q' = q_env q /\ q_fs q' = q_fs q /\ q_td q' = q_td q /\
  q_fws q' = q_fws q ++ repeat new_fw (n_spawn_fw es) /\
  q_bws q' = q_bws q ++ repeat new_bw (n_spawn_bw es) /\
  u' + n_rel es = u + n_acq es /\ (u <= cap -> u' <= cap).
Proof.
  induction es as [|e t IH]; intros u q u' q' H; cbn [apply_effs] in H.
  - injection H as <- <-. cbn. rewrite !app_nil_r. repeat split; auto.
  - destruct (apply_eff fx cap (u, q) e) as [[u1 q1]|] eqn:E; [|discriminate].
    destruct (apply_eff_frame _ _ _ _ _ _ _ E) as [A1 [A2 [A3 [A4 [A5 [A6 A7]]]]]].
    destruct (IH _ _ _ _ H) as [B1 [B2 [B3 [B4 [B5 [B6 B7]]]]]].
    rewrite n_spawn_fw_cons, n_spawn_bw_cons, n_acq_cons, n_rel_cons, !repeat_app, !app_assoc.
    rewrite B1, B2, B3, B4, B5, A1, A2, A3, A4, A5. repeat split; auto; lia.
Qed.

(* cursor and pool move only through their own step functions *)
Lemma apply_effs_components fx cap es : forall u q u' q',
  apply_effs fx cap (u, q) es = Some (u', q') ->
  (creachable fx (q_cur q) -> creachable fx (q_cur q')) /\ (preachable (q_pool q) -> preachable (q_pool q')).
Proof.
  induction es as [|e t IH]; intros u q u' q' H; cbn [apply_effs] in H.
  - injection H as <- <-. auto.
  - destruct (apply_eff fx cap (u, q) e) as [[u1 q1]|] eqn:E; [|discriminate].
    destruct (IH _ _ _ _ H) as [C P].
    assert ((creachable fx (q_cur q) -> creachable fx (q_cur q1)) /\ (preachable (q_pool q) -> preachable (q_pool q1))) as [C1 P1].
    { destruct e; eff_cases E; cbn; auto.
      - split; auto. intros R. econstructor; eassumption.
      - split; auto. intros R. econstructor; eassumption. }
    auto.
Qed.

(* ------------------------------------------------------------------ local transitions *)
Ltac destr_in H :=
  repeat match type of H with
  | context [match ?x with _ => _ end] => destruct x eqn:?; try discriminate H
  | context [if ?x then _ else _] => destruct x eqn:?; try discriminate H
  end; try discriminate H.

(* the slot a file worker holds is a function of where it is *)
Definition fw_slot_pc (pc : fpc) : bool :=
  match pc with
  | FEvalSlot _ | FOpening _ | FOpenFailed _ | FLoop _ _ _ | FFilterFail _ _ _ | FUnread _ _ _
  | FPruned _ _ _ | FPutBack _ _ _ | FPostEval _ _ => true
  | _ => false
  end.

Definition pl_delta (l : plabel) : Z :=
  match l with
  | PAcquireIdle _ _ | PAcquireOpen _ _ => 1
  | POpenFail _ | PPut _ _ _ | PDiscard _ => -1
  | _ => 0
  end%Z.

Fixpoint eff_pool_delta (es : list eff) : Z :=
  match es with
  | [] => 0
  | EPool l :: t => pl_delta l + eff_pool_delta t
  | _ :: t => eff_pool_delta t
  end%Z.

Definition b2z (b : bool) : Z := if b then 1%Z else 0%Z.

Lemma mk_unread_slot f todo k : fw_slot_pc k = true -> fw_slot_pc (mk_unread f todo k) = true.
Proof. destruct todo; cbn; auto. Qed.

Definition io_cont (k : fpc) : Prop :=
  match k with FPutBack _ _ _ | FLoop _ _ _ | FPostEval _ _ => True | _ => False end.

Lemma mk_unread_io f todo k : io_cont k -> fw_in_io {| fw_pc := mk_unread f todo k; fw_held := true; fw_owes := false |} = fw_in_io {| fw_pc := k; fw_held := true; fw_owes := false |}.
Proof. destruct todo; cbn; auto. destruct k; cbn; intros []; reflexivity. Qed.

Lemma fw_in_io_pc w1 w2 : fw_pc w1 = fw_pc w2 -> fw_in_io w1 = fw_in_io w2.
Proof. unfold fw_in_io. intros ->. reflexivity. Qed.

(* continuations of recordUnreadBlocks used by the program *)
Definition fw_wf_pc (pc : fpc) : Prop :=
  match pc with
  | FUnread _ _ k => io_cont k
  | FFilterFail f i _ | FPruned f i _ => i < length (f_blocks f)
  | _ => True
  end.

Lemma survive_effs_neutral (g : nat -> job) l :
  n_rel (map (fun i => ESurvive (g i)) l) = 0 /\ n_acq (map (fun i => ESurvive (g i)) l) = 0 /\
  n_spawn_fw (map (fun i => ESurvive (g i)) l) = 0 /\ n_spawn_bw (map (fun i => ESurvive (g i)) l) = 0 /\
  eff_pool_delta (map (fun i => ESurvive (g i)) l) = 0%Z.
Proof. induction l; cbn; auto. Qed.

Ltac survive_tac :=
  match goal with |- context [map (fun i : nat => ESurvive (?a, i)) ?l] =>
    destruct (survive_effs_neutral (fun i => (a, i)) l) as [? [? [? [? ?]]]] end.

Ltac unread_tac :=
  repeat match goal with
  | |- context [mk_unread ?f ?l ?k] => unfold mk_unread; destruct l
  end.

Lemma fw_local_spec e r sd w v w' effs :
  fw_local e r sd w v = Some (w', effs) ->
  fw_held w = fw_slot_pc (fw_pc w) -> fw_wf_pc (fw_pc w) ->
  fw_held w' = fw_slot_pc (fw_pc w') /\ fw_wf_pc (fw_pc w') /\
  b2n (fw_held w') + n_rel effs = b2n (fw_held w) + n_acq effs /\
  fw_pc w <> FExited /\ n_spawn_fw effs = 0 /\ n_spawn_bw effs <= 1 /\
  b2z (fw_in_io w') = (b2z (fw_in_io w) + eff_pool_delta effs)%Z.
Proof.
  intros H Hh Hw. destruct w as [pc held owes]. cbn in Hh. subst held. unfold fw_local in H. cbn [fw_pc fw_held fw_owes] in H.
  destruct pc; destruct v; try discriminate H; destr_in H; injection H as <- <-;
    unfold fw0, fwfail, fwheld, fw_in_io; cbn [fw_pc fw_held fw_owes fw_slot_pc fw_wf_pc io_cont] in *;
    repeat split; try discriminate; auto; try (cbn; lia).
  all: try (survive_tac; cbn; lia).
  all: try (unread_tac; cbn; auto; fail).
  all: try (unread_tac; destruct pc; cbn in Hw; try contradiction; cbn; auto; fail).
  all: try (apply andb_prop in Heqb; destruct Heqb as [_ Hlt]; apply Nat.ltb_lt in Hlt; exact Hlt).
Qed.

Definition bw_must_hold (pc : bpc) : bool :=
  match pc with
  | BAcq _ | BOpening _ | BOpenFailed _ | BRead _ | BReadFailed _ | BScan _ _ _ | BRelSlot _
  | BDeliv _ _ _ false DTried => true
  | _ => false
  end.

Definition bw_must_not (pc : bpc) : bool :=
  match pc with
  | BIdle | BExiting | BExited | BTaken _ | BDeliv _ _ _ _ DBlocked | BDeliv _ _ _ _ DReacq | BDelivFailed _ _ | BRelRef _ _ => true
  | _ => false
  end.

Definition bw_ok (w : bwst) : Prop :=
  (bw_must_hold (bw_pc w) = true -> bw_held w = true) /\ (bw_must_not (bw_pc w) = true -> bw_held w = false).

Lemma bw_local_spec e r sd w v w' effs :
  bw_local e r sd w v = Some (w', effs) -> bw_ok w ->
  bw_ok w' /\
  b2n (bw_held w') + n_rel effs = b2n (bw_held w) + n_acq effs /\
  bw_pc w <> BExited /\ n_spawn_fw effs = 0 /\ n_spawn_bw effs = 0 /\
  b2z (bw_in_io w') = (b2z (bw_in_io w) + eff_pool_delta effs)%Z.
Proof.
  intros H [Hh Hn]. destruct w as [pc held owes]. unfold bw_local in H. cbn [bw_pc bw_held bw_owes] in *.
  destruct pc; destruct v; try discriminate H; destr_in H; injection H as <- <-;
    unfold bw_ok, bw0, bwfail, bwheld, bw_in_io, after_deliver, rel_slot; cbn [bw_pc bw_held bw_owes bw_must_hold bw_must_not] in *;
    repeat split; try discriminate; auto; try (cbn; lia); intros; try discriminate; auto.
  all: try (destruct held; cbn in *; try discriminate; auto; try lia; fail).
  all: try (rewrite Hh by reflexivity; cbn; lia).
  all: try (rewrite Hn by reflexivity; cbn; lia).
  all: try (destruct final; cbn in *; try discriminate; auto; try lia; fail).
  all: try (destruct final, held; cbn in *; try discriminate; auto; try lia; fail).
Qed.

(* effects of the pipeline goroutines other than teardown never close the cursor or the pool *)
Definition eff_plain (e : eff) : Prop :=
  match e with
  | ECur LWorkersDone | EPool PCloseAll | ENeedFilesDone | ENeedBlocksDone | EBClose => False
  | ECur l => external_label l = false
  | _ => True
  end.

Lemma Forall_map_survive (g : nat -> job) l : Forall eff_plain (map (fun i => ESurvive (g i)) l).
Proof. induction l; cbn; constructor; cbn; auto. Qed.

Lemma fw_local_plain e r sd w v w' effs : fw_local e r sd w v = Some (w', effs) -> Forall eff_plain effs.
Proof.
  intros H. destruct w as [pc held owes]. unfold fw_local in H. cbn [fw_pc fw_held fw_owes] in H.
  destruct pc; destruct v; try discriminate H; destr_in H; injection H as <- <-;
    try apply Forall_map_survive; repeat constructor; cbn; auto.
Qed.

Lemma bw_local_plain e r sd w v w' effs : bw_local e r sd w v = Some (w', effs) -> Forall eff_plain effs.
Proof.
  intros H. destruct w as [pc held owes]. unfold bw_local in H. cbn [bw_pc bw_held bw_owes] in H.
  destruct pc; destruct v; try discriminate H; destr_in H; injection H as <- <-; repeat constructor; cbn; auto.
Qed.

(* the wrappers that account for a failure's error *)
Lemma fw_step_spec e r sd w v w' effs :
  fw_step e r sd w v = Some (w', effs) ->
  fw_held w = fw_slot_pc (fw_pc w) -> fw_wf_pc (fw_pc w) ->
  fw_held w' = fw_slot_pc (fw_pc w') /\ fw_wf_pc (fw_pc w') /\
  b2n (fw_held w') + n_rel effs = b2n (fw_held w) + n_acq effs /\
  (fw_pc w = FExited -> fw_pc w' = FExited /\ n_spawn_bw effs = 0) /\ n_spawn_fw effs = 0 /\ n_spawn_bw effs <= 1 /\
  b2z (fw_in_io w') = (b2z (fw_in_io w) + eff_pool_delta effs)%Z /\ Forall eff_plain effs.
Proof.
  intros H Hh Hw. unfold fw_step in H.
  destruct v; try (destruct (fw_local e r sd w _) as [[w1 effs1]|] eqn:E; [|discriminate]; injection H as <- <-;
    destruct (fw_local_spec _ _ _ _ _ _ _ E Hh Hw) as [A1 [A2 [A3 [A4 [A5 [A6 A7]]]]]];
    pose proof (fw_local_plain _ _ _ _ _ _ _ E) as P;
    destruct (fw_owes w); cbn [n_rel n_acq n_spawn_fw n_spawn_bw eff_pool_delta];
    repeat split; eauto; try contradiction; try (constructor; cbn; auto); fail).
  destruct (fw_owes w); [|discriminate]. injection H as <- <-. cbn.
  repeat split; auto; try lia.
  - unfold fw_in_io. cbn. lia.
  - repeat constructor.
Qed.

Lemma bw_step_spec e r sd w v w' effs :
  bw_step e r sd w v = Some (w', effs) -> bw_ok w ->
  bw_ok w' /\
  b2n (bw_held w') + n_rel effs = b2n (bw_held w) + n_acq effs /\
  (bw_pc w = BExited -> bw_pc w' = BExited) /\ n_spawn_fw effs = 0 /\ n_spawn_bw effs = 0 /\
  b2z (bw_in_io w') = (b2z (bw_in_io w) + eff_pool_delta effs)%Z /\ Forall eff_plain effs.
Proof.
  intros H Ho. unfold bw_step in H.
  destruct v; try (destruct (bw_local e r sd w _) as [[w1 effs1]|] eqn:E; [|discriminate]; injection H as <- <-;
    destruct (bw_local_spec _ _ _ _ _ _ _ E Ho) as [A1 [A2 [A3 [A4 [A5 A6]]]]];
    pose proof (bw_local_plain _ _ _ _ _ _ _ E) as P;
    destruct (bw_owes w); cbn [n_rel n_acq n_spawn_fw n_spawn_bw eff_pool_delta];
    repeat split; eauto; try contradiction; try (constructor; cbn; auto); try apply A1; fail).
  destruct (bw_owes w) eqn:O; [|discriminate]. injection H as <- <-. cbn.
  destruct Ho as [Hh Hn]. repeat split; auto; try lia.
  - unfold bw_in_io. cbn. lia.
  - repeat constructor.
Qed.

(* file stage and teardown *)
Lemma fs_local_spec cap n pc v pc' effs :
  fs_local cap n pc v = Some (pc', effs) ->
  pc <> SExited /\ n_acq effs = 0 /\ n_rel effs = 0 /\ n_spawn_bw effs = 0 /\ n_spawn_fw effs <= 1 /\
  eff_pool_delta effs = 0%Z /\ Forall eff_plain effs.
Proof.
  intros H. unfold fs_local in H.
  destruct pc; destruct v; try discriminate H; destr_in H; injection H as <- <-; cbn;
    repeat split; try discriminate; auto; repeat constructor; cbn; auto.
Qed.

Lemma td_local_spec pc v pc' effs :
  td_local pc v = Some (pc', effs) ->
  n_acq effs = 0 /\ n_rel effs = 0 /\ n_spawn_bw effs = 0 /\ n_spawn_fw effs = 0 /\ eff_pool_delta effs = 0%Z /\
  match pc, pc' with
  | TWaitFiles, TWaitBlocks => effs = [ENeedFilesDone; EBClose]
  | TWaitBlocks, TCloseAll => effs = [ENeedBlocksDone]
  | TCloseAll, TMark => effs = [EPool PCloseAll]
  | TMark, TDone => effs = [ECur LWorkersDone]
  | _, _ => False
  end.
Proof.
  intros H. destruct pc; destruct v; try discriminate H; injection H as <- <-; cbn; repeat split; auto.
Qed.

(* ------------------------------------------------------------------ component facts used by the composition *)
Definition plen (p : pool) : Z := Z.of_nat (length (p_held p) + length (p_opening p)).

Lemma drop_held_len w l fh : held_of w l = Some fh -> S (length (drop_held w l)) = length l.
Proof.
  induction l as [|[w' x] t IH]; intros H; [discriminate|].
  unfold held_of in H; fold held_of in H. unfold drop_held; fold drop_held.
  destruct (w' =? w); cbn; auto.
Qed.

Lemma drop_opening_len w l f : opening_of w l = Some f -> S (length (drop_opening w l)) = length l.
Proof.
  induction l as [|[w' x] t IH]; intros H; [discriminate|].
  unfold opening_of in H; fold opening_of in H. unfold drop_opening; fold drop_opening.
  destruct (w' =? w); cbn; auto.
Qed.

Lemma pool_step_plen p l p' : pool_step p l = Some p' -> plen p' = (plen p + pl_delta l)%Z.
Proof.
  intros H. destruct p as [files closed held opening next opened closedh]. unfold plen.
  destruct l; pool_cases H; cbn [p_held p_opening pl_delta length]; try lia.
  all: try match goal with Hh : held_of _ _ = Some _ |- _ => pose proof (drop_held_len _ _ _ Hh) end.
  all: try match goal with Ho : opening_of _ _ = Some _ |- _ => pose proof (drop_opening_len _ _ _ Ho) end.
  all: lia.
Qed.

Lemma pool_closed_mono p l p' : pool_step p l = Some p' -> p_closed p = true -> p_closed p' = true.
Proof.
  intros H C. destruct p as [files closed held opening next opened closedh]. cbn in C. subst.
  destruct l; pool_cases H; reflexivity.
Qed.

Lemma cursor_finished_same fx s l s' :
  cursor_step fx s l = Some s' -> l <> LWorkersDone -> m_finished (c_m s') = m_finished (c_m s).
Proof.
  intros H N. destr_cur s. cbn in *.
  destruct l; try contradiction; step_cases H; norm_hyps; cbn in *; auto.
Qed.

Lemma eff_plain_not_wd l : eff_plain (ECur l) -> l <> LWorkersDone.
Proof. intros H ->. exact H. Qed.

Lemma apply_effs_plain fx cap es : forall u q u' q',
  apply_effs fx cap (u, q) es = Some (u', q') -> Forall eff_plain es ->
  m_finished (c_m (q_cur q')) = m_finished (c_m (q_cur q)) /\ (p_closed (q_pool q) = true -> p_closed (q_pool q') = true).
Proof.
  induction es as [|e t IH]; intros u q u' q' H F; cbn [apply_effs] in H.
  - injection H as <- <-. auto.
  - destruct (apply_eff fx cap (u, q) e) as [[u1 q1]|] eqn:E; [|discriminate]. inversion F as [|? ? Fe Ft]; subst.
    destruct (IH _ _ _ _ H Ft) as [A B].
    assert (m_finished (c_m (q_cur q1)) = m_finished (c_m (q_cur q)) /\ (p_closed (q_pool q) = true -> p_closed (q_pool q1) = true)) as [A1 B1].
    { destruct e; eff_cases E; cbn; auto.
      - split; auto. eapply cursor_finished_same; [eassumption|]. apply eff_plain_not_wd. exact Fe.
      - split; auto. eapply pool_closed_mono; eassumption. }
    split; [congruence|auto].
Qed.

Lemma apply_effs_plen fx cap es : forall u q u' q',
  apply_effs fx cap (u, q) es = Some (u', q') -> plen (q_pool q') = (plen (q_pool q) + eff_pool_delta es)%Z.
Proof.
  induction es as [|e t IH]; intros u q u' q' H; cbn [apply_effs] in H.
  - injection H as <- <-. cbn. lia.
  - destruct (apply_eff fx cap (u, q) e) as [[u1 q1]|] eqn:E; [|discriminate].
    rewrite (IH _ _ _ _ H).
    assert (plen (q_pool q1) = (plen (q_pool q) + eff_pool_delta [e])%Z) as ->.
    { destruct e; eff_cases E; cbn; try lia. rewrite (pool_step_plen _ _ _ Heqo). lia. }
    destruct e; cbn; lia.
Qed.
