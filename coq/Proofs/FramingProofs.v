(* Family T — lemmas about the row framing model (Model/Framing.v). *)
From BS Require Import Lib.Bytes Model.Framing.
From Coq Require Import List ZArith NArith Bool Lia.
Import ListNotations.
Open Scope Z_scope.

Ltac Zify.zify_post_hook ::= Z.to_euclidean_division_equations.

Definition byte_ok (b : N) : Prop := (b < 256)%N.
Definition bytes_ok (s : str) : Prop := Forall byte_ok s.

Lemma lenZ_nonneg s : 0 <= lenZ s.
Proof. unfold lenZ. lia. Qed.

Lemma lenZ_app a b : lenZ (a ++ b) = lenZ a + lenZ b.
Proof. unfold lenZ. rewrite app_length. lia. Qed.

Lemma lenZ_cons x s : lenZ (x :: s) = 1 + lenZ s.
Proof. unfold lenZ. cbn [length]. lia. Qed.

Lemma lenZ_nil : lenZ [] = 0.
Proof. reflexivity. Qed.

Lemma le32_length n : length (le32 n) = 4%nat.
Proof. reflexivity. Qed.

Lemma lenZ_le32 n : lenZ (le32 n) = 4.
Proof. reflexivity. Qed.

Lemma le32_bytes_ok n : bytes_ok (le32 n).
Proof.
  unfold le32, bytes_ok, byte_ok. repeat constructor; apply N.mod_lt; discriminate.
Qed.

Lemma rd32_le32 n t : 0 <= n < 4294967296 -> rd32 (le32 n ++ t) = n.
Proof.
  intro H. unfold le32, rd32. cbn [app].
  remember (Z.to_N n) as m eqn:Em.
  assert (Hm : (m < 4294967296)%N) by lia.
  assert (E : (m mod 256 + 256 * ((m / 256) mod 256) + 65536 * ((m / 65536) mod 256) + 16777216 * ((m / 16777216) mod 256))%N = m) by lia.
  rewrite E. lia.
Qed.

Lemma rd32_range b : bytes_ok b -> 0 <= rd32 b < 4294967296.
Proof.
  intro H. unfold rd32.
  destruct b as [|a [|b' [|c [|d t]]]]; try lia.
  inversion H as [|? ? Ha H1]; subst. inversion H1 as [|? ? Hb H2]; subst.
  inversion H2 as [|? ? Hc H3]; subst. inversion H3 as [|? ? Hd H4]; subst.
  unfold byte_ok in *. lia.
Qed.

(* the four bytes read are the encoding of the value read *)
Lemma le32_rd32 a b c d t : byte_ok a -> byte_ok b -> byte_ok c -> byte_ok d ->
  le32 (rd32 (a :: b :: c :: d :: t)) = [a; b; c; d].
Proof.
  unfold byte_ok, le32, rd32. intros Ha Hb Hc Hd.
  rewrite N2Z.id.
  remember (a + 256 * b + 65536 * c + 16777216 * d)%N as m.
  assert (m mod 256 = a)%N by lia.
  assert ((m / 256) mod 256 = b)%N by lia.
  assert ((m / 65536) mod 256 = c)%N by lia.
  assert ((m / 16777216) mod 256 = d)%N by lia.
  congruence.
Qed.

Lemma firstn_app_exact {A} (a b : list A) n : n = length a -> firstn n (a ++ b) = a.
Proof. intros ->. rewrite firstn_app, Nat.sub_diag, firstn_all. cbn. apply app_nil_r. Qed.

Lemma skipn_app_exact {A} (a b : list A) n : n = length a -> skipn n (a ++ b) = b.
Proof. intros ->. rewrite skipn_app, Nat.sub_diag, skipn_all. reflexivity. Qed.

Lemma to_nat_lenZ s : Z.to_nat (lenZ s) = length s.
Proof. unfold lenZ. lia. Qed.

Definition small_row (r : str) : Prop := lenZ r < 4294967296.

(* rows with the offsets at which the scanner finds them, starting at pos *)
Fixpoint with_offs (pos : Z) (rows : list str) : list (Z * str) :=
  match rows with
  | [] => []
  | r :: t => (pos + 4, r) :: with_offs (pos + 4 + lenZ r) t
  end.

Lemma map_snd_with_offs pos rows : map snd (with_offs pos rows) = rows.
Proof. revert pos; induction rows as [|r t IH]; intro pos; cbn; [reflexivity|]. now rewrite IH. Qed.

Lemma frame_cons r rows : frame (r :: rows) = le32 (lenZ r) ++ r ++ frame rows.
Proof. unfold frame. cbn [flat_map]. unfold frame_row. now rewrite <- app_assoc. Qed.

Lemma scan_go_frame rows : forall fuel pos,
  (length rows < fuel)%nat -> Forall small_row rows ->
  scan_go fuel (pos + lenZ (frame rows)) pos (frame rows) = (with_offs pos rows, true).
Proof.
  induction rows as [|r rows IH]; intros fuel pos Hf Hs.
  - destruct fuel as [|f]; [cbn in Hf; lia|].
    cbn [scan_go frame flat_map with_offs]. unfold scan_step. rewrite lenZ_nil, Z.add_0_r, Z.eqb_refl. reflexivity.
  - destruct fuel as [|f]; [cbn in Hf; lia|].
    inversion Hs as [|? ? Hr Hrs]; subst.
    rewrite frame_cons. cbn [scan_go with_offs].
    pose proof (lenZ_nonneg r). pose proof (lenZ_nonneg (frame rows)).
    unfold scan_step, LengthPrefixSize.
    rewrite !lenZ_app, lenZ_le32.
    replace (pos =? pos + (4 + (lenZ r + lenZ (frame rows)))) with false by (symmetry; apply Z.eqb_neq; lia).
    replace (pos + (4 + (lenZ r + lenZ (frame rows))) - pos <? 4) with false by (symmetry; apply Z.ltb_ge; lia).
    rewrite rd32_le32 by (unfold small_row in Hr; lia).
    replace (pos + (4 + (lenZ r + lenZ (frame rows))) - (pos + 4) <? lenZ r) with false by (symmetry; apply Z.ltb_ge; lia).
    rewrite (skipn_app_exact (le32 (lenZ r))) by reflexivity.
    rewrite to_nat_lenZ, skipn_app_exact, firstn_app_exact by reflexivity.
    replace (pos + (4 + (lenZ r + lenZ (frame rows)))) with ((pos + 4 + lenZ r) + lenZ (frame rows)) by lia.
    rewrite IH; [reflexivity| cbn in Hf; lia | exact Hrs].
Qed.

Lemma length_frame_ge rows : (length rows <= length (frame rows))%nat.
Proof.
  induction rows as [|r t IH]; [cbn; lia|].
  rewrite frame_cons, !app_length, le32_length. cbn [length]. lia.
Qed.

(* C03: what is framed is what is scanned *)
Lemma scan_frame rows : Forall small_row rows -> scan (frame rows) = (rows, true).
Proof.
  intro Hs. unfold scan, scan_x.
  pose proof (scan_go_frame rows (S (length (frame rows))) 0 ltac:(pose proof (length_frame_ge rows); lia) Hs) as H.
  rewrite Z.add_0_l in H. rewrite H. now rewrite map_snd_with_offs.
Qed.

(* ---- soundness of the scanner on arbitrary bytes ---- *)
Lemma firstn_skipn_split {A} (l : list A) n : l = firstn n l ++ skipn n l.
Proof. symmetry. apply firstn_skipn. Qed.

Lemma bytes_ok_skipn s n : bytes_ok s -> bytes_ok (skipn n s).
Proof.
  unfold bytes_ok. rewrite !Forall_forall. intros H x Hx. apply H.
  rewrite (firstn_skipn_split s n). apply in_or_app. now right.
Qed.

Lemma lenZ_skipn s n : (n <= length s)%nat -> lenZ (skipn n s) = lenZ s - Z.of_nat n.
Proof. intro H. unfold lenZ. rewrite skipn_length. lia. Qed.

Lemma lenZ_firstn s n : (n <= length s)%nat -> lenZ (firstn n s) = Z.of_nat n.
Proof. intro H. unfold lenZ. rewrite firstn_length. lia. Qed.

(* every row handed out lies inside the data, the rows are framed back to back from pos,
   and a clean end means the whole remainder was framing *)
Local Opaque rd32 le32.
Lemma scan_go_sound : forall fuel dlen pos rest rs ok,
  bytes_ok rest -> 0 <= pos -> lenZ rest = dlen - pos ->
  scan_go fuel dlen pos rest = (rs, ok) ->
  rs = with_offs pos (map snd rs) /\
  Forall (fun p => pos + 4 <= fst p /\ fst p + lenZ (snd p) <= dlen) rs /\
  Forall small_row (map snd rs) /\
  (exists tail, rest = frame (map snd rs) ++ tail /\ (ok = true -> tail = [])).
Proof.
  induction fuel as [|f IH]; intros dlen pos rest rs ok Hb Hpos Hlen Hs.
  - cbn in Hs. inversion Hs; subst. cbn. repeat split; try constructor. exists rest. split; [reflexivity|discriminate].
  - cbn [scan_go] in Hs. unfold scan_step, LengthPrefixSize in Hs.
    destruct (Z.eqb_spec pos dlen) as [E|NE].
    + inversion Hs; subst. cbn. repeat split; try constructor. exists rest. split; [reflexivity|].
      intros _. assert (lenZ rest = 0) by lia. destruct rest; [reflexivity|rewrite lenZ_cons in H; pose proof (lenZ_nonneg rest); lia].
    + destruct (Z.ltb_spec (dlen - pos) 4) as [L|G].
      * inversion Hs; subst. cbn. repeat split; try constructor. exists rest. split; [reflexivity|discriminate].
      * destruct rest as [|a [|b [|c0 [|d t]]]];
          try (repeat rewrite lenZ_cons in Hlen; try rewrite lenZ_nil in Hlen; lia).
        set (rest := a :: b :: c0 :: d :: t) in *.
        pose proof (rd32_range rest Hb) as Hn.
        destruct (Z.ltb_spec (dlen - (pos + 4)) (rd32 rest)) as [L2|G2].
        -- inversion Hs; subst. cbn. repeat split; try constructor. exists rest. split; [reflexivity|discriminate].
        -- assert (Hsk : skipn 4 rest = t) by reflexivity. rewrite Hsk in Hs. clear Hsk.
           assert (Hlt : lenZ t = dlen - pos - 4) by (subst rest; repeat rewrite lenZ_cons in Hlen; lia).
           assert (Hnat : (Z.to_nat (rd32 rest) <= length t)%nat) by (unfold lenZ in Hlt; lia).
           destruct (scan_go f dlen (pos + 4 + rd32 rest) (skipn (Z.to_nat (rd32 rest)) t)) as [rs' ok'] eqn:Hrec.
           inversion Hs; subst rs ok. clear Hs.
           assert (Hbt : bytes_ok t).
           { inversion Hb as [|? ? _ Q1]; inversion Q1 as [|? ? _ Q2]; inversion Q2 as [|? ? _ Q3]; inversion Q3 as [|? ? _ Q4]; exact Q4. }
           specialize (IH dlen (pos + 4 + rd32 rest) (skipn (Z.to_nat (rd32 rest)) t) rs' ok'
                         (bytes_ok_skipn _ _ Hbt) ltac:(lia) ltac:(rewrite lenZ_skipn by exact Hnat; lia) Hrec).
           destruct IH as (Ioffs & Iin & Ismall & tail & Itail & Iok).
           assert (Hrowlen : lenZ (firstn (Z.to_nat (rd32 rest)) t) = rd32 rest) by (rewrite lenZ_firstn by exact Hnat; lia).
           cbn [map snd with_offs]. rewrite Hrowlen.
           repeat split.
           ++ f_equal. exact Ioffs.
           ++ constructor; [cbn [fst snd]; rewrite Hrowlen; lia|].
              eapply Forall_impl; [|exact Iin]. cbn. intros p [H1 H2]. lia.
           ++ constructor; [unfold small_row; lia|exact Ismall].
           ++ exists tail. split; [|exact Iok].
              rewrite frame_cons, Hrowlen.
              inversion Hb as [|? ? Ha Q1]; inversion Q1 as [|? ? Hb' Q2]; inversion Q2 as [|? ? Hc Q3]; inversion Q3 as [|? ? Hd _]; subst.
              subst rest. rewrite (le32_rd32 a b c0 d t Ha Hb' Hc Hd). cbn [app].
              do 4 f_equal. rewrite <- app_assoc, <- Itail. apply firstn_skipn_split.
Qed.

Local Transparent rd32 le32.

Lemma scan_sound data rows ok : bytes_ok data -> scan data = (rows, ok) ->
  Forall small_row rows /\
  (exists tail, data = frame rows ++ tail /\ (ok = true -> tail = [])) /\
  Forall (fun p => 4 <= fst p /\ 0 <= snd p /\ fst p + snd p <= lenZ data) (scan_extents data).
Proof.
  intros Hb Hs. unfold scan, scan_extents in *. destruct (scan_x data) as [rs ok'] eqn:Hx.
  inversion Hs; subst rows ok. clear Hs. unfold scan_x in Hx.
  destruct (scan_go_sound (S (length data)) (lenZ data) 0 data rs ok' Hb ltac:(lia) ltac:(lia) Hx) as (_ & Hin & Hsm & Htail).
  repeat split; [exact Hsm|exact Htail|].
  cbn [fst]. rewrite Forall_map. eapply Forall_impl; [|exact Hin].
  intros [o r] [H1 H2]. cbn [fst snd] in *. pose proof (lenZ_nonneg r). lia.
Qed.

(* a clean scan means the data is exactly the framing of the rows returned *)
Lemma scan_ok_exact data rows : bytes_ok data -> scan data = (rows, true) -> data = frame rows.
Proof.
  intros Hb Hs. destruct (scan_sound _ _ _ Hb Hs) as (_ & (tail & E & Ht) & _).
  rewrite (Ht eq_refl), app_nil_r in E. exact E.
Qed.

(* the writers' accounting: UncompressedSize and Rows *)
Lemma fold_acc_usize rows a : fold_left (fun a r => a + (lenZ r + LengthPrefixSize)) rows a = a + lenZ (frame rows).
Proof.
  revert a; induction rows as [|r t IH]; intro a; cbn [fold_left]; [change (frame []) with (@nil N); rewrite lenZ_nil; lia|].
  rewrite IH, frame_cons, !lenZ_app, lenZ_le32. unfold LengthPrefixSize. lia.
Qed.

Lemma acc_usize_frame rows : acc_usize rows = lenZ (frame rows).
Proof. unfold acc_usize. rewrite fold_acc_usize. lia. Qed.

Lemma fold_acc_rows (rows : list str) a : fold_left (fun a _ => a + 1) rows a = a + Z.of_nat (length rows).
Proof. revert a; induction rows as [|r t IH]; intro a; cbn [fold_left length]; [lia|]. rewrite IH. lia. Qed.

Lemma acc_rows_length rows : acc_rows rows = Z.of_nat (length rows).
Proof. unfold acc_rows. rewrite fold_acc_rows. lia. Qed.
