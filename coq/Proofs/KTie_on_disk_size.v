(* Kernel tie on_disk_size (DESIGN.md 10.7): the definition translated from the Go source equals the model.
   One file per kernel, so that a changed kernel only breaks the property files that state its tie. *)
From BS Require Import Lib.Bytes Lib.Wrap64 Lib.GoPrim Generated.Kernels Generated.KernelTie Model.MinMax Model.Validate Model.MergePlan Proofs.KernelEquiv Proofs.KernelEquivG.
From Coq Require Import ZArith List Bool Lia.
Import ListNotations.
Local Open Scope Z_scope.

Lemma k_on_disk_size_tie : tie_on_disk_size.
Proof. unfold tie_on_disk_size. first [exact I | k_open_G; k_arith]. Qed.
