(* The composed pipeline, part 3: every block of a file handed to the pipeline is in exactly one place
   (a job channel, a worker's hands, or recorded in the stats) at most once - and, as long as the query's
   context is not cancelled, exactly once. *)
From BS Require Import Model.Stats Model.Cursor Model.HandlePool Model.QueryLTS
                       Proofs.CursorProofs Proofs.HandlePoolProofs Proofs.QueryLTSProofs Proofs.QueryInvProofs.
From Coq Require Import List ZArith Bool Arith Lia Permutation.
Import ListNotations.

Definition job_dec : forall a b : job, {a = b} + {a <> b}.
Proof. decide equality; [apply Nat.eq_dec|apply Z.eq_dec]. Defined.

Notation jc := (count_occ job_dec).

Lemma jc_app a b x : jc (a ++ b) x = jc a x + jc b x.
Proof. apply count_occ_app. Qed.
Lemma jc_cons j l x : jc (j :: l) x = (if job_dec j x then 1 else 0) + jc l x.
Proof. change (jc (j :: l) x) with (if job_dec j x then S (jc l x) else jc l x). destruct (job_dec j x); reflexivity. Qed.
Lemma jc_nil x : jc [] x = 0.
Proof. reflexivity. Qed.

Definition idx_jobs (f : fileenv) (l : list nat) : list job := map (fun i => (f_id f, i)) l.
Definition file_jobs (f : fileenv) : list job := idx_jobs f (all_idx f).

Lemma idx_jobs_app f a b : idx_jobs f (a ++ b) = idx_jobs f a ++ idx_jobs f b.
Proof. apply map_app. Qed.
Lemma idx_jobs_cons f i l : idx_jobs f (i :: l) = (f_id f, i) :: idx_jobs f l.
Proof. reflexivity. Qed.
Lemma idx_jobs_nil f : idx_jobs f [] = [].
Proof. reflexivity. Qed.

Lemma seq_head i n : i < n -> seq i (n - i) = i :: seq (S i) (n - S i).
Proof. intros H. replace (n - i) with (S (n - S i)) by lia. reflexivity. Qed.

Lemma seq_end n : seq n (n - n) = [].
Proof. rewrite Nat.sub_diag. reflexivity. Qed.

(* blocks in a file worker's hands: not yet recorded, not yet handed on *)
Fixpoint tok_fpc (pc : fpc) : list job :=
  match pc with
  | FTaken f | FEval f | FEvalSlot f | FOpening f | FOpenFailed f => file_jobs f
  | FLoop f i sv | FFilterFail f i sv | FPruned f i sv => idx_jobs f (sv ++ seq i (length (f_blocks f) - i))
  | FUnread f todo k => idx_jobs f todo ++ tok_fpc k
  | FPutBack f _ sv | FPostEval f sv | FDisp f sv | FDispSpawn f sv | FDispSending f _ sv => idx_jobs f sv
  | FDispRetained f i sv => idx_jobs f (i :: sv)
  | _ => []
  end.

Definition tok_bpc (pc : bpc) : list job :=
  match pc with
  | BTaken j | BAcq j | BOpening j | BOpenFailed j | BRead j | BReadFailed j | BScan j _ _ | BDeliv j _ _ _ _
  | BDelivFailed j _ | BEnding j _ _ | BEnded j _ _ => [j]
  | _ => []
  end.

Definition env_file_jobs (e : qenv) (f : fileid) : list job :=
  match find_file f (e_items e) with Some fe => file_jobs fe | None => [] end.

(* tokens an effect puts into / takes out of the shared places *)
Definition eff_gain (e : qenv) (ef : eff) : list job :=
  match ef with EFTry f => env_file_jobs e f | EBTry _ j => [j] | ERec j => [j] | _ => [] end.
Definition eff_take (e : qenv) (ef : eff) : list job :=
  match ef with EFTake f => env_file_jobs e f | EBTake j => [j] | _ => [] end.
Definition effs_gain (e : qenv) (es : list eff) : list job := flat_map (eff_gain e) es.
Definition effs_take (e : qenv) (es : list eff) : list job := flat_map (eff_take e) es.
Definition needs_int (es : list eff) : bool := existsb (fun ef => match ef with ENeedInt => true | _ => false end) es.

Lemma find_file_id f l fe : find_file f l = Some fe -> f_id fe = f.
Proof.
  induction l as [|it t IH]; cbn; [discriminate|]. destruct it; auto.
  destruct (Z.eqb_spec (f_id f0) f); auto. intros H. injection H as <-. assumption.
Qed.

Lemma mk_unread_tok f todo k : tok_fpc (mk_unread f todo k) = idx_jobs f todo ++ tok_fpc k.
Proof. destruct todo; reflexivity. Qed.

Lemma survive_gain e (g : nat -> job) l : effs_gain e (map (fun i => ESurvive (g i)) l) = [] /\ effs_take e (map (fun i => ESurvive (g i)) l) = [] /\ needs_int (map (fun i => ESurvive (g i)) l) = false.
Proof. induction l; cbn; auto. Qed.

Ltac tok_norm :=
  repeat rewrite ?mk_unread_tok, ?idx_jobs_app, ?idx_jobs_cons, ?idx_jobs_nil, ?jc_app, ?jc_cons, ?jc_nil, ?app_nil_r in *.

Lemma survive_gain1 e (a : fileid) l : flat_map (eff_gain e) (map (fun i : nat => ESurvive (a, i)) l) = [].
Proof. induction l; cbn; auto. Qed.
Lemma survive_gain2 e (a : fileid) l : flat_map (eff_take e) (map (fun i : nat => ESurvive (a, i)) l) = [].
Proof. induction l; cbn; auto. Qed.
Lemma survive_gain3 (a : fileid) l : needs_int (map (fun i : nat => ESurvive (a, i)) l) = false.
Proof. induction l; cbn; auto. Qed.

Ltac guard_facts :=
  repeat match goal with
  | H : _ && _ = true |- _ => apply andb_prop in H; destruct H
  | H : (_ =? _)%nat = true |- _ => apply Nat.eqb_eq in H; subst
  | H : (_ <? _)%nat = true |- _ => apply Nat.ltb_lt in H
  | H : (_ =? _)%Z = true |- _ => apply Z.eqb_eq in H
  end.

Ltac tok_finish :=
  unfold file_jobs, all_idx, env_file_jobs in *;
  repeat match goal with
  | H : find_file _ _ = Some _ |- _ => rewrite H in *; clear H
  end;
  unfold file_jobs, all_idx in *;
  rewrite ?survive_gain1, ?survive_gain2, ?survive_gain3 in *;
  tok_norm; cbn [tok_fpc] in *; tok_norm;
  repeat match goal with
  | H : ?i < length ?l |- context [seq ?i (length ?l - ?i)] => rewrite (seq_head i (length l) H)
  | |- context [seq ?n (?n - ?n)] => rewrite (seq_end n)
  | |- context [?n - 0] => rewrite (Nat.sub_0_r n)
  end;
  tok_norm; repeat match goal with |- context [job_dec ?a ?b] => destruct (job_dec a b) end; try lia.

Lemma fw_local_tokens e r sd w v w' effs x :
  fw_local e r sd w v = Some (w', effs) -> fw_wf_pc (fw_pc w) ->
  jc (tok_fpc (fw_pc w')) x + jc (effs_gain e effs) x <= jc (tok_fpc (fw_pc w)) x + jc (effs_take e effs) x /\
  (needs_int effs = false ->
   jc (tok_fpc (fw_pc w')) x + jc (effs_gain e effs) x = jc (tok_fpc (fw_pc w)) x + jc (effs_take e effs) x).
Proof.
  intros H Hw. destruct w as [pc held owes]. unfold fw_local in H. cbn [fw_pc fw_held fw_owes] in *.
  destruct pc; destruct v; try discriminate H; destr_in H; injection H as <- <-; guard_facts; cbn [fw_wf_pc] in Hw;
    unfold fw0, fwfail, fwheld, effs_gain, effs_take; cbn [fw_pc flat_map eff_gain eff_take tok_fpc needs_int existsb orb app];
    (split; [|intros; try discriminate]); tok_finish.
Qed.

Lemma bw_local_tokens e r sd w v w' effs x :
  bw_local e r sd w v = Some (w', effs) ->
  jc (tok_bpc (bw_pc w')) x + jc (effs_gain e effs) x <= jc (tok_bpc (bw_pc w)) x + jc (effs_take e effs) x /\
  (needs_int effs = false ->
   jc (tok_bpc (bw_pc w')) x + jc (effs_gain e effs) x = jc (tok_bpc (bw_pc w)) x + jc (effs_take e effs) x).
Proof.
  intros H. destruct w as [pc held owes]. unfold bw_local in H. cbn [bw_pc bw_held bw_owes] in *.
  destruct pc; destruct v; try discriminate H; destr_in H; injection H as <- <-;
    unfold bw0, bwfail, bwheld, effs_gain, effs_take, after_deliver, rel_slot;
    cbn [bw_pc flat_map eff_gain eff_take tok_bpc needs_int existsb orb app];
    (split; [|intros; try discriminate]);
    repeat match goal with |- context [if ?b then _ else _] => destruct b end; cbn [tok_bpc];
    tok_norm; repeat match goal with |- context [job_dec ?a ?b] => destruct (job_dec a b) end; try lia.
Qed.

(* ------------------------------------------------------------------ channels *)
Section ChanTok.
  Context {A : Type} (eqb : A -> A -> bool) (g : A -> list job).
  Hypothesis eqb_eq : forall a b, eqb a b = true -> a = b.

  Definition ent_tok (l : list (centry (A := A))) : list job :=
    flat_map (fun en => match snd en with ETaken => [] | _ => g (snd (fst en)) end) l.

  Lemma ent_tok_cons en l : ent_tok (en :: l) = (match snd en with ETaken => [] | _ => g (snd (fst en)) end) ++ ent_tok l.
  Proof. reflexivity. Qed.

  Lemma ent_tok_try w a l x : jc (ent_tok (c_try w a l)) x = jc (ent_tok l) x + jc (g a) x.
  Proof. unfold c_try, ent_tok. rewrite flat_map_app, jc_app. cbn. rewrite app_nil_r. reflexivity. Qed.

  Lemma ent_tok_ok w l l' x : c_ok w l = Some l' -> jc (ent_tok l') x = jc (ent_tok l) x.
  Proof.
    revert l'. induction l as [|[[w' a] st] t IH]; intros l' H; cbn in H; [discriminate|].
    destruct ((w' =? w)%nat && negb (st_eqb st ESent)) eqn:C.
    - destruct st; try (rewrite andb_false_r in C; discriminate C); injection H as <-; rewrite ?ent_tok_cons; cbn; reflexivity.
    - destruct (c_ok w t) eqn:E; [|discriminate]. injection H as <-. rewrite !ent_tok_cons, !jc_app, (IH _ eq_refl). reflexivity.
  Qed.

  Lemma ent_tok_abort w l l' x : c_abort w l = Some l' -> jc (ent_tok l') x <= jc (ent_tok l) x.
  Proof.
    revert l'. induction l as [|[[w' a] st] t IH]; intros l' H; cbn in H; [discriminate|].
    destruct ((w' =? w)%nat && st_eqb st EPending).
    - injection H as <-. rewrite ent_tok_cons, jc_app. lia.
    - destruct (c_abort w t) eqn:E; [|discriminate]. injection H as <-. rewrite !ent_tok_cons, !jc_app. specialize (IH _ eq_refl). lia.
  Qed.

  Lemma ent_tok_take a l l' x : c_take eqb a l = Some l' -> jc (ent_tok l') x + jc (g a) x = jc (ent_tok l) x.
  Proof.
    revert l'. induction l as [|[[w' a'] st] t IH]; intros l' H; cbn in H; [discriminate|].
    destruct (eqb a' a && negb (st_eqb st ETaken)) eqn:C.
    - apply andb_prop in C. destruct C as [C1 C2]. apply eqb_eq in C1. subst a'.
      destruct st; try discriminate C2; injection H as <-; rewrite ?ent_tok_cons, ?jc_app; cbn [snd fst app]; rewrite ?jc_nil; lia.
    - destruct (c_take eqb a t) eqn:E; [|discriminate]. injection H as <-. rewrite !ent_tok_cons, !jc_app. specialize (IH _ eq_refl). lia.
  Qed.
End ChanTok.

Lemma job_eqb_eq a b : job_eqb a b = true -> a = b.
Proof.
  unfold job_eqb. intros H. apply andb_prop in H. destruct H as [H1 H2]. apply Z.eqb_eq in H1. apply Nat.eqb_eq in H2.
  destruct a, b; cbn in *; subst; reflexivity.
Qed.

Lemma zeqb_eq a b : Z.eqb a b = true -> a = b.
Proof. apply Z.eqb_eq. Qed.

(* ------------------------------------------------------------------ the shared places of one query *)
Definition ftok (q : qstate) : list job := ent_tok (env_file_jobs (q_env q)) (q_fjobs q).
Definition btok (q : qstate) : list job := ent_tok (fun j : job => [j]) (q_bjobs q).
Definition shared_tok (q : qstate) x : nat := jc (ftok q) x + jc (btok q) x + jc (q_recorded q) x.
Definition started_tok (q : qstate) : list job := flat_map (env_file_jobs (q_env q)) (q_started q).
Definition eff_started (e : qenv) (ef : eff) : list job := match ef with EFTry f => env_file_jobs e f | _ => [] end.
Definition effs_started (e : qenv) (es : list eff) : list job := flat_map (eff_started e) es.
Definition has_abort (es : list eff) : bool := existsb (fun ef => match ef with EFAbort | EBAbort _ => true | _ => false end) es.

Lemma apply_eff_tokens fx cap u q ef u' q' x :
  apply_eff fx cap (u, q) ef = Some (u', q') ->
  q_env q' = q_env q /\
  shared_tok q' x + jc (eff_take (q_env q) ef) x <= shared_tok q x + jc (eff_gain (q_env q) ef) x /\
  (has_abort [ef] = false -> shared_tok q' x + jc (eff_take (q_env q) ef) x = shared_tok q x + jc (eff_gain (q_env q) ef) x) /\
  jc (started_tok q') x = jc (started_tok q) x + jc (eff_started (q_env q) ef) x.
Proof.
  intros H. unfold shared_tok, ftok, btok, started_tok.
  destruct ef; eff_cases H; cbn [q_env q_fjobs q_bjobs q_recorded q_started set_cur set_pool set_fjobs set_bjobs set_fws set_bws add_survived add_started add_recorded
                                 eff_take eff_gain eff_started has_abort existsb orb];
    rewrite ?jc_nil, ?jc_app, ?flat_map_app; cbn [flat_map]; rewrite ?jc_app, ?jc_nil, ?app_nil_r;
    try (repeat split; intros; try discriminate; lia).
  all: rewrite ?ent_tok_try; cbn [flat_map app]; rewrite ?jc_app, ?jc_nil.
  all: try match goal with Ho : c_ok _ _ = Some _ |- _ => first [rewrite (ent_tok_ok (env_file_jobs (q_env q)) _ _ _ x Ho) | rewrite (ent_tok_ok (fun j : job => [j]) _ _ _ x Ho)] end.
  all: try match goal with Ho : c_abort _ _ = Some _ |- _ => first [pose proof (ent_tok_abort (env_file_jobs (q_env q)) _ _ _ x Ho) | pose proof (ent_tok_abort (fun j : job => [j]) _ _ _ x Ho)] end.
  all: try match goal with Ho : c_take _ _ _ = Some _ |- _ => first [pose proof (ent_tok_take Z.eqb (env_file_jobs (q_env q)) zeqb_eq _ _ _ x Ho) | pose proof (ent_tok_take job_eqb (fun j : job => [j]) job_eqb_eq _ _ _ x Ho)] end.
  all: unfold fileid in *; repeat split; intros; try discriminate; lia.
Qed.

Lemma has_abort_cons ef t : has_abort (ef :: t) = has_abort [ef] || has_abort t.
Proof. unfold has_abort. cbn. rewrite orb_false_r. reflexivity. Qed.

Lemma apply_effs_tokens fx cap es : forall u q u' q' x,
  apply_effs fx cap (u, q) es = Some (u', q') ->
  q_env q' = q_env q /\
  shared_tok q' x + jc (effs_take (q_env q) es) x <= shared_tok q x + jc (effs_gain (q_env q) es) x /\
  (has_abort es = false -> shared_tok q' x + jc (effs_take (q_env q) es) x = shared_tok q x + jc (effs_gain (q_env q) es) x) /\
  jc (started_tok q') x = jc (started_tok q) x + jc (effs_started (q_env q) es) x.
Proof.
  induction es as [|ef t IH]; intros u q u' q' x H; cbn [apply_effs] in H.
  - injection H as <- <-. unfold effs_take, effs_gain, effs_started. cbn [flat_map]. rewrite !jc_nil. repeat split; intros; lia.
  - destruct (apply_eff fx cap (u, q) ef) as [[u1 q1]|] eqn:E; [|discriminate].
    destruct (apply_eff_tokens _ _ _ _ _ _ _ x E) as [A1 [A2 [A3 A4]]].
    destruct (IH _ _ _ _ x H) as [B1 [B2 [B3 B4]]]. rewrite A1 in *.
    unfold effs_take, effs_gain, effs_started in *. cbn [flat_map]. rewrite !jc_app, has_abort_cons.
    repeat split; try congruence; try lia.
    intros Hab. apply orb_false_elim in Hab. destruct Hab as [H1 H2]. specialize (A3 H1). specialize (B3 H2). lia.
Qed.

(* local facts about which token effects each actor has *)
Lemma fw_local_tok_effs e r sd w v w' effs :
  fw_local e r sd w v = Some (w', effs) -> effs_started e effs = [] /\ (needs_int effs = false -> has_abort effs = false).
Proof.
  intros H. destruct w as [pc held owes]. unfold fw_local in H. cbn [fw_pc fw_held fw_owes] in *.
  destruct pc; destruct v; try discriminate H; destr_in H; injection H as <- <-; cbn; auto.
  all: split; [|intros _]; induction (all_idx f); cbn; auto.
Qed.

Lemma bw_local_tok_effs e r sd w v w' effs :
  bw_local e r sd w v = Some (w', effs) -> effs_started e effs = [] /\ (needs_int effs = false -> has_abort effs = false).
Proof.
  intros H. destruct w as [pc held owes]. unfold bw_local in H. cbn [bw_pc bw_held bw_owes] in *.
  destruct pc; destruct v; try discriminate H; destr_in H; injection H as <- <-; cbn; auto.
Qed.

Lemma fs_local_tok_effs e cap n pc v pc' effs :
  fs_local cap n pc v = Some (pc', effs) ->
  effs_take e effs = [] /\ effs_gain e effs = effs_started e effs /\ (needs_int effs = false -> has_abort effs = false).
Proof.
  intros H. unfold fs_local in H. destruct pc; destruct v; try discriminate H; destr_in H; injection H as <- <-; cbn; auto.
Qed.

Lemma td_local_tok_effs e pc v pc' effs :
  td_local pc v = Some (pc', effs) ->
  effs_take e effs = [] /\ effs_gain e effs = [] /\ effs_started e effs = [] /\ has_abort effs = false.
Proof. intros H. destruct pc; destruct v; try discriminate H; injection H as <- <-; cbn; auto. Qed.

(* ------------------------------------------------------------------ the conservation invariant *)
Definition fw_tok (l : list fwst) (x : job) : nat := fold_right (fun w a => jc (tok_fpc (fw_pc w)) x + a) 0 l.
Definition bw_tok (l : list bwst) (x : job) : nat := fold_right (fun w a => jc (tok_bpc (bw_pc w)) x + a) 0 l.

Lemma fw_tok_cons w l x : fw_tok (w :: l) x = jc (tok_fpc (fw_pc w)) x + fw_tok l x.
Proof. reflexivity. Qed.
Lemma bw_tok_cons w l x : bw_tok (w :: l) x = jc (tok_bpc (bw_pc w)) x + bw_tok l x.
Proof. reflexivity. Qed.
Lemma fw_tok_app a b x : fw_tok (a ++ b) x = fw_tok a x + fw_tok b x.
Proof. induction a; [reflexivity|]. rewrite <- app_comm_cons, !fw_tok_cons, IHa. lia. Qed.
Lemma bw_tok_app a b x : bw_tok (a ++ b) x = bw_tok a x + bw_tok b x.
Proof. induction a; [reflexivity|]. rewrite <- app_comm_cons, !bw_tok_cons, IHa. lia. Qed.
Lemma fw_tok_new n x : fw_tok (repeat new_fw n) x = 0.
Proof. induction n; [reflexivity|]. cbn [repeat]. rewrite fw_tok_cons, IHn. reflexivity. Qed.
Lemma bw_tok_new n x : bw_tok (repeat new_bw n) x = 0.
Proof. induction n; [reflexivity|]. cbn [repeat]. rewrite bw_tok_cons, IHn. reflexivity. Qed.
Lemma fw_tok_set i w w' l x : nth_error l i = Some w ->
  fw_tok (set_nth i w' l) x + jc (tok_fpc (fw_pc w)) x = fw_tok l x + jc (tok_fpc (fw_pc w')) x.
Proof.
  revert i. induction l as [|a t IH]; intros i H; destruct i; cbn [nth_error set_nth] in *; try discriminate.
  - injection H as ->. rewrite !fw_tok_cons. lia.
  - rewrite !fw_tok_cons. specialize (IH _ H). lia.
Qed.
Lemma bw_tok_set i w w' l x : nth_error l i = Some w ->
  bw_tok (set_nth i w' l) x + jc (tok_bpc (bw_pc w)) x = bw_tok l x + jc (tok_bpc (bw_pc w')) x.
Proof.
  revert i. induction l as [|a t IH]; intros i H; destruct i; cbn [nth_error set_nth] in *; try discriminate.
  - injection H as ->. rewrite !bw_tok_cons. lia.
  - rewrite !bw_tok_cons. specialize (IH _ H). lia.
Qed.

Arguments fw_tok : simpl never.
Arguments bw_tok : simpl never.
Arguments shared_tok : simpl never.
Arguments started_tok : simpl never.

Definition total_tok (q : qstate) (x : job) : nat := shared_tok q x + fw_tok (q_fws q) x + bw_tok (q_bws q) x.

(* the query has not been cancelled (by the caller or by Close) while its pipeline was running *)
Definition not_cancelled (q : qstate) : bool :=
  if m_finished (c_m (q_cur q)) then negb (m_int_at_done (c_m (q_cur q))) else negb (x_int (c_x (q_cur q))).

Record tinv (q : qstate) : Prop := {
  ti_le : forall x, total_tok q x <= jc (started_tok q) x;
  ti_eq : not_cancelled q = true -> forall x, total_tok q x = jc (started_tok q) x
}.

Lemma tinv_init e k : tinv (qinit e k).
Proof. constructor; intros; reflexivity. Qed.

(* shared state is untouched by installing an actor's new local state *)
Lemma shared_tok_set_fws q l x : shared_tok (set_fws q l) x = shared_tok q x.
Proof. reflexivity. Qed.
Lemma shared_tok_set_bws q l x : shared_tok (set_bws q l) x = shared_tok q x.
Proof. reflexivity. Qed.
Lemma shared_tok_set_fs q pc x : shared_tok (set_fs q pc) x = shared_tok q x.
Proof. reflexivity. Qed.
Lemma shared_tok_set_td q pc x : shared_tok (set_td q pc) x = shared_tok q x.
Proof. reflexivity. Qed.

Lemma started_tok_set_fws q l : started_tok (set_fws q l) = started_tok q.
Proof. reflexivity. Qed.
Lemma started_tok_set_bws q l : started_tok (set_bws q l) = started_tok q.
Proof. reflexivity. Qed.
Lemma started_tok_set_fs q pc : started_tok (set_fs q pc) = started_tok q.
Proof. reflexivity. Qed.
Lemma started_tok_set_td q pc : started_tok (set_td q pc) = started_tok q.
Proof. reflexivity. Qed.

(* the context flags as the cursor moves *)
Lemma cursor_ctx_step fx s l s' :
  cursor_step fx s l = Some s' ->
  (x_int (c_x s) = true -> x_int (c_x s') = true) /\
  (l <> LWorkersDone -> m_int_at_done (c_m s') = m_int_at_done (c_m s)) /\
  (l = LWorkersDone -> m_int_at_done (c_m s') = x_int (c_x s) /\ x_int (c_x s') = x_int (c_x s)) /\
  (external_label l = false -> x_int (c_x s') = x_int (c_x s)).
Proof.
  intros H. destr_cur s. cbn in *.
  destruct l; step_cases H; norm_hyps; cbn in *; repeat split; intros; try discriminate; try contradiction; auto.
Qed.

Lemma apply_effs_xint fx cap es : forall u q u' q',
  apply_effs fx cap (u, q) es = Some (u', q') -> Forall eff_plain es ->
  x_int (c_x (q_cur q')) = x_int (c_x (q_cur q)) /\ m_int_at_done (c_m (q_cur q')) = m_int_at_done (c_m (q_cur q)) /\
  (needs_int es = true -> x_int (c_x (q_cur q)) = true).
Proof.
  induction es as [|e t IH]; intros u q u' q' H F; cbn [apply_effs] in H.
  - injection H as <- <-. repeat split; auto. discriminate.
  - destruct (apply_eff fx cap (u, q) e) as [[u1 q1]|] eqn:E; [|discriminate]. inversion F as [|? ? Fe Ft]; subst.
    destruct (IH _ _ _ _ H Ft) as [A [B C]].
    assert (x_int (c_x (q_cur q1)) = x_int (c_x (q_cur q)) /\ m_int_at_done (c_m (q_cur q1)) = m_int_at_done (c_m (q_cur q)) /\
            (match e with ENeedInt => x_int (c_x (q_cur q)) = true | _ => True end)) as [A1 [B1 C1]].
    { destruct e; eff_cases E; cbn; auto.
      destruct (cursor_ctx_step _ _ _ _ Heqo) as [_ [K1 [_ K2]]]. cbn in Fe.
      split; [apply K2; destruct l; auto; contradiction|]. split; auto. apply K1. intros ->. exact Fe. }
    repeat split; try congruence.
    cbn [needs_int existsb]. intros N. apply orb_prop in N. destruct N as [N|N].
    + destruct e; try discriminate N. exact C1.
    + rewrite <- A1. apply C. exact N.
Qed.

Lemma fw_step_tokens e r sd w v w' effs x :
  fw_step e r sd w v = Some (w', effs) -> fw_wf_pc (fw_pc w) ->
  jc (tok_fpc (fw_pc w')) x + jc (effs_gain e effs) x <= jc (tok_fpc (fw_pc w)) x + jc (effs_take e effs) x /\
  (needs_int effs = false ->
   jc (tok_fpc (fw_pc w')) x + jc (effs_gain e effs) x = jc (tok_fpc (fw_pc w)) x + jc (effs_take e effs) x /\ has_abort effs = false) /\
  effs_started e effs = [].
Proof.
  intros H Hw. unfold fw_step in H.
  destruct v; try (destruct (fw_local e r sd w _) as [[w1 effs1]|] eqn:E; [|discriminate]; injection H as <- <-;
    destruct (fw_local_tokens _ _ _ _ _ _ _ x E Hw) as [A B]; destruct (fw_local_tok_effs _ _ _ _ _ _ _ E) as [C D];
    destruct (fw_owes w); [split; [exact A|split; [intros N; discriminate N|exact C]] | split; [exact A|split; [intros N; split; auto|exact C]]]; fail).
  destruct (fw_owes w); [|discriminate]. injection H as <- <-. cbn. repeat split; auto.
Qed.

Lemma bw_step_tokens e r sd w v w' effs x :
  bw_step e r sd w v = Some (w', effs) ->
  jc (tok_bpc (bw_pc w')) x + jc (effs_gain e effs) x <= jc (tok_bpc (bw_pc w)) x + jc (effs_take e effs) x /\
  (needs_int effs = false ->
   jc (tok_bpc (bw_pc w')) x + jc (effs_gain e effs) x = jc (tok_bpc (bw_pc w)) x + jc (effs_take e effs) x /\ has_abort effs = false) /\
  effs_started e effs = [].
Proof.
  intros H. unfold bw_step in H.
  destruct v; try (destruct (bw_local e r sd w _) as [[w1 effs1]|] eqn:E; [|discriminate]; injection H as <- <-;
    destruct (bw_local_tokens _ _ _ _ _ _ _ x E) as [A B]; destruct (bw_local_tok_effs _ _ _ _ _ _ _ E) as [C D];
    destruct (bw_owes w); [split; [exact A|split; [intros N; discriminate N|exact C]] | split; [exact A|split; [intros N; split; auto|exact C]]]; fail).
  destruct (bw_owes w); [|discriminate]. injection H as <- <-. cbn. repeat split; auto.
Qed.

(* nothing in the pipeline moves once the cursor's channels are closed *)
Lemma finished_no_act fx cap u q a v :
  qinv fx cap q -> m_finished (c_m (q_cur q)) = true -> act_step fx cap u q a v = None.
Proof.
  intros I F. pose proof (proj1 (qi_finished _ _ _ I) F) as T.
  destruct (qi_files_done _ _ _ I ltac:(rewrite T; discriminate)) as [Efs Efw].
  assert (Ebw : forallb bw_exited (q_bws q) = true) by (apply (qi_blocks_done _ _ _ I); rewrite T; cbn; lia).
  unfold act_step. destruct a.
  - unfold fs_exited in Efs. destruct (q_fs q); try discriminate. destruct v; reflexivity.
  - destruct (nth_error (q_fws q) i) as [w|] eqn:N; [|reflexivity].
    assert (P : fw_pc w = FExited) by (apply fw_exited_pc; eapply forallb_nth; eassumption).
    unfold fw_step, fw_local. rewrite P.
    destruct v; try reflexivity. destruct (fw_owes w); [|reflexivity]. cbn [apply_effs apply_eff set_fws q_cur].
    destruct (cursor_step fx (q_cur q) (LRecordErr e)) eqn:C; [|reflexivity]. exfalso.
    unfold cursor_step in C. rewrite F in C. discriminate.
  - destruct (nth_error (q_bws q) j) as [w|] eqn:N; [|reflexivity].
    assert (P : bw_pc w = BExited) by (apply bw_exited_pc; eapply forallb_nth; eassumption).
    unfold bw_step, bw_local. rewrite P.
    destruct v; try reflexivity. destruct (bw_owes w); [|reflexivity]. cbn [apply_effs apply_eff set_bws q_cur].
    destruct (cursor_step fx (q_cur q) (LRecordErr e)) eqn:C; [|reflexivity]. exfalso.
    unfold cursor_step in C. rewrite F in C. discriminate.
  - rewrite T. destruct v; reflexivity.
Qed.

Lemma nc_after_plain fx cap u q1 effs u' q' q :
  apply_effs fx cap (u, q1) effs = Some (u', q') -> Forall eff_plain effs ->
  q_cur q1 = q_cur q -> m_finished (c_m (q_cur q)) = false ->
  not_cancelled q' = true -> not_cancelled q = true /\ needs_int effs = false.
Proof.
  intros H P C F N. destruct (apply_effs_plain _ _ _ _ _ _ _ H P) as [Fin _].
  destruct (apply_effs_xint _ _ _ _ _ _ _ H P) as [X [_ NI]]. rewrite C in *.
  unfold not_cancelled in *. rewrite Fin, F in N. rewrite F, <- X. split; [exact N|].
  destruct (needs_int effs) eqn:E; auto. rewrite (NI eq_refl) in X. rewrite X in N. discriminate.
Qed.

Lemma tinv_act fx cap u q a v u' q' :
  qinv fx cap q -> tinv q -> act_step fx cap u q a v = Some (u', q') -> tinv q'.
Proof.
  intros I [Le Eq] H.
  assert (F : m_finished (c_m (q_cur q)) = false).
  { destruct (m_finished (c_m (q_cur q))) eqn:E; auto. rewrite (finished_no_act _ _ _ _ _ _ I E) in H. discriminate. }
  unfold act_step in H. destruct a.
  - (* file stage *)
    destruct (fs_local cap (length (q_fws q)) (q_fs q) v) as [[pc effs]|] eqn:S; [|discriminate].
    destruct (fs_local_spec _ _ _ _ _ _ S) as [_ [_ [_ [A3 [_ [_ P]]]]]].
    destruct (fs_local_tok_effs (q_env q) _ _ _ _ _ _ S) as [K1 [K2 K3]].
    destruct (apply_effs_frame _ _ _ _ _ _ _ H) as [_ [_ [_ [F4 [F5 _]]]]].
    cbn [set_fs q_fws q_bws q_env] in *. rewrite A3 in F5. cbn [repeat] in F5. rewrite app_nil_r in F5.
    assert (Tk : forall x, total_tok q' x + 0 <= total_tok q x + jc (effs_started (q_env q) effs) x /\
                           (needs_int effs = false -> total_tok q' x = total_tok q x + jc (effs_started (q_env q) effs) x) /\
                           jc (started_tok q') x = jc (started_tok q) x + jc (effs_started (q_env q) effs) x).
    { intros x. destruct (apply_effs_tokens _ _ _ _ _ _ _ x H) as [_ [B2 [B3 B4]]]. cbn [set_fs q_env] in *.
      rewrite shared_tok_set_fs, started_tok_set_fs, K1, K2, jc_nil in *. unfold total_tok. rewrite F4, F5, fw_tok_app, fw_tok_new.
      repeat split; auto; try lia. intros N. specialize (B3 (K3 N)). lia. }
    constructor.
    + intros x. destruct (Tk x) as [T1 [_ T3]]. specialize (Le x). lia.
    + intros N x. destruct (nc_after_plain _ _ _ _ _ _ _ q H P eq_refl F N) as [N0 NI].
      destruct (Tk x) as [_ [T2 T3]]. rewrite (T2 NI), T3, (Eq N0 x). reflexivity.
  - (* file worker *)
    destruct (nth_error (q_fws q) i) as [w|] eqn:Nw; [|discriminate].
    destruct (fw_step (q_env q) (2 * i) i w v) as [[w' effs]|] eqn:S; [|discriminate].
    destruct (QueryInvProofs.Forall_nth _ _ _ _ (qi_fw _ _ _ I) Nw) as [G1 G2].
    destruct (fw_step_spec _ _ _ _ _ _ _ S G1 G2) as [_ [_ [_ [_ [A5 [_ [_ P]]]]]]].
    destruct (apply_effs_frame _ _ _ _ _ _ _ H) as [_ [_ [_ [F4 [F5 _]]]]].
    cbn [set_fws q_fws q_bws q_env] in *. rewrite A5 in F4. cbn [repeat] in F4. rewrite app_nil_r in F4.
    assert (Tk : forall x, total_tok q' x <= total_tok q x /\ (needs_int effs = false -> total_tok q' x = total_tok q x) /\
                           jc (started_tok q') x = jc (started_tok q) x).
    { intros x. destruct (apply_effs_tokens _ _ _ _ _ _ _ x H) as [_ [B2 [B3 B4]]]. cbn [set_fws q_env] in *.
      destruct (fw_step_tokens _ _ _ _ _ _ _ x S G2) as [L1 [L2 L3]].
      rewrite shared_tok_set_fws, started_tok_set_fws, L3, jc_nil in *. unfold total_tok. rewrite F4, F5, bw_tok_app, bw_tok_new.
      pose proof (fw_tok_set i w w' _ x Nw) as FS.
      repeat split; auto; try lia. intros N. destruct (L2 N) as [L2a L2b]. specialize (B3 L2b). lia. }
    constructor.
    + intros x. destruct (Tk x) as [T1 [_ T3]]. specialize (Le x). lia.
    + intros N x. destruct (nc_after_plain _ _ _ _ _ _ _ q H P eq_refl F N) as [N0 NI].
      destruct (Tk x) as [_ [T2 T3]]. rewrite (T2 NI), T3, (Eq N0 x). reflexivity.
  - (* block worker *)
    destruct (nth_error (q_bws q) j) as [w|] eqn:Nw; [|discriminate].
    destruct (bw_step (q_env q) (2 * j + 1) j w v) as [[w' effs]|] eqn:S; [|discriminate].
    pose proof (QueryInvProofs.Forall_nth _ _ _ _ (qi_bw _ _ _ I) Nw) as G.
    destruct (bw_step_spec _ _ _ _ _ _ _ S G) as [_ [_ [_ [A5 [A6 [_ P]]]]]].
    destruct (apply_effs_frame _ _ _ _ _ _ _ H) as [_ [_ [_ [F4 [F5 _]]]]].
    cbn [set_bws q_fws q_bws q_env] in *. rewrite A5 in F4. rewrite A6 in F5. cbn [repeat] in F4, F5. rewrite app_nil_r in F4, F5.
    assert (Tk : forall x, total_tok q' x <= total_tok q x /\ (needs_int effs = false -> total_tok q' x = total_tok q x) /\
                           jc (started_tok q') x = jc (started_tok q) x).
    { intros x. destruct (apply_effs_tokens _ _ _ _ _ _ _ x H) as [_ [B2 [B3 B4]]]. cbn [set_bws q_env] in *.
      destruct (bw_step_tokens _ _ _ _ _ _ _ x S) as [L1 [L2 L3]].
      rewrite shared_tok_set_bws, started_tok_set_bws, L3, jc_nil in *. unfold total_tok. rewrite F4, F5.
      pose proof (bw_tok_set j w w' _ x Nw) as BS.
      repeat split; auto; try lia. intros N. destruct (L2 N) as [L2a L2b]. specialize (B3 L2b). lia. }
    constructor.
    + intros x. destruct (Tk x) as [T1 [_ T3]]. specialize (Le x). lia.
    + intros N x. destruct (nc_after_plain _ _ _ _ _ _ _ q H P eq_refl F N) as [N0 NI].
      destruct (Tk x) as [_ [T2 T3]]. rewrite (T2 NI), T3, (Eq N0 x). reflexivity.
  - (* teardown *)
    destruct (td_local (q_td q) v) as [[pc effs]|] eqn:S; [|discriminate].
    destruct (td_local_tok_effs (q_env q) _ _ _ _ S) as [K1 [K2 [K3 K4]]].
    destruct (td_local_spec _ _ _ _ S) as [_ [_ [A3 [A4 [_ M]]]]].
    destruct (apply_effs_frame _ _ _ _ _ _ _ H) as [_ [_ [_ [F4 [F5 _]]]]].
    cbn [set_td q_fws q_bws q_env] in *. rewrite A3 in F5. rewrite A4 in F4. cbn [repeat] in F4, F5. rewrite app_nil_r in F4, F5.
    assert (Tk : forall x, total_tok q' x = total_tok q x /\ jc (started_tok q') x = jc (started_tok q) x).
    { intros x. destruct (apply_effs_tokens _ _ _ _ _ _ _ x H) as [_ [_ [B3 B4]]]. cbn [set_td q_env] in *.
      rewrite shared_tok_set_td, started_tok_set_td, K1, K2, K3, jc_nil in *. unfold total_tok. rewrite F4, F5. specialize (B3 K4). split; lia. }
    assert (NC : not_cancelled q' = true -> not_cancelled q = true).
    { unfold not_cancelled. rewrite F.
      destruct (q_td q) eqn:T; destruct pc; try contradiction; subst effs; cbn [apply_effs] in H.
      - destruct (apply_eff fx cap (u, set_td q TWaitBlocks) ENeedFilesDone) as [[u1 q1]|] eqn:E1; [|discriminate].
        destruct (apply_eff fx cap (u1, q1) EBClose) as [[u2 q2]|] eqn:E2; [|discriminate]. injection H as <- <-.
        eff_cases E1. eff_cases E2. cbn. rewrite F. auto.
      - destruct (apply_eff fx cap (u, set_td q TCloseAll) ENeedBlocksDone) as [[u1 q1]|] eqn:E1; [|discriminate]. injection H as <- <-.
        eff_cases E1. cbn. rewrite F. auto.
      - destruct (apply_eff fx cap (u, set_td q TMark) (EPool PCloseAll)) as [[u1 q1]|] eqn:E1; [|discriminate]. injection H as <- <-.
        eff_cases E1. cbn. rewrite F. auto.
      - destruct (apply_eff fx cap (u, set_td q TDone) (ECur LWorkersDone)) as [[u1 q1]|] eqn:E1; [|discriminate]. injection H as <- <-.
        eff_cases E1. cbn. destruct (cursor_workersdone _ _ _ Heqo) as [W1 _]. rewrite W1.
        destruct (cursor_ctx_step _ _ _ _ Heqo) as [_ [_ [K _]]]. destruct (K eq_refl) as [K' _]. rewrite K'. auto. }
    constructor.
    + intros x. destruct (Tk x) as [T1 T3]. specialize (Le x). lia.
    + intros N x. destruct (Tk x) as [T2 T3]. rewrite T2, T3, (Eq (NC N) x). reflexivity.
Qed.

Lemma tinv_ext fx q cl c :
  tinv q -> external_label cl = true -> cursor_step fx (q_cur q) cl = Some c -> tinv (set_cur q c).
Proof.
  intros [Le Eq] E H.
  assert (NW : cl <> LWorkersDone) by (intros ->; discriminate E).
  pose proof (cursor_finished_same _ _ _ _ H NW) as Fin.
  destruct (cursor_ctx_step _ _ _ _ H) as [Mono [Iad _]]. specialize (Iad NW).
  assert (NC : not_cancelled (set_cur q c) = true -> not_cancelled q = true).
  { unfold not_cancelled. cbn [set_cur q_cur]. rewrite Fin, Iad. destruct (m_finished (c_m (q_cur q))); auto.
    destruct (x_int (c_x (q_cur q))); auto. rewrite (Mono eq_refl). auto. }
  constructor.
  - intros x. exact (Le x).
  - intros N x. exact (Eq (NC N) x).
Qed.

Theorem reachable_tinv fx cap es s q : reachable fx cap es s -> In q (g_qs s) -> tinv q.
Proof.
  intros R. revert q. induction R as [|s l s' R IH H]; intros q I.
  - cbn in I. apply in_map_iff in I. destruct I as [ec [<- _]]. apply tinv_init.
  - destruct l as [qi a v|qi cl]; cbn in H.
    + destruct (nth_error (g_qs s) qi) as [q0|] eqn:N; [|discriminate].
      destruct (act_step fx (g_cap s) (g_used s) q0 a v) as [[u' q']|] eqn:A; [|discriminate]. injection H as <-. cbn in I.
      apply In_nth_error in I. destruct I as [k Hk]. rewrite nth_error_set_nth in Hk.
      destruct (Nat.eqb_spec qi k).
      * rewrite N in Hk. injection Hk as <-.
        assert (I0 : In q0 (g_qs s)) by (eapply nth_error_In; eassumption).
        pose proof (reachable_ginv _ _ _ _ R) as G. rewrite (gi_cap _ _ _ G) in A.
        eapply tinv_act; [exact (reachable_qinv _ _ _ _ _ R I0)|exact (IH _ I0)|exact A].
      * apply IH. eapply nth_error_In; eassumption.
    + destruct (external_label cl) eqn:E; [|discriminate].
      destruct (nth_error (g_qs s) qi) as [q0|] eqn:N; [|discriminate].
      destruct (cursor_step fx (q_cur q0) cl) as [c|] eqn:A; [|discriminate]. injection H as <-. cbn in I.
      apply In_nth_error in I. destruct I as [k Hk]. rewrite nth_error_set_nth in Hk.
      destruct (Nat.eqb_spec qi k).
      * rewrite N in Hk. injection Hk as <-. eapply tinv_ext; eauto. apply IH. eapply nth_error_In; eassumption.
      * apply IH. eapply nth_error_In; eassumption.
Qed.

(* ------------------------------------------------------------------ files are handed over at most once *)
Definition item_ids (l : list item) : list fileid :=
  flat_map (fun it => match it with IFile f => [f_id f] | IErr _ => [] end) l.

Definition fs_pending (pc : fspc) : list item :=
  match pc with
  | SRun rest | SSending _ rest | SSpawn rest => rest
  | SPulled f rest => IFile f :: rest
  | _ => []
  end.

Fixpoint effs_ftry (es : list eff) : list fileid :=
  match es with [] => [] | EFTry f :: t => f :: effs_ftry t | _ :: t => effs_ftry t end.

Lemma apply_effs_started fx cap es : forall u q u' q',
  apply_effs fx cap (u, q) es = Some (u', q') -> q_started q' = q_started q ++ effs_ftry es.
Proof.
  induction es as [|e t IH]; intros u q u' q' H; cbn [apply_effs] in H.
  - injection H as <- <-. cbn. rewrite app_nil_r. reflexivity.
  - destruct (apply_eff fx cap (u, q) e) as [[u1 q1]|] eqn:E; [|discriminate].
    rewrite (IH _ _ _ _ H). destruct e; eff_cases E; cbn; auto. rewrite <- app_assoc. reflexivity.
Qed.

Lemma fw_local_ftry e r sd w v w' effs : fw_local e r sd w v = Some (w', effs) -> effs_ftry effs = [].
Proof.
  intros H. destruct w as [pc held owes]. unfold fw_local in H. cbn [fw_pc fw_held fw_owes] in *.
  destruct pc; destruct v; try discriminate H; destr_in H; injection H as <- <-; cbn; auto; induction (all_idx f); cbn; auto.
Qed.

Lemma bw_local_ftry e r sd w v w' effs : bw_local e r sd w v = Some (w', effs) -> effs_ftry effs = [].
Proof.
  intros H. destruct w as [pc held owes]. unfold bw_local in H. cbn [bw_pc bw_held bw_owes] in *.
  destruct pc; destruct v; try discriminate H; destr_in H; injection H as <- <-; cbn; auto.
Qed.

Definition sinv (q : qstate) : Prop := NoDup (q_started q ++ item_ids (fs_pending (q_fs q))).

Lemma NoDup_app_remove_mid {A} (a : list A) x b : NoDup (a ++ x :: b) -> NoDup ((a ++ [x]) ++ b).
Proof. intros H. rewrite <- app_assoc. exact H. Qed.

Lemma NoDup_app_drop {A} (a b c : list A) : NoDup (a ++ b ++ c) -> NoDup (a ++ c).
Proof.
  intros H. induction b as [|x b IH]; [exact H|]. apply IH. cbn in H. eapply NoDup_remove_1. exact H.
Qed.

Lemma NoDup_app_left {A} (a b : list A) : NoDup (a ++ b) -> NoDup a.
Proof. induction a as [|x a IH]; intros H; [constructor|]. inversion H; subst. constructor; [intros I; apply H2; apply in_or_app; auto|auto]. Qed.

Lemma fs_local_sinv cap n pc v pc' effs started :
  fs_local cap n pc v = Some (pc', effs) -> NoDup (started ++ item_ids (fs_pending pc)) ->
  NoDup ((started ++ effs_ftry effs) ++ item_ids (fs_pending pc')).
Proof.
  intros H N. unfold fs_local in H.
  destruct pc; destruct v; try discriminate H; destr_in H; injection H as <- <-; subst;
    cbn [effs_ftry fs_pending item_ids flat_map app] in *; rewrite ?app_nil_r in *; auto.
  all: try (eapply NoDup_app_left; eassumption).
  all: try (eapply NoDup_remove_1; eassumption).
  all: try (rewrite <- app_assoc; exact N).
  all: try (apply NoDup_remove_1 in N; eapply NoDup_app_left; eassumption).
Qed.

Lemma sinv_act fx cap u q a v u' q' :
  sinv q -> act_step fx cap u q a v = Some (u', q') -> sinv q'.
Proof.
  unfold sinv. intros N H. unfold act_step in H. destruct a.
  - destruct (fs_local cap (length (q_fws q)) (q_fs q) v) as [[pc effs]|] eqn:S; [|discriminate].
    destruct (apply_effs_frame _ _ _ _ _ _ _ H) as [_ [F2 _]]. rewrite (apply_effs_started _ _ _ _ _ _ _ H), F2.
    cbn [set_fs q_started q_fs]. eapply fs_local_sinv; eassumption.
  - destruct (nth_error (q_fws q) i) as [w|]; [|discriminate].
    destruct (fw_step (q_env q) (2 * i) i w v) as [[w' effs]|] eqn:S; [|discriminate].
    destruct (apply_effs_frame _ _ _ _ _ _ _ H) as [_ [F2 _]]. rewrite (apply_effs_started _ _ _ _ _ _ _ H), F2.
    cbn [set_fws q_started q_fs].
    assert (E : effs_ftry effs = []).
    { unfold fw_step in S. destruct v; try (destruct (fw_local _ _ _ w _) as [[w1 e1]|] eqn:L; [|discriminate]; injection S as <- <-;
        pose proof (fw_local_ftry _ _ _ _ _ _ _ L) as X; destruct (fw_owes w); cbn; auto; fail).
      destruct (fw_owes w); [|discriminate]. injection S as <- <-. reflexivity. }
    rewrite E, app_nil_r. exact N.
  - destruct (nth_error (q_bws q) j) as [w|]; [|discriminate].
    destruct (bw_step (q_env q) (2 * j + 1) j w v) as [[w' effs]|] eqn:S; [|discriminate].
    destruct (apply_effs_frame _ _ _ _ _ _ _ H) as [_ [F2 _]]. rewrite (apply_effs_started _ _ _ _ _ _ _ H), F2.
    cbn [set_bws q_started q_fs].
    assert (E : effs_ftry effs = []).
    { unfold bw_step in S. destruct v; try (destruct (bw_local _ _ _ w _) as [[w1 e1]|] eqn:L; [|discriminate]; injection S as <- <-;
        pose proof (bw_local_ftry _ _ _ _ _ _ _ L) as X; destruct (bw_owes w); cbn; auto; fail).
      destruct (bw_owes w); [|discriminate]. injection S as <- <-. reflexivity. }
    rewrite E, app_nil_r. exact N.
  - destruct (td_local (q_td q) v) as [[pc effs]|] eqn:S; [|discriminate].
    destruct (apply_effs_frame _ _ _ _ _ _ _ H) as [_ [F2 _]]. rewrite (apply_effs_started _ _ _ _ _ _ _ H), F2.
    cbn [set_td q_started q_fs].
    assert (E : effs_ftry effs = []) by (destruct (q_td q); destruct v; try discriminate S; injection S as <- <-; reflexivity).
    rewrite E, app_nil_r. exact N.
Qed.

Theorem reachable_sinv fx cap es s q :
  Forall (fun ec => NoDup (item_ids (e_items (fst ec)))) es ->
  reachable fx cap es s -> In q (g_qs s) -> sinv q.
Proof.
  intros P R. revert q. induction R as [|s l s' R IH H]; intros q I.
  - cbn in I. apply in_map_iff in I. destruct I as [ec [<- Iec]]. rewrite Forall_forall in P. exact (P _ Iec).
  - destruct l as [qi a v|qi cl]; cbn in H.
    + destruct (nth_error (g_qs s) qi) as [q0|] eqn:N; [|discriminate].
      destruct (act_step fx (g_cap s) (g_used s) q0 a v) as [[u' q']|] eqn:A; [|discriminate]. injection H as <-. cbn in I.
      apply In_nth_error in I. destruct I as [k Hk]. rewrite nth_error_set_nth in Hk.
      destruct (Nat.eqb_spec qi k).
      * rewrite N in Hk. injection Hk as <-. eapply sinv_act; [|exact A]. apply IH. eapply nth_error_In; eassumption.
      * apply IH. eapply nth_error_In; eassumption.
    + destruct (external_label cl) eqn:E; [|discriminate].
      destruct (nth_error (g_qs s) qi) as [q0|] eqn:N; [|discriminate].
      destruct (cursor_step fx (q_cur q0) cl) as [c|] eqn:A; [|discriminate]. injection H as <-. cbn in I.
      apply In_nth_error in I. destruct I as [k Hk]. rewrite nth_error_set_nth in Hk.
      destruct (Nat.eqb_spec qi k).
      * rewrite N in Hk. injection Hk as <-. unfold sinv. cbn. apply IH. eapply nth_error_In; eassumption.
      * apply IH. eapply nth_error_In; eassumption.
Qed.


(* ------------------------------------------------------------------ every block is recorded at most once *)
Lemma env_file_jobs_fst e f j : In j (env_file_jobs e f) -> fst j = f.
Proof.
  unfold env_file_jobs. destruct (find_file f (e_items e)) eqn:E; [|intros []].
  unfold file_jobs, idx_jobs. intros I. apply in_map_iff in I. destruct I as [i [<- _]]. cbn. eapply find_file_id; eassumption.
Qed.

Lemma env_file_jobs_nodup e f : NoDup (env_file_jobs e f).
Proof.
  unfold env_file_jobs. destruct (find_file f (e_items e)); [|constructor].
  unfold file_jobs, idx_jobs, all_idx. apply FinFun.Injective_map_NoDup; [|apply seq_NoDup].
  intros a b H. injection H. auto.
Qed.

Lemma jc_in l x : In x l <-> jc l x >= 1.
Proof. rewrite (count_occ_In job_dec). lia. Qed.

Lemma started_cnt e l x : NoDup l -> jc (flat_map (env_file_jobs e) l) x <= 1.
Proof.
  induction l as [|a t IH]; intros N; [cbn [flat_map]; rewrite jc_nil; lia|]. inversion N as [|? ? Na Nt]; subst. cbn [flat_map]. rewrite jc_app.
  pose proof (proj1 (NoDup_count_occ job_dec _) (env_file_jobs_nodup e a) x) as Ha. specialize (IH Nt).
  destruct (jc (env_file_jobs e a) x) eqn:Ca; [lia|].
  assert (Fx : fst x = a) by (apply (env_file_jobs_fst e); apply jc_in; lia).
  assert (jc (flat_map (env_file_jobs e) t) x = 0); [|lia].
  apply count_occ_not_In. intros I. apply in_flat_map in I. destruct I as [b [Ib Ix]].
  apply env_file_jobs_fst in Ix. apply Na. congruence.
Qed.

Theorem recorded_once fx cap es s q :
  Forall (fun ec => NoDup (item_ids (e_items (fst ec)))) es ->
  reachable fx cap es s -> In q (g_qs s) -> NoDup (q_recorded q).
Proof.
  intros P R I. apply (NoDup_count_occ job_dec). intros x.
  pose proof (ti_le _ (reachable_tinv _ _ _ _ _ R I) x) as L.
  pose proof (reachable_sinv _ _ _ _ _ P R I) as S. unfold sinv in S. apply NoDup_app_left in S.
  pose proof (started_cnt (q_env q) _ x S) as C. unfold total_tok, shared_tok in L. unfold started_tok in L. lia.
Qed.

(* ------------------------------------------------------------------ all or none of a file's blocks *)
Lemma exited_fw_tok l x : forallb fw_exited l = true -> fw_tok l x = 0.
Proof.
  induction l as [|w t IH]; intros E; [reflexivity|]. cbn in E. apply andb_prop in E. destruct E as [E1 E2].
  rewrite fw_tok_cons, (IH E2). apply fw_exited_pc in E1. rewrite E1. reflexivity.
Qed.

Lemma exited_bw_tok l x : forallb bw_exited l = true -> bw_tok l x = 0.
Proof.
  induction l as [|w t IH]; intros E; [reflexivity|]. cbn in E. apply andb_prop in E. destruct E as [E1 E2].
  rewrite bw_tok_cons, (IH E2). apply bw_exited_pc in E1. rewrite E1. reflexivity.
Qed.

(* a query that was not cancelled while its pipeline ran, and whose job channels hold no untaken job at the
   end: every block of every file handed to the pipeline is recorded exactly once, and no other block is *)
Theorem recorded_all_or_none fx cap es s q :
  reachable fx cap es s -> In q (g_qs s) ->
  m_finished (c_m (q_cur q)) = true -> not_cancelled q = true -> ftok q = [] -> btok q = [] ->
  forall x, jc (q_recorded q) x = jc (started_tok q) x.
Proof.
  intros R I F N Ef Eb x. pose proof (ti_eq _ (reachable_tinv _ _ _ _ _ R I) N x) as E.
  destruct (all_exited _ _ _ _ _ R I F) as [_ [A [B _]]].
  unfold total_tok, shared_tok in E. rewrite Ef, Eb, (exited_fw_tok _ x A), (exited_bw_tok _ x B), !jc_nil in E. lia.
Qed.

(* in job terms: a started file has every block recorded, a file never handed over has none *)
Corollary recorded_file_all fx cap es s q fe i :
  Forall (fun ec => NoDup (item_ids (e_items (fst ec)))) es ->
  reachable fx cap es s -> In q (g_qs s) ->
  m_finished (c_m (q_cur q)) = true -> not_cancelled q = true -> ftok q = [] -> btok q = [] ->
  find_file (f_id fe) (e_items (q_env q)) = Some fe -> i < length (f_blocks fe) ->
  (In (f_id fe) (q_started q) -> jc (q_recorded q) (f_id fe, i) = 1) /\
  (~ In (f_id fe) (q_started q) -> jc (q_recorded q) (f_id fe, i) = 0).
Proof.
  intros P R I F N Ef Eb Hf Hi. rewrite (recorded_all_or_none _ _ _ _ _ R I F N Ef Eb).
  pose proof (reachable_sinv _ _ _ _ _ P R I) as S. unfold sinv in S. apply NoDup_app_left in S.
  assert (Hin : In (f_id fe, i) (env_file_jobs (q_env q) (f_id fe))).
  { unfold env_file_jobs. rewrite Hf. unfold file_jobs, idx_jobs, all_idx. apply in_map_iff. exists i. split; auto. apply in_seq. lia. }
  split.
  - intros Is. pose proof (started_cnt (q_env q) _ (f_id fe, i) S) as C. unfold started_tok.
    assert (In (f_id fe, i) (flat_map (env_file_jobs (q_env q)) (q_started q))) by (apply in_flat_map; eauto).
    apply jc_in in H. lia.
  - intros Ns. unfold started_tok. apply count_occ_not_In. intros Ix. apply in_flat_map in Ix. destruct Ix as [g [Ig Ix]].
    apply env_file_jobs_fst in Ix. cbn in Ix. subst g. contradiction.
Qed.

(* ------------------------------------------------------------------ the stats list is the list of recorded blocks *)
Definition jkey (e : qenv) (j : job) : bkey :=
  (fst j, match job_block e j with Some b => b_off b | None => 0%Z end).

Fixpoint fw_file_ok (e : qenv) (pc : fpc) : Prop :=
  match pc with
  | FIdle | FExiting | FExited => True
  | FTaken f | FEval f | FEvalSlot f | FOpening f | FOpenFailed f | FLoop f _ _ | FFilterFail f _ _ | FPruned f _ _
  | FPutBack f _ _ | FPostEval f _ | FDisp f _ | FDispRetained f _ _ | FDispSending f _ _ | FDispSpawn f _
  | FDispAborted f | FFinalRelease f => find_file (f_id f) (e_items e) = Some f
  | FUnread f _ k => find_file (f_id f) (e_items e) = Some f /\ fw_file_ok e k
  end.

Fixpoint effs_stat_keys (es : list eff) : list bkey :=
  match es with [] => [] | ECur (LRecordStat st) :: t => bs_key st :: effs_stat_keys t | _ :: t => effs_stat_keys t end.
Fixpoint effs_recs (es : list eff) : list job :=
  match es with [] => [] | ERec j :: t => j :: effs_recs t | _ :: t => effs_recs t end.

Lemma mk_unread_file_ok e f todo k : find_file (f_id f) (e_items e) = Some f -> fw_file_ok e k -> fw_file_ok e (mk_unread f todo k).
Proof. destruct todo; cbn; auto. Qed.

Lemma blk_stat_key e mk f i st :
  blk_stat mk f i = Some st -> (forall a b c d, bs_key (mk a b c d) = (a, b)) ->
  find_file (f_id f) (e_items e) = Some f -> bs_key st = jkey e (f_id f, i) /\ job_block e (f_id f, i) <> None.
Proof.
  unfold blk_stat, jkey, job_block. cbn [fst snd]. intros H K F. rewrite F.
  destruct (nth_error (f_blocks f) i); [|discriminate]. injection H as <-. rewrite K. split; [reflexivity|discriminate].
Qed.

Lemma fw_local_keys e r sd w v w' effs :
  fw_local e r sd w v = Some (w', effs) -> fw_file_ok e (fw_pc w) ->
  fw_file_ok e (fw_pc w') /\ effs_stat_keys effs = map (jkey e) (effs_recs effs) /\
  Forall (fun j => job_block e j <> None) (effs_recs effs).
Proof.
  intros H Ok. destruct w as [pc held owes]. unfold fw_local in H. cbn [fw_pc fw_held fw_owes] in *.
  destruct pc; destruct v; try discriminate H; destr_in H; injection H as <- <-;
    cbn [fw_pc fw0 fwfail fwheld fw_file_ok effs_stat_keys effs_recs map] in *;
    try (repeat split; auto; try apply mk_unread_file_ok; cbn [fw_file_ok]; tauto).
  all: try (split; [|split]; [auto | induction (all_idx f); cbn; auto | induction (all_idx f); cbn; auto]; fail).
  all: try match goal with Hf : find_file _ _ = Some _ |- _ =>
         pose proof (find_file_id _ _ _ Hf) as Hid; subst; repeat split; auto end.
  all: try match goal with Hb : blk_stat _ _ _ = Some _ |- _ =>
         first [destruct (blk_stat_key e _ _ _ _ Hb ltac:(reflexivity) ltac:(tauto)) as [K1 K2]
               |destruct (blk_stat_key e _ _ _ _ Hb ltac:(reflexivity) ltac:(assumption)) as [K1 K2]];
         repeat split; try tauto; try (apply mk_unread_file_ok; tauto); try (rewrite K1; reflexivity); try (constructor; auto) end.
Qed.

Lemma bw_local_keys e r sd w v w' effs :
  bw_local e r sd w v = Some (w', effs) ->
  effs_stat_keys effs = map (jkey e) (effs_recs effs) /\ Forall (fun j => job_block e j <> None) (effs_recs effs).
Proof.
  intros H. destruct w as [pc held owes]. unfold bw_local in H. cbn [bw_pc bw_held bw_owes] in *.
  destruct pc; destruct v; try discriminate H; destr_in H; injection H as <- <-; cbn [effs_stat_keys effs_recs map]; auto.
  split; [|constructor; [congruence|constructor]]. unfold jkey. rewrite Heqo. reflexivity.
Qed.

Lemma cursor_stats_exact fx s l s' :
  cursor_step fx s l = Some s' ->
  m_stats (c_m s') = m_stats (c_m s) ++ match l with LRecordStat st => [st] | _ => [] end.
Proof.
  intros H. destr_cur s. cbn in *.
  destruct l; step_cases H; norm_hyps; cbn in *; rewrite ?app_nil_r; auto.
Qed.

Lemma apply_effs_keys fx cap es : forall u q u' q',
  apply_effs fx cap (u, q) es = Some (u', q') ->
  map bs_key (m_stats (c_m (q_cur q'))) = map bs_key (m_stats (c_m (q_cur q))) ++ effs_stat_keys es /\
  q_recorded q' = q_recorded q ++ effs_recs es.
Proof.
  induction es as [|e t IH]; intros u q u' q' H; cbn [apply_effs] in H.
  - injection H as <- <-. cbn. rewrite !app_nil_r. auto.
  - destruct (apply_eff fx cap (u, q) e) as [[u1 q1]|] eqn:E; [|discriminate].
    destruct (IH _ _ _ _ H) as [A B]. rewrite A, B.
    destruct e; eff_cases E; cbn [effs_stat_keys effs_recs set_cur set_pool set_fjobs set_bjobs set_fws set_bws add_survived add_started add_recorded q_cur q_recorded];
      rewrite ?app_nil_r; auto.
    + rewrite (cursor_stats_exact _ _ _ _ Heqo). destruct l; cbn [map]; rewrite ?app_nil_r, ?map_app; cbn [map]; rewrite <- ?app_assoc; auto.
    + rewrite <- app_assoc. auto.
Qed.

Record linv (q : qstate) : Prop := {
  li_keys : map bs_key (m_stats (c_m (q_cur q))) = map (jkey (q_env q)) (q_recorded q);
  li_valid : Forall (fun j => job_block (q_env q) j <> None) (q_recorded q);
  li_files : Forall (fun w => fw_file_ok (q_env q) (fw_pc w)) (q_fws q)
}.

Lemma linv_init e k : linv (qinit e k).
Proof. constructor; cbn; auto. Qed.

Lemma Forall_nth_own {A} (P : A -> Prop) l i x : Forall P l -> nth_error l i = Some x -> P x.
Proof. intros F N. rewrite Forall_forall in F. apply F. eapply nth_error_In; eassumption. Qed.

Lemma Forall_app_repeat {A} (P : A -> Prop) l x n : Forall P l -> P x -> Forall P (l ++ repeat x n).
Proof. intros F Px. apply Forall_app. split; auto. induction n; constructor; auto. Qed.

Lemma linv_act fx cap u q a v u' q' : linv q -> act_step fx cap u q a v = Some (u', q') -> linv q'.
Proof.
  intros [K V Fl] H. unfold act_step in H.
  assert (G : forall q1 effs, apply_effs fx cap (u, q1) effs = Some (u', q') ->
              q_env q1 = q_env q -> q_cur q1 = q_cur q -> q_recorded q1 = q_recorded q ->
              effs_stat_keys effs = map (jkey (q_env q)) (effs_recs effs) ->
              Forall (fun j => job_block (q_env q) j <> None) (effs_recs effs) ->
              map bs_key (m_stats (c_m (q_cur q'))) = map (jkey (q_env q')) (q_recorded q') /\
              Forall (fun j => job_block (q_env q') j <> None) (q_recorded q') /\ q_env q' = q_env q).
  { intros q1 effs Ha E1 E2 E3 Ek Ev. destruct (apply_effs_keys _ _ _ _ _ _ _ Ha) as [A B].
    destruct (apply_effs_frame _ _ _ _ _ _ _ Ha) as [F1 _]. rewrite F1, E1, A, B, E2, E3, K, Ek, map_app.
    repeat split; auto. apply Forall_app. split; auto. }
  destruct a.
  - destruct (fs_local cap (length (q_fws q)) (q_fs q) v) as [[pc effs]|] eqn:S; [|discriminate].
    assert (Ek : effs_stat_keys effs = [] /\ effs_recs effs = []).
    { unfold fs_local in S. destruct (q_fs q); destruct v; try discriminate S; destr_in S; injection S as <- <-; cbn; auto. }
    destruct Ek as [Ek1 Ek2].
    destruct (G _ _ H eq_refl eq_refl eq_refl) as [A [B C]]; [rewrite Ek1, Ek2; reflexivity|rewrite Ek2; constructor|].
    constructor; auto. destruct (apply_effs_frame _ _ _ _ _ _ _ H) as [_ [_ [_ [F4 _]]]]. rewrite F4, C. cbn [set_fs q_fws].
    apply Forall_app_repeat; [assumption|exact I].
  - destruct (nth_error (q_fws q) i) as [w|] eqn:Nw; [|discriminate].
    destruct (fw_step (q_env q) (2 * i) i w v) as [[w' effs]|] eqn:S; [|discriminate].
    pose proof (Forall_nth_own _ _ _ _ Fl Nw) as Okw.
    assert (Ek : fw_file_ok (q_env q) (fw_pc w') /\ effs_stat_keys effs = map (jkey (q_env q)) (effs_recs effs) /\
                 Forall (fun j => job_block (q_env q) j <> None) (effs_recs effs)).
    { unfold fw_step in S. destruct v; try (destruct (fw_local _ _ _ w _) as [[w1 e1]|] eqn:L; [|discriminate]; injection S as <- <-;
        destruct (fw_local_keys _ _ _ _ _ _ _ L Okw) as [X1 [X2 X3]]; destruct (fw_owes w); cbn [effs_stat_keys effs_recs]; auto; fail).
      destruct (fw_owes w); [|discriminate]. injection S as <- <-. cbn. auto. }
    destruct Ek as [Ek0 [Ek1 Ek2]].
    destruct (G _ _ H eq_refl eq_refl eq_refl Ek1 Ek2) as [A [B C]].
    constructor; auto. destruct (apply_effs_frame _ _ _ _ _ _ _ H) as [_ [_ [_ [F4 _]]]]. rewrite F4, C. cbn [set_fws q_fws].
    apply Forall_app_repeat; [apply Forall_set_nth; assumption|exact I].
  - destruct (nth_error (q_bws q) j) as [w|] eqn:Nw; [|discriminate].
    destruct (bw_step (q_env q) (2 * j + 1) j w v) as [[w' effs]|] eqn:S; [|discriminate].
    assert (Ek : effs_stat_keys effs = map (jkey (q_env q)) (effs_recs effs) /\
                 Forall (fun j => job_block (q_env q) j <> None) (effs_recs effs)).
    { unfold bw_step in S. destruct v; try (destruct (bw_local _ _ _ w _) as [[w1 e1]|] eqn:L; [|discriminate]; injection S as <- <-;
        destruct (bw_local_keys _ _ _ _ _ _ _ L) as [X2 X3]; destruct (bw_owes w); cbn [effs_stat_keys effs_recs]; auto; fail).
      destruct (bw_owes w); [|discriminate]. injection S as <- <-. cbn. auto. }
    destruct Ek as [Ek1 Ek2].
    destruct (G _ _ H eq_refl eq_refl eq_refl Ek1 Ek2) as [A [B C]].
    constructor; auto. destruct (apply_effs_frame _ _ _ _ _ _ _ H) as [_ [_ [_ [F4 _]]]]. rewrite F4, C. cbn [set_bws q_fws].
    apply Forall_app_repeat; [assumption|exact I].
  - destruct (td_local (q_td q) v) as [[pc effs]|] eqn:S; [|discriminate].
    assert (Ek : effs_stat_keys effs = [] /\ effs_recs effs = []).
    { destruct (q_td q); destruct v; try discriminate S; injection S as <- <-; cbn; auto. }
    destruct Ek as [Ek1 Ek2].
    destruct (G _ _ H eq_refl eq_refl eq_refl) as [A [B C]]; [rewrite Ek1, Ek2; reflexivity|rewrite Ek2; constructor|].
    constructor; auto. destruct (apply_effs_frame _ _ _ _ _ _ _ H) as [_ [_ [_ [F4 _]]]]. rewrite F4, C. cbn [set_td q_fws].
    apply Forall_app_repeat; [assumption|exact I].
Qed.

Theorem reachable_linv fx cap es s q : reachable fx cap es s -> In q (g_qs s) -> linv q.
Proof.
  intros R. revert q. induction R as [|s l s' R IH H]; intros q I.
  - cbn in I. apply in_map_iff in I. destruct I as [ec [<- _]]. apply linv_init.
  - destruct l as [qi a v|qi cl]; cbn in H.
    + destruct (nth_error (g_qs s) qi) as [q0|] eqn:N; [|discriminate].
      destruct (act_step fx (g_cap s) (g_used s) q0 a v) as [[u' q']|] eqn:A; [|discriminate]. injection H as <-. cbn in I.
      apply In_nth_error in I. destruct I as [k Hk]. rewrite nth_error_set_nth in Hk.
      destruct (Nat.eqb_spec qi k).
      * rewrite N in Hk. injection Hk as <-. eapply linv_act; [|exact A]. apply IH. eapply nth_error_In; eassumption.
      * apply IH. eapply nth_error_In; eassumption.
    + destruct (external_label cl) eqn:E; [|discriminate].
      destruct (nth_error (g_qs s) qi) as [q0|] eqn:N; [|discriminate].
      destruct (cursor_step fx (q_cur q0) cl) as [c|] eqn:A; [|discriminate]. injection H as <-. cbn in I.
      apply In_nth_error in I. destruct I as [k Hk]. rewrite nth_error_set_nth in Hk.
      destruct (Nat.eqb_spec qi k).
      * rewrite N in Hk. injection Hk as <-.
        assert (I0 : In q0 (g_qs s)) by (eapply nth_error_In; eassumption). destruct (IH _ I0) as [K V Fl].
        constructor; cbn; auto. rewrite (cursor_stats_exact _ _ _ _ A). destruct cl; try discriminate E; rewrite app_nil_r; exact K.
      * apply IH. eapply nth_error_In; eassumption.
Qed.

(* ------------------------------------------------------------------ C23_once on the Stats list itself *)
Definition offsets_distinct (e : qenv) : Prop :=
  forall f fe, find_file f (e_items e) = Some fe -> NoDup (map b_off (f_blocks fe)).

Lemma jkey_inj e j1 j2 :
  offsets_distinct e -> job_block e j1 <> None -> job_block e j2 <> None -> jkey e j1 = jkey e j2 -> j1 = j2.
Proof.
  unfold jkey, job_block. destruct j1 as [f1 i1], j2 as [f2 i2]. cbn [fst snd]. intros D V1 V2 K.
  injection K as Kf Ko. subst f2. destruct (find_file f1 (e_items e)) as [fe|] eqn:Ff; [|contradiction].
  destruct (nth_error (f_blocks fe) i1) as [b1|] eqn:N1; [|contradiction].
  destruct (nth_error (f_blocks fe) i2) as [b2|] eqn:N2; [|contradiction].
  f_equal. specialize (D _ _ Ff). rewrite NoDup_nth_error in D. apply D.
  - rewrite map_length. apply nth_error_Some. rewrite N1. discriminate.
  - rewrite !nth_error_map, N1, N2. cbn. congruence.
Qed.

Lemma NoDup_map_inj_on {A B} (f : A -> B) l :
  (forall x y, In x l -> In y l -> f x = f y -> x = y) -> NoDup l -> NoDup (map f l).
Proof.
  induction l as [|a t IH]; intros Inj N; [constructor|]. inversion N as [|? ? Na Nt]; subst. cbn. constructor.
  - intros I. apply in_map_iff in I. destruct I as [y [Ey Iy]]. apply Na. rewrite <- (Inj y a); auto; [right; auto|left; auto].
  - apply IH; auto. intros x y Ix Iy. apply Inj; right; auto.
Qed.

Lemma keys_nodup_spec l : keys_nodup l = true <-> NoDup (map bs_key l).
Proof.
  induction l as [|b t IH]; cbn; [split; auto; constructor|].
  rewrite andb_true_iff, negb_true_iff, IH. split.
  - intros [H1 H2]. constructor; auto. intros I. apply in_map_iff in I. destruct I as [c [Ec Ic]].
    assert (has_key (bs_key b) t = true); [|congruence]. unfold has_key. apply existsb_exists. exists c. split; auto.
    unfold bkey_eqb. rewrite Ec, !Z.eqb_refl. reflexivity.
  - intros N. inversion N as [|? ? Na Nt]; subst. split; auto. destruct (has_key (bs_key b) t) eqn:E; auto. exfalso. apply Na.
    unfold has_key in E. apply existsb_exists in E. destruct E as [c [Ic Ec]]. apply in_map_iff. exists c. split; auto.
    unfold bkey_eqb in Ec. apply andb_prop in Ec. destruct Ec as [E1 E2]. apply Z.eqb_eq in E1. apply Z.eqb_eq in E2.
    destruct (bs_key c), (bs_key b); cbn in *; congruence.
Qed.

(* the MetaStore yields each file once, block offsets within a file are distinct: no block twice in BlockStats,
   in every reachable state, whatever was cancelled, closed or failed *)
Theorem stats_once fx cap es s q :
  Forall (fun ec => NoDup (item_ids (e_items (fst ec)))) es ->
  reachable fx cap es s -> In q (g_qs s) -> offsets_distinct (q_env q) ->
  keys_nodup (m_stats (c_m (q_cur q))) = true.
Proof.
  intros P R I D. apply keys_nodup_spec. destruct (reachable_linv _ _ _ _ _ R I) as [K V _]. rewrite K.
  apply NoDup_map_inj_on; [|exact (recorded_once _ _ _ _ _ P R I)].
  rewrite Forall_forall in V. intros x y Ix Iy. apply jkey_inj; auto.
Qed.

(* the Stats list is, key for key, the list of recorded blocks *)
Theorem stats_are_recorded fx cap es s q :
  reachable fx cap es s -> In q (g_qs s) ->
  map bs_key (m_stats (c_m (q_cur q))) = map (jkey (q_env q)) (q_recorded q) /\
  Forall (fun j => job_block (q_env q) j <> None) (q_recorded q).
Proof. intros R I. destruct (reachable_linv _ _ _ _ _ R I) as [K V _]. auto. Qed.

Theorem block_conservation fx cap es s q :
  reachable fx cap es s -> In q (g_qs s) ->
  (forall x, total_tok q x <= jc (started_tok q) x) /\
  (not_cancelled q = true -> forall x, total_tok q x = jc (started_tok q) x).
Proof. intros R I. destruct (reachable_tinv _ _ _ _ _ R I). auto. Qed.
