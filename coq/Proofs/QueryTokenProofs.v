(* The composed pipeline, part 3: every block of a file handed to the pipeline is in exactly one place
   (a job channel, a worker's hands, or recorded in the stats) at most once - and, as long as the query's
   context is not cancelled, exactly once. *)
From BS Require Import Model.Stats Model.Cursor Model.HandlePool Model.QueryLTS
                       Proofs.CursorProofs Proofs.HandlePoolProofs Proofs.QueryLTSProofs Proofs.QueryInvProofs.
From Coq Require Import List ZArith Bool Arith Lia Permutation.
Import ListNotations.

Definition job_dec : forall a b : job, {a = b} + {a <> b}.
Proof. decide equality; [apply Nat.eq_dec|apply Z.eq_dec]. Defined.

Notation jc := (count_occ job_dec).

Lemma jc_app a b x : jc (a ++ b) x = jc a x + jc b x.
Proof. apply count_occ_app. Qed.
Lemma jc_cons j l x : jc (j :: l) x = (if job_dec j x then 1 else 0) + jc l x.
Proof. change (jc (j :: l) x) with (if job_dec j x then S (jc l x) else jc l x). destruct (job_dec j x); reflexivity. Qed.
Lemma jc_nil x : jc [] x = 0.
Proof. reflexivity. Qed.

Definition idx_jobs (f : fileenv) (l : list nat) : list job := map (fun i => (f_id f, i)) l.
Definition file_jobs (f : fileenv) : list job := idx_jobs f (all_idx f).

Lemma idx_jobs_app f a b : idx_jobs f (a ++ b) = idx_jobs f a ++ idx_jobs f b.
Proof. apply map_app. Qed.
Lemma idx_jobs_cons f i l : idx_jobs f (i :: l) = (f_id f, i) :: idx_jobs f l.
Proof. reflexivity. Qed.
Lemma idx_jobs_nil f : idx_jobs f [] = [].
Proof. reflexivity. Qed.

Lemma seq_head i n : i < n -> seq i (n - i) = i :: seq (S i) (n - S i).
Proof. intros H. replace (n - i) with (S (n - S i)) by lia. reflexivity. Qed.

Lemma seq_end n : seq n (n - n) = [].
Proof. rewrite Nat.sub_diag. reflexivity. Qed.

(* blocks in a file worker's hands: not yet recorded, not yet handed on *)
Fixpoint tok_fpc (pc : fpc) : list job :=
  match pc with
  | FTaken f | FEval f | FEvalSlot f | FOpening f | FOpenFailed f => file_jobs f
  | FLoop f i sv | FFilterFail f i sv | FPruned f i sv => idx_jobs f (sv ++ seq i (length (f_blocks f) - i))
  | FUnread f todo k => idx_jobs f todo ++ tok_fpc k
  | FPutBack f _ sv | FPostEval f sv | FDisp f sv | FDispSpawn f sv | FDispSending f _ sv => idx_jobs f sv
  | FDispRetained f i sv => idx_jobs f (i :: sv)
  | _ => []
  end.

Definition tok_bpc (pc : bpc) : list job :=
  match pc with
  | BTaken j | BAcq j | BOpening j | BOpenFailed j | BRead j | BReadFailed j | BScan j _ _ | BDeliv j _ _ _ _
  | BDelivFailed j _ | BEnding j _ _ | BEnded j _ _ => [j]
  | _ => []
  end.

Definition env_file_jobs (e : qenv) (f : fileid) : list job :=
  match find_file f (e_items e) with Some fe => file_jobs fe | None => [] end.

(* tokens an effect puts into / takes out of the shared places *)
Definition eff_gain (e : qenv) (ef : eff) : list job :=
  match ef with EFTry f => env_file_jobs e f | EBTry _ j => [j] | ERec j => [j] | _ => [] end.
Definition eff_take (e : qenv) (ef : eff) : list job :=
  match ef with EFTake f => env_file_jobs e f | EBTake j => [j] | _ => [] end.
Definition effs_gain (e : qenv) (es : list eff) : list job := flat_map (eff_gain e) es.
Definition effs_take (e : qenv) (es : list eff) : list job := flat_map (eff_take e) es.
Definition needs_int (es : list eff) : bool := existsb (fun ef => match ef with ENeedInt => true | _ => false end) es.

Lemma find_file_id f l fe : find_file f l = Some fe -> f_id fe = f.
Proof.
  induction l as [|it t IH]; cbn; [discriminate|]. destruct it; auto.
  destruct (Z.eqb_spec (f_id f0) f); auto. intros H. injection H as <-. assumption.
Qed.

Lemma mk_unread_tok f todo k : tok_fpc (mk_unread f todo k) = idx_jobs f todo ++ tok_fpc k.
Proof. destruct todo; reflexivity. Qed.

Lemma survive_gain e (g : nat -> job) l : effs_gain e (map (fun i => ESurvive (g i)) l) = [] /\ effs_take e (map (fun i => ESurvive (g i)) l) = [] /\ needs_int (map (fun i => ESurvive (g i)) l) = false.
Proof. induction l; cbn; auto. Qed.

Ltac tok_norm :=
  repeat rewrite ?mk_unread_tok, ?idx_jobs_app, ?idx_jobs_cons, ?idx_jobs_nil, ?jc_app, ?jc_cons, ?jc_nil, ?app_nil_r in *.

Lemma survive_gain1 e (a : fileid) l : flat_map (eff_gain e) (map (fun i : nat => ESurvive (a, i)) l) = [].
Proof. induction l; cbn; auto. Qed.
Lemma survive_gain2 e (a : fileid) l : flat_map (eff_take e) (map (fun i : nat => ESurvive (a, i)) l) = [].
Proof. induction l; cbn; auto. Qed.
Lemma survive_gain3 (a : fileid) l : needs_int (map (fun i : nat => ESurvive (a, i)) l) = false.
Proof. induction l; cbn; auto. Qed.

Ltac guard_facts :=
  repeat match goal with
  | H : _ && _ = true |- _ => apply andb_prop in H; destruct H
  | H : (_ =? _)%nat = true |- _ => apply Nat.eqb_eq in H; subst
  | H : (_ <? _)%nat = true |- _ => apply Nat.ltb_lt in H
  | H : (_ =? _)%Z = true |- _ => apply Z.eqb_eq in H
  end.

Ltac tok_finish :=
  unfold file_jobs, all_idx, env_file_jobs in *;
  repeat match goal with
  | H : find_file _ _ = Some _ |- _ => rewrite H in *; clear H
  end;
  unfold file_jobs, all_idx in *;
  rewrite ?survive_gain1, ?survive_gain2, ?survive_gain3 in *;
  tok_norm; cbn [tok_fpc] in *; tok_norm;
  repeat match goal with
  | H : ?i < length ?l |- context [seq ?i (length ?l - ?i)] => rewrite (seq_head i (length l) H)
  | |- context [seq ?n (?n - ?n)] => rewrite (seq_end n)
  | |- context [?n - 0] => rewrite (Nat.sub_0_r n)
  end;
  tok_norm; repeat match goal with |- context [job_dec ?a ?b] => destruct (job_dec a b) end; try lia.

Lemma fw_local_tokens e r sd w v w' effs x :
  fw_local e r sd w v = Some (w', effs) -> fw_wf_pc (fw_pc w) ->
  jc (tok_fpc (fw_pc w')) x + jc (effs_gain e effs) x <= jc (tok_fpc (fw_pc w)) x + jc (effs_take e effs) x /\
  (needs_int effs = false ->
   jc (tok_fpc (fw_pc w')) x + jc (effs_gain e effs) x = jc (tok_fpc (fw_pc w)) x + jc (effs_take e effs) x).
Proof.
  intros H Hw. destruct w as [pc held owes]. unfold fw_local in H. cbn [fw_pc fw_held fw_owes] in *.
  destruct pc; destruct v; try discriminate H; destr_in H; injection H as <- <-; guard_facts; cbn [fw_wf_pc] in Hw;
    unfold fw0, fwfail, fwheld, effs_gain, effs_take; cbn [fw_pc flat_map eff_gain eff_take tok_fpc needs_int existsb orb app];
    (split; [|intros; try discriminate]); tok_finish.
Qed.
