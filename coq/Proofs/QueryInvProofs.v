(* The composed pipeline, part 2: the per-query invariant and the global semaphore accounting. *)
From BS Require Import Model.Stats Model.Cursor Model.HandlePool Model.QueryLTS
                       Proofs.CursorProofs Proofs.HandlePoolProofs Proofs.QueryLTSProofs.
From Coq Require Import List ZArith Bool Arith Lia Permutation.
Import ListNotations.

Definition sum_fw (l : list fwst) : Z := fold_right (fun w a => (b2z (fw_in_io w) + a)%Z) 0%Z l.
Definition sum_bw (l : list bwst) : Z := fold_right (fun w a => (b2z (bw_in_io w) + a)%Z) 0%Z l.

Lemma sum_fw_cons w l : sum_fw (w :: l) = (b2z (fw_in_io w) + sum_fw l)%Z.
Proof. reflexivity. Qed.
Lemma sum_bw_cons w l : sum_bw (w :: l) = (b2z (bw_in_io w) + sum_bw l)%Z.
Proof. reflexivity. Qed.
Lemma sum_fw_app a b : sum_fw (a ++ b) = (sum_fw a + sum_fw b)%Z.
Proof. induction a; [reflexivity|]. rewrite <- app_comm_cons, !sum_fw_cons, IHa. lia. Qed.
Lemma sum_bw_app a b : sum_bw (a ++ b) = (sum_bw a + sum_bw b)%Z.
Proof. induction a; [reflexivity|]. rewrite <- app_comm_cons, !sum_bw_cons, IHa. lia. Qed.
Lemma sum_fw_new n : sum_fw (repeat new_fw n) = 0%Z.
Proof. induction n; cbn; auto. Qed.
Lemma sum_bw_new n : sum_bw (repeat new_bw n) = 0%Z.
Proof. induction n; cbn; auto. Qed.

Lemma sum_fw_set i w w' l : nth_error l i = Some w ->
  sum_fw (set_nth i w' l) = (sum_fw l - b2z (fw_in_io w) + b2z (fw_in_io w'))%Z.
Proof.
  revert i. induction l as [|a t IH]; intros i H; destruct i; cbn [nth_error set_nth] in *; try discriminate.
  - injection H as ->. rewrite !sum_fw_cons. lia.
  - rewrite !sum_fw_cons, (IH _ H). lia.
Qed.
Lemma sum_bw_set i w w' l : nth_error l i = Some w ->
  sum_bw (set_nth i w' l) = (sum_bw l - b2z (bw_in_io w) + b2z (bw_in_io w'))%Z.
Proof.
  revert i. induction l as [|a t IH]; intros i H; destruct i; cbn [nth_error set_nth] in *; try discriminate.
  - injection H as ->. rewrite !sum_bw_cons. lia.
  - rewrite !sum_bw_cons, (IH _ H). lia.
Qed.

Lemma filter_new_fw n : filter fw_held (repeat new_fw n) = [].
Proof. induction n; cbn; auto. Qed.
Lemma filter_new_bw n : filter bw_held (repeat new_bw n) = [].
Proof. induction n; cbn; auto. Qed.

Arguments sum_fw : simpl never.
Arguments sum_bw : simpl never.
Arguments plen : simpl never.

Definition td_rank (t : tdpc) : nat :=
  match t with TWaitFiles => 0 | TWaitBlocks => 1 | TCloseAll => 2 | TMark => 3 | TDone => 4 end.

Definition fw_good (w : fwst) : Prop := fw_held w = fw_slot_pc (fw_pc w) /\ fw_wf_pc (fw_pc w).

Record qinv (fx : bool) (cap : nat) (q : qstate) : Prop := {
  qi_cur : creachable fx (q_cur q);
  qi_pool : preachable (q_pool q);
  qi_fw : Forall fw_good (q_fws q);
  qi_bw : Forall bw_ok (q_bws q);
  (* teardown order: past the first wait the file stage and every file worker have exited ... *)
  qi_files_done : q_td q <> TWaitFiles -> fs_exited q = true /\ forallb fw_exited (q_fws q) = true;
  (* ... past the second, every block worker *)
  qi_blocks_done : td_rank (q_td q) >= 2 -> forallb bw_exited (q_bws q) = true;
  (* the cursor's channels close exactly when the teardown goroutine is through *)
  qi_finished : m_finished (c_m (q_cur q)) = true <-> q_td q = TDone;
  qi_closed : td_rank (q_td q) >= 3 -> p_closed (q_pool q) = true;
  (* handles checked out (or being opened) = workers inside their I/O section *)
  qi_plen : plen (q_pool q) = (sum_fw (q_fws q) + sum_bw (q_bws q))%Z;
  qi_nfw : length (q_fws q) <= cap;
  qi_nbw : length (q_bws q) <= cap
}.

Lemma qinv_init fx cap e k : qinv fx cap (qinit e k).
Proof.
  constructor; cbn; try (constructor; fail); try lia; auto; try congruence.
  split; intros H; discriminate.
Qed.

Lemma apply_effs_spawn_bound fx cap es : forall u q u' q',
  apply_effs fx cap (u, q) es = Some (u', q') ->
  (length (q_fws q) <= cap -> length (q_fws q') <= cap) /\ (length (q_bws q) <= cap -> length (q_bws q') <= cap).
Proof.
  induction es as [|e t IH]; intros u q u' q' H; cbn [apply_effs] in H.
  - injection H as <- <-. auto.
  - destruct (apply_eff fx cap (u, q) e) as [[u1 q1]|] eqn:E; [|discriminate].
    destruct (IH _ _ _ _ H) as [A B].
    assert ((length (q_fws q) <= cap -> length (q_fws q1) <= cap) /\ (length (q_bws q) <= cap -> length (q_bws q1) <= cap)) as [A1 B1].
    { destruct e; eff_cases E; cbn; auto; split; auto; intros _; rewrite app_length; cbn; apply Nat.ltb_lt in Heqb; lia. }
    auto.
Qed.

Lemma forallb_app_new_fw l n : forallb fw_exited (l ++ repeat new_fw n) = true -> n = 0.
Proof. destruct n; auto. rewrite forallb_app. cbn. rewrite andb_false_r. discriminate. Qed.

Lemma q_slots_eq q : q_slots q = length (filter fw_held (q_fws q)) + length (filter bw_held (q_bws q)).
Proof. reflexivity. Qed.

Lemma forallb_app_new_bw l n : forallb bw_exited (l ++ repeat new_bw n) = true -> n = 0.
Proof. destruct n; auto. rewrite forallb_app. cbn. rewrite andb_false_r. discriminate. Qed.

Lemma Forall_app_new_fw l n : Forall fw_good l -> Forall fw_good (l ++ repeat new_fw n).
Proof. intros F. apply Forall_app. split; auto. induction n; constructor; auto. split; cbn; auto. Qed.

Lemma Forall_app_new_bw l n : Forall bw_ok l -> Forall bw_ok (l ++ repeat new_bw n).
Proof. intros F. apply Forall_app. split; auto. induction n; constructor; auto. split; cbn; auto; discriminate. Qed.

Lemma Forall_nth {A} (P : A -> Prop) l i x : Forall P l -> nth_error l i = Some x -> P x.
Proof. intros F N. rewrite Forall_forall in F. apply F. eapply nth_error_In; eassumption. Qed.

Lemma fw_exited_pc w : fw_exited w = true <-> fw_pc w = FExited.
Proof. unfold fw_exited. destruct (fw_pc w); split; intros; try discriminate; auto. Qed.
Lemma bw_exited_pc w : bw_exited w = true <-> bw_pc w = BExited.
Proof. unfold bw_exited. destruct (bw_pc w); split; intros; try discriminate; auto. Qed.

(* a file worker's step *)
Lemma fw_act_inv fx cap u q i v u' q' :
  qinv fx cap q -> act_step fx cap u q (AFw i) v = Some (u', q') ->
  qinv fx cap q' /\ u' + q_slots q = u + q_slots q' /\ (u <= cap -> u' <= cap).
Proof.
  intros I H. destruct I. unfold act_step in H.
  destruct (nth_error (q_fws q) i) as [w|] eqn:N; [|discriminate].
  destruct (fw_step (q_env q) (2 * i) i w v) as [[w' effs]|] eqn:S; [|discriminate].
  destruct (Forall_nth _ _ _ _ qi_fw0 N) as [G1 G2].
  destruct (fw_step_spec _ _ _ _ _ _ _ S G1 G2) as [A1 [A2 [A3 [A4 [A5 [A6 [A7 A8]]]]]]].
  set (q1 := set_fws q (set_nth i w' (q_fws q))) in *.
  destruct (apply_effs_frame _ _ _ _ _ _ _ H) as [F1 [F2 [F3 [F4 [F5 [F6 F7]]]]]].
  destruct (apply_effs_components _ _ _ _ _ _ _ H) as [C1 C2].
  destruct (apply_effs_plain _ _ _ _ _ _ _ H A8) as [P1 P2].
  pose proof (apply_effs_plen _ _ _ _ _ _ _ H) as PL.
  destruct (apply_effs_spawn_bound _ _ _ _ _ _ _ H) as [SB1 SB2].
  cbn [q1 set_fws q_env q_fs q_td q_fws q_bws q_cur q_pool] in *.
  rewrite A5 in F4. cbn [repeat] in F4. rewrite app_nil_r in F4.
  split; [|split].
  - constructor.
    + auto.
    + auto.
    + rewrite F4. apply Forall_set_nth; [assumption|split; assumption].
    + rewrite F5. apply Forall_app_new_bw. assumption.
    + rewrite F3, F4. intros T. destruct (qi_files_done0 T) as [E1 E2]. unfold fs_exited in *. rewrite F2. split; [exact E1|].
      apply forallb_set_nth; [exact E2|]. apply fw_exited_pc. apply A4. apply fw_exited_pc. eapply forallb_nth; eassumption.
    + rewrite F3, F5. intros T. assert (Tf : q_td q <> TWaitFiles) by (intros Eq; rewrite Eq in T; cbn in T; lia).
      destruct (qi_files_done0 Tf) as [_ E2].
      assert (X : fw_pc w = FExited) by (apply fw_exited_pc; eapply forallb_nth; eassumption).
      destruct (A4 X) as [_ Z0]. rewrite Z0. cbn. rewrite app_nil_r. auto.
    + rewrite P1, F3. exact qi_finished0.
    + rewrite F3. intros T. apply P2. auto.
    + rewrite PL, F4, F5, sum_bw_app, sum_bw_new, (sum_fw_set _ _ _ _ N). cbn [q_pool q1 set_fws]. rewrite qi_plen0. lia.
    + rewrite F4, set_nth_length. assumption.
    + apply SB2. assumption.
  - rewrite !q_slots_eq, F4, F5, filter_app, filter_new_bw, app_nil_r.
    pose proof (filter_set_nth fw_held i w' w _ N). lia.
  - exact F7.
Qed.

(* a block worker's step *)
Lemma bw_act_inv fx cap u q j v u' q' :
  qinv fx cap q -> act_step fx cap u q (ABw j) v = Some (u', q') ->
  qinv fx cap q' /\ u' + q_slots q = u + q_slots q' /\ (u <= cap -> u' <= cap).
Proof.
  intros I H. destruct I. unfold act_step in H.
  destruct (nth_error (q_bws q) j) as [w|] eqn:N; [|discriminate].
  destruct (bw_step (q_env q) (2 * j + 1) j w v) as [[w' effs]|] eqn:S; [|discriminate].
  pose proof (Forall_nth _ _ _ _ qi_bw0 N) as G.
  destruct (bw_step_spec _ _ _ _ _ _ _ S G) as [A1 [A3 [A4 [A5 [A6 [A7 A8]]]]]].
  set (q1 := set_bws q (set_nth j w' (q_bws q))) in *.
  destruct (apply_effs_frame _ _ _ _ _ _ _ H) as [F1 [F2 [F3 [F4 [F5 [F6 F7]]]]]].
  destruct (apply_effs_components _ _ _ _ _ _ _ H) as [C1 C2].
  destruct (apply_effs_plain _ _ _ _ _ _ _ H A8) as [P1 P2].
  pose proof (apply_effs_plen _ _ _ _ _ _ _ H) as PL.
  cbn [q1 set_bws q_env q_fs q_td q_fws q_bws q_cur q_pool] in *.
  rewrite A5 in F4. rewrite A6 in F5. cbn [repeat] in F4, F5. rewrite app_nil_r in F4, F5.
  split; [|split].
  - constructor.
    + auto.
    + auto.
    + rewrite F4. assumption.
    + rewrite F5. apply Forall_set_nth; assumption.
    + rewrite F3, F4. unfold fs_exited in *. rewrite F2. exact qi_files_done0.
    + rewrite F3, F5. intros T. apply forallb_set_nth; [auto|].
      apply bw_exited_pc. apply A4. apply bw_exited_pc. eapply forallb_nth; [apply qi_blocks_done0; exact T|eassumption].
    + rewrite P1, F3. exact qi_finished0.
    + rewrite F3. intros T. apply P2. auto.
    + rewrite PL, F4, F5, (sum_bw_set _ _ _ _ N). cbn [q_pool q1 set_bws]. rewrite qi_plen0. lia.
    + rewrite F4. assumption.
    + rewrite F5, set_nth_length. assumption.
  - rewrite !q_slots_eq, F4, F5.
    pose proof (filter_set_nth bw_held j w' w _ N). lia.
  - exact F7.
Qed.

(* the file stage's step *)
Lemma fs_act_inv fx cap u q v u' q' :
  qinv fx cap q -> act_step fx cap u q AFs v = Some (u', q') ->
  qinv fx cap q' /\ u' + q_slots q = u + q_slots q' /\ (u <= cap -> u' <= cap).
Proof.
  intros I H. destruct I. unfold act_step in H.
  destruct (fs_local cap (length (q_fws q)) (q_fs q) v) as [[pc effs]|] eqn:S; [|discriminate].
  destruct (fs_local_spec _ _ _ _ _ _ S) as [A0 [A1 [A2 [A3 [A4 [A5 A8]]]]]].
  set (q1 := set_fs q pc) in *.
  destruct (apply_effs_frame _ _ _ _ _ _ _ H) as [F1 [F2 [F3 [F4 [F5 [F6 F7]]]]]].
  destruct (apply_effs_components _ _ _ _ _ _ _ H) as [C1 C2].
  destruct (apply_effs_plain _ _ _ _ _ _ _ H A8) as [P1 P2].
  pose proof (apply_effs_plen _ _ _ _ _ _ _ H) as PL.
  destruct (apply_effs_spawn_bound _ _ _ _ _ _ _ H) as [SB1 SB2].
  cbn [q1 set_fs q_env q_fs q_td q_fws q_bws q_cur q_pool] in *.
  rewrite A3 in F5. cbn [repeat] in F5. rewrite app_nil_r in F5.
  assert (TW : q_td q = TWaitFiles).
  { destruct (q_td q) eqn:T; auto; exfalso;
      (assert (Tn : q_td q <> TWaitFiles) by (rewrite T; discriminate)); rewrite <- T in *;
      destruct (qi_files_done0 Tn) as [E _]; unfold fs_exited in E; destruct (q_fs q); try discriminate; apply A0; reflexivity. }
  split; [|split].
  - constructor.
    + auto.
    + auto.
    + rewrite F4. apply Forall_app_new_fw. assumption.
    + rewrite F5. assumption.
    + rewrite F3, TW. intros T. exfalso. apply T. reflexivity.
    + rewrite F3, TW. cbn. lia.
    + rewrite P1, F3. exact qi_finished0.
    + rewrite F3, TW. cbn. lia.
    + rewrite PL, F4, F5, sum_fw_app, sum_fw_new. cbn [q_pool q1 set_fs]. rewrite qi_plen0. lia.
    + apply SB1. assumption.
    + rewrite F5. assumption.
  - rewrite !q_slots_eq, F4, F5, filter_app, filter_new_fw, app_nil_r. lia.
  - exact F7.
Qed.

Lemma cursor_workersdone fx s s' : cursor_step fx s LWorkersDone = Some s' -> m_finished (c_m s') = true /\ m_finished (c_m s) = false.
Proof. intros H. destr_cur s. step_cases H. norm_hyps. cbn. auto. Qed.

(* the teardown goroutine's step *)
Lemma td_act_inv fx cap u q v u' q' :
  qinv fx cap q -> act_step fx cap u q ATd v = Some (u', q') ->
  qinv fx cap q' /\ u' + q_slots q = u + q_slots q' /\ (u <= cap -> u' <= cap).
Proof.
  intros I H. destruct I. unfold act_step in H.
  destruct (td_local (q_td q) v) as [[pc effs]|] eqn:S; [|discriminate].
  destruct (td_local_spec _ _ _ _ S) as [_ [_ [_ [_ [_ M]]]]].
  assert (NF : q_td q <> TDone -> m_finished (c_m (q_cur q)) = false).
  { intros T. destruct (m_finished (c_m (q_cur q))) eqn:E; auto. exfalso. apply T. apply qi_finished0. reflexivity. }
  destruct (q_td q) eqn:T; destruct pc; try contradiction; subst effs; cbn [apply_effs] in H.
  - (* files done *)
    destruct (apply_eff fx cap (u, set_td q TWaitBlocks) ENeedFilesDone) as [[u1 q1]|] eqn:E1; [|discriminate].
    destruct (apply_eff fx cap (u1, q1) EBClose) as [[u2 q2]|] eqn:E2; [|discriminate]. injection H as <- <-.
    eff_cases E1. eff_cases E2. cbn [set_td set_bjobs q_fs q_fws fs_exited] in *. norm_hyps.
    split; [|split; auto].
    constructor; cbn; auto; try lia; try discriminate.
    all: try (split; intros X; [rewrite NF in X by discriminate|]; discriminate).
    all: try (intros _; split; assumption).
  - (* blocks done *)
    destruct (apply_eff fx cap (u, set_td q TCloseAll) ENeedBlocksDone) as [[u1 q1]|] eqn:E1; [|discriminate]. injection H as <- <-.
    eff_cases E1. cbn [set_td q_bws] in *.
    split; [|split; auto].
    constructor; cbn; auto; try lia; try discriminate.
    all: try (split; intros X; [rewrite NF in X by discriminate|]; discriminate).
    all: try (intros _; apply qi_files_done0; discriminate).
  - (* closeAll *)
    destruct (apply_eff fx cap (u, set_td q TMark) (EPool PCloseAll)) as [[u1 q1]|] eqn:E1; [|discriminate]. injection H as <- <-.
    eff_cases E1. cbn [set_td set_pool q_pool] in *.
    split; [|split; auto].
    constructor; cbn; auto; try lia; try discriminate.
    all: try (split; intros X; [rewrite NF in X by discriminate|]; discriminate).
    all: try (intros _; apply qi_files_done0; discriminate).
    all: try (intros _; apply qi_blocks_done0; cbn; lia).
    all: try (econstructor; eassumption).
    all: try (intros _; unfold pool_step in Heqo; destruct (p_closed (q_pool q)); [discriminate|]; injection Heqo as <-; reflexivity).
    all: try (rewrite (pool_step_plen _ _ _ Heqo); cbn; rewrite qi_plen0; lia).
  - (* markWorkersDone *)
    destruct (apply_eff fx cap (u, set_td q TDone) (ECur LWorkersDone)) as [[u1 q1]|] eqn:E1; [|discriminate]. injection H as <- <-.
    eff_cases E1. cbn [set_td set_cur q_cur] in *. destruct (cursor_workersdone _ _ _ Heqo) as [W1 W2].
    split; [|split; auto].
    constructor; cbn; auto; try lia; try discriminate.
    all: try (split; auto; fail).
    all: try (intros _; apply qi_files_done0; discriminate).
    all: try (intros _; apply qi_blocks_done0; cbn; lia).
    all: try (econstructor; eassumption).
    all: try (intros _; apply qi_closed0; cbn; lia).
Qed.

(* consumer, Close callers, caller context *)
Lemma ext_inv fx cap q cl c :
  qinv fx cap q -> external_label cl = true -> cursor_step fx (q_cur q) cl = Some c -> qinv fx cap (set_cur q c).
Proof.
  intros I E H. destruct I. constructor; cbn; auto.
  - econstructor; eassumption.
  - rewrite (cursor_finished_same _ _ _ _ H); [exact qi_finished0|]. intros ->. discriminate.
Qed.

Lemma act_inv fx cap u q a v u' q' :
  qinv fx cap q -> act_step fx cap u q a v = Some (u', q') ->
  qinv fx cap q' /\ u' + q_slots q = u + q_slots q' /\ (u <= cap -> u' <= cap).
Proof.
  destruct a; [apply fs_act_inv|apply fw_act_inv|apply bw_act_inv|apply td_act_inv].
Qed.

(* ------------------------------------------------------------------ the global invariant *)
Definition sum_slots (l : list qstate) : nat := fold_right (fun q a => q_slots q + a) 0 l.

Lemma sum_slots_set i q q' l : nth_error l i = Some q ->
  sum_slots (set_nth i q' l) + q_slots q = sum_slots l + q_slots q'.
Proof.
  revert i. induction l as [|a t IH]; intros i H; destruct i; cbn [nth_error set_nth sum_slots fold_right] in *; try discriminate.
  - injection H as ->. lia.
  - specialize (IH _ H). unfold sum_slots in IH. lia.
Qed.

Arguments sum_slots : simpl never.

Record ginv (fx : bool) (cap : nat) (s : gstate) : Prop := {
  gi_q : Forall (qinv fx cap) (g_qs s);
  gi_cap : g_cap s = cap;
  gi_used : g_used s = sum_slots (g_qs s);     (* the semaphore holds exactly the slots the workers hold *)
  gi_bound : g_used s <= cap
}.

Lemma ginv_init fx cap es : ginv fx cap (ginit cap es).
Proof.
  constructor; cbn; auto; try lia.
  - induction es; cbn; constructor; auto. apply qinv_init.
  - unfold sum_slots. induction es; cbn; auto.
Qed.

Lemma ginv_step fx cap s l s' : ginv fx cap s -> qstep fx s l = Some s' -> ginv fx cap s'.
Proof.
  intros [Q C U B] H. destruct l as [qi a v|qi cl]; cbn in H.
  - destruct (nth_error (g_qs s) qi) as [q|] eqn:N; [|discriminate].
    destruct (act_step fx (g_cap s) (g_used s) q a v) as [[u' q']|] eqn:A; [|discriminate]. injection H as <-.
    rewrite C in A. destruct (act_inv _ _ _ _ _ _ _ _ (Forall_nth _ _ _ _ Q N) A) as [I [S1 S2]].
    constructor; cbn; auto.
    + apply Forall_set_nth; assumption.
    + pose proof (sum_slots_set _ _ q' _ N). lia.
  - destruct (external_label cl) eqn:E; [|discriminate].
    destruct (nth_error (g_qs s) qi) as [q|] eqn:N; [|discriminate].
    destruct (cursor_step fx (q_cur q) cl) as [c|] eqn:A; [|discriminate]. injection H as <-.
    constructor; cbn; auto.
    + apply Forall_set_nth; [assumption|]. eapply ext_inv; eauto. eapply Forall_nth; eassumption.
    + pose proof (sum_slots_set _ _ (set_cur q c) _ N). unfold q_slots in *. cbn in *. lia.
Qed.

Theorem reachable_ginv fx cap es s : reachable fx cap es s -> ginv fx cap s.
Proof. induction 1; [apply ginv_init|eapply ginv_step; eassumption]. Qed.

Lemma reachable_qinv fx cap es s q : reachable fx cap es s -> In q (g_qs s) -> qinv fx cap q.
Proof. intros R I. destruct (reachable_ginv _ _ _ _ R) as [Q _ _ _]. rewrite Forall_forall in Q. auto. Qed.

(* ------------------------------------------------------------------ C21 *)
(* once the cursor's channels are closed (Next can return false, Close can return): the file stage -
   hence the MetaStore iterator - every file worker and every block worker have exited *)
Theorem all_exited fx cap es s q :
  reachable fx cap es s -> In q (g_qs s) -> m_finished (c_m (q_cur q)) = true ->
  fs_exited q = true /\ forallb fw_exited (q_fws q) = true /\ forallb bw_exited (q_bws q) = true /\ q_td q = TDone.
Proof.
  intros R I F. destruct (reachable_qinv _ _ _ _ _ R I). apply qi_finished0 in F.
  destruct (qi_files_done0 ltac:(rewrite F; discriminate)) as [A B].
  repeat split; auto. apply qi_blocks_done0. rewrite F. cbn. lia.
Qed.

Lemma exited_fw_no_slot l : Forall fw_good l -> forallb fw_exited l = true -> filter fw_held l = [] /\ sum_fw l = 0%Z.
Proof.
  induction l as [|w t IH]; intros F E; [split; reflexivity|]. inversion F as [|? ? [G1 G2] Ft]; subst.
  cbn in E. apply andb_prop in E. destruct E as [E1 E2]. destruct (IH Ft E2) as [A B].
  apply fw_exited_pc in E1. rewrite sum_fw_cons, B. cbn. rewrite G1, E1, A. unfold fw_in_io. rewrite E1. split; reflexivity.
Qed.

Lemma exited_bw_no_slot l : Forall bw_ok l -> forallb bw_exited l = true -> filter bw_held l = [] /\ sum_bw l = 0%Z.
Proof.
  induction l as [|w t IH]; intros F E; [split; reflexivity|]. inversion F as [|? ? [G1 G2] Ft]; subst.
  cbn in E. apply andb_prop in E. destruct E as [E1 E2]. destruct (IH Ft E2) as [A B].
  apply bw_exited_pc in E1. rewrite sum_bw_cons, B. cbn. rewrite G2, A by (rewrite E1; reflexivity).
  unfold bw_in_io. rewrite E1. split; reflexivity.
Qed.

(* ... the query holds no semaphore slot ... *)
Theorem budget_returned fx cap es s q :
  reachable fx cap es s -> In q (g_qs s) -> m_finished (c_m (q_cur q)) = true -> q_slots q = 0.
Proof.
  intros R I F. destruct (all_exited _ _ _ _ _ R I F) as [_ [A [B _]]]. destruct (reachable_qinv _ _ _ _ _ R I).
  rewrite q_slots_eq. destruct (exited_fw_no_slot _ qi_fw0 A) as [-> _]. destruct (exited_bw_no_slot _ qi_bw0 B) as [-> _]. reflexivity.
Qed.

(* ... and every handle it opened has been closed exactly once *)
Theorem handles_closed fx cap es s q :
  reachable fx cap es s -> In q (g_qs s) -> m_finished (c_m (q_cur q)) = true ->
  Permutation (p_closedh (q_pool q)) (p_opened (q_pool q)) /\ NoDup (p_closedh (q_pool q)) /\
  p_held (q_pool q) = [] /\ p_opening (q_pool q) = [] /\ p_closed (q_pool q) = true.
Proof.
  intros R I F. destruct (all_exited _ _ _ _ _ R I F) as [_ [A [B T]]]. destruct (reachable_qinv _ _ _ _ _ R I).
  destruct (exited_fw_no_slot _ qi_fw0 A) as [_ Sf]. destruct (exited_bw_no_slot _ qi_bw0 B) as [_ Sb].
  rewrite Sf, Sb in qi_plen0. unfold plen in qi_plen0.
  assert (H : p_held (q_pool q) = [] /\ p_opening (q_pool q) = []).
  { destruct (p_held (q_pool q)), (p_opening (q_pool q)); cbn in qi_plen0; auto; lia. }
  destruct H as [H1 H2]. assert (C : p_closed (q_pool q) = true) by (apply qi_closed0; rewrite T; cbn; lia).
  destruct (pool_all_closed _ qi_pool0 C H1). repeat split; auto.
Qed.

(* ------------------------------------------------------------------ C22 *)
Lemma io_le_slots_fw l : Forall fw_good l -> (sum_fw l <= Z.of_nat (length (filter fw_held l)))%Z.
Proof.
  induction l as [|w t IH]; intros F; [unfold sum_fw; cbn; lia|]. inversion F as [|? ? [G1 G2] Ft]; subst. specialize (IH Ft).
  rewrite sum_fw_cons. cbn [filter]. unfold fw_in_io. rewrite G1.
  destruct (fw_pc w) eqn:E; cbn [fw_slot_pc b2z length]; try lia; try (match goal with |- context [match ?k with _ => _ end] => destruct k end; cbn [b2z length]; lia).
Qed.

Lemma io_le_slots_bw l : Forall bw_ok l -> (sum_bw l <= Z.of_nat (length (filter bw_held l)))%Z.
Proof.
  induction l as [|w t IH]; intros F; [unfold sum_bw; cbn; lia|]. inversion F as [|? ? [G1 G2] Ft]; subst. specialize (IH Ft).
  rewrite sum_bw_cons. cbn [filter].
  destruct (bw_in_io w) eqn:Io.
  - assert (H : bw_held w = true) by (apply G1; unfold bw_in_io in Io; destruct (bw_pc w); try discriminate; reflexivity).
    rewrite H. cbn [b2z length]. lia.
  - destruct (bw_held w); cbn [b2z length]; lia.
Qed.

Definition sum_plen (l : list qstate) : Z := fold_right (fun q a => (plen (q_pool q) + a)%Z) 0%Z l.

(* across all queries: handles checked out or being opened (= workers inside DataStore I/O)
   <= slots in use <= MaxQueryConcurrency *)
Theorem io_bounded fx cap es s :
  reachable fx cap es s -> (sum_plen (g_qs s) <= Z.of_nat (g_used s))%Z /\ g_used s <= cap.
Proof.
  intros R. destruct (reachable_ginv _ _ _ _ R) as [Q C U B]. split; [|exact B]. rewrite U. clear U B C R.
  induction (g_qs s) as [|q t IH]; [unfold sum_slots; cbn; lia|]. inversion Q as [|? ? Iq Qt]; subst. specialize (IH Qt).
  unfold sum_slots in *. cbn [sum_plen fold_right]. fold (sum_plen t). destruct Iq.
  rewrite qi_plen0, q_slots_eq. pose proof (io_le_slots_fw _ qi_fw0). pose proof (io_le_slots_bw _ qi_bw0). lia.
Qed.

(* a worker blocked on a slow consumer (deliver) or on the next stage (dispatch) holds no slot; nor does
   one that has exited *)
Theorem no_hold_while_blocked fx cap es s q :
  reachable fx cap es s -> In q (g_qs s) ->
  (forall w, In w (q_fws q) -> fw_blocked w = true \/ fw_exited w = true -> fw_held w = false) /\
  (forall w, In w (q_bws q) -> bw_blocked w = true \/ bw_exited w = true -> bw_held w = false).
Proof.
  intros R I. destruct (reachable_qinv _ _ _ _ _ R I). split; intros w Iw H.
  - rewrite Forall_forall in qi_fw0. destruct (qi_fw0 _ Iw) as [G _]. rewrite G.
    unfold fw_blocked, fw_exited in H. destruct (fw_pc w); cbn; auto; destruct H; discriminate.
  - rewrite Forall_forall in qi_bw0. destruct (qi_bw0 _ Iw) as [_ G]. apply G.
    unfold bw_blocked, bw_exited in H. destruct (bw_pc w); cbn; auto; try (destruct H; discriminate).
    destruct ph; auto; destruct H; discriminate.
Qed.

(* ------------------------------------------------------------------ C23: what gets recorded *)
Definition eff_stat_ok (e : eff) : Prop :=
  match e with ECur (LRecordStat st) => skipped_zero st = true | _ => True end.

Lemma blk_stat_ok mk f i st :
  blk_stat mk f i = Some st -> (forall a b c d, skipped_zero (mk a b c d) = true) -> skipped_zero st = true.
Proof. unfold blk_stat. destruct (nth_error (f_blocks f) i); [|discriminate]. intros H K. injection H as <-. apply K. Qed.

Lemma fw_local_stat_ok e r sd w v w' effs : fw_local e r sd w v = Some (w', effs) -> Forall eff_stat_ok effs.
Proof.
  intros H. destruct w as [pc held owes]. unfold fw_local in H. cbn [fw_pc fw_held fw_owes] in H.
  destruct pc; destruct v; try discriminate H; destr_in H; injection H as <- <-;
    try (apply Forall_forall; intros x Hx; apply in_map_iff in Hx; destruct Hx as [? [<- _]]; exact I);
    repeat constructor; cbn; auto;
    eapply blk_stat_ok; try eassumption; reflexivity.
Qed.

Lemma bw_local_stat_ok e r sd w v w' effs : bw_local e r sd w v = Some (w', effs) -> Forall eff_stat_ok effs.
Proof.
  intros H. destruct w as [pc held owes]. unfold bw_local in H. cbn [bw_pc bw_held bw_owes] in H.
  destruct pc; destruct v; try discriminate H; destr_in H; injection H as <- <-; repeat constructor; cbn; auto.
Qed.

Definition stats_ok (q : qstate) : Prop := forallb skipped_zero (m_stats (c_m (q_cur q))) = true.

Lemma cursor_stats_step fx s l s' :
  cursor_step fx s l = Some s' ->
  m_stats (c_m s') = m_stats (c_m s) \/ exists st, l = LRecordStat st /\ m_stats (c_m s') = m_stats (c_m s) ++ [st].
Proof.
  intros H. destr_cur s. cbn in *.
  destruct l; step_cases H; norm_hyps; cbn in *; auto. right. eexists. split; reflexivity.
Qed.

Lemma apply_effs_stats_ok fx cap es : forall u q u' q',
  apply_effs fx cap (u, q) es = Some (u', q') -> Forall eff_stat_ok es -> stats_ok q -> stats_ok q'.
Proof.
  induction es as [|e t IH]; intros u q u' q' H F S; cbn [apply_effs] in H.
  - injection H as <- <-. exact S.
  - destruct (apply_eff fx cap (u, q) e) as [[u1 q1]|] eqn:E; [|discriminate]. inversion F as [|? ? Fe Ft]; subst.
    apply (IH _ _ _ _ H Ft). unfold stats_ok in *.
    destruct e; eff_cases E; cbn; auto.
    destruct (cursor_stats_step _ _ _ _ Heqo) as [-> | [st [-> ->]]]; auto.
    rewrite forallb_app, S. cbn. cbn in Fe. rewrite Fe. reflexivity.
Qed.

Lemma act_stats_ok fx cap u q a v u' q' : act_step fx cap u q a v = Some (u', q') -> stats_ok q -> stats_ok q'.
Proof.
  intros H S. unfold act_step in H. destruct a.
  - destruct (fs_local cap (length (q_fws q)) (q_fs q) v) as [[pc effs]|] eqn:L; [|discriminate].
    eapply apply_effs_stats_ok; [exact H| |exact S].
    unfold fs_local in L. destruct (q_fs q); destruct v; try discriminate L; destr_in L; injection L as <- <-; repeat constructor; cbn; auto.
  - destruct (nth_error (q_fws q) i) as [w|]; [|discriminate].
    destruct (fw_step (q_env q) (2 * i) i w v) as [[w' effs]|] eqn:L; [|discriminate].
    eapply apply_effs_stats_ok; [exact H| |exact S]. unfold fw_step in L.
    destruct v; try (destruct (fw_local _ _ _ w _) as [[w1 e1]|] eqn:L1; [|discriminate]; injection L as <- <-;
      pose proof (fw_local_stat_ok _ _ _ _ _ _ _ L1); destruct (fw_owes w); auto; constructor; cbn; auto; fail).
    destruct (fw_owes w); [|discriminate]. injection L as <- <-. repeat constructor.
  - destruct (nth_error (q_bws q) j) as [w|]; [|discriminate].
    destruct (bw_step (q_env q) (2 * j + 1) j w v) as [[w' effs]|] eqn:L; [|discriminate].
    eapply apply_effs_stats_ok; [exact H| |exact S]. unfold bw_step in L.
    destruct v; try (destruct (bw_local _ _ _ w _) as [[w1 e1]|] eqn:L1; [|discriminate]; injection L as <- <-;
      pose proof (bw_local_stat_ok _ _ _ _ _ _ _ L1); destruct (bw_owes w); auto; constructor; cbn; auto; fail).
    destruct (bw_owes w); [|discriminate]. injection L as <- <-. repeat constructor.
  - destruct (td_local (q_td q) v) as [[pc effs]|] eqn:L; [|discriminate].
    eapply apply_effs_stats_ok; [exact H| |exact S].
    destruct (q_td q); destruct v; try discriminate L; injection L as <- <-; repeat constructor.
Qed.

(* every entry Stats lists for a pruned block carries zero rows and bytes, in every reachable state *)
Theorem stats_skipped_zero fx cap es s q :
  reachable fx cap es s -> In q (g_qs s) -> forallb skipped_zero (m_stats (c_m (q_cur q))) = true.
Proof.
  intros R. revert q. induction R as [|s l s' R IH H]; intros q I.
  - cbn in I. apply in_map_iff in I. destruct I as [ec [<- _]]. reflexivity.
  - destruct l as [qi a v|qi cl]; cbn in H.
    + destruct (nth_error (g_qs s) qi) as [q0|] eqn:N; [|discriminate].
      destruct (act_step fx (g_cap s) (g_used s) q0 a v) as [[u' q']|] eqn:A; [|discriminate]. injection H as <-. cbn in I.
      apply In_nth_error in I. destruct I as [k Hk]. rewrite nth_error_set_nth in Hk.
      destruct (Nat.eqb_spec qi k).
      * rewrite N in Hk. injection Hk as <-. eapply act_stats_ok; [exact A|]. apply IH. eapply nth_error_In; eassumption.
      * apply IH. eapply nth_error_In; eassumption.
    + destruct (external_label cl) eqn:E; [|discriminate].
      destruct (nth_error (g_qs s) qi) as [q0|] eqn:N; [|discriminate].
      destruct (cursor_step fx (q_cur q0) cl) as [c|] eqn:A; [|discriminate]. injection H as <-. cbn in I.
      apply In_nth_error in I. destruct I as [k Hk]. rewrite nth_error_set_nth in Hk.
      destruct (Nat.eqb_spec qi k).
      * rewrite N in Hk. injection Hk as <-. cbn.
        destruct (cursor_stats_step _ _ _ _ A) as [-> | [st [-> _]]]; [|discriminate E].
        apply IH. eapply nth_error_In; eassumption.
      * apply IH. eapply nth_error_In; eassumption.
Qed.

(* every query of the pipeline has a cursor and a pool reachable in the component models *)
Theorem pipeline_cursor fx cap es s q : reachable fx cap es s -> In q (g_qs s) -> creachable fx (q_cur q).
Proof. intros R I. exact (qi_cur _ _ _ (reachable_qinv _ _ _ _ _ R I)). Qed.

Theorem pipeline_pool fx cap es s q : reachable fx cap es s -> In q (g_qs s) -> preachable (q_pool q).
Proof. intros R I. exact (qi_pool _ _ _ (reachable_qinv _ _ _ _ _ R I)). Qed.

(* the semaphore count is exactly the slots the workers of all queries hold *)
Theorem semaphore_is_held_slots fx cap es s : reachable fx cap es s -> g_used s = sum_slots (g_qs s) /\ g_used s <= cap.
Proof. intros R. destruct (reachable_ginv _ _ _ _ R). auto. Qed.

(* a step of one query leaves every other query's state alone *)
Theorem other_queries_untouched fx s l s' qa qb :
  qstep fx s l = Some s' -> (match l with LAct q _ _ | LExt q _ => q end) = qa -> qa <> qb ->
  nth_error (g_qs s') qb = nth_error (g_qs s) qb.
Proof.
  intros H L N. destruct l as [qi a v|qi cl]; cbn in H, L; subst qi.
  - destruct (nth_error (g_qs s) qa); [|discriminate]. destruct (act_step _ _ _ _ _ _) as [[? ?]|]; [|discriminate].
    injection H as <-. cbn. apply nth_error_set_nth_neq. assumption.
  - destruct (external_label cl); [|discriminate]. destruct (nth_error (g_qs s) qa); [|discriminate].
    destruct (cursor_step _ _ _); [|discriminate]. injection H as <-. cbn. apply nth_error_set_nth_neq. assumption.
Qed.
