(* C18: indexes built by flush and merge cover their data. C24: pruning decisions. *)
From BS Require Import Lib.Bytes Model.Json Model.Expr Model.MinMax Model.QueryFn Model.Index
  Proofs.ExprProofs Proofs.MinMaxProofs Proofs.QueryFnProofs.
From Coq Require Import List Bool Lia ZArith NArith.
Import ListNotations.

(* ---------------------------------------------------------------- abstract bloom filter *)
Section Bloom.
  Variable locs : str -> list N.

  Lemma bf_test_mono bits bits' x :
    (forall i, In i bits -> In i bits') -> bf_test locs bits x = true -> bf_test locs bits' x = true.
  Proof.
    unfold bf_test. intros Hsub H. rewrite forallb_forall in *. intros i Hi.
    specialize (H i Hi). apply existsb_exists in H as [j [Hj E]]. apply existsb_exists. exists j. auto.
  Qed.

  (* no false negatives, for every hash function *)
  Lemma bloom_no_fn xs x : In x xs -> bf_test locs (bf_build locs xs) x = true.
  Proof.
    induction xs as [|y xs IH]; intro H; [destruct H|]. simpl. destruct H as [->|H].
    - unfold bf_test, bf_add. apply forallb_forall. intros i Hi. apply existsb_exists. exists i.
      split; [apply in_or_app; left; exact Hi| apply N.eqb_refl].
    - eapply bf_test_mono; [|apply IH; exact H]. intros i Hi. unfold bf_add. apply in_or_app. right. exact Hi.
  Qed.
End Bloom.

Section Idx.
  Variable tok : str -> list str.
  Variable locs : str -> list N.

  Lemma filters_for_covers rows r :
    In r rows -> covers tok (filters_for tok locs rows) (walk_row (sr_json r)).
  Proof.
    intro Hin. unfold covers, filters_for, build_filters. simpl. repeat split; intros x Hx; apply bloom_no_fn.
    - unfold rows_fields. apply in_flat_map. exists r. auto.
    - unfold rows_tokens. apply in_flat_map. exists r. auto.
    - unfold rows_fts. apply in_flat_map. exists r. auto.
  Qed.

  (* ---- minmax ---- *)
  Lemma conv_float_exact f lo hi : conv_float f = Some (lo, hi) -> exists x, fl_exact f = Some x.
  Proof. unfold conv_float. destruct (fl_exact f) as [x|]; [eauto|discriminate]. Qed.

  Lemma conv_some_exact v lo hi : conv v = Some (lo, hi) -> exists x, gv_exact v = Some x.
  Proof.
    destruct v as [nm z|nm z|nm f|]; simpl; try discriminate; try (intros _; eauto; fail).
    destruct nm; simpl; apply conv_float_exact.
  Qed.

  Definition row_vals_ok (keys : list str) (r : prow) : Prop :=
    forall k v, assoc k (r_vals r) = Some v -> In k keys /\ gv_wf v.

  Lemma index_row_wf keys ks r mm :
    row_vals_ok keys r -> mm_wf mm -> mm_wf (index_row ks r mm).
  Proof.
    intros Hok. revert mm. induction ks as [|k ks IH]; intros mm Hwf; simpl; [exact Hwf|].
    apply IH. destruct (assoc k (r_vals r)) as [v|] eqn:Ev; [|exact Hwf].
    destruct (conv v) as [[lo hi]|] eqn:Ec; [|exact Hwf].
    destruct (conv_some_exact v lo hi Ec) as [x Ex].
    destruct (Hok k v Ev) as [_ Hv].
    destruct (conv_brackets v x lo hi Hv Ex Ec) as [Hlo [Hhi [Hle _]]].
    apply (observe_wf mm k lo hi Hwf Hlo Hhi Hle).
  Qed.

  Lemma index_rows_wf keys rs : (forall r, In r rs -> row_vals_ok keys r) -> mm_wf (index_rows keys rs).
  Proof.
    unfold index_rows. assert (H0 : mm_wf []) by (intros k mn mx H; discriminate).
    revert H0. generalize (@nil (str * (Z * Z))). induction rs as [|r rs IH]; intros mm Hwf Hok; simpl; [exact Hwf|].
    apply IH; [|intros r' Hr'; apply Hok; right; exact Hr'].
    apply (index_row_wf keys keys r mm); [apply Hok; left; reflexivity| exact Hwf].
  Qed.

  Lemma index_covers_row keys p rs r :
    (forall r', In r' rs -> row_vals_ok keys r') -> In r rs -> r_partition r = p ->
    covers_row {| b_partition := p; b_mm := index_rows keys rs |} r.
  Proof.
    intros Hok Hin Hp. split; [symmetry; exact Hp|]. simpl. intros k v x Ev Ex.
    destruct (conv_total v x Ex) as [lo [hi Ec]].
    destruct (Hok r Hin k v Ev) as [Hk Hv].
    destruct (index_rows_covers keys rs r k v lo hi Hin Hk Ev Ec) as [mn [mx [Ea [H1 H2]]]].
    destruct (index_rows_wf keys rs Hok k mn mx Ea) as [Imn [Imx _]].
    exists mn, mx, lo, hi. split; [exact Ea|]. split; [eapply conv_brackets; eauto|].
    split; [exact Imn|]. split; [exact Imx|]. split; assumption.
  Qed.

  (* the index lists exactly the keys its rows provided a numeric, non-NaN value for *)
  Lemma index_row_keys ks r mm k :
    assoc k (index_row ks r mm) <> None <->
    (assoc k mm <> None \/ (In k ks /\ exists v lo hi, assoc k (r_vals r) = Some v /\ conv v = Some (lo, hi))).
  Proof.
    revert mm. induction ks as [|k0 ks IH]; intro mm; simpl.
    - split; [auto| intros [H|[[] _]]; exact H].
    - rewrite IH. clear IH. destruct (assoc k0 (r_vals r)) as [v|] eqn:Ev.
      + destruct (conv v) as [[lo hi]|] eqn:Ec.
        * pose proof (observe_keys mm k0 lo hi k) as Ho. unfold observe in Ho. rewrite Ho. split.
          -- intros [[->|H]|[Hin H]]; [right; split; [left; reflexivity| eauto] | left; exact H | right; split; [right; exact Hin| exact H]].
          -- intros [H|[[->|Hin] H]]; [left; right; exact H | left; left; reflexivity | right; split; [exact Hin| exact H]].
        * split.
          -- intros [H|[Hin H]]; [left; exact H| right; split; [right; exact Hin| exact H]].
          -- intros [H|[[->|Hin] [v' [lo [hi [Ev' Ec']]]]]]; [left; exact H| | right; split; [exact Hin| eauto]].
             rewrite Ev in Ev'. inversion Ev'; subst. rewrite Ec in Ec'. discriminate.
      + split.
        * intros [H|[Hin H]]; [left; exact H| right; split; [right; exact Hin| exact H]].
        * intros [H|[[->|Hin] [v' [lo [hi [Ev' Ec']]]]]]; [left; exact H| | right; split; [exact Hin| eauto]].
          rewrite Ev in Ev'. discriminate.
  Qed.

  Lemma index_rows_keys keys rs k :
    assoc k (index_rows keys rs) <> None <->
    exists r v lo hi, In r rs /\ In k keys /\ assoc k (r_vals r) = Some v /\ conv v = Some (lo, hi).
  Proof.
    unfold index_rows.
    assert (G : forall mm, assoc k (fold_left (fun mm r => index_row keys r mm) rs mm) <> None <->
                  (assoc k mm <> None \/ exists r v lo hi, In r rs /\ In k keys /\ assoc k (r_vals r) = Some v /\ conv v = Some (lo, hi))).
    { induction rs as [|r rs IH]; intro mm; simpl.
      - split; [auto| intros [H|[r [v [lo [hi [[] _]]]]]]; exact H].
      - rewrite IH, index_row_keys. split.
        + intros [[H|[Hk [v [lo [hi [Ev Ec]]]]]]|[r' [v [lo [hi [Hin H]]]]]].
          * left; exact H.
          * right. exists r, v, lo, hi. auto.
          * right. exists r', v, lo, hi. auto.
        + intros [H|[r' [v [lo [hi [[->|Hin] [Hk [Ev Ec]]]]]]]].
          * left; left; exact H.
          * left; right. split; [exact Hk| eauto].
          * right. exists r', v, lo, hi. auto. }
    rewrite G. simpl. split; [intros [H|H]; [contradiction|exact H]| auto].
  Qed.

  (* ---- a flushed block and file are well formed ---- *)
  Definition rows_ok (keys : list str) (p : str) (rows : list srow) : Prop :=
    forall r, In r rows -> r_partition (sr_pre r) = p /\ row_vals_ok keys (sr_pre r).

  Lemma make_block_covers keys p rows r :
    rows_ok keys p rows -> In r rows ->
    covers tok (bk_filters (make_block tok locs keys p rows)) (walk_row (sr_json r)) /\
    covers_row (bk_meta (make_block tok locs keys p rows)) (sr_pre r).
  Proof.
    intros Hok Hin. split; [apply filters_for_covers; exact Hin|]. simpl.
    apply index_covers_row.
    - intros r' Hr'. apply in_map_iff in Hr' as [s [<- Hs]]. apply (Hok s Hs).
    - apply in_map. exact Hin.
    - apply (Hok r Hin).
  Qed.

  Theorem flush_file_wf keys buffers :
    (forall pb, In pb buffers -> rows_ok keys (fst pb) (snd pb)) ->
    wf_file tok (flush_file tok locs keys buffers).
  Proof.
    intros Hok b Hb r Hr. unfold flush_file, make_file in *. simpl in Hb.
    apply in_map_iff in Hb as [pb [<- Hpb]].
    destruct (make_block_covers keys (fst pb) (snd pb) r (Hok pb Hpb) Hr) as [C1 C2].
    split; [exact C1|]. split; [|exact C2].
    simpl. apply filters_for_covers. apply in_flat_map.
    exists (make_block tok locs keys (fst pb) (snd pb)). split; [|exact Hr].
    apply in_map_iff. exists pb. auto.
  Qed.

  (* ---- merge ---- *)
  Definition mm_all (mm : list (str * (Z * Z))) : Prop :=
    Forall (fun kv => in64 (fst (snd kv)) /\ in64 (snd (snd kv)) /\ (fst (snd kv) <= snd (snd kv))%Z) mm.

  Lemma assoc_in {A} k (l : list (str * A)) v : assoc k l = Some v -> exists k', In (k', v) l.
  Proof.
    induction l as [|[k0 v0] l IH]; simpl; [discriminate|]. destruct (str_eqb k k0).
    - intro H; inversion H; subst. exists k0. left. reflexivity.
    - intro H. destruct (IH H) as [k' Hk]. exists k'. right. exact Hk.
  Qed.

  Lemma mm_all_wf mm : mm_all mm -> mm_wf mm.
  Proof.
    intros Hall k mn mx E. destruct (assoc_in k mm (mn, mx) E) as [k' Hin].
    unfold mm_all in Hall. rewrite Forall_forall in Hall. apply (Hall (k', (mn, mx)) Hin).
  Qed.

  Lemma observe_all mm k lo hi : mm_all mm -> in64 lo -> in64 hi -> (lo <= hi)%Z -> mm_all (observe mm k lo hi).
  Proof.
    intros Hall Hlo Hhi Hle. unfold observe. destruct (assoc k mm) as [[a b]|] eqn:E.
    - constructor; [|exact Hall]. simpl.
      destruct (mm_all_wf mm Hall k a b E) as [A [B C]].
      unfold in64 in *. destruct (lo <? a)%Z eqn:E1; destruct (b <? hi)%Z eqn:E2; simpl;
        try apply Z.ltb_lt in E1; try apply Z.ltb_lt in E2; try apply Z.ltb_ge in E1; try apply Z.ltb_ge in E2; lia.
    - constructor; [|exact Hall]. simpl. auto.
  Qed.

  Lemma merge_mm_all m1 m2 : mm_all m1 -> mm_all m2 -> mm_all (merge_mm m1 m2).
  Proof.
    revert m1. induction m2 as [|[k [mn mx]] t IH]; intros m1 H1 H2; simpl; [exact H1|].
    inversion H2 as [|x l Hx Ht]; subst. simpl in Hx. destruct Hx as [A [B C]].
    pose proof (observe_all m1 k mn mx H1 A B C) as Ho. unfold observe in Ho.
    destruct (assoc k m1); apply IH; assumption.
  Qed.

  Lemma index_row_all keys ks r mm : row_vals_ok keys r -> mm_all mm -> mm_all (index_row ks r mm).
  Proof.
    intros Hok. revert mm. induction ks as [|k ks IH]; intros mm Hall; simpl; [exact Hall|].
    apply IH. destruct (assoc k (r_vals r)) as [v|] eqn:Ev; [|exact Hall].
    destruct (conv v) as [[lo hi]|] eqn:Ec; [|exact Hall].
    destruct (conv_some_exact v lo hi Ec) as [x Ex].
    destruct (Hok k v Ev) as [_ Hv].
    destruct (conv_brackets v x lo hi Hv Ex Ec) as [Hlo [Hhi [Hle _]]].
    apply (observe_all mm k lo hi Hall Hlo Hhi Hle).
  Qed.

  Lemma index_rows_all keys rs : (forall r, In r rs -> row_vals_ok keys r) -> mm_all (index_rows keys rs).
  Proof.
    unfold index_rows. assert (H0 : mm_all []) by constructor.
    revert H0. generalize (@nil (str * (Z * Z))). induction rs as [|r rs IH]; intros mm Hall Hok; simpl; [exact Hall|].
    apply IH; [|intros r' Hr'; apply Hok; right; exact Hr'].
    apply (index_row_all keys keys r mm); [apply Hok; left; reflexivity| exact Hall].
  Qed.

  Definition merged_mm (srcs : list block) : list (str * (Z * Z)) :=
    match srcs with
    | [] => []
    | b0 :: rest => fold_left (fun acc b => merge_mm acc (b_mm (bk_meta b))) rest (b_mm (bk_meta b0))
    end.

  Lemma fold_merge_keeps rest m k lo hi :
    mm_covers m k lo hi -> mm_covers (fold_left (fun acc b => merge_mm acc (b_mm (bk_meta b))) rest m) k lo hi.
  Proof. revert m. induction rest as [|b rest IH]; intros m H; simpl; [exact H|]. apply IH. apply merge_mm_keeps. exact H. Qed.

  Lemma fold_merge_covers rest m b k lo hi :
    In b rest -> mm_covers (b_mm (bk_meta b)) k lo hi ->
    mm_covers (fold_left (fun acc b => merge_mm acc (b_mm (bk_meta b))) rest m) k lo hi.
  Proof.
    revert m. induction rest as [|b0 rest IH]; intros m Hin H; [destruct Hin|]. simpl. destruct Hin as [->|Hin].
    - apply fold_merge_keeps. apply merge_mm_covers_right. exact H.
    - apply IH; assumption.
  Qed.

  Lemma fold_merge_all rest m :
    mm_all m -> (forall b, In b rest -> mm_all (b_mm (bk_meta b))) ->
    mm_all (fold_left (fun acc b => merge_mm acc (b_mm (bk_meta b))) rest m).
  Proof.
    revert m. induction rest as [|b rest IH]; intros m Hm Hr; simpl; [exact Hm|].
    apply IH; [apply merge_mm_all; [exact Hm| apply Hr; left; reflexivity]| intros b' Hb'; apply Hr; right; exact Hb'].
  Qed.

  Lemma merged_covers srcs b k lo hi :
    In b srcs -> mm_covers (b_mm (bk_meta b)) k lo hi -> mm_covers (merged_mm srcs) k lo hi.
  Proof.
    destruct srcs as [|b0 rest]; [intros []|]. simpl. intros [->|Hin] H.
    - apply fold_merge_keeps. exact H.
    - eapply fold_merge_covers; eauto.
  Qed.

  (* a merged block is well formed when its sources were: bloom coverage by rebuilding from the
     re-streamed rows, ranges by union, partition by grouping *)
  Theorem merge_blocks_wf p srcs b r :
    (forall s, In s srcs -> b_partition (bk_meta s) = p /\ mm_all (b_mm (bk_meta s))) ->
    In b srcs -> In r (bk_rows b) -> covers_row (bk_meta b) (sr_pre r) ->
    covers tok (bk_filters (merge_blocks tok locs p srcs)) (walk_row (sr_json r)) /\
    covers_row (bk_meta (merge_blocks tok locs p srcs)) (sr_pre r).
  Proof.
    intros Hs Hb Hr [Hp Hc]. split.
    - simpl. apply filters_for_covers. apply in_flat_map. exists b. auto.
    - split; [simpl; rewrite <- Hp; symmetry; apply (Hs b Hb)|].
      intros k v x Ev Ex. destruct (Hc k v x Ev Ex) as [mn [mx [lo [hi [Ea [Hbr [_ [_ [H1 H2]]]]]]]]].
      assert (Hcov : mm_covers (merged_mm srcs) k lo hi).
      { eapply merged_covers; eauto. exists mn, mx. auto. }
      destruct Hcov as [mn' [mx' [Ea' [H1' H2']]]].
      assert (Hall : mm_all (merged_mm srcs)).
      { destruct srcs as [|b0 rest]; [constructor|]. simpl. apply fold_merge_all.
        - apply (Hs b0). left. reflexivity.
        - intros b' Hb'. apply (Hs b'). right. exact Hb'. }
      destruct (mm_all_wf _ Hall k mn' mx' Ea') as [I1 [I2 _]].
      exists mn', mx', lo, hi. split; [exact Ea'|]. split; [exact Hbr|]. split; [exact I1|]. split; [exact I2|]. split; assumption.
  Qed.

  (* a file assembled from well-formed blocks, with file filters rebuilt from all of its rows
     (copied blocks are re-streamed for exactly this), is well formed *)
  Theorem make_file_wf blocks :
    (forall b r, In b blocks -> In r (bk_rows b) ->
       covers tok (bk_filters b) (walk_row (sr_json r)) /\ covers_row (bk_meta b) (sr_pre r)) ->
    wf_file tok (make_file tok locs blocks).
  Proof.
    intros H b Hb r Hr. simpl in Hb. destruct (H b r Hb Hr) as [C1 C2].
    split; [exact C1|]. split; [|exact C2]. simpl. apply filters_for_covers.
    apply in_flat_map. exists b. auto.
  Qed.
End Idx.

(* ---------------------------------------------------------------- C24: pruning decisions *)
Lemma pq_none_no_conditions q : q_bloom q = None -> q_regex q = None -> pq q = None.
Proof. unfold pq, prune_query. intros -> ->. reflexivity. Qed.

Lemma no_region_without_conditions q f : pq q = None -> reads_region q f = false.
Proof. unfold reads_region. intros ->. reflexivity. Qed.

Lemma existsb_false_iff {A} (p : A -> bool) l : existsb p l = false <-> forall x, In x l -> p x = false.
Proof.
  induction l as [|x l IH]; simpl; [tauto|]. rewrite orb_false_iff, IH. split.
  - intros [H1 H2] y [<-|Hy]; auto.
  - intro H. split; [apply H; auto| intros y Hy; apply H; auto].
Qed.

Lemma no_open_pruned_file q f : prune_q (fl_filters f) (pq q) = false -> opens_file q f = false.
Proof.
  intro H. unfold opens_file, reads_region, file_candidate, reads_rows. rewrite H.
  rewrite andb_false_r. simpl. replace (match pq q with None => false | Some _ => false end) with false by (destruct (pq q); reflexivity).
  simpl. apply existsb_false_iff. intros b _. unfold block_selected. rewrite H. rewrite andb_false_r. reflexivity.
Qed.

Lemma no_rows_pruned_by_prefilter q f b : block_passes (q_pre q) (bk_meta b) = false -> reads_rows q f b = false.
Proof. intro H. unfold reads_rows, block_selected. rewrite H. reflexivity. Qed.

Lemma no_rows_pruned_by_block_filters q f b : prune_q (bk_filters b) (pq q) = false -> reads_rows q f b = false.
Proof. intro H. unfold reads_rows, block_selected. rewrite H. apply andb_false_r. Qed.

Lemma no_region_for_prefiltered_out q f :
  (forall b, In b (fl_blocks f) -> block_passes (q_pre q) (bk_meta b) = false) -> opens_file q f = false.
Proof.
  intro H. unfold opens_file, reads_region, file_candidate, reads_rows, passes_pre.
  assert (E : existsb (fun b => block_passes (q_pre q) (bk_meta b)) (fl_blocks f) = false) by (apply existsb_false_iff; exact H).
  rewrite E. simpl. replace (match pq q with None => false | Some _ => false end) with false by (destruct (pq q); reflexivity).
  simpl. apply existsb_false_iff. intros b Hb. unfold block_selected. rewrite (H b Hb). reflexivity.
Qed.

(* rows are only produced from blocks whose row data is read *)
Lemma results_only_from_read_blocks tok re q files r :
  In r (run_query tok re q files) ->
  exists f b, In f files /\ In b (fl_blocks f) /\ reads_rows q f b = true /\ opens_file q f = true /\ In r (bk_rows b).
Proof.
  intro H. apply in_run_query in H as [f [b [Hf [Hb [Hs [Hr _]]]]]]. exists f, b. repeat split; auto.
  unfold opens_file. apply orb_true_iff. right. apply existsb_exists. exists b. auto.
Qed.

(* ---------------------------------------------------------------- composition: flush then query *)
Lemma flush_then_query tok re locs keys buffers q pb r :
  (forall pb', In pb' buffers -> rows_ok keys (fst pb') (snd pb')) -> pre_in64 q ->
  In pb buffers -> In r (snd pb) ->
  row_matches tok re q r = true -> row_pre q r = true ->
  In r (run_query tok re q [flush_file tok locs keys buffers]).
Proof.
  intros Hok H64 Hpb Hr Hm Hp.
  apply (no_false_negatives tok re q [flush_file tok locs keys buffers] (flush_file tok locs keys buffers)
           (make_block tok locs keys (fst pb) (snd pb)) r); auto.
  - intros f [<-|[]]. apply flush_file_wf. exact Hok.
  - left. reflexivity.
  - simpl. apply in_map_iff. exists pb. auto.
Qed.
