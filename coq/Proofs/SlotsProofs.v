(* The shared query semaphore (Model/Slots.v): never more slots in use than the capacity, for any
   number of workers of any number of queries and any sequence of acquire/release. *)
From BS Require Import Model.Slots.
From Coq Require Import List Bool Arith Lia.
Import ListNotations.

Inductive sreachable (cap n : nat) : sem -> Prop :=
| sr_init : sreachable cap n (sinit cap n)
| sr_step s l s' : sreachable cap n s -> slot_step s l = Some s' -> sreachable cap n s'.

Definition count_held (l : list bool) : nat := length (filter (fun b => b) l).

Lemma used_eq s : used s = count_held (s_held s).
Proof. reflexivity. Qed.

Lemma count_held_set_true w l :
  nth_error l w = Some false -> count_held (set_held w true l) = S (count_held l).
Proof.
  revert w. induction l as [|b t IH]; intros w H; destruct w; cbn in *; try discriminate.
  - injection H as ->. reflexivity.
  - unfold count_held in *. cbn. destruct b; cbn; rewrite (IH _ H); reflexivity.
Qed.

Lemma count_held_set_false w l :
  nth_error l w = Some true -> S (count_held (set_held w false l)) = count_held l.
Proof.
  revert w. induction l as [|b t IH]; intros w H; destruct w; cbn in *; try discriminate.
  - injection H as ->. reflexivity.
  - unfold count_held in *. cbn. destruct b; cbn; rewrite <- (IH _ H); reflexivity.
Qed.

Lemma count_held_repeat n : count_held (repeat false n) = 0.
Proof. induction n; cbn; auto. Qed.

Lemma set_held_length w v l : length (set_held w v l) = length l.
Proof. revert w. induction l; intros [|w]; cbn; auto. Qed.

Lemma nth_set_held w v l k :
  nth_error (set_held w v l) k = if (w =? k)%nat then (match nth_error l w with Some _ => Some v | None => None end) else nth_error l k.
Proof.
  revert w k. induction l as [|b t IH]; intros w k.
  - destruct w, k; cbn; auto; destruct (w =? k)%nat; auto.
  - destruct w, k; cbn; auto.
Qed.

Lemma slot_step_spec s l s' :
  slot_step s l = Some s' ->
  s_cap s' = s_cap s /\ length (s_held s') = length (s_held s) /\
  match l with
  | SAcqOk w => nth_error (s_held s) w = Some false /\ used s < s_cap s /\ used s' = S (used s) /\ nth_error (s_held s') w = Some true
  | SAcqCtx w => s' = s /\ nth_error (s_held s) w = Some false
  | SRel w => nth_error (s_held s) w = Some true /\ S (used s') = used s /\ nth_error (s_held s') w = Some false
  end.
Proof.
  destruct s as [cap held]. destruct l; unfold slot_step; cbn [s_held s_cap]; intros H.
  - destruct (nth_error held w) as [[|]|] eqn:E; try discriminate.
    destruct (used {| s_cap := cap; s_held := held |} <? cap) eqn:U; [|discriminate]. injection H as <-. cbn [s_held s_cap].
    apply Nat.ltb_lt in U. rewrite set_held_length, !used_eq in *. cbn [s_held s_cap] in *. rewrite (count_held_set_true _ _ E).
    rewrite nth_set_held, Nat.eqb_refl, E. repeat split; auto.
  - destruct (nth_error held w) as [[|]|] eqn:E; try discriminate. injection H as <-. repeat split; auto.
  - destruct (nth_error held w) as [[|]|] eqn:E; try discriminate. injection H as <-. cbn [s_held s_cap].
    rewrite set_held_length, !used_eq. cbn [s_held s_cap]. rewrite (count_held_set_false _ _ E), nth_set_held, Nat.eqb_refl, E. repeat split; auto.
Qed.

(* C22: never more slots in use than MaxQueryConcurrency *)
Theorem slots_bounded cap n s : sreachable cap n s -> used s <= s_cap s /\ s_cap s = cap /\ length (s_held s) = n.
Proof.
  induction 1 as [|s l s' R IH H].
  - rewrite used_eq. unfold sinit. cbn [s_held s_cap]. rewrite count_held_repeat, repeat_length. lia.
  - destruct IH as [B [C L]]. destruct (slot_step_spec _ _ _ H) as [C' [L' S]]. rewrite C', L'.
    split; [|auto]. destruct l; destruct S as [? S]; try lia. subst. exact B.
Qed.

(* occupancy toggles, it does not nest: acquire on a held slot takes nothing, release of an unheld one frees nothing *)
Theorem slot_toggle s w :
  (nth_error (s_held s) w = Some true -> call_step s (CallAcquire w true) = Some s /\ call_step s (CallAcquire w false) = None) /\
  (nth_error (s_held s) w = Some false -> call_step s (CallRelease w) = Some s).
Proof. split; intros H; unfold call_step; rewrite H; auto. Qed.

(* a call that changes the count changes it by exactly one, for exactly this worker *)
Theorem call_step_used s c s' :
  call_step s c = Some s' ->
  match c with
  | CallAcquire w ret => (ret = true -> nth_error (s_held s') w = Some true) /\ (ret = false -> s' = s) /\ used s <= used s' <= S (used s)
  | CallRelease w => nth_error (s_held s') w = Some false /\ used s' <= used s <= S (used s')
  end.
Proof.
  destruct c as [w ret|w]; unfold call_step; destruct (nth_error (s_held s) w) as [[|]|] eqn:E; try discriminate; intros H.
  - destruct ret; [|discriminate]. injection H as <-. repeat split; auto; try discriminate; lia.
  - destruct ret.
    + destruct (slot_step_spec _ _ _ H) as [_ [_ [_ [_ [U N]]]]]. repeat split; auto; try discriminate; lia.
    + destruct (slot_step_spec _ _ _ H) as [_ [_ [-> _]]]. repeat split; auto; try discriminate; lia.
  - destruct (slot_step_spec _ _ _ H) as [_ [_ [_ [U N]]]]. split; [auto|lia].
  - injection H as <-. split; [auto|lia].
Qed.
