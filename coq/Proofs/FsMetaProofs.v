(* FileSystemDataStore used as MetaStore, histories without merges (C14, restricted statement). *)
From BS Require Import Model.MetaStores Proofs.MetaStoresProofs.
From Coq Require Import List Bool Arith Lia Permutation.
Import ListNotations.
Open Scope nat_scope.

Definition no_merge (l : mlabel) : bool :=
  match l with
  | LMStart _ | LMCreate _ | LMPublish | LMUpdate | LMRemove _ | LMEnd | LMAbort => false
  | _ => true
  end.

Definition therel (fs : list file) (f : nat) : bool := match nth_error fs f with Some x => fl_there x | None => false end.

(* published, and its flush has committed: nothing removes such a file when there are no merges *)
Definition stable (fs : list file) (pending : list nat) (f : nat) : Prop := therel fs f = true /\ ~ In f pending.

Lemma nth_set_there s g b f :
  nth_error (set_there g b s) f =
    if f =? g then option_map (fun x => mkFile (fl_blocks x) b (fl_pub x || b)) (getf s g) else nth_error (s_files s) f.
Proof.
  unfold set_there, getf. destruct (nth_error (s_files s) g) as [x|] eqn:E.
  - rewrite nth_error_upd_nth. destruct (f =? g) eqn:Ef; [|reflexivity].
    assert (Hlt : g < length (s_files s)) by (apply nth_error_Some; congruence).
    apply Nat.ltb_lt in Hlt. rewrite Hlt. reflexivity.
  - destruct (f =? g) eqn:Ef; [|reflexivity]. apply Nat.eqb_eq in Ef. subst. exact E.
Qed.

Lemma therel_lt fs f : therel fs f = true -> f < length fs.
Proof. unfold therel. intro H. apply nth_error_Some. destruct (nth_error fs f); [congruence|discriminate]. Qed.

Lemma stable_set_there s g b p' f :
  In g (s_pending s) -> (forall x, In x p' -> In x (s_pending s)) ->
  stable (s_files s) (s_pending s) f -> stable (set_there g b s) p' f.
Proof.
  intros Hg Hsub [Ht Hn]. split; [|intro K; apply Hn, Hsub, K].
  unfold therel. rewrite nth_set_there. destruct (f =? g) eqn:E; [|exact Ht].
  apply Nat.eqb_eq in E. subst. contradiction.
Qed.

Lemma sub_rows_nodup fs L l : NoDup (rows_l fs L) -> NoDup l -> incl l L -> NoDup (rows_l fs l).
Proof.
  intros HL. induction l as [|a t IH]; intros Hn Hi; [constructor|].
  inversion Hn; subst. unfold rows_l in *. simpl. apply nodup_app_iff.
  split.
  - assert (Ha : In a L) by (apply Hi; left; reflexivity).
    clear - HL Ha. induction L as [|b L IH]; [destruct Ha|]. simpl in HL. apply nodup_app_iff in HL as [H1 [H2 H3]].
    destruct Ha as [->|Ha]; auto.
  - split; [apply IH; [assumption|intros x Hx; apply Hi; right; exact Hx]|].
    intros r Hr Hr2. apply in_flat_map in Hr2 as [b [Hb Hrb]].
    assert (a = b).
    { apply (flat_map_nodup_inj (frows_l fs) L r a b HL); auto. apply Hi; left; reflexivity. apply Hi; right; exact Hb. }
    subst. contradiction.
Qed.

(* ---------------------------------------------------------------- invariant *)
Definition fq (fs : list file) (pending acked ingested : list nat) (q : query) : Prop :=
  incl (q_acked0 q) acked /\
  (forall fb, In fb (q_todo q) -> fst fb < length fs) /\
  (q_done q = true -> q_todo q = [] /\ q_listing q = Some []) /\
  match q_listing q, q_snap q with
  | None, None => q_got q = [] /\ q_todo q = []
  | Some L, Some sn =>
      (forall f, In f sn -> f < length fs) /\ NoDup sn /\ (forall f, In f sn -> In f L -> False) /\
      (q_err q = false -> Permutation (q_got q ++ flat_map (brows_l fs) (q_todo q)) (rows_l fs sn)) /\
      (forall r, In r (q_acked0 q) -> exists f, stable fs pending f /\ In r (frows_l fs f) /\ (In f L \/ In f sn))
  | _, _ => False
  end.

Record FI (s : mstate) : Prop := mkFI {
  fi_all : NoDup (rows_l (s_files s) (seq 0 (length (s_files s))));
  fi_ing : forall f, f < length (s_files s) -> incl (frows_l (s_files s) f) (s_ingested s);
  fi_lt : forall f, In f (s_pending s ++ s_commit s) -> f < length (s_files s);
  fi_ack : forall r, In r (s_acked s) -> exists f, stable (s_files s) (s_pending s) f /\ In r (frows_l (s_files s) f);
  fi_commit : forall f, In f (s_commit s) -> stable (s_files s) (s_pending s) f;
  fi_pub : forall f, In f (s_pending s) -> published s f = true -> therel (s_files s) f = true;
  fi_merge : s_merge s = None;
  fi_q : forall i q, nth_error (s_queries s) i = Some q -> fq (s_files s) (s_pending s) (s_acked s) (s_ingested s) q
}.

Lemma fi_init : FI m0.
Proof.
  constructor; simpl.
  - constructor.
  - intros f H; lia.
  - tauto.
  - tauto.
  - tauto.
  - tauto.
  - reflexivity.
  - intros i q H. destruct i; discriminate.
Qed.

(* queries only depend on the immutable blocks, on growing sets, and on stable files staying stable *)
Lemma fq_ext fs fs' p p' ack ack' ing ing' q :
  fext fs fs' -> incl ack ack' -> incl ing ing' ->
  (forall f, stable fs p f -> stable fs' p' f) ->
  fq fs p ack ing q -> fq fs' p' ack' ing' q.
Proof.
  intros Hf Ha Hi Hst [Q1 [Q2 [Q3 Q4]]]. pose proof (fext_length _ _ Hf) as Hlen.
  assert (Htodo : flat_map (brows_l fs') (q_todo q) = flat_map (brows_l fs) (q_todo q)).
  { rewrite !flat_map_concat_map. f_equal. apply map_ext_in. intros fb Hfb. apply brows_ext; auto. }
  split; [eapply incl_tran; eauto|]. split; [intros fb Hfb; specialize (Q2 fb Hfb); lia|]. split; [exact Q3|].
  destruct (q_listing q) as [L|], (q_snap q) as [sn|]; auto.
  destruct Q4 as [S1 [S2 [S3 [S4 S5]]]].
  rewrite (rows_ext fs fs' sn Hf S1), Htodo.
  split; [intros f Hfi; specialize (S1 f Hfi); lia|]. split; [exact S2|]. split; [exact S3|]. split; [exact S4|].
  intros r Hr. destruct (S5 r Hr) as [f [Hs [Hin Hw]]]. exists f. split; [apply Hst; exact Hs|]. split; [|exact Hw].
  rewrite (frows_ext fs fs' f Hf); [exact Hin|]. destruct Hs as [Ht _]. apply therel_lt. exact Ht.
Qed.

Lemma fi_qs s fs' p' ack' ing' :
  FI s -> fext (s_files s) fs' -> incl (s_acked s) ack' -> incl (s_ingested s) ing' ->
  (forall f, stable (s_files s) (s_pending s) f -> stable fs' p' f) ->
  forall i q, nth_error (s_queries s) i = Some q -> fq fs' p' ack' ing' q.
Proof. intros F Hf Ha Hi Hs i q Hq. apply (fq_ext _ _ _ _ _ _ _ _ _ Hf Ha Hi Hs). apply (fi_q _ F i q Hq). Qed.

Lemma stable_same_files fs p p' f : (forall x, In x p' -> In x p) -> stable fs p f -> stable fs p' f.
Proof. intros Hs [H1 H2]. split; [exact H1|intro K; apply H2, Hs, K]. Qed.

Lemma therel_ext fs x f : f < length fs -> therel (fs ++ [x]) f = therel fs f.
Proof. intro H. unfold therel. rewrite nth_error_app1 by exact H. reflexivity. Qed.

Lemma fi_setq s i q' :
  FI s -> fq (s_files s) (s_pending s) (s_acked s) (s_ingested s) q' -> FI (set_q i q' s).
Proof.
  intros F Hq. destruct F. constructor; cbn [set_q s_files s_meta s_pending s_commit s_acked s_ingested s_merge s_queries]; auto.
  intros j q Hj. rewrite nth_error_upd_nth in Hj. destruct (j =? i).
  - destruct (i <? length (s_queries s)); [|discriminate]. inversion Hj; subst q. exact Hq.
  - eauto.
Qed.

Lemma In_listed s f : In f (listed s) <-> f < length (s_files s) /\ has_entry s f = true.
Proof. unfold listed. rewrite filter_In, in_seq. split; intros [H1 H2]; split; auto; lia. Qed.

Lemma NoDup_remove_all xs l : NoDup l -> NoDup (remove_all xs l).
Proof. apply NoDup_filter. Qed.

Lemma fi_step s l s' : FI s -> no_merge l = true -> mstep FsMeta s l = Some s' -> FI s'.
Proof.
  intros F Hnm H. destruct l; try discriminate Hnm; cbn [mstep] in H.
  - (* LFCreate *) ifs H. split_and E.
    set (fs' := s_files s ++ [mkFile blocks false false]).
    assert (Hf : fext (s_files s) fs') by apply fext_app.
    assert (Hlen : length fs' = S (length (s_files s))) by (unfold fs'; rewrite app_length; simpl; lia).
    assert (Hnew : frows_l fs' (length (s_files s)) = concat blocks) by (unfold fs'; rewrite frows_new; reflexivity).
    assert (Hst : forall f, stable (s_files s) (s_pending s) f -> stable fs' (s_pending s ++ [length (s_files s)]) f).
    { intros f [H1 H2]. pose proof (therel_lt _ _ H1) as Hlt. split; [unfold fs'; rewrite therel_ext; assumption|].
      intro K. apply in_app_or in K as [K|[K|[]]]; [contradiction|lia]. }
    constructor; cbn [s_files s_meta s_pending s_commit s_acked s_ingested s_merge s_queries].
    + rewrite Hlen, seq_S, rows_l_app. rewrite (rows_ext _ fs' _ Hf) by (intros f Hfi; apply in_seq in Hfi; lia).
      assert (Hone : rows_l fs' [0 + length (s_files s)] = concat blocks)
        by (unfold rows_l; cbn [flat_map plus]; rewrite app_nil_r; exact Hnew).
      rewrite Hone.
      apply nodup_app_iff. split; [apply (fi_all _ F)|].
      split; [apply nodupn_NoDup; assumption|]. intros r Hr Hr2. apply (disjn_disj _ _ E0 r Hr2).
      apply in_rows_l in Hr as [f [Hfi Hrf]]. apply in_seq in Hfi. apply (fi_ing _ F f); [lia|exact Hrf].
    + intros f Hlt. rewrite Hlen in Hlt. destruct (Nat.eq_dec f (length (s_files s))) as [->|Hne].
      * rewrite Hnew. apply incl_appr, incl_refl.
      * rewrite (frows_ext _ fs' f Hf) by lia. apply incl_appl. apply (fi_ing _ F). lia.
    + intros f Hfi. rewrite Hlen. rewrite <- app_assoc in Hfi. apply in_app_or in Hfi as [Hfi|Hfi].
      * assert (f < length (s_files s)) by (apply (fi_lt _ F); apply in_or_app; auto). lia.
      * destruct Hfi as [<-|Hfi]; [lia|]. assert (f < length (s_files s)) by (apply (fi_lt _ F); apply in_or_app; auto). lia.
    + intros r Hr. destruct (fi_ack _ F r Hr) as [f [Hs Hin]]. exists f. split; [apply Hst; exact Hs|].
      rewrite (frows_ext _ fs' f Hf); [exact Hin|]. destruct Hs as [Ht _]. apply therel_lt; exact Ht.
    + intros f Hfi. apply Hst. apply (fi_commit _ F f Hfi).
    + intros f Hfi Hp. unfold published, getf in Hp. cbn [s_files] in Hp. fold fs' in Hp.
      apply in_app_or in Hfi as [Hfi|[<-|[]]].
      * assert (Hlt : f < length (s_files s)) by (apply (fi_lt _ F); apply in_or_app; auto).
        unfold fs' in *. rewrite therel_ext by exact Hlt. rewrite nth_error_app1 in Hp by exact Hlt. apply (fi_pub _ F f Hfi). exact Hp.
      * unfold fs' in Hp. rewrite nth_error_app2, Nat.sub_diag in Hp by lia. discriminate.
    + apply (fi_merge _ F).
    + apply (fi_qs s fs' _ _ _ F Hf (incl_refl _)); [apply incl_appl, incl_refl|exact Hst].
  - (* LFPublish *) ifs H. split_and E. apply memn_In in E.
    assert (Hf : fext (s_files s) (set_there f true s)) by apply fext_set_there.
    assert (Hl : length (set_there f true s) = length (s_files s)) by apply length_set_there.
    assert (Hst : forall g, stable (s_files s) (s_pending s) g -> stable (set_there f true s) (s_pending s) g)
      by (intros g Hg; apply (stable_set_there s f true _ g E (fun x Hx => Hx) Hg)).
    constructor; cbn [s_files s_meta s_pending s_commit s_acked s_ingested s_merge s_queries].
    + rewrite Hl. rewrite (rows_ext _ _ _ Hf) by (intros g Hg; apply in_seq in Hg; lia). apply (fi_all _ F).
    + intros g Hlt. rewrite Hl in Hlt. rewrite (frows_ext _ _ g Hf Hlt). apply (fi_ing _ F g Hlt).
    + intros g Hg. rewrite Hl. apply (fi_lt _ F g Hg).
    + intros r Hr. destruct (fi_ack _ F r Hr) as [g [Hs Hin]]. exists g. split; [apply Hst; exact Hs|].
      rewrite (frows_ext _ _ g Hf); [exact Hin|]. destruct Hs as [Ht _]. apply therel_lt; exact Ht.
    + intros g Hg. apply Hst. apply (fi_commit _ F g Hg).
    + intros g Hg Hp. unfold published, getf in Hp. cbn [s_files] in Hp. unfold therel. rewrite nth_set_there in *.
      destruct (g =? f) eqn:Eg.
      * unfold getf in *. destruct (nth_error (s_files s) f); cbn in *; [reflexivity|discriminate Hp].
      * apply (fi_pub _ F g Hg). exact Hp.
    + apply (fi_merge _ F).
    + apply (fi_qs s _ _ _ _ F Hf (incl_refl _) (incl_refl _) Hst).
  - (* LFUpdate *) ifs H. split_and E. apply memn_In in E.
    assert (Hsub : forall x, In x (remove_all [f] (s_pending s)) -> In x (s_pending s)) by (intros x Hx; apply In_remove_all in Hx; tauto).
    assert (Hst : forall g, stable (s_files s) (s_pending s) g -> stable (s_files s) (remove_all [f] (s_pending s)) g)
      by (intros g Hg; apply (stable_same_files _ _ _ g Hsub Hg)).
    assert (Hthere : therel (s_files s) f = true).
    { apply orb_true_iff in E0 as [E0|E0]; [exact E0|].
      apply (fi_pub _ F f E E0). }
    constructor; cbn [s_files s_meta s_pending s_commit s_acked s_ingested s_merge s_queries].
    + apply (fi_all _ F).
    + apply (fi_ing _ F).
    + intros g Hg. apply (fi_lt _ F). apply in_app_or in Hg as [Hg|Hg]; apply in_or_app; [left; apply Hsub; exact Hg|].
      apply in_app_or in Hg as [Hg|[<-|[]]]; [right; exact Hg|left; exact E].
    + intros r Hr. destruct (fi_ack _ F r Hr) as [g [Hs Hin]]. exists g. split; [apply Hst; exact Hs|exact Hin].
    + intros g Hg. apply in_app_or in Hg as [Hg|[<-|[]]]; [apply Hst; apply (fi_commit _ F g Hg)|].
      split; [exact Hthere|]. intro K. apply In_remove_all in K as [_ K]. apply K. left. reflexivity.
    + intros g Hg Hp. apply (fi_pub _ F g (Hsub g Hg) Hp).
    + apply (fi_merge _ F).
    + apply (fi_qs s _ _ _ _ F (fext_refl _) (incl_refl _) (incl_refl _) Hst).
  - (* LFAck *) ifs H. apply memn_In in E.
    constructor; cbn [s_files s_meta s_pending s_commit s_acked s_ingested s_merge s_queries]; try apply F.
    + intros g Hg. apply (fi_lt _ F). apply in_app_or in Hg as [Hg|Hg]; apply in_or_app; [left; exact Hg|right]. apply In_remove_all in Hg. tauto.
    + intros r Hr. apply in_app_or in Hr as [Hr|Hr]; [apply (fi_ack _ F r Hr)|].
      exists f. split; [apply (fi_commit _ F f E)|exact Hr].
    + intros g Hg. apply In_remove_all in Hg as [Hg _]. apply (fi_commit _ F g Hg).
    + apply (fi_qs s _ _ _ _ F (fext_refl _) (incl_appl _ (incl_refl _)) (incl_refl _)). auto.
  - (* LFFail *) ifs H. apply memn_In in E.
    assert (Hf : fext (s_files s) (set_there f false s)) by apply fext_set_there.
    assert (Hl : length (set_there f false s) = length (s_files s)) by apply length_set_there.
    assert (Hsub : forall x, In x (remove_all [f] (s_pending s)) -> In x (s_pending s)) by (intros x Hx; apply In_remove_all in Hx; tauto).
    assert (Hst : forall g, stable (s_files s) (s_pending s) g -> stable (set_there f false s) (remove_all [f] (s_pending s)) g)
      by (intros g Hg; apply (stable_set_there s f false _ g E Hsub Hg)).
    constructor; cbn [s_files s_meta s_pending s_commit s_acked s_ingested s_merge s_queries].
    + rewrite Hl. rewrite (rows_ext _ _ _ Hf) by (intros g Hg; apply in_seq in Hg; lia). apply (fi_all _ F).
    + intros g Hlt. rewrite Hl in Hlt. rewrite (frows_ext _ _ g Hf Hlt). apply (fi_ing _ F g Hlt).
    + intros g Hg. rewrite Hl. apply (fi_lt _ F). apply in_app_or in Hg as [Hg|Hg]; apply in_or_app; [left; apply Hsub; exact Hg|right; exact Hg].
    + intros r Hr. destruct (fi_ack _ F r Hr) as [g [Hs Hin]]. exists g. split; [apply Hst; exact Hs|].
      rewrite (frows_ext _ _ g Hf); [exact Hin|]. destruct Hs as [Ht _]. apply therel_lt; exact Ht.
    + intros g Hg. apply Hst. apply (fi_commit _ F g Hg).
    + intros g Hg Hp. apply In_remove_all in Hg as [Hg Hne]. unfold published, getf in Hp. cbn [s_files] in Hp.
      unfold therel. rewrite nth_set_there in *.
      destruct (g =? f) eqn:Eg; [apply Nat.eqb_eq in Eg; subst; exfalso; apply Hne; left; reflexivity|].
      apply (fi_pub _ F g Hg). exact Hp.
    + apply (fi_merge _ F).
    + apply (fi_qs s _ _ _ _ F Hf (incl_refl _) (incl_refl _) Hst).
  - (* LQStart *) ifs H. destruct F. constructor; cbn [s_files s_meta s_pending s_commit s_acked s_ingested s_merge s_queries]; auto.
    intros j q Hj. destruct (lt_dec j (length (s_queries s))).
    + rewrite nth_error_app1 in Hj by lia. eauto.
    + rewrite nth_error_app2 in Hj by lia. destruct (j - length (s_queries s)) as [|k]; [|destruct k; discriminate].
      inversion Hj; subst q. unfold fq; cbn. split; [apply incl_refl|]. split; [intros fb []|]. split; [discriminate|auto].
  - (* LQSnap *) discriminate.
  - (* LQList *) ifs H.
    assert (Hl : q_listing q0 = None) by (destruct (q_listing q0); [cbn in *; discriminate|reflexivity]).
    assert (Hs : q_snap q0 = None) by (destruct (q_snap q0); [cbn in *; rewrite ?andb_false_r in *; cbn in *; try discriminate|reflexivity]).
    apply fi_setq; [exact F|].
    pose proof (fi_q _ F q q0 E) as [Q1 [Q2 [Q3 Q4]]]. rewrite Hl, Hs in Q4. destruct Q4 as [Hgot Htodo].
    unfold fq; cbn. split; [exact Q1|]. split; [exact Q2|]. split; [discriminate|].
    split; [intros f []|]. split; [constructor|]. split; [intros f []|].
    split; [intros _; rewrite Hgot, Htodo; cbn; apply Permutation_refl|].
    intros r Hr. destruct (fi_ack _ F r (Q1 r Hr)) as [f [Hst Hin]]. exists f. split; [exact Hst|]. split; [exact Hin|]. left.
    destruct Hst as [Ht _]. apply In_listed. split; [apply therel_lt; exact Ht|].
    unfold has_entry. unfold there, getf. unfold therel in Ht. rewrite Ht. reflexivity.
  - (* LQParse *) ifs H.
    repeat match goal with Hc : _ && _ = true |- _ => apply andb_true_iff in Hc as [? ?] end.
    match goal with Hc : memn f _ = true |- _ => apply memn_In in Hc; rename Hc into E2 end.
    match goal with Hc : Bool.eqb yielded _ = true |- _ => apply eqb_prop in Hc; rename Hc into E3 end.
    apply fi_setq; [exact F|].
    pose proof (fi_q _ F q q0 E) as [Q1 [Q2 [Q3 Q4]]]. rewrite E0, E1 in Q4. destruct Q4 as [S1 [S2 [S3 [S4 S5]]]].
    assert (Hfl : forall fb, In fb (blocks_of s f) -> fst fb = f /\ f < length (s_files s)).
    { intros fb Hfb. unfold blocks_of, getf in Hfb. destruct (nth_error (s_files s) f) eqn:Ef; [|destruct Hfb].
      apply in_map_iff in Hfb as [i [<- _]]. split; [reflexivity|apply nth_error_Some; congruence]. }
    unfold fq; cbn. split; [exact Q1|]. split.
    { destruct yielded; [|exact Q2]. intros fb Hfb. apply in_app_or in Hfb as [Hfb|Hfb]; [apply Q2; exact Hfb|]. destruct (Hfl fb Hfb) as [-> Hlt]. exact Hlt. }
    split; [discriminate|].
    destruct yielded.
    + assert (Hth : therel (s_files s) f = true) by (unfold therel; unfold there, getf in E3; rewrite <- E3; reflexivity).
      split; [intros g Hg; apply in_app_or in Hg as [Hg|[<-|[]]]; [apply S1; exact Hg|apply therel_lt; exact Hth]|].
      split.
      { apply nodup_app_iff. split; [exact S2|]. split.
        - constructor; [intros []|constructor].
        - intros x Hx [Ex|[]]. subst x. apply (S3 f Hx E2). }
      split; [intros g Hg Hg2; apply In_remove_all in Hg2 as [Hg2 Hne]; apply in_app_or in Hg as [Hg|[<-|[]]]; [apply (S3 g Hg Hg2)|apply Hne; left; reflexivity]|].
      split.
      * intro He. rewrite flat_map_app, rows_l_app, app_assoc. apply Permutation_app; [apply S4; exact He|].
        change (blocks_of s f) with (blocks_l (s_files s) f). rewrite blocks_rows. unfold rows_l. cbn. rewrite app_nil_r. apply Permutation_refl.
      * intros r Hr. destruct (S5 r Hr) as [g [Hst [Hin [Hw|Hw]]]]; exists g; (split; [exact Hst|]); (split; [exact Hin|]).
        { destruct (Nat.eq_dec g f) as [->|Hne]; [right; apply in_or_app; right; left; reflexivity|left; apply In_remove_all; split; [exact Hw|intros [K|[]]; congruence]]. }
        { right. apply in_or_app. left. exact Hw. }
    + assert (Hth : therel (s_files s) f = false) by (unfold therel; unfold there, getf in E3; rewrite <- E3; reflexivity).
      split; [exact S1|]. split; [exact S2|].
      split; [intros g Hg Hg2; apply In_remove_all in Hg2 as [Hg2 _]; apply (S3 g Hg Hg2)|].
      split; [exact S4|].
      intros r Hr. destruct (S5 r Hr) as [g [Hst [Hin [Hw|Hw]]]]; exists g; (split; [exact Hst|]); (split; [exact Hin|]); [|right; exact Hw].
      left. apply In_remove_all. split; [exact Hw|]. intros [K|[]]. subst g. destruct Hst as [Ht _]. congruence.
  - (* LQRead *) ifs H. split_and E1. apply fi_setq; [exact F|].
    pose proof (fi_q _ F q q0 E) as [Q1 [Q2 [Q3 Q4]]].
    assert (Hrm : forall fb, In fb (remove_at i (q_todo q0)) -> In fb (q_todo q0)).
    { intros fb Hfb. apply (Permutation_in _ (Permutation_sym (nth_error_remove_at_perm _ _ _ E0))). right. exact Hfb. }
    unfold fq; cbn. split; [exact Q1|]. split; [intros fb Hfb; apply Q2, Hrm, Hfb|]. split; [discriminate|].
    destruct (q_listing q0) as [L|], (q_snap q0) as [sn|]; try contradiction.
    + destruct Q4 as [S1 [S2 [S3 [S4 S5]]]]. repeat split; auto.
      intro Herr. apply orb_false_iff in Herr as [He1 He2]. apply negb_false_iff in He2. subst ok.
      rewrite <- (S4 He1). rewrite <- app_assoc. apply Permutation_app_head.
      change (block_rows s p) with (brows_l (s_files s) p).
      rewrite (Permutation_flat_map (brows_l (s_files s)) (nth_error_remove_at_perm _ _ _ E0)). reflexivity.
    + destruct Q4 as [_ Ht]. rewrite Ht in E0. destruct i; discriminate.
  - (* LQEnd *) ifs H. apply fi_setq; [exact F|].
    pose proof (fi_q _ F q q0 E) as [Q1 [Q2 [Q3 Q4]]]. split_and E0.
    destruct (q_todo q0) eqn:Et; [|discriminate].
    destruct (q_snap q0) as [sn|] eqn:Es; [|discriminate].
    destruct (q_listing q0) as [[|x L]|] eqn:El; try discriminate; try contradiction.
    unfold fq; cbn. split; [exact Q1|]. split; [intros fb []|]. split; [auto|]. exact Q4.
Qed.

Lemma fi_run ls : forall s s', FI s -> forallb no_merge ls = true -> mrun FsMeta s ls = Some s' -> FI s'.
Proof.
  induction ls as [|l t IH]; simpl; intros s s' F Hn H; [inversion H; subst; exact F|].
  apply andb_true_iff in Hn as [H1 H2].
  destruct (mstep FsMeta s l) as [s1|] eqn:E; [|discriminate]. apply (IH s1 s' (fi_step s l s1 F H1 E) H2 H).
Qed.

(* C14 for FileSystemDataStore as MetaStore, histories without merges: every interleaving of queries
   with flushes (and failed flushes) *)
Lemma fs_no_merge_consistent ls s i q :
  forallb no_merge ls = true -> mrun FsMeta m0 ls = Some s -> nth_error (s_queries s) i = Some q ->
  q_done q = true -> q_err q = false ->
  NoDup (q_got q) /\ incl (q_acked0 q) (q_got q) /\ incl (q_got q) (s_ingested s).
Proof.
  intros Hn H Hq Hd He. pose proof (fi_run ls m0 s fi_init Hn H) as F.
  destruct (fi_q _ F i q Hq) as [Q1 [Q2 [Q3 Q4]]]. destruct (Q3 Hd) as [Ht Hl]. rewrite Hl in Q4.
  destruct (q_snap q) as [sn|]; [|contradiction].
  destruct Q4 as [S1 [S2 [S3 [S4 S5]]]]. specialize (S4 He). rewrite Ht in S4. cbn in S4. rewrite app_nil_r in S4.
  assert (Hnd : NoDup (rows_l (s_files s) sn)).
  { apply (sub_rows_nodup _ (seq 0 (length (s_files s)))); [apply (fi_all _ F)|exact S2|]. intros f Hf. apply in_seq. specialize (S1 f Hf). lia. }
  split; [apply (Permutation_NoDup (Permutation_sym S4) Hnd)|].
  split.
  - intros r Hr. apply (Permutation_in _ (Permutation_sym S4)). destruct (S5 r Hr) as [f [_ [Hin [[]|Hw]]]].
    apply in_rows_l. exists f. auto.
  - intros r Hr. apply (Permutation_in _ S4) in Hr. apply in_rows_l in Hr as [f [Hf Hrf]]. apply (fi_ing _ F f (S1 f Hf) r Hrf).
Qed.

(* non-vacuity: a scan that overlaps a flush (the new file appears between listing and parse) *)
Definition fs_ok : list mlabel :=
  fs_pre ++ [LQStart; LFCreate [[3]]; LQList 0; LQParse 0 0 true; LFPublish 2; LQParse 0 2 true; LQParse 0 1 true;
             LQRead 0 1 true; LFUpdate 2; LFAck 2; LQRead 0 0 true; LQRead 0 0 true; LQEnd 0].
Lemma fs_ok_run :
  exists s q, forallb no_merge fs_ok = true /\ mrun FsMeta m0 fs_ok = Some s /\ nth_error (s_queries s) 0 = Some q /\
    q_done q = true /\ q_err q = false /\ q_acked0 q = [1; 2] /\ q_got q = [3; 1; 2].
Proof. eexists. eexists. split; [reflexivity|]. split; [vm_compute; reflexivity|]. split; [reflexivity|]. cbn. auto 10. Qed.
