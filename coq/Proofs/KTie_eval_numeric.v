(* Kernel tie eval_numeric (DESIGN.md 10.7): the definition translated from the Go source equals the model.
   One file per kernel, so that a changed kernel only breaks the property files that state its tie. *)
From BS Require Import Lib.Bytes Lib.Wrap64 Lib.GoPrim Generated.Kernels Generated.KernelTie Model.MinMax Proofs.KernelEquiv Proofs.KernelEquivM.
From Coq Require Import ZArith List Bool Lia.
Import ListNotations.
Local Open Scope Z_scope.

Lemma k_eval_numeric_tie : tie_eval_numeric.
Proof.
  unfold tie_eval_numeric. first [exact I | k_open_M; k_auto k_proj_M].
Qed.
