(* Family P proofs, part 3: bounds (C09) and flush limits (C10). *)
From BS Require Import Model.Pipeline Proofs.PipelineBase Proofs.PipelineTruth.
From Coq Require Import List ZArith Bool Arith Lia Permutation.
Import ListNotations.
Open Scope Z_scope.

Lemma len_app {A} (a b : list A) : len (a ++ b) = len a + len b.
Proof. unfold len. rewrite app_length. lia. Qed.
Lemma len_cons {A} (x : A) l : len (x :: l) = 1 + len l.
Proof. unfold len. cbn [length]. lia. Qed.
Lemma len_nil {A} : len (@nil A) = 0.
Proof. reflexivity. Qed.
Lemma len_nonneg {A} (l : list A) : 0 <= len l.
Proof. unfold len. lia. Qed.

(* ---- processIngestRequest's arithmetic ---- *)
Lemma contrib_sums ct : contrib_wf ct = true -> 0 <= sum_rows ct /\ 0 <= sum_bytes ct /\ (ct <> [] -> 1 <= sum_rows ct).
Proof.
  induction ct as [|[p [n b]] t IH]; cbn; [intros _; repeat split; try lia; congruence|].
  intro H. apply andb_prop in H as [H1 H2]. apply andb_prop in H1 as [Hn Hb].
  apply Z.leb_le in Hn, Hb. destruct (IH H2) as (A & B & _). repeat split; lia.
Qed.

Lemma assoc_add_part_other p q n b parts : p <> q -> assoc p (add_part q n b parts) = assoc p parts.
Proof.
  intro Hne. induction parts as [|[x [xn xb]] t IH]; cbn.
  - destruct (Nat.eqb p q) eqn:E; auto. apply Nat.eqb_eq in E. contradiction.
  - destruct (Nat.eqb q x) eqn:E; cbn.
    + apply Nat.eqb_eq in E; subst. destruct (Nat.eqb p x) eqn:E2; auto. apply Nat.eqb_eq in E2. contradiction.
    + destruct (Nat.eqb p x); auto.
Qed.
Lemma assoc_add_contrib_other p ct parts : ~ In p (map fst ct) -> assoc p (add_contrib ct parts) = assoc p parts.
Proof.
  revert parts. induction ct as [|[q [n b]] t IH]; cbn; auto. intros parts Hn.
  rewrite IH by tauto. apply assoc_add_part_other. intro; subst; tauto.
Qed.

Lemma existsb_part_over c parts (ct : contrib) p0 v :
  existsb (fun '(p, _) => part_over c parts p) ct = false -> In (p0, v) ct -> part_over c parts p0 = false.
Proof.
  induction ct as [|[q w] t IH]; [intros _ []|]. cbn [existsb]. intros Hparts Hin.
  apply orb_false_elim in Hparts as [H1 H2]. destruct Hin as [E|Hin]; [inversion E; subst; exact H1|auto].
Qed.

Lemma below_after_add c r ct b :
  below_limits c b -> limit_flush c (buf_add r ct b) ct = false -> below_limits c (buf_add r ct b).
Proof.
  intros (Br & Bb & Bp) Hl. unfold limit_flush in Hl.
  apply orb_false_elim in Hl as [Hl Hbytes]. apply orb_false_elim in Hl as [Hparts Hrows].
  apply Z.leb_gt in Hrows, Hbytes. split; [exact Hrows|]. split; [exact Hbytes|].
  intros p n y Hp. cbn [buf_add b_parts] in Hp.
  destruct (in_dec Nat.eq_dec p (map fst ct)) as [Hin|Hout].
  - apply in_map_iff in Hin as ((p0 & v) & <- & Hin).
    pose proof (existsb_part_over _ _ _ _ _ Hparts Hin) as Ho.
    unfold part_over in Ho. cbn [buf_add b_parts fst] in Ho. cbn [fst] in Hp. rewrite Hp in Ho.
    apply orb_false_elim in Ho as [H1 H2]. apply Z.leb_gt in H1, H2. auto.
  - rewrite assoc_add_contrib_other in Hp by exact Hout. eauto.
Qed.

Lemma below_empty c : cfg_wf c -> below_limits c buf_empty.
Proof. intros (_ & _ & A & B). repeat split; cbn; try lia; discriminate. Qed.

(* ------------------------------------------------------------------ invariant: sizes *)
Definition small (c : cfg) (l : list nat) : Prop := len l <= c_max_rows c.

Record InvB (c : cfg) (s : state) : Prop := {
  b_ich : len (ich s) <= c_icap c;
  b_fch : len (fch s) <= c_fcap c;
  b_below : below_limits c (buf s);
  b_wrows : len (b_w (buf s)) <= b_rows (buf s);
  b_enq : forall f, apc s = AEnq f -> small c (fw f);
  b_aab : forall l, apc s = AAbandon l -> small c l;
  b_fchs : Forall (fun f => small c (fw f)) (fch s);
  b_wk : small c (wk_part s);
  b_pre : match apc s with AEnq _ | AAbandon _ => b_w (buf s) = [] | _ => True end }.

Lemma invb_init c : cfg_wf c -> InvB c init.
Proof.
  intros Hc. pose proof Hc as (A & B & C & D). split; cbn; unfold small; cbn; try lia; auto; try discriminate.
  now apply below_empty.
Qed.

Lemma kind_of_wf s r k : InvK s -> kind_of s r = Some k -> kind_wf k = true.
Proof.
  intros K H. unfold kind_of, lookup in H. destruct (assoc r (reqs s)) as [[k0 ch]|] eqn:E; [|discriminate].
  inversion H; subst. eapply (k_wf _ K). eapply assoc_In; eauto.
Qed.

Lemma mk_aab_inv l l' : mk_aab l = AAbandon l' -> l' = l.
Proof. destruct l; cbn; intro H; inversion H; auto. Qed.

Ltac invb_auto :=
  cbn [wk_of] in *; rewrite ?wk_of_mk_wack in *;
  try solve [ assumption | exact I | intros; discriminate | intros; congruence
            | match goal with |- match mk_aab ?l with _ => _ end => destruct l; reflexivity end
            | unfold small in *; rewrite ?len_app, ?len_cons, ?len_nil in *; cbn [wk_of]; lia
            | intros; match goal with H : mk_aab ?l = _ |- _ => destruct l; discriminate end ].

Lemma invb_step c s l s' : cfg_wf c -> InvK s -> InvB c s -> step c s l = Some s' -> InvB c s'.
Proof.
  intros Hc K [B1 B2 B3 B4 B5 B6 B7 B8 B9] H. pose proof (below_empty c Hc) as Be.
  pose proof B3 as B3'. destruct B3' as (Br & Bb & Bp).
  pose proof Hc as (C1 & C2 & C3 & C4). unfold wk_part in B8.
  step_cases H; bool_hyps; try match goal with Hw : wpc _ = _ |- _ => rewrite Hw in B8 end;
    split; unfold wk_part in *; sproj; rw_pcs; rw_hyps; invb_auto.
  - intros f0 E0; inversion E0; subst; cbn [fw mk_freq b_w]. unfold small. rewrite len_app, len_cons, len_nil. lia.
  - intros f0 E0; inversion E0; subst; cbn [fw mk_freq b_w buf_add]. unfold small. rewrite len_app, len_cons, len_nil. lia.
  - apply below_after_add; auto.
    destruct (limit_flush c (buf_add r (p :: c1) (buf s)) (p :: c1)); auto; discriminate.
  - cbn [buf_add b_w b_rows]. rewrite len_app, len_cons, len_nil.
    pose proof (kind_of_wf _ _ _ K Heqo) as Hw. cbn [kind_wf] in Hw.
    destruct (contrib_sums _ Hw) as (_ & _ & Hs). specialize (Hs ltac:(discriminate)). lia.
  - intros f0 E0; inversion E0; subst; cbn [fw mk_freq]. unfold small. lia.
  - apply Forall_app. split; auto.
  - intros l1 E0. apply mk_aab_inv in E0. subst. auto.
  - intros f0 E0; inversion E0; subst; cbn [fw mk_freq]. unfold small. lia.
  - now inversion B7.
  - now inversion B7.
  - intros l1 E0. apply mk_aab_inv in E0. subst. specialize (B6 _ eq_refl). unfold small in *. rewrite len_cons in B6. lia.
Qed.

Lemma reachable_invb c s : cfg_wf c -> reachable c s -> InvB c s.
Proof. intros Hc. induction 1; eauto using invb_init, invb_step, reachable_invk. Qed.

Lemma concat_small c (fs : list freq) :
  0 <= c_max_rows c -> Forall (fun f => small c (fw f)) fs -> len (concat (map fw fs)) <= len fs * c_max_rows c.
Proof.
  intros Hm. induction 1 as [|f t Hf Ht IH]; cbn [map concat]; [unfold len; cbn; lia|].
  rewrite len_app, len_cons. unfold small in Hf. nia.
Qed.

(* C09: the number of accepted requests not yet attempted is bounded by the configuration alone *)
Lemma unanswered_bound c s : cfg_wf c -> reachable c s -> unanswered s <= bound c.
Proof.
  intros Hc R. destruct (reachable_invb _ _ Hc R) as [B1 B2 B3 B4 B5 B6 B7 B8 B9].
  destruct Hc as (C1 & C2 & C3 & C4). destruct B3 as (Br & _ & _).
  unfold unanswered, bound, pipeline. rewrite !len_app.
  pose proof (concat_small c (fch s) ltac:(lia) B7) as Hf.
  assert (Hpost : len (a_post s) <= 1) by (unfold a_post; destruct (apc s); cbn; rewrite ?len_cons, ?len_nil; lia).
  assert (Hpre : len (a_pre s) + len (b_w (buf s)) <= c_max_rows c).
  { unfold a_pre. destruct (apc s) eqn:E; cbn [pre_of]; rewrite ?len_nil; try lia.
    - rewrite B9, len_nil. specialize (B5 _ eq_refl). unfold small in B5. lia.
    - rewrite B9, len_nil. specialize (B6 _ eq_refl). unfold small in B6. lia. }
  unfold small in B8. pose proof (len_nonneg (fch s)). nia.
Qed.

Lemma full_blocks c s r : len (ich s) = c_icap c -> step c s (LSent r) = None.
Proof.
  intro H. cbn [step]. destruct (mem r (pending s)); cbn; auto.
  replace (len (ich s) <? c_icap c) with false; auto. symmetry. apply Z.ltb_ge. lia.
Qed.

(* C10: what the actor's step on a valid non-empty batch does *)
Lemma buffer_step_limits c s fl s' : cfg_wf c -> reachable c s -> step c s (LActorBuffer fl) = Some s' ->
  below_limits c (buf s') /\
  (exists r ct, apc s = AHold r /\ kind_of s r = Some (KBatch true ct) /\
     (limit_flush c (buf_add r ct (buf s)) ct = true -> fl = true) /\
     (fl = true -> buf s' = buf_empty /\ apc s' = AEnq (mk_freq (buf_add r ct (buf s))) /\
                   fw (mk_freq (buf_add r ct (buf s))) = b_w (buf s) ++ [r]) /\
     (fl = false -> buf s' = buf_add r ct (buf s) /\ apc s' = AIdle)).
Proof.
  intros Hc R H. split.
  - eapply b_below. eapply (reachable_invb c s' Hc). eapply reach_step; eauto.
  - cbn [step] in H. step_inv H; sproj.
    + exists r, (p :: c1). repeat split; auto; try discriminate.
    + exists r, (p :: c1). repeat split; auto; try discriminate.
      destruct (limit_flush c (buf_add r (p :: c1) (buf s)) (p :: c1)); auto; discriminate.
Qed.

(* the time trigger: with rows buffered and the actor at its select, the ticker branch is enabled and issues the flush *)
Lemma tick_enabled c s : apc s = AIdle -> amode s = MRun -> 0 < b_rows (buf s) -> c_timeless c = false ->
  exists s', step c s LTickFlush = Some s' /\ apc s' = AEnq (mk_freq (buf s)) /\ buf s' = buf_empty.
Proof.
  intros Ha Hm Hr Ht. cbn [step]. rewrite Ha, Hm, Ht. replace (0 <? b_rows (buf s)) with true by (symmetry; now apply Z.ltb_lt).
  cbn. eexists; repeat split.
Qed.
