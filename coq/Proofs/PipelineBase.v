(* Family P proofs, part 1: tactics, the per-label effect of a step on the places, the
   place invariant (Loc, FIFO) and the lifecycle invariant of the write-pipeline LTS. *)
From BS Require Import Model.Pipeline.
From Coq Require Import List ZArith Bool Arith Lia Permutation.
Import ListNotations.
Open Scope Z_scope.

(* ------------------------------------------------------------------ tactics *)
Ltac sproj := cbn [start_flush start_workers add_finished set_reqs set_pending set_ich set_accepted set_started set_stopped
  set_ctxc set_fcanc set_armed set_sdone set_spc set_apc set_amode set_buf set_fch set_wpc set_wmode
  set_wclosed set_wlive set_finished set_visible set_commits mk_freq buf_empty
  reqs pending ich accepted started stopped ctxc fcanc armed sdone spc apc amode buf fch wpc wmode
  wclosed wlive finished visible commits b_w b_rows b_bytes b_parts fw fparts] in *.

(* invert [step c s l = Some s'] for a concrete label: split every guard *)
Ltac step_inv H :=
  repeat match type of H with
  | (match ?x with _ => _ end) = Some _ => destruct x eqn:?; try discriminate H
  | (if ?x then _ else _) = Some _ => destruct x eqn:?; try discriminate H
  | (let _ := _ in _) = Some _ => cbv zeta in H
  | Some (if ?x then _ else _) = Some _ => destruct x eqn:?
  | Some (match ?x with _ => _ end) = Some _ => destruct x eqn:?
  end;
  match type of H with Some _ = Some _ => inversion H; subst; clear H end.

Ltac rw_pcs := repeat match goal with H : ?f ?s = _ |- context [?f ?s] => rewrite H end.
Ltac pipe := unfold pipeline, wk_part, a_pre, a_post in *; sproj; rw_pcs; cbn [wk_of pre_of post_of app]; sproj.

(* ------------------------------------------------------------------ lists *)
Lemma wk_of_mk_wack x l : wk_of (mk_wack x l) = l.
Proof. destruct l; reflexivity. Qed.
Lemma pre_of_mk_aab l : pre_of (mk_aab l) = l.
Proof. destruct l; reflexivity. Qed.
Lemma post_of_mk_aab l : post_of (mk_aab l) = [].
Proof. destruct l; reflexivity. Qed.

Lemma mem_In r l : mem r l = true <-> In r l.
Proof.
  induction l as [|q t IH]; cbn; [split; [discriminate|tauto]|].
  rewrite orb_true_iff, IH, Nat.eqb_eq. split; intros [H|H]; auto.
Qed.
Lemma mem_false r l : mem r l = false <-> ~ In r l.
Proof. rewrite <- mem_In. destruct (mem r l); split; congruence. Qed.

Lemma remove1_perm r l : In r l -> Permutation l (r :: remove1 r l).
Proof.
  induction l as [|q t IH]; cbn; [tauto|]. intros [->|H].
  - rewrite Nat.eqb_refl. reflexivity.
  - destruct (Nat.eqb r q) eqn:E; [apply Nat.eqb_eq in E; subst; reflexivity|].
    rewrite (IH H) at 1. apply perm_swap.
Qed.
Lemma remove1_subset r l x : In x (remove1 r l) -> In x l.
Proof.
  induction l as [|q t IH]; cbn; [tauto|]. destruct (Nat.eqb r q); cbn; intuition.
Qed.

(* ------------------------------------------------------------------ what one step does to the places *)
(* every step either leaves the in-flight list, the finished list and the accepted list alone,
   or appends a newly accepted request, or moves one in-flight request to finished *)
Inductive delta (s s' : state) : Prop :=
| d_same : pipeline s' = pipeline s -> finished s' = finished s -> accepted s' = accepted s -> delta s s'
| d_sent r : pipeline s' = pipeline s ++ [r] -> finished s' = finished s -> accepted s' = accepted s ++ [r] ->
    In r (pending s) -> delta s s'
| d_fin l1 r l2 f : pipeline s = l1 ++ r :: l2 -> pipeline s' = l1 ++ l2 -> finished s' = finished s ++ [(r, f)] ->
    accepted s' = accepted s -> delta s s'.

(* workers exist only once started *)
Definition Idle0 (s : state) : Prop := started s = false -> apc s = ANone /\ wpc s = WNone.

Ltac same := apply d_same; pipe; rewrite ?wk_of_mk_wack, ?pre_of_mk_aab, ?post_of_mk_aab, ?app_nil_r, ?map_app, ?concat_app; cbn [map concat app];
  rewrite ?app_nil_r, <- ?app_assoc; cbn [app]; reflexivity.

Section Delta.
Variable c : cfg.
Variables s s' : state.
Hypothesis I0 : Idle0 s.

Lemma dl_LTry r k ch : step c s (LTry r k ch) = Some s' -> delta s s'.
Proof. intro H; cbn [step] in H; step_inv H; same. Qed.
Lemma dl_LRefuse : step c s LRefuse = Some s' -> delta s s'.
Proof. intro H; cbn [step] in H; step_inv H; same. Qed.
Lemma dl_LSent r : step c s (LSent r) = Some s' -> delta s s'.
Proof.
  intro H; cbn [step] in H; step_inv H. apply andb_prop in Heqb as [Hm _]. apply mem_In in Hm.
  apply (d_sent _ _ r); auto; pipe; rewrite <- ?app_assoc; reflexivity.
Qed.
Lemma dl_LCtxErr r : step c s (LCtxErr r) = Some s' -> delta s s'.
Proof. intro H; cbn [step] in H; step_inv H; same. Qed.
Lemma dl_LStart : step c s LStart = Some s' -> delta s s'.
Proof.
  intro H; cbn [step] in H; step_inv H. apply andb_prop in Heqb as [Hs _]. apply negb_true_iff in Hs.
  destruct (I0 Hs) as [Ha Hw]. same.
Qed.
Lemma dl_LStartNoop : step c s LStartNoop = Some s' -> delta s s'.
Proof. intro H; cbn [step] in H; step_inv H; same. Qed.
Lemma dl_LStopBegin : step c s LStopBegin = Some s' -> delta s s'.
Proof. intro H; cbn [step] in H; step_inv H; same. Qed.
Lemma dl_LStopFlag : step c s LStopFlag = Some s' -> delta s s'.
Proof.
  intro H; cbn [step] in H; step_inv H; [|same].
  apply andb_prop in Heqb as [_ Hs]. apply negb_true_iff in Hs. destruct (I0 Hs) as [Ha Hw]. same.
Qed.
Lemma dl_LCtxCancel : step c s LCtxCancel = Some s' -> delta s s'.
Proof. intro H; cbn [step] in H; step_inv H; same. Qed.
Lemma dl_LStopCtxDone : step c s LStopCtxDone = Some s' -> delta s s'.
Proof. intro H; cbn [step] in H; step_inv H; same. Qed.
Lemma dl_LFlushCancel : step c s LFlushCancel = Some s' -> delta s s'.
Proof. intro H; cbn [step] in H; step_inv H; same. Qed.
Lemma dl_LStopBr x : step c s (LStopBr x) = Some s' -> delta s s'.
Proof. intro H; destruct x; cbn [step] in H; step_inv H; same. Qed.
Lemma dl_LStopReturn x : step c s (LStopReturn x) = Some s' -> delta s s'.
Proof. intro H; destruct x; cbn [step] in H; step_inv H; same. Qed.
Lemma dl_LActorCtxDone : step c s LActorCtxDone = Some s' -> delta s s'.
Proof. intro H; cbn [step] in H; step_inv H; same. Qed.
Lemma dl_LActorTake r : step c s (LActorTake r) = Some s' -> delta s s'.
Proof. intro H; cbn [step] in H; step_inv H; apply Nat.eqb_eq in Heqb; subst; same. Qed.
Lemma dl_LActorForce : step c s LActorForce = Some s' -> delta s s'.
Proof. intro H; cbn [step] in H; step_inv H; same. Qed.
Lemma dl_LActorAckNow : step c s LActorAckNow = Some s' -> delta s s'.
Proof. intro H; cbn [step] in H; step_inv H; same. Qed.
Lemma dl_LActorReject : step c s LActorReject = Some s' -> delta s s'.
Proof. intro H; cbn [step] in H; step_inv H; same. Qed.
Lemma dl_LActorBuffer fl : step c s (LActorBuffer fl) = Some s' -> delta s s'.
Proof. intro H; cbn [step] in H; step_inv H; unfold buf_add; same. Qed.
Lemma dl_LTickFlush : step c s LTickFlush = Some s' -> delta s s'.
Proof. intro H; cbn [step] in H; step_inv H; same. Qed.
Lemma dl_LFqSent : step c s LFqSent = Some s' -> delta s s'.
Proof. intro H; cbn [step] in H; step_inv H; same. Qed.
Lemma dl_LFqAbandon : step c s LFqAbandon = Some s' -> delta s s'.
Proof. intro H; cbn [step] in H; step_inv H; same. Qed.
Lemma dl_LDrainEnd : step c s LDrainEnd = Some s' -> delta s s'.
Proof. intro H; cbn [step] in H; step_inv H; same. Qed.
Lemma dl_LActorExit : step c s LActorExit = Some s' -> delta s s'.
Proof. intro H; cbn [step] in H; step_inv H; same. Qed.
Lemma dl_LWorkerCtxDone : step c s LWorkerCtxDone = Some s' -> delta s s'.
Proof. intro H; cbn [step] in H; step_inv H; same. Qed.
Lemma dl_LWorkerTake : step c s LWorkerTake = Some s' -> delta s s'.
Proof. intro H; cbn [step] in H; step_inv H; same. Qed.
Lemma dl_LWorkerIngestDone : step c s LWorkerIngestDone = Some s' -> delta s s'.
Proof. intro H; cbn [step] in H; step_inv H; same. Qed.
Lemma dl_LWorkerExit : step c s LWorkerExit = Some s' -> delta s s'.
Proof. intro H; cbn [step] in H; step_inv H; same. Qed.
Lemma dl_LFlAbandoned : step c s LFlAbandoned = Some s' -> delta s s'.
Proof. intro H; cbn [step] in H; step_inv H; same. Qed.
Lemma dl_LFlAckOnly : step c s LFlAckOnly = Some s' -> delta s s'.
Proof. intro H; cbn [step] in H; step_inv H; same. Qed.
Lemma dl_LFlBegin : step c s LFlBegin = Some s' -> delta s s'.
Proof. intro H; cbn [step] in H; step_inv H; same. Qed.
Lemma dl_LSBegin k : step c s (LSBegin k) = Some s' -> delta s s'.
Proof. intro H; cbn [step] in H; step_inv H; same. Qed.
Lemma dl_LSEnd k ok : step c s (LSEnd k ok) = Some s' -> delta s s'.
Proof. intro H; cbn [step] in H; step_inv H; same. Qed.
Lemma dl_LAck w o : step c s (LAck w o) = Some s' -> delta s s'.
Proof.
  intro H; destruct w; cbn [step] in H; step_inv H.
  - match goal with Ha : apc s = AAckNow ?r ?x, Hf : ack_fate _ _ _ _ = Some ?f |- _ =>
      apply (d_fin _ _ (wk_part s ++ concat (map fw (fch s)) ++ b_w (buf s)) r (ich s) f) end; pipe;
      rewrite ?app_nil_r, <- ?app_assoc; reflexivity.
  - match goal with Ha : apc s = AAbandon (?r :: ?t), Hf : ack_fate _ _ _ _ = Some ?f |- _ =>
      apply (d_fin _ _ (wk_part s ++ concat (map fw (fch s))) r (t ++ b_w (buf s) ++ ich s) f) end; pipe;
      rewrite ?pre_of_mk_aab, ?post_of_mk_aab, ?app_nil_r, <- ?app_assoc; reflexivity.
  - match goal with Ha : wpc s = WAck _ (?r :: ?t), Hf : ack_fate _ _ _ _ = Some ?f |- _ =>
      apply (d_fin _ _ [] r (t ++ concat (map fw (fch s)) ++ a_pre s ++ b_w (buf s) ++ a_post s ++ ich s) f) end; pipe;
      rewrite ?wk_of_mk_wack, ?app_nil_r, <- ?app_assoc; reflexivity.
Qed.
End Delta.

Lemma step_delta c s l s' : Idle0 s -> step c s l = Some s' -> delta s s'.
Proof.
  intros I0 H; destruct l;
    eauto using dl_LTry, dl_LRefuse, dl_LSent, dl_LCtxErr, dl_LStart, dl_LStartNoop, dl_LStopBegin, dl_LStopFlag,
      dl_LCtxCancel, dl_LStopCtxDone, dl_LFlushCancel, dl_LStopBr, dl_LStopReturn, dl_LActorCtxDone, dl_LActorTake,
      dl_LActorForce, dl_LActorAckNow, dl_LActorReject, dl_LActorBuffer, dl_LTickFlush, dl_LFqSent, dl_LFqAbandon,
      dl_LDrainEnd, dl_LActorExit, dl_LWorkerCtxDone, dl_LWorkerTake, dl_LWorkerIngestDone, dl_LWorkerExit,
      dl_LFlAbandoned, dl_LFlAckOnly, dl_LFlBegin, dl_LSBegin, dl_LSEnd, dl_LAck.
Qed.

(* case analysis over the label of a step, guards split, projections of the new state reduced *)
Ltac step_cases H :=
  match type of H with step _ _ ?l = Some _ => destruct l end;
  try match type of H with step _ _ (LStopBr ?x) = _ => destruct x end;
  try match type of H with step _ _ (LStopReturn ?x) = _ => destruct x end;
  try match type of H with step _ _ (LAck ?w _) = _ => destruct w end;
  cbn [step] in H; step_inv H; sproj.

Lemma NoDup_app_r {A} (l1 l2 : list A) : NoDup (l1 ++ l2) -> NoDup l2.
Proof. induction l1; cbn; auto. intro H; inversion H; auto. Qed.
Lemma NoDup_app_l {A} (l1 l2 : list A) : NoDup (l1 ++ l2) -> NoDup l1.
Proof.
  induction l1; cbn; [constructor|]. intro H; inversion H; subst. constructor; auto.
  rewrite in_app_iff in *; tauto.
Qed.
Lemma NoDup_app_disj {A} (l1 l2 : list A) x : NoDup (l1 ++ l2) -> In x l1 -> In x l2 -> False.
Proof.
  induction l1; cbn; [tauto|]. intros H [->|Hi] H2; inversion H; subst; auto.
  apply H3. rewrite in_app_iff; auto.
Qed.

(* ------------------------------------------------------------------ subsequences *)
Inductive subseq : list nat -> list nat -> Prop :=
| ss_nil : forall l, subseq [] l
| ss_keep : forall x p l, subseq p l -> subseq (x :: p) (x :: l)
| ss_skip : forall x p l, subseq p l -> subseq p (x :: l).

Lemma subseq_In p l x : subseq p l -> In x p -> In x l.
Proof. induction 1; cbn; intuition. Qed.
Lemma subseq_snoc p l x : subseq p l -> subseq (p ++ [x]) (l ++ [x]).
Proof. induction 1; cbn; try (constructor; assumption). induction l; cbn; repeat constructor. assumption. Qed.
Lemma subseq_drop l1 x l2 l : subseq (l1 ++ x :: l2) l -> subseq (l1 ++ l2) l.
Proof.
  revert l. induction l1 as [|y l1 IH]; cbn; intros l H.
  - remember (x :: l2) as p eqn:E. induction H; [discriminate| |]; [inversion E; subst; now constructor|constructor; auto].
  - remember (y :: l1 ++ x :: l2) as p eqn:E. induction H; [discriminate| |].
    + inversion E; subst. constructor. auto.
    + constructor. auto.
Qed.
Lemma subseq_tail p x l : subseq (x :: p) l -> subseq p l.
Proof. apply (subseq_drop [] x p l). Qed.
Lemma subseq_after_head r p pre l3 : ~ In r pre -> subseq (r :: p) (pre ++ r :: l3) -> subseq p l3.
Proof.
  induction pre as [|y pre IH]; cbn; intros Hn H.
  - inversion H; subst; auto. eapply subseq_tail; eauto.
  - inversion H; subst; [tauto|]. apply IH; tauto.
Qed.
(* the head of an order-preserving sub-list: nothing before it in the big list is in the sub-list *)
Lemma subseq_head_first r p l1 a l2 l3 :
  NoDup (l1 ++ a :: l2 ++ r :: l3) -> subseq (r :: p) (l1 ++ a :: l2 ++ r :: l3) -> ~ In a (r :: p).
Proof.
  intros ND H.
  assert (E : l1 ++ a :: l2 ++ r :: l3 = (l1 ++ a :: l2) ++ r :: l3) by now rewrite <- app_assoc.
  assert (Hnr : ~ In r (l1 ++ a :: l2)).
  { rewrite E in ND. apply NoDup_remove_2 in ND. intro Hin. apply ND. rewrite in_app_iff. now left. }
  rewrite E in H. apply subseq_after_head in H; auto.
  apply NoDup_remove_2 in ND. intros [<-|Hin].
  - apply Hnr. rewrite in_app_iff. right. now left.
  - apply ND. rewrite !in_app_iff. right. right. right. eapply subseq_In; eauto.
Qed.

(* ------------------------------------------------------------------ invariant 1: places *)
Definition keys (s : state) : list nat := map fst (reqs s).

Record Inv1 (s : state) : Prop := {
  i_idle : Idle0 s;
  i_nodup : NoDup (pending s ++ accepted s);
  i_keys : forall r, In r (pending s ++ accepted s) -> In r (keys s);
  (* Loc: every accepted request is in exactly one place *)
  i_perm : Permutation (accepted s) (pipeline s ++ map fst (finished s));
  (* FIFO: the in-flight requests are in acceptance order *)
  i_sub : subseq (pipeline s) (accepted s) }.

Lemma idle_step c s l s' : Idle0 s -> step c s l = Some s' -> Idle0 s'.
Proof.
  intros I0 H. unfold Idle0 in *. step_cases H; intro Hs; try discriminate Hs;
    try (destruct (I0 Hs) as [Ha Hw]; split; congruence).
Qed.

Lemma nodup_step c s l s' :
  NoDup (pending s ++ accepted s) -> (forall r, In r (pending s ++ accepted s) -> In r (keys s)) ->
  step c s l = Some s' ->
  NoDup (pending s' ++ accepted s') /\ (forall r, In r (pending s' ++ accepted s') -> In r (keys s')).
Proof.
  intros ND K H. unfold keys in *. step_cases H; try (rw_pcs; split; assumption).
  - (* LTry *)
    repeat (apply andb_prop in Heqb as [Heqb ?]). apply negb_true_iff in H. apply mem_false in H.
    assert (P : Permutation (r :: pending s ++ accepted s) ((pending s ++ [r]) ++ accepted s)).
    { rewrite <- app_assoc. cbn. apply Permutation_middle. }
    split.
    + eapply Permutation_NoDup; [exact P|]. constructor; auto.
    + intros x Hx. rewrite map_app, in_app_iff. apply (Permutation_in _ (Permutation_sym P)) in Hx.
      destruct Hx as [<-|Hx]; [right; now left|left; auto].
  - (* LSent *)
    apply andb_prop in Heqb as [Hm _]. apply mem_In in Hm.
    assert (P : Permutation (pending s ++ accepted s) (remove1 r (pending s) ++ accepted s ++ [r])).
    { rewrite (remove1_perm r (pending s) Hm) at 1. cbn. rewrite app_assoc. apply Permutation_cons_append. }
    split.
    + exact (Permutation_NoDup P ND).
    + intros x Hx. apply K. eapply Permutation_in; [apply Permutation_sym; exact P|exact Hx].
  - (* LCtxErr *)
    apply mem_In in Heqb.
    assert (P : Permutation (pending s ++ accepted s) (r :: remove1 r (pending s) ++ accepted s)).
    { rewrite (remove1_perm r (pending s) Heqb) at 1. reflexivity. }
    split.
    + apply (Permutation_NoDup P) in ND. now inversion ND.
    + intros x Hx. apply K. eapply Permutation_in; [apply Permutation_sym; exact P|now right].
Qed.

Lemma inv1_init : Inv1 init.
Proof.
  split.
  - intros _; split; reflexivity.
  - constructor.
  - intros r [].
  - apply perm_nil.
  - constructor.
Qed.

Lemma perm_move (l1 l2 fin : list nat) r :
  Permutation ((l1 ++ r :: l2) ++ fin) ((l1 ++ l2) ++ fin ++ [r]).
Proof.
  rewrite <- !app_assoc. apply Permutation_app_head. cbn.
  rewrite app_assoc. apply Permutation_cons_append.
Qed.

Lemma inv1_step c s l s' : Inv1 s -> step c s l = Some s' -> Inv1 s'.
Proof.
  intros [I0 ND K P S] H.
  destruct (nodup_step _ _ _ _ ND K H) as [ND' K'].
  split; auto.
  - eapply idle_step; eauto.
  - destruct (step_delta _ _ _ _ I0 H) as [E1 E2 E3|r E1 E2 E3 Hr|l1 r l2 f E0 E1 E2 E3]; rewrite ?E1, ?E2, ?E3.
    + exact P.
    + rewrite P. rewrite <- !app_assoc. apply Permutation_app_head. apply Permutation_app_comm.
    + rewrite map_app. cbn [map fst]. rewrite P, E0. apply perm_move.
  - destruct (step_delta _ _ _ _ I0 H) as [E1 E2 E3|r E1 E2 E3 Hr|l1 r l2 f E0 E1 E2 E3]; rewrite ?E1, ?E2, ?E3.
    + exact S.
    + now apply subseq_snoc.
    + rewrite E0 in S. eapply subseq_drop; eauto.
Qed.

Lemma reachable_inv1 c s : reachable c s -> Inv1 s.
Proof. induction 1; eauto using inv1_init, inv1_step. Qed.

Lemma inv1_places c s : reachable c s -> NoDup (pipeline s ++ map fst (finished s)).
Proof.
  intro R. destruct (reachable_inv1 _ _ R) as [_ ND _ P _].
  apply NoDup_app_r in ND. exact (Permutation_NoDup P ND).
Qed.

(* ------------------------------------------------------------------ invariant 2: lifecycle *)
Definition actor_final_pc (a : actorpc) : Prop :=
  match a with AIdle | AExited | AEnq _ | AAbandon _ => True | _ => False end.

Record Inv2 (c : cfg) (s : state) : Prop := {
  l_ctx : ctxc s = true -> stopped s = true;
  l_pend : stopped s = true -> pending s = [];
  l_spc : (spc s = SNone \/ spc s = SBegun) \/ stopped s = true;
  l_amode : amode s = MRun \/ ctxc s = true;
  l_final : amode s = MFinal -> ich s = [] /\ b_w (buf s) = [] /\ actor_final_pc (apc s);
  l_aexit : apc s = AExited -> amode s = MFinal;
  l_wfinal : wmode s = MFinal -> apc s = AExited;
  l_wexit : wpc s = WExited -> wmode s = MFinal /\ fch s = [];
  l_brnil : spc s = SBr RNil \/ spc s = SReturned RNil -> (apc s = AExited /\ wpc s = WExited) \/ started s = false;
  l_started : started s = true -> apc s <> ANone /\ wpc s <> WNone;
  l_d6 : c_fixD6 c = true -> stopped s = true -> started s = true;
  l_armed : spc s = SNone -> armed s = false;
  l_d9 : c_fixD9 c = true -> spc s = SReturned RNil -> fcanc s = false /\ armed s = false;
  l_d5 : c_fixD5 c = true -> spc s = SReturned RErr -> fcanc s = true \/ wpc s = WExited \/ started s = false }.

Lemma inv2_init c : Inv2 c init.
Proof. split; cbn; intros; try discriminate; auto; try tauto. all: intuition discriminate. Qed.

Lemma mk_aab_final l : actor_final_pc (mk_aab l).
Proof. destruct l; exact I. Qed.
Lemma mk_aab_ne l : mk_aab l <> AExited.
Proof. destruct l; discriminate. Qed.
Lemma mk_wack_ne x l : mk_wack x l <> WExited.
Proof. destruct l; discriminate. Qed.

Lemma buf_nonempty_false b : buf_nonempty b = false -> b_w b = [] /\ b_parts b = [].
Proof. unfold buf_nonempty. destruct (b_w b), (b_parts b); intro; try discriminate; auto. Qed.

Ltac bool_hyps := repeat match goal with
  | H : _ && _ = true |- _ => apply andb_prop in H; destruct H
  | H : negb _ = true |- _ => apply negb_true_iff in H
  | H : negb _ = false |- _ => apply negb_false_iff in H
  | H : _ || _ = false |- _ => apply orb_false_elim in H; destruct H
  | H : _ && _ = false |- _ => apply andb_false_iff in H; destruct H
  | H : _ || _ = true |- _ => apply orb_prop in H; destruct H
  | H : mem _ _ = true |- _ => apply mem_In in H
  | H : Nat.eqb _ _ = true |- _ => apply Nat.eqb_eq in H; subst
  | H : buf_nonempty _ = false |- _ => apply buf_nonempty_false in H; destruct H
  end.

(* a request is still pending although the engine is stopped: impossible *)
Ltac pend_contra :=
  intros; exfalso;
  match goal with Hi : In _ (pending ?s) |- _ =>
    assert (Hp : pending s = []) by (intuition congruence); rewrite Hp in Hi; exact Hi end.

Ltac inv2_auto :=
  try solve [ intros; repeat match goal with H : _ /\ _ |- _ => destruct H end;
    cbn [actor_final_pc] in *;
    first [ congruence | tauto | intuition congruence
          | exfalso; eapply mk_aab_ne; eassumption | exfalso; eapply mk_wack_ne; eassumption
          | intuition (auto using mk_aab_final; congruence) ]
    | pend_contra ].

Lemma mk_aab_ne0 l : mk_aab l <> ANone.
Proof. destruct l; discriminate. Qed.
Lemma mk_wack_ne0 x l : mk_wack x l <> WNone.
Proof. destruct l; discriminate. Qed.

Lemma inv2_step c s l s' : Idle0 s -> Inv2 c s -> step c s l = Some s' -> Inv2 c s'.
Proof.
  intros I0 [L1 L2 L3 L4 L5 L6 L7 L8 L9 LS L10 L11 L12 L13] H. unfold Idle0 in I0.
  step_cases H; bool_hyps; split; sproj; rw_pcs; inv2_auto.
  all: try (intros Hs; destruct (LS Hs); split; auto using mk_aab_ne0, mk_wack_ne0).
  - intros _ Hs. rewrite Hs in *. discriminate.
  - intros _. destruct (started s) eqn:Es; auto. destruct (LS eq_refl). congruence.
Qed.

Lemma reachable_inv2 c s : reachable c s -> Inv2 c s.
Proof.
  induction 1; [apply inv2_init|]. eapply inv2_step; eauto. eapply i_idle, reachable_inv1; eauto.
Qed.
