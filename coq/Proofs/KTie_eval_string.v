(* Kernel tie eval_string (DESIGN.md 10.7): the definition translated from the Go source equals the model.
   One file per kernel, so that a changed kernel only breaks the property files that state its tie. *)
From BS Require Import Lib.Bytes Lib.Wrap64 Lib.GoPrim Generated.Kernels Generated.KernelTie Model.MinMax Proofs.KernelEquiv Proofs.KernelEquivM.
From Coq Require Import ZArith List Bool Lia.
Import ListNotations.
Local Open Scope Z_scope.

Lemma k_eval_string_tie : tie_eval_string.
Proof.
  unfold tie_eval_string. first [exact I | k_open_M; k_hyps; k_str; k_auto k_str].
Qed.
