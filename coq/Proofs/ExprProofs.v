(* Family R lemmas: induction principles, pruning soundness (monotone, no property of the
   hash used), flattening / AndBloomQueries, delimiter-split prefix paths, regex guard soundness,
   regex tree compilation. *)
From BS Require Import Lib.Bytes Model.Json Model.Expr.
From Coq Require Import List Bool Lia NArith.
Import ListNotations.
Open Scope N_scope.

(* ---------------------------------------------------------------- induction principles *)
Section BexprInd.
  Variable P : bexpr -> Prop.
  Hypothesis Hc : forall c, P (BCond c).
  Hypothesis Ha : forall cs, Forall P cs -> P (BAnd cs).
  Hypothesis Ho : forall cs, Forall P cs -> P (BOr cs).
  Hypothesis Hu : P BUnk.
  Fixpoint bexpr_ind' (e : bexpr) : P e :=
    match e with
    | BCond c => Hc c
    | BAnd cs => Ha cs ((fix go (l : list bexpr) : Forall P l :=
                           match l with [] => Forall_nil P | x :: t => Forall_cons x (bexpr_ind' x) (go t) end) cs)
    | BOr cs => Ho cs ((fix go (l : list bexpr) : Forall P l :=
                           match l with [] => Forall_nil P | x :: t => Forall_cons x (bexpr_ind' x) (go t) end) cs)
    | BUnk => Hu
    end.
End BexprInd.

Section RexprInd.
  Variable P : rexpr -> Prop.
  Hypothesis Hc : forall c, P (RCond c).
  Hypothesis Ha : forall cs, Forall P cs -> P (RAnd cs).
  Hypothesis Ho : forall cs, Forall P cs -> P (ROr cs).
  Hypothesis Hu : P RUnk.
  Fixpoint rexpr_ind' (e : rexpr) : P e :=
    match e with
    | RCond c => Hc c
    | RAnd cs => Ha cs ((fix go (l : list rexpr) : Forall P l :=
                           match l with [] => Forall_nil P | x :: t => Forall_cons x (rexpr_ind' x) (go t) end) cs)
    | ROr cs => Ho cs ((fix go (l : list rexpr) : Forall P l :=
                           match l with [] => Forall_nil P | x :: t => Forall_cons x (rexpr_ind' x) (go t) end) cs)
    | RUnk => Hu
    end.
End RexprInd.

Section JsonInd.
  Variable P : json -> Prop.
  Hypothesis Hnull : P JNull.
  Hypothesis Hbool : forall b, P (JBool b).
  Hypothesis Hnum : forall r, P (JNum r).
  Hypothesis Hstr : forall s, P (JStr s).
  Hypothesis Harr : forall xs, Forall P xs -> P (JArr xs).
  Hypothesis Hobj : forall kvs, Forall (fun kv => P (snd kv)) kvs -> P (JObj kvs).
  Fixpoint json_ind' (v : json) : P v :=
    match v with
    | JNull => Hnull
    | JBool b => Hbool b
    | JNum r => Hnum r
    | JStr s => Hstr s
    | JArr xs => Harr xs ((fix go (l : list json) : Forall P l :=
                             match l with [] => Forall_nil P | x :: t => Forall_cons x (json_ind' x) (go t) end) xs)
    | JObj kvs => Hobj kvs ((fix go (l : list (str * json)) : Forall (fun kv => P (snd kv)) l :=
                               match l with
                               | [] => Forall_nil _
                               | kv :: t => Forall_cons kv (json_ind' (snd kv)) (go t)
                               end) kvs)
    end.
End JsonInd.

(* ---------------------------------------------------------------- pruning soundness *)
Section Prune.
  Variable tok : str -> list str.

  (* the filters answer true for every entry of the emission list (whatever built them) *)
  Definition covers (F : filters) (es : list em) : Prop :=
    (forall x, In x (e_fields es) -> test_opt (f_field F) x = true) /\
    (forall x, In x (e_tokens tok es) -> test_opt (f_token F) x = true) /\
    (forall x, In x (e_fieldtokens tok es) -> test_opt (f_ft F) x = true).

  Lemma prune_cond_sound F es c : covers F es -> sat_bcond tok es c = true -> prune_cond F c = true.
  Proof.
    intros [Hf [Ht Hft]] Hs. destruct c as [f|t|f t|]; simpl in *.
    - apply existsb_exists in Hs as [e [He Heq]]. apply str_eqb_eq in Heq. subst f.
      apply Hf. unfold e_fields. apply in_map. exact He.
    - apply existsb_exists in Hs as [pt [Hpt Hm]]. apply mem_str_In in Hm.
      apply Ht. unfold e_tokens. apply in_flat_map. exists pt. split; assumption.
    - apply existsb_exists in Hs as [pt [Hpt Hm]]. apply andb_true_iff in Hm as [Hp Hm].
      apply str_eqb_eq in Hp. apply mem_str_In in Hm. subst f.
      apply Hft. unfold e_fieldtokens. apply in_flat_map. exists pt. split; [exact Hpt|].
      apply in_map. exact Hm.
    - discriminate.
  Qed.

  Lemma prune_sound F es e : covers F es -> sat_bexpr tok es e = true -> prune_eval F e = true.
  Proof.
    intro Hc. induction e as [c|cs IH|cs IH|] using bexpr_ind'; intro Hs.
    - destruct c as [c|]; [|reflexivity]. simpl in *. eapply prune_cond_sound; eauto.
    - simpl in *. rewrite forallb_forall in *. intros x Hx. rewrite Forall_forall in IH. auto.
    - simpl in *. apply existsb_exists in Hs as [x [Hx Hs]]. apply existsb_exists. exists x.
      rewrite Forall_forall in IH. auto.
    - discriminate.
  Qed.

  Lemma prune_q_sound F es q : covers F es -> sat_bq tok es q = true -> prune_q F q = true.
  Proof. destruct q as [e|]; simpl; [apply prune_sound | reflexivity]. Qed.

  (* entries of a sub-list of emissions are entries of the whole: coverage of a union covers each part *)
  Lemma text_leaves_app a b : text_leaves (a ++ b) = text_leaves a ++ text_leaves b.
  Proof.
    induction a as [|[p [| |t]] a IH]; simpl; try assumption; [reflexivity|]. rewrite IH. reflexivity.
  Qed.

  Lemma covers_app F a b : covers F (a ++ b) <-> covers F a /\ covers F b.
  Proof.
    unfold covers, e_fields, e_tokens, e_fieldtokens.
    rewrite map_app, text_leaves_app, !flat_map_app.
    split.
    - intros [H1 [H2 H3]]. repeat split; intros x Hx;
        first [apply H1 | apply H2 | apply H3]; apply in_or_app; auto.
    - intros [[A1 [A2 A3]] [B1 [B2 B3]]]. repeat split; intros x Hx; apply in_app_or in Hx as [Hx|Hx]; auto.
  Qed.
End Prune.

(* ---------------------------------------------------------------- flattening, AndBloomQueries *)
Section Flatten.
  Variable ev : bexpr -> bool.
  (* any evaluator that treats And as forallb and Or as existsb over its children *)
  Hypothesis ev_and : forall cs, ev (BAnd cs) = forallb ev cs.
  Hypothesis ev_or : forall cs, ev (BOr cs) = existsb ev cs.

  Lemma forallb_flatten_and es : forallb ev (flatten_and es) = forallb ev es.
  Proof.
    induction es as [|e es IH]; simpl; [reflexivity|].
    unfold flatten_and in *. simpl. rewrite forallb_app, IH. f_equal.
    destruct e; simpl; rewrite ?andb_true_r; try reflexivity. symmetry. apply ev_and.
  Qed.

  Lemma existsb_flatten_or es : existsb ev (flatten_or es) = existsb ev es.
  Proof.
    induction es as [|e es IH]; simpl; [reflexivity|].
    unfold flatten_or in *. simpl. rewrite existsb_app, IH. f_equal.
    destruct e; simpl; rewrite ?orb_false_r; try reflexivity. symmetry. apply ev_or.
  Qed.

  Lemma ev_mk_and es : ev (mk_and es) = forallb ev es.
  Proof. unfold mk_and. rewrite ev_and. apply forallb_flatten_and. Qed.

  Lemma ev_mk_or es : ev (mk_or es) = existsb ev es.
  Proof. unfold mk_or. rewrite ev_or. apply existsb_flatten_or. Qed.
End Flatten.

Lemma sat_mk_and tok es l : sat_bexpr tok es (mk_and l) = forallb (sat_bexpr tok es) l.
Proof. apply ev_mk_and. reflexivity. Qed.
Lemma sat_mk_or tok es l : sat_bexpr tok es (mk_or l) = existsb (sat_bexpr tok es) l.
Proof. apply ev_mk_or. reflexivity. Qed.
Lemma prune_mk_and F l : prune_eval F (mk_and l) = forallb (prune_eval F) l.
Proof. apply ev_mk_and. reflexivity. Qed.
Lemma prune_mk_or F l : prune_eval F (mk_or l) = existsb (prune_eval F) l.
Proof. apply ev_mk_or. reflexivity. Qed.

Lemma sat_and_queries tok es a b :
  sat_bq tok es (and_queries a b) = sat_bq tok es a && sat_bq tok es b.
Proof.
  destruct a as [a|], b as [b|]; unfold and_queries, sat_bq; rewrite ?andb_true_r; try reflexivity.
  rewrite sat_mk_and. simpl. rewrite andb_true_r. reflexivity.
Qed.

Lemma prune_and_queries F a b : prune_q F (and_queries a b) = prune_q F a && prune_q F b.
Proof.
  destruct a as [a|], b as [b|]; unfold and_queries, prune_q; rewrite ?andb_true_r; try reflexivity.
  rewrite prune_mk_and. simpl. rewrite andb_true_r. reflexivity.
Qed.

(* ---------------------------------------------------------------- paths *)

Lemma key_prefixes_complete k a b : k = a ++ dot :: b -> In a (key_prefixes k).
Proof.
  revert k. induction a as [|c a IH]; intros k ->; simpl.
  - try rewrite N.eqb_refl. left. reflexivity.
  - apply in_or_app. right. apply in_map. apply IH. reflexivity.
Qed.

Lemma key_prefixes_sound k a : In a (key_prefixes k) -> exists b, k = a ++ dot :: b.
Proof.
  revert a. induction k as [|c k IH]; intros a H; simpl in H; [destruct H|].
  apply in_app_or in H as [H|H].
  - destruct (c =? dot) eqn:E; [|destruct H]. destruct H as [<-|[]]. apply N.eqb_eq in E. subst. exists k. reflexivity.
  - apply in_map_iff in H as [a' [<- H]]. destruct (IH _ H) as [b ->]. exists b. reflexivity.
Qed.

(* "f extends path": f is at or below the walker's current buffer *)
Definition ext (path f : str) : Prop := path = [] \/ f = path \/ exists g, f = path ++ dot :: g.

Lemma join_nonempty_parent p k : p <> [] -> join p k = p ++ dot :: k.
Proof. destruct p; [contradiction|reflexivity]. Qed.

Lemma emit_in p l x : In x (emit_if_nonempty p l) -> x = (p, l) /\ p <> [].
Proof. unfold emit_if_nonempty. destruct p; simpl; [intros []|]. intros [<-|[]]. split; [reflexivity|discriminate]. Qed.

Lemma in_emit p l : p <> [] -> In (p, l) (emit_if_nonempty p l).
Proof. destruct p; [contradiction|]. intros _. left. reflexivity. Qed.

(* unfolding lemmas for the nested fixpoints of walk *)
Fixpoint walk_obj (path : str) (kvs : list (str * json)) : list em :=
  match kvs with
  | [] => []
  | (k, c) :: t => prefix_ems path k ++ walk (join path k) c ++ walk_obj path t
  end.
Fixpoint walk_arr (path : str) (xs : list json) : list em :=
  match xs with
  | [] => []
  | c :: t => walk path c ++ walk_arr path t
  end.

Lemma walk_obj_eq path kvs : walk path (JObj kvs) = emit_if_nonempty path LContainer ++ walk_obj path kvs.
Proof. simpl. f_equal. induction kvs as [|[k c] t IH]; simpl; [reflexivity|]. rewrite IH. reflexivity. Qed.

Lemma walk_arr_eq path xs : walk path (JArr xs) = emit_if_nonempty path LContainer ++ walk_arr path xs.
Proof. simpl. f_equal. induction xs as [|c t IH]; simpl; [reflexivity|]. rewrite IH. reflexivity. Qed.

Lemma in_walk_obj path kvs x :
  In x (walk_obj path kvs) <-> exists k c, In (k, c) kvs /\ (In x (prefix_ems path k) \/ In x (walk (join path k) c)).
Proof.
  induction kvs as [|[k c] t IH]; simpl.
  - split; [intros []| intros [k [c [[] _]]]].
  - rewrite !in_app_iff, IH. split.
    + intros [H|[H|[k' [c' [Hin H]]]]].
      * exists k, c. auto.
      * exists k, c. auto.
      * exists k', c'. auto.
    + intros [k' [c' [[E|Hin] H]]].
      * inversion E; subst. destruct H; auto.
      * right. right. exists k', c'. auto.
Qed.

Lemma in_walk_arr path xs x : In x (walk_arr path xs) <-> exists c, In c xs /\ In x (walk path c).
Proof.
  induction xs as [|c t IH]; simpl.
  - split; [intros []| intros [c [[] _]]].
  - rewrite in_app_iff, IH. split.
    + intros [H|[c' [Hin H]]]; [exists c; auto| exists c'; auto].
    + intros [c' [[<-|Hin] H]]; [auto| right; exists c'; auto].
Qed.

Lemma in_prefix_ems parent k x :
  In x (prefix_ems parent k) <-> exists a b, k = a ++ dot :: b /\ x = (join parent a, LContainer) /\ join parent a <> [].
Proof.
  unfold prefix_ems. rewrite in_flat_map. split.
  - intros [a [Ha Hx]]. apply key_prefixes_sound in Ha as [b ->]. apply emit_in in Hx as [-> Hne]. eauto.
  - intros [a [b [-> [-> Hne]]]]. exists a. split; [eapply key_prefixes_complete; reflexivity| apply in_emit; exact Hne].
Qed.

(* every emitted path is at or below the buffer *)
Lemma walk_paths_ext v : forall path L lf, In (L, lf) (walk path v) -> L <> [] /\ (path <> [] -> L = path \/ exists g, L = path ++ dot :: g).
Proof.
  induction v as [| b | r | s | xs IH | kvs IH] using json_ind'; intros path L lf H;
    try (apply emit_in in H as [E Hne]; inversion E; subst; split; [exact Hne| intros _; left; reflexivity]).
  - rewrite walk_arr_eq in H. apply in_app_or in H as [H|H].
    + apply emit_in in H as [E Hne]; inversion E; subst; split; [exact Hne| intros _; left; reflexivity].
    + apply in_walk_arr in H as [c [Hc H]]. rewrite Forall_forall in IH. exact (IH c Hc path L lf H).
  - rewrite walk_obj_eq in H. apply in_app_or in H as [H|H].
    + apply emit_in in H as [E Hne]; inversion E; subst; split; [exact Hne| intros _; left; reflexivity].
    + apply in_walk_obj in H as [k [c [Hkc [H|H]]]].
      * apply in_prefix_ems in H as [a [b [-> [E Hne]]]]. inversion E; subst. split; [exact Hne|].
        intro Hp. right. exists a. apply join_nonempty_parent. exact Hp.
      * rewrite Forall_forall in IH. destruct (IH (k, c) Hkc (join path k) L lf H) as [Hne Hext].
        split; [exact Hne|]. intro Hp. right. rewrite (join_nonempty_parent _ _ Hp) in *.
        assert (Hj : path ++ dot :: k <> []) by (destruct path; discriminate).
        destruct (Hext Hj) as [->|[g ->]].
        -- exists k. reflexivity.
        -- exists (k ++ dot :: g). rewrite <- app_assoc. reflexivity.
Qed.

(* two dot-splits of one path are comparable *)
Lemma split_cases (a x b y : str) :
  a ++ dot :: x = b ++ dot :: y ->
  a = b \/ (exists z, a = b ++ dot :: z) \/ (exists z, b = a ++ dot :: z).
Proof.
  intro H. apply app_eq_app in H as [l [[-> H]|[-> H]]].
  - destruct l as [|c l]; [left; rewrite app_nil_r; reflexivity|].
    simpl in H. inversion H; subst. right. left. exists l. reflexivity.
  - destruct l as [|c l]; [left; rewrite app_nil_r; reflexivity|].
    simpl in H. inversion H; subst. right. right. exists l. reflexivity.
Qed.

Lemma self_no_split (path f rest : str) : path = f ++ dot :: rest -> ext path f -> path <> [] -> False.
Proof.
  intros E [->|[->|[g ->]]] Hne; [contradiction| |];
    apply (f_equal (@length N)) in E; rewrite ?app_length in E; simpl in E; rewrite ?app_length in E; simpl in E; lia.
Qed.

Ltac self_case H HL Hext :=
  let E := fresh "E" in let Hne := fresh "Hne" in
  apply emit_in in H as [E Hne]; inversion E; subst; exfalso; eapply self_no_split; eauto.

(* the key lemma: every non-empty dot-split prefix of an emitted path is itself emitted
   (as a container, a key-prefix emission, or the object's own path) *)
Lemma prefix_emitted_gen v : forall path L lf f rest,
  In (L, lf) (walk path v) -> L = f ++ dot :: rest -> f <> [] -> ext path f ->
  exists lf', In (f, lf') (walk path v).
Proof.
  induction v as [| b | r | s | xs IH | kvs IH] using json_ind'; intros path L lf f rest H HL Hf Hext.
  1-4: (self_case H HL Hext).
  - (* array *)
    rewrite walk_arr_eq in *. apply in_app_or in H as [H|H].
    + self_case H HL Hext.
    + apply in_walk_arr in H as [c [Hc H]]. rewrite Forall_forall in IH.
      destruct (IH c Hc path L lf f rest H HL Hf Hext) as [lf' H'].
      exists lf'. apply in_or_app. right. apply in_walk_arr. exists c. auto.
  - (* object *)
    rewrite walk_obj_eq in *. apply in_app_or in H as [H|H].
    + self_case H HL Hext.
    + apply in_walk_obj in H as [k [c [Hkc [H|H]]]].
      * (* L is a key-prefix emission join path a, k = a ++ . ++ b *)
        apply in_prefix_ems in H as [a [b [Hk [E Hne]]]]. injection E as EL Elf. rewrite EL in HL. clear EL Elf.
        destruct path as [|p0 path'].
        -- (* empty parent: L = a = f ++ . rest, so f is a key prefix of k *)
           simpl in HL. subst a. exists LContainer. apply in_or_app. right.
           apply in_walk_obj. exists k, c. split; [exact Hkc|]. left.
           apply in_prefix_ems. exists f, (rest ++ dot :: b). split; [|split; [reflexivity| exact Hf]].
           rewrite Hk, <- app_assoc. reflexivity.
        -- set (path := p0 :: path') in *. assert (Hp : path <> []) by discriminate.
           rewrite (join_nonempty_parent _ _ Hp) in HL.
           destruct Hext as [E|[->|[g ->]]]; [discriminate| |].
           ++ exists LContainer. apply in_or_app. left. apply in_emit. exact Hp.
           ++ rewrite <- app_assoc in HL. apply app_inv_head in HL. simpl in HL. inversion HL as [Ha].
              exists LContainer. apply in_or_app. right. apply in_walk_obj. exists k, c. split; [exact Hkc|]. left.
              apply in_prefix_ems. exists g, (rest ++ dot :: b). split; [|split].
              ** rewrite Hk, Ha, <- app_assoc. reflexivity.
              ** rewrite (join_nonempty_parent _ _ Hp). reflexivity.
              ** rewrite (join_nonempty_parent _ _ Hp). destruct path; discriminate.
      * (* L comes from the child's walk at path' = join path k *)
        rewrite Forall_forall in IH. pose proof (IH (k, c) Hkc) as IHc. simpl in IHc.
        destruct (walk_paths_ext c (join path k) L lf H) as [HLne HLext].
        (* either f extends the child's path (induction), or f sits strictly inside join path k *)
        assert (Hcases : ext (join path k) f \/ exists z, join path k = f ++ dot :: z).
        { destruct (join path k) as [|j0 jp] eqn:Ej; [left; left; reflexivity|].
          assert (Hj : j0 :: jp <> []) by discriminate.
          destruct (HLext Hj) as [E|[g E]].
          - right. exists rest. rewrite <- E. exact HL.
          - rewrite E in HL. destruct (split_cases _ _ _ _ HL) as [E'|[[z E']|[z E']]].
            + left. right. left. symmetry. exact E'.
            + right. exists z. exact E'.
            + left. right. right. exists z. exact E'. }
        destruct Hcases as [Hx|[z Hz]].
        -- destruct (IHc (join path k) L lf f rest H HL Hf Hx) as [lf' H'].
           exists lf'. apply in_or_app. right. apply in_walk_obj. exists k, c. auto.
        -- (* f is a proper dot-prefix of join path k *)
           destruct path as [|p0 path'].
           ++ simpl in Hz. exists LContainer. apply in_or_app. right. apply in_walk_obj. exists k, c.
              split; [exact Hkc|]. left. apply in_prefix_ems. exists f, z. split; [exact Hz|split; [reflexivity|exact Hf]].
           ++ set (path := p0 :: path') in *. assert (Hp : path <> []) by discriminate.
              rewrite (join_nonempty_parent _ _ Hp) in Hz.
              destruct Hext as [E|[->|[g ->]]]; [discriminate| |].
              ** exists LContainer. apply in_or_app. left. apply in_emit. exact Hp.
              ** rewrite <- app_assoc in Hz. apply app_inv_head in Hz. simpl in Hz. inversion Hz as [Hk].
                 exists LContainer. apply in_or_app. right. apply in_walk_obj. exists k, c. split; [exact Hkc|]. left.
                 apply in_prefix_ems. exists g, z. split; [exact Hk|split].
                 --- rewrite (join_nonempty_parent _ _ Hp). reflexivity.
                 --- rewrite (join_nonempty_parent _ _ Hp). destruct path; discriminate.
Qed.

Lemma prefix_emitted row L lf f rest :
  In (L, lf) (walk_row row) -> L = f ++ dot :: rest -> f <> [] -> exists lf', In (f, lf') (walk_row row).
Proof. intros H HL Hf. eapply prefix_emitted_gen; eauto. left. reflexivity. Qed.

Lemma walk_row_nonempty row L lf : In (L, lf) (walk_row row) -> L <> [].
Proof. intro H. apply (walk_paths_ext row [] L lf H). Qed.

(* ---------------------------------------------------------------- regex guard *)

Lemma in_text_leaves es p t : In (p, t) (text_leaves es) <-> In (p, LText t) es.
Proof.
  induction es as [|[q [| |u]] es IH]; simpl.
  - tauto.
  - rewrite IH. split; [auto|intros [E|H]; [discriminate|auto]].
  - rewrite IH. split; [auto|intros [E|H]; [discriminate|auto]].
  - rewrite IH. split; intros [E|H]; auto; inversion E; auto.
Qed.

Lemma is_prefix_app p s : is_prefix p s = true -> exists r, s = p ++ r.
Proof.
  revert s. induction p as [|x p IH]; intros s H; simpl in *; [exists s; reflexivity|].
  destruct s as [|y s]; [discriminate|]. apply andb_true_iff in H as [E H]. apply N.eqb_eq in E. subst.
  destruct (IH s H) as [r ->]. exists r. reflexivity.
Qed.

Section Guard.
  Variable tok : str -> list str.
  Variable re : str -> str -> bool.

  Lemma rcond_field row f p :
    sat_rcond re (walk_row row) f p = true -> sat_bcond tok (walk_row row) (CField f) = true.
  Proof.
    unfold sat_rcond. intro H. apply andb_true_iff in H as [Hne H].
    apply existsb_exists in H as [[L t] [Hin H]]. apply andb_true_iff in H as [Hab _].
    apply in_text_leaves in Hin. simpl in *.
    assert (Hf : f <> []) by (destruct f; [discriminate|discriminate]).
    unfold at_or_beneath in Hab. apply orb_true_iff in Hab as [E|Hp].
    - apply str_eqb_eq in E. subst L. apply existsb_exists. exists (f, LText t). split; [exact Hin| apply str_eqb_refl].
    - apply is_prefix_app in Hp as [r Hr]. rewrite <- app_assoc in Hr. simpl in Hr.
      destruct (prefix_emitted row L (LText t) f r Hin Hr Hf) as [lf' H'].
      apply existsb_exists. exists (f, lf'). split; [exact H'| apply str_eqb_refl].
  Qed.

  Lemma somes_in {A} (l : list (option A)) x : In x (somes l) <-> In (Some x) l.
  Proof.
    induction l as [|[y|] l IH]; simpl; [tauto| |].
    - rewrite IH. split; intros [E|H]; auto; [left; congruence| inversion E; auto].
    - rewrite IH. split; [auto| intros [E|H]; [discriminate|auto]].
  Qed.

  (* the repaired guard never rejects a row the regex tree accepts *)
  Lemma guard_sound row e : forall g,
    sat_rexpr re (walk_row row) e = true -> guard e = Some g -> sat_bexpr tok (walk_row row) g = true.
  Proof.
    induction e as [c|cs IH|cs IH|] using rexpr_ind'; intros g Hs Hg.
    - destruct c as [[f p]|]; simpl in Hg; [|discriminate]. inversion Hg; subst. simpl in Hs.
      simpl. eapply rcond_field; eauto.
    - simpl in Hg. inversion Hg; subst. clear Hg. simpl in Hs. simpl.
      rewrite forallb_forall in *. intros x Hx. apply somes_in in Hx. apply in_map_iff in Hx as [c [Hc Hin]].
      rewrite Forall_forall in IH. eapply IH; eauto.
    - unfold guard in Hg. simpl in Hg.
      destruct (existsb is_none (map (guard_gen true) cs)) eqn:En; [discriminate|].
      inversion Hg; subst. clear Hg. simpl in Hs. simpl.
      apply existsb_exists in Hs as [c [Hc Hs]].
      destruct (guard_gen true c) as [gc|] eqn:Egc.
      + apply existsb_exists. exists gc. split.
        * apply somes_in. apply in_map_iff. exists c. auto.
        * rewrite Forall_forall in IH. eapply IH; eauto.
      + exfalso. assert (Ht : existsb is_none (map (guard_gen true) cs) = true).
        { apply existsb_exists. exists None. split; [|reflexivity]. apply in_map_iff. exists c. auto. }
        congruence.
    - discriminate.
  Qed.

  Lemma guard_q_sound row q :
    sat_rq re (walk_row row) q = true -> sat_bq tok (walk_row row) (guard_q q) = true.
  Proof.
    destruct q as [e|]; simpl; [|reflexivity]. intro H.
    destruct (guard e) as [g|] eqn:E; simpl; [eapply guard_sound; eauto| reflexivity].
  Qed.

  (* compileRegexExpression as repaired keeps the meaning of the tree *)
  Lemma rcompile_sem es e : sat_rexpr re es (rcompile e) = sat_rexpr re es e.
  Proof.
    induction e as [c|cs IH|cs IH|] using rexpr_ind'; try reflexivity.
    - unfold rcompile in *. simpl. rewrite Forall_forall in IH.
      induction cs as [|c cs IHcs]; simpl; [reflexivity|].
      rewrite (IH c (or_introl eq_refl)). f_equal. apply IHcs. intros x Hx. apply IH. right. exact Hx.
    - unfold rcompile in *. simpl. rewrite Forall_forall in IH.
      induction cs as [|c cs IHcs]; simpl; [reflexivity|].
      rewrite (IH c (or_introl eq_refl)). f_equal. apply IHcs. intros x Hx. apply IH. right. exact Hx.
  Qed.
End Guard.

(* the pinned tree (before fix D4): both the row matcher and the guard mis-handle a
   nil-condition child of a regex Or *)
Definition d4_tree : rexpr := ROr [RCond None].
Definition d4_row : json := JObj [(lit "a", JStr (lit "x"))].

Lemma rcompile_pinned_refuted re :
  sat_rexpr re (walk_row d4_row) d4_tree = true /\
  sat_rexpr re (walk_row d4_row) (rcompile_pinned d4_tree) = false.
Proof. split; reflexivity. Qed.

Definition d4_tree2 : rexpr := ROr [RCond None; RCond (Some (lit "zz", lit "."))].

Lemma guard_pinned_refuted tok re :
  exists g, sat_rexpr re (walk_row d4_row) d4_tree2 = true /\ guard_pinned d4_tree2 = Some g /\
            sat_bexpr tok (walk_row d4_row) g = false.
Proof. eexists. split; [reflexivity|]. split; reflexivity. Qed.
