(* Tactics for the kernel ties of family M (min_max.go, query.go): see Proofs/KernelEquiv.v. *)
From BS Require Import Lib.Bytes Lib.Wrap64 Lib.GoPrim Generated.Kernels Generated.KernelTie Model.MinMax Proofs.KernelEquiv.
From Coq Require Import ZArith List Bool Lia.
Import ListNotations.
Local Open Scope Z_scope.

Ltac k_proj_M := cbn [n_op n_val n_vals n_min n_max s_op s_val s_vals s_min s_max] in *.

Ltac k_open_M :=
  intros; autounfold with go_kernels go_ties in *;
  unfold clamp_u, update_mm, eval_minmax, eval_numeric, eval_string, MaxInt64, MinInt64 in *;
  k_destruct_tuples; k_beta; k_proj_M.

(* ---- strings: the generated definitions compare byte lists over Z, the model over N ---- *)
Lemma gstr_cmp_model a : forall b, gstr_ok a -> gstr_ok b ->
  gstr_cmp a b = str_cmp (gstr_to_model a) (gstr_to_model b).
Proof.
  unfold gstr_ok, gstr_to_model. induction a as [|x a IH]; intros [|y b] Ha Hb; cbn [gstr_cmp str_cmp map]; try reflexivity.
  inversion Ha; inversion Hb; subst.
  rewrite Z2N.inj_compare by lia. destruct (x ?= y); try reflexivity. apply IH; assumption.
Qed.

Lemma str_eqb_cmp a : forall b, str_eqb a b = match str_cmp a b with Eq => true | _ => false end.
Proof.
  induction a as [|x a IH]; intros [|y b]; cbn [str_eqb str_cmp]; try reflexivity.
  rewrite N.eqb_compare. destruct (x ?= y)%N; cbn [andb]; [apply IH|reflexivity|reflexivity].
Qed.

Lemma gstr_eqb_cmp a : forall b, gstr_eqb a b = match gstr_cmp a b with Eq => true | _ => false end.
Proof.
  induction a as [|x a IH]; intros [|y b]; cbn [gstr_eqb gstr_cmp]; try reflexivity.
  rewrite Z.eqb_compare. destruct (x ?= y); cbn [andb]; [apply IH|reflexivity|reflexivity].
Qed.

Lemma str_cmp_swap a : forall b, str_cmp b a = CompOpp (str_cmp a b).
Proof.
  induction a as [|x a IH]; intros [|y b]; cbn [str_cmp]; try reflexivity.
  rewrite (N.compare_antisym x y). destruct (x ?= y)%N; cbn [CompOpp]; [apply IH|reflexivity|reflexivity].
Qed.

(* every string comparison of the goal as a case analysis on str_cmp of model strings *)
Ltac k_str_norm :=
  unfold gstr_gtb, gstr_geb, gstr_ltb, gstr_leb, str_ltb, str_leb in *;
  rewrite ?gstr_eqb_cmp, ?str_eqb_cmp;
  repeat match goal with
         | |- context [gstr_cmp ?a ?b] => rewrite (gstr_cmp_model a b) by assumption
         end.

Ltac k_str_split :=
  repeat match goal with
         | |- context [str_cmp ?a ?b] =>
             let E := fresh "E" in
             destruct (str_cmp a b) eqn:E;
             try (rewrite (str_cmp_swap a b), E); cbn [CompOpp]
         end.

Ltac k_str := k_proj_M; k_str_norm; k_str_split.
