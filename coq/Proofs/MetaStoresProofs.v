(* Proofs for Model/MetaStores.v (C14). *)
From BS Require Import Model.MetaStores.
From Coq Require Import List Bool Arith Lia Permutation.
Import ListNotations.
Open Scope nat_scope.

(* ---------------------------------------------------------------- boolean list predicates *)
Lemma memn_In a l : memn a l = true <-> In a l.
Proof.
  unfold memn. rewrite existsb_exists. split.
  - intros [x [Hx E]]. apply Nat.eqb_eq in E. subst. exact Hx.
  - intro H. exists a. split; [exact H|apply Nat.eqb_refl].
Qed.

Lemma memn_false a l : memn a l = false <-> ~ In a l.
Proof. rewrite <- memn_In. destruct (memn a l); split; congruence. Qed.

Lemma nodupn_NoDup l : nodupn l = true -> NoDup l.
Proof.
  induction l as [|x t IH]; simpl; intro H; [constructor|].
  apply andb_true_iff in H as [H1 H2]. apply negb_true_iff, memn_false in H1. constructor; auto.
Qed.

Lemma incln_incl a b : incln a b = true -> incl a b.
Proof. unfold incln. rewrite forallb_forall. intros H x Hx. apply memn_In. auto. Qed.

Lemma disjn_disj a b : disjn a b = true -> forall x, In x a -> In x b -> False.
Proof.
  unfold disjn. rewrite forallb_forall. intros H x Ha Hb. specialize (H x Ha).
  apply negb_true_iff, memn_false in H. auto.
Qed.

Lemma In_remove_all x xs l : In x (remove_all xs l) <-> In x l /\ ~ In x xs.
Proof. unfold remove_all. rewrite filter_In, negb_true_iff, memn_false. tauto. Qed.

Lemma nodup_app_iff {A} (l1 l2 : list A) :
  NoDup (l1 ++ l2) <-> NoDup l1 /\ NoDup l2 /\ (forall x, In x l1 -> In x l2 -> False).
Proof.
  induction l1 as [|a t IH]; simpl.
  - split; [intro H; repeat split; [constructor|exact H|tauto]|tauto].
  - split.
    + intro H. inversion H as [|? ? Hn Hd]; subst. apply IH in Hd as [H1 [H2 H3]].
      repeat split; auto.
      * constructor; [intro K; apply Hn; apply in_or_app; auto|exact H1].
      * intros x [->|Hx] Hx2; [apply Hn; apply in_or_app; auto|eauto].
    + intros [H1 [H2 H3]]. inversion H1; subst. constructor.
      * intro K. apply in_app_or in K as [K|K]; [auto|eapply H3; eauto].
      * apply IH. repeat split; auto. intros x Hx. apply H3. auto.
Qed.

(* rows of distinct files of a duplicate-free concatenation are disjoint *)
Lemma flat_map_nodup_inj {A B} (g : A -> list B) l x a b :
  NoDup (flat_map g l) -> In a l -> In b l -> In x (g a) -> In x (g b) -> a = b.
Proof.
  induction l as [|c t IH]; simpl; intros Hn Ha Hb Hxa Hxb; [tauto|].
  apply nodup_app_iff in Hn as [H1 [H2 H3]].
  destruct Ha as [->|Ha], Hb as [->|Hb]; auto.
  - exfalso. apply (H3 x Hxa). apply in_flat_map. eauto.
  - exfalso. apply (H3 x Hxb). apply in_flat_map. eauto.
Qed.

Lemma flat_map_filter_nodup {A B} (g : A -> list B) p l : NoDup (flat_map g l) -> NoDup (flat_map g (filter p l)).
Proof.
  induction l as [|c t IH]; simpl; intro H; [constructor|].
  apply nodup_app_iff in H as [H1 [H2 H3]]. destruct (p c); [|auto]. simpl.
  apply nodup_app_iff. repeat split; auto. intros x Hx Hx2. apply (H3 x Hx).
  apply in_flat_map in Hx2 as [y [Hy Hxy]]. apply filter_In in Hy as [Hy _]. apply in_flat_map. eauto.
Qed.

Lemma concat_nth_seq_gen {A} (l : list (list A)) : forall k,
  flat_map (fun i => nth (i - k) l []) (seq k (length l)) = concat l.
Proof.
  induction l as [|x t IH]; intro k; [reflexivity|].
  cbn [length seq flat_map concat]. rewrite Nat.sub_diag. cbn [nth]. f_equal.
  rewrite <- (IH (S k)). rewrite !flat_map_concat_map. f_equal. apply map_ext_in.
  intros i Hi. apply in_seq in Hi. replace (i - k) with (S (i - S k)) by lia. reflexivity.
Qed.

Lemma concat_nth_seq {A} (l : list (list A)) : concat l = flat_map (fun i => nth i l []) (seq 0 (length l)).
Proof.
  rewrite <- (concat_nth_seq_gen l 0). rewrite !flat_map_concat_map. f_equal. apply map_ext.
  intro i. rewrite Nat.sub_0_r. reflexivity.
Qed.

Lemma nth_error_remove_at_perm {A} (l : list A) i x : nth_error l i = Some x -> Permutation l (x :: remove_at i l).
Proof.
  revert i. induction l as [|y t IH]; intros [|i] H; simpl in *; try discriminate.
  - inversion H. reflexivity.
  - rewrite (IH i H) at 1. apply perm_swap.
Qed.

(* ---------------------------------------------------------------- files are immutable *)
Definition fext (fs fs' : list file) : Prop :=
  forall f x, nth_error fs f = Some x -> exists x', nth_error fs' f = Some x' /\ fl_blocks x' = fl_blocks x.

Lemma fext_refl fs : fext fs fs.
Proof. intros f x H. exists x. auto. Qed.

Lemma fext_app fs x : fext fs (fs ++ [x]).
Proof. intros f y H. exists y. split; [|reflexivity]. rewrite nth_error_app1; [exact H|apply nth_error_Some; congruence]. Qed.

Lemma nth_error_upd_nth {A} (l : list A) i x j :
  nth_error (upd_nth i x l) j = if j =? i then (if i <? length l then Some x else None) else nth_error l j.
Proof.
  revert i j. induction l as [|y t IH]; intros [|i] [|j]; simpl; try reflexivity.
  - destruct (j =? i); reflexivity.
  - rewrite IH. destruct (j =? i); [|reflexivity]. change (S i <? S (length t)) with (i <? length t). reflexivity.
Qed.

Lemma length_upd_nth {A} (l : list A) i x : length (upd_nth i x l) = length l.
Proof. revert i. induction l as [|y t IH]; intros [|i]; simpl; auto. Qed.

Lemma fext_set_there s f b : fext (s_files s) (set_there f b s).
Proof.
  unfold set_there, getf. destruct (nth_error (s_files s) f) as [x|] eqn:E; [|apply fext_refl].
  intros g y Hg. rewrite nth_error_upd_nth. destruct (g =? f) eqn:Eg.
  - apply Nat.eqb_eq in Eg. subst g. rewrite E in Hg. inversion Hg; subst y.
    assert (Hlt : f < length (s_files s)) by (apply nth_error_Some; congruence).
    apply Nat.ltb_lt in Hlt. rewrite Hlt. eexists. split; [reflexivity|reflexivity].
  - exists y. auto.
Qed.

Lemma length_set_there s f b : length (set_there f b s) = length (s_files s).
Proof. unfold set_there. destruct (getf s f); [apply length_upd_nth|reflexivity]. Qed.

(* views that only depend on the blocks *)
Definition frows_l (fs : list file) (f : nat) : list nat := match nth_error fs f with Some x => rows x | None => [] end.
Definition rows_l (fs : list file) (l : list nat) : list nat := flat_map (frows_l fs) l.
Definition brows_l (fs : list file) (fb : nat * nat) : list nat :=
  match nth_error fs (fst fb) with Some x => nth (snd fb) (fl_blocks x) [] | None => [] end.
Definition blocks_l (fs : list file) (f : nat) : list (nat * nat) :=
  match nth_error fs f with Some x => map (fun i => (f, i)) (seq 0 (length (fl_blocks x))) | None => [] end.

Lemma frows_ext fs fs' f : fext fs fs' -> f < length fs -> frows_l fs' f = frows_l fs f.
Proof.
  intros H Hlt. unfold frows_l. destruct (nth_error fs f) as [x|] eqn:E; [|apply nth_error_None in E; lia].
  destruct (H f x E) as [x' [E' Eb]]. rewrite E'. unfold rows. congruence.
Qed.

Lemma rows_ext fs fs' l : fext fs fs' -> (forall f, In f l -> f < length fs) -> rows_l fs' l = rows_l fs l.
Proof.
  intros H Hl. unfold rows_l. induction l as [|f t IH]; [reflexivity|]. simpl.
  rewrite (frows_ext fs fs' f H) by (apply Hl; left; reflexivity). f_equal. apply IH. intros g Hg. apply Hl. right. exact Hg.
Qed.

Lemma brows_ext fs fs' fb : fext fs fs' -> fst fb < length fs -> brows_l fs' fb = brows_l fs fb.
Proof.
  intros H Hlt. unfold brows_l. destruct (nth_error fs (fst fb)) as [x|] eqn:E; [|apply nth_error_None in E; lia].
  destruct (H _ x E) as [x' [E' Eb]]. rewrite E'. congruence.
Qed.

Lemma blocks_ext fs fs' f : fext fs fs' -> f < length fs -> blocks_l fs' f = blocks_l fs f.
Proof.
  intros H Hlt. unfold blocks_l. destruct (nth_error fs f) as [x|] eqn:E; [|apply nth_error_None in E; lia].
  destruct (H f x E) as [x' [E' Eb]]. rewrite E'. congruence.
Qed.

Lemma fext_length fs fs' : fext fs fs' -> length fs <= length fs'.
Proof.
  intro H. destruct fs as [|x t] eqn:E; [simpl; lia|]. rewrite <- E in *.
  assert (Hl : length fs - 1 < length fs) by (subst; simpl; lia).
  destruct (nth_error fs (length fs - 1)) as [y|] eqn:Ey; [|apply nth_error_None in Ey; lia].
  destruct (H _ y Ey) as [y' [Ey' _]]. assert (length fs - 1 < length fs') by (apply nth_error_Some; congruence). lia.
Qed.

(* blocks of a file, read one by one, give its rows *)
Lemma blocks_rows fs f : flat_map (brows_l fs) (blocks_l fs f) = frows_l fs f.
Proof.
  unfold blocks_l, frows_l, brows_l. destruct (nth_error fs f) as [x|] eqn:E; [|reflexivity].
  unfold rows. rewrite concat_nth_seq. rewrite !flat_map_concat_map, map_map. f_equal. apply map_ext.
  intro i. cbn [fst snd]. rewrite E. reflexivity.
Qed.

Lemma blocks_rows_all fs l : flat_map (brows_l fs) (flat_map (blocks_l fs) l) = rows_l fs l.
Proof.
  unfold rows_l. induction l as [|f t IH]; [reflexivity|]. simpl. rewrite flat_map_app, blocks_rows, IH. reflexivity.
Qed.

(* ---------------------------------------------------------------- invariants (MemoryMetaStore) *)
Definition qinv (fs : list file) (acked ingested : list nat) (q : query) : Prop :=
  incl (q_acked0 q) acked /\
  (forall fb, In fb (q_todo q) -> fst fb < length fs) /\
  (q_done q = true -> q_todo q = [] /\ q_snap q <> None) /\
  match q_snap q with
  | None => q_got q = [] /\ q_todo q = []
  | Some sn =>
      (forall f, In f sn -> f < length fs) /\
      NoDup (rows_l fs sn) /\ incl (q_acked0 q) (rows_l fs sn) /\ incl (rows_l fs sn) ingested /\
      (q_err q = false -> Permutation (q_got q ++ flat_map (brows_l fs) (q_todo q)) (rows_l fs sn))
  end.

Record GI (s : mstate) : Prop := mkGI {
  gi_ids : NoDup (s_meta s ++ s_pending s);
  gi_lt : forall f, In f (s_meta s ++ s_pending s) -> f < length (s_files s);
  gi_nodup : NoDup (rows_l (s_files s) (s_meta s ++ s_pending s));
  gi_acked : incl (s_acked s) (rows_l (s_files s) (s_meta s));
  gi_ing : forall f, f < length (s_files s) -> incl (frows_l (s_files s) f) (s_ingested s);
  gi_commit : forall f, In f (s_commit s) -> f < length (s_files s) /\ incl (frows_l (s_files s) f) (rows_l (s_files s) (s_meta s));
  gi_merge : forall m, s_merge s = Some m ->
      NoDup (m_srcs m) /\ (forall f, In f (m_srcs m) -> f < length (s_files s)) /\
      (m_committed m = false -> incl (m_srcs m) (s_meta s)) /\
      (forall o, m_out m = Some o ->
         o < length (s_files s) /\ NoDup (frows_l (s_files s) o) /\
         incl (frows_l (s_files s) o) (rows_l (s_files s) (m_srcs m)) /\
         incl (rows_l (s_files s) (m_srcs m)) (frows_l (s_files s) o) /\
         (m_committed m = false -> ~ In o (s_meta s ++ s_pending s)));
  gi_q : forall i q, nth_error (s_queries s) i = Some q -> qinv (s_files s) (s_acked s) (s_ingested s) q
}.

Lemma gi_init : GI m0.
Proof.
  constructor; simpl.
  - constructor.
  - tauto.
  - constructor.
  - intros x [].
  - intros f H. lia.
  - tauto.
  - discriminate.
  - intros i q H. destruct i; discriminate.
Qed.

(* queries are insensitive to everything but the (immutable) files, and acknowledgements and
   ingestion only grow *)
Lemma qinv_ext fs fs' ack ack' ing ing' q :
  fext fs fs' -> incl ack ack' -> incl ing ing' -> qinv fs ack ing q -> qinv fs' ack' ing' q.
Proof.
  intros Hf Ha Hi [Q1 [Q2 [Q3 Q4]]]. pose proof (fext_length _ _ Hf) as Hlen.
  assert (Htodo : flat_map (brows_l fs') (q_todo q) = flat_map (brows_l fs) (q_todo q)).
  { rewrite !flat_map_concat_map. f_equal. apply map_ext_in. intros fb Hfb. apply brows_ext; auto. }
  split; [eapply incl_tran; eauto|]. split; [intros fb Hfb; specialize (Q2 fb Hfb); lia|]. split; [exact Q3|].
  destruct (q_snap q) as [sn|]; [|exact Q4].
  destruct Q4 as [S1 [S2 [S3 [S4 S5]]]].
  rewrite (rows_ext fs fs' sn Hf S1), Htodo.
  split; [intros f Hfi; specialize (S1 f Hfi); lia|]. split; [exact S2|]. split; [exact S3|]. split; [eapply incl_tran; eauto|exact S5].
Qed.

Lemma qinv_overlap0 fs ack ing q :
  qinv fs ack ing q ->
  qinv fs ack ing (mkQuery (q_acked0 q) true (q_listing q) (q_snap q) (q_todo q) (q_handles q) (q_got q) (q_err q) (q_done q)).
Proof. intro H. exact H. Qed.

Lemma qinv_overlap fs ack ing q :
  qinv fs ack ing q ->
  qinv fs ack ing (if q_done q then q else mkQuery (q_acked0 q) true (q_listing q) (q_snap q) (q_todo q) (q_handles q) (q_got q) (q_err q) (q_done q)).
Proof.
  intro H. pose proof (qinv_overlap0 fs ack ing q H) as H'.
  set (q' := mkQuery (q_acked0 q) true (q_listing q) (q_snap q) (q_todo q) (q_handles q) (q_got q) (q_err q) (q_done q)) in *.
  clearbody q'. destruct (q_done q); assumption.
Qed.

Lemma qs_ext s fs' ack' ing' qs' :
  GI s -> fext (s_files s) fs' -> incl (s_acked s) ack' -> incl (s_ingested s) ing' ->
  (qs' = s_queries s \/ qs' = mark_overlap (s_queries s)) ->
  forall i q, nth_error qs' i = Some q -> qinv fs' ack' ing' q.
Proof.
  intros G Hf Ha Hi Hq i q Hn. destruct Hq as [->| ->].
  - apply (qinv_ext _ _ _ _ _ _ _ Hf Ha Hi). apply (gi_q _ G i q Hn).
  - unfold mark_overlap in Hn. rewrite nth_error_map in Hn.
    destruct (nth_error (s_queries s) i) as [q0|] eqn:E; [|discriminate]. inversion Hn; subst q.
    apply (qinv_ext _ _ _ _ _ _ _ Hf Ha Hi). apply qinv_overlap. apply (gi_q _ G i q0 E).
Qed.

(* ---------------------------------------------------------------- preservation *)

Ltac ifs H := repeat match type of H with
  | (if ?b then _ else _) = Some _ => let E := fresh "E" in destruct b eqn:E; [|discriminate H]
  | match ?x with _ => _ end = Some _ => let E := fresh "E" in destruct x eqn:E; try discriminate H
  end; try (injection H as H; subst).

Ltac split_and E := repeat match type of E with _ && _ = true => let E2 := fresh "E" in apply andb_true_iff in E as [E E2]; try split_and E2 end.

Lemma rows_l_app fs a b : rows_l fs (a ++ b) = rows_l fs a ++ rows_l fs b.
Proof. apply flat_map_app. Qed.

Lemma frows_new fs x : frows_l (fs ++ [x]) (length fs) = rows x.
Proof. unfold frows_l. rewrite nth_error_app2, Nat.sub_diag by lia. reflexivity. Qed.

Lemma filter_id {A} (p : A -> bool) l : (forall x, In x l -> p x = true) -> filter p l = l.
Proof.
  induction l as [|y t IH]; intro H; [reflexivity|]. simpl. rewrite (H y (or_introl eq_refl)). f_equal. apply IH.
  intros x Hx. apply H. right. exact Hx.
Qed.

Lemma memn_single x f : memn x [f] = (x =? f).
Proof. unfold memn. simpl. apply orb_false_r. Qed.

Lemma perm_remove_all f l : NoDup l -> In f l -> Permutation l (f :: remove_all [f] l).
Proof.
  induction l as [|y t IH]; intros Hn Hi; [destruct Hi|]. inversion Hn; subst.
  unfold remove_all. cbn [filter]. rewrite memn_single. destruct (y =? f) eqn:E.
  - apply Nat.eqb_eq in E. subst y. cbn [negb]. constructor.
    rewrite filter_id; [reflexivity|]. intros x Hx. rewrite memn_single.
    apply negb_true_iff, Nat.eqb_neq. intro; subst. contradiction.
  - cbn [negb]. destruct Hi as [->|Hi]; [rewrite Nat.eqb_refl in E; discriminate|].
    rewrite perm_swap. constructor. apply IH; assumption.
Qed.

Lemma in_rows_l fs l r : In r (rows_l fs l) <-> exists f, In f l /\ In r (frows_l fs f).
Proof. unfold rows_l. apply in_flat_map. Qed.

Lemma gi_rows_ing s l : GI s -> (forall f, In f l -> f < length (s_files s)) -> incl (rows_l (s_files s) l) (s_ingested s).
Proof.
  intros G Hl r Hr. apply in_rows_l in Hr as [f [Hf Hrf]]. apply (gi_ing _ G f (Hl f Hf) r Hrf).
Qed.

(* shape shared by all steps that are not query steps *)
Lemma gi_flush_create s blocks :
  GI s -> nodupn (concat blocks) = true -> disjn (concat blocks) (s_ingested s) = true ->
  GI (mkM (s_files s ++ [mkFile blocks false false]) (s_meta s) (s_pending s ++ [length (s_files s)]) (s_commit s)
          (s_acked s) (s_ingested s ++ concat blocks) (s_merge s) (s_queries s)).
Proof.
  intros G Hn Hd. set (fs' := s_files s ++ [mkFile blocks false false]).
  assert (Hf : fext (s_files s) fs') by apply fext_app.
  assert (Hlen : length fs' = S (length (s_files s))) by (unfold fs'; rewrite app_length; simpl; lia).
  assert (Hold : rows_l fs' (s_meta s ++ s_pending s) = rows_l (s_files s) (s_meta s ++ s_pending s))
    by (apply rows_ext; [exact Hf|apply (gi_lt _ G)]).
  assert (Hnew : frows_l fs' (length (s_files s)) = concat blocks) by (unfold fs'; rewrite frows_new; reflexivity).
  constructor; cbn [s_files s_meta s_pending s_commit s_acked s_ingested s_merge s_queries].
  - rewrite app_assoc. apply nodup_app_iff. split; [apply (gi_ids _ G)|]. split; [constructor; [tauto|constructor]|].
    intros x Hx [<-|[]]. apply (gi_lt _ G) in Hx. lia.
  - intros f Hfi. rewrite Hlen. rewrite app_assoc in Hfi. apply in_app_or in Hfi as [Hfi|[<-|[]]]; [apply (gi_lt _ G) in Hfi; lia|lia].
  - rewrite app_assoc, rows_l_app, Hold. apply nodup_app_iff. split; [apply (gi_nodup _ G)|].
    split; [unfold rows_l; simpl; rewrite app_nil_r, Hnew; apply nodupn_NoDup; exact Hn|].
    intros r Hr Hr2. unfold rows_l in Hr2. simpl in Hr2. rewrite app_nil_r, Hnew in Hr2.
    apply (disjn_disj _ _ Hd r Hr2). apply (gi_rows_ing s _ G (gi_lt _ G) r Hr).
  - rewrite (rows_ext _ fs' _ Hf); [apply (gi_acked _ G)|]. intros f Hfi. apply (gi_lt _ G). apply in_or_app; auto.
  - intros f Hlt. rewrite Hlen in Hlt. destruct (Nat.eq_dec f (length (s_files s))) as [->|Hne].
    + rewrite Hnew. apply incl_appr, incl_refl.
    + rewrite (frows_ext _ fs' f Hf) by lia. apply incl_appl. apply (gi_ing _ G). lia.
  - intros f Hfi. destruct (gi_commit _ G f Hfi) as [Hlt Hin]. split; [lia|].
    rewrite (frows_ext _ fs' f Hf Hlt), (rows_ext _ fs' _ Hf); [exact Hin|].
    intros g Hg. apply (gi_lt _ G). apply in_or_app; auto.
  - intros m Hm. destruct (gi_merge _ G m Hm) as [M1 [M2 [M3 M4]]].
    split; [exact M1|]. split; [intros f Hfi; specialize (M2 f Hfi); lia|]. split; [exact M3|].
    intros o Ho. destruct (M4 o Ho) as [O1 [O2 [O3 [O4 O5]]]].
    rewrite (frows_ext _ fs' o Hf O1), (rows_ext _ fs' _ Hf M2).
    split; [lia|]. split; [exact O2|]. split; [exact O3|]. split; [exact O4|].
    intros Hc Hin. rewrite app_assoc in Hin. apply in_app_or in Hin as [Hin|[E|[]]]; [apply (O5 Hc Hin)|lia].
  - apply (qs_ext s fs' _ _ _ G Hf (incl_refl _)); [apply incl_appl, incl_refl|left; reflexivity].
Qed.

(* steps that leave meta / pending / commit / acked / ingested alone *)
Lemma gi_frame s fs' mg' qs' :
  GI s -> fext (s_files s) fs' ->
  (forall f, length (s_files s) <= f -> f < length fs' -> incl (frows_l fs' f) (s_ingested s)) ->
  (forall m, mg' = Some m ->
      NoDup (m_srcs m) /\ (forall f, In f (m_srcs m) -> f < length fs') /\
      (m_committed m = false -> incl (m_srcs m) (s_meta s)) /\
      (forall o, m_out m = Some o ->
         o < length fs' /\ NoDup (frows_l fs' o) /\
         incl (frows_l fs' o) (rows_l fs' (m_srcs m)) /\ incl (rows_l fs' (m_srcs m)) (frows_l fs' o) /\
         (m_committed m = false -> ~ In o (s_meta s ++ s_pending s)))) ->
  (qs' = s_queries s \/ qs' = mark_overlap (s_queries s)) ->
  GI (mkM fs' (s_meta s) (s_pending s) (s_commit s) (s_acked s) (s_ingested s) mg' qs').
Proof.
  intros G Hf Hnew Hm Hq. pose proof (fext_length _ _ Hf) as Hlen.
  constructor; cbn [s_files s_meta s_pending s_commit s_acked s_ingested s_merge s_queries].
  - apply (gi_ids _ G).
  - intros f Hfi. apply (gi_lt _ G) in Hfi. lia.
  - rewrite (rows_ext _ fs' _ Hf (gi_lt _ G)). apply (gi_nodup _ G).
  - rewrite (rows_ext _ fs' _ Hf); [apply (gi_acked _ G)|]. intros f Hfi. apply (gi_lt _ G). apply in_or_app; auto.
  - intros f Hlt. destruct (lt_dec f (length (s_files s))) as [Ho|Hn].
    + rewrite (frows_ext _ fs' f Hf Ho). apply (gi_ing _ G f Ho).
    + apply Hnew; lia.
  - intros f Hfi. destruct (gi_commit _ G f Hfi) as [Hlt Hin]. split; [lia|].
    rewrite (frows_ext _ fs' f Hf Hlt), (rows_ext _ fs' _ Hf); [exact Hin|].
    intros g Hg. apply (gi_lt _ G). apply in_or_app; auto.
  - exact Hm.
  - apply (qs_ext s fs' _ _ _ G Hf (incl_refl _) (incl_refl _) Hq).
Qed.

Lemma gi_merge_ext s fs' m :
  GI s -> fext (s_files s) fs' -> s_merge s = Some m ->
      NoDup (m_srcs m) /\ (forall f, In f (m_srcs m) -> f < length fs') /\
      (m_committed m = false -> incl (m_srcs m) (s_meta s)) /\
      (forall o, m_out m = Some o ->
         o < length fs' /\ NoDup (frows_l fs' o) /\
         incl (frows_l fs' o) (rows_l fs' (m_srcs m)) /\ incl (rows_l fs' (m_srcs m)) (frows_l fs' o) /\
         (m_committed m = false -> ~ In o (s_meta s ++ s_pending s))).
Proof.
  intros G Hf Hm. pose proof (fext_length _ _ Hf) as Hlen. destruct (gi_merge _ G m Hm) as [M1 [M2 [M3 M4]]].
  split; [exact M1|]. split; [intros f Hfi; specialize (M2 f Hfi); lia|]. split; [exact M3|].
  intros o Ho. destruct (M4 o Ho) as [O1 [O2 [O3 [O4 O5]]]].
  rewrite (frows_ext _ fs' o Hf O1), (rows_ext _ fs' _ Hf M2). repeat split; auto. lia.
Qed.

Lemma gi_update s f :
  GI s -> In f (s_pending s) ->
  GI (mkM (s_files s) (s_meta s ++ [f]) (remove_all [f] (s_pending s)) (s_commit s ++ [f])
          (s_acked s) (s_ingested s) (s_merge s) (s_queries s)).
Proof.
  intros G Hf. set (fs := s_files s).
  assert (Hnd : NoDup (s_pending s)) by (pose proof (gi_ids _ G) as H; apply nodup_app_iff in H; tauto).
  assert (Hperm : Permutation (s_meta s ++ s_pending s) ((s_meta s ++ [f]) ++ remove_all [f] (s_pending s))).
  { rewrite <- app_assoc. apply Permutation_app_head. simpl. apply perm_remove_all; assumption. }
  assert (Hflt : f < length fs) by (apply (gi_lt _ G); apply in_or_app; auto).
  constructor; cbn [s_files s_meta s_pending s_commit s_acked s_ingested s_merge s_queries].
  - apply (Permutation_NoDup Hperm). apply (gi_ids _ G).
  - intros g Hg. apply (gi_lt _ G). apply (Permutation_in _ (Permutation_sym Hperm) Hg).
  - apply (Permutation_NoDup (Permutation_flat_map _ Hperm)). apply (gi_nodup _ G).
  - rewrite rows_l_app. apply incl_appl. apply (gi_acked _ G).
  - apply (gi_ing _ G).
  - intros g Hg. apply in_app_or in Hg as [Hg|[<-|[]]].
    + destruct (gi_commit _ G g Hg) as [H1 H2]. split; [exact H1|]. rewrite rows_l_app. apply incl_appl. exact H2.
    + split; [exact Hflt|]. rewrite rows_l_app. apply incl_appr. unfold rows_l. simpl. rewrite app_nil_r. apply incl_refl.
  - intros m Hm. destruct (gi_merge _ G m Hm) as [M1 [M2 [M3 M4]]].
    split; [exact M1|]. split; [exact M2|]. split; [intro Hc; apply incl_appl; apply (M3 Hc)|].
    intros o Ho. destruct (M4 o Ho) as [O1 [O2 [O3 [O4 O5]]]]. repeat split; auto.
    intros Hc Hin. apply (O5 Hc). apply (Permutation_in _ (Permutation_sym Hperm) Hin).
  - apply (gi_q _ G).
Qed.

Lemma gi_ack s f :
  GI s -> In f (s_commit s) ->
  GI (mkM (s_files s) (s_meta s) (s_pending s) (remove_all [f] (s_commit s)) (s_acked s ++ frows s f)
          (s_ingested s) (s_merge s) (s_queries s)).
Proof.
  intros G Hf. destruct (gi_commit _ G f Hf) as [Hlt Hin].
  constructor; cbn [s_files s_meta s_pending s_commit s_acked s_ingested s_merge s_queries];
    try apply G.
  - apply incl_app; [apply (gi_acked _ G)|exact Hin].
  - intros g Hg. apply In_remove_all in Hg as [Hg _]. apply (gi_commit _ G g Hg).
  - intros i q Hq. apply (qinv_ext _ _ _ _ _ _ _ (fext_refl _) (incl_appl _ (incl_refl _)) (incl_refl _)). apply (gi_q _ G i q Hq).
Qed.

Lemma sub_flat_nodup {A B} (g : A -> list B) (p : A -> bool) l : NoDup (flat_map g l) -> NoDup (flat_map g (filter p l)).
Proof. apply flat_map_filter_nodup. Qed.

Lemma gi_fail s f :
  GI s -> In f (s_pending s) ->
  GI (mkM (set_there f false s) (s_meta s) (remove_all [f] (s_pending s)) (s_commit s) (s_acked s) (s_ingested s)
          (s_merge s) (s_queries s)).
Proof.
  intros G Hf. set (fs' := set_there f false s).
  assert (He : fext (s_files s) fs') by apply fext_set_there.
  assert (Hl : length fs' = length (s_files s)) by apply length_set_there.
  assert (Hsub : forall g, In g (s_meta s ++ remove_all [f] (s_pending s)) -> In g (s_meta s ++ s_pending s)).
  { intros g Hg. apply in_app_or in Hg as [Hg|Hg]; apply in_or_app; [auto|]. apply In_remove_all in Hg. tauto. }
  constructor; cbn [s_files s_meta s_pending s_commit s_acked s_ingested s_merge s_queries].
  - pose proof (gi_ids _ G) as H. apply nodup_app_iff in H as [H1 [H2 H3]]. apply nodup_app_iff.
    split; [exact H1|]. split; [apply NoDup_filter; exact H2|]. intros x Hx Hx2. apply In_remove_all in Hx2. apply (H3 x Hx). tauto.
  - intros g Hg. rewrite Hl. apply (gi_lt _ G). apply Hsub. exact Hg.
  - rewrite (rows_ext _ fs' _ He); [|intros g Hg; apply (gi_lt _ G), Hsub, Hg].
    pose proof (gi_nodup _ G) as H. rewrite rows_l_app in *. apply nodup_app_iff in H as [H1 [H2 H3]]. apply nodup_app_iff.
    split; [exact H1|]. split; [apply flat_map_filter_nodup; exact H2|].
    intros x Hx Hx2. apply (H3 x Hx). apply in_rows_l in Hx2 as [g [Hg Hr]]. apply In_remove_all in Hg. apply in_rows_l. exists g. tauto.
  - rewrite (rows_ext _ fs' _ He); [apply (gi_acked _ G)|]. intros g Hg. apply (gi_lt _ G). apply in_or_app; auto.
  - intros g Hlt. rewrite Hl in Hlt. rewrite (frows_ext _ fs' g He Hlt). apply (gi_ing _ G g Hlt).
  - intros g Hg. destruct (gi_commit _ G g Hg) as [H1 H2]. split; [lia|].
    rewrite (frows_ext _ fs' g He H1), (rows_ext _ fs' _ He); [exact H2|]. intros h Hh. apply (gi_lt _ G). apply in_or_app; auto.
  - intros m Hm. destruct (gi_merge_ext s fs' m G He Hm) as [M1 [M2 [M3 M4]]].
    split; [exact M1|]. split; [exact M2|]. split; [exact M3|].
    intros o Ho. destruct (M4 o Ho) as [O1 [O2 [O3 [O4 O5]]]]. repeat split; auto.
    intros Hc Hin. apply (O5 Hc). apply Hsub. exact Hin.
  - apply (qs_ext s fs' _ _ _ G He (incl_refl _) (incl_refl _)). left. reflexivity.
Qed.

Lemma gi_mupdate s m o :
  GI s -> s_merge s = Some m -> m_out m = Some o -> m_committed m = false ->
  GI (mkM (s_files s) (remove_all (m_srcs m) (s_meta s) ++ [o]) (s_pending s) (s_commit s) (s_acked s) (s_ingested s)
          (Some (mkMerge (m_srcs m) (Some o) true)) (mark_overlap (s_queries s))).
Proof.
  intros G Hm Ho Hc. set (fs := s_files s).
  destruct (gi_merge _ G m Hm) as [M1 [M2 [M3 M4]]]. specialize (M3 Hc).
  destruct (M4 o Ho) as [O1 [O2 [O3 [O4 O5]]]]. specialize (O5 Hc).
  pose proof (gi_ids _ G) as Hids. pose proof (gi_nodup _ G) as Hnd.
  rewrite rows_l_app in Hnd. apply nodup_app_iff in Hnd as [Hn1 [Hn2 Hn3]].
  apply nodup_app_iff in Hids as [Hi1 [Hi2 Hi3]].
  (* rows of the kept files and rows of the sources are disjoint *)
  assert (Hdisj : forall r, In r (rows_l fs (remove_all (m_srcs m) (s_meta s))) -> In r (rows_l fs (m_srcs m)) -> False).
  { intros r Hr1 Hr2. apply in_rows_l in Hr1 as [a [Ha Hra]]. apply in_rows_l in Hr2 as [b [Hb Hrb]].
    apply In_remove_all in Ha as [Ha Hna]. apply Hna.
    rewrite (flat_map_nodup_inj (frows_l fs) (s_meta s) r a b Hn1 Ha (M3 b Hb) Hra Hrb). exact Hb. }
  (* the swap keeps the row set *)
  assert (Hswap : incl (rows_l fs (s_meta s)) (rows_l fs (remove_all (m_srcs m) (s_meta s) ++ [o]))).
  { intros r Hr. apply in_rows_l in Hr as [a [Ha Hra]]. rewrite rows_l_app. apply in_or_app.
    destruct (in_dec Nat.eq_dec a (m_srcs m)) as [Hs|Hs].
    - right. unfold rows_l. simpl. rewrite app_nil_r. apply O4. apply in_rows_l. eauto.
    - left. apply in_rows_l. exists a. split; [apply In_remove_all; auto|exact Hra]. }
  constructor; cbn [s_files s_meta s_pending s_commit s_acked s_ingested s_merge s_queries].
  - rewrite <- app_assoc. apply nodup_app_iff. split; [apply NoDup_filter; exact Hi1|].
    split.
    + simpl. constructor; [intro K; apply O5; apply in_or_app; auto|exact Hi2].
    + intros x Hx [<-|Hx2]; apply In_remove_all in Hx as [Hx _]; [apply O5; apply in_or_app; auto|apply (Hi3 x Hx Hx2)].
  - intros g Hg. rewrite <- app_assoc in Hg. apply in_app_or in Hg as [Hg|[<-|Hg]].
    + apply In_remove_all in Hg as [Hg _]. apply (gi_lt _ G). apply in_or_app; auto.
    + exact O1.
    + apply (gi_lt _ G). apply in_or_app; auto.
  - rewrite !rows_l_app. unfold rows_l at 2. simpl. rewrite app_nil_r.
    apply nodup_app_iff. split.
    + apply nodup_app_iff. split; [apply flat_map_filter_nodup; exact Hn1|]. split; [exact O2|].
      intros r Hr1 Hr2. apply (Hdisj r Hr1). apply O3. exact Hr2.
    + split; [exact Hn2|]. intros r Hr Hr2. apply (Hn3 r); [|exact Hr2].
      apply in_app_or in Hr as [Hr|Hr].
      * apply in_rows_l in Hr as [a [Ha Hra]]. apply In_remove_all in Ha as [Ha _]. apply in_rows_l. eauto.
      * apply O3 in Hr. apply in_rows_l in Hr as [b [Hb Hrb]]. apply in_rows_l. exists b. split; [apply M3; exact Hb|exact Hrb].
  - eapply incl_tran; [apply (gi_acked _ G)|exact Hswap].
  - apply (gi_ing _ G).
  - intros g Hg. destruct (gi_commit _ G g Hg) as [H1 H2]. split; [exact H1|]. eapply incl_tran; [exact H2|exact Hswap].
  - intros m' Hm'. inversion Hm'; subst m'. cbn.
    split; [exact M1|]. split; [exact M2|]. split; [discriminate|].
    intros o' Ho'. inversion Ho'; subst o'. repeat split; auto. discriminate.
  - apply (qs_ext s _ _ _ _ G (fext_refl _) (incl_refl _) (incl_refl _)). right. reflexivity.
Qed.

Lemma gi_setq s i q' :
  GI s -> qinv (s_files s) (s_acked s) (s_ingested s) q' -> GI (set_q i q' s).
Proof.
  intros G Hq. destruct G. constructor; cbn [set_q s_files s_meta s_pending s_commit s_acked s_ingested s_merge s_queries]; auto.
  intros j q Hj. rewrite nth_error_upd_nth in Hj. destruct (j =? i).
  - destruct (i <? length (s_queries s)); [|discriminate]. inversion Hj; subst q. exact Hq.
  - eauto.
Qed.

Lemma gi_qstart s :
  GI s ->
  GI (mkM (s_files s) (s_meta s) (s_pending s) (s_commit s) (s_acked s) (s_ingested s) (s_merge s)
          (s_queries s ++ [mkQuery (s_acked s) (merge_running s) None None [] [] [] false false])).
Proof.
  intro G. destruct G. constructor; cbn [s_files s_meta s_pending s_commit s_acked s_ingested s_merge s_queries]; auto.
  intros j q Hj. destruct (lt_dec j (length (s_queries s))).
  - rewrite nth_error_app1 in Hj by lia. eauto.
  - rewrite nth_error_app2 in Hj by lia. destruct (j - length (s_queries s)) as [|k]; [|destruct k; discriminate].
    inversion Hj; subst q. unfold qinv; cbn. split; [apply incl_refl|]. split; [intros fb []|]. split; [discriminate|auto].
Qed.

Lemma gi_step s l s' : GI s -> mstep MemStore s l = Some s' -> GI s'.
Proof.
  intros G H. destruct l; cbn [mstep] in H.
  - (* LFCreate *) ifs H. split_and E. apply gi_flush_create; assumption.
  - (* LFPublish *) ifs H. apply (gi_frame s _ _ _ G (fext_set_there s f true)).
    + intros g H1 H2. rewrite length_set_there in H2. lia.
    + intros m Hm. apply (gi_merge_ext s _ m G (fext_set_there s f true) Hm).
    + left; reflexivity.
  - (* LFUpdate *) ifs H. split_and E. apply gi_update; [exact G|apply memn_In; assumption].
  - (* LFAck *) ifs H. apply gi_ack; [exact G|apply memn_In; assumption].
  - (* LFFail *) ifs H. apply gi_fail; [exact G|apply memn_In; assumption].
  - (* LMStart *) ifs H. split_and E. apply (gi_frame s _ _ _ G (fext_refl _)).
    + intros g H1 H2. lia.
    + intros m Hm. inversion Hm; subst m. cbn.
      assert (Hin : incl srcs (s_meta s)) by (apply incln_incl; assumption).
      split; [apply nodupn_NoDup; assumption|]. split; [intros g Hg; apply (gi_lt _ G); apply in_or_app; left; apply Hin; exact Hg|].
      split; [intros _; exact Hin|]. intros o Ho. discriminate.
    + right; reflexivity.
  - (* LMCreate *) ifs H. split_and E0.
    destruct (gi_merge _ G m E) as [M1 [M2 [M3 M4]]].
    set (fs' := s_files s ++ [mkFile blocks false false]).
    assert (Hf : fext (s_files s) fs') by apply fext_app.
    assert (Hnew : frows_l fs' (length (s_files s)) = concat blocks) by (unfold fs'; rewrite frows_new; reflexivity).
    assert (Hsrc : rows_l fs' (m_srcs m) = rows_l (s_files s) (m_srcs m)) by (apply rows_ext; assumption).
    apply (gi_frame s fs' _ _ G Hf).
    + intros g H1 H2. unfold fs' in H2. rewrite app_length in H2. simpl in H2. assert (g = length (s_files s)) by lia. subst g.
      rewrite Hnew. eapply incl_tran; [apply incln_incl; eassumption|]. apply (gi_rows_ing s _ G M2).
    + intros m' Hm'. inversion Hm'; subst m'. cbn [m_srcs m_out m_committed].
      split; [exact M1|]. split; [intros g Hg; specialize (M2 g Hg); unfold fs'; rewrite app_length; simpl; lia|].
      split; [exact M3|].
      intros o Ho. inversion Ho; subst o. rewrite Hnew, Hsrc.
      split; [unfold fs'; rewrite app_length; simpl; lia|]. split; [apply nodupn_NoDup; assumption|].
      split; [apply incln_incl; assumption|]. split; [apply incln_incl; assumption|].
      intros _ Hin. apply (gi_lt _ G) in Hin. lia.
    + right; reflexivity.
  - (* LMPublish *) ifs H. apply (gi_frame s _ _ _ G (fext_set_there s n true)).
    + intros g H1 H2. rewrite length_set_there in H2. lia.
    + intros m' Hm'. apply (gi_merge_ext s _ m' G (fext_set_there s n true)). congruence.
    + right; reflexivity.
  - (* LMUpdate *) ifs H. split_and E1. apply negb_true_iff in E2. apply (gi_mupdate s m n G E E0 E2).
  - (* LMRemove *) ifs H. apply (gi_frame s _ _ _ G (fext_set_there s f false)).
    + intros g H1 H2. rewrite length_set_there in H2. lia.
    + intros m' Hm'. apply (gi_merge_ext s _ m' G (fext_set_there s f false)). congruence.
    + right; reflexivity.
  - (* LMEnd *) ifs H. apply (gi_frame s _ _ _ G (fext_refl _)).
    + intros g H1 H2. lia.
    + discriminate.
    + right; reflexivity.
  - (* LMAbort *) ifs H. destruct (m_out m) as [o|].
    + apply (gi_frame s _ _ _ G (fext_set_there s o false)).
      * intros g H1 H2. rewrite length_set_there in H2. lia.
      * discriminate.
      * right; reflexivity.
    + apply (gi_frame s _ _ _ G (fext_refl _)).
      * intros g H1 H2. lia.
      * discriminate.
      * right; reflexivity.
  - (* LQStart *) ifs H. apply gi_qstart; exact G.
  - (* LQSnap *) ifs H.
    assert (Hs : q_snap q0 = None) by (destruct (q_snap q0); [cbn in *; discriminate|reflexivity]).
    apply gi_setq; [exact G|].
    pose proof (gi_q _ G q q0 E) as [Q1 [Q2 [Q3 Q4]]]. rewrite Hs in Q4. destruct Q4 as [Hgot Htodo].
    assert (Hlt : forall f, In f (s_meta s) -> f < length (s_files s)) by (intros f Hf; apply (gi_lt _ G); apply in_or_app; auto).
    unfold qinv; cbn. split; [exact Q1|]. split.
    { intros fb Hfb. apply in_flat_map in Hfb as [f [Hf Hfb]]. unfold blocks_of, getf in Hfb.
      destruct (nth_error (s_files s) f) eqn:Ef; [|destruct Hfb]. apply in_map_iff in Hfb as [i [<- _]]. cbn. apply Hlt. exact Hf. }
    split; [discriminate|]. split; [exact Hlt|].
    split. { pose proof (gi_nodup _ G) as Hn. rewrite rows_l_app in Hn. apply nodup_app_iff in Hn. tauto. }
    split; [eapply incl_tran; [exact Q1|apply (gi_acked _ G)]|].
    split; [apply (gi_rows_ing s _ G Hlt)|].
    intros _. rewrite Hgot. cbn [app]. rewrite <- (blocks_rows_all (s_files s) (s_meta s)). apply Permutation_refl.
  - (* LQList *) discriminate.
  - (* LQParse *) discriminate.
  - (* LQRead *) ifs H. split_and E1. apply gi_setq; [exact G|].
    pose proof (gi_q _ G q q0 E) as [Q1 [Q2 [Q3 Q4]]].
    assert (Hrm : forall fb, In fb (remove_at i (q_todo q0)) -> In fb (q_todo q0)).
    { intros fb Hfb. apply (Permutation_in _ (Permutation_sym (nth_error_remove_at_perm _ _ _ E0))). right. exact Hfb. }
    unfold qinv; cbn. split; [exact Q1|]. split; [intros fb Hfb; apply Q2, Hrm, Hfb|]. split; [discriminate|].
    destruct (q_snap q0) as [sn|].
    + destruct Q4 as [S1 [S2 [S3 [S4 S5]]]]. repeat split; auto.
      intro Herr. apply orb_false_iff in Herr as [He1 He2]. apply negb_false_iff in He2. subst ok.
      rewrite <- (S5 He1). rewrite <- app_assoc. apply Permutation_app_head.
      change (block_rows s p) with (brows_l (s_files s) p).
      rewrite (Permutation_flat_map (brows_l (s_files s)) (nth_error_remove_at_perm _ _ _ E0)). reflexivity.
    + destruct Q4 as [_ Ht]. rewrite Ht in E0. destruct i; discriminate.
  - (* LQEnd *) ifs H. apply gi_setq; [exact G|].
    pose proof (gi_q _ G q q0 E) as [Q1 [Q2 [Q3 Q4]]]. split_and E0.
    destruct (q_todo q0) eqn:Et; [|discriminate].
    unfold qinv; cbn. split; [exact Q1|]. split; [intros fb []|].
    destruct (q_snap q0) as [sn|] eqn:Es; [|discriminate]. split; [intros _; split; [reflexivity|discriminate]|]. exact Q4.
Qed.

Lemma gi_run ls : forall s s', GI s -> mrun MemStore s ls = Some s' -> GI s'.
Proof.
  induction ls as [|l t IH]; simpl; intros s s' G H; [inversion H; subst; exact G|].
  destruct (mstep MemStore s l) as [s1|] eqn:E; [|discriminate]. apply (IH s1 s' (gi_step s l s1 G E) H).
Qed.

(* C14 for MemoryMetaStore: every interleaving of queries, flushes and merges *)
Lemma mem_snapshot_consistent ls s i q :
  mrun MemStore m0 ls = Some s -> nth_error (s_queries s) i = Some q ->
  q_done q = true -> q_err q = false ->
  NoDup (q_got q) /\ incl (q_acked0 q) (q_got q) /\ incl (q_got q) (s_ingested s).
Proof.
  intros H Hq Hd He. pose proof (gi_run ls m0 s gi_init H) as G.
  destruct (gi_q _ G i q Hq) as [Q1 [Q2 [Q3 Q4]]]. destruct (Q3 Hd) as [Ht Hs].
  destruct (q_snap q) as [sn|]; [|contradiction].
  destruct Q4 as [S1 [S2 [S3 [S4 S5]]]]. specialize (S5 He). rewrite Ht in S5. cbn in S5. rewrite app_nil_r in S5.
  split; [apply (Permutation_NoDup (Permutation_sym S5) S2)|].
  split; [intros r Hr; apply (Permutation_in _ (Permutation_sym S5)); apply S3; exact Hr|].
  intros r Hr. apply S4. apply (Permutation_in _ S5 Hr).
Qed.

(* FileSystemDataStore as MetaStore: the same statement is false (D3) *)
Definition fs_pre : list mlabel :=
  [LFCreate [[1]]; LFPublish 0; LFUpdate 0; LFAck 0; LFCreate [[2]]; LFPublish 1; LFUpdate 1; LFAck 1].
(* the scan runs between the publish of the merge output and the removal of the sources *)
Definition fs_dup : list mlabel :=
  fs_pre ++ [LMStart [0; 1]; LMCreate [[1; 2]]; LMPublish; LQStart; LQList 0;
             LQParse 0 0 true; LQParse 0 1 true; LQParse 0 2 true;
             LQRead 0 0 true; LQRead 0 0 true; LQRead 0 0 true; LQEnd 0].
(* the readdir snapshot predates the publish, the per-file parse follows the removal *)
Definition fs_miss : list mlabel :=
  fs_pre ++ [LQStart; LQList 0; LMStart [0; 1]; LMCreate [[1; 2]]; LMPublish; LMUpdate; LMRemove 0; LMRemove 1; LMEnd;
             LQParse 0 0 false; LQParse 0 1 false; LQEnd 0].

Lemma fs_dup_refuted :
  exists s q, mrun FsMeta m0 fs_dup = Some s /\ nth_error (s_queries s) 0 = Some q /\ q_done q = true /\ q_err q = false /\ q_acked0 q = [1; 2] /\ q_got q = [1; 2; 1; 2] /\ ~ NoDup (q_got q).
Proof.
  eexists. eexists. split; [vm_compute; reflexivity|]. split; [reflexivity|]. cbn. repeat split; try reflexivity.
  intro H. inversion H as [|? ? Hn _]. apply Hn. simpl. auto.
Qed.

Lemma fs_miss_refuted :
  exists s q, mrun FsMeta m0 fs_miss = Some s /\ nth_error (s_queries s) 0 = Some q /\ q_done q = true /\ q_err q = false /\ q_acked0 q = [1; 2] /\ q_got q = [] /\ ~ incl (q_acked0 q) (q_got q).
Proof.
  eexists. eexists. split; [vm_compute; reflexivity|]. split; [reflexivity|]. cbn. repeat split; try reflexivity.
  intro H. apply (H 1). simpl. auto.
Qed.

(* the same two schedules on the memory store: consistent snapshot, or an error *)
Definition mem_sched : list mlabel :=
  fs_pre ++ [LQStart; LMStart [0; 1]; LMCreate [[1; 2]]; LMPublish; LQSnap 0; LMUpdate; LMRemove 0; LMRemove 1; LMEnd;
             LQRead 0 0 false; LQRead 0 0 false; LQEnd 0].
Lemma mem_sched_err :
  exists s q, mrun MemStore m0 mem_sched = Some s /\ nth_error (s_queries s) 0 = Some q /\ q_done q = true /\ q_err q = true.
Proof. eexists. eexists. split; [vm_compute; reflexivity|]. split; [reflexivity|]. cbn. auto. Qed.

(* non-vacuity of the memory-store theorem: a query overlapping a flush and a whole merge, nil error *)
Definition mem_ok : list mlabel :=
  fs_pre ++ [LQStart; LFCreate [[3]]; LMStart [0; 1]; LQSnap 0; LMCreate [[1; 2]]; LMPublish; LQRead 0 0 true; LMUpdate;
             LFPublish 2; LMRemove 0; LQRead 0 0 true; LMRemove 1; LMEnd; LFUpdate 2; LFAck 2; LQEnd 0].
Lemma mem_ok_run :
  exists s q, mrun MemStore m0 mem_ok = Some s /\ nth_error (s_queries s) 0 = Some q /\ q_done q = true /\ q_err q = false /\ q_overlap q = true /\ q_got q = [1; 2] /\ s_acked s = [1; 2; 3].
Proof. eexists. eexists. split; [vm_compute; reflexivity|]. split; [reflexivity|]. cbn. auto 10. Qed.
