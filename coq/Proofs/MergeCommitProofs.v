(* Lemmas for family G, commit part (C13): every run of merge() under every fault oracle
   is committed, aborted or a no-op, and returns accordingly; what the MetaStore shows
   along the way; the TryLock single-flight. *)
From BS Require Import Lib.Bytes Model.MinMax Model.MergePlan Model.MergeCommit Proofs.MergePlanProofs.
From Coq Require Import Lia ZArith List Bool Permutation Arith.
Open Scope Z_scope.

(* ------------------------------------------------------------------ *)
(* classes of events                                                   *)

Definition is_body_ev (e : ev) : bool :=
  match e_call e with KOpen _ | KRead _ | KWrite _ | KIter => true | _ => false end.
Definition is_tomb_ev (e : ev) : bool :=
  match e_call e with KTomb _ => true | _ => false end.
(* anything but a MetaStore.Update *)
Definition not_update (e : ev) : bool :=
  match e_call e with KUpdate _ _ => false | _ => true end.
(* anything but CreateFile *)
Definition not_create (e : ev) : bool :=
  match e_call e with KCreate _ => false | _ => true end.
Definition not_cleanup (e : ev) : bool :=
  match e_call e with KAbort _ | KTomb _ => false | _ => true end.

Lemma forallb_impl {A} (p q : A -> bool) l : (forall x, p x = true -> q x = true) -> forallb p l = true -> forallb q l = true.
Proof. intros H. rewrite !forallb_forall. auto. Qed.

Lemma body_not_update e : is_body_ev e = true -> not_update e = true.
Proof. unfold is_body_ev, not_update. destruct (e_call e); auto. Qed.
Lemma body_not_create e : is_body_ev e = true -> not_create e = true.
Proof. unfold is_body_ev, not_create. destruct (e_call e); auto. Qed.
Lemma body_not_cleanup e : is_body_ev e = true -> not_cleanup e = true.
Proof. unfold is_body_ev, not_cleanup. destruct (e_call e); auto; discriminate. Qed.
Lemma tomb_not_update e : is_tomb_ev e = true -> not_update e = true.
Proof. unfold is_tomb_ev, not_update. destruct (e_call e); auto. Qed.
Lemma tomb_not_create e : is_tomb_ev e = true -> not_create e = true.
Proof. unfold is_tomb_ev, not_create. destruct (e_call e); auto. Qed.

Lemma no_update_ok tr : forallb not_update tr = true -> existsb is_update_ok tr = false.
Proof.
  induction tr as [|e t IH]; simpl; [reflexivity|]. intro H. apply andb_true_iff in H as [H1 H2].
  rewrite (IH H2). unfold is_update_ok, not_update in *. destruct (e_call e); try discriminate; rewrite andb_false_r; reflexivity.
Qed.

Lemma no_create_created tr : forallb not_create tr = true -> created tr = [].
Proof.
  induction tr as [|e t IH]; simpl; [reflexivity|]. intro H. apply andb_true_iff in H as [H1 H2].
  rewrite (IH H2). unfold not_create in H1. destruct (e_call e); try discriminate; destruct (e_ok e); reflexivity.
Qed.

Lemma no_cleanup_touch ps tr : forallb not_cleanup tr = true -> existsb (touches_cleanup ps) tr = false.
Proof.
  induction tr as [|e t IH]; simpl; [reflexivity|]. intro H. apply andb_true_iff in H as [H1 H2].
  rewrite (IH H2). unfold not_cleanup, touches_cleanup in *. destruct (e_call e); try discriminate; reflexivity.
Qed.

Lemma created_app a b : created (a ++ b) = created a ++ created b.
Proof. unfold created. apply flat_map_app. Qed.

Lemma closed_ok_app a b o : closed_ok (a ++ b) o = closed_ok a o || closed_ok b o.
Proof. unfold closed_ok. apply existsb_app. Qed.

Lemma cleanup_attempted_app a b o : cleanup_attempted (a ++ b) o = cleanup_attempted a o || cleanup_attempted b o.
Proof. unfold cleanup_attempted. apply existsb_app. Qed.

(* ------------------------------------------------------------------ *)
(* the pieces of the program                                           *)

Lemma run_body_spec fo out : forall ops n tr ok n',
  run_body fo n out ops = (tr, ok, n') -> forallb is_body_ev tr = true.
Proof.
  induction ops as [|o t IH]; intros n tr ok n'; simpl.
  - intro H; inversion H; subst. reflexivity.
  - destruct (fo n).
    + intro H; inversion H; subst. simpl. destruct o; reflexivity.
    + destruct (run_body fo (S n) out t) as [[tr' ok'] n''] eqn:R. intro H; inversion H; subst.
      simpl. rewrite (IH _ _ _ _ R). destruct o; reflexivity.
Qed.

Lemma tomb_all_spec fo : forall ps n tr oks n',
  tomb_all fo n ps = (tr, oks, n') ->
  forallb is_tomb_ev tr = true /\ oks = map e_ok tr /\ map e_call tr = map KTomb ps.
Proof.
  induction ps as [|p t IH]; intros n tr oks n'; simpl.
  - intro H; inversion H; subst. auto.
  - destruct (tomb_all fo (S n) t) as [[tr' oks'] n''] eqn:R. intro H; inversion H; subst.
    destruct (IH _ _ _ _ R) as [A [B C]]. simpl. rewrite A, B, C. auto.
Qed.

Lemma tomb_all_attempts fo ps n tr oks n' p :
  tomb_all fo n ps = (tr, oks, n') -> In p ps -> tomb_attempted tr p = true /\ cleanup_attempted tr p = true.
Proof.
  intros H Hin. apply tomb_all_spec in H as [_ [_ H]].
  assert (G : exists e, In e tr /\ e_call e = KTomb p).
  { assert (Hk : In (KTomb p) (map e_call tr)) by (rewrite H; apply in_map; exact Hin).
    apply in_map_iff in Hk as [e [He Hi]]. exists e. auto. }
  destruct G as [e [He Hc]]. unfold tomb_attempted, cleanup_attempted. split; apply existsb_exists; exists e;
    (split; [exact He|rewrite Hc; apply Z.eqb_refl]).
Qed.

(* what a trace says about one output: used for the failing group *)
Record group_fail_facts (out : Z) (tr : list ev) : Prop := {
  gf_no_update : forallb not_update tr = true;
  gf_created : created tr = [] \/ (created tr = [out] /\ cleanup_attempted tr out = true)
}.

Lemma abort_writer_spec fo n ha ca out tra n2 :
  abort_writer fo n ha ca out = (tra, n2) ->
  forallb not_update tra = true /\ forallb not_create tra = true /\ cleanup_attempted tra out = true.
Proof.
  unfold abort_writer. destruct ha; [|destruct ca]; intro H; inversion H; subst; simpl;
    unfold cleanup_attempted; simpl; rewrite Z.eqb_refl; simpl; rewrite ?orb_true_r; auto.
Qed.

Lemma exec_group_ok fo n ha out body tr n' :
  exec_group fo n ha out body = (tr, true, n') ->
  exists b, tr = Ev (KCreate out) true :: b ++ [Ev (KClose out) true] /\ forallb is_body_ev b = true.
Proof.
  unfold exec_group. destruct (fo n); [intro H; inversion H|].
  destruct (run_body fo (S n) out body) as [[b ok] n1] eqn:R.
  pose proof (run_body_spec _ _ _ _ _ _ _ R) as Hb.
  destruct ok; simpl.
  - destruct (fo n1).
    + destruct (abort_writer fo (S n1) ha true out) as [tra n2]. intro H; inversion H.
    + intro H; inversion H; subst. exists b. auto.
  - destruct (abort_writer fo n1 ha false out) as [tra n2]. intro H; inversion H.
Qed.

Lemma exec_group_fail fo n ha out body tr n' :
  exec_group fo n ha out body = (tr, false, n') -> group_fail_facts out tr.
Proof.
  unfold exec_group. destruct (fo n).
  { intro H; inversion H; subst. split; [reflexivity|left; reflexivity]. }
  destruct (run_body fo (S n) out body) as [[b ok] n1] eqn:R.
  pose proof (run_body_spec _ _ _ _ _ _ _ R) as Hb.
  assert (Hbu : forallb not_update b = true) by (eapply forallb_impl; [apply body_not_update|exact Hb]).
  assert (Hbc : created b = []) by (apply no_create_created; eapply forallb_impl; [apply body_not_create|exact Hb]).
  destruct ok; simpl.
  - destruct (fo n1).
    + destruct (abort_writer fo (S n1) ha true out) as [tra n2] eqn:A. intro H; inversion H; subst.
      destruct (abort_writer_spec _ _ _ _ _ _ _ A) as [A1 [A2 A3]]. split.
      * simpl. rewrite forallb_app, Hbu. simpl. exact A1.
      * right. split.
        -- simpl. rewrite created_app, Hbc. simpl. rewrite (no_create_created _ A2). reflexivity.
        -- change (Ev (KCreate out) true :: b ++ Ev (KClose out) false :: tra)
             with ([Ev (KCreate out) true] ++ b ++ [Ev (KClose out) false] ++ tra).
           rewrite !cleanup_attempted_app, A3, !orb_true_r. reflexivity.
    + intro H; inversion H.
  - destruct (abort_writer fo n1 ha false out) as [tra n2] eqn:A. intro H; inversion H; subst.
    destruct (abort_writer_spec _ _ _ _ _ _ _ A) as [A1 [A2 A3]]. split.
    + simpl. rewrite forallb_app, Hbu. exact A1.
    + right. split.
      * simpl. rewrite created_app, Hbc. simpl. rewrite (no_create_created _ A2). reflexivity.
      * change (Ev (KCreate out) true :: b ++ tra) with ([Ev (KCreate out) true] ++ b ++ tra).
        rewrite !cleanup_attempted_app, A3, !orb_true_r. reflexivity.
Qed.

Definition outs_from (outp : nat -> Z) (gi len : nat) : list Z := map outp (seq gi len).

(* a successful group loop: nothing but creates, body calls and successful closes *)
Record groups_ok_facts (outs : list Z) (tr : list ev) : Prop := {
  go_no_update : forallb not_update tr = true;
  go_no_cleanup : forallb not_cleanup tr = true;
  go_created : created tr = outs;
  go_closed : forall o, In o outs -> closed_ok tr o = true
}.

Record groups_fail_facts (done : list Z) (tr : list ev) : Prop := {
  gfl_no_update : forallb not_update tr = true;
  gfl_cleaned : forall o, In o (done ++ created tr) -> cleanup_attempted tr o = true
}.

Lemma run_groups_spec fo ha outp : forall groups gi done n tr ok done' n',
  run_groups fo ha outp gi groups done n = (tr, ok, done', n') ->
  if ok then done' = done ++ outs_from outp gi (length groups) /\ groups_ok_facts (outs_from outp gi (length groups)) tr
  else groups_fail_facts done tr.
Proof.
  induction groups as [|g gs IH]; intros gi done n tr ok done' n'; simpl.
  - intro H; inversion H; subst. unfold outs_from. simpl. rewrite app_nil_r. split; [reflexivity|].
    split; try reflexivity. simpl. tauto.
  - destruct (exec_group fo n ha (outp gi) (g_body g)) as [[tr1 ok1] n1] eqn:E. destruct ok1.
    + destruct (run_groups fo ha outp (S gi) gs (done ++ [outp gi]) n1) as [[[tr2 ok2] done2] n2] eqn:R.
      intro H; inversion H; subst. specialize (IH _ _ _ _ _ _ _ R).
      destruct (exec_group_ok _ _ _ _ _ _ _ E) as [b [-> Hb]].
      assert (Hbu : forallb not_update b = true) by (eapply forallb_impl; [apply body_not_update|exact Hb]).
      assert (Hbc : created b = []) by (apply no_create_created; eapply forallb_impl; [apply body_not_create|exact Hb]).
      assert (Hbl : forallb not_cleanup b = true) by (eapply forallb_impl; [apply body_not_cleanup|exact Hb]).
      remember (Ev (KCreate (outp gi)) true :: b ++ [Ev (KClose (outp gi)) true]) as t1 eqn:Et1.
      assert (T1u : forallb not_update t1 = true) by (rewrite Et1; simpl; rewrite forallb_app, Hbu; reflexivity).
      assert (T1l : forallb not_cleanup t1 = true) by (rewrite Et1; simpl; rewrite forallb_app, Hbl; reflexivity).
      assert (T1c : created t1 = [outp gi]) by (rewrite Et1; simpl; rewrite created_app, Hbc; reflexivity).
      assert (T1k : closed_ok t1 (outp gi) = true).
      { rewrite Et1. change (Ev (KCreate (outp gi)) true :: b ++ [Ev (KClose (outp gi)) true])
          with ([Ev (KCreate (outp gi)) true] ++ b ++ [Ev (KClose (outp gi)) true]).
        rewrite !closed_ok_app. unfold closed_ok at 3. simpl. rewrite Z.eqb_refl. rewrite !orb_true_r. reflexivity. }
      clear Et1. destruct ok.
      * destruct IH as [-> F]. destruct F as [F1 F2 F3 F4].
        assert (Eo : outs_from outp gi (S (length gs)) = outp gi :: outs_from outp (S gi) (length gs)) by reflexivity.
        rewrite Eo. split.
        -- rewrite <- app_assoc. reflexivity.
        -- split.
           ++ rewrite forallb_app, T1u. exact F1.
           ++ rewrite forallb_app, T1l. exact F2.
           ++ rewrite created_app, T1c, F3. reflexivity.
           ++ intros o [<-|Ho]; rewrite closed_ok_app; [rewrite T1k; reflexivity|rewrite (F4 o Ho); apply orb_true_r].
      * destruct IH as [F1 F2]. split.
        -- rewrite forallb_app, T1u. exact F1.
        -- intros o Ho. rewrite cleanup_attempted_app. rewrite created_app, T1c in Ho.
           rewrite (F2 o); [apply orb_true_r|].
           apply in_app_or in Ho as [Ho|Ho]; [apply in_or_app; left; apply in_or_app; auto|].
           cbn [app] in Ho. destruct Ho as [<-|Ho]; [apply in_or_app; left; apply in_or_app; simpl; auto|].
           apply in_or_app. auto.
    + destruct (tomb_all fo n1 done) as [[trc oks] n2] eqn:T. intro H; inversion H; subst.
      destruct (exec_group_fail _ _ _ _ _ _ _ E) as [G1 G2].
      destruct (tomb_all_spec _ _ _ _ _ _ T) as [T1 _].
      assert (Tu : forallb not_update trc = true) by (eapply forallb_impl; [apply tomb_not_update|exact T1]).
      assert (Tc : created trc = []) by (apply no_create_created; eapply forallb_impl; [apply tomb_not_create|exact T1]).
      split.
      * rewrite forallb_app, G1. exact Tu.
      * intros o Ho. rewrite cleanup_attempted_app. rewrite created_app, Tc, app_nil_r in Ho.
        apply in_app_or in Ho as [Ho|Ho].
        -- destruct (tomb_all_attempts _ _ _ _ _ _ o T Ho) as [_ A]. rewrite A. apply orb_true_r.
        -- destruct G2 as [G2|[G2 G3]]; rewrite G2 in Ho; simpl in Ho; [contradiction|].
           destruct Ho as [<-|[]]. rewrite G3. reflexivity.
Qed.

Lemma exec_group_nonempty fo n ha out body tr ok n' :
  exec_group fo n ha out body = (tr, ok, n') -> tr <> [].
Proof.
  unfold exec_group. destruct (fo n); [intro H; inversion H; discriminate|].
  destruct (run_body fo (S n) out body) as [[b okb] nb]. destruct okb; simpl.
  - destruct (fo nb); [destruct (abort_writer fo (S nb) ha true out)|]; intro H; inversion H; discriminate.
  - destruct (abort_writer fo nb ha false out); intro H; inversion H; discriminate.
Qed.

Lemma run_groups_nonempty fo ha outp gi groups done n tr ok done' n' :
  groups <> [] -> run_groups fo ha outp gi groups done n = (tr, ok, done', n') -> tr <> [].
Proof.
  destruct groups as [|g gs]; [congruence|]. intros _. simpl.
  destruct (exec_group fo n ha (outp gi) (g_body g)) as [[tr1 ok1] n1] eqn:E.
  apply exec_group_nonempty in E. destruct ok1.
  - destruct (run_groups fo ha outp (S gi) gs (done ++ [outp gi]) n1) as [[[tr2 ok2] done2] n2].
    intro H; inversion H; subst. destruct tr1; [congruence|discriminate].
  - destruct (tomb_all fo n1 done) as [[trc oks] n2]. intro H; inversion H; subst. destruct tr1; [congruence|discriminate].
Qed.

(* ------------------------------------------------------------------ *)
(* outcome of merge()                                                  *)

Lemma split_update_none tr : forallb not_update tr = true -> split_update tr = None.
Proof.
  induction tr as [|e t IH]; simpl; [reflexivity|]. intro H. apply andb_true_iff in H as [H1 H2].
  rewrite (IH H2). unfold not_update in H1. destruct (e_call e); try discriminate; reflexivity.
Qed.

Lemma split_update_at pre ws ds post :
  forallb not_update pre = true ->
  split_update (pre ++ Ev (KUpdate ws ds) true :: post) = Some (pre, (ws, ds), post).
Proof.
  induction pre as [|e t IH]; simpl; [reflexivity|]. intro H. apply andb_true_iff in H as [H1 H2].
  rewrite (IH H2). unfold not_update in H1. destruct (e_call e); try discriminate; reflexivity.
Qed.

Lemma split_update_fail_at pre ws ds post :
  forallb not_update pre = true -> forallb not_update post = true ->
  split_update (pre ++ Ev (KUpdate ws ds) false :: post) = None.
Proof.
  intros H1 H2. induction pre as [|e t IH]; simpl.
  - rewrite (split_update_none _ H2). reflexivity.
  - simpl in H1. apply andb_true_iff in H1 as [A B]. rewrite (IH B).
    unfold not_update in A. destruct (e_call e); try discriminate; reflexivity.
Qed.

Lemma incl_z_refl l : incl_z l l = true.
Proof. unfold incl_z. apply forallb_forall. intros x Hx. apply mem_z_In. exact Hx. Qed.

Lemma existsb_false_forall {A} (p : A -> bool) l : (forall x, In x l -> p x = false) -> existsb p l = false.
Proof.
  induction l as [|x t IH]; simpl; intro H; [reflexivity|].
  rewrite (H x (or_introl eq_refl)). apply IH. intros; apply H; auto.
Qed.

(* the four ways a run of merge() can go *)
Inductive run_class (tr : list ev) (r : ret) : Prop :=
| RC_nothing : nothingb tr = true -> committedb tr = false -> r = RetStats -> run_class tr r
| RC_aborted : abortedb tr = true -> committedb tr = false -> nothingb tr = false -> r = RetErr -> run_class tr r
| RC_commit_clean : committedb tr = true -> source_cleanup_ok tr = true -> nothingb tr = false -> abortedb tr = false ->
                    r = RetStats -> run_class tr r
| RC_commit_dirty : committedb tr = true -> source_cleanup_ok tr = false -> nothingb tr = false -> abortedb tr = false ->
                    r = RetStatsCleanup -> run_class tr r.

Lemma committedb_needs_update tr : split_update tr = None -> committedb tr = false.
Proof. unfold committedb. intros ->. reflexivity. Qed.

Lemma abortedb_no_update tr : existsb is_update_ok tr = true -> abortedb tr = false.
Proof. unfold abortedb. intros ->. reflexivity. Qed.

Section Outcome.
  Variable fo : oracle.
  Variable has_abort : bool.
  Variable outp : nat -> Z.
  Variable groups : list group.
  (* CreateFile hands out pointers that are not among the sources of this merge *)
  Hypothesis fresh : forall o, In o (outs_from outp 0 (length groups)) -> ~ In o (flat_map g_srcs groups).

  Lemma merge_prog_class : run_class (fst (merge_prog fo has_abort outp groups)) (snd (merge_prog fo has_abort outp groups)).
  Proof.
    unfold merge_prog. destruct (fo 0%nat) eqn:F0.
    { simpl. apply RC_aborted; reflexivity. }
    destruct (run_groups fo has_abort outp 0 groups [] 1%nat) as [[[tr ok] done] n] eqn:R.
    pose proof (run_groups_spec _ _ _ _ _ _ _ _ _ _ _ R) as S. destruct ok; simpl negb; cbv iota.
    - destruct S as [-> [S1 S2 S3 S4]]. simpl app.
      destruct (outs_from outp 0 (length groups)) as [|o outs] eqn:Eo.
      + (* no group: nothing to merge *)
        simpl. assert (tr = []).
        { destruct groups as [|g gs]; [|unfold outs_from in Eo; simpl in Eo; discriminate].
          simpl in R. inversion R. reflexivity. }
        subst tr. apply RC_nothing; reflexivity.
      + set (outs' := o :: outs) in *. set (dels := flat_map g_srcs groups) in *.
        assert (Pu : forallb not_update (Ev KIter true :: tr) = true) by (simpl; exact S1).
        destruct (fo n) eqn:Fn.
        * (* Update failed: outputs tombstoned *)
          destruct (tomb_all fo (S n) outs') as [[trc oks] n2] eqn:T. simpl.
          destruct (tomb_all_spec _ _ _ _ _ _ T) as [T1 _].
          assert (Tu : forallb not_update trc = true) by (eapply forallb_impl; [apply tomb_not_update|exact T1]).
          assert (Tc : created trc = []) by (apply no_create_created; eapply forallb_impl; [apply tomb_not_create|exact T1]).
          change (Ev KIter true :: tr ++ Ev (KUpdate outs' dels) false :: trc)
            with ((Ev KIter true :: tr) ++ Ev (KUpdate outs' dels) false :: trc).
          apply RC_aborted; try reflexivity.
          -- unfold abortedb. rewrite existsb_app, (no_update_ok _ Pu). cbn [existsb]. rewrite (no_update_ok _ Tu).
             unfold is_update_ok. cbn [e_ok andb orb negb].
             apply forallb_forall. intros x Hx. rewrite created_app in Hx. simpl in Hx. rewrite S3, Tc, app_nil_r in Hx.
             rewrite cleanup_attempted_app. change (Ev (KUpdate outs' dels) false :: trc) with ([Ev (KUpdate outs' dels) false] ++ trc).
             rewrite cleanup_attempted_app. destruct (tomb_all_attempts _ _ _ _ _ _ x T Hx) as [_ A]. rewrite A, !orb_true_r. reflexivity.
          -- apply committedb_needs_update. apply split_update_fail_at; assumption.
          -- simpl. destruct tr; reflexivity.
        * (* committed *)
          destruct (tomb_all fo (S n) dels) as [[trt oks] n2] eqn:T. simpl.
          destruct (tomb_all_spec _ _ _ _ _ _ T) as [T1 [T2 T3]].
          assert (Tu : forallb not_update trt = true) by (eapply forallb_impl; [apply tomb_not_update|exact T1]).
          assert (Tc : created trt = []) by (apply no_create_created; eapply forallb_impl; [apply tomb_not_create|exact T1]).
          change (Ev KIter true :: tr ++ Ev (KUpdate outs' dels) true :: trt)
            with ((Ev KIter true :: tr) ++ Ev (KUpdate outs' dels) true :: trt).
          set (pre := Ev KIter true :: tr) in *. set (full := pre ++ Ev (KUpdate outs' dels) true :: trt).
          assert (Hsplit : split_update full = Some (pre, (outs', dels), trt)) by (apply split_update_at; exact Pu).
          assert (Hcre : created full = outs').
          { unfold full. rewrite created_app. simpl. unfold pre. simpl. rewrite S3, Tc, app_nil_r. reflexivity. }
          assert (Hcpre : created pre = outs') by (unfold pre; simpl; exact S3).
          assert (C1 : forallb (closed_ok pre) outs' = true).
          { apply forallb_forall. intros x Hx. unfold pre.
            change (Ev KIter true :: tr) with ([Ev KIter true] ++ tr). rewrite closed_ok_app, (S4 x Hx). apply orb_true_r. }
          assert (C2 : existsb (touches_cleanup outs') full = false).
          { unfold full. rewrite existsb_app. unfold pre. cbn [existsb]. rewrite (no_cleanup_touch _ _ S2).
            unfold touches_cleanup at 1 2. cbn [e_call orb].
            apply existsb_false_forall. intros e He.
            assert (Hk : In (e_call e) (map KTomb dels)) by (rewrite <- T3; apply in_map; exact He).
            apply in_map_iff in Hk as [d [Hd Hin]]. unfold touches_cleanup. rewrite <- Hd.
            apply mem_z_false. intro Hmem. apply (fresh d Hmem Hin). }
          assert (C3 : existsb (touches_cleanup dels) pre = false).
          { unfold pre. cbn [existsb]. unfold touches_cleanup at 1. cbn [e_call orb]. apply no_cleanup_touch. exact S2. }
          assert (C4 : forallb (tomb_attempted trt) dels = true).
          { apply forallb_forall. intros d Hd. apply (tomb_all_attempts _ _ _ _ _ _ d T Hd). }
          assert (Hcom : committedb full = true).
          { unfold committedb. rewrite Hsplit. cbv beta iota.
            rewrite (no_update_ok _ Tu), Hcre, Hcpre, incl_z_refl, C1, C2, C3, C4. reflexivity. }
          assert (Hclean : source_cleanup_ok full = forallb (fun b => b) oks).
          { unfold source_cleanup_ok. rewrite Hsplit. rewrite T2. clear. induction trt; simpl; [reflexivity|]. rewrite IHtrt. reflexivity. }
          assert (Hnot : nothingb full = false).
          { unfold full, pre. simpl. destruct tr; reflexivity. }
          assert (Hab : abortedb full = false).
          { apply abortedb_no_update. unfold full. rewrite existsb_app. simpl. apply orb_true_r. }
          destruct (forallb (fun b => b) oks) eqn:Eok.
          -- apply RC_commit_clean; auto.
          -- apply RC_commit_dirty; auto.
    - (* a group failed *)
      destruct S as [S1 S2]. simpl.
      apply RC_aborted; try reflexivity.
      + unfold abortedb. simpl. rewrite (no_update_ok _ S1). simpl.
        apply forallb_forall. intros x Hx. change (Ev KIter true :: tr) with ([Ev KIter true] ++ tr).
        rewrite cleanup_attempted_app. rewrite (S2 x Hx). apply orb_true_r.
      + apply committedb_needs_update. apply split_update_none. simpl. exact S1.
      + (* a failing group performs at least a CreateFile *)
        assert (Hne : tr <> []).
        { destruct groups as [|g gs]; [simpl in R; inversion R|].
          eapply run_groups_nonempty; [|exact R]. discriminate. }
        simpl. destruct tr; [congruence|reflexivity].
  Qed.

  (* the return value contract, both directions *)
  Lemma merge_prog_result :
    let tr := fst (merge_prog fo has_abort outp groups) in
    let r := snd (merge_prog fo has_abort outp groups) in
    (r = RetStats <-> (committedb tr && source_cleanup_ok tr) || nothingb tr = true) /\
    (r = RetStatsCleanup <-> committedb tr && negb (source_cleanup_ok tr) = true) /\
    (r = RetErr <-> abortedb tr && negb (committedb tr) && negb (nothingb tr) = true) /\
    r <> RetInProgress.
  Proof.
    cbv zeta.
    destruct merge_prog_class as [A B C|A B C D|A B C D E|A B C D E];
      rewrite ?A, ?B, ?C, ?D, ?E; cbn [andb orb negb];
      repeat split; intro H; try discriminate H; try reflexivity;
      rewrite ?andb_false_r, ?andb_true_r in H; try discriminate H.
  Qed.

  Lemma merge_prog_ret_ok :
    ret_okb (fst (merge_prog fo has_abort outp groups)) (snd (merge_prog fo has_abort outp groups)) = true.
  Proof.
    destruct merge_prog_class as [A B C|A B C D|A B C D E|A B C D E]; rewrite ?C, ?D, ?E; simpl; rewrite ?A, ?B; simpl; auto.
  Qed.
End Outcome.

(* ------------------------------------------------------------------ *)
(* reading the outcome predicates                                       *)

Lemma split_update_spec : forall tr pre ws ds post,
  split_update tr = Some (pre, (ws, ds), post) ->
  tr = pre ++ Ev (KUpdate ws ds) true :: post /\ existsb is_update_ok pre = false.
Proof.
  induction tr as [|e t IH]; intros pre ws ds post; [discriminate|].
  assert (Hrec : match split_update t with
                 | Some (pre0, u, post0) => Some (e :: pre0, u, post0)
                 | None => None
                 end = Some (pre, (ws, ds), post) ->
                 is_update_ok e = false ->
                 e :: t = pre ++ Ev (KUpdate ws ds) true :: post /\ existsb is_update_ok pre = false).
  { destruct (split_update t) as [[[p [ws' ds']] q]|] eqn:S; [|discriminate].
    intros H Hu; inversion H; subst. destruct (IH _ _ _ _ eq_refl) as [-> E'].
    split; [reflexivity|simpl; rewrite Hu, E'; reflexivity]. }
  destruct e as [k ok]; destruct k; cbn [split_update e_call e_ok];
    try (intro H; apply Hrec; [exact H|unfold is_update_ok; simpl; apply andb_false_r]).
  destruct ok.
  - intro H; inversion H; subst. split; reflexivity.
  - intro H; apply Hrec; [exact H|reflexivity].
Qed.

(* what "committed" says, position by position *)
Lemma committedb_spec tr :
  committedb tr = true ->
  exists pre ws ds post,
    tr = pre ++ Ev (KUpdate ws ds) true :: post /\
    existsb is_update_ok pre = false /\ existsb is_update_ok post = false /\
    (forall o, In o (created tr) -> In o ws) /\                       (* every output handed out is referenced *)
    (forall o, In o ws -> In o (created pre) /\ closed_ok pre o = true) /\   (* and was published before the Update *)
    (forall e, In e tr -> touches_cleanup ws e = false) /\            (* no output is ever aborted or tombstoned *)
    (forall e, In e pre -> touches_cleanup ds e = false) /\           (* no source is tombstoned before the Update *)
    (forall d, In d ds -> tomb_attempted post d = true).               (* every source is tombstoned after it *)
Proof.
  unfold committedb. destruct (split_update tr) as [[[pre [ws ds]] post]|] eqn:S; [|discriminate].
  destruct (split_update_spec _ _ _ _ _ S) as [E Hpre]. intro H.
  apply andb_true_iff in H as [H K7]. apply andb_true_iff in H as [H K6]. apply andb_true_iff in H as [H K5].
  apply andb_true_iff in H as [H K4]. apply andb_true_iff in H as [H K3]. apply andb_true_iff in H as [K1 K2].
  apply negb_true_iff in K1, K5, K6. unfold incl_z in K2, K3. rewrite forallb_forall in K2, K3, K4, K7.
  exists pre, ws, ds, post. split; [exact E|]. split; [exact Hpre|]. split; [exact K1|].
  split; [intros o Ho; apply mem_z_In; apply K2; exact Ho|].
  split; [intros o Ho; split; [apply mem_z_In; apply K3; exact Ho|apply K4; exact Ho]|].
  split.
  { intros e He. destruct (touches_cleanup ws e) eqn:T; [|reflexivity].
    assert (X : existsb (touches_cleanup ws) tr = true) by (apply existsb_exists; exists e; auto). congruence. }
  split.
  { intros e He. destruct (touches_cleanup ds e) eqn:T; [|reflexivity].
    assert (X : existsb (touches_cleanup ds) pre = true) by (apply existsb_exists; exists e; auto). congruence. }
  intros d Hd. apply K7. exact Hd.
Qed.

Lemma abortedb_spec tr :
  abortedb tr = true ->
  existsb is_update_ok tr = false /\ forall o, In o (created tr) -> cleanup_attempted tr o = true.
Proof.
  unfold abortedb. intro H. apply andb_true_iff in H as [H1 H2]. split; [apply negb_true_iff; exact H1|].
  intros o Ho. apply (proj1 (forallb_forall _ _) H2 o Ho).
Qed.

(* ------------------------------------------------------------------ *)
(* what the MetaStore shows                                            *)

(* MemoryMetaStore: nothing changes except at a successful Update *)
Lemma vis_memory_stable outf st tr :
  existsb is_update_ok tr = false -> vis_after MSMemory outf st tr = st.
Proof.
  unfold vis_after. revert st. induction tr as [|e t IH]; intros st; simpl; [reflexivity|].
  intro H. apply orb_false_iff in H as [H1 H2]. rewrite <- (IH st H2) at 2. f_equal.
  unfold vis_step, is_update_ok in *. destruct (e_ok e); simpl in *; [|reflexivity].
  destruct (e_call e); try reflexivity. discriminate.
Qed.

Lemma vis_after_app k outf st a b : vis_after k outf st (a ++ b) = vis_after k outf (vis_after k outf st a) b.
Proof. unfold vis_after. apply fold_left_app. Qed.

Lemma vis_memory_committed outf st pre ws ds post :
  existsb is_update_ok pre = false -> existsb is_update_ok post = false ->
  vis_after MSMemory outf st (pre ++ Ev (KUpdate ws ds) true :: post) = ms_update (map outf ws) ds st.
Proof.
  intros H1 H2. rewrite vis_after_app, (vis_memory_stable _ _ _ H1).
  change (Ev (KUpdate ws ds) true :: post) with ([Ev (KUpdate ws ds) true] ++ post).
  rewrite vis_after_app. rewrite (vis_memory_stable _ _ _ H2). reflexivity.
Qed.

Lemma remove_ptrs_app ds a b : remove_ptrs ds (a ++ b) = remove_ptrs ds a ++ remove_ptrs ds b.
Proof. unfold remove_ptrs. apply filter_app. Qed.

(* with fresh, pairwise distinct output pointers an Update is: drop the sources, add the outputs *)
Lemma ms_update_fresh outf ws ds st :
  (forall w, In w ws -> f_ptr (outf w) = w) -> NoDup ws ->
  (forall w, In w ws -> ~ In w (map f_ptr st)) -> (forall w, In w ws -> ~ In w ds) ->
  ms_update (map outf ws) ds st = remove_ptrs ds st ++ map outf ws.
Proof.
  intros Hp Hn Hf Hd. unfold ms_update.
  assert (G : forall ws st, (forall w, In w ws -> f_ptr (outf w) = w) -> NoDup ws ->
                            (forall w, In w ws -> ~ In w (map f_ptr st)) ->
                            fold_left (fun s w => set_file w s) (map outf ws) st = st ++ map outf ws).
  { clear. induction ws as [|w ws IH]; intros st Hp Hn Hf; simpl; [rewrite app_nil_r; reflexivity|].
    inversion Hn as [|? ? Hnw Hn']; subst.
    assert (E : set_file (outf w) st = st ++ [outf w]).
    { unfold set_file. rewrite (Hp w (or_introl eq_refl)).
      destruct (mem_z w (map f_ptr st)) eqn:M; [|reflexivity]. apply mem_z_In in M. destruct (Hf w (or_introl eq_refl) M). }
    rewrite E, IH.
    - rewrite <- app_assoc. reflexivity.
    - intros; apply Hp; simpl; auto.
    - exact Hn'.
    - intros x Hx Hin. rewrite map_app in Hin. apply in_app_or in Hin as [Hin|Hin].
      + apply (Hf x (or_intror Hx) Hin).
      + simpl in Hin. destruct Hin as [Hin|[]]. rewrite (Hp w (or_introl eq_refl)) in Hin. subst. contradiction. }
  rewrite (G ws st Hp Hn Hf), remove_ptrs_app. f_equal.
  unfold remove_ptrs. apply filter_all_true. intros f Hf'. apply in_map_iff in Hf' as [w [<- Hw]].
  apply negb_true_iff. apply mem_z_false. rewrite (Hp w Hw). apply Hd. exact Hw.
Qed.

Lemma nothingb_no_update tr : nothingb tr = true -> existsb is_update_ok tr = false.
Proof.
  unfold nothingb. destruct tr as [|e [|e' t]]; try discriminate. intro H. simpl.
  unfold is_update_ok. destruct (e_call e); rewrite ?andb_false_r in *; try discriminate; reflexivity.
Qed.

(* ------------------------------------------------------------------ *)
(* shape of a run: the only Update is Update(all outputs, all grouped sources)  *)

Section Shape.
  Variable fo : oracle.
  Variable has_abort : bool.
  Variable outp : nat -> Z.
  Variable groups : list group.

  Definition the_outs : list Z := outs_from outp 0 (length groups).
  Definition the_dels : list Z := flat_map g_srcs groups.

  Lemma merge_prog_shape :
    let tr := fst (merge_prog fo has_abort outp groups) in
    forallb not_update tr = true \/
    exists pre ok post,
      tr = pre ++ Ev (KUpdate the_outs the_dels) ok :: post /\
      forallb not_update pre = true /\ forallb not_update post = true /\ forallb is_tomb_ev post = true.
  Proof.
    cbv zeta. unfold merge_prog. destruct (fo 0%nat); [left; reflexivity|].
    destruct (run_groups fo has_abort outp 0 groups [] 1%nat) as [[[tr ok] done] n] eqn:R.
    pose proof (run_groups_spec _ _ _ _ _ _ _ _ _ _ _ R) as S. destruct ok; simpl negb; cbv iota.
    - destruct S as [-> [S1 _ _ _]]. simpl app. fold the_outs.
      destruct the_outs as [|o outs] eqn:Eo; [left; simpl; exact S1|].
      right. fold the_dels. destruct (fo n).
      + destruct (tomb_all fo (S n) (o :: outs)) as [[trc oks] n2] eqn:T. simpl.
        destruct (tomb_all_spec _ _ _ _ _ _ T) as [T1 _].
        exists (Ev KIter true :: tr), false, trc. split; [reflexivity|]. split; [simpl; exact S1|].
        split; [eapply forallb_impl; [apply tomb_not_update|exact T1]|exact T1].
      + destruct (tomb_all fo (S n) the_dels) as [[trt oks] n2] eqn:T. simpl.
        destruct (tomb_all_spec _ _ _ _ _ _ T) as [T1 _].
        exists (Ev KIter true :: tr), true, trt. split; [reflexivity|]. split; [simpl; exact S1|].
        split; [eapply forallb_impl; [apply tomb_not_update|exact T1]|exact T1].
    - destruct S as [S1 _]. left. simpl. exact S1.
  Qed.

  (* C12: whatever Update merge() issues deletes exactly the grouped files and writes exactly
     the outputs of the groups *)
  Lemma merge_prog_update_args ws ds ok :
    In (Ev (KUpdate ws ds) ok) (fst (merge_prog fo has_abort outp groups)) -> ws = the_outs /\ ds = the_dels.
  Proof.
    intro Hin. destruct merge_prog_shape as [H|[pre [ok' [post [E [H1 [H2 _]]]]]]].
    - rewrite forallb_forall in H. specialize (H _ Hin). discriminate.
    - rewrite E in Hin. apply in_app_or in Hin as [Hin|[Hin|Hin]].
      + rewrite forallb_forall in H1. specialize (H1 _ Hin). discriminate.
      + inversion Hin; subst. auto.
      + rewrite forallb_forall in H2. specialize (H2 _ Hin). discriminate.
  Qed.

  (* C13, MemoryMetaStore: at every point of every run the visible content is the content
     before the merge, until the one successful Update; from then on it is the old content
     minus the grouped sources plus the outputs. *)
  Lemma merge_memory_visibility outf st :
    (forall w, In w the_outs -> f_ptr (outf w) = w) -> NoDup the_outs ->
    (forall w, In w the_outs -> ~ In w (map f_ptr st)) -> (forall w, In w the_outs -> ~ In w the_dels) ->
    let tr := fst (merge_prog fo has_abort outp groups) in
    forall t1 t2, tr = t1 ++ t2 ->
      vis_after MSMemory outf st t1 = st \/
      (committedb tr = true /\ existsb is_update_ok t1 = true /\
       vis_after MSMemory outf st t1 = remove_ptrs the_dels st ++ map outf the_outs).
  Proof.
    intros Hp Hn Hf Hd. cbv zeta. intros t1 t2 E.
    destruct (existsb is_update_ok t1) eqn:U; [|left; apply vis_memory_stable; exact U].
    right.
    assert (Hcls : run_class (fst (merge_prog fo has_abort outp groups)) (snd (merge_prog fo has_abort outp groups))).
    { apply merge_prog_class. exact Hd. }
    assert (Hup : existsb is_update_ok (fst (merge_prog fo has_abort outp groups)) = true).
    { rewrite E, existsb_app, U. reflexivity. }
    assert (Hc : committedb (fst (merge_prog fo has_abort outp groups)) = true).
    { destruct Hcls as [A B C|A B C D|A B C D F|A B C D F]; auto.
      - rewrite (nothingb_no_update _ A) in Hup. discriminate.
      - apply abortedb_spec in A as [A _]. congruence. }
    split; [exact Hc|]. split; [reflexivity|].
    destruct merge_prog_shape as [H|[pre [ok [post [E' [H1 [H2 _]]]]]]].
    { rewrite (no_update_ok _ H) in Hup. discriminate. }
    destruct ok.
    2:{ rewrite E', existsb_app in Hup. simpl in Hup. rewrite (no_update_ok _ H1), (no_update_ok _ H2) in Hup. discriminate. }
    (* t1 extends beyond the Update *)
    rewrite E' in E.
    assert (Hsplit : exists post1, t1 = pre ++ Ev (KUpdate the_outs the_dels) true :: post1 /\ existsb is_update_ok post1 = false).
    { clear - E U H1 H2. revert t1 E U. induction pre as [|e pre IH]; intros t1 E U.
      - destruct t1 as [|e1 t1]; [simpl in U; discriminate|]. simpl in E. inversion E; subst.
        exists t1. split; [reflexivity|].
        assert (G : existsb is_update_ok (t1 ++ t2) = false) by (apply no_update_ok; exact H2).
        rewrite existsb_app in G. apply orb_false_iff in G. apply G.
      - destruct t1 as [|e1 t1]; [simpl in U; discriminate|]. simpl in E. inversion E; subst.
        simpl in H1. apply andb_true_iff in H1 as [A B].
        simpl in U. assert (Ue : is_update_ok e1 = false).
        { unfold is_update_ok, not_update in *. destruct (e_call e1); try discriminate; apply andb_false_r. }
        rewrite Ue in U. simpl in U. destruct (IH B t1 H3 U) as [p1 [-> Hp1]]. exists p1. auto. }
    destruct Hsplit as [post1 [-> Hp1]].
    rewrite vis_memory_committed; [|apply no_update_ok; exact H1|exact Hp1].
    apply ms_update_fresh; assumption.
  Qed.
End Shape.

(* ------------------------------------------------------------------ *)
(* single flight                                                        *)

Definition sf_caller (e : sfev) : nat :=
  match e with SfTry c => c | SfCall c => c | SfRet c _ => c end.

(* exactly the lock holder is inside merge() *)
Definition sf_inv (s : sfst) : Prop :=
  forall c, pc_of c (sf_pcs s) = Some PRun <-> sf_holder s = Some c.

Lemma pc_of_del c c' l : pc_of c (pc_del c' l) = if Nat.eqb c c' then None else pc_of c l.
Proof.
  unfold pc_del. induction l as [|[x p] t IH]; simpl; [destruct (Nat.eqb c c'); reflexivity|].
  destruct (Nat.eqb c' x) eqn:E1; simpl.
  - apply Nat.eqb_eq in E1. subst x. rewrite IH. destruct (Nat.eqb c c') eqn:E2; reflexivity.
  - rewrite IH. destruct (Nat.eqb c x) eqn:E2; [|reflexivity].
    apply Nat.eqb_eq in E2. subst x. rewrite Nat.eqb_sym, E1. reflexivity.
Qed.

Lemma sf_step_inv s e s' : sf_inv s -> sf_step s e = Some s' -> sf_inv s'.
Proof.
  intros Hi. destruct e as [c|c|c ip]; simpl.
  - destruct (pc_of c (sf_pcs s)) eqn:P; [discriminate|]. destruct (sf_holder s) as [h|] eqn:Hh;
      intro H; inversion H; subst; clear H; intro c0; cbn [sf_pcs sf_holder pc_of];
      destruct (Nat.eqb c0 c) eqn:E.
    + apply Nat.eqb_eq in E. subst c0. split; [discriminate|].
      intro Hc. rewrite <- Hh in Hc. apply Hi in Hc. congruence.
    + rewrite (Hi c0), Hh. reflexivity.
    + apply Nat.eqb_eq in E. subst c0. split; reflexivity.
    + apply Nat.eqb_neq in E. rewrite (Hi c0), Hh. split; [discriminate|]. intro Hc; inversion Hc; congruence.
  - destruct (pc_of c (sf_pcs s)) as [[|]|]; try discriminate. intro H; inversion H; subst. exact Hi.
  - destruct (pc_of c (sf_pcs s)) as [[|]|] eqn:P; destruct ip; try discriminate; intro H; inversion H; subst; clear H;
      intro c0; cbn [sf_pcs sf_holder]; rewrite pc_of_del; destruct (Nat.eqb c0 c) eqn:E.
    + split; discriminate.
    + apply Nat.eqb_neq in E. split; [|discriminate]. intro Hc. apply Hi in Hc. apply Hi in P. congruence.
    + apply Nat.eqb_eq in E. subst c0. split; [discriminate|]. intro Hc. apply Hi in Hc. congruence.
    + apply Hi.
Qed.

Lemma sf_replay_inv : forall l s s', sf_inv s -> sf_replay s l = Some s' -> sf_inv s'.
Proof.
  induction l as [|e t IH]; intros s s' Hi; simpl.
  - intro H; inversion H; subst. exact Hi.
  - destruct (sf_step s e) as [s1|] eqn:E; [|discriminate]. apply IH. eapply sf_step_inv; eauto.
Qed.

Lemma sf_init_inv : sf_inv sf_init.
Proof. intro c. simpl. split; discriminate. Qed.

(* mutual exclusion: a store call of merge() is made by the lock holder only *)
Lemma sf_call_by_holder l s c s' :
  sf_replay sf_init l = Some s -> sf_step s (SfCall c) = Some s' -> sf_holder s = Some c.
Proof.
  intros Hr. pose proof (sf_replay_inv _ _ _ sf_init_inv Hr) as Hi. simpl.
  destruct (pc_of c (sf_pcs s)) as [[|]|] eqn:P; try discriminate. intros _. apply Hi. exact P.
Qed.

Lemma sf_step_other s e s' c : sf_caller e <> c -> sf_step s e = Some s' -> pc_of c (sf_pcs s') = pc_of c (sf_pcs s).
Proof.
  destruct e as [x|x|x ip]; simpl; intro Hne.
  - destruct (pc_of x (sf_pcs s)); [discriminate|]. destruct (sf_holder s); intro H; inversion H; subst; simpl;
      destruct (Nat.eqb c x) eqn:E; try reflexivity; apply Nat.eqb_eq in E; congruence.
  - destruct (pc_of x (sf_pcs s)) as [[|]|]; try discriminate. intro H; inversion H; subst. reflexivity.
  - destruct (pc_of x (sf_pcs s)) as [[|]|]; destruct ip; try discriminate; intro H; inversion H; subst; simpl;
      rewrite pc_of_del; destruct (Nat.eqb c x) eqn:E; try reflexivity; apply Nat.eqb_eq in E; congruence.
Qed.

Lemma sf_replay_other : forall l s s' c,
  (forall e, In e l -> sf_caller e <> c) -> sf_replay s l = Some s' -> pc_of c (sf_pcs s') = pc_of c (sf_pcs s).
Proof.
  induction l as [|e t IH]; intros s s' c Hne; simpl.
  - intro H; inversion H; reflexivity.
  - destruct (sf_step s e) as [s1|] eqn:E; [|discriminate]. intro H.
    rewrite (IH s1 s' c); [|intros; apply Hne; simpl; auto|exact H].
    eapply sf_step_other; eauto. apply Hne. simpl. auto.
Qed.

(* C13: a Merge that starts (TryLock) while another one holds the lock can do exactly one
   thing next: return ErrMergeInProgress.  In particular it performs no store call. *)
Lemma sf_overlap_refused l s c1 c2 s2 t2 s3 e s4 :
  sf_replay sf_init l = Some s -> sf_holder s = Some c1 ->
  sf_step s (SfTry c2) = Some s2 ->
  sf_replay s2 t2 = Some s3 -> (forall x, In x t2 -> sf_caller x <> c2) ->
  sf_caller e = c2 -> sf_step s3 e = Some s4 ->
  e = SfRet c2 true.
Proof.
  intros Hr Hh Ht Hr2 Hne Hc He.
  assert (P2 : pc_of c2 (sf_pcs s2) = Some PRefused).
  { simpl in Ht. destruct (pc_of c2 (sf_pcs s)); [discriminate|]. rewrite Hh in Ht. inversion Ht; subst. simpl.
    rewrite Nat.eqb_refl. reflexivity. }
  assert (P3 : pc_of c2 (sf_pcs s3) = Some PRefused).
  { rewrite (sf_replay_other _ _ _ c2 Hne Hr2). exact P2. }
  destruct e as [x|x|x ip]; simpl in Hc; subst x; simpl in He; rewrite P3 in He; try discriminate.
  destruct ip; [reflexivity|discriminate].
Qed.

(* ------------------------------------------------------------------ *)
(* FileSystemDataStore used as MetaStore (D3): the same program, the other visibility  *)

Definition wfile (p : Z) : file := {| f_ptr := p; f_blocks := []; f_fparam := 0; f_ents := [] |}.
Definition w_groups : list group :=
  [ {| g_srcs := [1; 2]; g_body := [BOpen 1; BRead 1; BOpen 2; BRead 2; BWrite] |};
    {| g_srcs := [3; 4]; g_body := [BOpen 3; BRead 3; BOpen 4; BRead 4; BWrite] |} ].
Definition w_outp (i : nat) : Z := 100 + Z.of_nat i.
Definition w_store : list file := map wfile [1; 2; 3; 4].

(* between the first output's Close and the Update both the sources and the output are visible *)
Lemma fs_visible_twice_witness :
  let tr := fst (merge_prog (fun _ => false) true w_outp w_groups) in
  exists t1 t2, tr = t1 ++ t2 /\ existsb is_update_ok t1 = false /\
    map f_ptr (vis_after MSFs wfile w_store t1) = [1; 2; 3; 4; 100] /\
    map f_ptr (vis_after MSMemory wfile w_store t1) = [1; 2; 3; 4].
Proof.
  cbv zeta. exists (firstn 8 (fst (merge_prog (fun _ => false) true w_outp w_groups))),
                   (skipn 8 (fst (merge_prog (fun _ => false) true w_outp w_groups))).
  split; [symmetry; apply firstn_skipn|]. vm_compute. auto.
Qed.

(* a read fault in the second group plus a failing cleanup tombstone: Merge returns an error,
   yet the first group's output stays visible next to its sources *)
Definition w_fault (n : nat) : bool := Nat.eqb n 10 || Nat.eqb n 13.

Lemma fs_orphan_output_witness :
  let r := merge_prog w_fault true w_outp w_groups in
  snd r = RetErr /\ abortedb (fst r) = true /\
  map f_ptr (vis_after MSFs wfile w_store (fst r)) = [1; 2; 3; 4; 100] /\
  map f_ptr (vis_after MSMemory wfile w_store (fst r)) = [1; 2; 3; 4].
Proof. vm_compute. auto. Qed.

(* ------------------------------------------------------------------ *)
(* the engine-level instance                                            *)

Lemma plan_groups_srcs c : forall fgroups porders,
  flat_map g_srcs (plan_groups c porders fgroups) = map f_ptr (concat fgroups).
Proof.
  induction fgroups as [|g gs IH]; intros porders; simpl; [reflexivity|].
  destruct porders as [|po pos]; simpl; rewrite map_app, IH; reflexivity.
Qed.

Lemma plan_groups_length c : forall fgroups porders, length (plan_groups c porders fgroups) = length fgroups.
Proof.
  induction fgroups as [|g gs IH]; intros porders; simpl; [reflexivity|].
  destruct porders as [|po pos]; simpl; rewrite IH; reflexivity.
Qed.

(* C12: the delete list of the Update is exactly the grouped files, the write list one fresh
   pointer per group *)
Lemma merge_engine_update_args c fo ha outp porders files ws ds ok :
  In (Ev (KUpdate ws ds) ok) (fst (merge_engine c fo ha outp porders files)) ->
  ds = map f_ptr (concat (plan_files c files)) /\ ws = map outp (seq 0 (length (plan_files c files))).
Proof.
  unfold merge_engine. intro H. apply merge_prog_update_args in H as [-> ->].
  unfold the_dels, the_outs, outs_from. rewrite plan_groups_srcs, plan_groups_length. auto.
Qed.

(* ------------------------------------------------------------------ *)
(* FileSystemDataStore as MetaStore: what does hold.  When the writer has Abort and every
   TombstoneFile of an output succeeds (in particular under any single fault that is not such
   a tombstone), the state after Merge returns is all-or-nothing as well. *)

Section FsFinal.
  Variable outf : Z -> file.
  Hypothesis outf_ptr : forall p, f_ptr (outf p) = p.

  Notation fsv := (vis_after MSFs outf).

  Definition ptrs (v : list file) : list Z := map f_ptr v.

  Lemma remove_ptrs_notin ps v : (forall p, In p ps -> ~ In p (ptrs v)) -> remove_ptrs ps v = v.
  Proof.
    intro H. unfold remove_ptrs. apply filter_all_true. intros f Hf. apply negb_true_iff. apply mem_z_false.
    intro Hin. apply (H _ Hin). apply in_map. exact Hf.
  Qed.

  Lemma fs_body v b : forallb is_body_ev b = true -> fsv v b = v.
  Proof.
    unfold vis_after. revert v. induction b as [|e b IH]; intros v; simpl; [reflexivity|].
    intro H. apply andb_true_iff in H as [H1 H2]. rewrite <- (IH v H2) at 2. f_equal.
    unfold vis_step, is_body_ev in *. destruct (e_ok e); simpl; [|reflexivity]. destruct (e_call e); try discriminate; reflexivity.
  Qed.

  Lemma set_file_fresh o v : ~ In o (ptrs v) -> set_file (outf o) v = v ++ [outf o].
  Proof.
    intro H. unfold set_file. rewrite outf_ptr. destruct (mem_z o (map f_ptr v)) eqn:M; [|reflexivity].
    apply mem_z_In in M. contradiction.
  Qed.

  (* a tombstone of something that is not visible, or a failed one, changes nothing *)
  Lemma fs_tomb_noop v p ok : (ok = false \/ ~ In p (ptrs v)) -> fsv v [Ev (KTomb p) ok] = v.
  Proof.
    intros [->|H]; unfold vis_after; simpl; [reflexivity|]. unfold vis_step. destruct ok; simpl; [|reflexivity].
    apply remove_ptrs_notin. intros q [<-|[]]. exact H.
  Qed.

  Lemma fs_abort_writer fo n ca out tra n2 v :
    abort_writer fo n true ca out = (tra, n2) -> ~ In out (ptrs v) -> fsv v tra = v.
  Proof.
    unfold abort_writer. intros H Hn. inversion H; subst. clear H.
    change [Ev (KAbort out) (negb (fo n)); Ev (KTomb out) (negb (fo (S n)))]
      with ([Ev (KAbort out) (negb (fo n))] ++ [Ev (KTomb out) (negb (fo (S n)))]).
    rewrite vis_after_app.
    assert (E : fsv v [Ev (KAbort out) (negb (fo n))] = v).
    { unfold vis_after. simpl. unfold vis_step. destruct (negb (fo n)); reflexivity. }
    rewrite E. apply fs_tomb_noop. right. exact Hn.
  Qed.

  Lemma fs_group_ok v out b :
    forallb is_body_ev b = true -> ~ In out (ptrs v) ->
    fsv v (Ev (KCreate out) true :: b ++ [Ev (KClose out) true]) = v ++ [outf out].
  Proof.
    intros Hb Hn. change (Ev (KCreate out) true :: b ++ [Ev (KClose out) true])
      with ([Ev (KCreate out) true] ++ b ++ [Ev (KClose out) true]).
    rewrite !vis_after_app.
    assert (E : fsv v [Ev (KCreate out) true] = v) by reflexivity.
    rewrite E, (fs_body v b Hb). unfold vis_after. simpl. unfold vis_step. simpl. apply set_file_fresh. exact Hn.
  Qed.

  Lemma fs_group_fail fo n out body tr n' v :
    exec_group fo n true out body = (tr, false, n') -> ~ In out (ptrs v) -> fsv v tr = v.
  Proof.
    unfold exec_group. destruct (fo n).
    { intro H; inversion H; subst. intros _. reflexivity. }
    destruct (run_body fo (S n) out body) as [[b ok] n1] eqn:R.
    pose proof (run_body_spec _ _ _ _ _ _ _ R) as Hb.
    destruct ok; cbn [negb].
    - destruct (fo n1); [|intro H; inversion H].
      destruct (abort_writer fo (S n1) true true out) as [tra n2] eqn:A. intro H; inversion H; subst. intro Hn.
      change (Ev (KCreate out) true :: b ++ Ev (KClose out) false :: tra)
        with ([Ev (KCreate out) true] ++ b ++ [Ev (KClose out) false] ++ tra).
      rewrite !vis_after_app.
      assert (E1 : fsv v [Ev (KCreate out) true] = v) by reflexivity.
      assert (E2 : fsv v [Ev (KClose out) false] = v) by reflexivity.
      rewrite E1, (fs_body v b Hb), E2. eapply fs_abort_writer; eauto.
    - destruct (abort_writer fo n1 true false out) as [tra n2] eqn:A. intro H; inversion H; subst. intro Hn.
      change (Ev (KCreate out) true :: b ++ tra) with ([Ev (KCreate out) true] ++ b ++ tra).
      rewrite !vis_after_app.
      assert (E1 : fsv v [Ev (KCreate out) true] = v) by reflexivity.
      rewrite E1, (fs_body v b Hb). eapply fs_abort_writer; eauto.
  Qed.

  (* successful tombstones of published, pairwise distinct outputs remove exactly them *)
  Lemma fs_tomb_outputs : forall (tr : list ev) (done : list Z) st,
    map e_call tr = map KTomb done -> (forall e, In e tr -> e_ok e = true) ->
    NoDup done -> (forall o, In o done -> ~ In o (ptrs st)) ->
    fsv (st ++ map outf done) tr = st.
  Proof.
    induction tr as [|e tr IH]; intros done st Hc Hok Hn Hf; destruct done as [|o done]; simpl in Hc; try discriminate.
    - simpl. rewrite app_nil_r. reflexivity.
    - inversion Hc as [[Hc1 Hc2]]. inversion Hn as [|? ? Hno Hn']; subst.
      change (e :: tr) with ([e] ++ tr). rewrite vis_after_app.
      assert (E : fsv (st ++ map outf (o :: done)) [e] = st ++ map outf done).
      { unfold vis_after. simpl. unfold vis_step. rewrite (Hok e (or_introl eq_refl)). simpl. rewrite Hc1.
        rewrite remove_ptrs_app. simpl. rewrite outf_ptr. simpl. rewrite Z.eqb_refl. simpl.
        rewrite remove_ptrs_notin.
        - f_equal. apply remove_ptrs_notin. intros q [<-|[]]. unfold ptrs. rewrite map_map.
          intro Hin. apply in_map_iff in Hin as [x [Hx Hin]]. rewrite outf_ptr in Hx. subst. contradiction.
        - intros q [<-|[]]. apply Hf. simpl. auto. }
      rewrite E. apply IH; auto.
      + intros x Hx. apply Hok. simpl. auto.
      + intros x Hx. apply Hf. simpl. auto.
  Qed.

  Variable fo : oracle.
  Variable outp : nat -> Z.

  Lemma ptrs_outs l : ptrs (map outf l) = l.
  Proof. unfold ptrs. induction l as [|o t IH]; simpl; [reflexivity|]. rewrite outf_ptr, IH. reflexivity. Qed.

  Lemma ptrs_app_outs st done : ptrs (st ++ map outf done) = ptrs st ++ done.
  Proof.
    unfold ptrs. rewrite map_app, map_map. f_equal. induction done as [|o t IH]; simpl; [reflexivity|].
    rewrite outf_ptr, IH. reflexivity.
  Qed.

  (* the group loop under the filesystem view *)
  Lemma fs_run_groups : forall groups gi done n tr ok done' n' st,
    run_groups fo true outp gi groups done n = (tr, ok, done', n') ->
    NoDup (done ++ outs_from outp gi (length groups)) ->
    (forall o, In o (done ++ outs_from outp gi (length groups)) -> ~ In o (ptrs st)) ->
    (ok = true -> fsv (st ++ map outf done) tr = st ++ map outf done') /\
    (ok = false -> (forall e, In e tr -> is_tomb_ev e = true -> e_ok e = true) ->
     fsv (st ++ map outf done) tr = st).
  Proof.
    induction groups as [|g gs IH]; intros gi done n tr ok done' n' st; simpl.
    - intro H; inversion H; subst. intros _ _. split; [reflexivity|discriminate].
    - destruct (exec_group fo n true (outp gi) (g_body g)) as [[tr1 ok1] n1] eqn:E.
      assert (Eo : outs_from outp gi (S (length gs)) = outp gi :: outs_from outp (S gi) (length gs)) by reflexivity.
      rewrite Eo. intros H Hn Hf.
      assert (Hfresh : ~ In (outp gi) (ptrs (st ++ map outf done))).
      { rewrite ptrs_app_outs. intro Hin. apply in_app_or in Hin as [Hin|Hin].
        - apply (Hf (outp gi)); [apply in_or_app; right; simpl; auto|exact Hin].
        - apply NoDup_app_inv in Hn as [_ [_ Hd]]. apply (Hd _ Hin). simpl. auto. }
      destruct ok1.
      + destruct (run_groups fo true outp (S gi) gs (done ++ [outp gi]) n1) as [[[tr2 ok2] done2] n2] eqn:R.
        inversion H; subst. destruct (exec_group_ok _ _ _ _ _ _ _ E) as [b [-> Hb]].
        assert (Em : (st ++ map outf done) ++ [outf (outp gi)] = st ++ map outf (done ++ [outp gi])).
        { rewrite map_app, app_assoc. reflexivity. }
        destruct (IH _ _ _ _ _ _ _ st R) as [I1 I2].
        * rewrite <- app_assoc. exact Hn.
        * intros o Ho. apply Hf. rewrite <- app_assoc in Ho. exact Ho.
        * split; intro Hk; rewrite vis_after_app, (fs_group_ok _ _ _ Hb Hfresh), Em.
          -- apply I1. exact Hk.
          -- intro Hok. apply I2; [exact Hk|]. intros e He. apply Hok. apply in_or_app. right. exact He.
      + destruct (tomb_all fo n1 done) as [[trc oks] n2] eqn:T. inversion H; subst.
        split; [discriminate|]. intros _ Hok.
        rewrite vis_after_app, (fs_group_fail _ _ _ _ _ _ _ E Hfresh).
        destruct (tomb_all_spec _ _ _ _ _ _ T) as [T1 [_ T3]].
        apply fs_tomb_outputs.
        * exact T3.
        * intros e He. apply Hok; [apply in_or_app; right; exact He|].
          rewrite forallb_forall in T1. apply T1. exact He.
        * apply NoDup_app_inv in Hn. apply Hn.
        * intros o Ho. apply Hf. apply in_or_app. auto.
  Qed.

  Variable groups : list group.
  Variable st : list file.
  Hypothesis outs_nodup : NoDup (the_outs outp groups).
  Hypothesis outs_fresh : forall o, In o (the_outs outp groups) -> ~ In o (ptrs st).
  Hypothesis outs_not_srcs : forall o, In o (the_outs outp groups) -> ~ In o (the_dels groups).

  (* C13 for the filesystem store, final state only: if no TombstoneFile of an output fails (for an
     uncommitted run: no TombstoneFile at all fails), then after Merge returns the directory shows
     either exactly the old content, or the old content minus the sources plus the outputs *)
  Lemma merge_fs_final :
    let tr := fst (merge_prog fo true outp groups) in
    (committedb tr = false -> (forall e, In e tr -> is_tomb_ev e = true -> e_ok e = true) -> fsv st tr = st) /\
    (committedb tr = true -> fsv st tr = remove_ptrs (the_dels groups) st ++ map outf (the_outs outp groups)).
  Proof.
    cbv zeta.
    pose proof (merge_prog_class fo true outp groups outs_not_srcs) as Hcls.
    revert Hcls. unfold merge_prog. destruct (fo 0%nat) eqn:F0.
    { cbn [fst snd]. intros _. split; [intros _ _; reflexivity|]. intro Hc. vm_compute in Hc. discriminate. }
    destruct (run_groups fo true outp 0 groups [] 1%nat) as [[[tr ok] done] n] eqn:R.
    destruct (fs_run_groups _ _ _ _ _ _ _ _ st R) as [G1 G2]; [exact outs_nodup|exact outs_fresh|].
    pose proof (run_groups_spec _ _ _ _ _ _ _ _ _ _ _ R) as S.
    assert (Eiter : forall t, fsv st (Ev KIter true :: t) = fsv st t) by reflexivity.
    destruct ok; simpl negb; cbv iota.
    - destruct S as [-> [S1 _ _ _]]. simpl app in *. fold (the_outs outp groups) in *.
      specialize (G1 eq_refl). simpl in G1. rewrite app_nil_r in G1.
      destruct (the_outs outp groups) as [|o outs] eqn:Eo.
      + cbn [fst snd]. intros _. rewrite Eiter, G1. cbn [map]. rewrite app_nil_r.
        split; [intros _ _; reflexivity|]. intro Hc. exfalso.
        rewrite committedb_needs_update in Hc; [discriminate|]. apply split_update_none. simpl. exact S1.
      + fold (the_dels groups). destruct (fo n) eqn:Fn.
        * destruct (tomb_all fo (S n) (o :: outs)) as [[trc oks] n2] eqn:T. simpl fst. simpl snd.
          intros Hcls. destruct (tomb_all_spec _ _ _ _ _ _ T) as [T1 [_ T3]].
          assert (Hnc : committedb (Ev KIter true :: tr ++ Ev (KUpdate (o :: outs) (the_dels groups)) false :: trc) = false).
          { apply committedb_needs_update.
            change (Ev KIter true :: tr ++ Ev (KUpdate (o :: outs) (the_dels groups)) false :: trc)
              with ((Ev KIter true :: tr) ++ Ev (KUpdate (o :: outs) (the_dels groups)) false :: trc).
            apply split_update_fail_at; [simpl; exact S1|]. eapply forallb_impl; [apply tomb_not_update|exact T1]. }
          split; [|rewrite Hnc; discriminate]. intros _ Hok.
          rewrite Eiter, vis_after_app, G1.
          change (Ev (KUpdate (o :: outs) (the_dels groups)) false :: trc)
            with ([Ev (KUpdate (o :: outs) (the_dels groups)) false] ++ trc).
          rewrite vis_after_app.
          assert (E2 : fsv (st ++ map outf (o :: outs)) [Ev (KUpdate (o :: outs) (the_dels groups)) false] = st ++ map outf (o :: outs)) by reflexivity.
          rewrite E2. apply fs_tomb_outputs; [exact T3| |exact outs_nodup|exact outs_fresh].
          intros e He. apply Hok.
          -- right. apply in_or_app. right. right. exact He.
          -- rewrite forallb_forall in T1. apply T1. exact He.
        * destruct (tomb_all fo (S n) (the_dels groups)) as [[trt oks] n2] eqn:T. simpl fst. simpl snd.
          intros Hcls. destruct (tomb_all_spec _ _ _ _ _ _ T) as [T1 [_ T3]].
          assert (Hfin : fsv st (Ev KIter true :: tr ++ Ev (KUpdate (o :: outs) (the_dels groups)) true :: trt)
                         = remove_ptrs (the_dels groups) st ++ map outf (o :: outs)).
          { rewrite Eiter, vis_after_app, G1.
            change (Ev (KUpdate (o :: outs) (the_dels groups)) true :: trt)
              with ([Ev (KUpdate (o :: outs) (the_dels groups)) true] ++ trt).
            rewrite vis_after_app.
            assert (E2 : fsv (st ++ map outf (o :: outs)) [Ev (KUpdate (o :: outs) (the_dels groups)) true]
                         = remove_ptrs (the_dels groups) st ++ map outf (o :: outs)).
            { unfold vis_after. cbn [fold_left]. unfold vis_step. cbn [e_ok e_call negb]. rewrite remove_ptrs_app. f_equal.
              apply remove_ptrs_notin. intros d Hd Hin. rewrite ptrs_outs in Hin.
              assert (Hino : In d (the_outs outp groups)) by (rewrite Eo; exact Hin).
              first [apply (outs_not_srcs d Hin Hd) | apply (outs_not_srcs d Hino Hd)]. }
            rewrite E2.
            (* source tombstones after the Update: the sources are gone already *)
            assert (G : forall (t : list ev) (ds : list Z) v, map e_call t = map KTomb ds ->
                          (forall d, In d ds -> ~ In d (ptrs v)) -> fsv v t = v).
            { clear. induction t as [|e t IH]; intros ds v Hc Hd; [reflexivity|].
              destruct ds as [|d ds]; simpl in Hc; [discriminate|]. inversion Hc as [[Hc1 Hc2]].
              change (e :: t) with ([e] ++ t). rewrite vis_after_app.
              assert (E : fsv v [e] = v).
              { destruct e as [k ok]. simpl in Hc1. subst k. apply fs_tomb_noop. right. apply Hd. simpl. auto. }
              rewrite E. apply (IH ds); [exact Hc2|]. intros x Hx. apply Hd. simpl. auto. }
            apply (G trt (the_dels groups)); [exact T3|].
            intros d Hd Hin. rewrite ptrs_app_outs in Hin. apply in_app_or in Hin as [Hin|Hin].
            - unfold ptrs, remove_ptrs in Hin. apply in_map_iff in Hin as [f [Hf Hin]]. apply filter_In in Hin as [_ Hin].
              apply negb_true_iff in Hin. apply mem_z_false in Hin. subst d. contradiction.
            - assert (Hino : In d (the_outs outp groups)) by (rewrite Eo; exact Hin).
              first [apply (outs_not_srcs d Hin Hd) | apply (outs_not_srcs d Hino Hd)]. }
          split; [|intros _; exact Hfin].
          intro Hc. exfalso.
          destruct (forallb (fun b => b) oks); destruct Hcls as [A B C|A B C D|A B C D F|A B C D F]; try congruence;
            (destruct tr; simpl in A; discriminate).
    - destruct S as [S1 _]. cbn [fst snd]. intros _.
      split; [|intro Hc; exfalso; rewrite committedb_needs_update in Hc; [discriminate|apply split_update_none; simpl; exact S1]].
      intros _ Hok. rewrite Eiter. specialize (G2 eq_refl). simpl in G2. rewrite app_nil_r in G2. apply G2.
      intros e He. apply Hok. right. exact He.
  Qed.
End FsFinal.
