(* Lemmas for family G, commit part (C13): every run of merge() under every fault oracle
   is committed, aborted or a no-op, and returns accordingly; what the MetaStore shows
   along the way; the TryLock single-flight. *)
From BS Require Import Lib.Bytes Model.MinMax Model.MergePlan Model.MergeCommit Proofs.MergePlanProofs.
From Coq Require Import Lia ZArith List Bool Permutation Arith.
Open Scope Z_scope.

(* ------------------------------------------------------------------ *)
(* classes of events                                                   *)

Definition is_body_ev (e : ev) : bool :=
  match e_call e with KOpen _ | KRead _ | KWrite _ | KIter => true | _ => false end.
Definition is_tomb_ev (e : ev) : bool :=
  match e_call e with KTomb _ => true | _ => false end.
(* anything but a MetaStore.Update *)
Definition not_update (e : ev) : bool :=
  match e_call e with KUpdate _ _ => false | _ => true end.
(* anything but CreateFile *)
Definition not_create (e : ev) : bool :=
  match e_call e with KCreate _ => false | _ => true end.
Definition not_cleanup (e : ev) : bool :=
  match e_call e with KAbort _ | KTomb _ => false | _ => true end.

Lemma forallb_impl {A} (p q : A -> bool) l : (forall x, p x = true -> q x = true) -> forallb p l = true -> forallb q l = true.
Proof. intros H. rewrite !forallb_forall. auto. Qed.

Lemma body_not_update e : is_body_ev e = true -> not_update e = true.
Proof. unfold is_body_ev, not_update. destruct (e_call e); auto. Qed.
Lemma body_not_create e : is_body_ev e = true -> not_create e = true.
Proof. unfold is_body_ev, not_create. destruct (e_call e); auto. Qed.
Lemma body_not_cleanup e : is_body_ev e = true -> not_cleanup e = true.
Proof. unfold is_body_ev, not_cleanup. destruct (e_call e); auto; discriminate. Qed.
Lemma tomb_not_update e : is_tomb_ev e = true -> not_update e = true.
Proof. unfold is_tomb_ev, not_update. destruct (e_call e); auto. Qed.
Lemma tomb_not_create e : is_tomb_ev e = true -> not_create e = true.
Proof. unfold is_tomb_ev, not_create. destruct (e_call e); auto. Qed.

Lemma no_update_ok tr : forallb not_update tr = true -> existsb is_update_ok tr = false.
Proof.
  induction tr as [|e t IH]; simpl; [reflexivity|]. intro H. apply andb_true_iff in H as [H1 H2].
  rewrite (IH H2). unfold is_update_ok, not_update in *. destruct (e_call e); try discriminate; rewrite andb_false_r; reflexivity.
Qed.

Lemma no_create_created tr : forallb not_create tr = true -> created tr = [].
Proof.
  induction tr as [|e t IH]; simpl; [reflexivity|]. intro H. apply andb_true_iff in H as [H1 H2].
  rewrite (IH H2). unfold not_create in H1. destruct (e_call e); try discriminate; destruct (e_ok e); reflexivity.
Qed.

Lemma no_cleanup_touch ps tr : forallb not_cleanup tr = true -> existsb (touches_cleanup ps) tr = false.
Proof.
  induction tr as [|e t IH]; simpl; [reflexivity|]. intro H. apply andb_true_iff in H as [H1 H2].
  rewrite (IH H2). unfold not_cleanup, touches_cleanup in *. destruct (e_call e); try discriminate; reflexivity.
Qed.

Lemma created_app a b : created (a ++ b) = created a ++ created b.
Proof. unfold created. apply flat_map_app. Qed.

Lemma closed_ok_app a b o : closed_ok (a ++ b) o = closed_ok a o || closed_ok b o.
Proof. unfold closed_ok. apply existsb_app. Qed.

Lemma cleanup_attempted_app a b o : cleanup_attempted (a ++ b) o = cleanup_attempted a o || cleanup_attempted b o.
Proof. unfold cleanup_attempted. apply existsb_app. Qed.

(* ------------------------------------------------------------------ *)
(* the pieces of the program                                           *)

Lemma run_body_spec fo out : forall ops n tr ok n',
  run_body fo n out ops = (tr, ok, n') -> forallb is_body_ev tr = true.
Proof.
  induction ops as [|o t IH]; intros n tr ok n'; simpl.
  - intro H; inversion H; subst. reflexivity.
  - destruct (fo n).
    + intro H; inversion H; subst. simpl. destruct o; reflexivity.
    + destruct (run_body fo (S n) out t) as [[tr' ok'] n''] eqn:R. intro H; inversion H; subst.
      simpl. rewrite (IH _ _ _ _ R). destruct o; reflexivity.
Qed.

Lemma tomb_all_spec fo : forall ps n tr oks n',
  tomb_all fo n ps = (tr, oks, n') ->
  forallb is_tomb_ev tr = true /\ oks = map e_ok tr /\ map e_call tr = map KTomb ps.
Proof.
  induction ps as [|p t IH]; intros n tr oks n'; simpl.
  - intro H; inversion H; subst. auto.
  - destruct (tomb_all fo (S n) t) as [[tr' oks'] n''] eqn:R. intro H; inversion H; subst.
    destruct (IH _ _ _ _ R) as [A [B C]]. simpl. rewrite A, B, C. auto.
Qed.

Lemma tomb_all_attempts fo ps n tr oks n' p :
  tomb_all fo n ps = (tr, oks, n') -> In p ps -> tomb_attempted tr p = true /\ cleanup_attempted tr p = true.
Proof.
  intros H Hin. apply tomb_all_spec in H as [_ [_ H]].
  assert (G : exists e, In e tr /\ e_call e = KTomb p).
  { assert (Hk : In (KTomb p) (map e_call tr)) by (rewrite H; apply in_map; exact Hin).
    apply in_map_iff in Hk as [e [He Hi]]. exists e. auto. }
  destruct G as [e [He Hc]]. unfold tomb_attempted, cleanup_attempted. split; apply existsb_exists; exists e;
    (split; [exact He|rewrite Hc; apply Z.eqb_refl]).
Qed.

(* what a trace says about one output: used for the failing group *)
Record group_fail_facts (out : Z) (tr : list ev) : Prop := {
  gf_no_update : forallb not_update tr = true;
  gf_created : created tr = [] \/ (created tr = [out] /\ cleanup_attempted tr out = true)
}.

Lemma abort_writer_spec fo n ha ca out tra n2 :
  abort_writer fo n ha ca out = (tra, n2) ->
  forallb not_update tra = true /\ forallb not_create tra = true /\ cleanup_attempted tra out = true.
Proof.
  unfold abort_writer. destruct ha; [|destruct ca]; intro H; inversion H; subst; simpl;
    unfold cleanup_attempted; simpl; rewrite Z.eqb_refl; simpl; rewrite ?orb_true_r; auto.
Qed.

Lemma exec_group_ok fo n ha out body tr n' :
  exec_group fo n ha out body = (tr, true, n') ->
  exists b, tr = Ev (KCreate out) true :: b ++ [Ev (KClose out) true] /\ forallb is_body_ev b = true.
Proof.
  unfold exec_group. destruct (fo n); [intro H; inversion H|].
  destruct (run_body fo (S n) out body) as [[b ok] n1] eqn:R.
  pose proof (run_body_spec _ _ _ _ _ _ _ R) as Hb.
  destruct ok; simpl.
  - destruct (fo n1).
    + destruct (abort_writer fo (S n1) ha true out) as [tra n2]. intro H; inversion H.
    + intro H; inversion H; subst. exists b. auto.
  - destruct (abort_writer fo n1 ha false out) as [tra n2]. intro H; inversion H.
Qed.

Lemma exec_group_fail fo n ha out body tr n' :
  exec_group fo n ha out body = (tr, false, n') -> group_fail_facts out tr.
Proof.
  unfold exec_group. destruct (fo n).
  { intro H; inversion H; subst. split; [reflexivity|left; reflexivity]. }
  destruct (run_body fo (S n) out body) as [[b ok] n1] eqn:R.
  pose proof (run_body_spec _ _ _ _ _ _ _ R) as Hb.
  assert (Hbu : forallb not_update b = true) by (eapply forallb_impl; [apply body_not_update|exact Hb]).
  assert (Hbc : created b = []) by (apply no_create_created; eapply forallb_impl; [apply body_not_create|exact Hb]).
  destruct ok; simpl.
  - destruct (fo n1).
    + destruct (abort_writer fo (S n1) ha true out) as [tra n2] eqn:A. intro H; inversion H; subst.
      destruct (abort_writer_spec _ _ _ _ _ _ _ A) as [A1 [A2 A3]]. split.
      * simpl. rewrite forallb_app, Hbu. simpl. exact A1.
      * right. split.
        -- simpl. rewrite created_app, Hbc. simpl. rewrite (no_create_created _ A2). reflexivity.
        -- change (Ev (KCreate out) true :: b ++ Ev (KClose out) false :: tra)
             with ([Ev (KCreate out) true] ++ b ++ [Ev (KClose out) false] ++ tra).
           rewrite !cleanup_attempted_app, A3, !orb_true_r. reflexivity.
    + intro H; inversion H.
  - destruct (abort_writer fo n1 ha false out) as [tra n2] eqn:A. intro H; inversion H; subst.
    destruct (abort_writer_spec _ _ _ _ _ _ _ A) as [A1 [A2 A3]]. split.
    + simpl. rewrite forallb_app, Hbu. exact A1.
    + right. split.
      * simpl. rewrite created_app, Hbc. simpl. rewrite (no_create_created _ A2). reflexivity.
      * change (Ev (KCreate out) true :: b ++ tra) with ([Ev (KCreate out) true] ++ b ++ tra).
        rewrite !cleanup_attempted_app, A3, !orb_true_r. reflexivity.
Qed.

Definition outs_from (outp : nat -> Z) (gi len : nat) : list Z := map outp (seq gi len).

(* a successful group loop: nothing but creates, body calls and successful closes *)
Record groups_ok_facts (outs : list Z) (tr : list ev) : Prop := {
  go_no_update : forallb not_update tr = true;
  go_no_cleanup : forallb not_cleanup tr = true;
  go_created : created tr = outs;
  go_closed : forall o, In o outs -> closed_ok tr o = true
}.

Record groups_fail_facts (done : list Z) (tr : list ev) : Prop := {
  gfl_no_update : forallb not_update tr = true;
  gfl_cleaned : forall o, In o (done ++ created tr) -> cleanup_attempted tr o = true
}.

Lemma run_groups_spec fo ha outp : forall groups gi done n tr ok done' n',
  run_groups fo ha outp gi groups done n = (tr, ok, done', n') ->
  if ok then done' = done ++ outs_from outp gi (length groups) /\ groups_ok_facts (outs_from outp gi (length groups)) tr
  else groups_fail_facts done tr.
Proof.
  induction groups as [|g gs IH]; intros gi done n tr ok done' n'; simpl.
  - intro H; inversion H; subst. unfold outs_from. simpl. rewrite app_nil_r. split; [reflexivity|].
    split; try reflexivity. simpl. tauto.
  - destruct (exec_group fo n ha (outp gi) (g_body g)) as [[tr1 ok1] n1] eqn:E. destruct ok1.
    + destruct (run_groups fo ha outp (S gi) gs (done ++ [outp gi]) n1) as [[[tr2 ok2] done2] n2] eqn:R.
      intro H; inversion H; subst. specialize (IH _ _ _ _ _ _ _ R).
      destruct (exec_group_ok _ _ _ _ _ _ _ E) as [b [-> Hb]].
      assert (Hbu : forallb not_update b = true) by (eapply forallb_impl; [apply body_not_update|exact Hb]).
      assert (Hbc : created b = []) by (apply no_create_created; eapply forallb_impl; [apply body_not_create|exact Hb]).
      assert (Hbl : forallb not_cleanup b = true) by (eapply forallb_impl; [apply body_not_cleanup|exact Hb]).
      remember (Ev (KCreate (outp gi)) true :: b ++ [Ev (KClose (outp gi)) true]) as t1 eqn:Et1.
      assert (T1u : forallb not_update t1 = true) by (rewrite Et1; simpl; rewrite forallb_app, Hbu; reflexivity).
      assert (T1l : forallb not_cleanup t1 = true) by (rewrite Et1; simpl; rewrite forallb_app, Hbl; reflexivity).
      assert (T1c : created t1 = [outp gi]) by (rewrite Et1; simpl; rewrite created_app, Hbc; reflexivity).
      assert (T1k : closed_ok t1 (outp gi) = true).
      { rewrite Et1. change (Ev (KCreate (outp gi)) true :: b ++ [Ev (KClose (outp gi)) true])
          with ([Ev (KCreate (outp gi)) true] ++ b ++ [Ev (KClose (outp gi)) true]).
        rewrite !closed_ok_app. unfold closed_ok at 3. simpl. rewrite Z.eqb_refl. rewrite !orb_true_r. reflexivity. }
      clear Et1. destruct ok.
      * destruct IH as [-> F]. destruct F as [F1 F2 F3 F4].
        assert (Eo : outs_from outp gi (S (length gs)) = outp gi :: outs_from outp (S gi) (length gs)) by reflexivity.
        rewrite Eo. split.
        -- rewrite <- app_assoc. reflexivity.
        -- split.
           ++ rewrite forallb_app, T1u. exact F1.
           ++ rewrite forallb_app, T1l. exact F2.
           ++ rewrite created_app, T1c, F3. reflexivity.
           ++ intros o [<-|Ho]; rewrite closed_ok_app; [rewrite T1k; reflexivity|rewrite (F4 o Ho); apply orb_true_r].
      * destruct IH as [F1 F2]. split.
        -- rewrite forallb_app, T1u. exact F1.
        -- intros o Ho. rewrite cleanup_attempted_app. rewrite created_app, T1c in Ho.
           rewrite (F2 o); [apply orb_true_r|].
           apply in_app_or in Ho as [Ho|Ho]; [apply in_or_app; left; apply in_or_app; auto|].
           cbn [app] in Ho. destruct Ho as [<-|Ho]; [apply in_or_app; left; apply in_or_app; simpl; auto|].
           apply in_or_app. auto.
    + destruct (tomb_all fo n1 done) as [[trc oks] n2] eqn:T. intro H; inversion H; subst.
      destruct (exec_group_fail _ _ _ _ _ _ _ E) as [G1 G2].
      destruct (tomb_all_spec _ _ _ _ _ _ T) as [T1 _].
      assert (Tu : forallb not_update trc = true) by (eapply forallb_impl; [apply tomb_not_update|exact T1]).
      assert (Tc : created trc = []) by (apply no_create_created; eapply forallb_impl; [apply tomb_not_create|exact T1]).
      split.
      * rewrite forallb_app, G1. exact Tu.
      * intros o Ho. rewrite cleanup_attempted_app. rewrite created_app, Tc, app_nil_r in Ho.
        apply in_app_or in Ho as [Ho|Ho].
        -- destruct (tomb_all_attempts _ _ _ _ _ _ o T Ho) as [_ A]. rewrite A. apply orb_true_r.
        -- destruct G2 as [G2|[G2 G3]]; rewrite G2 in Ho; simpl in Ho; [contradiction|].
           destruct Ho as [<-|[]]. rewrite G3. reflexivity.
Qed.

Lemma exec_group_nonempty fo n ha out body tr ok n' :
  exec_group fo n ha out body = (tr, ok, n') -> tr <> [].
Proof.
  unfold exec_group. destruct (fo n); [intro H; inversion H; discriminate|].
  destruct (run_body fo (S n) out body) as [[b okb] nb]. destruct okb; simpl.
  - destruct (fo nb); [destruct (abort_writer fo (S nb) ha true out)|]; intro H; inversion H; discriminate.
  - destruct (abort_writer fo nb ha false out); intro H; inversion H; discriminate.
Qed.

Lemma run_groups_nonempty fo ha outp gi groups done n tr ok done' n' :
  groups <> [] -> run_groups fo ha outp gi groups done n = (tr, ok, done', n') -> tr <> [].
Proof.
  destruct groups as [|g gs]; [congruence|]. intros _. simpl.
  destruct (exec_group fo n ha (outp gi) (g_body g)) as [[tr1 ok1] n1] eqn:E.
  apply exec_group_nonempty in E. destruct ok1.
  - destruct (run_groups fo ha outp (S gi) gs (done ++ [outp gi]) n1) as [[[tr2 ok2] done2] n2].
    intro H; inversion H; subst. destruct tr1; [congruence|discriminate].
  - destruct (tomb_all fo n1 done) as [[trc oks] n2]. intro H; inversion H; subst. destruct tr1; [congruence|discriminate].
Qed.

(* ------------------------------------------------------------------ *)
(* outcome of merge()                                                  *)

Lemma split_update_none tr : forallb not_update tr = true -> split_update tr = None.
Proof.
  induction tr as [|e t IH]; simpl; [reflexivity|]. intro H. apply andb_true_iff in H as [H1 H2].
  rewrite (IH H2). unfold not_update in H1. destruct (e_call e); try discriminate; reflexivity.
Qed.

Lemma split_update_at pre ws ds post :
  forallb not_update pre = true ->
  split_update (pre ++ Ev (KUpdate ws ds) true :: post) = Some (pre, (ws, ds), post).
Proof.
  induction pre as [|e t IH]; simpl; [reflexivity|]. intro H. apply andb_true_iff in H as [H1 H2].
  rewrite (IH H2). unfold not_update in H1. destruct (e_call e); try discriminate; reflexivity.
Qed.

Lemma split_update_fail_at pre ws ds post :
  forallb not_update pre = true -> forallb not_update post = true ->
  split_update (pre ++ Ev (KUpdate ws ds) false :: post) = None.
Proof.
  intros H1 H2. induction pre as [|e t IH]; simpl.
  - rewrite (split_update_none _ H2). reflexivity.
  - simpl in H1. apply andb_true_iff in H1 as [A B]. rewrite (IH B).
    unfold not_update in A. destruct (e_call e); try discriminate; reflexivity.
Qed.

Lemma incl_z_refl l : incl_z l l = true.
Proof. unfold incl_z. apply forallb_forall. intros x Hx. apply mem_z_In. exact Hx. Qed.

Lemma existsb_false_forall {A} (p : A -> bool) l : (forall x, In x l -> p x = false) -> existsb p l = false.
Proof.
  induction l as [|x t IH]; simpl; intro H; [reflexivity|].
  rewrite (H x (or_introl eq_refl)). apply IH. intros; apply H; auto.
Qed.

(* the four ways a run of merge() can go *)
Inductive run_class (tr : list ev) (r : ret) : Prop :=
| RC_nothing : nothingb tr = true -> committedb tr = false -> r = RetStats -> run_class tr r
| RC_aborted : abortedb tr = true -> committedb tr = false -> nothingb tr = false -> r = RetErr -> run_class tr r
| RC_commit_clean : committedb tr = true -> source_cleanup_ok tr = true -> nothingb tr = false -> abortedb tr = false ->
                    r = RetStats -> run_class tr r
| RC_commit_dirty : committedb tr = true -> source_cleanup_ok tr = false -> nothingb tr = false -> abortedb tr = false ->
                    r = RetStatsCleanup -> run_class tr r.

Lemma committedb_needs_update tr : split_update tr = None -> committedb tr = false.
Proof. unfold committedb. intros ->. reflexivity. Qed.

Lemma abortedb_no_update tr : existsb is_update_ok tr = true -> abortedb tr = false.
Proof. unfold abortedb. intros ->. reflexivity. Qed.

Section Outcome.
  Variable fo : oracle.
  Variable has_abort : bool.
  Variable outp : nat -> Z.
  Variable groups : list group.
  (* CreateFile hands out pointers that are not among the sources of this merge *)
  Hypothesis fresh : forall o, In o (outs_from outp 0 (length groups)) -> ~ In o (flat_map g_srcs groups).

  Lemma merge_prog_class : run_class (fst (merge_prog fo has_abort outp groups)) (snd (merge_prog fo has_abort outp groups)).
  Proof.
    unfold merge_prog. destruct (fo 0%nat) eqn:F0.
    { simpl. apply RC_aborted; reflexivity. }
    destruct (run_groups fo has_abort outp 0 groups [] 1%nat) as [[[tr ok] done] n] eqn:R.
    pose proof (run_groups_spec _ _ _ _ _ _ _ _ _ _ _ R) as S. destruct ok; simpl negb; cbv iota.
    - destruct S as [-> [S1 S2 S3 S4]]. simpl app.
      destruct (outs_from outp 0 (length groups)) as [|o outs] eqn:Eo.
      + (* no group: nothing to merge *)
        simpl. assert (tr = []).
        { destruct groups as [|g gs]; [|unfold outs_from in Eo; simpl in Eo; discriminate].
          simpl in R. inversion R. reflexivity. }
        subst tr. apply RC_nothing; reflexivity.
      + set (outs' := o :: outs) in *. set (dels := flat_map g_srcs groups) in *.
        assert (Pu : forallb not_update (Ev KIter true :: tr) = true) by (simpl; exact S1).
        destruct (fo n) eqn:Fn.
        * (* Update failed: outputs tombstoned *)
          destruct (tomb_all fo (S n) outs') as [[trc oks] n2] eqn:T. simpl.
          destruct (tomb_all_spec _ _ _ _ _ _ T) as [T1 _].
          assert (Tu : forallb not_update trc = true) by (eapply forallb_impl; [apply tomb_not_update|exact T1]).
          assert (Tc : created trc = []) by (apply no_create_created; eapply forallb_impl; [apply tomb_not_create|exact T1]).
          change (Ev KIter true :: tr ++ Ev (KUpdate outs' dels) false :: trc)
            with ((Ev KIter true :: tr) ++ Ev (KUpdate outs' dels) false :: trc).
          apply RC_aborted; try reflexivity.
          -- unfold abortedb. rewrite existsb_app, (no_update_ok _ Pu). cbn [existsb]. rewrite (no_update_ok _ Tu).
             unfold is_update_ok. cbn [e_ok andb orb negb].
             apply forallb_forall. intros x Hx. rewrite created_app in Hx. simpl in Hx. rewrite S3, Tc, app_nil_r in Hx.
             rewrite cleanup_attempted_app. change (Ev (KUpdate outs' dels) false :: trc) with ([Ev (KUpdate outs' dels) false] ++ trc).
             rewrite cleanup_attempted_app. destruct (tomb_all_attempts _ _ _ _ _ _ x T Hx) as [_ A]. rewrite A, !orb_true_r. reflexivity.
          -- apply committedb_needs_update. apply split_update_fail_at; assumption.
          -- simpl. destruct tr; reflexivity.
        * (* committed *)
          destruct (tomb_all fo (S n) dels) as [[trt oks] n2] eqn:T. simpl.
          destruct (tomb_all_spec _ _ _ _ _ _ T) as [T1 [T2 T3]].
          assert (Tu : forallb not_update trt = true) by (eapply forallb_impl; [apply tomb_not_update|exact T1]).
          assert (Tc : created trt = []) by (apply no_create_created; eapply forallb_impl; [apply tomb_not_create|exact T1]).
          change (Ev KIter true :: tr ++ Ev (KUpdate outs' dels) true :: trt)
            with ((Ev KIter true :: tr) ++ Ev (KUpdate outs' dels) true :: trt).
          set (pre := Ev KIter true :: tr) in *. set (full := pre ++ Ev (KUpdate outs' dels) true :: trt).
          assert (Hsplit : split_update full = Some (pre, (outs', dels), trt)) by (apply split_update_at; exact Pu).
          assert (Hcre : created full = outs').
          { unfold full. rewrite created_app. simpl. unfold pre. simpl. rewrite S3, Tc, app_nil_r. reflexivity. }
          assert (Hcpre : created pre = outs') by (unfold pre; simpl; exact S3).
          assert (C1 : forallb (closed_ok pre) outs' = true).
          { apply forallb_forall. intros x Hx. unfold pre.
            change (Ev KIter true :: tr) with ([Ev KIter true] ++ tr). rewrite closed_ok_app, (S4 x Hx). apply orb_true_r. }
          assert (C2 : existsb (touches_cleanup outs') full = false).
          { unfold full. rewrite existsb_app. unfold pre. cbn [existsb]. rewrite (no_cleanup_touch _ _ S2).
            unfold touches_cleanup at 1 2. cbn [e_call orb].
            apply existsb_false_forall. intros e He.
            assert (Hk : In (e_call e) (map KTomb dels)) by (rewrite <- T3; apply in_map; exact He).
            apply in_map_iff in Hk as [d [Hd Hin]]. unfold touches_cleanup. rewrite <- Hd.
            apply mem_z_false. intro Hmem. apply (fresh d Hmem Hin). }
          assert (C3 : existsb (touches_cleanup dels) pre = false).
          { unfold pre. cbn [existsb]. unfold touches_cleanup at 1. cbn [e_call orb]. apply no_cleanup_touch. exact S2. }
          assert (C4 : forallb (tomb_attempted trt) dels = true).
          { apply forallb_forall. intros d Hd. apply (tomb_all_attempts _ _ _ _ _ _ d T Hd). }
          assert (Hcom : committedb full = true).
          { unfold committedb. rewrite Hsplit. cbv beta iota.
            rewrite (no_update_ok _ Tu), Hcre, Hcpre, incl_z_refl, C1, C2, C3, C4. reflexivity. }
          assert (Hclean : source_cleanup_ok full = forallb (fun b => b) oks).
          { unfold source_cleanup_ok. rewrite Hsplit. rewrite T2. clear. induction trt; simpl; [reflexivity|]. rewrite IHtrt. reflexivity. }
          assert (Hnot : nothingb full = false).
          { unfold full, pre. simpl. destruct tr; reflexivity. }
          assert (Hab : abortedb full = false).
          { apply abortedb_no_update. unfold full. rewrite existsb_app. simpl. apply orb_true_r. }
          destruct (forallb (fun b => b) oks) eqn:Eok.
          -- apply RC_commit_clean; auto.
          -- apply RC_commit_dirty; auto.
    - (* a group failed *)
      destruct S as [S1 S2]. simpl.
      apply RC_aborted; try reflexivity.
      + unfold abortedb. simpl. rewrite (no_update_ok _ S1). simpl.
        apply forallb_forall. intros x Hx. change (Ev KIter true :: tr) with ([Ev KIter true] ++ tr).
        rewrite cleanup_attempted_app. rewrite (S2 x Hx). apply orb_true_r.
      + apply committedb_needs_update. apply split_update_none. simpl. exact S1.
      + (* a failing group performs at least a CreateFile *)
        assert (Hne : tr <> []).
        { destruct groups as [|g gs]; [simpl in R; inversion R|].
          eapply run_groups_nonempty; [|exact R]. discriminate. }
        simpl. destruct tr; [congruence|reflexivity].
  Qed.

  (* the return value contract, both directions *)
  Lemma merge_prog_result :
    let tr := fst (merge_prog fo has_abort outp groups) in
    let r := snd (merge_prog fo has_abort outp groups) in
    (r = RetStats <-> (committedb tr && source_cleanup_ok tr) || nothingb tr = true) /\
    (r = RetStatsCleanup <-> committedb tr && negb (source_cleanup_ok tr) = true) /\
    (r = RetErr <-> abortedb tr && negb (committedb tr) && negb (nothingb tr) = true) /\
    r <> RetInProgress.
  Proof.
    cbv zeta.
    destruct merge_prog_class as [A B C|A B C D|A B C D E|A B C D E];
      rewrite ?A, ?B, ?C, ?D, ?E; cbn [andb orb negb];
      repeat split; intro H; try discriminate H; try reflexivity;
      rewrite ?andb_false_r, ?andb_true_r in H; try discriminate H.
  Qed.

  Lemma merge_prog_ret_ok :
    ret_okb (fst (merge_prog fo has_abort outp groups)) (snd (merge_prog fo has_abort outp groups)) = true.
  Proof.
    destruct merge_prog_class as [A B C|A B C D|A B C D E|A B C D E]; rewrite ?C, ?D, ?E; simpl; rewrite ?A, ?B; simpl; auto.
  Qed.
End Outcome.
