(* Invariants of the Results cursor (Model/Cursor.v) over every schedule of consumer, Close
   callers, caller cancellation and environment (workers, teardown). *)
From BS Require Import Model.Stats Model.Cursor.
From Coq Require Import List ZArith Bool Arith Lia Permutation.
Import ListNotations.

Inductive creachable (fx : bool) : cur -> Prop :=
| cr_init k : creachable fx (cinit k)
| cr_step s l s' : creachable fx s -> cursor_step fx s l = Some s' -> creachable fx s'.

Ltac destr_match H :=
  repeat match type of H with
  | context [match ?x with _ => _ end] => destruct x eqn:?; try discriminate H
  | context [if ?x then _ else _] => destruct x eqn:?; try discriminate H
  end.

Ltac destr_cur s :=
  let x := fresh "x" in let h := fresh "h" in let m := fresh "m" in let n := fresh "n" in let o := fresh "o" in
  destruct s as [x h m n o]; destruct x, h, m, n, o.

(* open a step: one goal per enabled branch, the successor state substituted *)
Ltac step_cases H :=
  unfold cursor_step, consumer_idle, finalize in H; cbn in H; destr_match H;
  try discriminate H; injection H as H; subst.

(* ------------------------------------------------------------------ entry lists *)
Definition sent_batches (l : list entry) : list batch :=
  flat_map (fun e => match en_st e with ESent => [en_b e] | _ => [] end) l.
Definition taken_batches (l : list entry) : list batch :=
  flat_map (fun e => match en_st e with ETaken => [en_b e] | _ => [] end) l.
Definition entries_nonempty (l : list entry) : Prop := Forall (fun e => en_b e <> []) l.

Lemma sent_batches_cons e t : sent_batches (e :: t) = match en_st e with ESent => [en_b e] | _ => [] end ++ sent_batches t.
Proof. reflexivity. Qed.
Lemma taken_batches_cons e t : taken_batches (e :: t) = match en_st e with ETaken => [en_b e] | _ => [] end ++ taken_batches t.
Proof. reflexivity. Qed.

Lemma ack_entry_spec w l b l' :
  ack_entry w l = Some (b, l') ->
  ((Permutation (sent_batches l') (b :: sent_batches l) /\ taken_batches l' = taken_batches l) \/
   (Permutation (taken_batches l) (b :: taken_batches l') /\ sent_batches l' = sent_batches l)) /\
  (entries_nonempty l -> entries_nonempty l' /\ b <> []).
Proof.
  revert b l'. induction l as [|e t IH]; intros b l' H; cbn in H; [discriminate|].
  destruct ((en_w e =? w)%nat && negb (st_eqb (en_st e) ESent)) eqn:Hc.
  - rewrite !sent_batches_cons, !taken_batches_cons.
    destruct e as [ew eb es]; cbn [en_w en_b en_st] in *. destruct es; cbn in Hc; try (rewrite andb_false_r in Hc; discriminate);
      injection H as <- <-; rewrite ?sent_batches_cons, ?taken_batches_cons; cbn [en_w en_b en_st app].
    + split; [left; split; auto|]. intros Hn. inversion Hn; subst. cbn in *. split; [constructor; auto|auto].
    + split; [right; split; auto|]. intros Hn. inversion Hn; subst. cbn in *. split; auto.
  - destruct (ack_entry w t) as [[b0 t0]|] eqn:Ha; [|discriminate]. injection H as <- <-.
    destruct (IH _ _ eq_refl) as [P N]. split.
    + rewrite !sent_batches_cons, !taken_batches_cons. destruct P as [[P1 P2]|[P1 P2]]; [left|right]; split.
      * rewrite P1. destruct (en_st e); cbn; auto. apply perm_swap.
      * rewrite P2. reflexivity.
      * rewrite P1. destruct (en_st e); cbn; auto. apply perm_swap.
      * rewrite P2. reflexivity.
    + intros Hn. inversion Hn; subst. destruct (N H2). split; [constructor; auto|auto].
Qed.

Lemma take_entry_spec w l b l' :
  take_entry w l = Some (b, l') ->
  ((Permutation (taken_batches l') (b :: taken_batches l) /\ sent_batches l' = sent_batches l) \/
   (Permutation (sent_batches l) (b :: sent_batches l') /\ taken_batches l' = taken_batches l)) /\
  (entries_nonempty l -> entries_nonempty l' /\ b <> []) /\
  (all_sent l = true -> all_sent l' = true).
Proof.
  unfold all_sent.
  revert b l'. induction l as [|e t IH]; intros b l' H; cbn in H; [discriminate|].
  destruct ((en_w e =? w)%nat && negb (st_eqb (en_st e) ETaken)) eqn:Hc.
  - rewrite !sent_batches_cons, !taken_batches_cons.
    destruct e as [ew eb es]; cbn [en_w en_b en_st] in *. destruct es; cbn in Hc; try (rewrite andb_false_r in Hc; discriminate);
      injection H as <- <-; rewrite ?sent_batches_cons, ?taken_batches_cons; cbn [en_w en_b en_st app forallb st_eqb].
    + split; [left; split; auto|split].
      * intros Hn. inversion Hn; subst. cbn in *. split; [constructor; auto|auto].
      * intros Hs. discriminate.
    + split; [right; split; auto|split].
      * intros Hn. inversion Hn; subst. cbn in *. split; auto.
      * intros Hs. exact Hs.
  - destruct (take_entry w t) as [[b0 t0]|] eqn:Ha; [|discriminate]. injection H as <- <-.
    destruct (IH _ _ eq_refl) as [P [N S]]. split; [|split].
    + rewrite !sent_batches_cons, !taken_batches_cons. destruct P as [[P1 P2]|[P1 P2]]; [left|right]; split.
      * rewrite P1. destruct (en_st e); cbn; auto. apply perm_swap.
      * rewrite P2. reflexivity.
      * rewrite P1. destruct (en_st e); cbn; auto. apply perm_swap.
      * rewrite P2. reflexivity.
    + intros Hn. inversion Hn; subst. destruct (N H2). split; [constructor; auto|auto].
    + cbn. intros Hs. apply andb_prop in Hs. destruct Hs as [Hs1 Hs2]. rewrite Hs1, (S Hs2). reflexivity.
Qed.

Lemma drop_entry_spec w l l' :
  drop_entry w l = Some l' ->
  sent_batches l' = sent_batches l /\ taken_batches l' = taken_batches l /\
  (entries_nonempty l -> entries_nonempty l').
Proof.
  revert l'. induction l as [|e t IH]; intros l' H; cbn in H; [discriminate|].
  rewrite !sent_batches_cons, !taken_batches_cons.
  destruct ((en_w e =? w)%nat && st_eqb (en_st e) EPending) eqn:Hc.
  - injection H as <-. apply andb_prop in Hc. destruct Hc as [_ Hc].
    destruct (en_st e); try discriminate. cbn [app].
    split; [reflexivity|split; [reflexivity|]]. intros Hn. inversion Hn as [|? ? Hh Ht]; exact Ht.
  - destruct (drop_entry w t) eqn:Hd; [|discriminate]. injection H as <-.
    destruct (IH _ eq_refl) as [A [B C]]. rewrite !sent_batches_cons, !taken_batches_cons, A, B.
    split; [reflexivity|split; [reflexivity|]]. intros Hn. inversion Hn as [|? ? Hh Ht]; subst. constructor; [exact Hh|exact (C Ht)].
Qed.

Lemma all_sent_taken_nil l : all_sent l = true -> taken_batches l = [].
Proof.
  unfold all_sent, taken_batches. induction l as [|e t IH]; cbn; auto. intros H. apply andb_prop in H.
  destruct H as [H1 H2]. destruct (en_st e); try discriminate. cbn. auto.
Qed.

Lemma none_sent_sent_nil l : none_sent l = true -> sent_batches l = [].
Proof.
  unfold none_sent, sent_batches. induction l as [|e t IH]; cbn; auto. intros H. apply andb_prop in H.
  destruct H as [H1 H2]. destruct (en_st e); try discriminate; cbn; auto.
Qed.

Lemma all_none_sent_nil l : all_sent l = true -> none_sent l = true -> l = [].
Proof.
  destruct l as [|e t]; auto. unfold all_sent, none_sent. cbn. intros A B.
  apply andb_prop in A. apply andb_prop in B. destruct A as [A _], B as [B _]. destruct (en_st e); discriminate.
Qed.

(* ------------------------------------------------------------------ the invariant *)
Definition sum_blen (l : list batch) : Z := fold_right (fun b acc => (blen b + acc)%Z) 0%Z l.

Lemma sum_blen_app a b : sum_blen (a ++ b) = (sum_blen a + sum_blen b)%Z.
Proof. unfold sum_blen. induction a; cbn [fold_right app]; lia. Qed.

Lemma sum_blen_perm a b : Permutation a b -> sum_blen a = sum_blen b.
Proof. unfold sum_blen. induction 1; cbn [fold_right]; lia. Qed.

Lemma sum_blen_concat l : sum_blen l = Z.of_nat (length (concat l)).
Proof. unfold sum_blen. induction l as [|b t IH]; cbn [fold_right concat]; auto. rewrite app_length, IH. unfold blen. lia. Qed.

Definition pc_finishing (p : npc) : bool := match p with NFinishing _ => true | _ => false end.

Record cinv (fx : bool) (s : cur) : Prop := {
  (* the consumer is idle once the iteration is over *)
  iv_done_idle : n_done (c_n s) = true -> n_pc (c_n s) = NIdle;
  iv_polled : n_pc (c_n s) = NPolled -> n_pending (c_n s) = [];
  (* a decided iteration is finishing or over *)
  iv_via : n_via (c_n s) <> VNone -> pc_finishing (n_pc (c_n s)) = true \/ n_done (c_n s) = true;
  iv_via_finished : n_via (c_n s) <> VNone -> m_finished (c_m s) = true;
  iv_termwait_int : n_pc (c_n s) = NTermWait -> x_int (c_x s) = true;
  (* about to finish: the workers are done, and the error was computed as the code computes it *)
  iv_finishing : forall e, n_pc (c_n s) = NFinishing e ->
      m_finished (c_m s) = true /\
      (e = TCancel -> n_dec (c_n s) <> CNo) /\
      (e <> TCancel -> e = joined (m_errs (c_m s))) /\
      (fx = true -> n_dec (c_n s) = CYes -> e = TCancel);
  iv_finalized_finished : m_finalized (c_m s) = true -> m_finished (c_m s) = true;
  iv_finished_sent : m_finished (c_m s) = true -> all_sent (h_inflight (c_h s)) = true;
  iv_nonempty : entries_nonempty (h_inflight (c_h s));
  (* rows: everything received is handed out in order, nothing twice *)
  iv_rows_live : n_done (c_n s) = false -> concat (n_taken (c_n s)) = n_returned (c_n s) ++ n_pending (c_n s);
  iv_rows_closed : n_via (c_n s) = VClosed -> concat (n_taken (c_n s)) = n_returned (c_n s);
  iv_rows_prefix : exists rest, concat (n_taken (c_n s)) = n_returned (c_n s) ++ rest;
  (* batches: each accepted batch is in the buffer or was received, exactly once *)
  iv_batches : Permutation (h_acked (c_h s) ++ taken_batches (h_inflight (c_h s)))
                           (n_taken (c_n s) ++ sent_batches (h_inflight (c_h s)));
  iv_matched : h_matched (c_h s) = sum_blen (h_acked (c_h s));
  iv_closed_drained : n_via (c_n s) = VClosed -> h_inflight (c_h s) = [];
  (* terminal state *)
  iv_err : m_finalized (c_m s) = true ->
      (m_err (c_m s) = TCancel -> m_finby (c_m s) = ByNext /\ m_decphase (c_m s) <> CNo) /\
      (m_err (c_m s) <> TCancel -> m_err (c_m s) = joined (m_errs (c_m s))) /\
      (fx = true -> m_finby (c_m s) = ByNext -> m_decphase (c_m s) = CYes -> m_err (c_m s) = TCancel) /\
      m_finby (c_m s) <> ByNone;
  iv_int_mono : x_caller (c_x s) <> CNo -> x_int (c_x s) = true;
  iv_once : o_once (c_o s) <> ONew -> x_int (c_x s) = true;
  iv_cwait : forall k, nth_error (o_closers (c_o s)) k = Some CWait -> x_int (c_x s) = true;
  iv_done_int : n_done (c_n s) = true -> x_int (c_x s) = true /\ m_finished (c_m s) = true
}.

Lemma cinit_closers k j : nth_error (repeat CIdle k) j = Some CWait -> False.
Proof. intros H. apply nth_error_In in H. apply repeat_spec in H. discriminate. Qed.

Lemma cinv_init fx k : cinv fx (cinit k).
Proof.
  constructor; cbn; try discriminate; try congruence; auto; try (intros; discriminate).
  - constructor.
  - exists []. reflexivity.
  - intros j Hj. exfalso. exact (cinit_closers _ _ Hj).
Qed.

Lemma joined_not_cancel es : joined es <> TCancel.
Proof. destruct es; discriminate. Qed.

Arguments sent_batches : simpl never.
Arguments taken_batches : simpl never.
Arguments all_sent : simpl never.
Arguments none_sent : simpl never.
Arguments entries_nonempty : simpl never.
Arguments sum_blen : simpl never.
Arguments joined : simpl never.
Arguments ack_entry : simpl never.
Arguments take_entry : simpl never.
Arguments drop_entry : simpl never.
Arguments has_open_entry : simpl never.

Lemma sent_batches_snoc l e : sent_batches (l ++ [e]) = sent_batches l ++ match en_st e with ESent => [en_b e] | _ => [] end.
Proof. unfold sent_batches. rewrite flat_map_app. cbn. rewrite app_nil_r. reflexivity. Qed.
Lemma taken_batches_snoc l e : taken_batches (l ++ [e]) = taken_batches l ++ match en_st e with ETaken => [en_b e] | _ => [] end.
Proof. unfold taken_batches. rewrite flat_map_app. cbn. rewrite app_nil_r. reflexivity. Qed.

Ltac norm_hyps :=
  repeat match goal with
  | H : _ && _ = true |- _ => apply andb_prop in H; destruct H
  | H : _ || _ = false |- _ => apply orb_false_elim in H; destruct H
  | H : negb _ = true |- _ => apply negb_true_iff in H
  | H : negb _ = false |- _ => apply negb_false_iff in H
  | H : match ?x with _ => _ end = true |- _ => destruct x eqn:?; try discriminate H
  | H : match ?x with _ => _ end = false |- _ => destruct x eqn:?; try discriminate H
  end; subst.

Ltac use_hyps :=
  repeat match goal with
  | H : ?x = ?x -> _ |- _ => specialize (H eq_refl)
  | H : ?A -> _, H' : ?A |- _ => specialize (H H')
  | H : _ /\ _ |- _ => destruct H
  | H : ?a <> ?b -> _ |- _ => let X := fresh in assert (X : a <> b) by discriminate; specialize (H X); clear X
  | H : forall e, NFinishing ?e0 = NFinishing e -> _ |- _ => specialize (H e0 eq_refl)
  | H : NFinishing _ = NFinishing _ |- _ => injection H as H; subst
  | H : _ \/ _ |- _ => destruct H
  | H : exists _, _ |- _ => destruct H
  | H : ?b = true -> ?p = ?q, H' : ?b = false -> _ |- _ => destruct b eqn:?
  end.

Ltac fin0 :=
  solve [ discriminate | congruence | assumption | reflexivity
        | exfalso; congruence | auto using joined_not_cancel
        | exfalso; eapply joined_not_cancel; eassumption
        | eexists; eassumption
        | left; reflexivity | right; reflexivity | right; assumption ].

Ltac fin :=
  intros; subst; use_hyps;
  try solve [ fin0 | repeat (split; intros; subst; use_hyps); fin0 ].

Ltac open_step I H s :=
  destruct I; destr_cur s; cbn in *; step_cases H; norm_hyps; cbn in *;
  try match goal with Hk : ack_entry _ _ = Some _ |- _ => destruct (ack_entry_spec _ _ _ _ Hk) as [? ?] end;
  try match goal with Hk : take_entry _ _ = Some _ |- _ => destruct (take_entry_spec _ _ _ _ Hk) as [? [? ?]] end;
  try match goal with Hk : drop_entry _ _ = Some _ |- _ => destruct (drop_entry_spec _ _ _ Hk) as [? [? ?]] end;
  (constructor; cbn in *; fin).

Lemma nonempty_snoc l e : entries_nonempty l -> en_b e <> [] -> entries_nonempty (l ++ [e]).
Proof. intros A B. apply Forall_app. split; [exact A|constructor; [exact B|constructor]]. Qed.

Lemma nth_error_set_nth {A} k k' (v : A) l :
  nth_error (set_nth k v l) k' = if (k =? k')%nat then (match nth_error l k with Some _ => Some v | None => None end) else nth_error l k'.
Proof.
  revert k k'. induction l as [|y t IH]; intros k k'.
  - destruct k, k'; cbn; auto; destruct (k =? k')%nat; auto.
  - destruct k, k'; cbn; auto.
Qed.

Lemma cinv_step fx s l s' : cinv fx s -> cursor_step fx s l = Some s' -> cinv fx s'.
Proof.
  intros I H. destruct l.
  - (* LCancelBegin *) open_step I H s.
  - (* LCancelEnd *) open_step I H s.
  - (* LDeliverTry *) open_step I H s.
    + apply nonempty_snoc; [assumption|discriminate].
    + rewrite taken_batches_snoc, sent_batches_snoc. cbn. rewrite !app_nil_r. assumption.
  - (* LDeliverOk *) open_step I H s.
    all: try (rewrite sum_blen_app; unfold sum_blen; cbn [fold_right]; lia).
    all: match goal with
         | P : Permutation (sent_batches ?l) (_ :: _), E : taken_batches ?l = _ |- _ =>
             rewrite E, P; rewrite <- app_assoc; cbn [app]; rewrite <- !Permutation_middle; apply perm_skip; assumption
         | P : Permutation (taken_batches _) (_ :: taken_batches ?l), E : sent_batches ?l = _ |- _ =>
             rewrite E; rewrite <- iv_batches0; rewrite P; rewrite <- app_assoc; reflexivity
         end.
  - (* LDeliverCtx *) open_step I H s.
  - (* LRecordStat *) open_step I H s.
  - (* LRecordErr *) open_step I H s.
  - (* LWorkersDone *) open_step I H s.
  - (* LNextSticky *) open_step I H s.
  - (* LNextTerm *) open_step I H s.
  - (* LNextPending *) open_step I H s.
    all: try (rewrite <- app_assoc; cbn [app]; assumption).
    all: eexists; rewrite <- app_assoc; cbn [app]; eassumption.
  - (* LNextWait *) open_step I H s.
  - (* LNextBatch *) open_step I H s.
    all: try (rewrite concat_app; cbn [concat]; rewrite iv_rows_live0, iv_polled0, !app_nil_r, <- app_assoc; reflexivity).
    all: try match goal with |- exists rest, concat (_ ++ [_ :: ?b]) = _ =>
           exists b; rewrite concat_app; cbn [concat]; rewrite iv_rows_live0, iv_polled0, !app_nil_r, <- app_assoc; reflexivity end.
    all: match goal with
         | P : Permutation (taken_batches ?l) (_ :: _), E : sent_batches ?l = _ |- _ =>
             rewrite E, P; rewrite <- Permutation_middle; rewrite iv_batches0; rewrite <- app_assoc; cbn [app];
             rewrite <- Permutation_middle; reflexivity
         | P : Permutation (sent_batches _) (_ :: sent_batches ?l), E : taken_batches ?l = _ |- _ =>
             rewrite E; rewrite iv_batches0; rewrite P; rewrite <- app_assoc; reflexivity
         end.
  - (* LNextClosed *) open_step I H s.
    all: try (apply all_none_sent_nil; assumption).
    all: try (rewrite iv_rows_live0, iv_polled0, app_nil_r; reflexivity).
  - (* LNextCtx *) open_step I H s.
  - (* LTermDecide *) open_step I H s.
  - (* LFinish *) open_step I H s.
  - (* LCloseBegin *) open_step I H s.
  - (* LCloseFinal *) open_step I H s.
    all: try match goal with Hn : nth_error (set_nth _ _ _) _ = Some CWait |- _ =>
           rewrite nth_error_set_nth in Hn; destruct (_ =? _)%nat eqn:?;
           [match goal with Hk : nth_error _ _ = Some _ |- _ => rewrite Hk in Hn; discriminate Hn end | auto] end.
  - (* LCloseRet *) open_step I H s.
    all: try match goal with Hn : nth_error (set_nth _ _ _) _ = Some CWait |- _ =>
           rewrite nth_error_set_nth in Hn; destruct (_ =? _)%nat eqn:?;
           [match goal with Hk : nth_error _ _ = Some _ |- _ => rewrite Hk in Hn; discriminate Hn end | auto] end.
Qed.

Theorem creachable_inv fx s : creachable fx s -> cinv fx s.
Proof. induction 1; [apply cinv_init|eapply cinv_step; eassumption]. Qed.

Lemma creachable_steps fx s ls s' : creachable fx s -> cursor_steps fx s ls = Some s' -> creachable fx s'.
Proof.
  revert s. induction ls as [|l t IH]; intros s R H; cbn in H.
  - injection H as <-. exact R.
  - destruct (cursor_step fx s l) eqn:E; [|discriminate]. eapply IH; [|exact H]. econstructor; eassumption.
Qed.

(* ------------------------------------------------------------------ C20: sticky *)
(* once Next has returned false (iterDone), every later Next call returns false and the flag stays *)
Lemma sticky_step fx s l s' :
  creachable fx s -> n_done (c_n s) = true -> cursor_step fx s l = Some s' ->
  n_done (c_n s') = true /\ (forall b, next_result l = Some b -> b = false).
Proof.
  intros R D H. pose proof (creachable_inv _ _ R) as I. destruct I. destr_cur s. cbn in *. subst.
  specialize (iv_done_idle0 eq_refl). subst.
  destruct l; step_cases H; norm_hyps; cbn in *; split; auto; intros ? Hb; try discriminate; try congruence.
Qed.

Theorem next_sticky fx s ls s' :
  creachable fx s -> n_done (c_n s) = true -> cursor_steps fx s ls = Some s' ->
  n_done (c_n s') = true /\ Forall (fun l => forall b, next_result l = Some b -> b = false) ls.
Proof.
  revert s. induction ls as [|l t IH]; intros s R D H; cbn in H.
  - injection H as <-. split; [exact D|constructor].
  - destruct (cursor_step fx s l) eqn:E; [|discriminate].
    destruct (sticky_step _ _ _ _ R D E) as [D' B].
    destruct (IH c (cr_step _ _ _ _ R E) D' H) as [D'' F]. split; [exact D''|constructor; assumption].
Qed.

(* ------------------------------------------------------------------ C20: first finalizer wins *)
Lemma first_wins_step fx s l s' :
  m_finalized (c_m s) = true -> cursor_step fx s l = Some s' ->
  m_finalized (c_m s') = true /\ m_err (c_m s') = m_err (c_m s) /\ m_finby (c_m s') = m_finby (c_m s).
Proof.
  intros F H. destr_cur s. cbn in *. subst.
  destruct l; step_cases H; norm_hyps; cbn in *; auto.
Qed.

Theorem first_wins fx s ls s' :
  m_finalized (c_m s) = true -> cursor_steps fx s ls = Some s' ->
  m_finalized (c_m s') = true /\ m_err (c_m s') = m_err (c_m s).
Proof.
  revert s. induction ls as [|l t IH]; intros s F H; cbn in H.
  - injection H as <-. auto.
  - destruct (cursor_step fx s l) eqn:E; [|discriminate].
    destruct (first_wins_step _ _ _ _ F E) as [F' [E' _]]. destruct (IH _ F' H) as [F'' E'']. split; congruence.
Qed.

(* ------------------------------------------------------------------ C20: the terminal error *)
Lemma joined_nil es : joined es = TNil -> es = [].
Proof. destruct es; [reflexivity|discriminate]. Qed.

(* fixed code *)
Theorem terminal_err s :
  creachable true s -> m_finalized (c_m s) = true ->
  (* nil only if nothing failed and, when Next decided, the caller's cancel call had not returned before the deciding read *)
  (m_err (c_m s) = TNil -> m_errs (c_m s) = [] /\ (m_finby (c_m s) = ByNext -> m_decphase (c_m s) <> CYes)) /\
  (* the ctx error only if the caller cancelled (at least began to) and Next observed it *)
  (m_err (c_m s) = TCancel -> m_finby (c_m s) = ByNext /\ m_decphase (c_m s) <> CNo) /\
  (* cancelled before Next's deciding read: the ctx error *)
  (m_finby (c_m s) = ByNext -> m_decphase (c_m s) = CYes -> m_err (c_m s) = TCancel) /\
  (* otherwise every recorded failure, joined *)
  (m_err (c_m s) <> TCancel -> m_err (c_m s) = joined (m_errs (c_m s))) /\
  m_finished (c_m s) = true.
Proof.
  intros R F. destruct (creachable_inv _ _ R). destruct (iv_err0 F) as [A [B [C D]]].
  split; [|split; [|split; [|split]]]; auto.
  intros E. split.
  - apply joined_nil. rewrite <- B; [exact E|congruence].
  - intros N Y. specialize (C eq_refl N Y). congruence.
Qed.

(* what the pinned code still guarantees: everything except "cancelled => ctx error" *)
Theorem terminal_err_pinned s :
  creachable false s -> m_finalized (c_m s) = true ->
  (m_err (c_m s) = TNil -> m_errs (c_m s) = []) /\
  (m_err (c_m s) = TCancel -> m_finby (c_m s) = ByNext /\ m_decphase (c_m s) <> CNo) /\
  (m_err (c_m s) <> TCancel -> m_err (c_m s) = joined (m_errs (c_m s))).
Proof.
  intros R F. destruct (creachable_inv _ _ R). destruct (iv_err0 F) as [A [B [C D]]].
  split; [|split]; auto.
  intros E. apply joined_nil. rewrite <- B; [exact E|congruence].
Qed.

(* D7: the consumer is between the ctx poll and the blocking select (pause point) when the caller
   cancels; the cancel call returns, the pipeline winds down (dropping whatever it was scanning) and
   closes the row channel; the select takes the closed-channel branch: Err = nil *)
Definition d7_trace : list clabel :=
  [LNextWait; LCancelBegin; LCancelEnd; LWorkersDone; LNextClosed false; LFinish].

Theorem terminal_err_pinned_refuted :
  exists s, creachable false s /\ n_done (c_n s) = true /\ m_finalized (c_m s) = true /\
            m_finby (c_m s) = ByNext /\ m_decphase (c_m s) = CYes /\ x_caller (c_x s) = CYes /\
            m_int_at_done (c_m s) = true /\ o_once (c_o s) = ONew /\ m_err (c_m s) = TNil.
Proof.
  destruct (cursor_steps false (cinit 0) d7_trace) as [s|] eqn:E; [|vm_compute in E; discriminate].
  exists s. split; [eapply creachable_steps; [apply cr_init|exact E]|].
  vm_compute in E. injection E as <-. cbn. repeat split; reflexivity.
Qed.

(* the same schedule on the fixed code: the closed-channel branch sees the cancellation *)
Example d7_trace_fixed :
  cursor_steps true (cinit 0) d7_trace = None /\
  option_map cur_err (cursor_steps true (cinit 0)
    [LNextWait; LCancelBegin; LCancelEnd; LWorkersDone; LNextClosed true; LTermDecide true; LFinish])
  = Some TCancel.
Proof. vm_compute. split; reflexivity. Qed.

(* once the workers are done nothing recorded changes any more: Err reports every failure, Stats is complete *)
Lemma frozen_step fx s l s' :
  m_finished (c_m s) = true -> cursor_step fx s l = Some s' ->
  m_finished (c_m s') = true /\ m_errs (c_m s') = m_errs (c_m s) /\ m_stats (c_m s') = m_stats (c_m s) /\
  h_matched (c_h s') = h_matched (c_h s).
Proof.
  intros F H. destr_cur s. cbn in *. subst.
  destruct l; step_cases H; norm_hyps; cbn in *; auto.
Qed.

Theorem frozen fx s ls s' :
  m_finished (c_m s) = true -> cursor_steps fx s ls = Some s' ->
  m_finished (c_m s') = true /\ m_errs (c_m s') = m_errs (c_m s) /\ cur_stats s' = cur_stats s.
Proof.
  revert s. induction ls as [|l t IH]; intros s F H; cbn in H.
  - injection H as <-. auto.
  - destruct (cursor_step fx s l) eqn:E; [|discriminate].
    destruct (frozen_step _ _ _ _ F E) as [F' [E1 [E2 E3]]]. destruct (IH _ F' H) as [F'' [E1' E2']].
    split; [exact F''|]. split; [congruence|]. rewrite E2'. unfold cur_stats. congruence.
Qed.

(* ------------------------------------------------------------------ C20: Close *)
(* a Close after the first one changes nothing *)
Theorem close_idempotent fx s k :
  o_once (c_o s) = ODone ->
  cursor_step fx s (LCloseBegin k) = None /\
  (nth_error (o_closers (c_o s)) k = Some CIdle -> cursor_step fx s (LCloseRet k) = Some s).
Proof.
  intros O. destr_cur s. cbn in *. subst. split; [reflexivity|]. intros N. rewrite N. reflexivity.
Qed.

(* the first Close gets through as soon as the workers are done, whatever the consumer does *)
Theorem close_progress fx s k :
  nth_error (o_closers (c_o s)) k = Some CWait -> m_finished (c_m s) = true ->
  exists s', cursor_step fx s (LCloseFinal k) = Some s' /\
             exists s'', cursor_step fx s' (LCloseRet k) = Some s'' /\ o_once (c_o s'') = ODone.
Proof.
  intros N F. destr_cur s. cbn in *. subst. rewrite N. eexists. split; [reflexivity|].
  cbn. rewrite nth_error_set_nth, Nat.eqb_refl, N. eexists. split; reflexivity.
Qed.

(* Close never touches what the consumer owns, and decides the terminal state only if nobody has *)
Theorem close_step fx s k s' l :
  (l = LCloseBegin k \/ l = LCloseFinal k \/ l = LCloseRet k) ->
  cursor_step fx s l = Some s' ->
  c_n s' = c_n s /\ c_h s' = c_h s /\
  (m_finalized (c_m s) = true -> c_m s' = c_m s) /\
  (m_finalized (c_m s) = false -> m_finalized (c_m s') = true -> m_err (c_m s') = joined (m_errs (c_m s)) /\ m_finby (c_m s') = ByClose).
Proof.
  intros L H. destr_cur s. cbn in *.
  destruct L as [->|[->| ->]]; step_cases H; norm_hyps; cbn in *; repeat split; auto; intros; try discriminate; try congruence.
Qed.

(* ------------------------------------------------------------------ C20: Next comes to an end *)
Definition pc_rank (s : cur) : nat :=
  match n_pc (c_n s) with NIdle => 4 | NPolled => 3 | NTermWait => 2 | NFinishing _ => 1 end.

(* inside one Next call every step of the consumer moves forward: at most four steps per call *)
Theorem next_call_bounded fx s l s' :
  cursor_step fx s l = Some s' -> consumer_label l = true -> next_result l = None -> pc_rank s' < pc_rank s.
Proof.
  intros H C N. destr_cur s. unfold pc_rank. cbn in *.
  destruct l; try discriminate; step_cases H; norm_hyps; cbn in *; lia.
Qed.

Definition avail_entries (l : list entry) : nat :=
  fold_right (fun e acc => match en_st e with ETaken => acc | _ => length (en_b e) + acc end) 0 l.

Lemma take_entry_cons w e t :
  take_entry w (e :: t) =
  if (en_w e =? w)%nat && negb (st_eqb (en_st e) ETaken) then
    match en_st e with
    | EPending => Some (en_b e, {| en_w := w; en_b := en_b e; en_st := ETaken |} :: t)
    | _ => Some (en_b e, t)
    end
  else match take_entry w t with
       | Some (b, t') => Some (b, e :: t')
       | None => None
       end.
Proof. reflexivity. Qed.

Lemma take_entry_avail w l b l' :
  take_entry w l = Some (b, l') -> all_sent l = true -> avail_entries l = length b + avail_entries l'.
Proof.
  unfold all_sent. revert b l'. induction l as [|e t IH]; intros b l' H S; [discriminate H|].
  rewrite take_entry_cons in H.
  cbn in S. apply andb_prop in S. destruct S as [S1 S2].
  destruct ((en_w e =? w)%nat && negb (st_eqb (en_st e) ETaken)).
  - destruct (en_st e) eqn:Es; try discriminate S1. injection H as <- <-. unfold avail_entries. cbn [fold_right]. rewrite Es. reflexivity.
  - destruct (take_entry w t) as [[b0 t0]|]; [|discriminate]. injection H as <- <-.
    unfold avail_entries in *. cbn [fold_right]. rewrite (IH _ _ eq_refl S2). destruct (en_st e); lia.
Qed.

(* once the workers are done: no step adds rows, and every Next = true uses one up *)
Lemma drain_step fx s l s' :
  creachable fx s -> m_finished (c_m s) = true -> cursor_step fx s l = Some s' ->
  rows_available s' + (match next_result l with Some true => 1 | _ => 0 end) <= rows_available s.
Proof.
  intros R F H. destruct (creachable_inv _ _ R). destr_cur s. unfold rows_available. cbn in *. subst.
  specialize (iv_finished_sent0 eq_refl).
  destruct l; step_cases H; norm_hyps; cbn in *; try lia.
  match goal with Hk : take_entry _ _ = Some _ |- _ => pose proof (take_entry_avail _ _ _ _ Hk iv_finished_sent0) as A end.
  unfold avail_entries in A. cbn in A. rewrite (iv_polled0 eq_refl). cbn. lia.
Qed.

Fixpoint count_true (ls : list clabel) : nat :=
  match ls with
  | [] => 0
  | l :: t => (match next_result l with Some true => 1 | _ => 0 end) + count_true t
  end.

Theorem drain_bound fx s ls s' :
  creachable fx s -> m_finished (c_m s) = true -> cursor_steps fx s ls = Some s' ->
  count_true ls + rows_available s' <= rows_available s.
Proof.
  revert s. induction ls as [|l t IH]; intros s R F H; cbn in H.
  - injection H as <-. cbn. lia.
  - destruct (cursor_step fx s l) eqn:E; [|discriminate].
    pose proof (drain_step _ _ _ _ R F E) as D. destruct (frozen_step _ _ _ _ F E) as [F' _].
    pose proof (IH _ (cr_step _ _ _ _ R E) F' H) as B. cbn [count_true]. lia.
Qed.

(* ... and the consumer is never blocked: whatever it is doing, one of its steps is enabled *)
Theorem consumer_progress fx s :
  creachable fx s -> m_finished (c_m s) = true ->
  exists l, consumer_label l = true /\ cursor_step fx s l <> None.
Proof.
  intros R F. destruct (creachable_inv _ _ R). destr_cur s. cbn in *. subst.
  specialize (iv_finished_sent0 eq_refl).
  destruct n_pc.
  - destruct n_done.
    + exists LNextSticky. split; [reflexivity|]. cbn. discriminate.
    + destruct n_pending.
      * exists LNextWait. split; [reflexivity|]. cbn. discriminate.
      * exists LNextPending. split; [reflexivity|]. cbn. discriminate.
  - destruct h_inflight as [|e t].
    + destruct fx.
      * destruct x_caller; [exists (LNextClosed false)|exists (LNextClosed false)|exists (LNextClosed true)];
          (split; [reflexivity|]); cbn; discriminate.
      * exists (LNextClosed false). split; [reflexivity|]. cbn. discriminate.
    + exists (LNextBatch (en_w e)). split; [reflexivity|]. cbn.
      unfold all_sent in iv_finished_sent0. cbn in iv_finished_sent0. apply andb_prop in iv_finished_sent0.
      destruct iv_finished_sent0 as [S1 _]. inversion iv_nonempty0 as [|? ? Hb _]; subst.
      rewrite take_entry_cons. rewrite Nat.eqb_refl. destruct (en_st e); try discriminate S1. cbn.
      destruct (en_b e); [congruence|discriminate].
  - destruct x_caller; [exists (LTermDecide false)|exists (LTermDecide false)|exists (LTermDecide true)];
      (split; [reflexivity|]); cbn; discriminate.
  - exists LFinish. split; [reflexivity|]. cbn. discriminate.
Qed.

(* ------------------------------------------------------------------ delivery (C02) and RowsMatched (C23) *)
(* iteration ran to the end of the closed channel: every batch a worker handed off was received once and
   handed out row by row, in order *)
Theorem delivery_complete fx s :
  creachable fx s -> complete s = true ->
  n_returned (c_n s) = concat (n_taken (c_n s)) /\
  Permutation (n_taken (c_n s)) (h_acked (c_h s)) /\
  h_inflight (c_h s) = [].
Proof.
  intros R C. destruct (creachable_inv _ _ R). unfold complete in C. apply andb_prop in C. destruct C as [_ C].
  destruct (n_via (c_n s)) eqn:V; try discriminate.
  specialize (iv_rows_closed0 eq_refl). specialize (iv_closed_drained0 eq_refl).
  rewrite iv_closed_drained0 in iv_batches0. unfold taken_batches, sent_batches in iv_batches0. cbn in iv_batches0.
  rewrite !app_nil_r in iv_batches0. split; [congruence|]. split; [symmetry; exact iv_batches0|exact iv_closed_drained0].
Qed.

Theorem matched_complete fx s :
  creachable fx s -> complete s = true -> h_matched (c_h s) = Z.of_nat (length (n_returned (c_n s))).
Proof.
  intros R C. destruct (delivery_complete _ _ R C) as [A [B _]]. destruct (creachable_inv _ _ R).
  rewrite iv_matched0, <- (sum_blen_perm _ _ B), sum_blen_concat, A. reflexivity.
Qed.

(* whatever happens, what was handed out is a prefix of what was received: nothing twice, nothing invented *)
Theorem returned_prefix fx s :
  creachable fx s -> exists rest, concat (n_taken (c_n s)) = n_returned (c_n s) ++ rest.
Proof. intros R. destruct (creachable_inv _ _ R). assumption. Qed.
