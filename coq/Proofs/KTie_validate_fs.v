(* Kernel tie validate_fs (DESIGN.md 10.7): the definition translated from the Go source equals the model.
   One file per kernel, so that a changed kernel only breaks the property files that state its tie. *)
From BS Require Import Lib.Bytes Lib.Wrap64 Lib.GoPrim Generated.Kernels Generated.KernelTie Model.Validate Proofs.KernelEquiv Proofs.KernelEquivT.
From Coq Require Import ZArith List Bool Lia.
Import ListNotations.
Local Open Scope Z_scope.

Lemma k_validate_fs_tie : tie_validate_fs.
Proof. unfold tie_validate_fs. first [exact I | k_open_T; k_arith]. Qed.
