(* Family S — sizing (C26): lemmas and the invariant over histories. *)
From BS Require Import Lib.Bytes Model.Sizing.
From Coq Require Import List ZArith Bool Lia Permutation.
Import ListNotations.
Open Scope Z_scope.

(* ---- entry sets ------------------------------------------------------------------- *)

Lemma add_In x y s : In y (add x s) <-> y = x \/ In y s.
Proof.
  unfold add. destruct (mem_str x s) eqn:E.
  - apply mem_str_In in E. split; [intro H; right; exact H|].
    intros [Hy|Hy]; [subst; exact E|exact Hy].
  - split.
    + intros [Hy|Hy]; [left; symmetry; exact Hy|right; exact Hy].
    + intros [Hy|Hy]; [left; symmetry; exact Hy|right; exact Hy].
Qed.

Lemma add_NoDup x s : NoDup s -> NoDup (add x s).
Proof.
  intro H. unfold add. destruct (mem_str x s) eqn:E; [exact H|].
  constructor; [|exact H]. intro Hin. apply mem_str_In in Hin. congruence.
Qed.

Lemma add_all_cons x xs s : add_all (x :: xs) s = add_all xs (add x s).
Proof. reflexivity. Qed.

Lemma add_all_In xs : forall s y, In y (add_all xs s) <-> In y xs \/ In y s.
Proof.
  induction xs as [|x xs IH]; intros s y.
  - cbn. tauto.
  - rewrite add_all_cons, IH, add_In. cbn [In]. split.
    + intros [H|[H|H]]; [left; right; exact H|left; left; symmetry; exact H|right; exact H].
    + intros [[H|H]|H]; [right; left; symmetry; exact H|left; exact H|right; right; exact H].
Qed.

Lemma add_all_NoDup xs : forall s, NoDup s -> NoDup (add_all xs s).
Proof.
  induction xs as [|x xs IH]; intros s H; [exact H|].
  rewrite add_all_cons. apply IH, add_NoDup, H.
Qed.

Lemma set_of_index_row c s r : set_of c (index_row s r) = add_all (row_ents c r) (set_of c s).
Proof. destruct c; reflexivity. Qed.

Lemma set_of_union_into c a b : set_of c (union_into a b) = add_all (set_of c a) (set_of c b).
Proof. destruct c; reflexivity. Qed.

Lemma set_of_empty c : set_of c empty_sets = [].
Proof. destruct c; reflexivity. Qed.

Lemma filter_of_build c s rate : filter_of c (build_filters s rate) = build_filter (set_of c s) rate.
Proof. destruct c; reflexivity. Qed.

Lemma count_of_counts c s : count_of c (counts s) = zlen (set_of c s).
Proof. destruct c; reflexivity. Qed.

Lemma index_rows_cons r rs s : index_rows (r :: rs) s = index_rows rs (index_row s r).
Proof. reflexivity. Qed.

Lemma rows_ents_cons c r rs : rows_ents c (r :: rs) = row_ents c r ++ rows_ents c rs.
Proof. reflexivity. Qed.

Lemma rows_ents_app c a b : rows_ents c (a ++ b) = rows_ents c a ++ rows_ents c b.
Proof. unfold rows_ents. apply flat_map_app. Qed.

Lemma index_rows_In c rs : forall s x,
  In x (set_of c (index_rows rs s)) <-> In x (rows_ents c rs) \/ In x (set_of c s).
Proof.
  induction rs as [|r rs IH]; intros s x.
  - cbn. tauto.
  - rewrite index_rows_cons, IH, set_of_index_row, add_all_In, rows_ents_cons, in_app_iff. tauto.
Qed.

Lemma index_rows_NoDup c rs : forall s, NoDup (set_of c s) -> NoDup (set_of c (index_rows rs s)).
Proof.
  induction rs as [|r rs IH]; intros s H; [exact H|].
  rewrite index_rows_cons. apply IH. rewrite set_of_index_row. apply add_all_NoDup, H.
Qed.

(* [collects s rs]: s is a duplicate-free enumeration of exactly the entries of rs, per class *)
Definition collects (s : sets) (rs : list rowent) : Prop :=
  forall c, NoDup (set_of c s) /\ forall x, In x (set_of c s) <-> In x (rows_ents c rs).

Lemma collects_empty : collects empty_sets [].
Proof. intro c. rewrite set_of_empty. split; [constructor|]. intro x. cbn. tauto. Qed.

Lemma collects_index_rows s rs0 rs : collects s rs0 -> collects (index_rows rs s) (rs0 ++ rs).
Proof.
  intros H c. destruct (H c) as [Hn Hi]. split; [apply index_rows_NoDup, Hn|].
  intro x. rewrite index_rows_In, rows_ents_app, in_app_iff, Hi. tauto.
Qed.

Lemma collects_union a ra b rb : collects a ra -> collects b rb -> collects (union_into a b) (rb ++ ra).
Proof.
  intros Ha Hb c. destruct (Ha c) as [_ Hia]. destruct (Hb c) as [Hnb Hib].
  rewrite set_of_union_into. split; [apply add_all_NoDup, Hnb|].
  intro x. rewrite add_all_In, rows_ents_app, in_app_iff, Hia, Hib. tauto.
Qed.

(* ---- distinct counts ---------------------------------------------------------------- *)

Lemma dedup_In x xs : In x (dedup xs) <-> In x xs.
Proof.
  induction xs as [|a xs IH]; [cbn; tauto|].
  cbn [dedup]. destruct (mem_str a xs) eqn:E.
  - rewrite IH. apply mem_str_In in E. cbn [In]. split; [tauto|]. intros [H|H]; [subst; exact E|exact H].
  - cbn [In]. rewrite IH. tauto.
Qed.

Lemma dedup_NoDup xs : NoDup (dedup xs).
Proof.
  induction xs as [|a xs IH]; [constructor|].
  cbn [dedup]. destruct (mem_str a xs) eqn:E; [exact IH|].
  constructor; [|exact IH]. rewrite dedup_In. intro H. apply mem_str_In in H. congruence.
Qed.

Lemma NoDup_same_set_length (a b : list str) :
  NoDup a -> NoDup b -> (forall x, In x a <-> In x b) -> length a = length b.
Proof.
  intros Ha Hb H. apply Nat.le_antisymm; apply NoDup_incl_length; try assumption;
    intros x Hx; apply H; exact Hx.
Qed.

(* any duplicate-free enumeration of the same set has distinct_count many elements *)
Lemma distinct_count_char l xs :
  NoDup l -> (forall x, In x l <-> In x xs) -> zlen l = distinct_count xs.
Proof.
  intros Hn H. unfold distinct_count, zlen. f_equal.
  apply NoDup_same_set_length; [exact Hn|apply dedup_NoDup|].
  intro x. rewrite H, dedup_In. tauto.
Qed.

(* the count depends on the set of entries only: not on order, not on multiplicity *)
Lemma distinct_count_set xs ys : (forall x, In x xs <-> In x ys) -> distinct_count xs = distinct_count ys.
Proof.
  intro H. rewrite <- (distinct_count_char (dedup xs) ys); [reflexivity|apply dedup_NoDup|].
  intro x. rewrite dedup_In. apply H.
Qed.

Lemma distinct_count_perm xs ys : Permutation xs ys -> distinct_count xs = distinct_count ys.
Proof.
  intro P. apply distinct_count_set. intro x. split; intro H.
  - eapply Permutation_in; [exact P|exact H].
  - eapply Permutation_in; [apply Permutation_sym, P|exact H].
Qed.

Lemma distinct_count_repeat xs ys : incl ys xs -> distinct_count (xs ++ ys) = distinct_count xs.
Proof.
  intro Hi. apply distinct_count_set. intro x. rewrite in_app_iff. split; [|tauto].
  intros [H|H]; [exact H|apply Hi, H].
Qed.

Lemma distinct_count_bounds xs : 0 <= distinct_count xs <= zlen xs.
Proof.
  unfold distinct_count, zlen. split; [lia|].
  apply inj_le. apply NoDup_incl_length; [apply dedup_NoDup|].
  intros x Hx. exact (proj1 (dedup_In x xs) Hx).
Qed.

(* ---- what "sized from measured distinct counts" means --------------------------------- *)

(* f was created with n = max(1, |distinct xs|) and the given rate, and received exactly the
   distinct entries of xs, each once *)
Definition filter_sized (f : bfilter) (rate : Z) (xs : list str) : Prop :=
  f_n f = Z.max 1 (distinct_count xs) /\ f_rate f = rate /\
  NoDup (f_members f) /\ (forall x, In x (f_members f) <-> In x xs).

(* the recorded count is the number of distinct entries, the number of entries the filter
   received, and the number it was sized for *)
Definition count_recorded (n : Z) (f : bfilter) (xs : list str) : Prop :=
  n = distinct_count xs /\ n = zlen (f_members f) /\ f_n f = Z.max 1 n.

Definition block_sized (b : block) : Prop :=
  forall c, filter_sized (filter_of c (b_filters b)) (b_rate b) (rows_ents c (b_rows b)) /\
            count_recorded (count_of c (b_counts b)) (filter_of c (b_filters b)) (rows_ents c (b_rows b)).

Definition file_sized (f : file) : Prop :=
  Forall block_sized (fl_blocks f) /\
  forall c, filter_sized (filter_of c (fl_filters f)) (fl_rate f) (rows_ents c (file_rows f)) /\
            count_recorded (count_of c (fl_counts f)) (filter_of c (fl_filters f)) (rows_ents c (file_rows f)).

Lemma built_from_sets s rs rate c :
  collects s rs ->
  filter_sized (filter_of c (build_filters s rate)) rate (rows_ents c rs) /\
  count_recorded (count_of c (counts s)) (filter_of c (build_filters s rate)) (rows_ents c rs).
Proof.
  intro H. destruct (H c) as [Hn Hi].
  pose proof (distinct_count_char _ _ Hn Hi) as Hlen.
  rewrite filter_of_build, count_of_counts. unfold filter_sized, count_recorded, build_filter; cbn.
  rewrite Hlen. repeat split; try assumption; try apply Hi; try apply Z.max_comm.
Qed.

Lemma build_block_spec rate rows :
  block_sized (fst (build_block rate rows)) /\ collects (snd (build_block rate rows)) rows /\
  b_rate (fst (build_block rate rows)) = rate /\ b_rows (fst (build_block rate rows)) = rows.
Proof.
  assert (Hc : collects (index_rows rows empty_sets) rows).
  { change rows with ([] ++ rows) at 2. apply collects_index_rows, collects_empty. }
  unfold build_block; cbn [fst snd b_rate b_rows].
  split; [|split; [exact Hc|split; reflexivity]].
  intro c. cbn [b_filters b_counts b_rate b_rows]. apply built_from_sets, Hc.
Qed.

(* every block ever written is build_block of its own rate and rows (copies keep theirs) *)
Definition block_built (b : block) : Prop := b = fst (build_block (b_rate b) (b_rows b)).

Lemma build_block_built rate rows : block_built (fst (build_block rate rows)).
Proof. unfold block_built, build_block; cbn. reflexivity. Qed.

(* ---- flush ------------------------------------------------------------------------------ *)

Lemma flush_blocks_spec rate parts : forall fe rs0,
  collects fe rs0 ->
  Forall block_sized (fst (flush_blocks rate parts fe)) /\
  Forall (fun b => b_rate b = rate /\ block_built b) (fst (flush_blocks rate parts fe)) /\
  map b_rows (fst (flush_blocks rate parts fe)) = parts /\
  exists rs, collects (snd (flush_blocks rate parts fe)) rs /\
             forall c x, In x (rows_ents c rs) <-> In x (rows_ents c rs0) \/ In x (rows_ents c (concat parts)).
Proof.
  induction parts as [|rows t IH]; intros fe rs0 Hfe.
  - cbn. repeat split; try constructor. exists rs0. split; [exact Hfe|]. intros c x. cbn. tauto.
  - cbn [flush_blocks].
    destruct (build_block rate rows) as [b es] eqn:Eb.
    pose proof (build_block_spec rate rows) as Hb. rewrite Eb in Hb. cbn [fst snd] in Hb.
    destruct Hb as (Hbs & Hes & Hrate & Hrows).
    specialize (IH (union_into es fe) (rs0 ++ rows) (collects_union _ _ _ _ Hes Hfe)).
    destruct (flush_blocks rate t (union_into es fe)) as [bs fe'] eqn:Et. cbn [fst snd] in *.
    destruct IH as (IH1 & IH2 & IH3 & rs & IH4 & IH5).
    repeat split.
    + constructor; assumption.
    + constructor; [|exact IH2]. split; [exact Hrate|].
      replace b with (fst (build_block rate rows)) by (rewrite Eb; reflexivity). apply build_block_built.
    + cbn. rewrite Hrows, IH3. reflexivity.
    + exists rs. split; [exact IH4|]. intros c x. rewrite IH5, rows_ents_app, in_app_iff.
      cbn [concat]. rewrite rows_ents_app, in_app_iff. tauto.
Qed.

Lemma filter_sized_ext f rate xs ys : (forall x, In x xs <-> In x ys) -> filter_sized f rate xs -> filter_sized f rate ys.
Proof.
  intros H (H1 & H2 & H3 & H4). unfold filter_sized.
  rewrite <- (distinct_count_set xs ys H). repeat split; try assumption; intro Hx.
  - apply H, H4, Hx.
  - apply H4, H, Hx.
Qed.

Lemma count_recorded_ext n f xs ys : (forall x, In x xs <-> In x ys) -> count_recorded n f xs -> count_recorded n f ys.
Proof.
  intros H (H1 & H2 & H3). unfold count_recorded. rewrite <- (distinct_count_set xs ys H). auto.
Qed.

Lemma close_file_sized rate bs fe rs :
  Forall block_sized bs -> collects fe rs ->
  (forall c x, In x (rows_ents c rs) <-> In x (rows_ents c (concat (map b_rows bs)))) ->
  file_sized (close_file rate bs fe).
Proof.
  intros Hbs Hfe Hrs. split; [exact Hbs|]. intro c. cbn [close_file fl_filters fl_counts fl_rate].
  assert (Hrows : file_rows (close_file rate bs fe) = concat (map b_rows bs)).
  { unfold file_rows, close_file; cbn. apply flat_map_concat_map. }
  rewrite Hrows. destruct (built_from_sets fe rs rate c Hfe) as [H1 H2]. split.
  - eapply filter_sized_ext; [apply Hrs|exact H1].
  - eapply count_recorded_ext; [apply Hrs|exact H2].
Qed.

Lemma flush_file_sized rate parts : file_sized (flush_file rate parts).
Proof.
  unfold flush_file.
  pose proof (flush_blocks_spec rate parts empty_sets [] collects_empty) as H.
  destruct (flush_blocks rate parts empty_sets) as [bs fe]. cbn [fst snd] in H.
  destruct H as (H1 & _ & H3 & rs & H4 & H5).
  apply (close_file_sized rate bs fe rs H1 H4).
  intros c x. rewrite H5, H3. cbn. tauto.
Qed.

Lemma flush_file_rates rate parts :
  fl_rate (flush_file rate parts) = rate /\
  Forall (fun b => b_rate b = rate) (fl_blocks (flush_file rate parts)) /\
  map b_rows (fl_blocks (flush_file rate parts)) = parts.
Proof.
  unfold flush_file.
  pose proof (flush_blocks_spec rate parts empty_sets [] collects_empty) as H.
  destruct (flush_blocks rate parts empty_sets) as [bs fe]. cbn [fst snd] in H.
  destruct H as (_ & H2 & H3 & _). cbn. repeat split; [|exact H3].
  eapply Forall_impl; [|exact H2]. intros b [Hb _]. exact Hb.
Qed.

Lemma flush_file_built rate parts : Forall block_built (fl_blocks (flush_file rate parts)).
Proof.
  unfold flush_file.
  pose proof (flush_blocks_spec rate parts empty_sets [] collects_empty) as H.
  destruct (flush_blocks rate parts empty_sets) as [bs fe]. cbn [fst snd] in H.
  destruct H as (_ & H2 & _). cbn. eapply Forall_impl; [|exact H2]. intros b [_ Hb]. exact Hb.
Qed.

(* ---- merge ------------------------------------------------------------------------------ *)

Lemma merge_group_spec rate g fe rs0 :
  collects fe rs0 -> Forall block_sized (group_sources g) ->
  block_sized (fst (merge_group rate g fe)) /\
  collects (snd (merge_group rate g fe)) (rs0 ++ b_rows (fst (merge_group rate g fe))) /\
  match g with
  | OCopy b => fst (merge_group rate g fe) = b
  | OMerge bs => b_rate (fst (merge_group rate g fe)) = rate /\
                 b_rows (fst (merge_group rate g fe)) = concat (map b_rows bs)
  end.
Proof.
  intros Hfe Hsrc. destruct g as [b|bs]; cbn [merge_group fst snd].
  - inversion Hsrc; subst. split; [assumption|]. split; [apply collects_index_rows, Hfe|reflexivity].
  - destruct (build_block rate (concat (map b_rows bs))) as [b es] eqn:Eb.
    pose proof (build_block_spec rate (concat (map b_rows bs))) as Hb. rewrite Eb in Hb. cbn [fst snd] in *.
    destruct Hb as (Hbs & Hes & Hrate & Hrows). split; [assumption|]. split; [|split; assumption].
    rewrite Hrows. apply collects_union; assumption.
Qed.

Lemma merge_blocks_spec rate gs : forall fe rs0,
  collects fe rs0 -> Forall (fun g => Forall block_sized (group_sources g)) gs ->
  Forall block_sized (fst (merge_blocks rate gs fe)) /\
  collects (snd (merge_blocks rate gs fe)) (rs0 ++ concat (map b_rows (fst (merge_blocks rate gs fe)))).
Proof.
  induction gs as [|g t IH]; intros fe rs0 Hfe Hsrc.
  - cbn. split; [constructor|]. rewrite app_nil_r. exact Hfe.
  - inversion Hsrc as [|? ? Hg Ht]; subst. cbn [merge_blocks].
    pose proof (merge_group_spec rate g fe rs0 Hfe Hg) as Hm.
    destruct (merge_group rate g fe) as [b fe1]. cbn [fst snd] in Hm. destruct Hm as (Hb & Hfe1 & _).
    specialize (IH fe1 (rs0 ++ b_rows b) Hfe1 Ht).
    destruct (merge_blocks rate t fe1) as [bs fe']. cbn [fst snd] in *. destruct IH as [IH1 IH2].
    split; [constructor; assumption|]. cbn [map concat]. rewrite app_assoc. exact IH2.
Qed.

Lemma merge_file_sized rate gs :
  Forall (fun g => Forall block_sized (group_sources g)) gs -> file_sized (merge_file rate gs).
Proof.
  intro Hsrc. unfold merge_file.
  pose proof (merge_blocks_spec rate gs empty_sets [] collects_empty Hsrc) as H.
  destruct (merge_blocks rate gs empty_sets) as [bs fe]. cbn [fst snd] in H. destruct H as [H1 H2].
  apply (close_file_sized rate bs fe _ H1 H2). intros c x. cbn. tauto.
Qed.

(* the output blocks, group by group: a copy is the source block itself (filters, counts and
   rate as they were), a merge is rebuilt from the concatenated rows at the current rate *)
Lemma merge_blocks_shape rate gs : forall fe,
  Forall2 (fun g b => match g with
                      | OCopy src => b = src
                      | OMerge srcs => b = fst (build_block rate (concat (map b_rows srcs)))
                      end) gs (fst (merge_blocks rate gs fe)).
Proof.
  induction gs as [|g t IH]; intro fe; [constructor|].
  cbn [merge_blocks]. destruct (merge_group rate g fe) as [b fe1] eqn:Eg.
  specialize (IH fe1). destruct (merge_blocks rate t fe1) as [bs fe']. cbn [fst] in *.
  constructor; [|exact IH].
  destruct g as [src|srcs]; cbn [merge_group] in Eg.
  - inversion Eg. reflexivity.
  - destruct (build_block rate (concat (map b_rows srcs))) as [b' es]. inversion Eg. reflexivity.
Qed.

Lemma merge_file_shape rate gs :
  fl_rate (merge_file rate gs) = rate /\
  Forall2 (fun g b => match g with
                      | OCopy src => b = src
                      | OMerge srcs => b = fst (build_block rate (concat (map b_rows srcs)))
                      end) gs (fl_blocks (merge_file rate gs)).
Proof.
  unfold merge_file. pose proof (merge_blocks_shape rate gs empty_sets) as H.
  destruct (merge_blocks rate gs empty_sets) as [bs fe]. cbn in *. split; [reflexivity|exact H].
Qed.

(* ---- histories ---------------------------------------------------------------------------- *)

Lemma get_block_sized st fb b : Forall file_sized st -> get_block st fb = Some b -> block_sized b.
Proof.
  intros Hst H. unfold get_block in H. destruct (nth_error st (fst fb)) as [f|] eqn:Ef; [|discriminate].
  apply nth_error_In in Ef. apply nth_error_In in H.
  rewrite Forall_forall in Hst. destruct (Hst f Ef) as [Hbs _].
  rewrite Forall_forall in Hbs. apply Hbs, H.
Qed.

Lemma get_blocks_sized st l : forall bs, Forall file_sized st -> get_blocks st l = Some bs -> Forall block_sized bs.
Proof.
  induction l as [|fb t IH]; intros bs Hst H; cbn [get_blocks] in H.
  - inversion H. constructor.
  - destruct (get_block st fb) as [b|] eqn:Eb; [|discriminate].
    destruct (get_blocks st t) as [bs'|] eqn:Et; [|discriminate]. inversion H; subst.
    constructor; [eapply get_block_sized; eassumption|apply IH; auto].
Qed.

Lemma resolve_sized st plan : forall gs, Forall file_sized st -> resolve st plan = Some gs ->
  Forall (fun g => Forall block_sized (group_sources g)) gs.
Proof.
  induction plan as [|s t IH]; intros gs Hst H; cbn [resolve] in H.
  - inversion H. constructor.
  - destruct s as [fi bi|l].
    + destruct (get_block st (fi, bi)) as [b|] eqn:Eb; cbn [option_map] in H; [|discriminate].
      destruct (resolve st t) as [gs'|] eqn:Et; [|discriminate]. inversion H; subst.
      constructor; [|apply IH; auto]. cbn. constructor; [|constructor]. eapply get_block_sized; eassumption.
    + destruct (get_blocks st l) as [bs|] eqn:Eb; cbn [option_map] in H; [|discriminate].
      destruct (resolve st t) as [gs'|] eqn:Et; [|discriminate]. inversion H; subst.
      constructor; [|apply IH; auto]. cbn. eapply get_blocks_sized; eassumption.
Qed.

Lemma drop_indices_Forall {A} (P : A -> Prop) drop : forall l i, Forall P l -> Forall P (drop_indices i drop l).
Proof.
  induction l as [|x t IH]; intros i H; [constructor|].
  inversion H; subst. cbn [drop_indices]. destruct (existsb (Nat.eqb i) drop); [apply IH; assumption|].
  constructor; [assumption|apply IH; assumption].
Qed.

Lemma apply_op_sized st o st' : Forall file_sized st -> apply_op st o = Some st' -> Forall file_sized st'.
Proof.
  intros Hst H. destruct o as [rate parts|rate plan consumed]; cbn [apply_op] in H.
  - destruct parts as [|p ps]; inversion H; subst; [exact Hst|].
    apply Forall_app. split; [exact Hst|]. constructor; [apply flush_file_sized|constructor].
  - destruct (resolve st plan) as [gs|] eqn:Er; [|discriminate]. inversion H; subst.
    apply Forall_app. split; [apply drop_indices_Forall, Hst|].
    constructor; [|constructor]. apply merge_file_sized. eapply resolve_sized; eassumption.
Qed.

Lemma run_ops_sized ops : forall st st', Forall file_sized st -> run_ops st ops = Some st' -> Forall file_sized st'.
Proof.
  induction ops as [|o t IH]; intros st st' Hst H; cbn [run_ops] in H.
  - inversion H; subst. exact Hst.
  - destruct (apply_op st o) as [st1|] eqn:Eo; [|discriminate].
    eapply IH; [|exact H]. eapply apply_op_sized; eassumption.
Qed.

(* ---- the statements of C26 ------------------------------------------------------------------ *)

(* every filter of every file any history leaves in the store, block level and file level *)
Lemma sized_from_measured : forall ops st, run_ops [] ops = Some st ->
  forall f, In f st ->
  (forall c, filter_sized (filter_of c (fl_filters f)) (fl_rate f) (rows_ents c (file_rows f))) /\
  (forall b, In b (fl_blocks f) ->
     forall c, filter_sized (filter_of c (b_filters b)) (b_rate b) (rows_ents c (b_rows b))).
Proof.
  intros ops st H f Hf.
  pose proof (run_ops_sized ops [] st (Forall_nil _) H) as Hall.
  rewrite Forall_forall in Hall. destruct (Hall f Hf) as [Hbs Hfile]. split.
  - intro c. apply Hfile.
  - intros b Hb c. rewrite Forall_forall in Hbs. apply (Hbs b Hb c).
Qed.

Lemma counts_recorded : forall ops st, run_ops [] ops = Some st ->
  forall f, In f st ->
  (forall c, count_recorded (count_of c (fl_counts f)) (filter_of c (fl_filters f)) (rows_ents c (file_rows f))) /\
  (forall b, In b (fl_blocks f) ->
     forall c, count_recorded (count_of c (b_counts b)) (filter_of c (b_filters b)) (rows_ents c (b_rows b))).
Proof.
  intros ops st H f Hf.
  pose proof (run_ops_sized ops [] st (Forall_nil _) H) as Hall.
  rewrite Forall_forall in Hall. destruct (Hall f Hf) as [Hbs Hfile]. split.
  - intro c. apply Hfile.
  - intros b Hb c. rewrite Forall_forall in Hbs. apply (Hbs b Hb c).
Qed.

(* the file-level filter holds exactly the union of what the block-level filters hold *)
Lemma file_sized_union f : file_sized f -> forall c x,
  In x (f_members (filter_of c (fl_filters f))) <->
  exists b, In b (fl_blocks f) /\ In x (f_members (filter_of c (b_filters b))).
Proof.
  intros [Hbs Hfile] c x. destruct (Hfile c) as [(_ & _ & _ & Hm) _]. rewrite Hm.
  unfold rows_ents, file_rows. rewrite in_flat_map. rewrite Forall_forall in Hbs. split.
  - intros [r [Hr Hx]]. apply in_flat_map in Hr as [b [Hb Hrb]]. exists b. split; [exact Hb|].
    destruct (Hbs b Hb c) as [(_ & _ & _ & Hmb) _]. apply Hmb. unfold rows_ents. apply in_flat_map. exists r. auto.
  - intros [b [Hb Hx]]. destruct (Hbs b Hb c) as [(_ & _ & _ & Hmb) _]. apply Hmb in Hx.
    unfold rows_ents in Hx. apply in_flat_map in Hx as [r [Hr Hx]]. exists r. split; [|exact Hx].
    apply in_flat_map. exists b. auto.
Qed.

Lemma covers_union : forall ops st, run_ops [] ops = Some st ->
  forall f, In f st -> forall c x,
  In x (f_members (filter_of c (fl_filters f))) <->
  exists b, In b (fl_blocks f) /\ In x (f_members (filter_of c (b_filters b))).
Proof.
  intros ops st H f Hf. apply file_sized_union.
  pose proof (run_ops_sized ops [] st (Forall_nil _) H) as Hall.
  rewrite Forall_forall in Hall. apply Hall, Hf.
Qed.

(* non-vacuity: a two-op history (flush at one rate, flush at another, merge copying one block
   and merging two) runs, and its filters are sized 2/1/… as computed *)
Definition ex_row (f t : string) : rowent :=
  {| re_fields := [lit f]; re_tokens := [lit t; lit t]; re_ftoks := [lit f ++ lit "::" ++ lit t] |}.

Definition ex_ops : list op :=
  [OpFlush 10 [[ex_row "a" "x"; ex_row "a" "y"]; [ex_row "b" "x"]];
   OpFlush 20 [[ex_row "a" "x"]];
   OpMerge 30 [SMerge [(0%nat, 0%nat); (1%nat, 0%nat)]; SCopy 0 1] [0%nat; 1%nat]].

Lemma ex_history_runs :
  exists f, run_ops [] ex_ops = Some [f] /\ fl_rate f = 30 /\
            map b_rate (fl_blocks f) = [30; 10] /\
            f_n (ff_token (fl_filters f)) = 2 /\ f_n (ff_field (fl_filters f)) = 2 /\ f_n (ff_ftok (fl_filters f)) = 3 /\
            map (fun b => f_n (ff_token (b_filters b))) (fl_blocks f) = [2; 1].
Proof. eexists. vm_compute. repeat split; reflexivity. Qed.
