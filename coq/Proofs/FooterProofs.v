(* Family T — ReadFileMetadata's read plan, and the files flush and merge assemble
   (Model/Footer.v). *)
From BS Require Import Lib.Bytes Lib.Wrap64 Model.Framing Model.Validate Model.FilterRegion Model.Footer
  Proofs.FramingProofs Proofs.ValidateProofs Proofs.FilterRegionProofs.
From Coq Require Import List ZArith NArith Bool Lia.
Import ListNotations.
Open Scope Z_scope.

Definition ext_in_file (fsz : Z) (e : Z * Z) : Prop := 0 <= fst e /\ 0 <= snd e /\ fst e + snd e <= fsz.

Lemma rd32_nonneg b : 0 <= rd32 b.
Proof. unfold rd32. destruct b as [|a [|b' [|c [|d t]]]]; lia. Qed.

(* metadata m describes extents inside the data area of a file of fsz bytes: the footer tail, a
   metadata payload of some length mlen and the file-level filter section sit behind it *)
Definition sz_ok_stmt (fsz : Z) (m : metaJ) : Prop :=
  exists mlen, 0 <= mlen /\ 0 <= m_ffs m /\
    meta_in m (fsz - 20 - mlen - m_ffs m) /\ 0 <= fsz - 20 - mlen - m_ffs m.

Section ReadPlan.
  Variable crc : str -> N.
  Variable dec_ok : str -> bool.
  Variable jdec : str -> option metaJ.
  (* Go ints: whatever encoding/json decodes into the framing fields is an int64 *)
  Hypothesis jdec_i64 : forall s m, jdec s = Some m -> meta_i64 m.

  (* C19: every read ReadFileMetadata plans lies inside the file (so no request exceeds the
     file's size), whatever the bytes are; metadata it returns has every extent inside the
     data area in front of the footer, computed without overflow *)
  Lemma read_metadata_safe file : lenZ file <= Max64 ->
    Forall (ext_in_file (lenZ file)) (fst (read_metadata crc dec_ok jdec file)) /\
    forall m sz ff, snd (read_metadata crc dec_ok jdec file) = Some (m, sz, ff) ->
      sz = lenZ file /\ sz_ok_stmt (lenZ file) m.
  Proof.
    intro Hsz. pose proof (lenZ_nonneg file) as Hnn.
    unfold read_metadata, FooterTail.
    destruct (Z.ltb_spec (lenZ file) 20) as [L|G]; [cbn [fst snd]; split; [constructor|discriminate]|].
    remember (slice file (lenZ file - 20) 20) as footer eqn:Efooter.
    assert (R1 : ext_in_file (lenZ file) (lenZ file - 20, 20)) by (unfold ext_in_file; cbn [fst snd]; lia).
    destruct (str_eqb (skipn 12 footer) magic); cbn [negb];
      [|cbn [fst snd]; split; [constructor; [exact R1|constructor]|discriminate]].
    pose proof (rd32_nonneg (skipn 4 footer)) as Hml.
    remember (rd32 (skipn 4 footer)) as mlen eqn:Emlen.
    remember (lenZ file - 20 - mlen) as moff eqn:Emoff.
    destruct (Z.ltb_spec moff 0) as [L1|G1];
      [cbn [fst snd]; split; [constructor; [exact R1|constructor]|discriminate]|].
    assert (R2 : ext_in_file (lenZ file) (moff, mlen)) by (unfold ext_in_file; cbn [fst snd]; lia).
    assert (L2 : Forall (ext_in_file (lenZ file)) [(lenZ file - 20, 20); (moff, mlen)])
      by (constructor; [exact R1|constructor; [exact R2|constructor]]).
    destruct (rd32 (skipn 8 footer) =? FileVersion); cbn [negb]; [|cbn [fst snd]; split; [exact L2|discriminate]].
    destruct (Z.of_N (crc (slice file moff mlen)) =? rd32 footer); cbn [negb]; [|cbn [fst snd]; split; [exact L2|discriminate]].
    destruct (jdec (slice file moff mlen)) as [m|] eqn:J; [|cbn [fst snd]; split; [exact L2|discriminate]].
    pose proof (jdec_i64 _ _ J) as Im.
    destruct (Z.ltb_spec (m_ffs m) 0) as [L3|G3]; cbn [orb]; [cbn [fst snd]; split; [exact L2|discriminate]|].
    destruct (Z.gtb_spec (m_ffs m) moff) as [L4|G4]; [cbn [fst snd]; split; [exact L2|discriminate]|].
    assert (Esub : sub64 moff (m_ffs m) = moff - m_ffs m) by (apply sub64_small; unfold i64, Min64, Max64 in *; lia).
    rewrite !Esub.
    destruct (validate m (moff - m_ffs m)) eqn:V; cbn [negb]; [|cbn [fst snd]; split; [exact L2|discriminate]].
    assert (Hin : meta_in m (moff - m_ffs m)).
    { apply validate_bounds; auto. unfold i64, Min64, Max64 in *; lia. }
    assert (R3 : ext_in_file (lenZ file) (moff - m_ffs m, m_ffs m)) by (unfold ext_in_file; cbn [fst snd]; lia).
    assert (L3' : Forall (ext_in_file (lenZ file)) [(lenZ file - 20, 20); (moff, mlen); (moff - m_ffs m, m_ffs m)])
      by (constructor; [exact R1|constructor; [exact R2|constructor; [exact R3|constructor]]]).
    assert (Hres : sz_ok_stmt (lenZ file) m).
    { exists mlen. rewrite Emoff in Hin, G4. split; [exact Hml|]. split; [exact G3|]. split; [exact Hin|]. lia. }
    destruct (Z.gtb_spec (m_ffs m) 0) as [P|Z0].
    - destruct (parse_section crc dec_ok (slice file (moff - m_ffs m) (m_ffs m))) as [ff|]; cbn [fst snd].
      + split; [exact L3'|]. intros m' sz ff' Q; inversion Q; subst. split; [reflexivity|exact Hres].
      + split; [exact L3'|discriminate].
    - cbn [fst snd]. split; [exact L2|]. intros m' sz ff' Q; inversion Q; subst. split; [reflexivity|exact Hres].
  Qed.

  (* the per-block helpers, given metadata ReadFileMetadata returned, read (and allocate) only inside the file *)
  Lemma accepted_blocks_in_file file m sz ff b : lenZ file <= Max64 ->
    snd (read_metadata crc dec_ok jdec file) = Some (m, sz, ff) -> In b (m_blocks m) ->
    ext_in_file (lenZ file) (rdo b, rds b) /\ 0 <= bfs b /\ (bfs b = 0 \/ ext_in_file (lenZ file) (bfo b, bfs b)).
  Proof.
    intros Hsz H Hb. destruct (read_metadata_safe file Hsz) as [_ S].
    destruct (S m sz ff H) as (_ & mlen & Hml & Hffs & (Hr & Hs & Hlim & Hblocks) & Hpos).
    rewrite Forall_forall in Hblocks. destruct (Hblocks b Hb) as (H1 & H2 & H3 & H4 & H5).
    unfold ext_in_file, FooterTail in *. cbn [fst snd]. repeat split; try lia.
  Qed.
End ReadPlan.

(* ---- slicing concatenations ---- *)
Lemma slice_mid (a b c : str) : slice (a ++ b ++ c) (lenZ a) (lenZ b) = b.
Proof.
  unfold slice. rewrite !to_nat_lenZ, skipn_app_exact by reflexivity. now apply firstn_app_exact.
Qed.

Lemma slice_skip (a b : str) off n : 0 <= off -> slice (a ++ b) (lenZ a + off) n = slice b off n.
Proof.
  intro H. unfold slice. f_equal.
  replace (Z.to_nat (lenZ a + off)) with (length a + Z.to_nat off)%nat by (unfold lenZ; lia).
  rewrite skipn_app. rewrite skipn_all2 by lia. cbn [app].
  f_equal. lia.
Qed.

Lemma slice_end (a b : str) : slice (a ++ b) (lenZ a) (lenZ b) = b.
Proof. rewrite <- (app_nil_r b) at 1. apply slice_mid. Qed.

Lemma lenZ_concat_nonneg {A} (f : A -> str) l : 0 <= lenZ (concat (map f l)).
Proof. apply lenZ_nonneg. Qed.

(* ---- the write side in closed form ---- *)
Section WriteProofs.
  Variable crc : str -> N.
  Variable dec_ok : str -> bool.
  Variable decompress : comp -> str -> option str.
  Variable jdec : str -> option metaJ.
  Variable jenc : metaJ -> str.
  Variable compress : comp -> str -> str.
  Variable filters_of : list str -> filters.
  Variable entries : str -> entry3.
  Hypothesis crc_range : forall s, (crc s < 4294967296)%N.

  Notation bdesc := Footer.bdesc.

  Definition mkblock (off rel : Z) (d : bdesc) : blockJ :=
    {| rdo := off; rds := d_rds d; bfo := rel; bfs := lenZ (d_sec d);
       b_rows := d_rows d; b_usize := d_usize d; b_comp := d_comp d;
       b_hash := d_hash d; b_has_hash := d_has_hash d; b_cnt := d_cnt d |}.

  Fixpoint blocks_of (off rel : Z) (ds : list bdesc) : list blockJ :=
    match ds with
    | [] => []
    | d :: t => mkblock off rel d :: blocks_of (off + d_rds d) (rel + lenZ (d_sec d)) t
    end.

  Definition datas (ds : list bdesc) : str := concat (map (@d_c) ds).
  Definition secs (ds : list bdesc) : str := concat (map (@d_sec) ds).
  Definition desc_wf (d : bdesc) : Prop := d_rds d = lenZ (d_c d).

  Lemma fold_emit ds : forall st,
    fold_left emit ds st =
    {| ws_off := ws_off st + fold_right (fun d a => d_rds d + a) 0 ds;
       ws_data := ws_data st ++ datas ds;
       ws_region := ws_region st ++ secs ds;
       ws_blocks := ws_blocks st ++ blocks_of (ws_off st) (lenZ (ws_region st)) ds |}.
  Proof.
    induction ds as [|d t IH]; intro st; cbn [fold_left fold_right datas secs map concat blocks_of].
    - destruct st; cbn. rewrite Z.add_0_r, !app_nil_r. reflexivity.
    - rewrite IH. unfold emit, region_add. cbn [ws_off ws_data ws_region ws_blocks].
      unfold datas, secs. rewrite lenZ_app, <- !app_assoc. cbn [app]. f_equal. lia.
  Qed.

  Lemma sum_rds_datas ds : Forall desc_wf ds -> fold_right (fun d a => d_rds d + a) 0 ds = lenZ (datas ds).
  Proof.
    induction 1 as [|d t Hd Ht IH]; cbn [fold_right datas map concat]; [reflexivity|].
    rewrite lenZ_app. unfold datas in IH. rewrite IH, Hd. reflexivity.
  Qed.

  (* per block: where it sits and that the bytes there are its bytes; Pd / Pr are whatever precedes *)
  Definition placed (dfile rfile : str) (d : bdesc) (b : blockJ) : Prop :=
    slice dfile (rdo b) (rds b) = d_c d /\ slice rfile (bfo b) (bfs b) = d_sec d /\
    rds b = lenZ (d_c d) /\ bfs b = lenZ (d_sec d) /\
    b_rows b = d_rows d /\ b_usize b = d_usize d /\ b_comp b = d_comp d /\
    b_hash b = d_hash d /\ b_has_hash b = d_has_hash d /\ b_cnt b = d_cnt d.

  Lemma blocks_placed ds : forall Pd Pr X Y, Forall desc_wf ds ->
    Forall2 (placed (Pd ++ datas ds ++ X) (Pr ++ secs ds ++ Y)) ds (blocks_of (lenZ Pd) (lenZ Pr) ds).
  Proof.
    induction ds as [|d t IH]; intros Pd Pr X Y Hwf; cbn [blocks_of]; [constructor|].
    inversion Hwf as [|? ? Hd Ht]; subst. constructor.
    - unfold placed, mkblock. cbn [rdo rds bfo bfs b_rows b_usize b_comp b_hash b_has_hash b_cnt].
      unfold datas, secs. cbn [map concat]. rewrite Hd, <- !app_assoc.
      rewrite !slice_mid. repeat split; reflexivity.
    - specialize (IH (Pd ++ d_c d) (Pr ++ d_sec d) X Y Ht).
      rewrite !lenZ_app, <- Hd in IH. unfold datas, secs in *. cbn [map concat].
      rewrite <- !app_assoc in IH. rewrite <- !app_assoc. exact IH.
  Qed.

  (* where blocks sit, as inequalities *)
  Lemma blocks_ranges ds : forall off rel, Forall desc_wf ds ->
    Forall (fun b => off <= rdo b /\ 0 <= rds b /\ rdo b + rds b <= off + lenZ (datas ds) /\
                     rel <= bfo b /\ 0 <= bfs b /\ bfo b + bfs b <= rel + lenZ (secs ds))
           (blocks_of off rel ds).
  Proof.
    induction ds as [|d t IH]; intros off rel Hwf; cbn [blocks_of]; [constructor|].
    inversion Hwf as [|? ? Hd Ht]; subst.
    pose proof (lenZ_nonneg (d_c d)). pose proof (lenZ_nonneg (d_sec d)).
    pose proof (lenZ_nonneg (datas t)). pose proof (lenZ_nonneg (secs t)).
    unfold datas, secs in *. cbn [map concat]. rewrite !lenZ_app. constructor.
    - unfold mkblock; cbn [rdo rds bfo bfs]. rewrite Hd. lia.
    - eapply Forall_impl; [|apply (IH (off + d_rds d) (rel + lenZ (d_sec d)) Ht)].
      cbn beta. intros b Hb. rewrite Hd in Hb. lia.
  Qed.

  Lemma blocks_contiguous ds : forall off rel roff, Forall desc_wf ds ->
    contiguous off (map (fun b => (rdo b, rds b)) (region_finish roff (blocks_of off rel ds))) = Some (off + lenZ (datas ds)) /\
    contiguous (rel + roff) (map (fun b => (bfo b, bfs b)) (region_finish roff (blocks_of off rel ds))) = Some (rel + roff + lenZ (secs ds)).
  Proof.
    unfold region_finish, rebase, set_loc.
    induction ds as [|d t IH]; intros off rel roff Hwf; cbn [blocks_of map contiguous].
    - unfold datas, secs. cbn. rewrite !Z.add_0_r. auto.
    - inversion Hwf as [|? ? Hd Ht]; subst.
      unfold mkblock. cbn [rdo rds bfo bfs].
      pose proof (lenZ_nonneg (d_c d)). pose proof (lenZ_nonneg (d_sec d)).
      rewrite !Z.eqb_refl. cbn [andb].
      replace (0 <=? d_rds d) with true by (symmetry; apply Z.leb_le; rewrite Hd; lia).
      replace (0 <=? lenZ (d_sec d)) with true by (symmetry; apply Z.leb_le; lia).
      destruct (IH (off + d_rds d) (rel + lenZ (d_sec d)) roff Ht) as [I1 I2].
      unfold datas, secs in *. cbn [map concat]. rewrite !lenZ_app. split.
      + rewrite I1. f_equal. rewrite Hd. lia.
      + replace (rel + roff + lenZ (d_sec d)) with (rel + lenZ (d_sec d) + roff) by lia.
        rewrite I2. f_equal. lia.
  Qed.

  (* ---- reading back what was assembled ---- *)

  Lemma tail_skip12 a b c (t : str) : skipn 12 (le32 a ++ le32 b ++ le32 c ++ t) = t.
  Proof. reflexivity. Qed.
  Lemma tail_skip8 a b c (t : str) : skipn 8 (le32 a ++ le32 b ++ le32 c ++ t) = le32 c ++ t.
  Proof. reflexivity. Qed.
  Lemma tail_skip4 a b c (t : str) : skipn 4 (le32 a ++ le32 b ++ le32 c ++ t) = le32 b ++ le32 c ++ t.
  Proof. reflexivity. Qed.
  Lemma tail_len a b c : lenZ (le32 a ++ le32 b ++ le32 c ++ magic) = 20.
  Proof. reflexivity. Qed.

  Definition the_meta (ds : list bdesc) (fsec : str) (fcnt : Z * Z * Z) : metaJ :=
    {| m_roff := lenZ (datas ds); m_rsize := lenZ (secs ds); m_ffs := lenZ fsec; m_cnt := fcnt;
       m_blocks := region_finish (lenZ (datas ds)) (blocks_of 0 0 ds) |}.
  Definition the_file (ds : list bdesc) (fsec : str) (m : metaJ) : str :=
    datas ds ++ secs ds ++ footer_bytes crc jenc fsec m.

  Lemma assemble_closed ds fsec fcnt : Forall desc_wf ds ->
    let st := fold_left (emit) ds ws_init in
    final_meta st fsec fcnt = the_meta ds fsec fcnt /\
    ws_data st ++ ws_region st ++ footer_bytes crc jenc fsec (final_meta st fsec fcnt) = the_file ds fsec (the_meta ds fsec fcnt).
  Proof.
    intro Hwf. cbn zeta. rewrite fold_emit. unfold final_meta, the_meta, the_file, ws_init.
    cbn [ws_off ws_data ws_region ws_blocks app]. rewrite sum_rds_datas by exact Hwf.
    rewrite !Z.add_0_l. change (lenZ []) with 0. split; reflexivity.
  Qed.

  Lemma finish_block_in ds : Forall desc_wf ds ->
    Forall (block_in (lenZ (datas ds)) (lenZ (datas ds) + lenZ (secs ds)))
           (region_finish (lenZ (datas ds)) (blocks_of 0 0 ds)).
  Proof.
    intro Hwf. pose proof (blocks_ranges ds 0 0 Hwf) as R.
    unfold region_finish. rewrite Forall_map. eapply Forall_impl; [|exact R].
    cbn beta. intros b Hb. unfold block_in, section_in, rebase, set_loc. cbn [rdo rds bfo bfs].
    pose proof (lenZ_nonneg (datas ds)). repeat split; try lia.
  Qed.

  Lemma finish_block_i64 ds : Forall desc_wf ds -> lenZ (datas ds) + lenZ (secs ds) <= Max64 ->
    Forall block_i64 (region_finish (lenZ (datas ds)) (blocks_of 0 0 ds)).
  Proof.
    intros Hwf Hmax. pose proof (blocks_ranges ds 0 0 Hwf) as R.
    unfold region_finish. rewrite Forall_map. eapply Forall_impl; [|exact R].
    cbn beta. intros b Hb. unfold block_i64, rebase, set_loc, i64, Min64, Max64 in *. cbn [rdo rds bfo bfs].
    pose proof (lenZ_nonneg (datas ds)). pose proof (lenZ_nonneg (secs ds)). lia.
  Qed.

  (* C17: the assembled file parses, ReadFileMetadata returns the metadata that was written and the file's size *)
  Lemma the_file_reads ds fsec fcnt ff : Forall desc_wf ds ->
    let m := the_meta ds fsec fcnt in
    let file := the_file ds fsec m in
    lenZ file <= Max64 -> lenZ (jenc m) < 4294967296 -> jdec (jenc m) = Some m ->
    (0 < lenZ fsec -> parse_section crc dec_ok fsec = Some ff) -> (lenZ fsec = 0 -> ff = (None, None, None)) ->
    snd (read_metadata crc dec_ok jdec file) = Some (m, lenZ file, ff).
  Proof.
    intros Hwf m file Hmax Hjs jdec_jenc Hparse Hnone.
    set (D := datas ds) in *. set (Rg := secs ds) in *. set (mb := jenc m) in *.
    set (T := le32 (Z.of_N (crc mb)) ++ le32 (lenZ mb) ++ le32 FileVersion ++ magic).
    assert (Ef : file = D ++ Rg ++ fsec ++ mb ++ T).
    { subst file. unfold the_file, footer_bytes. fold D Rg mb. subst T. repeat rewrite <- app_assoc. reflexivity. }
    assert (HT : lenZ T = 20) by apply tail_len.
    pose proof (lenZ_nonneg D) as HD. pose proof (lenZ_nonneg Rg) as HR.
    pose proof (lenZ_nonneg fsec) as HF. pose proof (lenZ_nonneg mb) as HM.
    assert (Hlen : lenZ file = lenZ D + lenZ Rg + lenZ fsec + lenZ mb + 20) by (rewrite Ef, !lenZ_app, HT; lia).
    unfold read_metadata, FooterTail.
    replace (lenZ file <? 20) with false by (symmetry; apply Z.ltb_ge; lia).
    assert (Efoot : slice file (lenZ file - 20) 20 = T).
    { rewrite Ef. replace (D ++ Rg ++ fsec ++ mb ++ T) with ((D ++ Rg ++ fsec ++ mb) ++ T) by (repeat rewrite <- app_assoc; reflexivity).
      replace (lenZ ((D ++ Rg ++ fsec ++ mb) ++ T) - 20) with (lenZ (D ++ Rg ++ fsec ++ mb)) by (rewrite !lenZ_app, HT; lia).
      rewrite <- HT. apply slice_end. }
    cbv zeta. rewrite Efoot.
    assert (E12 : skipn 12 T = magic) by apply tail_skip12.
    assert (E8 : rd32 (skipn 8 T) = FileVersion) by (unfold T; rewrite tail_skip8; apply rd32_le32; unfold FileVersion; lia).
    assert (E4 : rd32 (skipn 4 T) = lenZ mb) by (unfold T; rewrite tail_skip4; apply rd32_le32; lia).
    assert (E0 : rd32 T = Z.of_N (crc mb)) by (unfold T; apply rd32_le32; pose proof (crc_range mb); lia).
    rewrite E12, E8, E4, E0, str_eqb_refl. cbn [negb].
    replace (lenZ file - 20 - lenZ mb <? 0) with false by (symmetry; apply Z.ltb_ge; lia).
    rewrite Z.eqb_refl. cbn [negb].
    assert (Emb : slice file (lenZ file - 20 - lenZ mb) (lenZ mb) = mb).
    { rewrite Ef. replace (D ++ Rg ++ fsec ++ mb ++ T) with ((D ++ Rg ++ fsec) ++ mb ++ T) by (repeat rewrite <- app_assoc; reflexivity).
      replace (lenZ ((D ++ Rg ++ fsec) ++ mb ++ T) - 20 - lenZ mb) with (lenZ (D ++ Rg ++ fsec)) by (rewrite !lenZ_app, HT; lia).
      apply slice_mid. }
    rewrite Emb, Z.eqb_refl. cbn [negb]. rewrite jdec_jenc.
    change (m_ffs m) with (lenZ fsec).
    replace (lenZ fsec <? 0) with false by (symmetry; apply Z.ltb_ge; lia).
    replace (lenZ fsec >? lenZ file - 20 - lenZ mb) with false by (symmetry; rewrite Z.gtb_ltb; apply Z.ltb_ge; lia).
    cbn [orb].
    assert (Esub : sub64 (lenZ file - 20 - lenZ mb) (lenZ fsec) = lenZ D + lenZ Rg)
      by (rewrite sub64_small by (unfold i64, Min64, Max64 in *; lia); lia).
    rewrite !Esub.
    assert (V : validate m (lenZ D + lenZ Rg) = true).
    { apply validate_spec.
      - unfold meta_i64, m, the_meta. cbn [m_roff m_rsize m_ffs m_blocks]. fold D Rg.
        repeat split; try (unfold i64, Min64, Max64 in *; lia).
        apply finish_block_i64; [exact Hwf|fold D Rg; lia].
      - unfold i64, Min64, Max64 in *; lia.
      - unfold meta_in, m, the_meta. cbn [m_roff m_rsize m_blocks]. fold D Rg.
        repeat split; try lia. apply finish_block_in. exact Hwf. }
    rewrite V. cbn [negb].
    destruct (Z.gtb_spec (lenZ fsec) 0) as [P|Z0].
    - assert (Esec : slice file (lenZ D + lenZ Rg) (lenZ fsec) = fsec).
      { rewrite Ef. replace (D ++ Rg ++ fsec ++ mb ++ T) with ((D ++ Rg) ++ fsec ++ mb ++ T) by (repeat rewrite <- app_assoc; reflexivity).
        rewrite <- lenZ_app. apply slice_mid. }
      rewrite Esec, (Hparse P). reflexivity.
    - cbn [snd]. rewrite (Hnone ltac:(lia)). reflexivity.
  Qed.

  (* C17: row data contiguous from offset 0, the region right behind it with the sections in block
     order, then the file-level section, the metadata payload and the 20-byte tail *)
  Lemma the_file_layout ds fsec fcnt : Forall desc_wf ds ->
    let m := the_meta ds fsec fcnt in
    layout_ok (lenZ (the_file ds fsec m)) (lenZ (jenc m)) m = true.
  Proof.
    intros Hwf m. unfold layout_ok.
    destruct (blocks_contiguous ds 0 0 (lenZ (datas ds)) Hwf) as [C1 C2].
    unfold m at 1 2 3 4 5 6 7, the_meta. cbn [m_blocks m_roff m_rsize m_ffs].
    rewrite C1. rewrite Z.add_0_l, Z.eqb_refl. cbn [andb].
    rewrite Z.add_0_l in C2. rewrite C2, Z.eqb_refl. cbn [andb].
    apply Z.eqb_eq. unfold the_file, footer_bytes, FooterTail.
    rewrite !lenZ_app. change (lenZ magic) with 8. rewrite !lenZ_le32. fold m. lia.
  Qed.
End WriteProofs.

(* ---- every block of an assembled file is described truthfully ---- *)
Section Truthful.
  Variable crc : str -> N.
  Variable dec_ok : str -> bool.
  Variable decompress : comp -> str -> option str.
  Variable jdec : str -> option metaJ.
  Variable jenc : metaJ -> str.
  Variable compress : comp -> str -> str.
  Variable filters_of : list str -> filters.
  Variable entries : str -> entry3.
  Hypothesis crc_range : forall s, (crc s < 4294967296)%N.
  Hypothesis compress_none : forall x, compress CNone x = x.
  Hypothesis decompress_compress : forall k x, k <> CNone -> k <> COther -> decompress k (compress k x) = Some x.

  Notation bdesc := Footer.bdesc.

  (* what the bytes c (row data) and sec (filter section) of a block are, independent of where they sit *)
  Definition content_ok (b : blockJ) (c sec : str) (rows : list str) (fs : filters) (cnt : Z * Z * Z) : Prop :=
    (b_has_hash b = true -> crc c = b_hash b) /\
    decode_block crc decompress b c = Some (frame rows) /\
    b_rows b = Z.of_nat (length rows) /\ b_usize b = lenZ (frame rows) /\ b_cnt b = cnt /\
    encode_section crc fs = Some sec /\ filters_ok dec_ok fs.

  Lemma cnt_eqb_refl c : cnt_eqb c c = true.
  Proof. destruct c as [[a b] d]. cbn. now rewrite !Z.eqb_refl. Qed.

  Lemma read_at_in file off n : 0 <= off -> 0 <= n -> off + n <= lenZ file -> read_at file off n = Some (slice file off n).
  Proof.
    intros. unfold read_at.
    replace (off <? 0) with false by (symmetry; apply Z.ltb_ge; lia).
    replace (n <? 0) with false by (symmetry; apply Z.ltb_ge; lia). cbn [orb].
    replace (lenZ file <? off + n) with false by (symmetry; apply Z.ltb_ge; lia).
    now rewrite andb_false_r.
  Qed.

  Lemma encode_section_len fs s : encode_section crc fs = Some s -> 5 <= lenZ s.
  Proof.
    destruct fs as [[f1 f2] f3]. unfold encode_section.
    destruct (filter_fits f1 && filter_fits f2 && filter_fits f3); [|discriminate].
    intro H; inversion H; subst. rewrite lenZ_cons, lenZ_app, lenZ_le32.
    pose proof (lenZ_nonneg (enc_filter f1 ++ enc_filter f2 ++ enc_filter f3)). lia.
  Qed.

  (* C17: a block whose bytes are in the file at its recorded extents is described truthfully, and
     the public helpers return exactly its rows and filters *)
  Lemma describes_of file b c sec rows fs cnt :
    0 <= rdo b -> 0 <= rds b -> rdo b + rds b <= lenZ file -> slice file (rdo b) (rds b) = c ->
    0 <= bfo b -> bfs b = lenZ sec -> bfo b + bfs b <= lenZ file -> slice file (bfo b) (bfs b) = sec ->
    content_ok b c sec rows fs cnt ->
    describes crc dec_ok decompress file b rows fs cnt = true /\
    read_filters crc dec_ok file b = Some fs /\
    (Forall small_row rows -> read_rows crc decompress file b = Some rows).
  Proof.
    intros H1 H2 H3 Ec H4 H5 H6 Es (Hh & Hd & Hr & Hu & Hc & He & Hok).
    pose proof (encode_section_len _ _ He) as Hlen.
    assert (Rc : read_at file (rdo b) (rds b) = Some c) by (rewrite read_at_in by lia; now rewrite Ec).
    assert (Rs : read_at file (bfo b) (bfs b) = Some sec) by (rewrite read_at_in by lia; now rewrite Es).
    destruct (parse_encode crc dec_ok crc_range fs Hok) as (s & E1 & E2).
    rewrite He in E1. inversion E1; subst s. clear E1.
    assert (RF : read_filters crc dec_ok file b = Some fs).
    { unfold read_filters.
      replace (bfs b <? 0) with false by (symmetry; apply Z.ltb_ge; lia).
      replace (bfo b <? 0) with false by (symmetry; apply Z.ltb_ge; lia). cbn [orb].
      replace (bfs b =? 0) with false by (symmetry; apply Z.eqb_neq; lia).
      now rewrite Rs. }
    split; [|split; [exact RF|]].
    - unfold describes. rewrite Rc, Hd, RF, He.
      rewrite Hc, !str_eqb_refl, cnt_eqb_refl. rewrite Hr, Hu, H5, !Z.eqb_refl. cbn [andb].
      destruct (b_has_hash b) eqn:Eh; cbn [negb orb]; [|reflexivity].
      rewrite (Hh eq_refl), N.eqb_refl. reflexivity.
    - intro Hsm. unfold read_rows, read_block.
      replace (rdo b <? 0) with false by (symmetry; apply Z.ltb_ge; lia).
      replace (rds b <? 0) with false by (symmetry; apply Z.ltb_ge; lia). cbn [orb].
      rewrite Rc, Hd, (scan_frame rows Hsm). reflexivity.
  Qed.

  (* what must hold of the inputs of one output block *)
  Definition action_ok (cfg : comp) (a : waction) : Prop :=
    match a with
    | WBuild rows => filters_ok dec_ok (filters_of rows)
    | WCopy src c sec rows =>
        (* copyDataBlock read exactly RowDataSize bytes, and the source block described them truthfully *)
        lenZ c = rds src /\ exists fs, content_ok src c sec rows fs (counts_of entries rows)
    end.

  Definition action_filters (a : waction) (fs : filters) : Prop :=
    match a with
    | WBuild rows => fs = filters_of rows
    | WCopy src c sec rows => content_ok src c sec rows fs (counts_of entries rows)
    end.

  Lemma desc_of_wf cfg a : action_ok cfg a -> desc_wf (desc_of crc compress filters_of entries cfg a).
  Proof. destruct a; cbn; unfold desc_wf; cbn; [reflexivity|intros [H _]; now rewrite H]. Qed.

  (* C03: what a block stores decodes back to the framed rows, and scanning yields exactly the rows marshaled *)
  Lemma store_roundtrip cfg rows off rel : cfg <> COther -> Forall small_row rows ->
    let d := built_desc crc compress filters_of entries cfg rows in
    decode_block crc decompress (mkblock off rel d) (d_c d) = Some (frame rows) /\ scan (frame rows) = (rows, true).
  Proof.
    intros Hcfg Hsm d. split; [|now apply scan_frame].
    unfold d, built_desc, mkblock, decode_block.
    cbn [b_has_hash b_hash b_comp b_usize d_c d_usize d_comp d_hash d_has_hash].
    rewrite N.eqb_refl. cbn [negb andb].
    pose proof (lenZ_nonneg (frame rows)).
    destruct cfg; try congruence; rewrite acc_usize_frame;
      replace (lenZ (frame rows) <? 0) with false by (symmetry; apply Z.ltb_ge; lia);
      rewrite decompress_compress by discriminate; now rewrite Z.eqb_refl.
  Qed.

  Lemma built_content cfg rows off rel : cfg <> COther -> filters_ok dec_ok (filters_of rows) ->
    let d := built_desc crc compress filters_of entries cfg rows in
    content_ok (mkblock off rel d) (d_c d) (d_sec d) rows (filters_of rows) (counts_of entries rows).
  Proof.
    intros Hcfg Hok d. unfold content_ok, mkblock, d, built_desc.
    cbn [b_has_hash b_hash b_rows b_usize b_cnt b_comp d_c d_sec d_rows d_usize d_comp d_hash d_has_hash d_cnt rds rdo bfo bfs].
    split; [reflexivity|]. split.
    - unfold decode_block. cbn [b_has_hash b_hash b_comp b_usize]. rewrite N.eqb_refl. cbn [negb andb].
      destruct cfg; try congruence.
      + pose proof (lenZ_nonneg (frame rows)). rewrite acc_usize_frame.
        replace (lenZ (frame rows) <? 0) with false by (symmetry; apply Z.ltb_ge; lia).
        rewrite decompress_compress by discriminate. now rewrite Z.eqb_refl.
      + pose proof (lenZ_nonneg (frame rows)). rewrite acc_usize_frame.
        replace (lenZ (frame rows) <? 0) with false by (symmetry; apply Z.ltb_ge; lia).
        rewrite decompress_compress by discriminate. now rewrite Z.eqb_refl.
    - split; [apply acc_rows_length|]. split; [apply acc_usize_frame|]. split; [reflexivity|].
      split; [|exact Hok]. unfold section_of.
      destruct (parse_encode crc dec_ok crc_range _ Hok) as (s & E & _). now rewrite E.
  Qed.

  Lemma copied_content src c sec rows fs cnt off rel :
    content_ok src c sec rows fs cnt ->
    content_ok (mkblock off rel (copied_desc src c sec)) c sec rows fs cnt.
  Proof. unfold content_ok, mkblock, copied_desc, decode_block. cbn. auto. Qed.

  Lemma Forall2_and_r {A B} (P : A -> B -> Prop) (Q : B -> Prop) l1 l2 :
    Forall2 P l1 l2 -> Forall Q l2 -> Forall2 (fun a b => P a b /\ Q b) l1 l2.
  Proof. induction 1; intro HQ; inversion HQ; subst; constructor; auto. Qed.

  Lemma Forall2_map_left {A B C} (P : B -> C -> Prop) (f : A -> B) l l' :
    Forall2 P (map f l) l' -> Forall2 (fun a c => P (f a) c) l l'.
  Proof. revert l'; induction l; intros l' H; inversion H; subst; constructor; auto. Qed.

  Lemma Forall2_map_right {A B C} (P : A -> C -> Prop) (f : B -> C) l l' :
    Forall2 (fun a b => P a (f b)) l l' -> Forall2 P l (map f l').
  Proof. induction 1; cbn; constructor; auto. Qed.

  Lemma Forall2_weaken {A B} (P Q : A -> B -> Prop) l l' :
    (forall a b, In a l -> P a b -> Q a b) -> Forall2 P l l' -> Forall2 Q l l'.
  Proof.
    intros H F. induction F; constructor.
    - apply H; [now left|assumption].
    - apply IHF. intros a b Ha. apply H. now right.
  Qed.

  (* where every block of the assembled file sits, and that its bytes are there *)
  Definition in_file (file : str) (d : bdesc) (b : blockJ) : Prop :=
    0 <= rdo b /\ 0 <= rds b /\ rdo b + rds b <= lenZ file /\ slice file (rdo b) (rds b) = d_c d /\
    0 <= bfo b /\ bfs b = lenZ (d_sec d) /\ bfo b + bfs b <= lenZ file /\ slice file (bfo b) (bfs b) = d_sec d /\
    b_rows b = d_rows d /\ b_usize b = d_usize d /\ b_comp b = d_comp d /\
    b_hash b = d_hash d /\ b_has_hash b = d_has_hash d /\ b_cnt b = d_cnt d.

  Lemma blocks_in_file ds fsec fcnt : Forall desc_wf ds ->
    let m := the_meta ds fsec fcnt in
    Forall2 (in_file (the_file crc jenc ds fsec m)) ds (m_blocks m).
  Proof.
    intros Hwf m. change (m_blocks m) with (region_finish (lenZ (datas ds)) (blocks_of 0 0 ds)). subst m. unfold region_finish.
    set (F := footer_bytes crc jenc fsec (the_meta ds fsec fcnt)).
    pose proof (blocks_placed ds [] [] (secs ds ++ F) F Hwf) as Hpl.
    pose proof (blocks_ranges ds 0 0 Hwf) as Hrg.
    cbn [app] in Hpl. change (lenZ []) with 0 in Hpl.
    apply Forall2_map_right.
    eapply Forall2_weaken; [|exact (Forall2_and_r _ _ _ _ Hpl Hrg)].
    cbn beta. intros d b _ [(Sc & Ss & Erds & Ebfs & Er & Eu & Ecomp & Eh & Ehh & Ecnt) (R1 & R2 & R3 & R4 & R5 & R6)].
    unfold in_file, rebase, set_loc, the_file. fold F. cbn [rdo rds bfo bfs b_rows b_usize b_comp b_hash b_has_hash b_cnt].
    pose proof (lenZ_nonneg (datas ds)). pose proof (lenZ_nonneg (secs ds)). pose proof (lenZ_nonneg F).
    rewrite !lenZ_app.
    repeat split; try lia; try assumption.
    replace (bfo b + lenZ (datas ds)) with (lenZ (datas ds) + bfo b) by lia.
    rewrite slice_skip by lia. exact Ss.
  Qed.

  (* C17: for flush (every block built from a partition buffer) and for merge (blocks rebuilt by
     mergeDataBlocks, blocks copied verbatim by copyDataBlock with rebased offsets) alike *)
  Lemma write_file_truthful cfg acts : cfg <> COther -> Forall (action_ok cfg) acts ->
    let all := flat_map rows_of_action acts in
    let file := fst (write_file crc jenc compress filters_of entries cfg acts) in
    let m := snd (write_file crc jenc compress filters_of entries cfg acts) in
    filters_ok dec_ok (filters_of all) -> lenZ file <= Max64 -> lenZ (jenc m) < 4294967296 -> jdec (jenc m) = Some m ->
    snd (read_metadata crc dec_ok jdec file) = Some (m, lenZ file, filters_of all) /\
    layout_ok (lenZ file) (lenZ (jenc m)) m = true /\
    m_cnt m = counts_of entries all /\
    Forall2 (fun a b => exists fs, action_filters a fs /\
               describes crc dec_ok decompress file b (rows_of_action a) fs (counts_of entries (rows_of_action a)) = true /\
               read_filters crc dec_ok file b = Some fs /\
               (Forall small_row (rows_of_action a) -> read_rows crc decompress file b = Some (rows_of_action a)) /\
               (match a with WBuild _ => b_has_hash b = true /\ b_comp b = cfg | WCopy _ _ _ _ => True end))
            acts (m_blocks m).
  Proof.
    intros Hcfg Hacts all file m Hfok Hmax Hjs Hjd.
    set (ds := map (desc_of crc compress filters_of entries cfg) acts).
    assert (Hwf : Forall desc_wf ds).
    { subst ds. rewrite Forall_map. eapply Forall_impl; [|exact Hacts]. intros a Ha. now apply (desc_of_wf cfg). }
    set (fsec := section_of crc filters_of all).
    set (fcnt := counts_of entries all).
    assert (Hfold : forall st, fold_left (fun st a => emit st (desc_of crc compress filters_of entries cfg a)) acts st = fold_left emit ds st).
    { subst ds. clear. induction acts as [|a t IH]; intro st; cbn [fold_left map]; [reflexivity|]. apply IH. }
    destruct (assemble_closed crc jenc ds fsec fcnt Hwf) as [Em Ef]. cbv zeta in Em, Ef.
    assert (Efile : file = the_file crc jenc ds fsec (the_meta ds fsec fcnt)).
    { subst file. unfold write_file. cbv zeta. rewrite Hfold. cbn [fst]. exact Ef. }
    assert (Emeta : m = the_meta ds fsec fcnt).
    { subst m. unfold write_file. cbv zeta. rewrite Hfold. cbn [snd]. exact Em. }
    destruct (parse_encode crc dec_ok crc_range _ Hfok) as (s & Es & Ps).
    assert (Efsec : fsec = s) by (subst fsec; unfold section_of; now rewrite Es).
    pose proof (encode_section_len _ _ Es) as Hslen.
    rewrite Efile in *. rewrite Emeta in *. clear Efile Emeta Em Ef Hfold.
    split; [|split; [|split]].
    - apply (the_file_reads crc dec_ok decompress jdec jenc compress entries crc_range ds fsec fcnt (filters_of all) Hwf Hmax Hjs Hjd).
      + intros _. now rewrite Efsec.
      + intro Z0. rewrite Efsec in Z0. lia.
    - apply (the_file_layout crc dec_ok decompress jdec jenc compress entries crc_range ds fsec fcnt Hwf).
    - reflexivity.
    - pose proof (blocks_in_file ds fsec fcnt Hwf) as Hin. cbv zeta in Hin.
      subst ds. apply Forall2_map_left in Hin.
      eapply Forall2_weaken; [|exact Hin].
      cbn beta. intros a b Ha (P1 & P2 & P3 & P4 & P5 & P6 & P7 & P8 & Er & Eu & Ec & Eh & Ehh & Ecnt).
      rewrite Forall_forall in Hacts. specialize (Hacts a Ha).
      destruct a as [rows|src c sec rows]; cbn [rows_of_action desc_of action_ok action_filters] in *.
      + exists (filters_of rows).
        pose proof (built_content cfg rows (rdo b) (bfo b) Hcfg Hacts) as Hc. cbv zeta in Hc.
        assert (Hcb : content_ok b (d_c (built_desc crc compress filters_of entries cfg rows))
                        (d_sec (built_desc crc compress filters_of entries cfg rows)) rows (filters_of rows) (counts_of entries rows)).
        { unfold content_ok, mkblock in *. cbn [b_has_hash b_hash b_rows b_usize b_cnt] in Hc.
          unfold decode_block in *. cbn [b_has_hash b_hash b_comp b_usize] in Hc.
          rewrite Er, Eu, Ec, Eh, Ehh, Ecnt. exact Hc. }
        destruct (describes_of _ _ _ _ _ _ _ P1 P2 P3 P4 P5 P6 P7 P8 Hcb) as (D1 & D2 & D3).
        split; [reflexivity|]. split; [exact D1|]. split; [exact D2|]. split; [exact D3|].
        rewrite Ehh, Ec. split; reflexivity.
      + destruct Hacts as [Hlen [fs Hsrc]]. exists fs. split; [exact Hsrc|].
        assert (Hcb : content_ok b c sec rows fs (counts_of entries rows)).
        { unfold content_ok in *. unfold decode_block in *. cbn [copied_desc d_rows d_usize d_comp d_hash d_has_hash d_cnt] in *.
          rewrite Er, Eu, Ec, Eh, Ehh, Ecnt. exact Hsrc. }
        cbn [copied_desc d_c d_sec] in P4, P6, P8.
        destruct (describes_of _ _ _ _ _ _ _ P1 P2 P3 P4 P5 P6 P7 P8 Hcb) as (D1 & D2 & D3).
        split; [exact D1|]. split; [exact D2|]. split; [exact D3|exact I].
  Qed.
End Truthful.

(* ---- a concrete instance: the premises of write_file_truthful are satisfiable together ---- *)
Definition ex_crc (_ : str) : N := 7%N.
Definition ex_dec_ok (_ : str) : bool := true.
Definition ex_decompress (_ : comp) (x : str) : option str := Some x.
Definition ex_compress (_ : comp) (x : str) : str := x.
Definition ex_jenc (_ : metaJ) : str := [1; 2; 3]%N.
Definition ex_filters (rows : list str) : filters := (Some [9%N; N.of_nat (length rows)], None, Some []).
Definition ex_entries (r : str) : entry3 := ([r], [], [r; r]).
Definition ex_rows1 : list str := [[1; 2]; []; [3]]%N.
Definition ex_rows2 : list str := [[7]]%N.
(* a source file with one block, whose block is then copied verbatim into a second file *)
Definition ex_src := write_file ex_crc ex_jenc ex_compress ex_filters ex_entries CSnappy [WBuild ex_rows2].
Definition ex_src_block : blockJ := hd (mkblock 0 0 (built_desc ex_crc ex_compress ex_filters ex_entries CSnappy ex_rows2)) (m_blocks (snd ex_src)).
Definition ex_acts : list waction :=
  [ WBuild ex_rows1;
    WCopy ex_src_block (slice (fst ex_src) (rdo ex_src_block) (rds ex_src_block))
          (slice (fst ex_src) (bfo ex_src_block) (bfs ex_src_block)) ex_rows2 ].
Definition ex_out := write_file ex_crc ex_jenc ex_compress ex_filters ex_entries CZstd ex_acts.
Definition ex_jdec (_ : str) : option metaJ := Some (snd ex_out).

Lemma c17_example :
  (forall s, (ex_crc s < 4294967296)%N) /\ (forall x, ex_compress CNone x = x) /\
  (forall k x, k <> CNone -> k <> COther -> ex_decompress k (ex_compress k x) = Some x) /\
  Forall (action_ok ex_crc ex_dec_ok ex_decompress ex_filters ex_entries CZstd) ex_acts /\
  filters_ok ex_dec_ok (ex_filters (flat_map rows_of_action ex_acts)) /\
  lenZ (fst ex_out) <= Max64 /\ lenZ (ex_jenc (snd ex_out)) < 4294967296 /\ ex_jdec (ex_jenc (snd ex_out)) = Some (snd ex_out) /\
  snd (read_metadata ex_crc ex_dec_ok ex_jdec (fst ex_out)) = Some (snd ex_out, lenZ (fst ex_out), ex_filters (flat_map rows_of_action ex_acts)) /\
  length (m_blocks (snd ex_out)) = 2%nat.
Proof.
  split; [intro; reflexivity|]. split; [reflexivity|]. split; [reflexivity|].
  split.
  { constructor; [|constructor; [|constructor]].
    - cbn. repeat split; reflexivity.
    - cbn [action_ok]. split; [vm_compute; reflexivity|].
      exists (ex_filters ex_rows2). unfold content_ok.
      split; [intros _; vm_compute; reflexivity|].
      split; [vm_compute; reflexivity|]. split; [vm_compute; reflexivity|]. split; [vm_compute; reflexivity|].
      split; [vm_compute; reflexivity|]. split; [vm_compute; reflexivity|].
      cbn. repeat split; reflexivity. }
  split; [cbn; repeat split; reflexivity|].
  split; [vm_compute; discriminate|]. split; [vm_compute; reflexivity|]. split; [reflexivity|].
  split; vm_compute; reflexivity.
Qed.
