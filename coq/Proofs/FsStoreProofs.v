(* Lemmas and invariants for Model/FsStore.v (C16; reused by C15). *)
From BS Require Import Lib.Bytes Model.FsStore.
From Coq Require Import List NArith Bool Arith Lia.
Import ListNotations.
Open Scope nat_scope.

(* ---------------------------------------------------------------- names *)
Lemma ext_eqb_eq a b : ext_eqb a b = true <-> a = b.
Proof. destruct a, b; simpl; split; congruence. Qed.

Lemma fname_eqb_eq a b : fname_eqb a b = true <-> a = b.
Proof.
  destruct a as [x e], b as [y g]; unfold fname_eqb; simpl.
  rewrite andb_true_iff, str_eqb_eq, ext_eqb_eq. split; [intros [-> ->]; reflexivity|intro H; inversion H; auto].
Qed.

Lemma fname_eqb_refl a : fname_eqb a a = true.
Proof. apply fname_eqb_eq; reflexivity. Qed.

Lemma fname_eqb_neq a b : fname_eqb a b = false <-> a <> b.
Proof.
  split; intro H.
  - intro E. apply fname_eqb_eq in E. congruence.
  - destruct (fname_eqb a b) eqn:E; [apply fname_eqb_eq in E; contradiction|reflexivity].
Qed.

Lemma fname_dec (a b : fname) : {a = b} + {a <> b}.
Proof.
  destruct (fname_eqb a b) eqn:E; [left; apply fname_eqb_eq; exact E|right; apply fname_eqb_neq; exact E].
Qed.

(* ---------------------------------------------------------------- directory maps *)
Lemma dlookup_dremove n m d : dlookup n (dremove m d) = if fname_eqb n m then None else dlookup n d.
Proof.
  induction d as [|[k i] t IH]; simpl.
  - destruct (fname_eqb n m); reflexivity.
  - destruct (fname_eqb m k) eqn:Emk.
    + apply fname_eqb_eq in Emk; subst k. rewrite IH. destruct (fname_eqb n m); reflexivity.
    + simpl. destruct (fname_eqb n k) eqn:Enk.
      * apply fname_eqb_eq in Enk; subst k.
        destruct (fname_eqb n m) eqn:Enm; [|reflexivity].
        apply fname_eqb_eq in Enm; subst. rewrite fname_eqb_refl in Emk. discriminate.
      * exact IH.
Qed.

Lemma dlookup_dset n m i d : dlookup n (dset m i d) = if fname_eqb n m then Some i else dlookup n d.
Proof.
  unfold dset; simpl. destruct (fname_eqb n m) eqn:E; [reflexivity|].
  rewrite dlookup_dremove, E. reflexivity.
Qed.

Lemma dlookup_In n i d : dlookup n d = Some i -> In (n, i) d.
Proof.
  induction d as [|[k j] t IH]; simpl; [discriminate|].
  destruct (fname_eqb n k) eqn:E.
  - apply fname_eqb_eq in E; subst. intro H; inversion H; auto.
  - auto.
Qed.

Definition dwf (d : dirmap) : Prop := NoDup (map fst d).

Lemma In_dremove x n d : In x (dremove n d) -> In x d /\ fst x <> n.
Proof.
  induction d as [|[k j] t IH]; simpl; [tauto|].
  destruct (fname_eqb n k) eqn:E.
  - intro H. destruct (IH H). auto.
  - simpl. intros [<-|H].
    + split; [auto|]. simpl. apply fname_eqb_neq in E. congruence.
    + destruct (IH H). auto.
Qed.

Lemma dwf_dremove n d : dwf d -> dwf (dremove n d).
Proof.
  unfold dwf. induction d as [|[k j] t IH]; simpl; [auto|].
  intro H. inversion H; subst.
  destruct (fname_eqb n k); [auto|]. simpl. constructor; [|auto].
  intro Hin. apply in_map_iff in Hin as [x [Hx Hin]]. apply In_dremove in Hin as [Hin _].
  apply H2. apply in_map_iff. exists x. auto.
Qed.

Lemma dwf_dset n i d : dwf d -> dwf (dset n i d).
Proof.
  intro H. unfold dwf, dset. simpl. constructor; [|apply dwf_dremove; exact H].
  intro Hin. apply in_map_iff in Hin as [x [Hx Hin]]. apply In_dremove in Hin as [_ Hne]. congruence.
Qed.

Lemma In_dlookup n i d : dwf d -> In (n, i) d -> dlookup n d = Some i.
Proof.
  unfold dwf. induction d as [|[k j] t IH]; simpl; [tauto|].
  intros H [E|Hin].
  - inversion E; subst. rewrite fname_eqb_refl. reflexivity.
  - inversion H; subst. destruct (fname_eqb n k) eqn:E.
    + apply fname_eqb_eq in E; subst. exfalso. apply H2. apply in_map_iff. exists (k, i). auto.
    + auto.
Qed.

(* ---------------------------------------------------------------- lists with updates *)
Lemma nth_error_upd {A} (l : list A) a x a' :
  nth_error (upd a x l) a' = if a' =? a then (if a <? length l then Some x else None) else nth_error l a'.
Proof.
  revert a a'. induction l as [|y t IH]; intros [|a] [|b]; simpl; try reflexivity.
  - destruct (b =? a); reflexivity.
  - rewrite IH. destruct (b =? a); [|reflexivity].
    change (S a <? S (length t)) with (a <? length t). reflexivity.
Qed.

Lemma length_upd {A} (l : list A) a x : length (upd a x l) = length l.
Proof. revert a. induction l as [|y t IH]; intros [|a]; simpl; auto. Qed.

Lemma nth_error_upd_same {A} (l : list A) a x y : nth_error l a = Some y -> nth_error (upd a x l) a = Some x.
Proof.
  intro H. rewrite nth_error_upd, Nat.eqb_refl.
  assert (a < length l) by (apply nth_error_Some; congruence).
  apply Nat.ltb_lt in H0. rewrite H0. reflexivity.
Qed.

Lemma nth_error_upd_other {A} (l : list A) a x a' : a' <> a -> nth_error (upd a x l) a' = nth_error l a'.
Proof. intro H. rewrite nth_error_upd. apply Nat.eqb_neq in H. rewrite H. reflexivity. Qed.

Lemma nth_error_ino_upd l i g j :
  nth_error (ino_upd i g l) j = if j =? i then option_map g (nth_error l j) else nth_error l j.
Proof.
  revert i j. induction l as [|y t IH]; intros [|i] [|j]; simpl; try reflexivity.
  - destruct (j =? i); reflexivity.
  - apply IH.
Qed.

Lemma length_ino_upd l i g : length (ino_upd i g l) = length l.
Proof. revert i. induction l as [|y t IH]; intros [|i]; simpl; auto. Qed.

(* ---------------------------------------------------------------- views of the file system *)
(* what the invariants look at: directory lookups, and (data, owner) of inodes *)
Definition D (f : fsys) (n : fname) : option nat := dlookup n (f_dir f).
Definition idata (f : fsys) (i : nat) : option str := option_map i_data (nth_error (f_ino f) i).
Definition iown (f : fsys) (i : nat) : option (option nat) := option_map i_owner (nth_error (f_ino f) i).

Lemma present_D n f : present n f = match D f n with Some _ => true | None => false end.
Proof. reflexivity. Qed.

Lemma D_create n o f m : D (fs_create n o f) m = if fname_eqb m n then Some (length (f_ino f)) else D f m.
Proof. unfold D, fs_create; simpl. apply dlookup_dset. Qed.

Lemma D_unlink n f m : D (fs_unlink n f) m = if fname_eqb m n then None else D f m.
Proof.
  unfold D, fs_unlink. destruct (dlookup n (f_dir f)) eqn:E; simpl.
  - apply dlookup_dremove.
  - destruct (fname_eqb m n) eqn:Em; [|reflexivity]. apply fname_eqb_eq in Em; subst. exact E.
Qed.

Lemma D_rename a b f m : a <> b -> D f a <> None ->
  D (fs_rename a b f) m = if fname_eqb m b then D f a else if fname_eqb m a then None else D f m.
Proof.
  intros Hab Ha. unfold D in *. unfold fs_rename. destruct (dlookup a (f_dir f)) eqn:E; [|congruence].
  cbn [f_dir]. rewrite dlookup_dset, dlookup_dremove. reflexivity.
Qed.

Lemma D_append i b f m : D (fs_append i b f) m = D f m. Proof. reflexivity. Qed.
Lemma D_fsync i f m : D (fs_fsync i f) m = D f m. Proof. reflexivity. Qed.
Lemma D_dirsync f m : D (fs_dirsync f) m = D f m. Proof. reflexivity. Qed.

Lemma idata_create n o f i :
  idata (fs_create n o f) i = if i =? length (f_ino f) then Some [] else idata f i.
Proof.
  unfold idata, fs_create; simpl. destruct (i =? length (f_ino f)) eqn:E.
  - apply Nat.eqb_eq in E; subst. rewrite nth_error_app2, Nat.sub_diag by lia. reflexivity.
  - apply Nat.eqb_neq in E. destruct (lt_dec i (length (f_ino f))).
    + rewrite nth_error_app1 by lia. reflexivity.
    + rewrite (proj2 (nth_error_None _ _)) by (rewrite app_length; simpl; lia).
      rewrite (proj2 (nth_error_None _ _)) by lia. reflexivity.
Qed.

Lemma iown_create n o f i :
  iown (fs_create n o f) i = if i =? length (f_ino f) then Some o else iown f i.
Proof.
  unfold iown, fs_create; simpl. destruct (i =? length (f_ino f)) eqn:E.
  - apply Nat.eqb_eq in E; subst. rewrite nth_error_app2, Nat.sub_diag by lia. reflexivity.
  - apply Nat.eqb_neq in E. destruct (lt_dec i (length (f_ino f))).
    + rewrite nth_error_app1 by lia. reflexivity.
    + rewrite (proj2 (nth_error_None _ _)) by (rewrite app_length; simpl; lia).
      rewrite (proj2 (nth_error_None _ _)) by lia. reflexivity.
Qed.

Lemma idata_unlink n f i : idata (fs_unlink n f) i = idata f i.
Proof.
  unfold idata, fs_unlink. destruct (dlookup n (f_dir f)); [|reflexivity]. simpl.
  rewrite nth_error_ino_upd. destruct (i =? n0); [|reflexivity]. destruct (nth_error (f_ino f) i); reflexivity.
Qed.
Lemma iown_unlink n f i : iown (fs_unlink n f) i = iown f i.
Proof.
  unfold iown, fs_unlink. destruct (dlookup n (f_dir f)); [|reflexivity]. simpl.
  rewrite nth_error_ino_upd. destruct (i =? n0); [|reflexivity]. destruct (nth_error (f_ino f) i); reflexivity.
Qed.

Lemma idata_rename a b f i : idata (fs_rename a b f) i = idata f i.
Proof.
  unfold idata, fs_rename. destruct (dlookup a (f_dir f)); [|reflexivity]. simpl.
  destruct (dlookup b (f_dir f)); [|reflexivity].
  rewrite nth_error_ino_upd. destruct (i =? n0); [|reflexivity]. destruct (nth_error (f_ino f) i); reflexivity.
Qed.
Lemma iown_rename a b f i : iown (fs_rename a b f) i = iown f i.
Proof.
  unfold iown, fs_rename. destruct (dlookup a (f_dir f)); [|reflexivity]. simpl.
  destruct (dlookup b (f_dir f)); [|reflexivity].
  rewrite nth_error_ino_upd. destruct (i =? n0); [|reflexivity]. destruct (nth_error (f_ino f) i); reflexivity.
Qed.

Lemma idata_append j b f i :
  idata (fs_append j b f) i = if i =? j then option_map (fun d => d ++ b) (idata f i) else idata f i.
Proof.
  unfold idata, fs_append; simpl. rewrite nth_error_ino_upd.
  destruct (i =? j); [|reflexivity]. destruct (nth_error (f_ino f) i); reflexivity.
Qed.
Lemma iown_append j b f i : iown (fs_append j b f) i = iown f i.
Proof.
  unfold iown, fs_append; simpl. rewrite nth_error_ino_upd.
  destruct (i =? j); [|reflexivity]. destruct (nth_error (f_ino f) i); reflexivity.
Qed.
Lemma idata_fsync j f i : idata (fs_fsync j f) i = idata f i.
Proof.
  unfold idata, fs_fsync; simpl. rewrite nth_error_ino_upd.
  destruct (i =? j); [|reflexivity]. destruct (nth_error (f_ino f) i); reflexivity.
Qed.
Lemma iown_fsync j f i : iown (fs_fsync j f) i = iown f i.
Proof.
  unfold iown, fs_fsync; simpl. rewrite nth_error_ino_upd.
  destruct (i =? j); [|reflexivity]. destruct (nth_error (f_ino f) i); reflexivity.
Qed.
Lemma idata_dirsync f i : idata (fs_dirsync f) i = idata f i. Proof. reflexivity. Qed.
Lemma iown_dirsync f i : iown (fs_dirsync f) i = iown f i. Proof. reflexivity. Qed.

Lemma idata_lt f i d : idata f i = Some d -> i < length (f_ino f).
Proof. unfold idata. intro H. apply nth_error_Some. destruct (nth_error (f_ino f) i); [congruence|discriminate]. Qed.
Lemma iown_lt f i o : iown f i = Some o -> i < length (f_ino f).
Proof. unfold iown. intro H. apply nth_error_Some. destruct (nth_error (f_ino f) i); [congruence|discriminate]. Qed.

Lemma data_of_idata f i : data_of f i = match idata f i with Some d => d | None => [] end.
Proof. unfold data_of, idata. destruct (nth_error (f_ino f) i); reflexivity. Qed.

Lemma apply_rm_D r n f m :
  rres_ok r n f = true ->
  D (apply_rm r n f) m = match r with ROk => if fname_eqb m n then None else D f m | _ => D f m end.
Proof. destruct r; simpl; intros _; [apply D_unlink|reflexivity|reflexivity]. Qed.
Lemma apply_rm_idata r n f i : idata (apply_rm r n f) i = idata f i.
Proof. destruct r; simpl; [apply idata_unlink|reflexivity|reflexivity]. Qed.
Lemma apply_rm_iown r n f i : iown (apply_rm r n f) i = iown f i.
Proof. destruct r; simpl; [apply iown_unlink|reflexivity|reflexivity]. Qed.

(* ---------------------------------------------------------------- the general invariant (every run) *)
Definition W (s : state) (a : nat) : option writer := nth_error (s_ws s) a.

Definition early (p : phase) : bool :=
  match p with PDraw | PReserved | PResClosed | PUnres _ | PCreateFailed => true | _ => false end.

(* a writer that has its temp file is past CreateFile *)
Definition late (w : writer) : Prop := w_hasino w = true -> early (w_ph w) = false.

Definition same_core (w w' : writer) : Prop :=
  w_hasino w' = w_hasino w /\ w_ino w' = w_ino w /\ w_written w' = w_written w /\ w_base w' = w_base w.

Record GInv (s : state) : Prop := mkGInv {
  g_dwf : dwf (f_dir (s_fs s));
  g_res_empty : forall i, iown (s_fs s) i = Some None -> idata (s_fs s) i = Some [];
  g_w_ino : forall a w, W s a = Some w -> w_hasino w = true ->
      iown (s_fs s) (w_ino w) = Some (Some a) /\ idata (s_fs s) (w_ino w) = Some (w_written w);
  g_ino_w : forall i a, iown (s_fs s) i = Some (Some a) ->
      exists w, W s a = Some w /\ w_hasino w = true /\ w_ino w = i;
  g_dir : forall b e i, D (s_fs s) (b, e) = Some i ->
      exists o, iown (s_fs s) i = Some o /\ (forall a, o = Some a -> exists w, W s a = Some w /\ w_base w = b);
  g_late : forall a w, W s a = Some w -> late w;
  g_written0 : forall a w, W s a = Some w -> w_hasino w = false -> w_written w = []
}.

Lemma ginv_init : GInv s0.
Proof.
  constructor; unfold W, D, iown, idata; simpl; intros.
  - constructor.
  - destruct i; discriminate.
  - destruct a; discriminate.
  - destruct i; discriminate.
  - discriminate.
  - destruct a; discriminate.
  - destruct a; discriminate.
Qed.

Lemma ginv_frame s s' :
  GInv s ->
  dwf (f_dir (s_fs s')) ->
  (forall i, iown (s_fs s') i = iown (s_fs s) i) ->
  (forall i, idata (s_fs s') i = idata (s_fs s) i) ->
  (forall b e i, D (s_fs s') (b, e) = Some i -> exists e0, D (s_fs s) (b, e0) = Some i) ->
  (forall a w, W s a = Some w -> exists w', W s' a = Some w' /\ same_core w w') ->
  (forall a w', W s' a = Some w' -> exists w, W s a = Some w /\ same_core w w' /\ late w') ->
  GInv s'.
Proof.
  intros G Hwf Hown Hdata Hdir Hfw Hbw. constructor.
  - exact Hwf.
  - intros i H. rewrite Hown in H. rewrite Hdata. apply (g_res_empty _ G). exact H.
  - intros a w' Hw' Hh. destruct (Hbw _ _ Hw') as [w [Hw [[E1 [E2 [E3 E4]]] _]]].
    rewrite Hown, Hdata, E2, E3. apply (g_w_ino _ G); [exact Hw|congruence].
  - intros i a H. rewrite Hown in H. destruct (g_ino_w _ G _ _ H) as [w [Hw [Hh Hi]]].
    destruct (Hfw _ _ Hw) as [w' [Hw' [E1 [E2 [E3 E4]]]]]. exists w'. repeat split; congruence.
  - intros b e i H. destruct (Hdir _ _ _ H) as [e0 H0].
    destruct (g_dir _ G _ _ _ H0) as [o [Ho Hb]]. exists o. split; [rewrite Hown; exact Ho|].
    intros a Ea. destruct (Hb _ Ea) as [w [Hw Eb]].
    destruct (Hfw _ _ Hw) as [w' [Hw' [E1 [E2 [E3 E4]]]]]. exists w'. split; congruence.
  - intros a w' Hw'. destruct (Hbw _ _ Hw') as [w [_ [_ L]]]. exact L.
  - intros a w' Hw' Hh. destruct (Hbw _ _ Hw') as [w [Hw [[E1 [E2 [E3 E4]]] _]]].
    rewrite E3. apply (g_written0 _ G _ _ Hw). congruence.
Qed.

(* writer-list updates *)
Lemma W_set_w s a w0 w' a' : W s a = Some w0 ->
  W (set_w a w' s) a' = if a' =? a then Some w' else W s a'.
Proof.
  intro H. unfold W, set_w; simpl. rewrite nth_error_upd.
  assert (a < length (s_ws s)) by (apply nth_error_Some; unfold W in H; congruence).
  apply Nat.ltb_lt in H0. rewrite H0. reflexivity.
Qed.

Lemma W_set_fs_w s f a w0 w' a' : W s a = Some w0 ->
  W (set_fs_w f a w' s) a' = if a' =? a then Some w' else W s a'.
Proof. intro H. exact (W_set_w s a w0 w' a' H). Qed.

Lemma same_core_refl w : same_core w w.
Proof. repeat split. Qed.

Lemma clear_claim_core b e w : same_core w (clear_claim b e w) /\ w_ph (clear_claim b e w) = w_ph w.
Proof.
  unfold clear_claim. destruct (str_eqb (w_base w) b); [|split; [apply same_core_refl|reflexivity]].
  destruct e, (w_lay w); try destruct (w_cok w); split; try reflexivity; repeat split.
Qed.

Lemma late_core w w' : same_core w w' -> w_ph w' = w_ph w -> late w -> late w'.
Proof. intros [E1 _] E L H. rewrite E. apply L. congruence. Qed.

(* only the writer a changes, to w', and the file system is reshaped without touching inodes *)
Lemma ginv_upd_writer s s' a w w' :
  GInv s -> W s a = Some w ->
  dwf (f_dir (s_fs s')) ->
  (forall i, iown (s_fs s') i = iown (s_fs s) i) ->
  (forall i, idata (s_fs s') i = idata (s_fs s) i) ->
  (forall b e i, D (s_fs s') (b, e) = Some i -> exists e0, D (s_fs s) (b, e0) = Some i) ->
  (forall a', W s' a' = if a' =? a then Some w' else W s a') ->
  same_core w w' -> late w' ->
  GInv s'.
Proof.
  intros G Hw Hwf Hown Hdata Hdir HW Hc Hl.
  apply (ginv_frame s s' G Hwf Hown Hdata Hdir).
  - intros a' x Hx. rewrite HW. destruct (a' =? a) eqn:E.
    + apply Nat.eqb_eq in E; subst. exists w'. split; [reflexivity|]. congruence.
    + exists x. split; [exact Hx|apply same_core_refl].
  - intros a' x Hx. rewrite HW in Hx. destruct (a' =? a) eqn:E.
    + apply Nat.eqb_eq in E; subst. inversion Hx; subst. exists w. auto.
    + exists x. split; [exact Hx|]. split; [apply same_core_refl|apply (g_late _ G _ _ Hx)].
Qed.

(* the writer list is mapped through clear_claim (optionally with one writer then replaced) *)
Lemma W_map s (g : writer -> writer) a : nth_error (map g (s_ws s)) a = option_map g (W s a).
Proof. unfold W. apply nth_error_map. Qed.

(* ---------------------------------------------------------------- inversion of [step] *)
Lemma guardb_true b u : guardb b = Some u -> b = true.
Proof. destruct b; [reflexivity|discriminate]. Qed.

Ltac guard_split H :=
  repeat match type of H with
  | _ && _ = true => let H1 := fresh "Hg" in apply andb_true_iff in H as [H H1]; guard_split H1
  end.

(* turn [step c s l = Some s'] into the facts the branch taken establishes *)
Ltac step_inv H :=
  repeat match type of H with
  | match nth_error ?l ?a with _ => _ end = Some _ =>
      let E := fresh "Ew" in destruct (nth_error l a) eqn:E; [|discriminate H]
  | match guardb ?b with _ => _ end = Some _ =>
      let G := fresh "Hg" in destruct (guardb b) eqn:G; [apply guardb_true in G; guard_split G|discriminate H]
  | match ?x with _ => _ end = Some _ => destruct x eqn:?; try discriminate H
  | (if ?x then _ else _) = Some _ => destruct x eqn:?; try discriminate H
  end;
  try (injection H as H; subst).

(* ---------------------------------------------------------------- GInv is preserved by every step *)
Lemma ginv_set_w s a w w' : GInv s -> W s a = Some w -> same_core w w' -> late w' -> GInv (set_w a w' s).
Proof.
  intros G Hw Hc Hl. eapply (ginv_upd_writer s _ a w w' G Hw); simpl; auto.
  - apply (g_dwf _ G).
  - intros b e i H. exists e. exact H.
  - intro a'. apply (W_set_w s a w w' a' Hw).
Qed.

Ltac solve_late G Ew :=
  let L := fresh "L" in let Hh := fresh "Hh" in
  pose proof (g_late _ G _ _ Ew) as L; unfold late in *; cbn in *; intro Hh;
  try specialize (L Hh);
  match type of Ew with _ = Some ?w => destruct (w_ph w) eqn:?; cbn in *; congruence end.

Ltac t_setw G Ew :=
  repeat match goal with |- context [if ?b then _ else _] => is_var b; destruct b end;
  (eapply ginv_set_w; [exact G|exact Ew|repeat split|solve_late G Ew]).


Lemma ginv_same s s' : s_fs s' = s_fs s -> s_ws s' = s_ws s -> GInv s -> GInv s'.
Proof.
  intros Ef Ew G. destruct G. constructor; unfold W in *; rewrite ?Ef, ?Ew; auto.
Qed.

Lemma early_hasino s a w : GInv s -> W s a = Some w -> early (w_ph w) = true -> w_hasino w = false.
Proof.
  intros G Hw He. destruct (w_hasino w) eqn:E; [|reflexivity].
  pose proof (g_late _ G _ _ Hw E). congruence.
Qed.

Lemma ginv_begin s : GInv s -> GInv (mkS (s_fs s) (s_ws s ++ [w0]) (s_rd s) (s_sc s)).
Proof.
  intro G.
  assert (HW : forall a w, W (mkS (s_fs s) (s_ws s ++ [w0]) (s_rd s) (s_sc s)) a = Some w ->
                           W s a = Some w \/ w = w0).
  { unfold W; simpl. intros a w H. destruct (lt_dec a (length (s_ws s))).
    - rewrite nth_error_app1 in H by lia. auto.
    - rewrite nth_error_app2 in H by lia. destruct (a - length (s_ws s)); simpl in H; [inversion H; auto|destruct n0; discriminate]. }
  assert (HW2 : forall a w, W s a = Some w -> W (mkS (s_fs s) (s_ws s ++ [w0]) (s_rd s) (s_sc s)) a = Some w).
  { unfold W; simpl. intros a w H. rewrite nth_error_app1; [exact H|]. apply nth_error_Some. congruence. }
  constructor; simpl.
  - apply (g_dwf _ G).
  - apply (g_res_empty _ G).
  - intros a w H Hh. destruct (HW _ _ H) as [H1| ->]; [|discriminate]. apply (g_w_ino _ G _ _ H1 Hh).
  - intros i a H. destruct (g_ino_w _ G _ _ H) as [w [Hw R]]. exists w. split; [apply HW2; exact Hw|exact R].
  - intros b e i H. destruct (g_dir _ G _ _ _ H) as [o [Ho Hb]]. exists o. split; [exact Ho|].
    intros a Ea. destruct (Hb _ Ea) as [w [Hw Eb]]. exists w. split; [apply HW2; exact Hw|exact Eb].
  - intros a w H. destruct (HW _ _ H) as [H1| ->]; [apply (g_late _ G _ _ H1)|intro; discriminate].
  - intros a w H. destruct (HW _ _ H) as [H1| ->]; [apply (g_written0 _ G _ _ H1)|reflexivity].
Qed.

(* a fresh name bound to a fresh inode; writer a replaced by w' *)
Lemma ginv_create s a w w' n o :
  GInv s -> W s a = Some w -> w_hasino w = false ->
  (o = None -> same_core w w' \/ (w_hasino w' = false /\ w_written w' = w_written w)) ->
  (forall x, o = Some x -> x = a /\ w_hasino w' = true /\ w_ino w' = length (f_ino (s_fs s)) /\ w_written w' = w_written w /\ w_base w' = fst n) ->
  (o = None \/ o = Some a) ->
  late w' ->
  GInv (set_fs_w (fs_create n o (s_fs s)) a w' s).
Proof.
  intros G Hw Hno HoN HoS Ho Hl.
  set (f' := fs_create n o (s_fs s)).
  assert (HW : forall a', W (set_fs_w f' a w' s) a' = if a' =? a then Some w' else W s a')
    by (intro a'; apply (W_set_fs_w s f' a w w' a' Hw)).
  assert (Hlen : forall i oo, iown (s_fs s) i = Some oo -> (i =? length (f_ino (s_fs s))) = false).
  { intros i oo H. apply iown_lt in H. apply Nat.eqb_neq. lia. }
  constructor; cbn [s_fs set_fs_w].
  - apply dwf_dset. apply (g_dwf _ G).
  - intros i H. unfold f' in *. rewrite iown_create in H. rewrite idata_create.
    destruct (i =? length (f_ino (s_fs s))); [reflexivity|apply (g_res_empty _ G _ H)].
  - intros a' x Hx Hh. rewrite HW in Hx. unfold f'. rewrite iown_create, idata_create.
    destruct (a' =? a) eqn:Ea.
    + apply Nat.eqb_eq in Ea; subst a'. inversion Hx; subst x.
      destruct Ho as [->| ->].
      * destruct (HoN eq_refl) as [[E1 _]|[E1 _]]; congruence.
      * destruct (HoS a eq_refl) as [_ [_ [Ei [Ewr _]]]]. rewrite Ei, Nat.eqb_refl.
        split; [reflexivity|]. rewrite Ewr. rewrite (g_written0 _ G _ _ Hw Hno). reflexivity.
    + destruct (g_w_ino _ G _ _ Hx Hh) as [H1 H2]. rewrite (Hlen _ _ H1). auto.
  - intros i a0 H. unfold f' in H. rewrite iown_create in H.
    destruct (i =? length (f_ino (s_fs s))) eqn:Ei.
    + apply Nat.eqb_eq in Ei. inversion H; subst o. destruct (HoS a0 eq_refl) as [-> [E1 [E2 _]]].
      exists w'. rewrite HW, Nat.eqb_refl. repeat split; congruence.
    + destruct (g_ino_w _ G _ _ H) as [x [Hx [Hh Hi]]]. exists x. rewrite HW.
      destruct (a0 =? a) eqn:Ea; [|auto]. apply Nat.eqb_eq in Ea; subst a0. congruence.
  - intros b e i H. unfold f' in H. rewrite D_create in H. unfold f'. rewrite iown_create.
    destruct (fname_eqb (b, e) n) eqn:En.
    + inversion H; subst i. rewrite Nat.eqb_refl. exists o. split; [reflexivity|].
      intros x Ex. destruct (HoS x Ex) as [-> [_ [_ [_ Eb]]]]. exists w'. rewrite HW, Nat.eqb_refl.
      split; [reflexivity|]. apply fname_eqb_eq in En. subst n. exact Eb.
    + destruct (g_dir _ G _ _ _ H) as [oo [Hoo Hb]]. rewrite (Hlen _ _ Hoo). exists oo. split; [exact Hoo|].
      intros x Ex. destruct (Hb _ Ex) as [y [Hy Eb]]. subst oo.
      destruct (g_ino_w _ G _ _ Hoo) as [y' [Hy' [Hh _]]]. rewrite Hy in Hy'. inversion Hy'; subst y'.
      exists y. rewrite HW. destruct (x =? a) eqn:Ea; [|auto]. apply Nat.eqb_eq in Ea; subst x. congruence.
  - intros a' x Hx. rewrite HW in Hx. destruct (a' =? a); [inversion Hx; subst; exact Hl|apply (g_late _ G _ _ Hx)].
  - intros a' x Hx Hh. rewrite HW in Hx. destruct (a' =? a); [|apply (g_written0 _ G _ _ Hx Hh)].
    inversion Hx; subst x. destruct Ho as [->| ->].
    + destruct (HoN eq_refl) as [[_ [_ [E3 _]]]|[_ E3]]; rewrite E3; apply (g_written0 _ G _ _ Hw Hno).
    + destruct (HoS a eq_refl) as [_ [E1 _]]. congruence.
Qed.

Lemma ginv_reshape s f' ws' rd sc :
  GInv s -> dwf (f_dir f') ->
  (forall i, iown f' i = iown (s_fs s) i) ->
  (forall i, idata f' i = idata (s_fs s) i) ->
  (forall b e i, D f' (b, e) = Some i -> exists e0, D (s_fs s) (b, e0) = Some i) ->
  length ws' = length (s_ws s) ->
  (forall a w w', nth_error (s_ws s) a = Some w -> nth_error ws' a = Some w' -> same_core w w' /\ late w') ->
  GInv (mkS f' ws' rd sc).
Proof.
  intros G Hwf Ho Hd HD Hlen Hrel.
  apply (ginv_frame s _ G); cbn [s_fs s_ws]; auto.
  - unfold W; cbn [s_ws]. intros a w Hw.
    destruct (nth_error ws' a) as [x|] eqn:E.
    + exists x. split; [reflexivity|]. apply (Hrel _ _ _ Hw E).
    + exfalso. apply nth_error_None in E. assert (a < length (s_ws s)) by (apply nth_error_Some; congruence). lia.
  - unfold W; cbn [s_ws]. intros a w' Hw'.
    destruct (nth_error (s_ws s) a) as [x|] eqn:E.
    + exists x. split; [reflexivity|]. apply (Hrel _ _ _ E Hw').
    + exfalso. apply nth_error_None in E. assert (a < length ws') by (apply nth_error_Some; congruence). lia.
Qed.

(* writer lists produced by the steps: clear_claim everywhere, then one writer replaced *)
Lemma rel_map_upd s b e a w2 :
  (forall w, nth_error (s_ws s) a = Some w -> same_core w w2 /\ late w2) ->
  GInv s ->
  forall a' w w', nth_error (s_ws s) a' = Some w ->
    nth_error (upd a w2 (map (clear_claim b e) (s_ws s))) a' = Some w' -> same_core w w' /\ late w'.
Proof.
  intros H2 G a' w w' Hw Hw'. rewrite nth_error_upd, map_length in Hw'.
  destruct (a' =? a) eqn:Ea.
  - apply Nat.eqb_eq in Ea; subst a'.
    assert (a < length (s_ws s)) by (apply nth_error_Some; congruence).
    apply Nat.ltb_lt in H. rewrite H in Hw'. inversion Hw'; subst w'. apply H2; exact Hw.
  - rewrite nth_error_map, Hw in Hw'. simpl in Hw'. inversion Hw'; subst w'.
    destruct (clear_claim_core b e w) as [C P]. split; [exact C|].
    apply (late_core _ _ C P). apply (g_late _ G a' w Hw).
Qed.

Lemma rel_map s b e :
  GInv s ->
  forall a' w w', nth_error (s_ws s) a' = Some w ->
    nth_error (map (clear_claim b e) (s_ws s)) a' = Some w' -> same_core w w' /\ late w'.
Proof.
  intros G a' w w' Hw Hw'. rewrite nth_error_map, Hw in Hw'. simpl in Hw'. inversion Hw'; subst w'.
  destruct (clear_claim_core b e w) as [C P]. split; [exact C|].
  apply (late_core _ _ C P). apply (g_late _ G a' w Hw).
Qed.

Lemma rel_upd s a w2 :
  (forall w, nth_error (s_ws s) a = Some w -> same_core w w2 /\ late w2) ->
  GInv s ->
  forall a' w w', nth_error (s_ws s) a' = Some w ->
    nth_error (upd a w2 (s_ws s)) a' = Some w' -> same_core w w' /\ late w'.
Proof.
  intros H2 G a' w w' Hw Hw'. rewrite nth_error_upd in Hw'.
  destruct (a' =? a) eqn:Ea.
  - apply Nat.eqb_eq in Ea; subst a'.
    assert (a < length (s_ws s)) by (apply nth_error_Some; congruence).
    apply Nat.ltb_lt in H. rewrite H in Hw'. inversion Hw'; subst w'. apply H2; exact Hw.
  - rewrite Hw in Hw'. inversion Hw'; subst w'. split; [apply same_core_refl|apply (g_late _ G a' w Hw)].
Qed.

Lemma dwf_unlink n f : dwf (f_dir f) -> dwf (f_dir (fs_unlink n f)).
Proof. intro H. unfold fs_unlink. destruct (dlookup n (f_dir f)); [simpl; apply dwf_dremove|]; exact H. Qed.
Lemma dwf_apply_rm r n f : dwf (f_dir f) -> dwf (f_dir (apply_rm r n f)).
Proof. destruct r; simpl; auto. apply dwf_unlink. Qed.
Lemma dwf_rename a b f : dwf (f_dir f) -> dwf (f_dir (fs_rename a b f)).
Proof. intro H. unfold fs_rename. destruct (dlookup a (f_dir f)); [simpl; apply dwf_dset, dwf_dremove|]; exact H. Qed.

Lemma D_apply_rm_sub r n f b e i : D (apply_rm r n f) (b, e) = Some i -> exists e0, D f (b, e0) = Some i.
Proof.
  destruct r; simpl; intro H; [|exists e; exact H|exists e; exact H].
  rewrite D_unlink in H. destruct (fname_eqb (b, e) n); [discriminate|]. exists e; exact H.
Qed.

Lemma ginv_write s a w bts :
  GInv s -> W s a = Some w -> w_hasino w = true ->
  GInv (set_fs_w (fs_append (w_ino w) bts (s_fs s)) a (add_written bts w) s).
Proof.
  intros G Hw Hh.
  set (f' := fs_append (w_ino w) bts (s_fs s)).
  assert (HW : forall a', W (set_fs_w f' a (add_written bts w) s) a' = if a' =? a then Some (add_written bts w) else W s a')
    by (intro a'; apply (W_set_fs_w s f' a w _ a' Hw)).
  destruct (g_w_ino _ G _ _ Hw Hh) as [Ho Hd].
  constructor; cbn [s_fs set_fs_w].
  - apply (g_dwf _ G).
  - intros i H. unfold f' in *. rewrite iown_append in H. rewrite idata_append.
    destruct (i =? w_ino w) eqn:E; [apply Nat.eqb_eq in E; subst i; congruence|apply (g_res_empty _ G _ H)].
  - intros a' x Hx Hhx. rewrite HW in Hx. unfold f'. rewrite iown_append, idata_append.
    destruct (a' =? a) eqn:Ea.
    + apply Nat.eqb_eq in Ea; subst a'. inversion Hx; subst x. cbn. rewrite Nat.eqb_refl, Hd. auto.
    + destruct (g_w_ino _ G _ _ Hx Hhx) as [H1 H2]. split; [exact H1|].
      destruct (w_ino x =? w_ino w) eqn:E; [|exact H2].
      apply Nat.eqb_eq in E. rewrite E in H1. apply Nat.eqb_neq in Ea. congruence.
  - intros i a0 H. unfold f' in H. rewrite iown_append in H.
    destruct (g_ino_w _ G _ _ H) as [x [Hx [Hhx Hi]]]. rewrite HW.
    destruct (a0 =? a) eqn:Ea; [|exists x; auto].
    apply Nat.eqb_eq in Ea; subst a0. exists (add_written bts w). cbn. rewrite Hw in Hx. inversion Hx; subst x. auto.
  - intros b e i H. unfold f' in *. rewrite D_append in H. rewrite iown_append.
    destruct (g_dir _ G _ _ _ H) as [o [Hoo Hb]]. exists o. split; [exact Hoo|].
    intros x Ex. destruct (Hb _ Ex) as [y [Hy Eb]]. rewrite HW.
    destruct (x =? a) eqn:Ea; [|exists y; auto].
    apply Nat.eqb_eq in Ea; subst x. exists (add_written bts w). cbn. rewrite Hw in Hy. inversion Hy; subst y. auto.
  - intros a' x Hx. rewrite HW in Hx. destruct (a' =? a); [|apply (g_late _ G _ _ Hx)].
    inversion Hx; subst x. pose proof (g_late _ G _ _ Hw) as L. unfold late in *. cbn. exact L.
  - intros a' x Hx Hhx. rewrite HW in Hx. destruct (a' =? a); [|apply (g_written0 _ G _ _ Hx Hhx)].
    inversion Hx; subst x. cbn in Hhx. congruence.
Qed.

Ltac phase_of H := match type of H with
  | context [w_ph ?w] => destruct (w_ph w) eqn:?; try discriminate H
  end.

Lemma ginv_step c s l s' : GInv s -> step c s l = Some s' -> GInv s'.
Proof.
  intros G H. destruct l; cbn [step] in H.
  - (* LBegin *) step_inv H. apply ginv_begin; exact G.
  - (* LReserve *) step_inv H.
    + phase_of Hg.
      assert (Hno : w_hasino w = false) by (apply (early_hasino s a w G Ew); rewrite Heqp; reflexivity).
      apply (ginv_create s a w _ (b, Dat) None G Ew Hno).
      * intros _. right. split; [exact Hno|reflexivity].
      * intros x Ex; discriminate.
      * left; reflexivity.
      * intro Hh. cbn in Hh. congruence.
    + t_setw G Ew.
    + t_setw G Ew.
  - (* LGiveUp *) step_inv H. t_setw G Ew.
  - (* LResClose *) step_inv H; t_setw G Ew.
  - (* LUnreserve *) step_inv H.
    assert (Hno : w_hasino w = false) by (apply (early_hasino s a w G Ew); rewrite Heqp; reflexivity).
    destruct r; cbn iota beta.
    all: apply (ginv_reshape s);
      [exact G|apply dwf_apply_rm, (g_dwf _ G)|intro i; apply apply_rm_iown|intro i; apply apply_rm_idata
      |intros b0 e0 i0; apply D_apply_rm_sub| |].
    all: try (rewrite length_upd, ?map_length; reflexivity).
    all: try (apply rel_map_upd; [|exact G]); try (apply rel_upd; [|exact G]).
    all: intros x Hx; rewrite Ew in Hx; inversion Hx; subst x.
    all: rewrite ?nth_error_map, ?Ew; cbn [option_map].
    all: try (destruct (clear_claim_core (w_base w) Dat w) as [[D1 [D2 [D3 D4]]] P']).
    all: (split; [repeat split; cbn; assumption || reflexivity|intro Hh; cbn in Hh; congruence]).
  - (* LTmpCreate *) step_inv H.
    + phase_of Hg.
      assert (Hno : w_hasino w = false) by (apply (early_hasino s a w G Ew); rewrite Heqp; reflexivity).
      apply (ginv_create s a w _ (w_base w, Tmp) (Some a) G Ew Hno).
      * intro; discriminate.
      * intros x Ex. inversion Ex; subst x. repeat split.
      * right; reflexivity.
      * intro Hh. reflexivity.
    + t_setw G Ew.
    + t_setw G Ew.
  - (* LWrite *) step_inv H. apply (ginv_write s a w _ G Ew); assumption.
  - (* LLost *) step_inv H; destruct in_abort; t_setw G Ew.
  - (* LSync *) step_inv H.
    + unfold set_fs_w, set_w; apply (ginv_reshape s); auto.
      * apply (g_dwf _ G).
      * intro i; apply iown_fsync.
      * intro i; apply idata_fsync.
      * intros b e i Hd. exists e. exact Hd.
      * apply length_upd.
      * apply rel_upd; [|exact G]. intros x Hx. rewrite Ew in Hx. inversion Hx; subst x.
        split; [repeat split|]. intro Hh. reflexivity.
    + t_setw G Ew.
  - (* LHClose *) step_inv H; t_setw G Ew.
  - (* LRename *) step_inv H.
    + phase_of Hg.
      assert (Hne : (w_base w, Tmp) <> (w_base w, Dat)) by congruence.
      assert (Hpr : D (s_fs s) (w_base w, Tmp) <> None) by (unfold D; congruence).
      unfold set_fs_w, set_w; apply (ginv_reshape s); auto.
      * apply dwf_rename, (g_dwf _ G).
      * intro i; apply iown_rename.
      * intro i; apply idata_rename.
      * intros b e i Hd. rewrite (D_rename _ _ _ _ Hne Hpr) in Hd.
        destruct (fname_eqb (b, e) (w_base w, Dat)) eqn:E1.
        { apply fname_eqb_eq in E1. inversion E1; subst. exists Tmp. exact Hd. }
        destruct (fname_eqb (b, e) (w_base w, Tmp)); [discriminate|]. exists e. exact Hd.
      * rewrite length_upd, map_length. reflexivity.
      * apply rel_map_upd; [|exact G]. intros x Hx. rewrite Ew in Hx. inversion Hx; subst x.
        rewrite nth_error_map, Ew. cbn [option_map].
        destruct (clear_claim_core (w_base w) Dat w) as [C P].
        destruct C as [C1 [C2 [C3 C4]]].
        split.
        { destruct (n =? w_ino w); repeat split; cbn; assumption. }
        { pose proof (g_late _ G _ _ Ew) as L. unfold late in *.
          destruct (n =? w_ino w); cbn; intro Hh; reflexivity. }
    + t_setw G Ew.
  - (* LDirSync *) step_inv H.
    + unfold set_fs_w, set_w; apply (ginv_reshape s); auto.
      * apply (g_dwf _ G).
      * intros b e i Hd. exists e. exact Hd.
      * apply length_upd.
      * apply rel_upd; [|exact G]. intros x Hx. rewrite Ew in Hx. inversion Hx; subst x.
        split; [repeat split|]. intro Hh. reflexivity.
    + t_setw G Ew.
  - (* LAbortHClose *) step_inv H; t_setw G Ew.
  - (* LAbortRm *) step_inv H.
    phase_of Hg; destruct e; try discriminate Hg; destruct r; cbn iota beta.
    all: unfold set_fs_w, set_w; apply (ginv_reshape s);
      [exact G|apply dwf_apply_rm, (g_dwf _ G)|intro i; apply apply_rm_iown|intro i; apply apply_rm_idata
      |intros b0 e0 i0; apply D_apply_rm_sub| |].
    all: try (rewrite length_upd, ?map_length; reflexivity).
    all: try (apply rel_map_upd; [|exact G]); try (apply rel_upd; [|exact G]).
    all: intros x Hx; rewrite Ew in Hx; inversion Hx; subst x.
    all: rewrite ?nth_error_map, ?Ew; cbn [option_map].
    all: try (destruct (clear_claim_core (w_base w) Tmp w) as [[C1 [C2 [C3 C4]]] P]).
    all: try (destruct (clear_claim_core (w_base w) Dat w) as [[D1 [D2 [D3 D4]]] P']).
    all: destruct (own_check c); (split; [repeat split; cbn; assumption || reflexivity|intro Hh; reflexivity]).
  - (* LRm *) step_inv H.
    + unfold set_fs_w, set_w; apply (ginv_reshape s); auto.
      * apply dwf_unlink, (g_dwf _ G).
      * intro i; apply iown_unlink.
      * intro i; apply idata_unlink.
      * intros b0 e0 i0. apply (D_apply_rm_sub ROk).
      * apply map_length.
      * apply rel_map; exact G.
    + exact G.
    + exact G.
  - (* LOpen *) step_inv H; (eapply ginv_same; [| |exact G]; reflexivity).
  - (* LReadDir *) step_inv H. eapply ginv_same; [| |exact G]; reflexivity.
  - (* LParse *) step_inv H. exact G.
Qed.

Lemma ginv_run c ls : forall s s', GInv s -> run c s ls = Some s' -> GInv s'.
Proof.
  induction ls as [|l t IH]; simpl; intros s s' G H.
  - inversion H; subst; exact G.
  - destruct (step c s l) eqn:E; [|discriminate]. apply (IH _ _ (ginv_step _ _ _ _ G E) H).
Qed.

(* Every file a scan lists holds exactly the bytes some writer of that pointer has written so
   far -- in every run, with or without the ownership check, whatever the callers do. *)
Lemma scan_sound c s b d :
  GInv s -> valid c [] = false -> In (b, d) (scan c s) ->
  exists a w, W s a = Some w /\ w_base w = b /\ w_hasino w = true /\
              D (s_fs s) (b, Dat) = Some (w_ino w) /\ d = w_written w /\ valid c d = true.
Proof.
  intros G Hv Hin. unfold scan in Hin. apply in_flat_map in Hin as [[[b0 e] i] [Hent Hin]].
  destruct e; [|destruct Hin].
  destruct (valid c (data_of (s_fs s) i)) eqn:Ev; [|destruct Hin].
  destruct Hin as [Hin|[]]. inversion Hin; subst b0 d. clear Hin.
  assert (HD : D (s_fs s) (b, Dat) = Some i) by (apply In_dlookup; [apply (g_dwf _ G)|exact Hent]).
  destruct (g_dir _ G _ _ _ HD) as [o [Ho Hb]].
  destruct o as [a|].
  - destruct (Hb a eq_refl) as [w [Hw Eb]].
    destruct (g_ino_w _ G _ _ Ho) as [w' [Hw' [Hh Hi]]]. rewrite Hw in Hw'. inversion Hw'; subst w'.
    destruct (g_w_ino _ G _ _ Hw Hh) as [_ Hd].
    exists a, w. rewrite data_of_idata in *. subst i. rewrite Hd in *. repeat split; auto.
  - rewrite data_of_idata, (g_res_empty _ G _ Ho) in Ev. congruence.
Qed.

(* ---------------------------------------------------------------- the invariant of well-behaved callers *)
Definition lay_ok (f : fsys) (w : writer) : Prop :=
  match w_lay w with
  | LNone => True
  | LRes => D f (w_base w, Dat) = Some (w_res w) /\ iown f (w_res w) = Some None
  | LPre => D f (w_base w, Dat) = Some (w_res w) /\ iown f (w_res w) = Some None
            /\ w_hasino w = true /\ D f (w_base w, Tmp) = Some (w_ino w)
  | LPost => w_hasino w = true /\ D f (w_base w, Dat) = Some (w_ino w)
  end.

Definition calmf (w : writer) : Prop :=
  w_cok w = false /\ w_aborted w = false /\ w_pub w = false /\ w_lostf w = false /\ w_gone w = false.
Definition quiet (w : writer) : Prop := w_hopen w = false /\ calmf w.

Definition rest_ok (w : writer) : Prop :=
  (w_hopen w = true -> w_lay w = LPre /\ w_cok w = false /\ w_aborted w = false) /\
  (w_cok w = false -> w_aborted w = false -> w_lay w = LPre \/ w_lay w = LPost) /\
  (w_cok w = true -> w_pub w = true /\ w_hopen w = false /\ (w_lay w = LPost \/ w_lay w = LNone)
                     /\ (w_gone w = false -> w_lay w = LPost) /\ (w_gone w = true -> w_lay w = LNone)) /\
  (w_pub w = true -> w_cok w = true) /\
  (w_lostf w = true -> w_aborted w = true) /\
  (w_cok w = false -> w_gone w = false).

Definition ph_ok (w : writer) : Prop :=
  match w_ph w with
  | PDraw | PCreateFailed => w_lay w = LNone /\ quiet w
  | PReserved | PResClosed | PUnres _ => w_lay w = LRes /\ quiet w
  | PReady | PSyncFailed => rest_ok w
  | PSynced => w_lay w = LPre /\ calmf w
  | PHClosed => w_lay w = LPre /\ quiet w
  | PRenamed => w_lay w = LPost /\ quiet w
  | PAbortClosed | PAbortRmTmp => w_lay w <> LNone /\ quiet w
  end.

Definition uniq (s : state) : Prop :=
  forall a1 a2 w1 w2, a1 <> a2 -> W s a1 = Some w1 -> W s a2 = Some w2 ->
    w_base w1 = w_base w2 -> w_lay w1 = LNone \/ w_lay w2 = LNone.

Record LInv (s : state) : Prop := mkLInv {
  l_lay : forall a w, W s a = Some w -> lay_ok (s_fs s) w;
  l_ph : forall a w, W s a = Some w -> ph_ok w;
  l_uniq : uniq s;
  (* a temp-file inode sits at its final path only through its own writer's rename *)
  l_post : forall a w, W s a = Some w -> w_hasino w = true ->
      D (s_fs s) (w_base w, Dat) = Some (w_ino w) -> w_lay w = LPost
}.

Lemma linv_init : LInv s0.
Proof. constructor; unfold uniq, W; simpl; intros; destruct a || destruct a1; discriminate. Qed.

Lemma lay_ok_frame f f' w :
  (forall e, D f' (w_base w, e) = D f (w_base w, e)) ->
  (forall i o, iown f i = Some o -> iown f' i = Some o) ->
  lay_ok f w -> lay_ok f' w.
Proof.
  intros HD Ho. unfold lay_ok. destruct (w_lay w); rewrite ?HD; intuition.
Qed.

Lemma clear_claim_id b e w : w_lay w = LNone -> clear_claim b e w = w.
Proof. intro H. unfold clear_claim. rewrite H. destruct (str_eqb (w_base w) b), e; reflexivity. Qed.

Lemma clear_claim_other b e w : w_base w <> b -> clear_claim b e w = w.
Proof.
  intro H. unfold clear_claim. destruct (str_eqb (w_base w) b) eqn:E; [|reflexivity].
  apply str_eqb_eq in E. contradiction.
Qed.

(* A: the step changes neither the directory nor the writer's claim *)
Lemma linv_same_lay s f' a w w' rd sc :
  LInv s -> W s a = Some w ->
  (forall n, D f' n = D (s_fs s) n) ->
  (forall i o, iown (s_fs s) i = Some o -> iown f' i = Some o) ->
  w_base w' = w_base w -> w_res w' = w_res w -> w_ino w' = w_ino w -> w_hasino w' = w_hasino w ->
  w_lay w' = w_lay w -> ph_ok w' ->
  LInv (mkS f' (upd a w' (s_ws s)) rd sc).
Proof.
  intros L Hw HD Ho Eb Er Ei Eh El Hp.
  assert (HW : forall a', W (mkS f' (upd a w' (s_ws s)) rd sc) a' = if a' =? a then Some w' else W s a')
    by (intro a'; apply (W_set_w s a w w' a' Hw)).
  constructor.
  - intros a' x Hx. rewrite HW in Hx. cbn [s_fs]. destruct (a' =? a) eqn:E.
    + inversion Hx; subst x. pose proof (l_lay _ L _ _ Hw) as Hl.
      unfold lay_ok in *. rewrite El, Eb, Er, Ei, Eh. destruct (w_lay w); rewrite ?HD; intuition.
    + apply (lay_ok_frame (s_fs s)); [intro e; apply HD|exact Ho|apply (l_lay _ L _ _ Hx)].
  - intros a' x Hx. rewrite HW in Hx. destruct (a' =? a); [inversion Hx; subst; exact Hp|apply (l_ph _ L _ _ Hx)].
  - intros a1 a2 x1 x2 Hne H1 H2 Eb12. rewrite HW in H1, H2.
    destruct (a1 =? a) eqn:E1, (a2 =? a) eqn:E2.
    + apply Nat.eqb_eq in E1, E2. congruence.
    + inversion H1; subst x1. apply Nat.eqb_eq in E1; subst a1. rewrite El.
      apply (l_uniq _ L a a2 w x2 Hne Hw H2). congruence.
    + inversion H2; subst x2. apply Nat.eqb_eq in E2; subst a2. rewrite El.
      apply (l_uniq _ L a1 a x1 w Hne H1 Hw). congruence.
    + apply (l_uniq _ L a1 a2 x1 x2 Hne H1 H2 Eb12).
  - intros a' x Hx Hh Hd. rewrite HW in Hx. cbn [s_fs] in Hd. rewrite HD in Hd. destruct (a' =? a).
    + inversion Hx; subst x. rewrite El. apply (l_post _ L _ _ Hw); congruence.
    + apply (l_post _ L _ _ Hx Hh Hd).
Qed.

(* B: the step acts on the names of one base b, on behalf of writer a; every other writer of
   that base has no claim *)
Lemma linv_actor s f' ws' rd sc a w w' b e :
  LInv s -> W s a = Some w ->
  (forall n, fst n <> b -> D f' n = D (s_fs s) n) ->
  (forall i o, iown (s_fs s) i = Some o -> iown f' i = Some o) ->
  nth_error ws' a = Some w' ->
  (forall a', a' <> a -> nth_error ws' a' = W s a' \/ nth_error ws' a' = option_map (clear_claim b e) (W s a')) ->
  (forall a' w2, a' <> a -> W s a' = Some w2 -> w_base w2 = b -> w_lay w2 = LNone) ->
  w_base w' = b -> lay_ok f' w' -> ph_ok w' ->
  (w_hasino w' = true -> D f' (b, Dat) = Some (w_ino w') -> w_lay w' = LPost) ->
  (forall a' w2, a' <> a -> W s a' = Some w2 -> w_base w2 = b -> w_hasino w2 = true ->
     D f' (b, Dat) <> Some (w_ino w2)) ->
  LInv (mkS f' ws' rd sc).
Proof.
  intros L Hw HD Ho Ha Hoth Hnone Eb Hl Hp Hpost Hpo.
  assert (Hsame : forall a' x, a' <> a -> nth_error ws' a' = Some x -> W s a' = Some x).
  { intros a' x Hne Hx. destruct (Hoth a' Hne) as [E|E]; rewrite E in Hx; [exact Hx|].
    destruct (W s a') as [w2|] eqn:E2; [|discriminate]. simpl in Hx. inversion Hx; subst x. f_equal.
    destruct (str_eqb (w_base w2) b) eqn:Eq.
    - apply str_eqb_eq in Eq. symmetry. apply clear_claim_id. apply (Hnone a' w2 Hne E2 Eq).
    - symmetry. apply clear_claim_other. apply str_eqb_neq in Eq. exact Eq. }
  constructor; unfold W; cbn [s_ws s_fs].
  - intros a' x Hx. destruct (Nat.eq_dec a' a) as [->|Hne].
    + rewrite Ha in Hx. inversion Hx; subst x. exact Hl.
    + pose proof (Hsame _ _ Hne Hx) as Hx0.
      destruct (str_eqb (w_base x) b) eqn:Eq.
      * apply str_eqb_eq in Eq. unfold lay_ok. rewrite (Hnone _ _ Hne Hx0 Eq). exact I.
      * apply str_eqb_neq in Eq. apply (lay_ok_frame (s_fs s)); [|exact Ho|apply (l_lay _ L _ _ Hx0)].
        intro e0. apply HD. exact Eq.
  - intros a' x Hx. destruct (Nat.eq_dec a' a) as [->|Hne].
    + rewrite Ha in Hx. inversion Hx; subst x. exact Hp.
    + apply (l_ph _ L a'). apply (Hsame _ _ Hne Hx).
  - unfold uniq, W; cbn [s_ws]. intros a1 a2 x1 x2 Hne H1 H2 Eb12.
    destruct (Nat.eq_dec a1 a) as [->|N1]; destruct (Nat.eq_dec a2 a) as [->|N2].
    + congruence.
    + right. rewrite Ha in H1. inversion H1; subst x1.
      apply (Hnone a2 x2 N2 (Hsame _ _ N2 H2)). congruence.
    + left. rewrite Ha in H2. inversion H2; subst x2.
      apply (Hnone a1 x1 N1 (Hsame _ _ N1 H1)). congruence.
    + apply (l_uniq _ L a1 a2 x1 x2 Hne (Hsame _ _ N1 H1) (Hsame _ _ N2 H2) Eb12).
  - intros a' x Hx Hh Hd. destruct (Nat.eq_dec a' a) as [->|Hne].
    + rewrite Ha in Hx. inversion Hx; subst x. rewrite Eb in Hd. apply Hpost; assumption.
    + pose proof (Hsame _ _ Hne Hx) as Hx0.
      destruct (str_eqb (w_base x) b) eqn:Eq.
      * apply str_eqb_eq in Eq. exfalso. rewrite Eq in Hd. apply (Hpo a' x Hne Hx0 Eq Hh Hd).
      * apply str_eqb_neq in Eq. apply (l_post _ L _ _ Hx0 Hh). rewrite <- HD; [exact Hd|exact Eq].
Qed.

(* every other writer of the actor's base has no claim, because the actor has one *)
Lemma others_none s a w :
  LInv s -> W s a = Some w -> w_lay w <> LNone ->
  forall a' w2, a' <> a -> W s a' = Some w2 -> w_base w2 = w_base w -> w_lay w2 = LNone.
Proof.
  intros L Hw Hl a' w2 Hne H2 Eb.
  destruct (l_uniq _ L a' a w2 w Hne H2 Hw Eb) as [H|H]; [exact H|contradiction].
Qed.

Lemma lay_present s a w : LInv s -> W s a = Some w -> w_lay w <> LNone -> D (s_fs s) (w_base w, Dat) <> None.
Proof.
  intros L Hw Hl. pose proof (l_lay _ L _ _ Hw) as H. unfold lay_ok in H.
  destruct (w_lay w); [contradiction| | |]; intuition congruence.
Qed.

Lemma nth_upd_map_other (ws : list writer) a x (g : writer -> writer) a' : a' <> a ->
  nth_error (upd a x (map g ws)) a' = option_map g (nth_error ws a').
Proof. intro H. rewrite nth_error_upd_other by exact H. apply nth_error_map. Qed.

Lemma clear_claim_fields b e w :
  let w' := clear_claim b e w in
  w_base w' = w_base w /\ w_res w' = w_res w /\ w_ino w' = w_ino w /\ w_hasino w' = w_hasino w /\
  w_ph w' = w_ph w /\ w_hopen w' = w_hopen w /\ w_pub w' = w_pub w /\ w_lostf w' = w_lostf w /\
  w_cok w' = w_cok w /\ w_aborted w' = w_aborted w /\ w_written w' = w_written w.
Proof.
  unfold clear_claim. destruct (str_eqb (w_base w) b); [|cbn; repeat split].
  destruct e, (w_lay w); try destruct (w_cok w) eqn:E; cbn; repeat split; auto.
Qed.

Lemma clear_claim_gone b e w : w_cok w = false -> w_gone (clear_claim b e w) = w_gone w.
Proof.
  intro Hc. unfold clear_claim. rewrite Hc. destruct (str_eqb (w_base w) b); [|reflexivity].
  destruct e, (w_lay w); reflexivity.
Qed.

Lemma clear_claim_lay b e w :
  w_lay (clear_claim b e w) =
    if str_eqb (w_base w) b then
      match e, w_lay w with
      | Dat, _ => LNone
      | Tmp, LPre => LRes
      | Tmp, l => l
      end
    else w_lay w.
Proof.
  unfold clear_claim. destruct (str_eqb (w_base w) b); [|reflexivity].
  destruct e; destruct (w_lay w) eqn:El; try destruct (w_cok w); cbn; auto.
Qed.

Lemma linv_begin s : LInv s -> LInv (mkS (s_fs s) (s_ws s ++ [w0]) (s_rd s) (s_sc s)).
Proof.
  intro L.
  assert (HW : forall a w, W (mkS (s_fs s) (s_ws s ++ [w0]) (s_rd s) (s_sc s)) a = Some w ->
                           W s a = Some w \/ w = w0).
  { unfold W; simpl. intros a w H. destruct (lt_dec a (length (s_ws s))).
    - rewrite nth_error_app1 in H by lia. auto.
    - rewrite nth_error_app2 in H by lia. destruct (a - length (s_ws s)) as [|k]; simpl in H; [inversion H; auto|destruct k; discriminate]. }
  constructor; cbn [s_fs].
  - intros a w H. destruct (HW _ _ H) as [H1| ->]; [apply (l_lay _ L _ _ H1)|exact I].
  - intros a w H. destruct (HW _ _ H) as [H1| ->]; [apply (l_ph _ L _ _ H1)|].
    unfold ph_ok, quiet, calmf; cbn. auto 10.
  - intros a1 a2 x1 x2 Hne H1 H2 Eb.
    destruct (HW _ _ H1) as [K1| ->]; [|left; reflexivity].
    destruct (HW _ _ H2) as [K2| ->]; [|right; reflexivity].
    apply (l_uniq _ L a1 a2 x1 x2 Hne K1 K2 Eb).
  - intros a w H Hh Hd. destruct (HW _ _ H) as [H1| ->]; [apply (l_post _ L _ _ H1 Hh Hd)|discriminate].
Qed.

(* C: removal by name on behalf of no writer (TombstoneFile, Update), allowed by the guard *)
Lemma linv_rm s b e rd sc :
  LInv s ->
  forallb (fun w => negb (str_eqb (w_base w) b)
                    || match w_lay w with LNone => true | _ => false end
                    || w_cok w || w_aborted w) (s_ws s) = true ->
  LInv (mkS (fs_unlink (b, e) (s_fs s)) (map (clear_claim b e) (s_ws s)) rd sc).
Proof.
  intros L Hg.
  assert (HW : forall a w', W (mkS (fs_unlink (b, e) (s_fs s)) (map (clear_claim b e) (s_ws s)) rd sc) a = Some w' ->
             exists w, W s a = Some w /\ w' = clear_claim b e w).
  { unfold W; cbn [s_ws]. intros a w' H. rewrite nth_error_map in H.
    destruct (nth_error (s_ws s) a) as [w|]; [|discriminate]. inversion H. exists w; auto. }
  assert (Hgw : forall a w, W s a = Some w -> w_base w = b ->
                 w_lay w = LNone \/ w_cok w = true \/ w_aborted w = true).
  { intros a w Hw Eb. rewrite forallb_forall in Hg. specialize (Hg w (nth_error_In _ _ Hw)).
    subst b. rewrite str_eqb_refl in Hg. cbn in Hg.
    destruct (w_lay w); auto; destruct (w_cok w); auto; destruct (w_aborted w); auto; discriminate. }
  constructor; cbn [s_fs].
  - intros a w' H. destruct (HW _ _ H) as [w [Hw ->]]. pose proof (l_lay _ L _ _ Hw) as Hl.
    destruct (clear_claim_fields b e w) as [F1 [F2 [F3 [F4 _]]]].
    pose proof (clear_claim_lay b e w) as Fl.
    unfold lay_ok in *. rewrite F1, F2, F3, F4, Fl.
    destruct (str_eqb (w_base w) b) eqn:Eb.
    + apply str_eqb_eq in Eb. rewrite Eb in *.
      assert (E1 : fname_eqb (b, Dat) (b, Tmp) = false) by (apply fname_eqb_neq; congruence).
      destruct e; [exact I|].
      destruct (w_lay w); rewrite ?D_unlink, ?E1, ?iown_unlink; intuition.
    + apply str_eqb_neq in Eb.
      assert (E1 : forall x, fname_eqb (w_base w, x) (b, e) = false) by (intro x; apply fname_eqb_neq; congruence).
      destruct (w_lay w); rewrite ?D_unlink, ?E1, ?iown_unlink; exact Hl.
  - intros a w' H. destruct (HW _ _ H) as [w [Hw ->]]. pose proof (l_ph _ L _ _ Hw) as Hp.
    destruct (str_eqb (w_base w) b) eqn:Eb; [|rewrite clear_claim_other; [exact Hp|apply str_eqb_neq; exact Eb]].
    apply str_eqb_eq in Eb.
    assert (Hcase : w_lay w = LNone \/ w_lay w <> LNone) by (destruct (w_lay w); auto; right; congruence).
    destruct Hcase as [Hn|Hnn]; [rewrite clear_claim_id; assumption|].
    destruct (Hgw _ _ Hw Eb) as [Hn|Hca]; [contradiction|].
    destruct (clear_claim_fields b e w) as [F1 [F2 [F3 [F4 [F5 [F6 [F7 [F8 [F9 [F10 F11]]]]]]]]]].
    pose proof (clear_claim_lay b e w) as Fl. rewrite Eb, str_eqb_refl in Fl.
    unfold ph_ok, rest_ok, quiet, calmf in *. rewrite F5, F6, F7, F8, F9, F10, Fl.
    assert (Hgone : w_cok w = true -> w_lay w <> LNone -> e = Dat -> w_gone (clear_claim b e w) = true).
    { intros Hc Hl He. unfold clear_claim. rewrite Eb, str_eqb_refl, He, Hc. destruct (w_lay w); [contradiction|reflexivity..]. }
    assert (Hgt : e = Tmp -> w_gone (clear_claim b e w) = w_gone w).
    { intros He. unfold clear_claim. rewrite Eb, str_eqb_refl, He. destruct (w_lay w); reflexivity. }
    assert (Hgc : w_cok w = false -> w_gone (clear_claim b e w) = w_gone w).
    { intros Hc. unfold clear_claim. rewrite Eb, str_eqb_refl, Hc. destruct e, (w_lay w); reflexivity. }
    destruct (w_ph w); try (destruct Hca as [Hc|Hc]; intuition congruence).
    all: destruct (w_cok w) eqn:Ec; [|rewrite (Hgc eq_refl)].
    all: destruct e; try rewrite (Hgt eq_refl); destruct (w_lay w) eqn:El; destruct Hca as [Hc|Hc];
      intuition (try congruence).
    all: try (exfalso; assert (Hx : w_gone (clear_claim b Dat w) = true) by (apply Hgone; congruence); congruence).
  - intros a1 a2 x1 x2 Hne H1 H2 Eb.
    destruct (HW _ _ H1) as [w1 [K1 ->]]. destruct (HW _ _ H2) as [w2 [K2 ->]].
    destruct (clear_claim_fields b e w1) as [F1 _]. destruct (clear_claim_fields b e w2) as [G1 _].
    rewrite F1, G1 in Eb. rewrite !clear_claim_lay.
    destruct (l_uniq _ L a1 a2 w1 w2 Hne K1 K2 Eb) as [E|E]; rewrite E; [left|right];
      match goal with |- context [str_eqb ?x ?y] => destruct (str_eqb x y) end; destruct e; reflexivity.
  - intros a w' H Hh Hd. destruct (HW _ _ H) as [w [Hw ->]].
    destruct (clear_claim_fields b e w) as [F1 [F2 [F3 [F4 _]]]].
    rewrite F1, F3 in Hd. rewrite F4 in Hh. rewrite D_unlink in Hd.
    destruct (fname_eqb (w_base w, Dat) (b, e)) eqn:E; [discriminate|].
    pose proof (l_post _ L _ _ Hw Hh Hd) as Hl. rewrite clear_claim_lay, Hl.
    destruct (str_eqb (w_base w) b) eqn:Eb; [|reflexivity].
    apply str_eqb_eq in Eb. destruct e; [|reflexivity].
    rewrite Eb, fname_eqb_refl in E. discriminate.
Qed.

(* ---------------------------------------------------------------- LInv is preserved by guarded steps *)

Ltac ph_solve Hp :=
  unfold ph_ok, rest_ok, quiet, calmf in *; cbn in *;
  repeat match goal with E : w_ph _ = _ |- _ => rewrite E in *; clear E end;
  cbn in *; intuition (try congruence).

Ltac t_same L Ew :=
  repeat match goal with |- context [if ?b then _ else _] => is_var b; destruct b end;
  unfold set_w, set_fs_w;
  (eapply (linv_same_lay _ _ _ _ _ _ _ L Ew);
   [intro; reflexivity | intros ? ? Hio; rewrite ?iown_append, ?iown_fsync, ?iown_dirsync; exact Hio
   | reflexivity | reflexivity | reflexivity | reflexivity | reflexivity | ]).

Ltac ready_phase := match goal with Hr : is_ready ?w = true |- _ =>
  unfold is_ready in Hr; destruct (w_ph w) eqn:?; try discriminate Hr end;
  try match goal with Hp : ph_ok ?w, E : w_ph ?w = PReady |- _ => unfold ph_ok in Hp; rewrite E in Hp end.

Lemma rest_hopen w : rest_ok w -> w_hopen w = true -> w_lay w = LPre /\ calmf w.
Proof.
  unfold rest_ok, calmf. intros [H1 [H2 [H3 [H4 [H5 H6]]]]] Hh. destruct (H1 Hh) as [E1 [E2 E3]].
  repeat split; auto.
  - destruct (w_pub w); [rewrite H4 in E2 by reflexivity; discriminate|reflexivity].
  - destruct (w_lostf w); [rewrite H5 in E3 by reflexivity; discriminate|reflexivity].
Qed.

Lemma rest_nopub w : rest_ok w -> w_pub w = false -> w_aborted w = false ->
  (w_lay w = LPre \/ w_lay w = LPost) /\ calmf w.
Proof.
  unfold rest_ok, calmf. intros [H1 [H2 [H3 [H4 [H5 H6]]]]] Hp Ha.
  assert (Hc : w_cok w = false).
  { destruct (w_cok w); [|reflexivity]. destruct (H3 eq_refl) as [E _]. congruence. }
  repeat split; auto.
  destruct (w_lostf w); [rewrite H5 in Ha by reflexivity; discriminate|reflexivity].
Qed.

Lemma linv_step c s l s' : GInv s -> LInv s -> guard_ok s l = true -> step c s l = Some s' -> LInv s'.
Proof.
  intros G L Hgd H. destruct l; cbn [step] in H.
  - (* LBegin *) step_inv H. apply linv_begin; exact L.
  - (* LReserve *) step_inv H.
    + phase_of Hg. pose proof (l_ph _ L _ _ Ew) as Hp.
      assert (Habs : D (s_fs s) (b, Dat) = None).
      { unfold cres_ok in *. rewrite present_D in *. destruct (D (s_fs s) (b, Dat)); [discriminate|reflexivity]. }
      unfold set_fs_w. eapply (linv_actor s _ _ _ _ a w _ b Dat L Ew).
      * intros n Hn. rewrite D_create. destruct (fname_eqb n (b, Dat)) eqn:E; [|reflexivity].
        apply fname_eqb_eq in E. subst n. contradiction Hn. reflexivity.
      * intros i o Hio. rewrite iown_create. pose proof (iown_lt _ _ _ Hio) as Hlt.
        destruct (i =? length (f_ino (s_fs s))) eqn:E; [apply Nat.eqb_eq in E; lia|exact Hio].
      * apply (nth_error_upd_same _ _ _ _ Ew).
      * intros a' Hne. left. apply nth_error_upd_other. exact Hne.
      * intros a' w2 Hne H2 Eb. destruct (w_lay w2) eqn:El; [reflexivity| | |];
          exfalso; apply (lay_present s a' w2 L H2); rewrite ?El, ?Eb; congruence.
      * reflexivity.
      * unfold lay_ok, set_reserved. cbn [w_lay w_base w_res w_ino w_hasino]. rewrite D_create, fname_eqb_refl, iown_create, Nat.eqb_refl. auto.
      * ph_solve Hp.
      * cbn. intro Hh. rewrite (early_hasino s a w G Ew) in Hh; [discriminate|rewrite Heqp; reflexivity].
      * intros a' w2 Hne H2 Eb Hh. rewrite D_create, fname_eqb_refl. intro E. inversion E.
        destruct (g_w_ino _ G _ _ H2 Hh) as [Hio _]. apply iown_lt in Hio. lia.
    + phase_of Hg. pose proof (l_ph _ L _ _ Ew) as Hp. t_same L Ew. ph_solve Hp.
    + phase_of Hg. pose proof (l_ph _ L _ _ Ew) as Hp. t_same L Ew. ph_solve Hp.
  - (* LGiveUp *) step_inv H. phase_of Hg. pose proof (l_ph _ L _ _ Ew) as Hp. t_same L Ew. ph_solve Hp.
  - (* LResClose *) step_inv H. phase_of Hg. pose proof (l_ph _ L _ _ Ew) as Hp. t_same L Ew; ph_solve Hp.
  - (* LUnreserve *) step_inv H. pose proof (l_ph _ L _ _ Ew) as Hp.
    assert (Hlay : w_lay w = LRes) by (unfold ph_ok in Hp; rewrite Heqp in Hp; apply Hp).
    eapply (linv_actor s _ _ _ _ a w _ (w_base w) Dat L Ew).
    + intros n Hn. destruct r; cbn [apply_rm]; try reflexivity. rewrite D_unlink.
      destruct (fname_eqb n (w_base w, Dat)) eqn:E; [|reflexivity].
      apply fname_eqb_eq in E. subst n. contradiction Hn. reflexivity.
    + intros i o Hio. rewrite apply_rm_iown. exact Hio.
    + apply nth_error_upd_same with (y := match r with ROk => clear_claim (w_base w) Dat w | _ => w end).
      destruct r; rewrite ?nth_error_map, ?Ew; reflexivity.
    + intros a' Hne. rewrite nth_error_upd_other by exact Hne.
      destruct r; [right; apply nth_error_map|left; reflexivity|left; reflexivity].
    + apply (others_none s a w L Ew). congruence.
    + destruct r; rewrite ?nth_error_map, ?Ew; cbn [option_map]; cbn;
        try apply (clear_claim_fields (w_base w) Dat w); reflexivity.
    + unfold lay_ok. cbn. exact I.
    + destruct (clear_claim_fields (w_base w) Dat w) as [F1 [F2 [F3 [F4 [F5 [F6 [F7 [F8 [F9 [F10 F11]]]]]]]]]].
      assert (Hcf : w_cok w = false) by (unfold ph_ok, quiet, calmf in Hp; rewrite Heqp in Hp; tauto).
      pose proof (clear_claim_gone (w_base w) Dat w Hcf) as Fg.
      destruct r, again; rewrite ?nth_error_map, ?Ew; cbn [option_map];
        unfold ph_ok, quiet, calmf in *; rewrite Heqp in Hp; cbn; rewrite ?F6, ?F7, ?F8, ?F9, ?F10, ?Fg; intuition.
    + intro Hh. exfalso.
      assert (Hno : w_hasino w = false) by (apply (early_hasino s a w G Ew); rewrite Heqp; reflexivity).
      destruct (clear_claim_fields (w_base w) Dat w) as [_ [_ [_ [F4 _]]]].
      destruct r; rewrite ?nth_error_map, ?Ew in Hh; cbn in Hh; congruence.
    + intros a' w2 Hne H2 Eb Hh Hd.
      assert (Hl2 : w_lay w2 = LNone) by (apply (others_none s a w L Ew ltac:(congruence) a' w2 Hne H2 Eb)).
      assert (Hold : D (s_fs s) (w_base w, Dat) = Some (w_ino w2)).
      { destruct r; cbn [apply_rm] in Hd; try exact Hd. rewrite D_unlink, fname_eqb_refl in Hd. discriminate. }
      rewrite <- Eb in Hold. pose proof (l_post _ L _ _ H2 Hh Hold). congruence.
  - (* LTmpCreate *) step_inv H.
    + phase_of Hg. pose proof (l_ph _ L _ _ Ew) as Hp. pose proof (l_lay _ L _ _ Ew) as Hl.
      assert (Hlay : w_lay w = LRes) by (unfold ph_ok in Hp; rewrite Heqp in Hp; apply Hp).
      unfold lay_ok in Hl. rewrite Hlay in Hl. destruct Hl as [Hd Hio].
      unfold set_fs_w. eapply (linv_actor s _ _ _ _ a w _ (w_base w) Tmp L Ew).
      * intros n Hn. rewrite D_create. destruct (fname_eqb n (w_base w, Tmp)) eqn:E; [|reflexivity].
        apply fname_eqb_eq in E. subst n. contradiction Hn. reflexivity.
      * intros i o Hi. rewrite iown_create. pose proof (iown_lt _ _ _ Hi) as Hlt.
        destruct (i =? length (f_ino (s_fs s))) eqn:E; [apply Nat.eqb_eq in E; lia|exact Hi].
      * apply (nth_error_upd_same _ _ _ _ Ew).
      * intros a' Hne. left. apply nth_error_upd_other. exact Hne.
      * apply (others_none s a w L Ew). congruence.
      * reflexivity.
      * unfold lay_ok, set_tmp. cbn [w_lay w_base w_res w_ino w_hasino].
        rewrite !D_create, !iown_create, fname_eqb_refl.
        assert (E1 : fname_eqb (w_base w, Dat) (w_base w, Tmp) = false) by (apply fname_eqb_neq; congruence).
        rewrite E1. pose proof (iown_lt _ _ _ Hio) as Hlt.
        assert (E2 : (w_res w =? length (f_ino (s_fs s))) = false) by (apply Nat.eqb_neq; lia).
        rewrite E2. auto.
      * ph_solve Hp.
      * unfold set_tmp; cbn [w_hasino w_ino w_lay]. intros _. rewrite D_create.
        assert (E1 : fname_eqb (w_base w, Dat) (w_base w, Tmp) = false) by (apply fname_eqb_neq; congruence).
        rewrite E1, Hd. intro E. inversion E. apply iown_lt in Hio. lia.
      * intros a' w2 Hne H2 Eb Hh Hd2. rewrite D_create in Hd2.
        assert (E1 : fname_eqb (w_base w, Dat) (w_base w, Tmp) = false) by (apply fname_eqb_neq; congruence).
        rewrite E1 in Hd2.
        assert (Hl2 : w_lay w2 = LNone) by (apply (others_none s a w L Ew ltac:(congruence) a' w2 Hne H2 Eb)).
        rewrite <- Eb in Hd2. pose proof (l_post _ L _ _ H2 Hh Hd2). congruence.
    + phase_of Hg. pose proof (l_ph _ L _ _ Ew) as Hp. t_same L Ew. ph_solve Hp.
    + phase_of Hg. pose proof (l_ph _ L _ _ Ew) as Hp. t_same L Ew. ph_solve Hp.
  - (* LWrite *) step_inv H. pose proof (l_ph _ L _ _ Ew) as Hp. ready_phase. t_same L Ew. ph_solve Hp.
  - (* LLost *) step_inv H. pose proof (l_ph _ L _ _ Ew) as Hp. ready_phase.
    assert (Hr : rest_ok w) by exact Hp.
    assert (Hlf : w_lostf w = true).
    { unfold lost in *. destruct (w_lostf w); [reflexivity|]. cbn in *.
      unfold lost_now in *. destruct (w_hopen w) eqn:Eh; [|cbn in *; congruence].
      destruct (rest_hopen _ Hr Eh) as [El _]. pose proof (l_lay _ L _ _ Ew) as Hl. unfold lay_ok in Hl.
      rewrite El in Hl. destruct Hl as [_ [_ [_ Hd]]]. unfold D in Hd. rewrite Hd, Nat.eqb_refl in *. cbn in *. congruence. }
    destruct in_abort; t_same L Ew; ph_solve Hp.
  - (* LSync *) step_inv H; pose proof (l_ph _ L _ _ Ew) as Hp; ready_phase.
    + cbn in *. destruct (rest_hopen _ Hp ltac:(assumption)) as [El Hc]. t_same L Ew. ph_solve Hp.
    + t_same L Ew. ph_solve Hp.
  - (* LHClose *) step_inv H; pose proof (l_ph _ L _ _ Ew) as Hp; t_same L Ew; ph_solve Hp.
  - (* LRename *) step_inv H.
    + phase_of Hg. pose proof (l_ph _ L _ _ Ew) as Hp. pose proof (l_lay _ L _ _ Ew) as Hl.
      assert (Hlay : w_lay w = LPre) by (unfold ph_ok in Hp; rewrite Heqp in Hp; apply Hp).
      unfold lay_ok in Hl. rewrite Hlay in Hl. destruct Hl as [Hd [Hio [Hh Ht]]].
      assert (En : n = w_ino w) by (unfold D in Ht; congruence). subst n.
      rewrite Nat.eqb_refl, nth_error_map, Ew. cbn [option_map].
      destruct (clear_claim_fields (w_base w) Dat w) as [F1 [F2 [F3 [F4 [F5 [F6 [F7 [F8 [F9 [F10 F11]]]]]]]]]].
      assert (Hne : (w_base w, Tmp) <> (w_base w, Dat)) by congruence.
      assert (Hpr : D (s_fs s) (w_base w, Tmp) <> None) by congruence.
      eapply (linv_actor s _ _ _ _ a w _ (w_base w) Dat L Ew).
      * intros n Hn. rewrite (D_rename _ _ _ _ Hne Hpr).
        destruct (fname_eqb n (w_base w, Dat)) eqn:E1; [apply fname_eqb_eq in E1; subst n; contradiction Hn; reflexivity|].
        destruct (fname_eqb n (w_base w, Tmp)) eqn:E2; [apply fname_eqb_eq in E2; subst n; contradiction Hn; reflexivity|].
        reflexivity.
      * intros i o Hi. rewrite iown_rename. exact Hi.
      * apply nth_error_upd_same with (y := clear_claim (w_base w) Dat w). rewrite nth_error_map, Ew. reflexivity.
      * intros a' Hne'. right. rewrite nth_error_upd_other by exact Hne'. apply nth_error_map.
      * apply (others_none s a w L Ew). congruence.
      * cbn. exact F1.
      * unfold lay_ok. cbn. rewrite F1, F3, F4, (D_rename _ _ _ _ Hne Hpr), fname_eqb_refl. auto.
      * assert (Hcf : w_cok w = false) by (unfold ph_ok, quiet, calmf in Hp; rewrite Heqp in Hp; tauto).
        pose proof (clear_claim_gone (w_base w) Dat w Hcf) as Fg.
        unfold ph_ok, quiet, calmf in *. rewrite Heqp in Hp. cbn. rewrite F6, F7, F8, F9, F10, Fg. intuition.
      * cbn. auto.
      * intros a' w2 Hne' H2 Eb Hh2 Hd2. rewrite (D_rename _ _ _ _ Hne Hpr), fname_eqb_refl, Ht in Hd2.
        inversion Hd2 as [Ei].
        destruct (g_w_ino _ G _ _ Ew Hh) as [Ho1 _]. destruct (g_w_ino _ G _ _ H2 Hh2) as [Ho2 _].
        rewrite Ei in Ho1. rewrite Ho1 in Ho2. inversion Ho2. congruence.
    + phase_of Hg. pose proof (l_ph _ L _ _ Ew) as Hp. t_same L Ew. ph_solve Hp.
  - (* LDirSync *) step_inv H; phase_of Hg; pose proof (l_ph _ L _ _ Ew) as Hp; t_same L Ew; ph_solve Hp.
  - (* LAbortHClose *) step_inv H. pose proof (l_ph _ L _ _ Ew) as Hp. ready_phase.
    cbn [guard_ok] in Hgd. rewrite Ew in Hgd.
    destruct (rest_nopub _ Hp) as [Hl Hc]; [destruct (w_pub w); cbn in *; congruence|destruct (w_aborted w); cbn in *; congruence|].
    t_same L Ew. ph_solve Hp.
  - (* LAbortRm *) step_inv H. pose proof (l_ph _ L _ _ Ew) as Hp. pose proof (l_lay _ L _ _ Ew) as Hl.
    destruct (clear_claim_fields (w_base w) e w) as [F1 [F2 [F3 [F4 [F5 [F6 [F7 [F8 [F9 [F10 F11]]]]]]]]]].
    pose proof (clear_claim_lay (w_base w) e w) as Fl. rewrite str_eqb_refl in Fl.
    assert (Hq : w_lay w <> LNone /\ quiet w) by (unfold ph_ok in Hp; phase_of Hg; destruct e; try discriminate Hg; exact Hp).
    destruct Hq as [Hnn Hq].
    assert (HDf : forall n, fst n <> w_base w -> D (apply_rm r (w_base w, e) (s_fs s)) n = D (s_fs s) n).
    { intros n Hn. destruct r; cbn [apply_rm]; try reflexivity. rewrite D_unlink.
      destruct (fname_eqb n (w_base w, e)) eqn:E; [|reflexivity].
      apply fname_eqb_eq in E. subst n. contradiction Hn. reflexivity. }
    eapply (linv_actor s _ _ _ _ a w _ (w_base w) e L Ew HDf).
    + intros i o Hi. rewrite apply_rm_iown. exact Hi.
    + apply nth_error_upd_same with (y := match r with ROk => clear_claim (w_base w) e w | _ => w end).
      destruct r; rewrite ?nth_error_map, ?Ew; reflexivity.
    + intros a' Hne. rewrite nth_error_upd_other by exact Hne.
      destruct r; [right; apply nth_error_map|left; reflexivity|left; reflexivity].
    + apply (others_none s a w L Ew Hnn).
    + destruct r, e; rewrite ?nth_error_map, ?Ew; cbn [option_map]; destruct (own_check c); cbn; auto.
    + (* lay_ok *)
      unfold lay_ok in *.
      destruct r, e; rewrite ?nth_error_map, ?Ew; cbn [option_map apply_rm]; destruct (own_check c); cbn;
        rewrite ?F1, ?F2, ?F3, ?F4, ?Fl; try exact I; try exact Hl.
      all: rewrite !D_unlink.
      all: assert (E1 : fname_eqb (w_base w, Dat) (w_base w, Tmp) = false) by (apply fname_eqb_neq; congruence).
      all: rewrite ?E1, ?iown_unlink, ?fname_eqb_refl.
      all: destruct (w_lay w); intuition.
    + (* ph_ok *)
      assert (Hcf : w_cok w = false) by (unfold quiet, calmf in Hq; tauto).
      pose proof (clear_claim_gone (w_base w) e w Hcf) as Fg.
      unfold ph_ok, rest_ok, quiet, calmf in *.
      phase_of Hg; destruct e; try discriminate Hg;
      destruct r; rewrite ?nth_error_map, ?Ew; cbn [option_map]; destruct (own_check c); cbn;
        rewrite ?F6, ?F7, ?F8, ?F9, ?F10, ?Fl, ?Fg; intuition (try congruence).
      all: destruct (w_lay w); congruence.
    + (* own inode at the final path *)
      intros Hh Hd.
      assert (E1 : fname_eqb (w_base w, Dat) (w_base w, Tmp) = false) by (apply fname_eqb_neq; congruence).
      assert (Hh0 : w_hasino w = true) by (destruct r, e; rewrite ?nth_error_map, ?Ew in Hh; cbn [option_map] in Hh; destruct (own_check c); cbn in Hh; congruence).
      destruct e.
      * (* removing the final path *)
        destruct r; rewrite ?nth_error_map, ?Ew in Hd |- *; cbn [option_map apply_rm] in Hd |- *;
          destruct (own_check c); cbn in Hd |- *; rewrite ?F3 in Hd.
        all: try (rewrite D_unlink, fname_eqb_refl in Hd; discriminate).
        all: try (unfold rres_ok in *; rewrite present_D in *; rewrite Hd in *; discriminate).
        all: apply (l_post _ L _ _ Ew Hh0 Hd).
      * (* removing the temp path leaves the final path alone *)
        assert (Hold : D (s_fs s) (w_base w, Dat) = Some (w_ino w)).
        { destruct r; rewrite ?nth_error_map, ?Ew in Hd; cbn [option_map apply_rm] in Hd; cbn in Hd;
            rewrite ?F3 in Hd; rewrite ?D_unlink, ?E1 in Hd; exact Hd. }
        pose proof (l_post _ L _ _ Ew Hh0 Hold) as Hlp.
        destruct r; rewrite ?nth_error_map, ?Ew; cbn [option_map]; cbn; rewrite ?Fl, ?Hlp; reflexivity.
    + intros a' w2 Hne H2 Eb Hh2 Hd2.
      assert (Hl2 : w_lay w2 = LNone) by (apply (others_none s a w L Ew Hnn a' w2 Hne H2 Eb)).
      assert (Hold : D (s_fs s) (w_base w, Dat) = Some (w_ino w2)).
      { destruct r; cbn [apply_rm] in Hd2; try exact Hd2. rewrite D_unlink in Hd2.
        destruct (fname_eqb (w_base w, Dat) (w_base w, e)); [discriminate|exact Hd2]. }
      rewrite <- Eb in Hold. pose proof (l_post _ L _ _ H2 Hh2 Hold). congruence.
  - (* LRm *) step_inv H.
    + cbn [guard_ok] in Hgd. apply linv_rm; assumption.
    + exact L.
    + exact L.
  - (* LOpen *) step_inv H; destruct L; constructor; auto.
  - (* LReadDir *) step_inv H. destruct L; constructor; auto.
  - (* LParse *) step_inv H. exact L.
Qed.

(* ---------------------------------------------------------------- no half-published file without an injected failure *)
Definition settled (w : writer) : Prop :=
  w_lay w = LPost -> (w_cok w = true /\ w_pub w = true) \/ w_ph w = PRenamed.

Definition trans (w w' : writer) : Prop :=
  (w_lay w' = LPost -> w_lay w = LPost \/ w_ph w' = PRenamed) /\
  (w_cok w = true -> w_cok w' = true) /\ (w_pub w = true -> w_pub w' = true) /\
  (w_ph w = PRenamed -> w_ph w' = PRenamed \/ (w_cok w' = true /\ w_pub w' = true)).

Lemma trans_settled w w' : trans w w' -> settled w -> settled w'.
Proof.
  unfold trans, settled. intros [T1 [T2 [T3 T4]]] S Hl.
  destruct (T1 Hl) as [Hl0|Hr]; [|right; exact Hr].
  destruct (S Hl0) as [[Hc Hp]|Hr]; [left; auto|]. destruct (T4 Hr); auto.
Qed.

Lemma trans_refl w : trans w w.
Proof. unfold trans. intuition. Qed.

Lemma trans_clear b e w : trans w (clear_claim b e w).
Proof.
  destruct (clear_claim_fields b e w) as [F1 [F2 [F3 [F4 [F5 [F6 [F7 [F8 [F9 [F10 F11]]]]]]]]]].
  pose proof (clear_claim_lay b e w) as Fl.
  unfold trans. rewrite F5, F7, F9, Fl. repeat split; auto.
  intro H. left. destruct (str_eqb (w_base w) b); [|exact H]. destruct e, (w_lay w); congruence.
Qed.

Definition all_settled (s : state) : Prop := forall a w, W s a = Some w -> settled w.

(* shapes of the writer list after a step *)
Lemma settled_upd s a w w' f rd sc :
  all_settled s -> W s a = Some w -> trans w w' -> all_settled (mkS f (upd a w' (s_ws s)) rd sc).
Proof.
  intros A Hw T a' x Hx. unfold W in Hx; cbn [s_ws] in Hx. rewrite nth_error_upd in Hx.
  destruct (a' =? a).
  - destruct (a <? length (s_ws s)); [|discriminate]. inversion Hx; subst x. apply (trans_settled w); [exact T|apply (A _ _ Hw)].
  - apply (A _ _ Hx).
Qed.

Lemma settled_map_upd s a w w' b e f rd sc :
  all_settled s -> W s a = Some w -> trans (clear_claim b e w) w' -> w_ph (clear_claim b e w) = w_ph w ->
  all_settled (mkS f (upd a w' (map (clear_claim b e) (s_ws s))) rd sc).
Proof.
  intros A Hw T _ a' x Hx. unfold W in Hx; cbn [s_ws] in Hx. rewrite nth_error_upd, map_length in Hx.
  destruct (a' =? a).
  - destruct (a <? length (s_ws s)); [|discriminate]. inversion Hx; subst x.
    apply (trans_settled (clear_claim b e w)); [exact T|]. apply (trans_settled w); [apply trans_clear|apply (A _ _ Hw)].
  - rewrite nth_error_map in Hx. destruct (nth_error (s_ws s) a') as [y|] eqn:E; [|discriminate]. inversion Hx; subst x.
    apply (trans_settled y); [apply trans_clear|apply (A _ _ E)].
Qed.

Lemma settled_map s b e f rd sc :
  all_settled s -> all_settled (mkS f (map (clear_claim b e) (s_ws s)) rd sc).
Proof.
  intros A a' x Hx. unfold W in Hx; cbn [s_ws] in Hx. rewrite nth_error_map in Hx.
  destruct (nth_error (s_ws s) a') as [y|] eqn:E; [|discriminate]. inversion Hx; subst x.
  apply (trans_settled y); [apply trans_clear|apply (A _ _ E)].
Qed.

Ltac tr_solve := unfold trans; cbn; repeat match goal with E : w_ph _ = _ |- _ => rewrite E in *; clear E end;
  intuition (try congruence).

Lemma settled_step c s l s' : faultfree l = true -> all_settled s -> step c s l = Some s' -> all_settled s'.
Proof.
  intros Hf A H. destruct l; cbn [step] in H.
  - (* LBegin *) step_inv H. intros a' x Hx. unfold W in Hx; cbn [s_ws] in Hx.
    destruct (lt_dec a' (length (s_ws s))).
    + rewrite nth_error_app1 in Hx by lia. apply (A _ _ Hx).
    + rewrite nth_error_app2 in Hx by lia. destruct (a' - length (s_ws s)) as [|k]; [|destruct k; discriminate].
      inversion Hx; subst x. intro; discriminate.
  - step_inv H; phase_of Hg; unfold set_w, set_fs_w; apply (settled_upd s a w _ _ _ _ A Ew); tr_solve.
  - step_inv H; phase_of Hg; unfold set_w, set_fs_w; apply (settled_upd s a w _ _ _ _ A Ew); tr_solve.
  - step_inv H; phase_of Hg; unfold set_w, set_fs_w; destruct ok; apply (settled_upd s a w _ _ _ _ A Ew); tr_solve.
  - (* LUnreserve *) step_inv H. destruct r; cbn iota beta; rewrite ?nth_error_map, ?Ew; cbn [option_map].
    + apply (settled_map_upd s a w _ _ _ _ _ _ A Ew); [|apply clear_claim_fields].
      destruct (clear_claim_fields (w_base w) Dat w) as [F1 [F2 [F3 [F4 [F5 _]]]]]. destruct again; tr_solve.
    + apply (settled_upd s a w _ _ _ _ A Ew). destruct again; tr_solve.
    + apply (settled_upd s a w _ _ _ _ A Ew). destruct again; tr_solve.
  - step_inv H; phase_of Hg; unfold set_w, set_fs_w; apply (settled_upd s a w _ _ _ _ A Ew); tr_solve.
  - step_inv H. unfold set_fs_w. apply (settled_upd s a w _ _ _ _ A Ew). tr_solve.
  - step_inv H. ready_phase. destruct in_abort; unfold set_w; apply (settled_upd s a w _ _ _ _ A Ew); tr_solve.
  - step_inv H; ready_phase; unfold set_w, set_fs_w; apply (settled_upd s a w _ _ _ _ A Ew); tr_solve.
  - step_inv H; unfold set_w; try destruct ok; apply (settled_upd s a w _ _ _ _ A Ew); tr_solve.
  - (* LRename *) step_inv H; phase_of Hg.
    + rewrite nth_error_map, Ew. cbn [option_map].
      apply (settled_map_upd s a w _ _ _ _ _ _ A Ew); [|apply clear_claim_fields].
      destruct (n =? w_ino w); unfold trans; cbn; intuition.
    + unfold set_w. apply (settled_upd s a w _ _ _ _ A Ew). tr_solve.
  - (* LDirSync *) step_inv H; phase_of Hg.
    + unfold set_fs_w. apply (settled_upd s a w _ _ _ _ A Ew). tr_solve.
    + discriminate Hf.
  - step_inv H. ready_phase. unfold set_w. apply (settled_upd s a w _ _ _ _ A Ew). tr_solve.
  - (* LAbortRm *) step_inv H. phase_of Hg; destruct e; try discriminate Hg; destruct r; try discriminate Hf;
      cbn iota beta; rewrite ?nth_error_map, ?Ew; cbn [option_map].
    all: try (apply (settled_map_upd s a w _ _ _ _ _ _ A Ew); [|apply clear_claim_fields]).
    all: try (apply (settled_upd s a w _ _ _ _ A Ew)).
    all: try (destruct (clear_claim_fields (w_base w) Tmp w) as [F1 [F2 [F3 [F4 [F5 _]]]]]).
    all: try (destruct (clear_claim_fields (w_base w) Dat w) as [G1 [G2 [G3 [G4 [G5 _]]]]]).
    all: destruct (own_check c); unfold trans; cbn; rewrite ?F5, ?G5, ?Heqp; intuition (try congruence).
  - (* LRm *) step_inv H; try exact A. apply settled_map; exact A.
  - step_inv H; intros a' x Hx; apply (A a' x Hx).
  - step_inv H; intros a' x Hx; apply (A a' x Hx).
  - step_inv H; exact A.
Qed.


(* ---------------------------------------------------------------- conclusions *)
Lemma run_g_run c ls : forall s s', run_g c s ls = Some s' -> run c s ls = Some s'.
Proof.
  induction ls as [|l t IH]; simpl; intros s s' H; [exact H|].
  destruct (guard_ok s l); [|discriminate]. destruct (step c s l); [apply IH; exact H|discriminate].
Qed.

Lemma inv_run_g c ls : forall s s', GInv s -> LInv s -> run_g c s ls = Some s' -> GInv s' /\ LInv s'.
Proof.
  induction ls as [|l t IH]; simpl; intros s s' G L H.
  - inversion H; subst. auto.
  - destruct (guard_ok s l) eqn:Eg; [|discriminate]. destruct (step c s l) as [s1|] eqn:E; [|discriminate].
    apply (IH s1 s' (ginv_step _ _ _ _ G E) (linv_step _ _ _ _ G L Eg E) H).
Qed.

Lemma settled_run_g c ls : forall s s', forallb faultfree ls = true -> all_settled s ->
  run_g c s ls = Some s' -> all_settled s'.
Proof.
  induction ls as [|l t IH]; simpl; intros s s' Hf A H.
  - inversion H; subst. exact A.
  - apply andb_true_iff in Hf as [Hf1 Hf2].
    destruct (guard_ok s l); [|discriminate]. destruct (step c s l) as [s1|] eqn:E; [|discriminate].
    apply (IH s1 s' Hf2 (settled_step _ _ _ _ Hf1 A E) H).
Qed.

Lemma all_settled_init : all_settled s0.
Proof. intros a w H. unfold W in H; simpl in H. destruct a; discriminate. Qed.

Lemma cok_rest w : ph_ok w -> w_cok w = true -> rest_ok w.
Proof.
  unfold ph_ok, quiet, calmf. intros Hp Hc. destruct (w_ph w); try exact Hp; intuition congruence.
Qed.

(* every file whose Close succeeded and that was not tombstoned is listed, with the bytes written *)
Lemma spec_in_scan c s b d :
  GInv s -> LInv s -> In (b, d) (spec_files s) -> valid c d = true -> In (b, d) (scan c s).
Proof.
  intros G L Hin Hv. unfold spec_files in Hin. apply in_flat_map in Hin as [w [Hw Hin]].
  destruct (w_cok w) eqn:Hc; [|destruct Hin]. destruct (w_gone w) eqn:Hg; [destruct Hin|].
  cbn in Hin. destruct Hin as [Hin|[]]. inversion Hin; subst b d.
  apply In_nth_error in Hw as [a Hw]. change (W s a = Some w) in Hw.
  pose proof (cok_rest _ (l_ph _ L _ _ Hw) Hc) as [_ [_ [H3 _]]].
  destruct (H3 Hc) as [_ [_ [_ [Hpost _]]]]. specialize (Hpost Hg).
  pose proof (l_lay _ L _ _ Hw) as Hl. unfold lay_ok in Hl. rewrite Hpost in Hl. destruct Hl as [Hh Hd].
  destruct (g_w_ino _ G _ _ Hw Hh) as [_ Hdat].
  unfold scan. apply in_flat_map. exists ((w_base w, Dat), w_ino w). split.
  - apply dlookup_In. exact Hd.
  - rewrite data_of_idata, Hdat, Hv. left. reflexivity.
Qed.

(* everything listed is such a file, or a complete file whose Close failed at (or is about to
   reach) the directory fsync and that has not been removed since *)
Lemma scan_in_spec c s b d :
  GInv s -> LInv s -> valid c [] = false -> In (b, d) (scan c s) ->
  In (b, d) (spec_files s) \/ In (b, d) (window_files s).
Proof.
  intros G L Hv Hin. destruct (scan_sound c s b d G Hv Hin) as [a [w [Hw [Eb [Hh [Hd [Ed _]]]]]]].
  rewrite <- Eb in Hd. pose proof (l_post _ L _ _ Hw Hh Hd) as Hpost.
  assert (HinW : In w (s_ws s)) by (apply (nth_error_In _ a); exact Hw).
  destruct (w_cok w) eqn:Hc.
  - left. pose proof (cok_rest _ (l_ph _ L _ _ Hw) Hc) as [_ [_ [H3 _]]].
    destruct (H3 Hc) as [_ [_ [_ [_ Hgone]]]].
    assert (Hg : w_gone w = false) by (destruct (w_gone w); [specialize (Hgone eq_refl); congruence|reflexivity]).
    unfold spec_files. apply in_flat_map. exists w. split; [exact HinW|]. rewrite Hc, Hg. cbn. left. congruence.
  - right. unfold window_files. apply in_flat_map. exists w. split; [exact HinW|]. rewrite Hpost, Hc. left. congruence.
Qed.

(* no injected failure at the directory fsync / at Abort's removal, and no Close between its rename
   and its directory fsync: nothing is half-published *)
Lemma window_empty s :
  all_settled s -> (forall a w, W s a = Some w -> w_ph w <> PRenamed) -> window_files s = [].
Proof.
  intros A Hr. unfold window_files.
  assert (H : forall w, In w (s_ws s) ->
            match w_lay w with LPost => if w_cok w then [] else [(w_base w, w_written w)] | _ => [] end = []).
  { intros w Hw. apply In_nth_error in Hw as [a Hw]. destruct (w_lay w) eqn:El; try reflexivity.
    destruct (A a w Hw El) as [[Hc _]|Hp]; [rewrite Hc; reflexivity|]. exfalso. apply (Hr a w Hw Hp). }
  induction (s_ws s) as [|x t IH]; [reflexivity|]. simpl. rewrite H by (left; reflexivity).
  apply IH. intros w Hw. apply H. right. exact Hw.
Qed.

(* the D8 witness on the model without the ownership check, and the same calls with it *)
Definition d8_cfg (own : bool) : cfg := mkC own 100 (fun d => negb (length d =? 0)).
Definition d8_ops : list op :=
  let dx := fun _ : nat => lit "x" in
  [OCreate dx 0 None; OWrite 0 (lit "AAAA") 4; OTombstone (lit "x") None;
   OCreate dx 1 None; OWrite 1 (lit "BB") 2; OClose 0 None].

Lemma d8_refuted :
  exists s, exec_all (d8_cfg false) s0 d8_ops = Some s /\
            In (lit "x", lit "AAAA") (spec_files s) /\ read_file s (lit "x") = Some (lit "BB") /\
            scan (d8_cfg false) s = [(lit "x", lit "BB")].
Proof. eexists. split; [vm_compute; reflexivity|]. vm_compute. auto. Qed.

Lemma d8_fixed :
  exists s, exec_all (d8_cfg true) s0 d8_ops = Some s /\ spec_files s = [] /\ scan (d8_cfg true) s = [].
Proof. eexists. split; [vm_compute; reflexivity|]. vm_compute. auto. Qed.

(* TombstoneFile leaves nothing under the pointer and touches no other name *)
Lemma tombstone_clean c s b s' :
  run c s (plan_tombstone b None s) = Some s' ->
  D (s_fs s') (b, Dat) = None /\ D (s_fs s') (b, Tmp) = None /\
  (forall n, fst n <> b -> D (s_fs s') n = D (s_fs s) n) /\
  (forall i, idata (s_fs s') i = idata (s_fs s) i).
Proof.
  unfold plan_tombstone, fails, rm_res. intro H. cbn [run] in H.
  destruct (step c s (LRm b Dat (if present (b, Dat) (s_fs s) then ROk else RNoent))) as [s1|] eqn:E1; [|discriminate].
  assert (F1 : s_fs s1 = apply_rm (if present (b, Dat) (s_fs s) then ROk else RNoent) (b, Dat) (s_fs s)).
  { cbn [step] in E1. destruct (present (b, Dat) (s_fs s)); step_inv E1; reflexivity. }
  rewrite <- F1 in H.
  destruct (step c s1 (LRm b Tmp (if present (b, Tmp) (s_fs s1) then ROk else RNoent))) as [s2|] eqn:E2; [|discriminate].
  inversion H; subst s2.
  assert (F2 : s_fs s' = apply_rm (if present (b, Tmp) (s_fs s1) then ROk else RNoent) (b, Tmp) (s_fs s1)).
  { cbn [step] in E2. destruct (present (b, Tmp) (s_fs s1)); step_inv E2; reflexivity. }
  assert (E : fname_eqb (b, Dat) (b, Tmp) = false) by (apply fname_eqb_neq; congruence).
  assert (HD1 : D (s_fs s1) (b, Dat) = None).
  { rewrite F1. rewrite present_D. destruct (D (s_fs s) (b, Dat)) eqn:Ed; cbn [apply_rm]; [rewrite D_unlink, fname_eqb_refl; reflexivity|exact Ed]. }
  repeat split.
  - rewrite F2. rewrite present_D. destruct (D (s_fs s1) (b, Tmp)); cbn [apply_rm]; [rewrite D_unlink, E|]; exact HD1.
  - rewrite F2. rewrite present_D. destruct (D (s_fs s1) (b, Tmp)) eqn:Ed; cbn [apply_rm]; [rewrite D_unlink, fname_eqb_refl; reflexivity|exact Ed].
  - intros n Hn.
    assert (N1 : fname_eqb n (b, Dat) = false) by (apply fname_eqb_neq; intro; subst n; apply Hn; reflexivity).
    assert (N2 : fname_eqb n (b, Tmp) = false) by (apply fname_eqb_neq; intro; subst n; apply Hn; reflexivity).
    rewrite F2. destruct (present (b, Tmp) (s_fs s1)); cbn [apply_rm]; rewrite ?D_unlink, ?N2;
      rewrite F1; destruct (present (b, Dat) (s_fs s)); cbn [apply_rm]; rewrite ?D_unlink, ?N1; reflexivity.
  - intro i. rewrite F2, apply_rm_idata, F1, apply_rm_idata. reflexivity.
Qed.

(* CreateFile's creating steps only add names: whatever was reachable stays reachable, unchanged
   (every run, guarded or not) *)
Lemma create_adds_only c s l s' :
  GInv s ->
  match l with LBegin _ | LReserve _ _ _ | LGiveUp _ | LResClose _ _ | LTmpCreate _ _ => True | _ => False end ->
  step c s l = Some s' ->
  forall n i, D (s_fs s) n = Some i ->
    D (s_fs s') n = Some i /\ idata (s_fs s') i = idata (s_fs s) i.
Proof.
  intros G Hl H n i Hd.
  assert (Hlt : (i =? length (f_ino (s_fs s))) = false).
  { destruct n as [b0 e0]. destruct (g_dir _ G _ _ _ Hd) as [o [Ho _]]. apply iown_lt in Ho. apply Nat.eqb_neq. lia. }
  destruct l; try contradiction; cbn [step] in H; step_inv H; cbn [s_fs set_w set_fs_w]; auto.
  - unfold cres_ok in *. rewrite present_D in *. rewrite D_create, idata_create, Hlt.
    destruct (fname_eqb n (b, Dat)) eqn:E; [|auto].
    apply fname_eqb_eq in E. subst n. rewrite Hd in *. discriminate.
  - unfold cres_ok in *. rewrite present_D in *. rewrite D_create, idata_create, Hlt.
    destruct (fname_eqb n (w_base w, Tmp)) eqn:E; [|auto].
    apply fname_eqb_eq in E. subst n. rewrite Hd in *. discriminate.
Qed.

(* ... and the one removing step of CreateFile removes the caller's own 0-byte reservation *)
Lemma unreserve_own c s a r s' :
  GInv s -> LInv s -> step c s (LUnreserve a r) = Some s' ->
  exists w, W s a = Some w /\ D (s_fs s) (w_base w, Dat) = Some (w_res w) /\ idata (s_fs s) (w_res w) = Some [] /\
    (forall n, n <> (w_base w, Dat) -> D (s_fs s') n = D (s_fs s) n) /\
    (forall i, idata (s_fs s') i = idata (s_fs s) i).
Proof.
  intros G L H. cbn [step] in H. step_inv H. exists w. split; [exact Ew|].
  pose proof (l_ph _ L _ _ Ew) as Hp. pose proof (l_lay _ L _ _ Ew) as Hl.
  unfold ph_ok in Hp. rewrite Heqp in Hp. destruct Hp as [Hlay _]. unfold lay_ok in Hl. rewrite Hlay in Hl.
  destruct Hl as [Hd Ho]. split; [exact Hd|]. split; [apply (g_res_empty _ G _ Ho)|]. cbn [s_fs]. split.
  - intros n Hn. destruct r; cbn [apply_rm]; try reflexivity. rewrite D_unlink.
    destruct (fname_eqb n (w_base w, Dat)) eqn:E; [apply fname_eqb_eq in E; contradiction|reflexivity].
  - intro i. apply apply_rm_idata.
Qed.

(* With the ownership check, whatever the callers did before: a Close that returns nil has
   published exactly the bytes written through this writer (atomic call, any fault schedule). *)
Lemma close_owned c s a fault s' w :
  GInv s -> own_check c = true -> W s a = Some w ->
  run c s (plan_close c a fault s) = Some s' ->
  last (plan_close c a fault s) LReadDir = LDirSync a true ->
  read_file s' (w_base w) = Some (w_written w) /\
  exists w', W s' a = Some w' /\ w_cok w' = true /\ w_written w' = w_written w /\ w_base w' = w_base w.
Proof.
  intros G Hoc Hw Hrun Hlast. unfold plan_close in *. unfold W in Hw. rewrite Hw in *. rewrite Hoc in *.
  cbn [andb] in *.
  destruct (lost (s_fs s) w) eqn:Elost; [cbn in Hlast; discriminate|].
  destruct (negb (w_hopen w) || fails fault 0) eqn:E0; [cbn in Hlast; discriminate|].
  destruct (fails fault 1) eqn:E1; [cbn in Hlast; discriminate|].
  destruct (fails fault 2 || negb (present (w_base w, Tmp) (s_fs s))) eqn:E2; [cbn in Hlast; discriminate|].
  destruct (fails fault 3) eqn:E3; [cbn in Hlast; discriminate|]. cbn [negb] in Hrun.
  apply orb_false_iff in E0 as [Eh _]. apply negb_false_iff in Eh.
  unfold lost in Elost. apply orb_false_iff in Elost as [_ Eln]. unfold lost_now in Eln. rewrite Eh in Eln. cbn in Eln.
  destruct (dlookup (w_base w, Tmp) (f_dir (s_fs s))) as [j|] eqn:Ej; [|discriminate].
  apply negb_false_iff, Nat.eqb_eq in Eln. subst j.
  cbn [run] in Hrun.
  destruct (step c s (LSync a true)) as [s1|] eqn:S1; [|discriminate].
  cbn [step] in S1. rewrite Hw in S1. step_inv S1.
  match type of Hrun with context [step c ?st (LHClose a true)] => destruct (step c st (LHClose a true)) as [s2|] eqn:S2; [|discriminate] end.
  cbn [step set_fs_w s_ws] in S2. rewrite (nth_error_upd_same _ _ _ _ Hw) in S2. cbn in S2. inversion S2; subst s2; clear S2.
  match type of Hrun with context [step c ?st (LRename a true)] => destruct (step c st (LRename a true)) as [s3|] eqn:S3; [|discriminate] end.
  cbn [step set_w set_fs_w s_ws s_fs] in S3.
  assert (N1 : nth_error (upd a (set_ph PSynced w) (s_ws s)) a = Some (set_ph PSynced w)) by apply (nth_error_upd_same _ _ _ _ Hw).
  rewrite (nth_error_upd_same _ _ _ _ N1) in S3. cbn [w_ph set_hopen set_ph guardb w_base] in S3.
  change (f_dir (fs_fsync (w_ino w) (s_fs s))) with (f_dir (s_fs s)) in S3. rewrite Ej in S3.
  cbn [w_ino] in S3. rewrite Nat.eqb_refl in S3. inversion S3; subst s3; clear S3.
  destruct (step c _ (LDirSync a true)) as [s4|] eqn:S4; [|discriminate]. inversion Hrun; subst s4; clear Hrun.
  cbn [step s_ws] in S4.
  match type of S4 with context [nth_error (upd a ?x ?l) a] =>
    assert (N2 : nth_error (upd a x l) a = Some x) end.
  { apply nth_error_upd_same with (y := clear_claim (w_base w) Dat (set_hopen false (set_ph PHClosed (set_ph PSynced w)))).
    rewrite nth_error_map. rewrite (nth_error_upd_same _ _ _ _ N1). reflexivity. }
  rewrite N2 in S4. cbn [w_ph set_ph guardb] in S4. inversion S4; subst s'; clear S4.
  destruct (g_w_ino _ G _ _ Hw Hg2) as [_ Hdat].
  assert (Hne : (w_base w, Tmp) <> (w_base w, Dat)) by congruence.
  split.
  - unfold read_file. cbn [s_fs set_fs_w].
    change (dlookup (w_base w, Dat) (f_dir (fs_dirsync ?f))) with (D f (w_base w, Dat)).
    match goal with |- context [D (fs_rename ?x ?y ?f) ?n] =>
      rewrite (D_rename x y f n Hne) by (unfold D; cbn; rewrite Ej; discriminate) end.
    rewrite fname_eqb_refl. unfold D. cbn [f_dir fs_fsync]. rewrite Ej. f_equal.
    rewrite data_of_idata. cbn [s_fs]. 
    change (idata (fs_dirsync ?f) ?i) with (idata f i). rewrite idata_rename, idata_fsync, Hdat. reflexivity.
  - eexists. split; [unfold W; cbn [s_ws set_fs_w]; apply (nth_error_upd_same _ _ _ _ N2)|].
    destruct (clear_claim_fields (w_base w) Dat (set_hopen false (set_ph PHClosed (set_ph PSynced w)))) as [F1 [_ [_ [_ [_ [_ [_ [_ [_ [_ F11]]]]]]]]]].
    rewrite nth_error_map, (nth_error_upd_same _ _ _ _ N1). cbn [option_map].
    cbn [w_cok w_written w_base set_published set_ph set_lay]. rewrite F1, F11. cbn. auto.
Qed.


(* ---------------------------------------------------------------- statements from the initial state *)
Lemma C16_sound_run c ls s b d :
  run c s0 ls = Some s -> valid c [] = false -> In (b, d) (scan c s) ->
  exists a w, W s a = Some w /\ w_base w = b /\ w_hasino w = true /\
              D (s_fs s) (b, Dat) = Some (w_ino w) /\ d = w_written w /\ valid c d = true.
Proof. intros H Hv Hin. apply (scan_sound c s b d (ginv_run c ls s0 s ginv_init H) Hv Hin). Qed.

Lemma C16_complete_run c ls s b d :
  run_g c s0 ls = Some s -> In (b, d) (spec_files s) -> valid c d = true -> In (b, d) (scan c s).
Proof.
  intros H. destruct (inv_run_g c ls s0 s ginv_init linv_init H) as [G L]. apply (spec_in_scan c s b d G L).
Qed.

Lemma C16_spec_run c ls s b d :
  run_g c s0 ls = Some s -> valid c [] = false -> In (b, d) (scan c s) ->
  In (b, d) (spec_files s) \/ In (b, d) (window_files s).
Proof.
  intros H. destruct (inv_run_g c ls s0 s ginv_init linv_init H) as [G L]. apply (scan_in_spec c s b d G L).
Qed.

Lemma C16_exact_run c ls s b d :
  run_g c s0 ls = Some s -> valid c [] = false -> forallb faultfree ls = true ->
  (forall a w, W s a = Some w -> w_ph w <> PRenamed) ->
  (In (b, d) (scan c s) <-> In (b, d) (spec_files s) /\ valid c d = true).
Proof.
  intros H Hv Hf Hr. destruct (inv_run_g c ls s0 s ginv_init linv_init H) as [G L].
  pose proof (settled_run_g c ls s0 s Hf all_settled_init H) as A.
  split.
  - intro Hin. split.
    + destruct (scan_in_spec c s b d G L Hv Hin) as [K|K]; [exact K|]. rewrite (window_empty s A Hr) in K. destruct K.
    + destruct (scan_sound c s b d G Hv Hin) as [a [w [_ [_ [_ [_ [_ Hvd]]]]]]]. exact Hvd.
  - intros [Hin Hvd]. apply (spec_in_scan c s b d G L Hin Hvd).
Qed.

Lemma C16_no_clobber_run c ls s l s' :
  run c s0 ls = Some s ->
  match l with LBegin _ | LReserve _ _ _ | LGiveUp _ | LResClose _ _ | LTmpCreate _ _ => True | _ => False end ->
  step c s l = Some s' ->
  forall n i, D (s_fs s) n = Some i -> D (s_fs s') n = Some i /\ idata (s_fs s') i = idata (s_fs s) i.
Proof. intros H. apply (create_adds_only c s l s' (ginv_run c ls s0 s ginv_init H)). Qed.

Lemma C16_unreserve_run c ls s a r s' :
  run_g c s0 ls = Some s -> step c s (LUnreserve a r) = Some s' ->
  exists w, W s a = Some w /\ D (s_fs s) (w_base w, Dat) = Some (w_res w) /\ idata (s_fs s) (w_res w) = Some [] /\
    (forall n, n <> (w_base w, Dat) -> D (s_fs s') n = D (s_fs s) n) /\
    (forall i, idata (s_fs s') i = idata (s_fs s) i).
Proof.
  intros H. destruct (inv_run_g c ls s0 s ginv_init linv_init H) as [G L]. apply (unreserve_own c s a r s' G L).
Qed.

Lemma C16_close_owned_run c ls s a fault s' w :
  run c s0 ls = Some s -> own_check c = true -> W s a = Some w ->
  run c s (plan_close c a fault s) = Some s' ->
  last (plan_close c a fault s) LReadDir = LDirSync a true ->
  read_file s' (w_base w) = Some (w_written w) /\
  exists w', W s' a = Some w' /\ w_cok w' = true /\ w_written w' = w_written w /\ w_base w' = w_base w.
Proof. intros H. apply (close_owned c s a fault s' w (ginv_run c ls s0 s ginv_init H)). Qed.

(* non-vacuity: a guarded, fault-free run with a published file, a tombstone and a name reuse *)
Definition nv_cfg : cfg := mkC true 100 (fun d => negb (length d =? 0)).
Definition nv_labels : list label :=
  let x := lit "x" in
  [LBegin 0; LReserve 0 x COk; LResClose 0 true; LTmpCreate 0 COk; LWrite 0 (lit "AAAA") 4;
   LSync 0 true; LHClose 0 true; LRename 0 true; LDirSync 0 true;
   LBegin 1; LReserve 1 x CExists; LReserve 1 (lit "y") COk; LResClose 1 true; LTmpCreate 1 COk;
   LRm x Dat ROk; LRm x Tmp RNoent;
   LBegin 2; LReserve 2 x COk; LResClose 2 true; LTmpCreate 2 COk; LWrite 2 (lit "CC") 2;
   LSync 2 true; LHClose 2 true; LRename 2 true; LDirSync 2 true].

Lemma nv_run : exists s, run_g nv_cfg s0 nv_labels = Some s /\ forallb faultfree nv_labels = true /\
  spec_files s = [(lit "x", lit "CC")] /\ scan nv_cfg s = [(lit "x", lit "CC")] /\
  (forall a w, W s a = Some w -> w_ph w <> PRenamed).
Proof.
  eexists. split; [vm_compute; reflexivity|]. split; [reflexivity|]. split; [vm_compute; reflexivity|].
  split; [vm_compute; reflexivity|].
  intros a w H. unfold W in H. cbn in H.
  destruct a as [|[|[|a]]]; cbn in H; try (inversion H; subst w; cbn; discriminate). destruct a; discriminate.
Qed.
