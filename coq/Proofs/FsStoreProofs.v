(* Lemmas and invariants for Model/FsStore.v (C16; reused by C15). *)
From BS Require Import Lib.Bytes Model.FsStore.
From Coq Require Import List NArith Bool Arith Lia.
Import ListNotations.
Open Scope nat_scope.

(* ---------------------------------------------------------------- names *)
Lemma ext_eqb_eq a b : ext_eqb a b = true <-> a = b.
Proof. destruct a, b; simpl; split; congruence. Qed.

Lemma fname_eqb_eq a b : fname_eqb a b = true <-> a = b.
Proof.
  destruct a as [x e], b as [y g]; unfold fname_eqb; simpl.
  rewrite andb_true_iff, str_eqb_eq, ext_eqb_eq. split; [intros [-> ->]; reflexivity|intro H; inversion H; auto].
Qed.

Lemma fname_eqb_refl a : fname_eqb a a = true.
Proof. apply fname_eqb_eq; reflexivity. Qed.

Lemma fname_eqb_neq a b : fname_eqb a b = false <-> a <> b.
Proof.
  split; intro H.
  - intro E. apply fname_eqb_eq in E. congruence.
  - destruct (fname_eqb a b) eqn:E; [apply fname_eqb_eq in E; contradiction|reflexivity].
Qed.

Lemma fname_dec (a b : fname) : {a = b} + {a <> b}.
Proof.
  destruct (fname_eqb a b) eqn:E; [left; apply fname_eqb_eq; exact E|right; apply fname_eqb_neq; exact E].
Qed.

(* ---------------------------------------------------------------- directory maps *)
Lemma dlookup_dremove n m d : dlookup n (dremove m d) = if fname_eqb n m then None else dlookup n d.
Proof.
  induction d as [|[k i] t IH]; simpl.
  - destruct (fname_eqb n m); reflexivity.
  - destruct (fname_eqb m k) eqn:Emk.
    + apply fname_eqb_eq in Emk; subst k. rewrite IH. destruct (fname_eqb n m); reflexivity.
    + simpl. destruct (fname_eqb n k) eqn:Enk.
      * apply fname_eqb_eq in Enk; subst k.
        destruct (fname_eqb n m) eqn:Enm; [|reflexivity].
        apply fname_eqb_eq in Enm; subst. rewrite fname_eqb_refl in Emk. discriminate.
      * exact IH.
Qed.

Lemma dlookup_dset n m i d : dlookup n (dset m i d) = if fname_eqb n m then Some i else dlookup n d.
Proof.
  unfold dset; simpl. destruct (fname_eqb n m) eqn:E; [reflexivity|].
  rewrite dlookup_dremove, E. reflexivity.
Qed.

Lemma dlookup_In n i d : dlookup n d = Some i -> In (n, i) d.
Proof.
  induction d as [|[k j] t IH]; simpl; [discriminate|].
  destruct (fname_eqb n k) eqn:E.
  - apply fname_eqb_eq in E; subst. intro H; inversion H; auto.
  - auto.
Qed.

Definition dwf (d : dirmap) : Prop := NoDup (map fst d).

Lemma In_dremove x n d : In x (dremove n d) -> In x d /\ fst x <> n.
Proof.
  induction d as [|[k j] t IH]; simpl; [tauto|].
  destruct (fname_eqb n k) eqn:E.
  - intro H. destruct (IH H). auto.
  - simpl. intros [<-|H].
    + split; [auto|]. simpl. apply fname_eqb_neq in E. congruence.
    + destruct (IH H). auto.
Qed.

Lemma dwf_dremove n d : dwf d -> dwf (dremove n d).
Proof.
  unfold dwf. induction d as [|[k j] t IH]; simpl; [auto|].
  intro H. inversion H; subst.
  destruct (fname_eqb n k); [auto|]. simpl. constructor; [|auto].
  intro Hin. apply in_map_iff in Hin as [x [Hx Hin]]. apply In_dremove in Hin as [Hin _].
  apply H2. apply in_map_iff. exists x. auto.
Qed.

Lemma dwf_dset n i d : dwf d -> dwf (dset n i d).
Proof.
  intro H. unfold dwf, dset. simpl. constructor; [|apply dwf_dremove; exact H].
  intro Hin. apply in_map_iff in Hin as [x [Hx Hin]]. apply In_dremove in Hin as [_ Hne]. congruence.
Qed.

Lemma In_dlookup n i d : dwf d -> In (n, i) d -> dlookup n d = Some i.
Proof.
  unfold dwf. induction d as [|[k j] t IH]; simpl; [tauto|].
  intros H [E|Hin].
  - inversion E; subst. rewrite fname_eqb_refl. reflexivity.
  - inversion H; subst. destruct (fname_eqb n k) eqn:E.
    + apply fname_eqb_eq in E; subst. exfalso. apply H2. apply in_map_iff. exists (k, i). auto.
    + auto.
Qed.

(* ---------------------------------------------------------------- lists with updates *)
Lemma nth_error_upd {A} (l : list A) a x a' :
  nth_error (upd a x l) a' = if a' =? a then (if a <? length l then Some x else None) else nth_error l a'.
Proof.
  revert a a'. induction l as [|y t IH]; intros [|a] [|b]; simpl; try reflexivity.
  - destruct (b =? a); reflexivity.
  - rewrite IH. destruct (b =? a); [|reflexivity].
    change (S a <? S (length t)) with (a <? length t). reflexivity.
Qed.

Lemma length_upd {A} (l : list A) a x : length (upd a x l) = length l.
Proof. revert a. induction l as [|y t IH]; intros [|a]; simpl; auto. Qed.

Lemma nth_error_upd_same {A} (l : list A) a x y : nth_error l a = Some y -> nth_error (upd a x l) a = Some x.
Proof.
  intro H. rewrite nth_error_upd, Nat.eqb_refl.
  assert (a < length l) by (apply nth_error_Some; congruence).
  apply Nat.ltb_lt in H0. rewrite H0. reflexivity.
Qed.

Lemma nth_error_upd_other {A} (l : list A) a x a' : a' <> a -> nth_error (upd a x l) a' = nth_error l a'.
Proof. intro H. rewrite nth_error_upd. apply Nat.eqb_neq in H. rewrite H. reflexivity. Qed.

Lemma nth_error_ino_upd l i g j :
  nth_error (ino_upd i g l) j = if j =? i then option_map g (nth_error l j) else nth_error l j.
Proof.
  revert i j. induction l as [|y t IH]; intros [|i] [|j]; simpl; try reflexivity.
  - destruct (j =? i); reflexivity.
  - apply IH.
Qed.

Lemma length_ino_upd l i g : length (ino_upd i g l) = length l.
Proof. revert i. induction l as [|y t IH]; intros [|i]; simpl; auto. Qed.

(* ---------------------------------------------------------------- views of the file system *)
(* what the invariants look at: directory lookups, and (data, owner) of inodes *)
Definition D (f : fsys) (n : fname) : option nat := dlookup n (f_dir f).
Definition idata (f : fsys) (i : nat) : option str := option_map i_data (nth_error (f_ino f) i).
Definition iown (f : fsys) (i : nat) : option (option nat) := option_map i_owner (nth_error (f_ino f) i).

Lemma present_D n f : present n f = match D f n with Some _ => true | None => false end.
Proof. reflexivity. Qed.

Lemma D_create n o f m : D (fs_create n o f) m = if fname_eqb m n then Some (length (f_ino f)) else D f m.
Proof. unfold D, fs_create; simpl. apply dlookup_dset. Qed.

Lemma D_unlink n f m : D (fs_unlink n f) m = if fname_eqb m n then None else D f m.
Proof.
  unfold D, fs_unlink. destruct (dlookup n (f_dir f)) eqn:E; simpl.
  - apply dlookup_dremove.
  - destruct (fname_eqb m n) eqn:Em; [|reflexivity]. apply fname_eqb_eq in Em; subst. exact E.
Qed.

Lemma D_rename a b f m : a <> b -> D f a <> None ->
  D (fs_rename a b f) m = if fname_eqb m b then D f a else if fname_eqb m a then None else D f m.
Proof.
  intros Hab Ha. unfold D in *. unfold fs_rename. destruct (dlookup a (f_dir f)) eqn:E; [|congruence].
  cbn [f_dir]. rewrite dlookup_dset, dlookup_dremove. reflexivity.
Qed.

Lemma D_append i b f m : D (fs_append i b f) m = D f m. Proof. reflexivity. Qed.
Lemma D_fsync i f m : D (fs_fsync i f) m = D f m. Proof. reflexivity. Qed.
Lemma D_dirsync f m : D (fs_dirsync f) m = D f m. Proof. reflexivity. Qed.

Lemma idata_create n o f i :
  idata (fs_create n o f) i = if i =? length (f_ino f) then Some [] else idata f i.
Proof.
  unfold idata, fs_create; simpl. destruct (i =? length (f_ino f)) eqn:E.
  - apply Nat.eqb_eq in E; subst. rewrite nth_error_app2, Nat.sub_diag by lia. reflexivity.
  - apply Nat.eqb_neq in E. destruct (lt_dec i (length (f_ino f))).
    + rewrite nth_error_app1 by lia. reflexivity.
    + rewrite (proj2 (nth_error_None _ _)) by (rewrite app_length; simpl; lia).
      rewrite (proj2 (nth_error_None _ _)) by lia. reflexivity.
Qed.

Lemma iown_create n o f i :
  iown (fs_create n o f) i = if i =? length (f_ino f) then Some o else iown f i.
Proof.
  unfold iown, fs_create; simpl. destruct (i =? length (f_ino f)) eqn:E.
  - apply Nat.eqb_eq in E; subst. rewrite nth_error_app2, Nat.sub_diag by lia. reflexivity.
  - apply Nat.eqb_neq in E. destruct (lt_dec i (length (f_ino f))).
    + rewrite nth_error_app1 by lia. reflexivity.
    + rewrite (proj2 (nth_error_None _ _)) by (rewrite app_length; simpl; lia).
      rewrite (proj2 (nth_error_None _ _)) by lia. reflexivity.
Qed.

Lemma idata_unlink n f i : idata (fs_unlink n f) i = idata f i.
Proof.
  unfold idata, fs_unlink. destruct (dlookup n (f_dir f)); [|reflexivity]. simpl.
  rewrite nth_error_ino_upd. destruct (i =? n0); [|reflexivity]. destruct (nth_error (f_ino f) i); reflexivity.
Qed.
Lemma iown_unlink n f i : iown (fs_unlink n f) i = iown f i.
Proof.
  unfold iown, fs_unlink. destruct (dlookup n (f_dir f)); [|reflexivity]. simpl.
  rewrite nth_error_ino_upd. destruct (i =? n0); [|reflexivity]. destruct (nth_error (f_ino f) i); reflexivity.
Qed.

Lemma idata_rename a b f i : idata (fs_rename a b f) i = idata f i.
Proof.
  unfold idata, fs_rename. destruct (dlookup a (f_dir f)); [|reflexivity]. simpl.
  destruct (dlookup b (f_dir f)); [|reflexivity].
  rewrite nth_error_ino_upd. destruct (i =? n0); [|reflexivity]. destruct (nth_error (f_ino f) i); reflexivity.
Qed.
Lemma iown_rename a b f i : iown (fs_rename a b f) i = iown f i.
Proof.
  unfold iown, fs_rename. destruct (dlookup a (f_dir f)); [|reflexivity]. simpl.
  destruct (dlookup b (f_dir f)); [|reflexivity].
  rewrite nth_error_ino_upd. destruct (i =? n0); [|reflexivity]. destruct (nth_error (f_ino f) i); reflexivity.
Qed.

Lemma idata_append j b f i :
  idata (fs_append j b f) i = if i =? j then option_map (fun d => d ++ b) (idata f i) else idata f i.
Proof.
  unfold idata, fs_append; simpl. rewrite nth_error_ino_upd.
  destruct (i =? j); [|reflexivity]. destruct (nth_error (f_ino f) i); reflexivity.
Qed.
Lemma iown_append j b f i : iown (fs_append j b f) i = iown f i.
Proof.
  unfold iown, fs_append; simpl. rewrite nth_error_ino_upd.
  destruct (i =? j); [|reflexivity]. destruct (nth_error (f_ino f) i); reflexivity.
Qed.
Lemma idata_fsync j f i : idata (fs_fsync j f) i = idata f i.
Proof.
  unfold idata, fs_fsync; simpl. rewrite nth_error_ino_upd.
  destruct (i =? j); [|reflexivity]. destruct (nth_error (f_ino f) i); reflexivity.
Qed.
Lemma iown_fsync j f i : iown (fs_fsync j f) i = iown f i.
Proof.
  unfold iown, fs_fsync; simpl. rewrite nth_error_ino_upd.
  destruct (i =? j); [|reflexivity]. destruct (nth_error (f_ino f) i); reflexivity.
Qed.
Lemma idata_dirsync f i : idata (fs_dirsync f) i = idata f i. Proof. reflexivity. Qed.
Lemma iown_dirsync f i : iown (fs_dirsync f) i = iown f i. Proof. reflexivity. Qed.

Lemma idata_lt f i d : idata f i = Some d -> i < length (f_ino f).
Proof. unfold idata. intro H. apply nth_error_Some. destruct (nth_error (f_ino f) i); [congruence|discriminate]. Qed.
Lemma iown_lt f i o : iown f i = Some o -> i < length (f_ino f).
Proof. unfold iown. intro H. apply nth_error_Some. destruct (nth_error (f_ino f) i); [congruence|discriminate]. Qed.

Lemma data_of_idata f i : data_of f i = match idata f i with Some d => d | None => [] end.
Proof. unfold data_of, idata. destruct (nth_error (f_ino f) i); reflexivity. Qed.

Lemma apply_rm_D r n f m :
  rres_ok r n f = true ->
  D (apply_rm r n f) m = match r with ROk => if fname_eqb m n then None else D f m | _ => D f m end.
Proof. destruct r; simpl; intros _; [apply D_unlink|reflexivity|reflexivity]. Qed.
Lemma apply_rm_idata r n f i : idata (apply_rm r n f) i = idata f i.
Proof. destruct r; simpl; [apply idata_unlink|reflexivity|reflexivity]. Qed.
Lemma apply_rm_iown r n f i : iown (apply_rm r n f) i = iown f i.
Proof. destruct r; simpl; [apply iown_unlink|reflexivity|reflexivity]. Qed.

(* ---------------------------------------------------------------- the general invariant (every run) *)
Definition W (s : state) (a : nat) : option writer := nth_error (s_ws s) a.

Definition early (p : phase) : bool :=
  match p with PDraw | PReserved | PResClosed | PUnres _ | PCreateFailed => true | _ => false end.

(* a writer that has its temp file is past CreateFile *)
Definition late (w : writer) : Prop := w_hasino w = true -> early (w_ph w) = false.

Definition same_core (w w' : writer) : Prop :=
  w_hasino w' = w_hasino w /\ w_ino w' = w_ino w /\ w_written w' = w_written w /\ w_base w' = w_base w.

Record GInv (s : state) : Prop := mkGInv {
  g_dwf : dwf (f_dir (s_fs s));
  g_res_empty : forall i, iown (s_fs s) i = Some None -> idata (s_fs s) i = Some [];
  g_w_ino : forall a w, W s a = Some w -> w_hasino w = true ->
      iown (s_fs s) (w_ino w) = Some (Some a) /\ idata (s_fs s) (w_ino w) = Some (w_written w);
  g_ino_w : forall i a, iown (s_fs s) i = Some (Some a) ->
      exists w, W s a = Some w /\ w_hasino w = true /\ w_ino w = i;
  g_dir : forall b e i, D (s_fs s) (b, e) = Some i ->
      exists o, iown (s_fs s) i = Some o /\ (forall a, o = Some a -> exists w, W s a = Some w /\ w_base w = b);
  g_late : forall a w, W s a = Some w -> late w;
  g_written0 : forall a w, W s a = Some w -> w_hasino w = false -> w_written w = []
}.

Lemma ginv_init : GInv s0.
Proof.
  constructor; unfold W, D, iown, idata; simpl; intros.
  - constructor.
  - destruct i; discriminate.
  - destruct a; discriminate.
  - destruct i; discriminate.
  - discriminate.
  - destruct a; discriminate.
  - destruct a; discriminate.
Qed.

Lemma ginv_frame s s' :
  GInv s ->
  dwf (f_dir (s_fs s')) ->
  (forall i, iown (s_fs s') i = iown (s_fs s) i) ->
  (forall i, idata (s_fs s') i = idata (s_fs s) i) ->
  (forall b e i, D (s_fs s') (b, e) = Some i -> exists e0, D (s_fs s) (b, e0) = Some i) ->
  (forall a w, W s a = Some w -> exists w', W s' a = Some w' /\ same_core w w') ->
  (forall a w', W s' a = Some w' -> exists w, W s a = Some w /\ same_core w w' /\ late w') ->
  GInv s'.
Proof.
  intros G Hwf Hown Hdata Hdir Hfw Hbw. constructor.
  - exact Hwf.
  - intros i H. rewrite Hown in H. rewrite Hdata. apply (g_res_empty _ G). exact H.
  - intros a w' Hw' Hh. destruct (Hbw _ _ Hw') as [w [Hw [[E1 [E2 [E3 E4]]] _]]].
    rewrite Hown, Hdata, E2, E3. apply (g_w_ino _ G); [exact Hw|congruence].
  - intros i a H. rewrite Hown in H. destruct (g_ino_w _ G _ _ H) as [w [Hw [Hh Hi]]].
    destruct (Hfw _ _ Hw) as [w' [Hw' [E1 [E2 [E3 E4]]]]]. exists w'. repeat split; congruence.
  - intros b e i H. destruct (Hdir _ _ _ H) as [e0 H0].
    destruct (g_dir _ G _ _ _ H0) as [o [Ho Hb]]. exists o. split; [rewrite Hown; exact Ho|].
    intros a Ea. destruct (Hb _ Ea) as [w [Hw Eb]].
    destruct (Hfw _ _ Hw) as [w' [Hw' [E1 [E2 [E3 E4]]]]]. exists w'. split; congruence.
  - intros a w' Hw'. destruct (Hbw _ _ Hw') as [w [_ [_ L]]]. exact L.
  - intros a w' Hw' Hh. destruct (Hbw _ _ Hw') as [w [Hw [[E1 [E2 [E3 E4]]] _]]].
    rewrite E3. apply (g_written0 _ G _ _ Hw). congruence.
Qed.

(* writer-list updates *)
Lemma W_set_w s a w0 w' a' : W s a = Some w0 ->
  W (set_w a w' s) a' = if a' =? a then Some w' else W s a'.
Proof.
  intro H. unfold W, set_w; simpl. rewrite nth_error_upd.
  assert (a < length (s_ws s)) by (apply nth_error_Some; unfold W in H; congruence).
  apply Nat.ltb_lt in H0. rewrite H0. reflexivity.
Qed.

Lemma W_set_fs_w s f a w0 w' a' : W s a = Some w0 ->
  W (set_fs_w f a w' s) a' = if a' =? a then Some w' else W s a'.
Proof. intro H. exact (W_set_w s a w0 w' a' H). Qed.

Lemma same_core_refl w : same_core w w.
Proof. repeat split. Qed.

Lemma clear_claim_core b e w : same_core w (clear_claim b e w) /\ w_ph (clear_claim b e w) = w_ph w.
Proof.
  unfold clear_claim. destruct (str_eqb (w_base w) b); [|split; [apply same_core_refl|reflexivity]].
  destruct e, (w_lay w); try destruct (w_cok w); split; try reflexivity; repeat split.
Qed.

Lemma late_core w w' : same_core w w' -> w_ph w' = w_ph w -> late w -> late w'.
Proof. intros [E1 _] E L H. rewrite E. apply L. congruence. Qed.

(* only the writer a changes, to w', and the file system is reshaped without touching inodes *)
Lemma ginv_upd_writer s s' a w w' :
  GInv s -> W s a = Some w ->
  dwf (f_dir (s_fs s')) ->
  (forall i, iown (s_fs s') i = iown (s_fs s) i) ->
  (forall i, idata (s_fs s') i = idata (s_fs s) i) ->
  (forall b e i, D (s_fs s') (b, e) = Some i -> exists e0, D (s_fs s) (b, e0) = Some i) ->
  (forall a', W s' a' = if a' =? a then Some w' else W s a') ->
  same_core w w' -> late w' ->
  GInv s'.
Proof.
  intros G Hw Hwf Hown Hdata Hdir HW Hc Hl.
  apply (ginv_frame s s' G Hwf Hown Hdata Hdir).
  - intros a' x Hx. rewrite HW. destruct (a' =? a) eqn:E.
    + apply Nat.eqb_eq in E; subst. exists w'. split; [reflexivity|]. congruence.
    + exists x. split; [exact Hx|apply same_core_refl].
  - intros a' x Hx. rewrite HW in Hx. destruct (a' =? a) eqn:E.
    + apply Nat.eqb_eq in E; subst. inversion Hx; subst. exists w. auto.
    + exists x. split; [exact Hx|]. split; [apply same_core_refl|apply (g_late _ G _ _ Hx)].
Qed.

(* the writer list is mapped through clear_claim (optionally with one writer then replaced) *)
Lemma W_map s (g : writer -> writer) a : nth_error (map g (s_ws s)) a = option_map g (W s a).
Proof. unfold W. apply nth_error_map. Qed.

(* ---------------------------------------------------------------- inversion of [step] *)
Lemma guardb_true b u : guardb b = Some u -> b = true.
Proof. destruct b; [reflexivity|discriminate]. Qed.

Ltac guard_split H :=
  repeat match type of H with
  | _ && _ = true => let H1 := fresh "Hg" in apply andb_true_iff in H as [H H1]; guard_split H1
  end.

(* turn [step c s l = Some s'] into the facts the branch taken establishes *)
Ltac step_inv H :=
  repeat match type of H with
  | match nth_error ?l ?a with _ => _ end = Some _ =>
      let E := fresh "Ew" in destruct (nth_error l a) eqn:E; [|discriminate H]
  | match guardb ?b with _ => _ end = Some _ =>
      let G := fresh "Hg" in destruct (guardb b) eqn:G; [apply guardb_true in G; guard_split G|discriminate H]
  | match ?x with _ => _ end = Some _ => destruct x eqn:?; try discriminate H
  | (if ?x then _ else _) = Some _ => destruct x eqn:?; try discriminate H
  end;
  try (injection H as H; subst).

(* ---------------------------------------------------------------- GInv is preserved by every step *)
Lemma ginv_set_w s a w w' : GInv s -> W s a = Some w -> same_core w w' -> late w' -> GInv (set_w a w' s).
Proof.
  intros G Hw Hc Hl. eapply (ginv_upd_writer s _ a w w' G Hw); simpl; auto.
  - apply (g_dwf _ G).
  - intros b e i H. exists e. exact H.
  - intro a'. apply (W_set_w s a w w' a' Hw).
Qed.

Ltac solve_late G Ew :=
  let L := fresh "L" in let Hh := fresh "Hh" in
  pose proof (g_late _ G _ _ Ew) as L; unfold late in *; cbn in *; intro Hh;
  try specialize (L Hh);
  match type of Ew with _ = Some ?w => destruct (w_ph w) eqn:?; cbn in *; congruence end.

Ltac t_setw G Ew :=
  repeat match goal with |- context [if ?b then _ else _] => is_var b; destruct b end;
  (eapply ginv_set_w; [exact G|exact Ew|repeat split|solve_late G Ew]).


Lemma ginv_same s s' : s_fs s' = s_fs s -> s_ws s' = s_ws s -> GInv s -> GInv s'.
Proof.
  intros Ef Ew G. destruct G. constructor; unfold W in *; rewrite ?Ef, ?Ew; auto.
Qed.

Lemma early_hasino s a w : GInv s -> W s a = Some w -> early (w_ph w) = true -> w_hasino w = false.
Proof.
  intros G Hw He. destruct (w_hasino w) eqn:E; [|reflexivity].
  pose proof (g_late _ G _ _ Hw E). congruence.
Qed.

Lemma ginv_begin s : GInv s -> GInv (mkS (s_fs s) (s_ws s ++ [w0]) (s_rd s) (s_sc s)).
Proof.
  intro G.
  assert (HW : forall a w, W (mkS (s_fs s) (s_ws s ++ [w0]) (s_rd s) (s_sc s)) a = Some w ->
                           W s a = Some w \/ w = w0).
  { unfold W; simpl. intros a w H. destruct (lt_dec a (length (s_ws s))).
    - rewrite nth_error_app1 in H by lia. auto.
    - rewrite nth_error_app2 in H by lia. destruct (a - length (s_ws s)); simpl in H; [inversion H; auto|destruct n0; discriminate]. }
  assert (HW2 : forall a w, W s a = Some w -> W (mkS (s_fs s) (s_ws s ++ [w0]) (s_rd s) (s_sc s)) a = Some w).
  { unfold W; simpl. intros a w H. rewrite nth_error_app1; [exact H|]. apply nth_error_Some. congruence. }
  constructor; simpl.
  - apply (g_dwf _ G).
  - apply (g_res_empty _ G).
  - intros a w H Hh. destruct (HW _ _ H) as [H1| ->]; [|discriminate]. apply (g_w_ino _ G _ _ H1 Hh).
  - intros i a H. destruct (g_ino_w _ G _ _ H) as [w [Hw R]]. exists w. split; [apply HW2; exact Hw|exact R].
  - intros b e i H. destruct (g_dir _ G _ _ _ H) as [o [Ho Hb]]. exists o. split; [exact Ho|].
    intros a Ea. destruct (Hb _ Ea) as [w [Hw Eb]]. exists w. split; [apply HW2; exact Hw|exact Eb].
  - intros a w H. destruct (HW _ _ H) as [H1| ->]; [apply (g_late _ G _ _ H1)|intro; discriminate].
  - intros a w H. destruct (HW _ _ H) as [H1| ->]; [apply (g_written0 _ G _ _ H1)|reflexivity].
Qed.

(* a fresh name bound to a fresh inode; writer a replaced by w' *)
Lemma ginv_create s a w w' n o :
  GInv s -> W s a = Some w -> w_hasino w = false ->
  (o = None -> same_core w w' \/ (w_hasino w' = false /\ w_written w' = w_written w)) ->
  (forall x, o = Some x -> x = a /\ w_hasino w' = true /\ w_ino w' = length (f_ino (s_fs s)) /\ w_written w' = w_written w /\ w_base w' = fst n) ->
  (o = None \/ o = Some a) ->
  late w' ->
  GInv (set_fs_w (fs_create n o (s_fs s)) a w' s).
Proof.
  intros G Hw Hno HoN HoS Ho Hl.
  set (f' := fs_create n o (s_fs s)).
  assert (HW : forall a', W (set_fs_w f' a w' s) a' = if a' =? a then Some w' else W s a')
    by (intro a'; apply (W_set_fs_w s f' a w w' a' Hw)).
  assert (Hlen : forall i oo, iown (s_fs s) i = Some oo -> (i =? length (f_ino (s_fs s))) = false).
  { intros i oo H. apply iown_lt in H. apply Nat.eqb_neq. lia. }
  constructor; cbn [s_fs set_fs_w].
  - apply dwf_dset. apply (g_dwf _ G).
  - intros i H. unfold f' in *. rewrite iown_create in H. rewrite idata_create.
    destruct (i =? length (f_ino (s_fs s))); [reflexivity|apply (g_res_empty _ G _ H)].
  - intros a' x Hx Hh. rewrite HW in Hx. unfold f'. rewrite iown_create, idata_create.
    destruct (a' =? a) eqn:Ea.
    + apply Nat.eqb_eq in Ea; subst a'. inversion Hx; subst x.
      destruct Ho as [->| ->].
      * destruct (HoN eq_refl) as [[E1 _]|[E1 _]]; congruence.
      * destruct (HoS a eq_refl) as [_ [_ [Ei [Ewr _]]]]. rewrite Ei, Nat.eqb_refl.
        split; [reflexivity|]. rewrite Ewr. rewrite (g_written0 _ G _ _ Hw Hno). reflexivity.
    + destruct (g_w_ino _ G _ _ Hx Hh) as [H1 H2]. rewrite (Hlen _ _ H1). auto.
  - intros i a0 H. unfold f' in H. rewrite iown_create in H.
    destruct (i =? length (f_ino (s_fs s))) eqn:Ei.
    + apply Nat.eqb_eq in Ei. inversion H; subst o. destruct (HoS a0 eq_refl) as [-> [E1 [E2 _]]].
      exists w'. rewrite HW, Nat.eqb_refl. repeat split; congruence.
    + destruct (g_ino_w _ G _ _ H) as [x [Hx [Hh Hi]]]. exists x. rewrite HW.
      destruct (a0 =? a) eqn:Ea; [|auto]. apply Nat.eqb_eq in Ea; subst a0. congruence.
  - intros b e i H. unfold f' in H. rewrite D_create in H. unfold f'. rewrite iown_create.
    destruct (fname_eqb (b, e) n) eqn:En.
    + inversion H; subst i. rewrite Nat.eqb_refl. exists o. split; [reflexivity|].
      intros x Ex. destruct (HoS x Ex) as [-> [_ [_ [_ Eb]]]]. exists w'. rewrite HW, Nat.eqb_refl.
      split; [reflexivity|]. apply fname_eqb_eq in En. subst n. exact Eb.
    + destruct (g_dir _ G _ _ _ H) as [oo [Hoo Hb]]. rewrite (Hlen _ _ Hoo). exists oo. split; [exact Hoo|].
      intros x Ex. destruct (Hb _ Ex) as [y [Hy Eb]]. subst oo.
      destruct (g_ino_w _ G _ _ Hoo) as [y' [Hy' [Hh _]]]. rewrite Hy in Hy'. inversion Hy'; subst y'.
      exists y. rewrite HW. destruct (x =? a) eqn:Ea; [|auto]. apply Nat.eqb_eq in Ea; subst x. congruence.
  - intros a' x Hx. rewrite HW in Hx. destruct (a' =? a); [inversion Hx; subst; exact Hl|apply (g_late _ G _ _ Hx)].
  - intros a' x Hx Hh. rewrite HW in Hx. destruct (a' =? a); [|apply (g_written0 _ G _ _ Hx Hh)].
    inversion Hx; subst x. destruct Ho as [->| ->].
    + destruct (HoN eq_refl) as [[_ [_ [E3 _]]]|[_ E3]]; rewrite E3; apply (g_written0 _ G _ _ Hw Hno).
    + destruct (HoS a eq_refl) as [_ [E1 _]]. congruence.
Qed.

Lemma ginv_reshape s f' ws' rd sc :
  GInv s -> dwf (f_dir f') ->
  (forall i, iown f' i = iown (s_fs s) i) ->
  (forall i, idata f' i = idata (s_fs s) i) ->
  (forall b e i, D f' (b, e) = Some i -> exists e0, D (s_fs s) (b, e0) = Some i) ->
  length ws' = length (s_ws s) ->
  (forall a w w', nth_error (s_ws s) a = Some w -> nth_error ws' a = Some w' -> same_core w w' /\ late w') ->
  GInv (mkS f' ws' rd sc).
Proof.
  intros G Hwf Ho Hd HD Hlen Hrel.
  apply (ginv_frame s _ G); cbn [s_fs s_ws]; auto.
  - unfold W; cbn [s_ws]. intros a w Hw.
    destruct (nth_error ws' a) as [x|] eqn:E.
    + exists x. split; [reflexivity|]. apply (Hrel _ _ _ Hw E).
    + exfalso. apply nth_error_None in E. assert (a < length (s_ws s)) by (apply nth_error_Some; congruence). lia.
  - unfold W; cbn [s_ws]. intros a w' Hw'.
    destruct (nth_error (s_ws s) a) as [x|] eqn:E.
    + exists x. split; [reflexivity|]. apply (Hrel _ _ _ E Hw').
    + exfalso. apply nth_error_None in E. assert (a < length ws') by (apply nth_error_Some; congruence). lia.
Qed.

(* writer lists produced by the steps: clear_claim everywhere, then one writer replaced *)
Lemma rel_map_upd s b e a w2 :
  (forall w, nth_error (s_ws s) a = Some w -> same_core w w2 /\ late w2) ->
  GInv s ->
  forall a' w w', nth_error (s_ws s) a' = Some w ->
    nth_error (upd a w2 (map (clear_claim b e) (s_ws s))) a' = Some w' -> same_core w w' /\ late w'.
Proof.
  intros H2 G a' w w' Hw Hw'. rewrite nth_error_upd, map_length in Hw'.
  destruct (a' =? a) eqn:Ea.
  - apply Nat.eqb_eq in Ea; subst a'.
    assert (a < length (s_ws s)) by (apply nth_error_Some; congruence).
    apply Nat.ltb_lt in H. rewrite H in Hw'. inversion Hw'; subst w'. apply H2; exact Hw.
  - rewrite nth_error_map, Hw in Hw'. simpl in Hw'. inversion Hw'; subst w'.
    destruct (clear_claim_core b e w) as [C P]. split; [exact C|].
    apply (late_core _ _ C P). apply (g_late _ G a' w Hw).
Qed.

Lemma rel_map s b e :
  GInv s ->
  forall a' w w', nth_error (s_ws s) a' = Some w ->
    nth_error (map (clear_claim b e) (s_ws s)) a' = Some w' -> same_core w w' /\ late w'.
Proof.
  intros G a' w w' Hw Hw'. rewrite nth_error_map, Hw in Hw'. simpl in Hw'. inversion Hw'; subst w'.
  destruct (clear_claim_core b e w) as [C P]. split; [exact C|].
  apply (late_core _ _ C P). apply (g_late _ G a' w Hw).
Qed.

Lemma rel_upd s a w2 :
  (forall w, nth_error (s_ws s) a = Some w -> same_core w w2 /\ late w2) ->
  GInv s ->
  forall a' w w', nth_error (s_ws s) a' = Some w ->
    nth_error (upd a w2 (s_ws s)) a' = Some w' -> same_core w w' /\ late w'.
Proof.
  intros H2 G a' w w' Hw Hw'. rewrite nth_error_upd in Hw'.
  destruct (a' =? a) eqn:Ea.
  - apply Nat.eqb_eq in Ea; subst a'.
    assert (a < length (s_ws s)) by (apply nth_error_Some; congruence).
    apply Nat.ltb_lt in H. rewrite H in Hw'. inversion Hw'; subst w'. apply H2; exact Hw.
  - rewrite Hw in Hw'. inversion Hw'; subst w'. split; [apply same_core_refl|apply (g_late _ G a' w Hw)].
Qed.

Lemma dwf_unlink n f : dwf (f_dir f) -> dwf (f_dir (fs_unlink n f)).
Proof. intro H. unfold fs_unlink. destruct (dlookup n (f_dir f)); [simpl; apply dwf_dremove|]; exact H. Qed.
Lemma dwf_apply_rm r n f : dwf (f_dir f) -> dwf (f_dir (apply_rm r n f)).
Proof. destruct r; simpl; auto. apply dwf_unlink. Qed.
Lemma dwf_rename a b f : dwf (f_dir f) -> dwf (f_dir (fs_rename a b f)).
Proof. intro H. unfold fs_rename. destruct (dlookup a (f_dir f)); [simpl; apply dwf_dset, dwf_dremove|]; exact H. Qed.

Lemma D_apply_rm_sub r n f b e i : D (apply_rm r n f) (b, e) = Some i -> exists e0, D f (b, e0) = Some i.
Proof.
  destruct r; simpl; intro H; [|exists e; exact H|exists e; exact H].
  rewrite D_unlink in H. destruct (fname_eqb (b, e) n); [discriminate|]. exists e; exact H.
Qed.

Lemma ginv_write s a w bts :
  GInv s -> W s a = Some w -> w_hasino w = true ->
  GInv (set_fs_w (fs_append (w_ino w) bts (s_fs s)) a (add_written bts w) s).
Proof.
  intros G Hw Hh.
  set (f' := fs_append (w_ino w) bts (s_fs s)).
  assert (HW : forall a', W (set_fs_w f' a (add_written bts w) s) a' = if a' =? a then Some (add_written bts w) else W s a')
    by (intro a'; apply (W_set_fs_w s f' a w _ a' Hw)).
  destruct (g_w_ino _ G _ _ Hw Hh) as [Ho Hd].
  constructor; cbn [s_fs set_fs_w].
  - apply (g_dwf _ G).
  - intros i H. unfold f' in *. rewrite iown_append in H. rewrite idata_append.
    destruct (i =? w_ino w) eqn:E; [apply Nat.eqb_eq in E; subst i; congruence|apply (g_res_empty _ G _ H)].
  - intros a' x Hx Hhx. rewrite HW in Hx. unfold f'. rewrite iown_append, idata_append.
    destruct (a' =? a) eqn:Ea.
    + apply Nat.eqb_eq in Ea; subst a'. inversion Hx; subst x. cbn. rewrite Nat.eqb_refl, Hd. auto.
    + destruct (g_w_ino _ G _ _ Hx Hhx) as [H1 H2]. split; [exact H1|].
      destruct (w_ino x =? w_ino w) eqn:E; [|exact H2].
      apply Nat.eqb_eq in E. rewrite E in H1. apply Nat.eqb_neq in Ea. congruence.
  - intros i a0 H. unfold f' in H. rewrite iown_append in H.
    destruct (g_ino_w _ G _ _ H) as [x [Hx [Hhx Hi]]]. rewrite HW.
    destruct (a0 =? a) eqn:Ea; [|exists x; auto].
    apply Nat.eqb_eq in Ea; subst a0. exists (add_written bts w). cbn. rewrite Hw in Hx. inversion Hx; subst x. auto.
  - intros b e i H. unfold f' in *. rewrite D_append in H. rewrite iown_append.
    destruct (g_dir _ G _ _ _ H) as [o [Hoo Hb]]. exists o. split; [exact Hoo|].
    intros x Ex. destruct (Hb _ Ex) as [y [Hy Eb]]. rewrite HW.
    destruct (x =? a) eqn:Ea; [|exists y; auto].
    apply Nat.eqb_eq in Ea; subst x. exists (add_written bts w). cbn. rewrite Hw in Hy. inversion Hy; subst y. auto.
  - intros a' x Hx. rewrite HW in Hx. destruct (a' =? a); [|apply (g_late _ G _ _ Hx)].
    inversion Hx; subst x. pose proof (g_late _ G _ _ Hw) as L. unfold late in *. cbn. exact L.
  - intros a' x Hx Hhx. rewrite HW in Hx. destruct (a' =? a); [|apply (g_written0 _ G _ _ Hx Hhx)].
    inversion Hx; subst x. cbn in Hhx. congruence.
Qed.

Ltac phase_of H := match type of H with
  | context [w_ph ?w] => destruct (w_ph w) eqn:?; try discriminate H
  end.

Lemma ginv_step c s l s' : GInv s -> step c s l = Some s' -> GInv s'.
Proof.
  intros G H. destruct l; cbn [step] in H.
  - (* LBegin *) step_inv H. apply ginv_begin; exact G.
  - (* LReserve *) step_inv H.
    + phase_of Hg.
      assert (Hno : w_hasino w = false) by (apply (early_hasino s a w G Ew); rewrite Heqp; reflexivity).
      apply (ginv_create s a w _ (b, Dat) None G Ew Hno).
      * intros _. right. split; [exact Hno|reflexivity].
      * intros x Ex; discriminate.
      * left; reflexivity.
      * intro Hh. cbn in Hh. congruence.
    + t_setw G Ew.
    + t_setw G Ew.
  - (* LGiveUp *) step_inv H. t_setw G Ew.
  - (* LResClose *) step_inv H; t_setw G Ew.
  - (* LUnreserve *) step_inv H.
    assert (Hno : w_hasino w = false) by (apply (early_hasino s a w G Ew); rewrite Heqp; reflexivity).
    unfold set_fs_w, set_w; apply (ginv_reshape s); auto.
    + apply dwf_apply_rm, (g_dwf _ G).
    + intro i; apply apply_rm_iown.
    + intro i; apply apply_rm_idata.
    + intros b e i; apply D_apply_rm_sub.
    + apply length_upd.
    + apply rel_upd; [|exact G]. intros x Hx. rewrite Ew in Hx. inversion Hx; subst x.
      split; [repeat split|]. intro Hh. cbn in Hh. congruence.
  - (* LTmpCreate *) step_inv H.
    + phase_of Hg.
      assert (Hno : w_hasino w = false) by (apply (early_hasino s a w G Ew); rewrite Heqp; reflexivity).
      apply (ginv_create s a w _ (w_base w, Tmp) (Some a) G Ew Hno).
      * intro; discriminate.
      * intros x Ex. inversion Ex; subst x. repeat split.
      * right; reflexivity.
      * intro Hh. reflexivity.
    + t_setw G Ew.
    + t_setw G Ew.
  - (* LWrite *) step_inv H. apply (ginv_write s a w _ G Ew); assumption.
  - (* LLost *) step_inv H; destruct in_abort; t_setw G Ew.
  - (* LSync *) step_inv H.
    + unfold set_fs_w, set_w; apply (ginv_reshape s); auto.
      * apply (g_dwf _ G).
      * intro i; apply iown_fsync.
      * intro i; apply idata_fsync.
      * intros b e i Hd. exists e. exact Hd.
      * apply length_upd.
      * apply rel_upd; [|exact G]. intros x Hx. rewrite Ew in Hx. inversion Hx; subst x.
        split; [repeat split|]. intro Hh. reflexivity.
    + t_setw G Ew.
  - (* LHClose *) step_inv H; t_setw G Ew.
  - (* LRename *) step_inv H.
    + phase_of Hg.
      assert (Hne : (w_base w, Tmp) <> (w_base w, Dat)) by congruence.
      assert (Hpr : D (s_fs s) (w_base w, Tmp) <> None) by (unfold D; congruence).
      unfold set_fs_w, set_w; apply (ginv_reshape s); auto.
      * apply dwf_rename, (g_dwf _ G).
      * intro i; apply iown_rename.
      * intro i; apply idata_rename.
      * intros b e i Hd. rewrite (D_rename _ _ _ _ Hne Hpr) in Hd.
        destruct (fname_eqb (b, e) (w_base w, Dat)) eqn:E1.
        { apply fname_eqb_eq in E1. inversion E1; subst. exists Tmp. exact Hd. }
        destruct (fname_eqb (b, e) (w_base w, Tmp)); [discriminate|]. exists e. exact Hd.
      * rewrite length_upd, map_length. reflexivity.
      * apply rel_map_upd; [|exact G]. intros x Hx. rewrite Ew in Hx. inversion Hx; subst x.
        rewrite nth_error_map, Ew. cbn [option_map].
        destruct (clear_claim_core (w_base w) Dat w) as [C P].
        destruct C as [C1 [C2 [C3 C4]]].
        split.
        { destruct (n =? w_ino w); repeat split; cbn; assumption. }
        { pose proof (g_late _ G _ _ Ew) as L. unfold late in *.
          destruct (n =? w_ino w); cbn; intro Hh; reflexivity. }
    + t_setw G Ew.
  - (* LDirSync *) step_inv H.
    + unfold set_fs_w, set_w; apply (ginv_reshape s); auto.
      * apply (g_dwf _ G).
      * intros b e i Hd. exists e. exact Hd.
      * apply length_upd.
      * apply rel_upd; [|exact G]. intros x Hx. rewrite Ew in Hx. inversion Hx; subst x.
        split; [repeat split|]. intro Hh. reflexivity.
    + t_setw G Ew.
  - (* LAbortHClose *) step_inv H; t_setw G Ew.
  - (* LAbortRm *) step_inv H.
    phase_of Hg; destruct e; try discriminate Hg; destruct r; cbn iota beta.
    all: unfold set_fs_w, set_w; apply (ginv_reshape s);
      [exact G|apply dwf_apply_rm, (g_dwf _ G)|intro i; apply apply_rm_iown|intro i; apply apply_rm_idata
      |intros b0 e0 i0; apply D_apply_rm_sub| |].
    all: try (rewrite length_upd, ?map_length; reflexivity).
    all: try (apply rel_map_upd; [|exact G]); try (apply rel_upd; [|exact G]).
    all: intros x Hx; rewrite Ew in Hx; inversion Hx; subst x.
    all: rewrite ?nth_error_map, ?Ew; cbn [option_map].
    all: try (destruct (clear_claim_core (w_base w) Tmp w) as [[C1 [C2 [C3 C4]]] P]).
    all: try (destruct (clear_claim_core (w_base w) Dat w) as [[D1 [D2 [D3 D4]]] P']).
    all: destruct (own_check c); (split; [repeat split; cbn; assumption || reflexivity|intro Hh; reflexivity]).
  - (* LRm *) step_inv H.
    + unfold set_fs_w, set_w; apply (ginv_reshape s); auto.
      * apply dwf_unlink, (g_dwf _ G).
      * intro i; apply iown_unlink.
      * intro i; apply idata_unlink.
      * intros b0 e0 i0. apply (D_apply_rm_sub ROk).
      * apply map_length.
      * apply rel_map; exact G.
    + exact G.
    + exact G.
  - (* LOpen *) step_inv H; (eapply ginv_same; [| |exact G]; reflexivity).
  - (* LReadDir *) step_inv H. eapply ginv_same; [| |exact G]; reflexivity.
  - (* LParse *) step_inv H. exact G.
Qed.

Lemma ginv_run c ls : forall s s', GInv s -> run c s ls = Some s' -> GInv s'.
Proof.
  induction ls as [|l t IH]; simpl; intros s s' G H.
  - inversion H; subst; exact G.
  - destruct (step c s l) eqn:E; [|discriminate]. apply (IH _ _ (ginv_step _ _ _ _ G E) H).
Qed.

(* Every file a scan lists holds exactly the bytes some writer of that pointer has written so
   far -- in every run, with or without the ownership check, whatever the callers do. *)
Lemma scan_sound c s b d :
  GInv s -> valid c [] = false -> In (b, d) (scan c s) ->
  exists a w, W s a = Some w /\ w_base w = b /\ w_hasino w = true /\
              D (s_fs s) (b, Dat) = Some (w_ino w) /\ d = w_written w /\ valid c d = true.
Proof.
  intros G Hv Hin. unfold scan in Hin. apply in_flat_map in Hin as [[[b0 e] i] [Hent Hin]].
  destruct e; [|destruct Hin].
  destruct (valid c (data_of (s_fs s) i)) eqn:Ev; [|destruct Hin].
  destruct Hin as [Hin|[]]. inversion Hin; subst b0 d. clear Hin.
  assert (HD : D (s_fs s) (b, Dat) = Some i) by (apply In_dlookup; [apply (g_dwf _ G)|exact Hent]).
  destruct (g_dir _ G _ _ _ HD) as [o [Ho Hb]].
  destruct o as [a|].
  - destruct (Hb a eq_refl) as [w [Hw Eb]].
    destruct (g_ino_w _ G _ _ Ho) as [w' [Hw' [Hh Hi]]]. rewrite Hw in Hw'. inversion Hw'; subst w'.
    destruct (g_w_ino _ G _ _ Hw Hh) as [_ Hd].
    exists a, w. rewrite data_of_idata in *. subst i. rewrite Hd in *. repeat split; auto.
  - rewrite data_of_idata, (g_res_empty _ G _ Ho) in Ev. congruence.
Qed.
