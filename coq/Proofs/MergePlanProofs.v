(* Lemmas for family G, planning part (C11, C12): the merge key is injective, the two
   greedy loops partition their input and respect the limits, the data effect of a merge
   preserves rows, coverage and query answers. *)
From BS Require Import Lib.Bytes Model.MinMax Proofs.MinMaxProofs Model.MergePlan.
From Coq Require Import Lia ZArith NArith List Bool Permutation Arith.
Open Scope Z_scope.

(* ------------------------------------------------------------------ *)
(* bytewise order on strings                                           *)

Lemma str_cmp_opp a b : str_cmp b a = CompOpp (str_cmp a b).
Proof.
  revert b; induction a as [|x a IH]; intros [|y b]; simpl; try reflexivity.
  rewrite (N.compare_antisym x y). destruct (x ?= y)%N; simpl; auto.
Qed.

Lemma str_leb_total a b : str_leb a b = false -> str_leb b a = true.
Proof. unfold str_leb. rewrite (str_cmp_opp a b). destruct (str_cmp a b); simpl; congruence. Qed.

Lemma str_leb_antisym a b : str_leb a b = true -> str_leb b a = true -> a = b.
Proof.
  unfold str_leb. rewrite (str_cmp_opp a b). destruct (str_cmp a b) eqn:E; simpl; try congruence.
  intros _ _. apply str_cmp_eq. exact E.
Qed.

Lemma str_cmp_trans_lt a b c : str_cmp a b = Lt -> str_cmp b c = Lt -> str_cmp a c = Lt.
Proof.
  revert b c; induction a as [|x a IH]; intros [|y b] [|z c]; simpl; try congruence.
  destruct (x ?= y)%N eqn:XY; destruct (y ?= z)%N eqn:YZ; try congruence.
  - apply N.compare_eq in XY, YZ. subst. rewrite N.compare_refl. apply IH.
  - apply N.compare_eq in XY. subst. rewrite YZ. auto.
  - apply N.compare_eq in YZ. subst. rewrite XY. auto.
  - intros _ _. assert (H : (x ?= z)%N = Lt).
    { apply N.compare_lt_iff. apply N.compare_lt_iff in XY. apply N.compare_lt_iff in YZ. eapply N.lt_trans; eauto. }
    rewrite H. reflexivity.
Qed.

Lemma str_leb_trans a b c : str_leb a b = true -> str_leb b c = true -> str_leb a c = true.
Proof.
  unfold str_leb. destruct (str_cmp a b) eqn:AB; try congruence; destruct (str_cmp b c) eqn:BC; try congruence; intros _ _.
  - apply str_cmp_eq in AB, BC. subst. rewrite (proj2 (str_cmp_eq c c) eq_refl). reflexivity.
  - apply str_cmp_eq in AB. subst. rewrite BC. reflexivity.
  - apply str_cmp_eq in BC. subst. rewrite AB. reflexivity.
  - rewrite (str_cmp_trans_lt a b c AB BC). reflexivity.
Qed.

(* ------------------------------------------------------------------ *)
(* sort.Strings as insertion sort: canonical form of a key set         *)

Lemma insert_str_perm x l : Permutation (insert_str x l) (x :: l).
Proof.
  induction l as [|y t IH]; simpl; [reflexivity|].
  destruct (str_leb x y); [reflexivity|].
  rewrite IH. apply perm_swap.
Qed.

Lemma sort_strs_perm l : Permutation (sort_strs l) l.
Proof.
  induction l as [|x t IH]; simpl; [reflexivity|].
  rewrite insert_str_perm. constructor. exact IH.
Qed.

Lemma insert_str_comm a b l : insert_str a (insert_str b l) = insert_str b (insert_str a l).
Proof.
  induction l as [|y t IH]; simpl.
  - destruct (str_leb a b) eqn:AB; destruct (str_leb b a) eqn:BA; auto.
    + rewrite (str_leb_antisym a b AB BA). reflexivity.
    + apply str_leb_total in AB. congruence.
  - destruct (str_leb a y) eqn:AY; destruct (str_leb b y) eqn:BY; simpl.
    + destruct (str_leb a b) eqn:AB; destruct (str_leb b a) eqn:BA; simpl; rewrite ?AY, ?BY; auto.
      * rewrite (str_leb_antisym a b AB BA). reflexivity.
      * apply str_leb_total in AB. congruence.
    + rewrite AY. destruct (str_leb b a) eqn:BA.
      * rewrite (str_leb_trans b a y BA AY) in BY. discriminate.
      * simpl. rewrite BY. reflexivity.
    + rewrite BY. destruct (str_leb a b) eqn:AB.
      * rewrite (str_leb_trans a b y AB BY) in AY. discriminate.
      * simpl. rewrite AY. reflexivity.
    + rewrite AY, BY. f_equal. exact IH.
Qed.

Lemma sort_strs_of_perm l1 l2 : Permutation l1 l2 -> sort_strs l1 = sort_strs l2.
Proof.
  induction 1 as [|x l l' _ IH|x y l|l l' l'' _ IH1 _ IH2]; simpl.
  - reflexivity.
  - rewrite IH. reflexivity.
  - apply insert_str_comm.
  - congruence.
Qed.

(* two key lists sort to the same list iff they are the same multiset (for the duplicate
   free key lists of a Go map: the same set) *)
Lemma sort_strs_eq_iff l1 l2 : sort_strs l1 = sort_strs l2 <-> Permutation l1 l2.
Proof.
  split.
  - intro H. rewrite <- (sort_strs_perm l1), <- (sort_strs_perm l2), H. reflexivity.
  - apply sort_strs_of_perm.
Qed.

(* ------------------------------------------------------------------ *)
(* length-prefixed framing over a prefix-free length code              *)

Section FramingInj.
  Variable lenc : N -> str.
  (* prefix freeness: no code word is a prefix of a different one *)
  Hypothesis lenc_pf : forall n m s t, lenc n ++ s = lenc m ++ t -> n = m.

  Lemma lenc_nonempty n : lenc n <> [].
  Proof.
    intro E.
    assert (H0 : n = 0%N) by (apply (lenc_pf n 0%N (lenc 0%N) []); rewrite E, app_nil_r; reflexivity).
    assert (H1 : n = 1%N) by (apply (lenc_pf n 1%N (lenc 1%N) []); rewrite E, app_nil_r; reflexivity).
    congruence.
  Qed.

  Lemma frame1_inj x y s t : frame1 lenc x ++ s = frame1 lenc y ++ t -> x = y /\ s = t.
  Proof.
    unfold frame1. rewrite <- !app_assoc. intro H.
    pose proof (lenc_pf _ _ _ _ H) as Hl. apply Nat2N.inj in Hl.
    rewrite Hl in H. apply app_inv_head in H.
    revert y Hl H. induction x as [|a x IH]; intros [|b y] Hl H; simpl in *; try discriminate; auto.
    inversion H; subst. destruct (IH y) as [E1 E2]; auto. subst. auto.
  Qed.

  Lemma frame_inj xs ys : frame lenc xs = frame lenc ys -> xs = ys.
  Proof.
    unfold frame. revert ys; induction xs as [|x xs IH]; intros [|y ys]; simpl; intro H; auto.
    - symmetry in H. apply app_eq_nil in H as [H _]. unfold frame1 in H. apply app_eq_nil in H as [H _].
      destruct (lenc_nonempty _ H).
    - apply app_eq_nil in H as [H _]. unfold frame1 in H. apply app_eq_nil in H as [H _].
      destruct (lenc_nonempty _ H).
    - apply frame1_inj in H as [E1 E2]. subst. f_equal. apply IH. exact E2.
  Qed.
End FramingInj.

(* binary.AppendUvarint is such a code *)
Lemma uvarint_prefix_free fuel : forall n m s t, uvarint fuel n ++ s = uvarint fuel m ++ t -> n = m.
Proof.
  induction fuel as [|f IH]; intros n m s t; simpl.
  - intro H. inversion H. reflexivity.
  - destruct (N.ltb_spec n 128); destruct (N.ltb_spec m 128); simpl; intro E; inversion E as [[E1 E2]].
    + reflexivity.
    + exfalso. generalize dependent (m mod 128)%N. intros; lia.
    + exfalso. generalize dependent (n mod 128)%N. intros; lia.
    + apply IH in E2.
      rewrite (N.div_mod n 128), (N.div_mod m 128) by lia.
      assert (E3 : (n mod 128 = m mod 128)%N).
      { generalize dependent (n mod 128)%N. generalize dependent (m mod 128)%N. intros; lia. }
      congruence.
Qed.

Lemma key_parts_inj m1 m2 : merge_key m1 = merge_key m2 -> key_parts m1 = key_parts m2.
Proof. apply frame_inj. apply uvarint_prefix_free. Qed.

(* blockMergeKey is an injective function of (partition, key set) *)
Lemma merge_key_iff m1 m2 :
  merge_key m1 = merge_key m2 <->
  b_partition m1 = b_partition m2 /\ Permutation (map fst (b_mm m1)) (map fst (b_mm m2)).
Proof.
  split.
  - intro H. apply key_parts_inj in H. unfold key_parts in H. inversion H as [[H1 H2]].
    split; [reflexivity|]. apply sort_strs_eq_iff. exact H2.
  - intros [H1 H2]. unfold merge_key, key_parts. rewrite H1, (sort_strs_of_perm _ _ H2). reflexivity.
Qed.

Lemma same_key_iff a b :
  same_key a b = true <->
  b_part a = b_part b /\ Permutation (map fst (b_minmax a)) (map fst (b_minmax b)).
Proof. unfold same_key. rewrite str_eqb_eq. apply merge_key_iff. Qed.

(* ------------------------------------------------------------------ *)
(* small list facts                                                    *)

Lemma zsum_app l1 l2 : zsum (l1 ++ l2) = zsum l1 + zsum l2.
Proof. induction l1 as [|x t IH]; simpl; [reflexivity|]. rewrite IH. lia. Qed.

Lemma zsum_perm l1 l2 : Permutation l1 l2 -> zsum l1 = zsum l2.
Proof. induction 1; simpl; lia. Qed.

Lemma mem_z_In x l : mem_z x l = true <-> In x l.
Proof.
  induction l as [|y t IH]; simpl; [split; [discriminate|tauto]|].
  rewrite orb_true_iff, IH, Z.eqb_eq. split; intros [H|H]; auto.
Qed.

Lemma mem_z_false x l : mem_z x l = false <-> ~ In x l.
Proof. rewrite <- mem_z_In. destruct (mem_z x l); split; congruence. Qed.

Lemma zsum_nonneg_member (l : list Z) x : (forall y, In y l -> 0 <= y) -> In x l -> x <= zsum l.
Proof.
  induction l as [|y t IH]; simpl; [tauto|]. intros Hn [->|Hin].
  - assert (0 <= zsum t); [|lia]. clear IH. induction t as [|z t IHt]; simpl; [lia|].
    assert (0 <= z) by (apply Hn; simpl; auto). assert (0 <= zsum t); [|lia]. apply IHt. intros w Hw. apply Hn. simpl in *. tauto.
  - assert (0 <= y) by (apply Hn; auto). assert (x <= zsum t); [|lia]. apply IH; auto.
Qed.

(* ------------------------------------------------------------------ *)
(* identifyFileMergeGroups                                             *)

Lemma insert_file_perm x l : Permutation (insert_file x l) (x :: l).
Proof.
  induction l as [|y t IH]; simpl; [reflexivity|].
  destruct (file_less x y); [reflexivity|]. rewrite IH. apply perm_swap.
Qed.

Lemma sort_files_perm l : Permutation (sort_files l) l.
Proof.
  unfold sort_files. rewrite (Permutation_rev l) at 2.
  induction (rev l) as [|x t IH]; simpl; [reflexivity|].
  rewrite insert_file_perm. constructor. exact IH.
Qed.

Definition files_size (l : list file) : Z := zsum (map f_total_size l).

Lemma grow_perm c total : forall rest glen gsize gb m r,
  grow c total glen gsize gb rest = (m, r) -> Permutation (m ++ r) rest.
Proof.
  induction rest as [|x rest IH]; intros glen gsize gb m r; simpl.
  - intro H; inversion H; subst. reflexivity.
  - destruct (c_max_files c <? total + glen + 1).
    { intro H; inversion H; subst. reflexivity. }
    destruct (c_max_file_size c <? gsize + f_total_size x).
    { destruct (grow c total glen gsize gb rest) as [m' r'] eqn:G. intro H; inversion H; subst.
      apply IH in G. rewrite <- G. symmetry. apply Permutation_middle. }
    destruct (has_pair c gb (f_blocks x)).
    + destruct (grow c total (glen + 1) (gsize + f_total_size x) (gb ++ f_blocks x) rest) as [m' r'] eqn:G.
      intro H; inversion H; subst. apply IH in G. simpl. constructor. exact G.
    + destruct (grow c total glen gsize gb rest) as [m' r'] eqn:G. intro H; inversion H; subst.
      apply IH in G. rewrite <- G. symmetry. apply Permutation_middle.
Qed.

(* whoever joined: the running size and count tests held when the last one joined *)
Lemma grow_limits c total : forall rest glen gsize gb m r,
  grow c total glen gsize gb rest = (m, r) -> m <> [] ->
  gsize + files_size m <= c_max_file_size c /\ total + glen + Z.of_nat (length m) <= c_max_files c.
Proof.
  induction rest as [|x rest IH]; intros glen gsize gb m r; simpl.
  - intro H; inversion H; subst. congruence.
  - destruct (Z.ltb_spec (c_max_files c) (total + glen + 1)) as [Hc|Hc].
    { intro H; inversion H; subst. congruence. }
    destruct (Z.ltb_spec (c_max_file_size c) (gsize + f_total_size x)) as [Hs|Hs].
    { destruct (grow c total glen gsize gb rest) as [m' r'] eqn:G. intro H; inversion H; subst. eapply IH; eauto. }
    destruct (has_pair c gb (f_blocks x)).
    + destruct (grow c total (glen + 1) (gsize + f_total_size x) (gb ++ f_blocks x) rest) as [m' r'] eqn:G.
      intro H; inversion H; subst. intros _. unfold files_size. cbn [map zsum fold_right length].
      destruct m' as [|y m'].
      * simpl. lia.
      * destruct (IH _ _ _ _ _ G) as [A B]; [discriminate|]. unfold files_size in A.
        cbn [map zsum fold_right length] in *. rewrite !Nat2Z.inj_succ in *. lia.
    + destruct (grow c total glen gsize gb rest) as [m' r'] eqn:G. intro H; inversion H; subst. eapply IH; eauto.
Qed.

(* every file that joined had a block pairing with a block already in the group *)
Lemma grow_length c total : forall rest glen gsize gb m r,
  grow c total glen gsize gb rest = (m, r) -> (length r <= length rest)%nat.
Proof.
  intros rest glen gsize gb m r H. apply grow_perm in H. apply Permutation_length in H.
  rewrite app_length in H. lia.
Qed.

Definition group_ok (c : cfg) (g : list file) : Prop :=
  (2 <= length g)%nat /\ files_size g <= c_max_file_size c.

Lemma greedy_spec c : forall fuel total rest,
  (length rest <= fuel)%nat -> 0 <= total ->
  let groups := greedy fuel c total rest in
  (exists leftover, Permutation (concat groups ++ leftover) rest) /\
  Forall (group_ok c) groups /\
  (groups <> [] -> total + Z.of_nat (length (concat groups)) <= c_max_files c).
Proof.
  induction fuel as [|fu IH]; intros total rest Hlen Ht; simpl.
  - destruct rest; [|simpl in Hlen; lia]. split; [exists []; reflexivity|]. split; [constructor|congruence].
  - destruct rest as [|f rest].
    { split; [exists []; reflexivity|]. split; [constructor|congruence]. }
    destruct (Z.leb_spec (c_max_files c) total) as [Hb|Hb].
    { split; [exists (f :: rest); reflexivity|]. split; [constructor|congruence]. }
    destruct (grow c total 1 (f_total_size f) (f_blocks f) rest) as [m r] eqn:G.
    pose proof (grow_perm _ _ _ _ _ _ _ _ G) as Hp.
    pose proof (grow_length _ _ _ _ _ _ _ _ G) as Hl. simpl in Hlen.
    destruct m as [|y m].
    + destruct (IH total r) as [[lo Hlo] [Hok Hcnt]]; [lia|lia|].
      split; [|split; assumption].
      exists (f :: lo). rewrite <- Permutation_middle. constructor. rewrite Hlo. exact Hp.
    + destruct (grow_limits _ _ _ _ _ _ _ _ G) as [Hs Hc]; [discriminate|].
      destruct (IH (total + 1 + Z.of_nat (length (y :: m))) r) as [[lo Hlo] [Hok Hcnt]]; [lia|lia|].
      split; [|split].
      * exists lo. simpl. constructor.
        rewrite <- Hp. simpl. constructor. rewrite <- app_assoc. apply Permutation_app_head. exact Hlo.
      * constructor; [|exact Hok]. split; [simpl; lia|].
        unfold files_size in *. cbn [map zsum fold_right] in *. lia.
      * intros _. cbn [concat]. rewrite app_length.
        destruct (greedy fu c (total + 1 + Z.of_nat (length (y :: m))) r) eqn:Eg.
        -- simpl. rewrite Nat.add_0_r. cbn [length] in *. lia.
        -- rewrite Nat2Z.inj_add. cbn [length] in *.
           assert (Hne : l :: l0 <> []) by discriminate. specialize (Hcnt Hne). lia.
Qed.

(* the statements used by C12 *)
Lemma plan_files_ord_spec c sorted :
  let groups := plan_files_ord c sorted in
  (exists leftover, Permutation (concat groups ++ leftover) sorted) /\
  Forall (group_ok c) groups /\
  Z.of_nat (length (concat groups)) <= Z.max 0 (c_max_files c).
Proof.
  unfold plan_files_ord. destruct (length sorted <? 2)%nat.
  - simpl. split; [exists sorted; reflexivity|]. split; [constructor|lia].
  - destruct (greedy_spec c (length sorted) 0 sorted) as [A [B C]]; [lia|lia|].
    split; [exact A|]. split; [exact B|].
    destruct (greedy (length sorted) c 0 sorted) eqn:E; [simpl; lia|].
    assert (Hne : l :: l0 <> []) by discriminate. specialize (C Hne). lia.
Qed.

Lemma plan_files_spec c files :
  let groups := plan_files c files in
  (exists leftover, Permutation (concat groups ++ leftover) files) /\
  Forall (group_ok c) groups /\
  Z.of_nat (length (concat groups)) <= Z.max 0 (c_max_files c).
Proof.
  unfold plan_files. destruct (plan_files_ord_spec c (sort_files files)) as [[lo A] [B C]].
  split; [|split; assumption]. exists lo. rewrite A. apply sort_files_perm.
Qed.

Lemma NoDup_app_inv {A} (l1 l2 : list A) :
  NoDup (l1 ++ l2) -> NoDup l1 /\ NoDup l2 /\ (forall x, In x l1 -> ~ In x l2).
Proof.
  induction l1 as [|a l1 IH]; simpl; intro H.
  - split; [constructor|]. split; [exact H|]. tauto.
  - inversion H as [|? ? Hn Hd]; subst. destruct (IH Hd) as [A1 [A2 A3]].
    split; [constructor; [intro Hin; apply Hn; apply in_or_app; auto|exact A1]|].
    split; [exact A2|]. intros x [->|Hx]; [intro Hin; apply Hn; apply in_or_app; auto|auto].
Qed.

(* pointer-level disjointness: no file is in two groups, nor twice in one *)
Lemma groups_nodup (groups : list (list file)) leftover files :
  Permutation (concat groups ++ leftover) files -> NoDup (map f_ptr files) ->
  NoDup (map f_ptr (concat groups)).
Proof.
  intros Hp Hn. apply (Permutation_map f_ptr) in Hp. rewrite map_app in Hp.
  apply Permutation_sym in Hp. apply (Permutation_NoDup Hp) in Hn.
  apply NoDup_app_inv in Hn. apply Hn.
Qed.

(* a file bigger than MaxFileSize is never grouped (sizes being non-negative) *)
Lemma oversized_never_grouped c g f :
  group_ok c g -> (forall x, In x g -> 0 <= f_total_size x) -> In f g -> f_total_size f <= c_max_file_size c.
Proof.
  intros [_ Hs] Hnn Hin. unfold files_size in Hs.
  assert (f_total_size f <= zsum (map f_total_size g)); [|lia].
  apply zsum_nonneg_member.
  - intros y Hy. apply in_map_iff in Hy as [x [<- Hx]]. auto.
  - apply in_map. exact Hin.
Qed.

(* ------------------------------------------------------------------ *)
(* processPartitionBlocks                                              *)

Definition blocks_rows (g : list block) : Z := zsum (map b_nrows g).
Definition blocks_usize (g : list block) : Z := zsum (map b_usize g).

Lemma take_group_perm c seed : forall rest cr cs m r,
  take_group c seed cr cs rest = (m, r) -> Permutation (m ++ r) rest.
Proof.
  induction rest as [|o rest IH]; intros cr cs m r; simpl.
  - intro H; inversion H; subst. reflexivity.
  - destruct (within c seed o && ((cr + b_nrows o <=? c_max_rows c) && (cs + b_usize o <=? c_max_bytes c))).
    + destruct (take_group c seed (cr + b_nrows o) (cs + b_usize o) rest) as [m' r'] eqn:G.
      intro H; inversion H; subst. simpl. constructor. eapply IH; eauto.
    + destruct (take_group c seed cr cs rest) as [m' r'] eqn:G.
      intro H; inversion H; subst. rewrite <- (IH _ _ _ _ G). symmetry. apply Permutation_middle.
Qed.

(* the cumulative test bounds the whole group: dropping it breaks this lemma *)
Lemma take_group_limits c seed : forall rest cr cs m r,
  take_group c seed cr cs rest = (m, r) -> m <> [] ->
  cr + blocks_rows m <= c_max_rows c /\ cs + blocks_usize m <= c_max_bytes c.
Proof.
  induction rest as [|o rest IH]; intros cr cs m r; simpl.
  - intro H; inversion H; subst. congruence.
  - destruct (within c seed o && ((cr + b_nrows o <=? c_max_rows c) && (cs + b_usize o <=? c_max_bytes c))) eqn:T.
    + destruct (take_group c seed (cr + b_nrows o) (cs + b_usize o) rest) as [m' r'] eqn:G.
      intro H; inversion H; subst. intros _.
      apply andb_true_iff in T as [_ T]. apply andb_true_iff in T as [T1 T2].
      apply Z.leb_le in T1, T2. unfold blocks_rows, blocks_usize. cbn [map zsum fold_right].
      destruct m' as [|y m'].
      * simpl. lia.
      * destruct (IH _ _ _ _ G) as [A B]; [discriminate|]. unfold blocks_rows, blocks_usize in *.
        cbn [map zsum fold_right] in *. lia.
    + destruct (take_group c seed cr cs rest) as [m' r'] eqn:G.
      intro H; inversion H; subst. eapply IH; eauto.
Qed.

(* every member also passed the pairwise test against the seed *)
Lemma take_group_pairwise c seed : forall rest cr cs m r,
  take_group c seed cr cs rest = (m, r) -> forall o, In o m -> within c seed o = true.
Proof.
  induction rest as [|o rest IH]; intros cr cs m r; simpl.
  - intro H; inversion H; subst. simpl. tauto.
  - destruct (within c seed o && ((cr + b_nrows o <=? c_max_rows c) && (cs + b_usize o <=? c_max_bytes c))) eqn:T.
    + destruct (take_group c seed (cr + b_nrows o) (cs + b_usize o) rest) as [m' r'] eqn:G.
      intro H; inversion H; subst. intros x [->|Hx].
      * apply andb_true_iff in T. apply T.
      * eapply IH; eauto.
    + destruct (take_group c seed cr cs rest) as [m' r'] eqn:G.
      intro H; inversion H; subst. eapply IH; eauto.
Qed.

Definition limits_ok (c : cfg) (g : list block) : Prop :=
  blocks_rows g <= c_max_rows c /\ blocks_usize g <= c_max_bytes c.

Lemma plan_bucket_spec c : forall fuel bucket,
  (length bucket <= fuel)%nat ->
  Permutation (concat (plan_bucket fuel c bucket)) bucket /\
  Forall (fun g => g <> [] /\ ((2 <= length g)%nat -> limits_ok c g)) (plan_bucket fuel c bucket).
Proof.
  induction fuel as [|fu IH]; intros bucket Hl; simpl.
  - destruct bucket; [|simpl in Hl; lia]. split; [reflexivity|constructor].
  - destruct bucket as [|s rest]; [split; [reflexivity|constructor]|].
    destruct (take_group c s (b_nrows s) (b_usize s) rest) as [m r] eqn:G.
    pose proof (take_group_perm _ _ _ _ _ _ _ G) as Hp.
    assert (Hlr : (length r <= fu)%nat).
    { apply Permutation_length in Hp. rewrite app_length in Hp. simpl in Hl. lia. }
    destruct (IH r Hlr) as [A B]. split.
    + simpl. constructor. rewrite <- Hp. apply Permutation_app_head. exact A.
    + constructor; [|exact B]. split; [discriminate|].
      intro H2. destruct m as [|y m]; [simpl in H2; lia|].
      destruct (take_group_limits _ _ _ _ _ _ _ G) as [L1 L2]; [discriminate|].
      unfold limits_ok, blocks_rows, blocks_usize in *. cbn [map zsum fold_right] in *. lia.
Qed.

Lemma add_bucket_perm b : forall bks,
  Permutation (flat_map snd (add_bucket b bks)) (b :: flat_map snd bks).
Proof.
  induction bks as [|[k l] t IH]; simpl; [reflexivity|].
  destruct (str_eqb k (merge_key (b_meta b))); simpl.
  - rewrite <- app_assoc. simpl. symmetry. apply Permutation_middle.
  - rewrite IH. symmetry. apply Permutation_middle.
Qed.

Definition bucket_inv (bks : list (str * list block)) : Prop :=
  Forall (fun kb => forall x, In x (snd kb) -> merge_key (b_meta x) = fst kb) bks.

Lemma add_bucket_inv b bks : bucket_inv bks -> bucket_inv (add_bucket b bks).
Proof.
  unfold bucket_inv. induction bks as [|[k l] t IH]; simpl; intro H.
  - constructor; [|constructor]. simpl. intros x [<-|[]]. reflexivity.
  - inversion H as [|? ? H1 H2]; subst. destruct (str_eqb k (merge_key (b_meta b))) eqn:E.
    + constructor; [|exact H2]. simpl in *. intros x Hx. apply in_app_or in Hx as [Hx|[<-|[]]]; auto.
      apply str_eqb_eq in E. auto.
    + constructor; [exact H1|]. apply IH. exact H2.
Qed.

Lemma bucketize_spec bs :
  Permutation (flat_map snd (bucketize bs)) bs /\ bucket_inv (bucketize bs).
Proof.
  unfold bucketize.
  assert (G : forall acc, bucket_inv acc ->
                          Permutation (flat_map snd (fold_left (fun a b => add_bucket b a) bs acc)) (flat_map snd acc ++ bs) /\
                          bucket_inv (fold_left (fun a b => add_bucket b a) bs acc)).
  { induction bs as [|b bs IH]; intros acc Hi; simpl.
    - rewrite app_nil_r. split; [reflexivity|exact Hi].
    - destruct (IH (add_bucket b acc) (add_bucket_inv b acc Hi)) as [A B]. split; [|exact B].
      rewrite A, add_bucket_perm. simpl. apply Permutation_middle. }
  destruct (G [] (Forall_nil _)) as [A B]. split; [exact A|exact B].
Qed.

Lemma concat_flat_map {A B} (f : A -> list (list B)) (l : list A) :
  concat (flat_map f l) = flat_map (fun x => concat (f x)) l.
Proof. induction l as [|x t IH]; simpl; [reflexivity|]. rewrite concat_app, IH. reflexivity. Qed.

Lemma flat_map_perm_pointwise {A B} (f g : A -> list B) (l : list A) :
  (forall x, In x l -> Permutation (f x) (g x)) -> Permutation (flat_map f l) (flat_map g l).
Proof.
  induction l as [|x t IH]; simpl; intro H; [reflexivity|].
  apply Permutation_app; [apply H; auto|apply IH; intros; apply H; auto].
Qed.

(* an output block group: non-empty, one merge key, within limits when it combines blocks *)
Definition bgroup_ok (c : cfg) (g : list block) : Prop :=
  g <> [] /\
  (forall x y, In x g -> In y g -> merge_key (b_meta x) = merge_key (b_meta y)) /\
  ((2 <= length g)%nat -> limits_ok c g).

Lemma plan_partition_spec c bs :
  Permutation (concat (plan_partition c bs)) bs /\ Forall (bgroup_ok c) (plan_partition c bs).
Proof.
  unfold plan_partition. destruct (bucketize_spec bs) as [Hp Hi]. split.
  - rewrite concat_flat_map. eapply Permutation_trans; [|exact Hp]. apply flat_map_perm_pointwise.
    intros kb _. apply plan_bucket_spec. lia.
  - apply Forall_forall. intros g Hg. apply in_flat_map in Hg as [[k l] [Hkb Hg]]. simpl in Hg.
    destruct (plan_bucket_spec c (length l) l (le_n _)) as [Pp Pf].
    rewrite Forall_forall in Pf. destruct (Pf g Hg) as [Hne Hlim].
    split; [exact Hne|]. split; [|exact Hlim].
    unfold bucket_inv in Hi. rewrite Forall_forall in Hi. specialize (Hi (k, l) Hkb). simpl in Hi.
    assert (Hin : forall x, In x g -> In x l).
    { intros x Hx. eapply Permutation_in; [exact Pp|]. apply in_concat. exists g. auto. }
    intros x y Hx Hy. rewrite (Hi x (Hin x Hx)), (Hi y (Hin y Hy)). reflexivity.
Qed.

(* splitting a block list by partition loses and duplicates nothing *)
Lemma split_by_partition (bs : list block) : forall porder,
  NoDup porder -> (forall b, In b bs -> In (b_part b) porder) ->
  Permutation (flat_map (fun p => filter (fun b => str_eqb (b_part b) p) bs) porder) bs.
Proof.
  induction bs as [|b bs IH]; intros porder Hn Hc.
  - clear. induction porder as [|p po IHp]; simpl; [constructor|exact IHp].
  - assert (Hstep : forall po, NoDup po ->
       Permutation (flat_map (fun p => filter (fun x => str_eqb (b_part x) p) (b :: bs)) po)
                   ((if mem_str (b_part b) po then [b] else []) ++
                    flat_map (fun p => filter (fun x => str_eqb (b_part x) p) bs) po)).
    { induction po as [|p po IHp]; intro Hnd; simpl; [reflexivity|].
      inversion Hnd as [|? ? Hnp Hnd']; subst. specialize (IHp Hnd').
      destruct (str_eqb (b_part b) p) eqn:E; simpl.
      - apply str_eqb_eq in E. subst p.
        assert (Hm : mem_str (b_part b) po = false).
        { destruct (mem_str (b_part b) po) eqn:M; [|reflexivity]. apply mem_str_In in M. contradiction. }
        rewrite Hm in IHp. simpl in IHp. constructor. apply Permutation_app_head. exact IHp.
      - rewrite IHp. destruct (mem_str (b_part b) po); simpl; [|reflexivity].
        symmetry. apply Permutation_middle. }
    rewrite (Hstep porder Hn).
    assert (Hm : mem_str (b_part b) porder = true) by (apply mem_str_In; apply Hc; simpl; auto).
    rewrite Hm. simpl. constructor. apply IH; [exact Hn|]. intros x Hx. apply Hc. simpl. auto.
Qed.

Lemma plan_blocks_spec c porder bs :
  NoDup porder -> (forall b, In b bs -> In (b_part b) porder) ->
  Permutation (concat (plan_blocks c porder bs)) bs /\ Forall (bgroup_ok c) (plan_blocks c porder bs).
Proof.
  intros Hn Hc. unfold plan_blocks. split.
  - rewrite concat_flat_map. eapply Permutation_trans; [|exact (split_by_partition bs porder Hn Hc)].
    apply flat_map_perm_pointwise. intros p _. apply plan_partition_spec.
  - apply Forall_forall. intros g Hg. apply in_flat_map in Hg as [p [_ Hg]].
    destruct (plan_partition_spec c (filter (fun b => str_eqb (b_part b) p) bs)) as [_ F].
    rewrite Forall_forall in F. auto.
Qed.

Lemma dedup_strs_spec : forall l seen,
  NoDup (dedup_strs seen l) /\
  (forall x, In x (dedup_strs seen l) <-> In x l /\ ~ In x seen).
Proof.
  induction l as [|x t IH]; intros seen; simpl.
  - split; [constructor|]. intros; tauto.
  - destruct (mem_str x seen) eqn:M.
    + destruct (IH seen) as [A B]. split; [exact A|]. intros y. rewrite B.
      apply mem_str_In in M. split; [tauto|]. intros [[->|H] Hn]; tauto.
    + destruct (IH (x :: seen)) as [A B]. split.
      * constructor; [|exact A]. rewrite B. simpl. tauto.
      * intros y. simpl. rewrite B. simpl.
        assert (~ In x seen) by (intro H; apply mem_str_In in H; congruence).
        split; [intros [->|[H1 H2]]; tauto|].
        intros [[->|H1] H2]; [auto|]. destruct (str_eqb x y) eqn:E.
        -- apply str_eqb_eq in E. auto.
        -- apply str_eqb_neq in E. right. tauto.
Qed.

Lemma partitions_of_ok bs :
  NoDup (partitions_of bs) /\ (forall b, In b bs -> In (b_part b) (partitions_of bs)).
Proof.
  unfold partitions_of. destruct (dedup_strs_spec (map b_part bs) []) as [A B]. split; [exact A|].
  intros b Hb. apply B. split; [apply in_map; exact Hb|simpl; tauto].
Qed.
