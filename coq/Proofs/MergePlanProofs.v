(* Lemmas for family G, planning part (C11, C12): the merge key is injective, the two
   greedy loops partition their input and respect the limits, the data effect of a merge
   preserves rows, coverage and query answers. *)
From BS Require Import Lib.Bytes Model.MinMax Proofs.MinMaxProofs Model.MergePlan.
From Coq Require Import Lia ZArith NArith List Bool Permutation Arith.
Open Scope Z_scope.

(* ------------------------------------------------------------------ *)
(* bytewise order on strings                                           *)

Lemma str_cmp_opp a b : str_cmp b a = CompOpp (str_cmp a b).
Proof.
  revert b; induction a as [|x a IH]; intros [|y b]; simpl; try reflexivity.
  rewrite (N.compare_antisym x y). destruct (x ?= y)%N; simpl; auto.
Qed.

Lemma str_leb_total a b : str_leb a b = false -> str_leb b a = true.
Proof. unfold str_leb. rewrite (str_cmp_opp a b). destruct (str_cmp a b); simpl; congruence. Qed.

Lemma str_leb_antisym a b : str_leb a b = true -> str_leb b a = true -> a = b.
Proof.
  unfold str_leb. rewrite (str_cmp_opp a b). destruct (str_cmp a b) eqn:E; simpl; try congruence.
  intros _ _. apply str_cmp_eq. exact E.
Qed.

Lemma str_cmp_trans_lt a b c : str_cmp a b = Lt -> str_cmp b c = Lt -> str_cmp a c = Lt.
Proof.
  revert b c; induction a as [|x a IH]; intros [|y b] [|z c]; simpl; try congruence.
  destruct (x ?= y)%N eqn:XY; destruct (y ?= z)%N eqn:YZ; try congruence.
  - apply N.compare_eq in XY, YZ. subst. rewrite N.compare_refl. apply IH.
  - apply N.compare_eq in XY. subst. rewrite YZ. auto.
  - apply N.compare_eq in YZ. subst. rewrite XY. auto.
  - intros _ _. assert (H : (x ?= z)%N = Lt).
    { apply N.compare_lt_iff. apply N.compare_lt_iff in XY. apply N.compare_lt_iff in YZ. eapply N.lt_trans; eauto. }
    rewrite H. reflexivity.
Qed.

Lemma str_leb_trans a b c : str_leb a b = true -> str_leb b c = true -> str_leb a c = true.
Proof.
  unfold str_leb. destruct (str_cmp a b) eqn:AB; try congruence; destruct (str_cmp b c) eqn:BC; try congruence; intros _ _.
  - apply str_cmp_eq in AB, BC. subst. rewrite (proj2 (str_cmp_eq c c) eq_refl). reflexivity.
  - apply str_cmp_eq in AB. subst. rewrite BC. reflexivity.
  - apply str_cmp_eq in BC. subst. rewrite AB. reflexivity.
  - rewrite (str_cmp_trans_lt a b c AB BC). reflexivity.
Qed.

(* ------------------------------------------------------------------ *)
(* sort.Strings as insertion sort: canonical form of a key set         *)

Lemma insert_str_perm x l : Permutation (insert_str x l) (x :: l).
Proof.
  induction l as [|y t IH]; simpl; [reflexivity|].
  destruct (str_leb x y); [reflexivity|].
  rewrite IH. apply perm_swap.
Qed.

Lemma sort_strs_perm l : Permutation (sort_strs l) l.
Proof.
  induction l as [|x t IH]; simpl; [reflexivity|].
  rewrite insert_str_perm. constructor. exact IH.
Qed.

Lemma insert_str_comm a b l : insert_str a (insert_str b l) = insert_str b (insert_str a l).
Proof.
  induction l as [|y t IH]; simpl.
  - destruct (str_leb a b) eqn:AB; destruct (str_leb b a) eqn:BA; auto.
    + rewrite (str_leb_antisym a b AB BA). reflexivity.
    + apply str_leb_total in AB. congruence.
  - destruct (str_leb a y) eqn:AY; destruct (str_leb b y) eqn:BY; simpl.
    + destruct (str_leb a b) eqn:AB; destruct (str_leb b a) eqn:BA; simpl; rewrite ?AY, ?BY; auto.
      * rewrite (str_leb_antisym a b AB BA). reflexivity.
      * apply str_leb_total in AB. congruence.
    + rewrite AY. destruct (str_leb b a) eqn:BA.
      * rewrite (str_leb_trans b a y BA AY) in BY. discriminate.
      * simpl. rewrite BY. reflexivity.
    + rewrite BY. destruct (str_leb a b) eqn:AB.
      * rewrite (str_leb_trans a b y AB BY) in AY. discriminate.
      * simpl. rewrite AY. reflexivity.
    + rewrite AY, BY. f_equal. exact IH.
Qed.

Lemma sort_strs_of_perm l1 l2 : Permutation l1 l2 -> sort_strs l1 = sort_strs l2.
Proof.
  induction 1 as [|x l l' _ IH|x y l|l l' l'' _ IH1 _ IH2]; simpl.
  - reflexivity.
  - rewrite IH. reflexivity.
  - apply insert_str_comm.
  - congruence.
Qed.

(* two key lists sort to the same list iff they are the same multiset (for the duplicate
   free key lists of a Go map: the same set) *)
Lemma sort_strs_eq_iff l1 l2 : sort_strs l1 = sort_strs l2 <-> Permutation l1 l2.
Proof.
  split.
  - intro H. rewrite <- (sort_strs_perm l1), <- (sort_strs_perm l2), H. reflexivity.
  - apply sort_strs_of_perm.
Qed.

(* ------------------------------------------------------------------ *)
(* length-prefixed framing over a prefix-free length code              *)

Section FramingInj.
  Variable lenc : N -> str.
  (* prefix freeness: no code word is a prefix of a different one *)
  Hypothesis lenc_pf : forall n m s t, lenc n ++ s = lenc m ++ t -> n = m.

  Lemma lenc_nonempty n : lenc n <> [].
  Proof.
    intro E.
    assert (H0 : n = 0%N) by (apply (lenc_pf n 0%N (lenc 0%N) []); rewrite E, app_nil_r; reflexivity).
    assert (H1 : n = 1%N) by (apply (lenc_pf n 1%N (lenc 1%N) []); rewrite E, app_nil_r; reflexivity).
    congruence.
  Qed.

  Lemma frame1_inj x y s t : frame1 lenc x ++ s = frame1 lenc y ++ t -> x = y /\ s = t.
  Proof.
    unfold frame1. rewrite <- !app_assoc. intro H.
    pose proof (lenc_pf _ _ _ _ H) as Hl. apply Nat2N.inj in Hl.
    rewrite Hl in H. apply app_inv_head in H.
    revert y Hl H. induction x as [|a x IH]; intros [|b y] Hl H; simpl in *; try discriminate; auto.
    inversion H; subst. destruct (IH y) as [E1 E2]; auto. subst. auto.
  Qed.

  Lemma frame_inj xs ys : frame lenc xs = frame lenc ys -> xs = ys.
  Proof.
    unfold frame. revert ys; induction xs as [|x xs IH]; intros [|y ys]; simpl; intro H; auto.
    - symmetry in H. apply app_eq_nil in H as [H _]. unfold frame1 in H. apply app_eq_nil in H as [H _].
      destruct (lenc_nonempty _ H).
    - apply app_eq_nil in H as [H _]. unfold frame1 in H. apply app_eq_nil in H as [H _].
      destruct (lenc_nonempty _ H).
    - apply frame1_inj in H as [E1 E2]. subst. f_equal. apply IH. exact E2.
  Qed.
End FramingInj.

(* binary.AppendUvarint is such a code *)
Lemma uvarint_prefix_free fuel : forall n m s t, uvarint fuel n ++ s = uvarint fuel m ++ t -> n = m.
Proof.
  induction fuel as [|f IH]; intros n m s t; simpl.
  - intro H. inversion H. reflexivity.
  - destruct (N.ltb_spec n 128); destruct (N.ltb_spec m 128); simpl; intro E; inversion E as [[E1 E2]].
    + reflexivity.
    + exfalso. generalize dependent (m mod 128)%N. intros; lia.
    + exfalso. generalize dependent (n mod 128)%N. intros; lia.
    + apply IH in E2.
      rewrite (N.div_mod n 128), (N.div_mod m 128) by lia.
      assert (E3 : (n mod 128 = m mod 128)%N).
      { generalize dependent (n mod 128)%N. generalize dependent (m mod 128)%N. intros; lia. }
      congruence.
Qed.

Lemma key_parts_inj m1 m2 : merge_key m1 = merge_key m2 -> key_parts m1 = key_parts m2.
Proof. apply frame_inj. apply uvarint_prefix_free. Qed.

(* blockMergeKey is an injective function of (partition, key set) *)
Lemma merge_key_iff m1 m2 :
  merge_key m1 = merge_key m2 <->
  b_partition m1 = b_partition m2 /\ Permutation (map fst (b_mm m1)) (map fst (b_mm m2)).
Proof.
  split.
  - intro H. apply key_parts_inj in H. unfold key_parts in H. inversion H as [[H1 H2]].
    split; [reflexivity|]. apply sort_strs_eq_iff. exact H2.
  - intros [H1 H2]. unfold merge_key, key_parts. rewrite H1, (sort_strs_of_perm _ _ H2). reflexivity.
Qed.

Lemma same_key_iff a b :
  same_key a b = true <->
  b_part a = b_part b /\ Permutation (map fst (b_minmax a)) (map fst (b_minmax b)).
Proof. unfold same_key. rewrite str_eqb_eq. apply merge_key_iff. Qed.

(* ------------------------------------------------------------------ *)
(* small list facts                                                    *)

Lemma zsum_app l1 l2 : zsum (l1 ++ l2) = zsum l1 + zsum l2.
Proof. induction l1 as [|x t IH]; simpl; [reflexivity|]. rewrite IH. lia. Qed.

Lemma zsum_perm l1 l2 : Permutation l1 l2 -> zsum l1 = zsum l2.
Proof. induction 1; simpl; lia. Qed.

Lemma mem_z_In x l : mem_z x l = true <-> In x l.
Proof.
  induction l as [|y t IH]; simpl; [split; [discriminate|tauto]|].
  rewrite orb_true_iff, IH, Z.eqb_eq. split; intros [H|H]; auto.
Qed.

Lemma mem_z_false x l : mem_z x l = false <-> ~ In x l.
Proof. rewrite <- mem_z_In. destruct (mem_z x l); split; congruence. Qed.

Lemma zsum_nonneg_member (l : list Z) x : (forall y, In y l -> 0 <= y) -> In x l -> x <= zsum l.
Proof.
  induction l as [|y t IH]; simpl; [tauto|]. intros Hn [->|Hin].
  - assert (0 <= zsum t); [|lia]. clear IH. induction t as [|z t IHt]; simpl; [lia|].
    assert (0 <= z) by (apply Hn; simpl; auto). assert (0 <= zsum t); [|lia]. apply IHt. intros w Hw. apply Hn. simpl in *. tauto.
  - assert (0 <= y) by (apply Hn; auto). assert (x <= zsum t); [|lia]. apply IH; auto.
Qed.

(* ------------------------------------------------------------------ *)
(* identifyFileMergeGroups                                             *)

Lemma insert_file_perm x l : Permutation (insert_file x l) (x :: l).
Proof.
  induction l as [|y t IH]; simpl; [reflexivity|].
  destruct (file_less x y); [reflexivity|]. rewrite IH. apply perm_swap.
Qed.

Lemma sort_files_perm l : Permutation (sort_files l) l.
Proof.
  unfold sort_files. rewrite (Permutation_rev l) at 2.
  induction (rev l) as [|x t IH]; simpl; [reflexivity|].
  rewrite insert_file_perm. constructor. exact IH.
Qed.

Definition files_size (l : list file) : Z := zsum (map f_total_size l).

Lemma grow_perm c total : forall rest glen gsize gb m r,
  grow c total glen gsize gb rest = (m, r) -> Permutation (m ++ r) rest.
Proof.
  induction rest as [|x rest IH]; intros glen gsize gb m r; simpl.
  - intro H; inversion H; subst. reflexivity.
  - destruct (c_max_files c <? total + glen + 1).
    { intro H; inversion H; subst. reflexivity. }
    destruct (c_max_file_size c <? gsize + f_total_size x).
    { destruct (grow c total glen gsize gb rest) as [m' r'] eqn:G. intro H; inversion H; subst.
      apply IH in G. rewrite <- G. symmetry. apply Permutation_middle. }
    destruct (has_pair c gb (f_blocks x)).
    + destruct (grow c total (glen + 1) (gsize + f_total_size x) (gb ++ f_blocks x) rest) as [m' r'] eqn:G.
      intro H; inversion H; subst. apply IH in G. simpl. constructor. exact G.
    + destruct (grow c total glen gsize gb rest) as [m' r'] eqn:G. intro H; inversion H; subst.
      apply IH in G. rewrite <- G. symmetry. apply Permutation_middle.
Qed.

(* whoever joined: the running size and count tests held when the last one joined *)
Lemma grow_limits c total : forall rest glen gsize gb m r,
  grow c total glen gsize gb rest = (m, r) -> m <> [] ->
  gsize + files_size m <= c_max_file_size c /\ total + glen + Z.of_nat (length m) <= c_max_files c.
Proof.
  induction rest as [|x rest IH]; intros glen gsize gb m r; simpl.
  - intro H; inversion H; subst. congruence.
  - destruct (Z.ltb_spec (c_max_files c) (total + glen + 1)) as [Hc|Hc].
    { intro H; inversion H; subst. congruence. }
    destruct (Z.ltb_spec (c_max_file_size c) (gsize + f_total_size x)) as [Hs|Hs].
    { destruct (grow c total glen gsize gb rest) as [m' r'] eqn:G. intro H; inversion H; subst. eapply IH; eauto. }
    destruct (has_pair c gb (f_blocks x)).
    + destruct (grow c total (glen + 1) (gsize + f_total_size x) (gb ++ f_blocks x) rest) as [m' r'] eqn:G.
      intro H; inversion H; subst. intros _. unfold files_size. cbn [map zsum fold_right length].
      destruct m' as [|y m'].
      * simpl. lia.
      * destruct (IH _ _ _ _ _ G) as [A B]; [discriminate|]. unfold files_size in A.
        cbn [map zsum fold_right length] in *. rewrite !Nat2Z.inj_succ in *. lia.
    + destruct (grow c total glen gsize gb rest) as [m' r'] eqn:G. intro H; inversion H; subst. eapply IH; eauto.
Qed.

(* every file that joined had a block pairing with a block already in the group *)
Lemma grow_length c total : forall rest glen gsize gb m r,
  grow c total glen gsize gb rest = (m, r) -> (length r <= length rest)%nat.
Proof.
  intros rest glen gsize gb m r H. apply grow_perm in H. apply Permutation_length in H.
  rewrite app_length in H. lia.
Qed.

Definition group_ok (c : cfg) (g : list file) : Prop :=
  (2 <= length g)%nat /\ files_size g <= c_max_file_size c.

Lemma greedy_spec c : forall fuel total rest,
  (length rest <= fuel)%nat -> 0 <= total ->
  let groups := greedy fuel c total rest in
  (exists leftover, Permutation (concat groups ++ leftover) rest) /\
  Forall (group_ok c) groups /\
  (groups <> [] -> total + Z.of_nat (length (concat groups)) <= c_max_files c).
Proof.
  induction fuel as [|fu IH]; intros total rest Hlen Ht; simpl.
  - destruct rest; [|simpl in Hlen; lia]. split; [exists []; reflexivity|]. split; [constructor|congruence].
  - destruct rest as [|f rest].
    { split; [exists []; reflexivity|]. split; [constructor|congruence]. }
    destruct (Z.leb_spec (c_max_files c) total) as [Hb|Hb].
    { split; [exists (f :: rest); reflexivity|]. split; [constructor|congruence]. }
    destruct (grow c total 1 (f_total_size f) (f_blocks f) rest) as [m r] eqn:G.
    pose proof (grow_perm _ _ _ _ _ _ _ _ G) as Hp.
    pose proof (grow_length _ _ _ _ _ _ _ _ G) as Hl. simpl in Hlen.
    destruct m as [|y m].
    + destruct (IH total r) as [[lo Hlo] [Hok Hcnt]]; [lia|lia|].
      split; [|split; assumption].
      exists (f :: lo). rewrite <- Permutation_middle. constructor. rewrite Hlo. exact Hp.
    + destruct (grow_limits _ _ _ _ _ _ _ _ G) as [Hs Hc]; [discriminate|].
      destruct (IH (total + 1 + Z.of_nat (length (y :: m))) r) as [[lo Hlo] [Hok Hcnt]]; [lia|lia|].
      split; [|split].
      * exists lo. simpl. constructor.
        rewrite <- Hp. simpl. constructor. rewrite <- app_assoc. apply Permutation_app_head. exact Hlo.
      * constructor; [|exact Hok]. split; [simpl; lia|].
        unfold files_size in *. cbn [map zsum fold_right] in *. lia.
      * intros _. cbn [concat]. rewrite app_length.
        destruct (greedy fu c (total + 1 + Z.of_nat (length (y :: m))) r) eqn:Eg.
        -- simpl. rewrite Nat.add_0_r. cbn [length] in *. lia.
        -- rewrite Nat2Z.inj_add. cbn [length] in *.
           assert (Hne : l :: l0 <> []) by discriminate. specialize (Hcnt Hne). lia.
Qed.

(* the statements used by C12 *)
Lemma plan_files_ord_spec c sorted :
  let groups := plan_files_ord c sorted in
  (exists leftover, Permutation (concat groups ++ leftover) sorted) /\
  Forall (group_ok c) groups /\
  Z.of_nat (length (concat groups)) <= Z.max 0 (c_max_files c).
Proof.
  unfold plan_files_ord. destruct (length sorted <? 2)%nat.
  - simpl. split; [exists sorted; reflexivity|]. split; [constructor|lia].
  - destruct (greedy_spec c (length sorted) 0 sorted) as [A [B C]]; [lia|lia|].
    split; [exact A|]. split; [exact B|].
    destruct (greedy (length sorted) c 0 sorted) eqn:E; [simpl; lia|].
    assert (Hne : l :: l0 <> []) by discriminate. specialize (C Hne). lia.
Qed.

Lemma plan_files_spec c files :
  let groups := plan_files c files in
  (exists leftover, Permutation (concat groups ++ leftover) files) /\
  Forall (group_ok c) groups /\
  Z.of_nat (length (concat groups)) <= Z.max 0 (c_max_files c).
Proof.
  unfold plan_files. destruct (plan_files_ord_spec c (sort_files files)) as [[lo A] [B C]].
  split; [|split; assumption]. exists lo. rewrite A. apply sort_files_perm.
Qed.

Lemma NoDup_app_inv {A} (l1 l2 : list A) :
  NoDup (l1 ++ l2) -> NoDup l1 /\ NoDup l2 /\ (forall x, In x l1 -> ~ In x l2).
Proof.
  induction l1 as [|a l1 IH]; simpl; intro H.
  - split; [constructor|]. split; [exact H|]. tauto.
  - inversion H as [|? ? Hn Hd]; subst. destruct (IH Hd) as [A1 [A2 A3]].
    split; [constructor; [intro Hin; apply Hn; apply in_or_app; auto|exact A1]|].
    split; [exact A2|]. intros x [->|Hx]; [intro Hin; apply Hn; apply in_or_app; auto|auto].
Qed.

(* pointer-level disjointness: no file is in two groups, nor twice in one *)
Lemma groups_nodup (groups : list (list file)) leftover files :
  Permutation (concat groups ++ leftover) files -> NoDup (map f_ptr files) ->
  NoDup (map f_ptr (concat groups)).
Proof.
  intros Hp Hn. apply (Permutation_map f_ptr) in Hp. rewrite map_app in Hp.
  apply Permutation_sym in Hp. apply (Permutation_NoDup Hp) in Hn.
  apply NoDup_app_inv in Hn. apply Hn.
Qed.

(* a file bigger than MaxFileSize is never grouped (sizes being non-negative) *)
Lemma oversized_never_grouped c g f :
  group_ok c g -> (forall x, In x g -> 0 <= f_total_size x) -> In f g -> f_total_size f <= c_max_file_size c.
Proof.
  intros [_ Hs] Hnn Hin. unfold files_size in Hs.
  assert (f_total_size f <= zsum (map f_total_size g)); [|lia].
  apply zsum_nonneg_member.
  - intros y Hy. apply in_map_iff in Hy as [x [<- Hx]]. auto.
  - apply in_map. exact Hin.
Qed.

(* ------------------------------------------------------------------ *)
(* processPartitionBlocks                                              *)

Definition blocks_rows (g : list block) : Z := zsum (map b_nrows g).
Definition blocks_usize (g : list block) : Z := zsum (map b_usize g).

Lemma take_group_perm c seed : forall rest cr cs m r,
  take_group c seed cr cs rest = (m, r) -> Permutation (m ++ r) rest.
Proof.
  induction rest as [|o rest IH]; intros cr cs m r; simpl.
  - intro H; inversion H; subst. reflexivity.
  - destruct (within c seed o && ((cr + b_nrows o <=? c_max_rows c) && (cs + b_usize o <=? c_max_bytes c))).
    + destruct (take_group c seed (cr + b_nrows o) (cs + b_usize o) rest) as [m' r'] eqn:G.
      intro H; inversion H; subst. simpl. constructor. eapply IH; eauto.
    + destruct (take_group c seed cr cs rest) as [m' r'] eqn:G.
      intro H; inversion H; subst. rewrite <- (IH _ _ _ _ G). symmetry. apply Permutation_middle.
Qed.

(* the cumulative test bounds the whole group: dropping it breaks this lemma *)
Lemma take_group_limits c seed : forall rest cr cs m r,
  take_group c seed cr cs rest = (m, r) -> m <> [] ->
  cr + blocks_rows m <= c_max_rows c /\ cs + blocks_usize m <= c_max_bytes c.
Proof.
  induction rest as [|o rest IH]; intros cr cs m r; simpl.
  - intro H; inversion H; subst. congruence.
  - destruct (within c seed o && ((cr + b_nrows o <=? c_max_rows c) && (cs + b_usize o <=? c_max_bytes c))) eqn:T.
    + destruct (take_group c seed (cr + b_nrows o) (cs + b_usize o) rest) as [m' r'] eqn:G.
      intro H; inversion H; subst. intros _.
      apply andb_true_iff in T as [_ T]. apply andb_true_iff in T as [T1 T2].
      apply Z.leb_le in T1, T2. unfold blocks_rows, blocks_usize. cbn [map zsum fold_right].
      destruct m' as [|y m'].
      * simpl. lia.
      * destruct (IH _ _ _ _ G) as [A B]; [discriminate|]. unfold blocks_rows, blocks_usize in *.
        cbn [map zsum fold_right] in *. lia.
    + destruct (take_group c seed cr cs rest) as [m' r'] eqn:G.
      intro H; inversion H; subst. eapply IH; eauto.
Qed.

(* every member also passed the pairwise test against the seed *)
Lemma take_group_pairwise c seed : forall rest cr cs m r,
  take_group c seed cr cs rest = (m, r) -> forall o, In o m -> within c seed o = true.
Proof.
  induction rest as [|o rest IH]; intros cr cs m r; simpl.
  - intro H; inversion H; subst. simpl. tauto.
  - destruct (within c seed o && ((cr + b_nrows o <=? c_max_rows c) && (cs + b_usize o <=? c_max_bytes c))) eqn:T.
    + destruct (take_group c seed (cr + b_nrows o) (cs + b_usize o) rest) as [m' r'] eqn:G.
      intro H; inversion H; subst. intros x [->|Hx].
      * apply andb_true_iff in T. apply T.
      * eapply IH; eauto.
    + destruct (take_group c seed cr cs rest) as [m' r'] eqn:G.
      intro H; inversion H; subst. eapply IH; eauto.
Qed.

Definition limits_ok (c : cfg) (g : list block) : Prop :=
  blocks_rows g <= c_max_rows c /\ blocks_usize g <= c_max_bytes c.

Lemma plan_bucket_spec c : forall fuel bucket,
  (length bucket <= fuel)%nat ->
  Permutation (concat (plan_bucket fuel c bucket)) bucket /\
  Forall (fun g => g <> [] /\ ((2 <= length g)%nat -> limits_ok c g)) (plan_bucket fuel c bucket).
Proof.
  induction fuel as [|fu IH]; intros bucket Hl; simpl.
  - destruct bucket; [|simpl in Hl; lia]. split; [reflexivity|constructor].
  - destruct bucket as [|s rest]; [split; [reflexivity|constructor]|].
    destruct (take_group c s (b_nrows s) (b_usize s) rest) as [m r] eqn:G.
    pose proof (take_group_perm _ _ _ _ _ _ _ G) as Hp.
    assert (Hlr : (length r <= fu)%nat).
    { apply Permutation_length in Hp. rewrite app_length in Hp. simpl in Hl. lia. }
    destruct (IH r Hlr) as [A B]. split.
    + simpl. constructor. rewrite <- Hp. apply Permutation_app_head. exact A.
    + constructor; [|exact B]. split; [discriminate|].
      intro H2. destruct m as [|y m]; [simpl in H2; lia|].
      destruct (take_group_limits _ _ _ _ _ _ _ G) as [L1 L2]; [discriminate|].
      unfold limits_ok, blocks_rows, blocks_usize in *. cbn [map zsum fold_right] in *. lia.
Qed.

Lemma add_bucket_perm b : forall bks,
  Permutation (flat_map snd (add_bucket b bks)) (b :: flat_map snd bks).
Proof.
  induction bks as [|[k l] t IH]; simpl; [reflexivity|].
  destruct (str_eqb k (merge_key (b_meta b))); simpl.
  - rewrite <- app_assoc. simpl. symmetry. apply Permutation_middle.
  - rewrite IH. symmetry. apply Permutation_middle.
Qed.

Definition bucket_inv (bks : list (str * list block)) : Prop :=
  Forall (fun kb => forall x, In x (snd kb) -> merge_key (b_meta x) = fst kb) bks.

Lemma add_bucket_inv b bks : bucket_inv bks -> bucket_inv (add_bucket b bks).
Proof.
  unfold bucket_inv. induction bks as [|[k l] t IH]; simpl; intro H.
  - constructor; [|constructor]. simpl. intros x [<-|[]]. reflexivity.
  - inversion H as [|? ? H1 H2]; subst. destruct (str_eqb k (merge_key (b_meta b))) eqn:E.
    + constructor; [|exact H2]. simpl in *. intros x Hx. apply in_app_or in Hx as [Hx|[<-|[]]]; auto.
      apply str_eqb_eq in E. auto.
    + constructor; [exact H1|]. apply IH. exact H2.
Qed.

Lemma bucketize_spec bs :
  Permutation (flat_map snd (bucketize bs)) bs /\ bucket_inv (bucketize bs).
Proof.
  unfold bucketize.
  assert (G : forall acc, bucket_inv acc ->
                          Permutation (flat_map snd (fold_left (fun a b => add_bucket b a) bs acc)) (flat_map snd acc ++ bs) /\
                          bucket_inv (fold_left (fun a b => add_bucket b a) bs acc)).
  { induction bs as [|b bs IH]; intros acc Hi; simpl.
    - rewrite app_nil_r. split; [reflexivity|exact Hi].
    - destruct (IH (add_bucket b acc) (add_bucket_inv b acc Hi)) as [A B]. split; [|exact B].
      rewrite A, add_bucket_perm. simpl. apply Permutation_middle. }
  destruct (G [] (Forall_nil _)) as [A B]. split; [exact A|exact B].
Qed.

Lemma concat_flat_map {A B} (f : A -> list (list B)) (l : list A) :
  concat (flat_map f l) = flat_map (fun x => concat (f x)) l.
Proof. induction l as [|x t IH]; simpl; [reflexivity|]. rewrite concat_app, IH. reflexivity. Qed.

Lemma flat_map_perm_pointwise {A B} (f g : A -> list B) (l : list A) :
  (forall x, In x l -> Permutation (f x) (g x)) -> Permutation (flat_map f l) (flat_map g l).
Proof.
  induction l as [|x t IH]; simpl; intro H; [reflexivity|].
  apply Permutation_app; [apply H; auto|apply IH; intros; apply H; auto].
Qed.

(* an output block group: non-empty, one merge key, within limits when it combines blocks *)
Definition bgroup_ok (c : cfg) (g : list block) : Prop :=
  g <> [] /\
  (forall x y, In x g -> In y g -> merge_key (b_meta x) = merge_key (b_meta y)) /\
  ((2 <= length g)%nat -> limits_ok c g).

Lemma plan_partition_spec c bs :
  Permutation (concat (plan_partition c bs)) bs /\ Forall (bgroup_ok c) (plan_partition c bs).
Proof.
  unfold plan_partition. destruct (bucketize_spec bs) as [Hp Hi]. split.
  - rewrite concat_flat_map. eapply Permutation_trans; [|exact Hp]. apply flat_map_perm_pointwise.
    intros kb _. apply plan_bucket_spec. lia.
  - apply Forall_forall. intros g Hg. apply in_flat_map in Hg as [[k l] [Hkb Hg]]. simpl in Hg.
    destruct (plan_bucket_spec c (length l) l (le_n _)) as [Pp Pf].
    rewrite Forall_forall in Pf. destruct (Pf g Hg) as [Hne Hlim].
    split; [exact Hne|]. split; [|exact Hlim].
    unfold bucket_inv in Hi. rewrite Forall_forall in Hi. specialize (Hi (k, l) Hkb). simpl in Hi.
    assert (Hin : forall x, In x g -> In x l).
    { intros x Hx. eapply Permutation_in; [exact Pp|]. apply in_concat. exists g. auto. }
    intros x y Hx Hy. rewrite (Hi x (Hin x Hx)), (Hi y (Hin y Hy)). reflexivity.
Qed.

(* splitting a block list by partition loses and duplicates nothing *)
Lemma split_by_partition (bs : list block) : forall porder,
  NoDup porder -> (forall b, In b bs -> In (b_part b) porder) ->
  Permutation (flat_map (fun p => filter (fun b => str_eqb (b_part b) p) bs) porder) bs.
Proof.
  induction bs as [|b bs IH]; intros porder Hn Hc.
  - clear. induction porder as [|p po IHp]; simpl; [constructor|exact IHp].
  - assert (Hstep : forall po, NoDup po ->
       Permutation (flat_map (fun p => filter (fun x => str_eqb (b_part x) p) (b :: bs)) po)
                   ((if mem_str (b_part b) po then [b] else []) ++
                    flat_map (fun p => filter (fun x => str_eqb (b_part x) p) bs) po)).
    { induction po as [|p po IHp]; intro Hnd; simpl; [reflexivity|].
      inversion Hnd as [|? ? Hnp Hnd']; subst. specialize (IHp Hnd').
      destruct (str_eqb (b_part b) p) eqn:E; simpl.
      - apply str_eqb_eq in E. subst p.
        assert (Hm : mem_str (b_part b) po = false).
        { destruct (mem_str (b_part b) po) eqn:M; [|reflexivity]. apply mem_str_In in M. contradiction. }
        rewrite Hm in IHp. simpl in IHp. constructor. apply Permutation_app_head. exact IHp.
      - rewrite IHp. destruct (mem_str (b_part b) po); simpl; [|reflexivity].
        symmetry. apply Permutation_middle. }
    rewrite (Hstep porder Hn).
    assert (Hm : mem_str (b_part b) porder = true) by (apply mem_str_In; apply Hc; simpl; auto).
    rewrite Hm. simpl. constructor. apply IH; [exact Hn|]. intros x Hx. apply Hc. simpl. auto.
Qed.

Lemma plan_blocks_spec c porder bs :
  NoDup porder -> (forall b, In b bs -> In (b_part b) porder) ->
  Permutation (concat (plan_blocks c porder bs)) bs /\ Forall (bgroup_ok c) (plan_blocks c porder bs).
Proof.
  intros Hn Hc. unfold plan_blocks. split.
  - rewrite concat_flat_map. eapply Permutation_trans; [|exact (split_by_partition bs porder Hn Hc)].
    apply flat_map_perm_pointwise. intros p _. apply plan_partition_spec.
  - apply Forall_forall. intros g Hg. apply in_flat_map in Hg as [p [_ Hg]].
    destruct (plan_partition_spec c (filter (fun b => str_eqb (b_part b) p) bs)) as [_ F].
    rewrite Forall_forall in F. auto.
Qed.

Lemma dedup_strs_spec : forall l seen,
  NoDup (dedup_strs seen l) /\
  (forall x, In x (dedup_strs seen l) <-> In x l /\ ~ In x seen).
Proof.
  induction l as [|x t IH]; intros seen; simpl.
  - split; [constructor|]. intros; tauto.
  - destruct (mem_str x seen) eqn:M.
    + destruct (IH seen) as [A B]. split; [exact A|]. intros y. rewrite B.
      apply mem_str_In in M. split; [tauto|]. intros [[->|H] Hn]; tauto.
    + destruct (IH (x :: seen)) as [A B]. split.
      * constructor; [|exact A]. rewrite B. simpl. tauto.
      * intros y. simpl. rewrite B. simpl.
        assert (~ In x seen) by (intro H; apply mem_str_In in H; congruence).
        split; [intros [->|[H1 H2]]; tauto|].
        intros [[->|H1] H2]; [auto|]. destruct (str_eqb x y) eqn:E.
        -- apply str_eqb_eq in E. auto.
        -- apply str_eqb_neq in E. right. tauto.
Qed.

Lemma partitions_of_ok bs :
  NoDup (partitions_of bs) /\ (forall b, In b bs -> In (b_part b) (partitions_of bs)).
Proof.
  unfold partitions_of. destruct (dedup_strs_spec (map b_part bs) []) as [A B]. split; [exact A|].
  intros b Hb. apply B. split; [apply in_map; exact Hb|simpl; tauto].
Qed.

(* ------------------------------------------------------------------ *)
(* data effect of mergeDataBlocks / copyDataBlock                      *)

Definition entry_ok (kv : str * (Z * Z)) : Prop :=
  let '(_, (mn, mx)) := kv in in64 mn /\ in64 mx /\ mn <= mx.
Definition mm_ok (m : list (str * (Z * Z))) : Prop := Forall entry_ok m.

Lemma assoc_In {A} k (v : A) l : assoc k l = Some v -> In (k, v) l.
Proof.
  induction l as [|[k' v'] t IH]; simpl; [discriminate|].
  destruct (str_eqb k k') eqn:E; intro H.
  - apply str_eqb_eq in E. inversion H; subst. auto.
  - auto.
Qed.

Lemma mm_ok_assoc m k mn mx : mm_ok m -> assoc k m = Some (mn, mx) -> in64 mn /\ in64 mx /\ mn <= mx.
Proof.
  intros Hok Ha. apply assoc_In in Ha. unfold mm_ok in Hok. rewrite Forall_forall in Hok.
  apply (Hok _ Ha).
Qed.

Lemma update_mm_ok mn mx lo hi :
  in64 mn -> in64 mx -> mn <= mx -> in64 lo -> in64 hi -> lo <= hi ->
  entry_ok ([], update_mm (mn, mx) lo hi).
Proof. unfold entry_ok, update_mm, in64. intros. leb_cases; lia. Qed.

Lemma merge_mm_ok : forall m2 m1, mm_ok m1 -> mm_ok m2 -> mm_ok (merge_mm m1 m2).
Proof.
  induction m2 as [|[k [mn2 mx2]] t IH]; intros m1 H1 H2; simpl; [exact H1|].
  inversion H2 as [|? ? Hk Ht]; subst. simpl in Hk. destruct Hk as [A [B C]].
  destruct (assoc k m1) as [[mn mx]|] eqn:E.
  - apply IH; [|exact Ht]. constructor; [|exact H1].
    destruct (mm_ok_assoc _ _ _ _ H1 E) as [D [F G]].
    pose proof (update_mm_ok mn mx mn2 mx2 D F G A B C) as U. unfold entry_ok in *.
    destruct (update_mm (mn, mx) mn2 mx2). exact U.
  - apply IH; [|exact Ht]. constructor; [|exact H1]. simpl. auto.
Qed.

Lemma merge_mms_fold_ok t : forall acc,
  mm_ok acc -> (forall b, In b t -> mm_ok (b_minmax b)) ->
  mm_ok (fold_left (fun a x => merge_mm a (b_minmax x)) t acc).
Proof.
  induction t as [|b t IH]; intros acc Ha Ht; simpl; [exact Ha|].
  apply IH; [apply merge_mm_ok; [exact Ha|apply Ht; simpl; auto]|]. intros x Hx. apply Ht. simpl. auto.
Qed.

Lemma merge_mms_ok g : (forall b, In b g -> mm_ok (b_minmax b)) -> mm_ok (merge_mms g).
Proof.
  destruct g as [|b t]; simpl; intro H; [constructor|].
  apply merge_mms_fold_ok; [apply H; auto|]. intros x Hx. apply H. auto.
Qed.

Lemma merge_mms_fold_covers k lo hi t : forall acc,
  (mm_covers acc k lo hi \/ exists b, In b t /\ mm_covers (b_minmax b) k lo hi) ->
  mm_covers (fold_left (fun a x => merge_mm a (b_minmax x)) t acc) k lo hi.
Proof.
  induction t as [|b t IH]; intros acc H; simpl.
  - destruct H as [H|[b [[] _]]]. exact H.
  - apply IH. destruct H as [H|[x [[<-|Hx] Hc]]].
    + left. apply merge_mm_keeps. exact H.
    + left. apply merge_mm_covers_right. exact Hc.
    + right. exists x. auto.
Qed.

(* mergeMinMaxIndexes folded over the group: whatever a member covered stays covered
   (a wrong union breaks this lemma) *)
Lemma merge_mms_covers g b k lo hi :
  In b g -> mm_covers (b_minmax b) k lo hi -> mm_covers (merge_mms g) k lo hi.
Proof.
  destruct g as [|b0 t]; simpl; [tauto|]. intros [<-|Hin] Hc; apply merge_mms_fold_covers.
  - left. exact Hc.
  - right. exists b. auto.
Qed.

(* keys of the merged index: exactly the keys some member has *)
Lemma merge_mm_keys : forall m2 m1 k,
  assoc k (merge_mm m1 m2) <> None <-> (assoc k m1 <> None \/ assoc k m2 <> None).
Proof.
  induction m2 as [|[k2 [mn2 mx2]] t IH]; intros m1 k; simpl.
  - split; [auto|]. intros [H|H]; [exact H|congruence].
  - pose proof (observe_keys m1 k2 mn2 mx2 k) as Ho. unfold observe in Ho.
    destruct (str_eqb k k2) eqn:E.
    + apply str_eqb_eq in E. subst k2.
      destruct (assoc k m1) as [idx|] eqn:Ea; rewrite IH; split; intros _; try (right; discriminate);
        left; apply Ho; auto.
    + apply str_eqb_neq in E.
      destruct (assoc k2 m1) as [idx|]; rewrite IH; rewrite Ho; split; intros [H|H]; auto;
        destruct H as [H|H]; auto; contradiction.
Qed.

Lemma merge_mms_fold_keys k t : forall acc,
  assoc k (fold_left (fun a x => merge_mm a (b_minmax x)) t acc) <> None <->
  (assoc k acc <> None \/ exists b, In b t /\ assoc k (b_minmax b) <> None).
Proof.
  induction t as [|b t IH]; intros acc; simpl.
  - split; [auto|]. intros [H|[b [[] _]]]. exact H.
  - rewrite IH, merge_mm_keys. split.
    + intros [[H|H]|[x [Hx Hk]]]; [auto|right; exists b; auto|right; exists x; auto].
    + intros [H|[x [[<-|Hx] Hk]]]; [auto|auto|right; exists x; auto].
Qed.

Lemma merge_mms_keys g k :
  assoc k (merge_mms g) <> None <-> exists b, In b g /\ assoc k (b_minmax b) <> None.
Proof.
  destruct g as [|b0 t]; simpl.
  - split; [congruence|]. intros [b [[] _]].
  - rewrite merge_mms_fold_keys. split.
    + intros [H|[x [Hx Hk]]]; [exists b0; auto|exists x; auto].
    + intros [x [[<-|Hx] Hk]]; [auto|right; exists x; auto].
Qed.

(* a row is where it belongs: its block has its partition and covers its indexed values *)
Definition row_covered (m : blockmeta) (r : mrow) : Prop :=
  b_partition m = mr_part r /\
  forall k lo hi, In (k, (lo, hi)) (mr_vals r) -> mm_covers (b_mm m) k lo hi.

(* truthful metadata, sane ranges, rows covered, filters built from (at least) the rows' entries *)
Definition block_wf (b : block) : Prop :=
  b_nrows b = Z.of_nat (length (b_rows b)) /\
  b_usize b = zsum (map row_usize (b_rows b)) /\
  mm_ok (b_minmax b) /\
  (forall r, In r (b_rows b) -> row_covered (b_meta b) r) /\
  (forall r e, In r (b_rows b) -> In e (mr_ents r) -> In e (b_ents b)).

Lemma out_block_rows e g : b_rows (out_block e g) = flat_map b_rows g.
Proof.
  destruct g as [|b [|b' t]]; simpl; try reflexivity. rewrite app_nil_r. reflexivity.
Qed.

Lemma same_key_partition x y : merge_key (b_meta x) = merge_key (b_meta y) -> b_part x = b_part y.
Proof. intro H. apply merge_key_iff in H. apply H. Qed.

Lemma merged_block_wf c e g :
  bgroup_ok c g -> (forall b, In b g -> block_wf b) -> block_wf (merged_block e g).
Proof.
  intros [Hne [Hkey _]] Hwf. unfold block_wf. cbn [merged_block b_nrows b_usize b_rows b_ents b_meta b_minmax b_mm].
  split; [reflexivity|]. split; [reflexivity|]. split; [|split].
  - unfold b_minmax. cbn [merged_block b_meta b_mm]. apply merge_mms_ok. intros b Hb. apply (Hwf b Hb).
  - intros r Hr. apply in_flat_map in Hr as [b [Hb Hr]].
    destruct (Hwf b Hb) as [_ [_ [_ [Hcov _]]]]. destruct (Hcov r Hr) as [Hp Hv].
    split; cbn [b_partition b_mm].
    + destruct g as [|b0 t]; [contradiction|]. rewrite <- Hp.
      apply (same_key_partition b0 b). apply Hkey; simpl; auto.
    + intros k lo hi Hin. apply (merge_mms_covers g b k lo hi Hb). apply Hv. exact Hin.
  - intros r x Hr Hx. apply in_flat_map. exists r. auto.
Qed.

Lemma out_block_wf c e g :
  bgroup_ok c g -> (forall b, In b g -> block_wf b) -> block_wf (out_block e g).
Proof.
  intros Hg Hwf. destruct g as [|b [|b' t]].
  - destruct Hg as [Hne _]. congruence.
  - simpl. apply Hwf. simpl. auto.
  - change (out_block e (b :: b' :: t)) with (merged_block e (b :: b' :: t)). eapply merged_block_wf; eauto.
Qed.

(* C12 on the output itself: a combined block really holds at most the configured rows/bytes *)
Lemma merged_block_limits c e g :
  bgroup_ok c g -> (2 <= length g)%nat -> (forall b, In b g -> block_wf b) ->
  Z.of_nat (length (b_rows (out_block e g))) <= c_max_rows c /\
  zsum (map row_usize (b_rows (out_block e g))) <= c_max_bytes c.
Proof.
  intros [_ [_ Hlim]] H2 Hwf. destruct (Hlim H2) as [L1 L2]. rewrite out_block_rows.
  clear Hlim H2. unfold blocks_rows, blocks_usize in *.
  assert (G : forall l, (forall b, In b l -> block_wf b) ->
                        Z.of_nat (length (flat_map b_rows l)) = zsum (map b_nrows l) /\
                        zsum (map row_usize (flat_map b_rows l)) = zsum (map b_usize l)).
  { induction l as [|b l IH]; intro Hl; simpl; [split; reflexivity|].
    destruct (Hl b (or_introl eq_refl)) as [A [B _]]. destruct IH as [I1 I2]; [intros; apply Hl; simpl; auto|].
    rewrite app_length, Nat2Z.inj_add, map_app, zsum_app. lia. }
  destruct (G g Hwf) as [G1 G2]. lia.
Qed.

(* ------------------------------------------------------------------ *)
(* the store before and after a committed merge                        *)

Definition file_wf (f : file) : Prop :=
  (forall b, In b (f_blocks f) -> block_wf b) /\
  (forall b r e, In b (f_blocks f) -> In r (b_rows b) -> In e (mr_ents r) -> In e (f_ents f)).

Definition store_wf (st : list file) : Prop :=
  NoDup (map f_ptr st) /\ forall f, In f st -> file_wf f.

(* a visiting order of the partitions of a group: any duplicate-free list covering them *)
Definition porder_ok (g : list file) (po : list str) : Prop :=
  NoDup po /\ forall b, In b (group_blocks g) -> In (b_part b) po.

(* st' is a possible result of a committed Merge on st: any tie order of the candidate
   sort (indeed any order), any map iteration order of the partitions, any fresh pointers *)
Definition merge_ok (e : env) (c : cfg) (st st' : list file) : Prop :=
  exists sorted porders ptrs,
    Permutation sorted st /\
    Forall2 porder_ok (plan_files_ord c sorted) porders /\
    length ptrs = length (plan_files_ord c sorted) /\
    NoDup ptrs /\ (forall p, In p ptrs -> ~ In p (map f_ptr st)) /\
    st' = merge_store e c sorted porders ptrs st.

Lemma filter_perm {A} (f : A -> bool) l l' : Permutation l l' -> Permutation (filter f l) (filter f l').
Proof.
  induction 1 as [|x l l' _ IH|x y l|l l' l'' _ IH1 _ IH2]; simpl.
  - constructor.
  - destruct (f x); [constructor|]; exact IH.
  - destruct (f x); destruct (f y); try reflexivity. apply perm_swap.
  - eapply Permutation_trans; eauto.
Qed.

Lemma filter_all_false {A} (f : A -> bool) l : (forall x, In x l -> f x = false) -> filter f l = [].
Proof.
  induction l as [|x t IH]; simpl; intro H; [reflexivity|].
  rewrite (H x (or_introl eq_refl)). apply IH. intros; apply H; auto.
Qed.

Lemma filter_all_true {A} (f : A -> bool) l : (forall x, In x l -> f x = true) -> filter f l = l.
Proof.
  induction l as [|x t IH]; simpl; intro H; [reflexivity|].
  rewrite (H x (or_introl eq_refl)). f_equal. apply IH. intros; apply H; auto.
Qed.

(* the surviving files are exactly the ungrouped ones *)
Lemma merge_store_shape e c sorted porders ptrs st :
  Permutation sorted st -> NoDup (map f_ptr st) ->
  exists leftover,
    Permutation (concat (plan_files_ord c sorted) ++ leftover) st /\
    Permutation (merge_store e c sorted porders ptrs st)
                (leftover ++ out_files e c (plan_files_ord c sorted) porders ptrs).
Proof.
  intros Hs Hn. destruct (plan_files_ord_spec c sorted) as [[lo Hlo] _].
  set (groups := plan_files_ord c sorted) in *.
  assert (Hst : Permutation (concat groups ++ lo) st) by (rewrite Hlo; exact Hs).
  exists lo. split; [exact Hst|]. unfold merge_store. fold groups.
  apply Permutation_app; [|reflexivity].
  rewrite <- (filter_perm _ _ _ Hst). rewrite filter_app.
  assert (Hnd : NoDup (map f_ptr (concat groups ++ lo))).
  { eapply Permutation_NoDup; [|exact Hn]. apply Permutation_map. symmetry. exact Hst. }
  rewrite map_app in Hnd. apply NoDup_app_inv in Hnd as [_ [_ Hdis]].
  rewrite filter_all_false, filter_all_true; [reflexivity| |].
  - intros x Hx. apply negb_true_iff. apply mem_z_false. intro Hin. unfold grouped_ptrs in Hin.
    apply (Hdis (f_ptr x)); [exact Hin|apply in_map; exact Hx].
  - intros x Hx. apply negb_false_iff. apply mem_z_In. unfold grouped_ptrs. apply in_map. exact Hx.
Qed.

Lemma all_rows_app a b : all_rows (a ++ b) = all_rows a ++ all_rows b.
Proof. unfold all_rows, all_blocks. rewrite !flat_map_app. reflexivity. Qed.

Lemma all_rows_perm a b : Permutation a b -> Permutation (all_rows a) (all_rows b).
Proof. intro H. unfold all_rows, all_blocks. apply Permutation_flat_map. apply Permutation_flat_map. exact H. Qed.

Lemma flat_map_concat' {A B} (f : A -> list B) (l : list (list A)) :
  flat_map f (concat l) = flat_map (fun g => flat_map f g) l.
Proof. induction l as [|x t IH]; simpl; [reflexivity|]. rewrite flat_map_app, IH. reflexivity. Qed.

Lemma flat_map_map' {A B C} (f : B -> list C) (g : A -> B) (l : list A) :
  flat_map f (map g l) = flat_map (fun x => f (g x)) l.
Proof. induction l as [|x t IH]; simpl; [reflexivity|]. rewrite IH. reflexivity. Qed.

(* one output file holds exactly the rows of its group *)
Lemma out_file_rows e c po p g :
  porder_ok g po ->
  Permutation (flat_map b_rows (f_blocks (out_file e c po p g))) (flat_map b_rows (group_blocks g)).
Proof.
  intros [Hn Hc]. cbn [out_file f_blocks]. rewrite flat_map_map'.
  rewrite (flat_map_ext _ (fun g0 => flat_map b_rows g0)) by (intros; apply out_block_rows).
  rewrite <- flat_map_concat'. apply Permutation_flat_map.
  apply plan_blocks_spec; assumption.
Qed.

Lemma out_files_rows e c : forall groups porders ptrs,
  Forall2 porder_ok groups porders -> length ptrs = length groups ->
  Permutation (all_rows (out_files e c groups porders ptrs)) (all_rows (concat groups)).
Proof.
  induction groups as [|g gs IH]; intros porders ptrs HF Hl.
  - inversion HF; subst. simpl. reflexivity.
  - inversion HF as [|? po ? pos Hpo HF']; subst. destruct ptrs as [|p ps]; [simpl in Hl; lia|].
    cbn [out_files concat]. change (out_file e c po p g :: out_files e c gs pos ps)
      with ([out_file e c po p g] ++ out_files e c gs pos ps).
    rewrite !all_rows_app. apply Permutation_app.
    + unfold all_rows, all_blocks. simpl. rewrite app_nil_r. apply (out_file_rows e c po p g Hpo).
    + apply IH; [exact HF'|simpl in Hl; lia].
Qed.

(* C11: the multiset of stored rows is unchanged *)
Lemma merge_rows e c st st' :
  NoDup (map f_ptr st) -> merge_ok e c st st' -> Permutation (all_rows st') (all_rows st).
Proof.
  intros Hn [sorted [porders [ptrs [Hs [HF [Hl [_ [_ ->]]]]]]]].
  destruct (merge_store_shape e c sorted porders ptrs st Hs Hn) as [lo [H1 H2]].
  rewrite (all_rows_perm _ _ H2), all_rows_app.
  rewrite <- (all_rows_perm _ _ H1), all_rows_app.
  rewrite (out_files_rows e c _ _ _ HF Hl). apply Permutation_app_comm.
Qed.

Lemma Forall2_len {A B} (R : A -> B -> Prop) l l' : Forall2 R l l' -> length l = length l'.
Proof. induction 1; simpl; auto. Qed.

Lemma out_files_ptrs e c : forall groups porders ptrs,
  length porders = length groups -> length ptrs = length groups ->
  map f_ptr (out_files e c groups porders ptrs) = ptrs.
Proof.
  induction groups as [|g gs IH]; intros [|po pos] [|p ps] H1 H2; simpl in *; try lia; try reflexivity.
  f_equal. apply IH; lia.
Qed.

Lemma out_file_wf e c po p g :
  porder_ok g po -> (forall f, In f g -> file_wf f) -> file_wf (out_file e c po p g).
Proof.
  intros [Hn Hc] Hwf.
  destruct (plan_blocks_spec c po (group_blocks g) Hn Hc) as [Hp Hg]. rewrite Forall_forall in Hg.
  assert (Hbwf : forall b, In b (group_blocks g) -> block_wf b).
  { intros b Hb. unfold group_blocks in Hb. apply in_flat_map in Hb as [f [Hf Hb]]. apply (Hwf f Hf). exact Hb. }
  assert (Hmem : forall pg b, In pg (plan_blocks c po (group_blocks g)) -> In b pg -> In b (group_blocks g)).
  { intros pg b Hpg Hb. eapply Permutation_in; [exact Hp|]. apply in_concat. exists pg. auto. }
  split; cbn [out_file f_blocks f_ents].
  - intros b Hb. apply in_map_iff in Hb as [pg [<- Hpg]].
    eapply out_block_wf; [apply Hg; exact Hpg|]. intros x Hx. apply Hbwf. eapply Hmem; eauto.
  - intros b r x Hb Hr Hx. apply in_map_iff in Hb as [pg [<- Hpg]].
    rewrite out_block_rows in Hr. apply in_flat_map in Hr as [b0 [Hb0 Hr]].
    apply in_flat_map. exists r. split; [|exact Hx]. apply in_flat_map. exists b0. split; [|exact Hr].
    eapply Hmem; eauto.
Qed.

Lemma out_files_wf e c : forall groups porders ptrs,
  Forall2 porder_ok groups porders -> (forall g f, In g groups -> In f g -> file_wf f) ->
  forall f, In f (out_files e c groups porders ptrs) -> file_wf f.
Proof.
  induction groups as [|g gs IH]; intros porders ptrs HF Hwf f Hf.
  - inversion HF; subst. simpl in Hf. contradiction.
  - inversion HF as [|? po ? pos Hpo HF']; subst. destruct ptrs as [|p ps]; [simpl in Hf; contradiction|].
    cbn [out_files] in Hf. destruct Hf as [<-|Hf].
    + apply out_file_wf; [exact Hpo|]. intros x Hx. apply (Hwf g x); simpl; auto.
    + eapply IH; eauto. intros g' x Hg' Hx. apply (Hwf g' x); simpl; auto.
Qed.

(* C11: every row stays in a block with its partition whose ranges cover it; metadata stays
   truthful; pointers stay unique (so the statement composes over repeated merges) *)
Lemma merge_store_wf e c st st' : store_wf st -> merge_ok e c st st' -> store_wf st'.
Proof.
  intros [Hn Hwf] [sorted [porders [ptrs [Hs [HF [Hl [Hnp [Hfresh ->]]]]]]]].
  destruct (merge_store_shape e c sorted porders ptrs st Hs Hn) as [lo [H1 H2]].
  set (groups := plan_files_ord c sorted) in *.
  assert (Hin : forall f, In f (concat groups ++ lo) -> In f st) by (intros f Hf; eapply Permutation_in; eauto).
  split.
  - eapply Permutation_NoDup; [apply Permutation_map; symmetry; exact H2|].
    rewrite map_app, (out_files_ptrs e c groups porders ptrs (eq_sym (Forall2_len _ _ _ HF)) Hl).
    assert (Hlo : NoDup (map f_ptr lo) /\ forall p, In p (map f_ptr lo) -> In p (map f_ptr st)).
    { split.
      - assert (Hnd : NoDup (map f_ptr (concat groups ++ lo))).
        { eapply Permutation_NoDup; [|exact Hn]. apply Permutation_map. symmetry. exact H1. }
        rewrite map_app in Hnd. apply NoDup_app_inv in Hnd. apply Hnd.
      - intros p Hp. apply in_map_iff in Hp as [f [<- Hf]]. apply in_map. apply Hin. apply in_or_app. auto. }
    destruct Hlo as [Hlo1 Hlo2].
    clear - Hlo1 Hlo2 Hnp Hfresh. induction (map f_ptr lo) as [|x t IH]; simpl; [exact Hnp|].
    inversion Hlo1; subst. constructor.
    + intro Hx. apply in_app_or in Hx as [Hx|Hx]; [contradiction|].
      apply (Hfresh x Hx). apply Hlo2. simpl. auto.
    + apply IH; [assumption|]. intros p Hp. apply Hlo2. simpl. auto.
  - intros f Hf. eapply Permutation_in in Hf; [|exact H2]. apply in_app_or in Hf as [Hf|Hf].
    + apply Hwf. apply Hin. apply in_or_app. auto.
    + eapply out_files_wf; [exact HF| |exact Hf].
      intros g x Hg Hx. apply Hwf. apply Hin. apply in_or_app. left. apply in_concat. exists g. auto.
Qed.

(* where the rows of the new store sit: the statement of C11's second clause *)
Lemma store_wf_rows st f b r :
  store_wf st -> In f st -> In b (f_blocks f) -> In r (b_rows b) ->
  b_part b = mr_part r /\ (forall k lo hi, In (k, (lo, hi)) (mr_vals r) -> mm_covers (b_minmax b) k lo hi).
Proof.
  intros [_ Hwf] Hf Hb Hr. destruct (Hwf f Hf) as [Hb' _]. destruct (Hb' b Hb) as [_ [_ [_ [Hc _]]]].
  apply (Hc r Hr).
Qed.

(* the key set of a combined block is the key set each of its sources had *)
Lemma merged_block_keys c e g b k :
  bgroup_ok c g -> In b g ->
  (assoc k (b_minmax (merged_block e g)) <> None <-> assoc k (b_minmax b) <> None).
Proof.
  intros [_ [Hkey _]] Hb. unfold b_minmax at 1. cbn [merged_block b_meta b_mm]. rewrite merge_mms_keys.
  assert (Hsame : forall x, In x g -> (assoc k (b_minmax x) <> None <-> assoc k (b_minmax b) <> None)).
  { intros x Hx. pose proof (Hkey x b Hx Hb) as K. apply merge_key_iff in K as [_ K].
    assert (G : forall m : list (str * (Z * Z)), assoc k m <> None <-> In k (map fst m)).
    { clear. induction m as [|[k' v] t IH]; simpl; [split; [congruence|tauto]|].
      destruct (str_eqb k k') eqn:E.
      - apply str_eqb_eq in E. subst. split; [auto|discriminate].
      - apply str_eqb_neq in E. rewrite IH. split; [auto|]. intros [H|H]; [congruence|exact H]. }
    unfold b_minmax. rewrite !G. split; intro H;
      [eapply Permutation_in; [exact K|exact H] | eapply Permutation_in; [symmetry; exact K|exact H]]. }
  split.
  - intros [x [Hx Hk]]. apply (Hsame x Hx). exact Hk.
  - intro Hk. exists b. auto.
Qed.

(* ------------------------------------------------------------------ *)
(* prefilters are monotone in the block's ranges                        *)

Ltac b2p :=
  repeat (rewrite ?andb_true_iff, ?orb_true_iff, ?negb_true_iff, ?Z.leb_le, ?Z.ltb_lt, ?Z.eqb_eq, ?Z.eqb_neq in * ).

Lemma eval_minmax_mono mn mx mn' mx' c :
  mn <= mx -> mn' <= mn -> mx <= mx' -> in64 mn' -> in64 mx' ->
  eval_minmax (mn, mx) c = true -> eval_minmax (mn', mx') c = true.
Proof.
  unfold eval_minmax, in64, MaxInt64, MinInt64. intros H0 H1 H2 H3 H4.
  destruct (n_op c); try (intro H; b2p; lia); try (intro H; exact H).
  intro H. apply existsb_exists in H as [v [Hv H]]. apply existsb_exists. exists v. split; [exact Hv|]. b2p. lia.
Qed.

(* m' describes a block at least as wide as m: same partition, every key of m present in
   m' with a range that contains m's *)
Definition meta_le (m m' : blockmeta) : Prop :=
  b_partition m = b_partition m' /\
  forall k mn mx, assoc k (b_mm m) = Some (mn, mx) ->
    exists mn' mx', assoc k (b_mm m') = Some (mn', mx') /\ mn' <= mn /\ mx <= mx' /\ in64 mn' /\ in64 mx'.

Lemma eval_pcond_mono m m' c :
  mm_ok (b_mm m) -> meta_le m m' -> eval_pcond m c = true -> eval_pcond m' c = true.
Proof.
  intros Hok [Hp Hm]. destruct c as [[sc|]|f [nc|]|]; simpl; try (intro; reflexivity); try discriminate.
  - rewrite <- Hp. auto.
  - destruct (assoc f (b_mm m)) as [[mn mx]|] eqn:E; [|discriminate].
    destruct (Hm f mn mx E) as [mn' [mx' [E' [A [B [C D]]]]]]. rewrite E'.
    destruct (mm_ok_assoc _ _ _ _ Hok E) as [_ [_ Hle]]. apply eval_minmax_mono; auto.
Qed.

Lemma eval_pexpr_mono m m' e :
  mm_ok (b_mm m) -> meta_le m m' -> eval_pexpr m e = true -> eval_pexpr m' e = true.
Proof.
  intros Hok Hle. induction e as [c|cs IH|cs IH|] using pexpr_ind'; simpl; intro H.
  - destruct c as [c|]; [|reflexivity]. eapply eval_pcond_mono; eauto.
  - rewrite forallb_forall in *. rewrite Forall_forall in IH. intros x Hx. apply IH; auto.
  - apply existsb_exists in H as [x [Hx H]]. apply existsb_exists. exists x. rewrite Forall_forall in IH. auto.
  - discriminate.
Qed.

Lemma block_passes_mono pre m m' :
  mm_ok (b_mm m) -> meta_le m m' -> block_passes pre m = true -> block_passes pre m' = true.
Proof. destruct pre as [e|]; simpl; [apply eval_pexpr_mono|auto]. Qed.

Lemma merged_meta_le c e g b :
  bgroup_ok c g -> (forall x, In x g -> block_wf x) -> In b g ->
  meta_le (b_meta b) (b_meta (merged_block e g)).
Proof.
  intros Hg Hwf Hb. pose proof (merged_block_wf c e g Hg Hwf) as [_ [_ [Hok _]]].
  destruct Hg as [_ [Hkey _]]. split.
  - cbn [merged_block b_meta b_partition]. destruct g as [|b0 t]; [contradiction|].
    symmetry. apply (same_key_partition b0 b). apply Hkey; simpl; auto.
  - intros k mn mx E.
    assert (Hc : mm_covers (b_minmax b) k mn mx) by (exists mn, mx; split; [exact E|lia]).
    apply (merge_mms_covers g b k mn mx Hb) in Hc. destruct Hc as [mn' [mx' [E' [A B]]]].
    exists mn', mx'. cbn [merged_block b_meta b_mm]. split; [exact E'|].
    unfold b_minmax in Hok. cbn [merged_block b_meta b_mm] in Hok.
    destruct (mm_ok_assoc _ _ _ _ Hok E') as [C [D _]]. auto.
Qed.

(* ------------------------------------------------------------------ *)
(* multiset inclusion                                                   *)

Definition msub {A} (l1 l2 : list A) : Prop := exists l, Permutation (l1 ++ l) l2.

Lemma msub_refl {A} (l : list A) : msub l l.
Proof. exists []. rewrite app_nil_r. reflexivity. Qed.

Lemma msub_nil {A} (l : list A) : msub [] l.
Proof. exists l. reflexivity. Qed.

Lemma msub_app {A} (a b c d : list A) : msub a b -> msub c d -> msub (a ++ c) (b ++ d).
Proof.
  intros [x Hx] [y Hy]. exists (x ++ y). rewrite <- Hx, <- Hy.
  rewrite <- !app_assoc. apply Permutation_app_head. rewrite !app_assoc. apply Permutation_app_tail.
  apply Permutation_app_comm.
Qed.

Lemma msub_perm {A} (a a' b b' : list A) : Permutation a a' -> Permutation b b' -> msub a b -> msub a' b'.
Proof. intros Ha Hb [x Hx]. exists x. rewrite <- Ha, <- Hb. exact Hx. Qed.

Lemma msub_trans {A} (a b c : list A) : msub a b -> msub b c -> msub a c.
Proof. intros [x Hx] [y Hy]. exists (x ++ y). rewrite app_assoc, Hx. exact Hy. Qed.

Lemma msub_flat_map {A B} (f g : A -> list B) (l : list A) :
  (forall x, In x l -> msub (f x) (g x)) -> msub (flat_map f l) (flat_map g l).
Proof.
  induction l as [|x t IH]; simpl; intro H; [apply msub_refl|].
  apply msub_app; [apply H; auto|apply IH; intros; apply H; auto].
Qed.

(* ------------------------------------------------------------------ *)
(* query answers before and after a merge                               *)

Lemma flat_map_ext_in' {A B} (f g : A -> list B) (l : list A) :
  (forall x, In x l -> f x = g x) -> flat_map f l = flat_map g l.
Proof.
  induction l as [|x t IH]; simpl; intro H; [reflexivity|].
  rewrite H by auto. f_equal. apply IH. intros; apply H; auto.
Qed.

Lemma flat_map_all_nil {A B} (f : A -> list B) (l : list A) :
  (forall x, In x l -> f x = []) -> flat_map f l = [].
Proof.
  induction l as [|x t IH]; simpl; intro H; [reflexivity|].
  rewrite H by auto. apply IH. intros; apply H; auto.
Qed.

Section QueryProofs.
  Variable Q : Type.
  Variable row_sat : Q -> mrow -> bool.
  Variable guard : Q -> (str -> bool) -> bool.
  Variable ftest : Z -> list str -> str -> bool.
  (* a filter never denies an entry that was inserted (bloom filters have no false negatives) *)
  Hypothesis ftest_nofn : forall p E x, In x E -> ftest p E x = true.
  (* the pruning test is monotone in the filter's answers ... *)
  Hypothesis guard_mono : forall q (m1 m2 : str -> bool),
    (forall x, m1 x = true -> m2 x = true) -> guard q m1 = true -> guard q m2 = true.
  (* ... and passes on the entries of a row the row matcher accepts (C01's prune soundness) *)
  Hypothesis guard_sound : forall q r, row_sat q r = true -> guard q (fun x => mem_str x (mr_ents r)) = true.

  Notation run_query := (run_query Q row_sat guard ftest).
  Notation query_file := (query_file Q row_sat guard ftest).
  Notation query_block := (query_block Q row_sat guard ftest).

  Lemma guard_on_entries q r p E :
    row_sat q r = true -> (forall x, In x (mr_ents r) -> In x E) -> guard q (ftest p E) = true.
  Proof.
    intros Hs Hin. eapply guard_mono; [|apply guard_sound; exact Hs].
    intros x Hx. apply ftest_nofn. apply Hin. apply mem_str_In. exact Hx.
  Qed.

  (* what a block contributes once the filters are known not to lose anything *)
  Definition qb (pre : option pexpr) (q : Q) (b : block) : list mrow :=
    if block_passes pre (b_meta b) then filter (row_sat q) (b_rows b) else [].

  Lemma query_block_qb pre q b : block_wf b -> query_block pre q b = qb pre q b.
  Proof.
    intros [_ [_ [_ [_ He]]]]. unfold MergePlan.query_block, block_hit, qb.
    destruct (block_passes pre (b_meta b)); simpl; [|reflexivity].
    destruct (guard q (ftest (b_fparam b) (b_ents b))) eqn:G; [reflexivity|].
    symmetry. apply filter_all_false. intros r Hr. destruct (row_sat q r) eqn:S; [|reflexivity].
    rewrite (guard_on_entries q r (b_fparam b) (b_ents b) S) in G; [discriminate|].
    intros x Hx. eapply He; eauto.
  Qed.

  Lemma query_file_qb pre q f : file_wf f -> query_file pre q f = flat_map (qb pre q) (f_blocks f).
  Proof.
    intros [Hb He]. unfold MergePlan.query_file.
    assert (Heq : flat_map (query_block pre q) (f_blocks f) = flat_map (qb pre q) (f_blocks f)).
    { apply flat_map_ext_in'. intros b Hin. apply query_block_qb. auto. }
    destruct (guard q (ftest (f_fparam f) (f_ents f))) eqn:G; [exact Heq|].
    symmetry. clear Heq.
    assert (Hnil : forall b, In b (f_blocks f) -> qb pre q b = []).
    { intros b Hin. unfold qb. destruct (block_passes pre (b_meta b)); [|reflexivity].
      apply filter_all_false. intros r Hr. destruct (row_sat q r) eqn:S; [|reflexivity].
      rewrite (guard_on_entries q r (f_fparam f) (f_ents f) S) in G; [discriminate|].
      intros x Hx. eapply He; eauto. }
    apply flat_map_all_nil. exact Hnil.
  Qed.

  Lemma run_query_qb pre q st :
    (forall f, In f st -> file_wf f) -> run_query pre q st = flat_map (qb pre q) (all_blocks st).
  Proof.
    intro Hwf. unfold MergePlan.run_query, all_blocks.
    induction st as [|f t IH]; simpl; [reflexivity|].
    rewrite flat_map_app, query_file_qb by (apply Hwf; simpl; auto).
    f_equal. apply IH. intros; apply Hwf; simpl; auto.
  Qed.

  Lemma filter_flat_map {A B} (p : B -> bool) (g : A -> list B) (l : list A) :
    filter p (flat_map g l) = flat_map (fun x => filter p (g x)) l.
  Proof. induction l as [|x t IH]; simpl; [reflexivity|]. rewrite filter_app, IH. reflexivity. Qed.

  (* without a prefilter the answer is exactly the matching rows of the store *)
  Lemma run_query_none q st :
    (forall f, In f st -> file_wf f) -> run_query None q st = filter (row_sat q) (all_rows st).
  Proof.
    intro Hwf. rewrite run_query_qb by exact Hwf. unfold all_rows. rewrite filter_flat_map. reflexivity.
  Qed.

  (* C11: queries without a prefilter *)
  Lemma merge_query_eq e c st st' q :
    store_wf st -> merge_ok e c st st' ->
    Permutation (run_query None q st') (run_query None q st).
  Proof.
    intros Hwf Hm. pose proof (merge_store_wf e c st st' Hwf Hm) as Hwf'.
    rewrite (run_query_none q st' (proj2 Hwf')), (run_query_none q st (proj2 Hwf)).
    apply filter_perm. apply (merge_rows e c st st' (proj1 Hwf) Hm).
  Qed.

  (* one output block returns at least what its sources returned *)
  Lemma out_block_msub c e pre q pg :
    bgroup_ok c pg -> (forall b, In b pg -> block_wf b) ->
    msub (flat_map (qb pre q) pg) (qb pre q (out_block e pg)).
  Proof.
    intros Hg Hwf. destruct pg as [|b [|b' t]].
    - apply msub_nil.
    - simpl. rewrite app_nil_r. apply msub_refl.
    - change (out_block e (b :: b' :: t)) with (merged_block e (b :: b' :: t)).
      set (g := b :: b' :: t) in *. unfold qb at 2.
      destruct (block_passes pre (b_meta (merged_block e g))) eqn:P.
      + cbn [merged_block b_rows]. rewrite filter_flat_map. apply msub_flat_map.
        intros x Hx. unfold qb. destruct (block_passes pre (b_meta x)); [apply msub_refl|apply msub_nil].
      + assert (Hn : forall x, In x g -> qb pre q x = []).
        { intros x Hx. unfold qb. destruct (block_passes pre (b_meta x)) eqn:Px; [|reflexivity].
          rewrite (block_passes_mono pre (b_meta x) (b_meta (merged_block e g))) in P; [discriminate| | |exact Px].
          - apply (Hwf x Hx).
          - eapply merged_meta_le; eauto. }
        assert (E : flat_map (qb pre q) g = []).
        { apply flat_map_all_nil. exact Hn. }
        rewrite E. apply msub_nil.
  Qed.

  Lemma out_file_msub e c po p g pre q :
    porder_ok g po -> (forall f, In f g -> file_wf f) ->
    msub (flat_map (qb pre q) (group_blocks g)) (flat_map (qb pre q) (f_blocks (out_file e c po p g))).
  Proof.
    intros [Hn Hc] Hwf.
    destruct (plan_blocks_spec c po (group_blocks g) Hn Hc) as [Hp Hg]. rewrite Forall_forall in Hg.
    assert (Hbwf : forall b, In b (group_blocks g) -> block_wf b).
    { intros b Hb. unfold group_blocks in Hb. apply in_flat_map in Hb as [f [Hf Hb]]. apply (Hwf f Hf). exact Hb. }
    cbn [out_file f_blocks]. rewrite flat_map_map'.
    eapply msub_perm; [apply Permutation_flat_map; exact Hp|reflexivity|].
    rewrite flat_map_concat'. apply msub_flat_map. intros pg Hpg.
    eapply out_block_msub; [apply Hg; exact Hpg|].
    intros b Hb. apply Hbwf. eapply Permutation_in; [exact Hp|]. apply in_concat. exists pg. auto.
  Qed.

  Lemma all_blocks_app a b : all_blocks (a ++ b) = all_blocks a ++ all_blocks b.
  Proof. unfold all_blocks. apply flat_map_app. Qed.

  Lemma out_files_msub e c pre q : forall groups porders ptrs,
    Forall2 porder_ok groups porders -> length ptrs = length groups ->
    (forall g f, In g groups -> In f g -> file_wf f) ->
    msub (flat_map (qb pre q) (all_blocks (concat groups)))
         (flat_map (qb pre q) (all_blocks (out_files e c groups porders ptrs))).
  Proof.
    induction groups as [|g gs IH]; intros porders ptrs HF Hl Hwf.
    - inversion HF; subst. simpl. apply msub_refl.
    - inversion HF as [|? po ? pos Hpo HF']; subst. destruct ptrs as [|p ps]; [simpl in Hl; lia|].
      cbn [out_files concat]. change (out_file e c po p g :: out_files e c gs pos ps)
        with ([out_file e c po p g] ++ out_files e c gs pos ps).
      rewrite !all_blocks_app, !flat_map_app. apply msub_app.
      + unfold all_blocks at 2. simpl. rewrite app_nil_r.
        apply (out_file_msub e c po p g pre q Hpo). intros f Hf. apply (Hwf g f); simpl; auto.
      + apply IH; [exact HF'|simpl in Hl; lia|]. intros g' f Hg' Hf. apply (Hwf g' f); simpl; auto.
  Qed.

  (* C11: queries with a prefilter return a superset (as multisets) ... *)
  Lemma merge_query_superset e c st st' pre q :
    store_wf st -> merge_ok e c st st' ->
    msub (run_query pre q st) (run_query pre q st').
  Proof.
    intros Hwf Hm. pose proof (merge_store_wf e c st st' Hwf Hm) as Hwf'.
    rewrite (run_query_qb pre q st' (proj2 Hwf')), (run_query_qb pre q st (proj2 Hwf)).
    destruct Hwf as [Hn Hfw].
    destruct Hm as [sorted [porders [ptrs [Hs [HF [Hl [_ [_ ->]]]]]]]].
    destruct (merge_store_shape e c sorted porders ptrs st Hs Hn) as [lo [H1 H2]].
    set (groups := plan_files_ord c sorted) in *.
    assert (P1 : Permutation (flat_map (qb pre q) (all_blocks st))
                             (flat_map (qb pre q) (all_blocks lo) ++ flat_map (qb pre q) (all_blocks (concat groups)))).
    { rewrite <- flat_map_app, <- all_blocks_app. apply Permutation_flat_map. unfold all_blocks.
      apply Permutation_flat_map. rewrite <- H1. apply Permutation_app_comm. }
    assert (P2 : Permutation (flat_map (qb pre q) (all_blocks (merge_store e c sorted porders ptrs st)))
                             (flat_map (qb pre q) (all_blocks lo) ++
                              flat_map (qb pre q) (all_blocks (out_files e c groups porders ptrs)))).
    { rewrite <- flat_map_app, <- all_blocks_app. apply Permutation_flat_map. unfold all_blocks.
      apply Permutation_flat_map. exact H2. }
    eapply msub_perm; [symmetry; exact P1|symmetry; exact P2|].
    apply msub_app; [apply msub_refl|].
    apply out_files_msub; [exact HF|exact Hl|].
    intros g f Hg Hf. apply Hfw. eapply Permutation_in; [exact H1|]. apply in_or_app. left.
    apply in_concat. exists g. auto.
  Qed.

  (* ... limited to rows that match the bloom and regex expression *)
  Lemma run_query_sat pre q st r : In r (run_query pre q st) -> row_sat q r = true.
  Proof.
    unfold MergePlan.run_query. intro H. apply in_flat_map in H as [f [_ H]].
    unfold MergePlan.query_file in H. destruct (guard q (ftest (f_fparam f) (f_ents f))); [|contradiction].
    apply in_flat_map in H as [b [_ H]]. unfold MergePlan.query_block in H.
    destruct (block_hit Q guard ftest pre q b); [|contradiction]. apply filter_In in H. apply H.
  Qed.

  (* repeated merges, any limits and environments at each step *)
  Inductive merges : list file -> list file -> Prop :=
  | merges_refl st : merges st st
  | merges_step st st1 st2 e c : merges st st1 -> merge_ok e c st1 st2 -> merges st st2.

  Lemma merges_wf st st' : store_wf st -> merges st st' -> store_wf st'.
  Proof.
    intros Hwf H. induction H as [|st st1 st2 e c H IH Hm]; [exact Hwf|].
    apply (merge_store_wf e c st1 st2 (IH Hwf) Hm).
  Qed.

  Lemma merges_rows st st' : store_wf st -> merges st st' -> Permutation (all_rows st') (all_rows st).
  Proof.
    intros Hwf H. induction H as [|st st1 st2 e c H IH Hm]; [reflexivity|].
    pose proof (merges_wf _ _ Hwf H) as [Hn _].
    rewrite (merge_rows e c st1 st2 Hn Hm). apply IH. exact Hwf.
  Qed.

  Lemma merges_query_eq st st' q :
    store_wf st -> merges st st' -> Permutation (run_query None q st') (run_query None q st).
  Proof.
    intros Hwf H. induction H as [|st st1 st2 e c H IH Hm]; [reflexivity|].
    rewrite (merge_query_eq e c st1 st2 q (merges_wf _ _ Hwf H) Hm). apply IH. exact Hwf.
  Qed.

  Lemma merges_query_superset st st' pre q :
    store_wf st -> merges st st' -> msub (run_query pre q st) (run_query pre q st').
  Proof.
    intros Hwf H. induction H as [|st st1 st2 e c H IH Hm]; [apply msub_refl|].
    eapply msub_trans; [apply IH; exact Hwf|].
    apply (merge_query_superset e c st1 st2 pre q (merges_wf _ _ Hwf H) Hm).
  Qed.
End QueryProofs.

(* ------------------------------------------------------------------ *)
(* statements in the form used by Properties/C11.v and C12.v            *)

Lemma plan_blocks_groups_ok c porder bs : Forall (bgroup_ok c) (plan_blocks c porder bs).
Proof.
  unfold plan_blocks. apply Forall_forall. intros g Hg. apply in_flat_map in Hg as [p [_ Hg]].
  destruct (plan_partition_spec c (filter (fun b => str_eqb (b_part b) p) bs)) as [_ F].
  rewrite Forall_forall in F. auto.
Qed.

Lemma plan_blocks_limits c porder bs g :
  In g (plan_blocks c porder bs) -> (2 <= length g)%nat ->
  blocks_rows g <= c_max_rows c /\ blocks_usize g <= c_max_bytes c /\
  forall x y, In x g -> In y g ->
    b_part x = b_part y /\ Permutation (map fst (b_minmax x)) (map fst (b_minmax y)).
Proof.
  intros Hg H2. pose proof (plan_blocks_groups_ok c porder bs) as F. rewrite Forall_forall in F.
  destruct (F g Hg) as [_ [Hk Hl]]. destruct (Hl H2) as [L1 L2]. split; [exact L1|]. split; [exact L2|].
  intros x y Hx Hy. apply merge_key_iff. apply Hk; assumption.
Qed.

Lemma plan_blocks_partition c porder bs :
  NoDup porder -> (forall b, In b bs -> In (b_part b) porder) ->
  Permutation (concat (plan_blocks c porder bs)) bs.
Proof. intros Hn Hc. apply plan_blocks_spec; assumption. Qed.

Lemma plan_files_limits c files :
  let groups := plan_files c files in
  Z.of_nat (length (concat groups)) <= Z.max 0 (c_max_files c) /\
  Forall (fun g => (2 <= length g)%nat /\ files_size g <= c_max_file_size c) groups /\
  exists leftover, Permutation (concat groups ++ leftover) files.
Proof. destruct (plan_files_spec c files) as [A [B C]]. auto. Qed.

Lemma plan_files_any_order c files sorted :
  Permutation sorted files ->
  let groups := plan_files_ord c sorted in
  Z.of_nat (length (concat groups)) <= Z.max 0 (c_max_files c) /\
  Forall (fun g => (2 <= length g)%nat /\ files_size g <= c_max_file_size c) groups /\
  exists leftover, Permutation (concat groups ++ leftover) files.
Proof.
  intro Hp. destruct (plan_files_ord_spec c sorted) as [[lo A] [B C]]. split; [exact C|]. split; [exact B|].
  exists lo. rewrite A. exact Hp.
Qed.

Lemma plan_files_disjoint c files :
  NoDup (map f_ptr files) -> NoDup (map f_ptr (concat (plan_files c files))).
Proof.
  intro Hn. destruct (plan_files_spec c files) as [[lo A] _]. eapply groups_nodup; eauto.
Qed.

Lemma merge_rows_covered e c st st' f b r :
  store_wf st -> merge_ok e c st st' -> In f st' -> In b (f_blocks f) -> In r (b_rows b) ->
  b_part b = mr_part r /\ (forall k lo hi, In (k, (lo, hi)) (mr_vals r) -> mm_covers (b_minmax b) k lo hi).
Proof. intros Hwf Hm. apply store_wf_rows. eapply merge_store_wf; eauto. Qed.

(* the premises about filters and the row matcher, packaged (they are what C01/C02 establish) *)
Definition filter_facts (Q : Type) (row_sat : Q -> mrow -> bool) (guard : Q -> (str -> bool) -> bool)
  (ftest : Z -> list str -> str -> bool) : Prop :=
  (forall p E x, In x E -> ftest p E x = true) /\
  (forall q (m1 m2 : str -> bool), (forall x, m1 x = true -> m2 x = true) -> guard q m1 = true -> guard q m2 = true) /\
  (forall q r, row_sat q r = true -> guard q (fun x => mem_str x (mr_ents r)) = true).

Lemma ff_merge_query_eq Q row_sat guard ftest : filter_facts Q row_sat guard ftest ->
  forall e c st st' q, store_wf st -> merge_ok e c st st' ->
  Permutation (run_query Q row_sat guard ftest None q st') (run_query Q row_sat guard ftest None q st).
Proof. intros [A [B C]]. apply merge_query_eq; assumption. Qed.

Lemma ff_merge_query_superset Q row_sat guard ftest : filter_facts Q row_sat guard ftest ->
  forall e c st st' pre q, store_wf st -> merge_ok e c st st' ->
  msub (run_query Q row_sat guard ftest pre q st) (run_query Q row_sat guard ftest pre q st').
Proof. intros [A [B C]]. apply merge_query_superset; assumption. Qed.

Lemma ff_merges_query_eq Q row_sat guard ftest : filter_facts Q row_sat guard ftest ->
  forall st st' q, store_wf st -> merges st st' ->
  Permutation (run_query Q row_sat guard ftest None q st') (run_query Q row_sat guard ftest None q st).
Proof. intros [A [B C]]. apply merges_query_eq; assumption. Qed.

Lemma ff_merges_query_superset Q row_sat guard ftest : filter_facts Q row_sat guard ftest ->
  forall st st' pre q, store_wf st -> merges st st' ->
  msub (run_query Q row_sat guard ftest pre q st) (run_query Q row_sat guard ftest pre q st').
Proof. intros [A [B C]]. apply merges_query_superset; assumption. Qed.

Lemma merged_prefilter_monotone c e g b pre :
  bgroup_ok c g -> (forall x, In x g -> block_wf x) -> In b g ->
  block_passes pre (b_meta b) = true -> block_passes pre (b_meta (merged_block e g)) = true.
Proof.
  intros Hg Hwf Hb. apply block_passes_mono; [apply (Hwf b Hb)|eapply merged_meta_le; eauto].
Qed.
