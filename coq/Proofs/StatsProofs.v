(* Results.Stats() (Model/Stats.v): the aggregate is the per-block sums; entries of pruned blocks carry no rows. *)
From BS Require Import Model.Stats.
From Coq Require Import List ZArith Bool Lia.
Import ListNotations.
Local Open Scope Z_scope.

Lemma count_if_cons {A} (p : A -> bool) x l : count_if p (x :: l) = (if p x then 1 else 0) + count_if p l.
Proof. reflexivity. Qed.
Lemma sumZ_cons {A} (f : A -> Z) x l : sumZ f (x :: l) = f x + sumZ f l.
Proof. reflexivity. Qed.

Definition agg_ok (acc r : qstats) (l : list bstat) : Prop :=
  qs_processed r = qs_processed acc + count_if (fun b => negb (bs_skipped b)) l /\
  qs_skipped r = qs_skipped acc + count_if bs_skipped l /\
  qs_rows r = qs_rows acc + sumZ bs_rows l /\
  qs_bytes r = qs_bytes acc + sumZ bs_bytes l /\
  qs_matched r = qs_matched acc /\ qs_blocks r = qs_blocks acc.

Lemma fold_stats_add l : forall acc, agg_ok acc (fold_left stats_add l acc) l.
Proof.
  induction l as [|b t IH]; intros acc.
  - unfold agg_ok, count_if, sumZ. cbn. repeat split; lia.
  - cbn [fold_left]. destruct (IH (stats_add acc b)) as [A [B [C [D [E F]]]]].
    unfold agg_ok. rewrite A, B, C, D, E, F, !count_if_cons, !sumZ_cons.
    unfold stats_add. cbn [qs_processed qs_skipped qs_rows qs_bytes qs_matched qs_blocks].
    destruct (bs_skipped b); cbn [negb]; repeat split; lia.
Qed.

(* C23: the totals are the per-block sums, RowsMatched is the counter, the list is the list *)
Theorem stats_totals matched l :
  let s := stats_of matched l in
  qs_processed s = count_if (fun b => negb (bs_skipped b)) l /\
  qs_skipped s = count_if bs_skipped l /\
  qs_rows s = sumZ bs_rows l /\ qs_bytes s = sumZ bs_bytes l /\
  qs_matched s = matched /\ qs_blocks s = l /\
  qs_processed s + qs_skipped s = Z.of_nat (length l).
Proof.
  unfold stats_of. destruct (fold_stats_add l {| qs_processed := 0; qs_skipped := 0; qs_rows := 0; qs_bytes := 0; qs_matched := matched; qs_blocks := l |}) as [A [B [C [D [E F]]]]].
  cbn [qs_processed qs_skipped qs_rows qs_bytes qs_matched qs_blocks] in *. cbv zeta. rewrite A, B, C, D, E, F. repeat split; try lia.
  clear. induction l as [|b t IH]; [reflexivity|]. rewrite !count_if_cons. cbn [length]. destruct (bs_skipped b); cbn [negb]; lia.
Qed.

(* the three producers: only a pruned block is marked skipped, and it carries zero rows and bytes *)
Lemma producers_skipped_zero f off rows bytes trows tbytes :
  skipped_zero (stat_pruned f off trows tbytes) = true /\
  skipped_zero (stat_unread f off trows tbytes) = true /\
  skipped_zero (stat_scanned f off rows bytes trows tbytes) = true.
Proof. repeat split. Qed.

(* skipped entries contribute nothing to the scanned totals *)
Theorem skipped_contribute_nothing l :
  forallb skipped_zero l = true ->
  sumZ bs_rows l = sumZ bs_rows (filter (fun b => negb (bs_skipped b)) l) /\
  sumZ bs_bytes l = sumZ bs_bytes (filter (fun b => negb (bs_skipped b)) l).
Proof.
  induction l as [|b t IH]; intros H; [split; reflexivity|]. cbn in H. apply andb_prop in H. destruct H as [H1 H2].
  destruct (IH H2) as [A B]. cbn [filter]. unfold skipped_zero in H1. rewrite !sumZ_cons.
  destruct (bs_skipped b); cbn [negb].
  - apply andb_prop in H1. destruct H1 as [R Y]. apply Z.eqb_eq in R. apply Z.eqb_eq in Y. split; lia.
  - rewrite !sumZ_cons. split; lia.
Qed.
