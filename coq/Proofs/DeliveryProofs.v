(* C02, delivery clause - "each batch handed off exactly once".

   What family R can cite (all proved, closed):

   [delivery_cursor]   for every schedule of workers, consumer, Close callers and cancellation, on the
                       pinned and on the fixed code: when the iteration has run to the end of the closed
                       row channel ([complete]), the rows Next handed out are exactly the concatenation of
                       the batches received ([n_taken]), each batch the workers handed off successfully
                       ([h_acked]) was received exactly once (permutation), and nothing is left in flight.
   [delivery_prefix]   whatever happens (cancel, Close, failures), the rows handed out are a prefix of the
                       concatenation of the batches received: nothing twice, nothing invented.
   [delivery_lts]      the same for every query of the composed pipeline (Model/QueryLTS.v), K queries,
                       all interleavings.
   [batches_are_block_rows]  every batch a block worker hands to deliver is a segment of the matched rows of
                       the block it is scanning, taken in scan order from where the previous batch ended.
   [clean_scan_delivers_all] a scan that was not disturbed (no failure, no cancellation) ends only when
                       every matched row of its block has been handed to deliver and RowsProcessed /
                       BytesProcessed equal the block's totals.

   PARTIAL.  The full statement
       clean_completion q -> Permutation (n_returned (c_n (q_cur q))) (survived_rows q)
   ("on clean completion the rows returned are, as a multiset, the matched rows of the blocks that went on
   to be scanned") needs the row-level analogue of the block conservation proved in QueryTokenProofs.v
   (there: every block of a started file is in exactly one of job channel / worker / recorded, exactly once
   while the query is not cancelled).  It is not proved here; the correspondence evaluates exactly this
   equation on every replayed query log (Cases/RunnerQ.v, [q_violates], sorted comparison), the harness
   compares the returned multiset of every undisturbed query with the stored matching rows, and the two ends
   of the chain are the theorems above. *)
From BS Require Import Model.Stats Model.Cursor Model.HandlePool Model.QueryLTS
                       Proofs.CursorProofs Proofs.QueryLTSProofs Proofs.QueryInvProofs.
From Coq Require Import List ZArith Bool Arith Lia Permutation.
Import ListNotations.

Theorem delivery_cursor fx s :
  creachable fx s -> complete s = true ->
  n_returned (c_n s) = concat (n_taken (c_n s)) /\
  Permutation (n_taken (c_n s)) (h_acked (c_h s)) /\
  h_inflight (c_h s) = [].
Proof. exact (delivery_complete fx s). Qed.

Theorem delivery_prefix fx s :
  creachable fx s -> exists rest, concat (n_taken (c_n s)) = n_returned (c_n s) ++ rest.
Proof. exact (returned_prefix fx s). Qed.

Theorem delivery_lts fx cap es s q :
  reachable fx cap es s -> In q (g_qs s) -> complete (q_cur q) = true ->
  n_returned (c_n (q_cur q)) = concat (n_taken (c_n (q_cur q))) /\
  Permutation (n_taken (c_n (q_cur q))) (h_acked (c_h (q_cur q))) /\
  Permutation (n_returned (c_n (q_cur q))) (concat (h_acked (c_h (q_cur q)))).
Proof.
  intros R I C. pose proof (qi_cur _ _ _ (reachable_qinv _ _ _ _ _ R I)) as Qc. destruct (delivery_complete _ _ Qc C) as [A [B _]].
  repeat split; auto. rewrite A. clear - B. induction B; cbn; auto.
  - apply Permutation_app_head. assumption.
  - rewrite !app_assoc. apply Permutation_app_tail. apply Permutation_app_comm.
  - etransitivity; eassumption.
Qed.

(* the scan position of a block worker: the matched rows of its block not yet handed to deliver *)
Definition scan_todo (pc : bpc) : option (job * list row) :=
  match pc with
  | BScan j todo _ | BDeliv j todo _ _ _ | BDelivFailed j todo | BEnding j _ todo => Some (j, todo)
  | _ => None
  end.

(* a deliver call hands over the next rows of the block, in scan order *)
Theorem batches_are_block_rows e r sd w v w' effs b :
  bw_local e r sd w v = Some (w', effs) -> In (ECur (LDeliverTry sd b)) effs ->
  exists j todo, scan_todo (bw_pc w) = Some (j, todo) /\ exists n, b = firstn n todo /\ b <> [] /\
                 (scan_todo (bw_pc w') = Some (j, skipn n todo) \/ scan_todo (bw_pc w') = Some (j, [])).
Proof.
  intros H I. destruct w as [pc held owes]. unfold bw_local in H. cbn [bw_pc bw_held bw_owes] in H.
  destruct pc; destruct v; try discriminate H; destr_in H; injection H as <- <-; cbn in I;
    try contradiction; repeat (destruct I as [I|I]; try discriminate I; try contradiction).
  all: match type of I with ECur (LDeliverTry _ (firstn ?k _)) = _ =>
         injection I as <-; eexists; eexists; split; [reflexivity|]; exists k; cbn [bw_pc bw0 scan_todo]; repeat split; auto end.
  all: repeat match goal with Hb : _ && _ = true |- _ => apply andb_prop in Hb; destruct Hb end.
  all: match goal with L1 : (1 <=? ?k) = true, L2 : (?k <=? length ?t) = true |- _ =>
         apply Nat.leb_le in L1; apply Nat.leb_le in L2; destruct t; cbn in *; [lia|]; destruct k; [lia|]; discriminate end.
Qed.

(* an undisturbed scan ends only with every matched row handed over and the block read completely *)
Theorem clean_scan_delivers_all e r sd w v w' effs j rows bytes :
  bw_local e r sd w v = Some (w', effs) -> bw_pc w' = BEnded j rows bytes ->
  (exists todo, bw_pc w = BScan j todo true \/ bw_pc w = BEnding j true todo) ->
  exists b, job_block e j = Some b /\ scan_todo (bw_pc w) = Some (j, []) /\ rows = b_rows b /\ bytes = b_bytes b.
Proof.
  intros H E [todo P]. destruct w as [pc held owes]. unfold bw_local in H. cbn [bw_pc bw_held bw_owes] in *.
  destruct P as [-> | ->]; destruct v; try discriminate H; destr_in H; injection H as <- <-; cbn in E; try discriminate E;
    injection E as <- <-; cbn in *; try discriminate.
  all: match goal with Hb : negb _ = false |- _ => apply negb_false_iff in Hb end.
  all: destruct todo; try discriminate.
  all: repeat match goal with Hb : _ && _ = true |- _ => apply andb_prop in Hb; destruct Hb end.
  all: repeat match goal with Hb : (_ =? _)%Z = true |- _ => apply Z.eqb_eq in Hb end.
  all: eexists; repeat split; eauto.
Qed.
