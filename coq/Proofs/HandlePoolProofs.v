(* Invariants of the handle pool (Model/HandlePool.v): every handle the store returned is
   checked out by exactly one reader, idle in exactly one file entry, or closed - exactly one of
   the three, for every sequence of pool operations by any number of readers. *)
From BS Require Import Model.HandlePool.
From Coq Require Import List ZArith Bool Arith Lia Permutation.
Import ListNotations.

Inductive preachable : pool -> Prop :=
| pr_init : preachable pinit
| pr_step p l p' : preachable p -> pool_step p l = Some p' -> preachable p'.

Notation cnt := (count_occ Nat.eq_dec).

Lemma cnt_cons h l x : cnt (h :: l) x = (if Nat.eq_dec h x then 1 else 0) + cnt l x.
Proof. cbn. destruct (Nat.eq_dec h x); reflexivity. Qed.

Lemma cnt_app a b x : cnt (a ++ b) x = cnt a x + cnt b x.
Proof. apply count_occ_app. Qed.

Lemma idle_all_cons e t : idle_all (e :: t) = pe_idle e ++ idle_all t.
Proof. reflexivity. Qed.

Lemma retain_idle f l : idle_all (retain_entry f l) = idle_all l.
Proof.
  induction l as [|e t IH]; cbn [retain_entry]; auto. destruct (Z.eqb (pe_file e) f); rewrite !idle_all_cons; cbn [pe_idle]; congruence.
Qed.

Lemma release_idle f l l' c x :
  release_entry f l = (l', c) -> cnt (idle_all l) x = cnt c x + cnt (idle_all l') x.
Proof.
  revert l' c. induction l as [|e t IH]; intros l' c H; cbn in H.
  - injection H as <- <-. reflexivity.
  - destruct (Z.eqb (pe_file e) f).
    + destruct (pe_refs e <=? 1); injection H as <- <-; rewrite !idle_all_cons, ?cnt_app; cbn; lia.
    + destruct (release_entry f t) as [t' c'] eqn:E. injection H as <- <-.
      rewrite !idle_all_cons, !cnt_app, (IH _ _ eq_refl). lia.
Qed.

Lemma release_nil_closed f : release_entry f [] = ([], []).
Proof. reflexivity. Qed.

Lemma take_idle_cnt f l h l' x :
  take_idle f l = Some (h, l') -> cnt (idle_all l) x = cnt (h :: idle_all l') x.
Proof.
  revert l'. induction l as [|e t IH]; intros l' H; cbn in H; [discriminate|].
  destruct (Z.eqb (pe_file e) f).
  - destruct (pe_idle e) as [|h0 r] eqn:Ei; [discriminate|]. injection H as <- <-.
    rewrite !idle_all_cons, Ei. cbn [pe_idle]. rewrite !cnt_cons, !cnt_app, cnt_cons. lia.
  - destruct (take_idle f t) as [[h1 t1]|] eqn:E; [|discriminate]. injection H as <- <-.
    rewrite !idle_all_cons, cnt_cons, !cnt_app, (IH _ eq_refl), cnt_cons. lia.
Qed.

Lemma put_idle_cnt f h l l' x :
  put_idle f h l = Some l' -> cnt (idle_all l') x = cnt (h :: idle_all l) x.
Proof.
  revert l'. induction l as [|e t IH]; intros l' H; cbn in H; [discriminate|].
  destruct (Z.eqb (pe_file e) f).
  - destruct (pe_refs e =? 0); [discriminate|]. injection H as <-.
    rewrite !idle_all_cons. cbn [pe_idle]. rewrite !cnt_cons, !cnt_app, cnt_cons. lia.
  - destruct (put_idle f h t) as [t1|] eqn:E; [|discriminate]. injection H as <-.
    rewrite !idle_all_cons, cnt_cons, !cnt_app, (IH _ eq_refl), cnt_cons. lia.
Qed.

Definition handles_of (l : list (nat * (fileid * handle))) : list handle := map (fun x => snd (snd x)) l.

Lemma held_drop_cnt w l f h x :
  held_of w l = Some (f, h) -> cnt (handles_of l) x = cnt (h :: handles_of (drop_held w l)) x.
Proof.
  induction l as [|[w' [f' h']] t IH]; intros H; cbn in H; [discriminate|].
  cbn [drop_held]. destruct (w' =? w).
  - injection H as <- <-. reflexivity.
  - unfold handles_of in *. cbn [map snd]. rewrite !cnt_cons, (IH H), cnt_cons. lia.
Qed.

Lemma held_handles_eq p : held_handles p = handles_of (p_held p).
Proof. reflexivity. Qed.

Arguments idle_all : simpl never.
Arguments handles_of : simpl never.
Arguments count_occ : simpl never.
Arguments release_entry : simpl never.
Arguments take_idle : simpl never.
Arguments put_idle : simpl never.
Arguments retain_entry : simpl never.
Arguments held_of : simpl never.
Arguments drop_held : simpl never.
Arguments opening_of : simpl never.
Arguments drop_opening : simpl never.

Lemma handles_of_cons w f h l : handles_of ((w, (f, h)) :: l) = h :: handles_of l.
Proof. reflexivity. Qed.

Lemma idle_all_nil : idle_all [] = [].
Proof. reflexivity. Qed.

Record pinv (p : pool) : Prop := {
  (* each opened handle is held, idle or closed: exactly one of them, exactly once *)
  pv_part : forall x, cnt (handles_of (p_held p)) x + cnt (idle_all (p_files p)) x + cnt (p_closedh p) x = cnt (p_opened p) x;
  pv_nodup : forall x, cnt (p_opened p) x <= 1;
  pv_fresh : forall x, cnt (p_opened p) x >= 1 -> x < p_next p;
  pv_closed_empty : p_closed p = true -> p_files p = []
}.

Lemma pinv_init : pinv pinit.
Proof.
  constructor; intros.
  - reflexivity.
  - exact (Nat.le_0_l 1).
  - change (1 <= 0) in H. inversion H.
  - reflexivity.
Qed.

Ltac pool_cases H :=
  unfold pool_step, with_files, reader_free in H; cbn in H;
  repeat match type of H with
  | context [match ?x with _ => _ end] => destruct x eqn:?; try discriminate H
  | context [if ?x then _ else _] => destruct x eqn:?; try discriminate H
  | context [let (_, _) := ?x in _] => destruct x eqn:?
  end; try discriminate H; injection H as H; subst;
  repeat match goal with Hq : (if ?c then _ else _) = _ |- _ => destruct c eqn:?; try discriminate Hq end.

Ltac cnt_norm :=
  repeat rewrite ?handles_of_cons, ?cnt_cons, ?cnt_app, ?idle_all_nil in *;
  repeat match goal with |- context [Nat.eq_dec ?a ?b] => destruct (Nat.eq_dec a b); subst end;
  repeat match goal with Hx : context [Nat.eq_dec ?a ?b] |- _ => destruct (Nat.eq_dec a b); subst end.

Lemma cnt_nil x : cnt [] x = 0.
Proof. reflexivity. Qed.

Lemma pinv_step p l p' : pinv p -> pool_step p l = Some p' -> pinv p'.
Proof.
  intros [P N F C] H. destruct p as [files closed held opening next opened closedh].
  cbn in *.
  destruct l; pool_cases H; constructor; cbn; intros; auto; try discriminate.
  all: try (rewrite retain_idle; auto; fail).
  all: try match goal with Hr : release_entry _ _ = _ |- _ => pose proof (release_idle _ _ _ _ x Hr) end.
  all: try match goal with Ht : take_idle _ _ = Some _ |- _ => pose proof (take_idle_cnt _ _ _ _ x Ht) end.
  all: try match goal with Hp : put_idle _ _ _ = Some _ |- _ => pose proof (put_idle_cnt _ _ _ _ x Hp) end.
  all: try match goal with Hh : held_of _ _ = Some _ |- _ => pose proof (held_drop_cnt _ _ _ _ x Hh) end.
  all: try (specialize (P x); specialize (N x); specialize (F x); cnt_norm; rewrite ?cnt_nil in *; try lia).
  all: try match goal with Hc : ?c = true, C : ?c = true -> ?files = [], Hr : release_entry _ ?files = _ |- _ =>
         rewrite (C Hc) in Hr; cbv in Hr; injection Hr as <- <-; reflexivity end.
Qed.

Theorem preachable_inv p : preachable p -> pinv p.
Proof. induction 1; [apply pinv_init|eapply pinv_step; eassumption]. Qed.

Lemma preachable_steps p ls p' : preachable p -> pool_steps p ls = Some p' -> preachable p'.
Proof.
  revert p. induction ls as [|l t IH]; intros p R H; cbn in H.
  - injection H as <-. exact R.
  - destruct (pool_step p l) eqn:E; [|discriminate]. eapply IH; [|exact H]. econstructor; eassumption.
Qed.

Lemma cnt_in l x : In x l <-> cnt l x >= 1.
Proof. rewrite (count_occ_In Nat.eq_dec). lia. Qed.

(* C21: no handle is lent to two readers at once *)
Theorem pool_exclusive p : preachable p -> NoDup (held_handles p).
Proof.
  intros R. destruct (preachable_inv _ R) as [P N _ _]. rewrite held_handles_eq.
  apply (NoDup_count_occ Nat.eq_dec). intros x. specialize (P x). specialize (N x). lia.
Qed.

(* C21: a handle in a reader's hands has not been closed, and is not in any idle set *)
Theorem pool_no_use_after_close p h :
  preachable p -> In h (held_handles p) -> ~ In h (p_closedh p) /\ ~ In h (idle_all (p_files p)).
Proof.
  intros R H. destruct (preachable_inv _ R) as [P N _ _]. rewrite held_handles_eq in H.
  rewrite !cnt_in in *. specialize (P h). specialize (N h). lia.
Qed.

(* C21: nothing is closed twice, nothing is closed that was not opened, an idle handle is not closed *)
Theorem pool_closed_once p :
  preachable p -> NoDup (p_closedh p) /\ (forall h, In h (p_closedh p) -> In h (p_opened p)) /\
                  (forall h, In h (idle_all (p_files p)) -> ~ In h (p_closedh p)).
Proof.
  intros R. destruct (preachable_inv _ R) as [P N _ _]. split; [|split].
  - apply (NoDup_count_occ Nat.eq_dec). intros x. specialize (P x). specialize (N x). lia.
  - intros h. rewrite !cnt_in. specialize (P h). lia.
  - intros h. rewrite !cnt_in. specialize (P h). specialize (N h). lia.
Qed.

(* C21: once closeAll has run and no reader is in the pool any more, every handle the query opened
   has been closed exactly once *)
Theorem pool_all_closed p :
  preachable p -> p_closed p = true -> p_held p = [] ->
  Permutation (p_closedh p) (p_opened p) /\ NoDup (p_closedh p).
Proof.
  intros R C H. destruct (preachable_inv _ R) as [P N _ E]. split.
  - apply (Permutation_count_occ Nat.eq_dec). intros x. specialize (P x). rewrite H, (E C) in P. exact P.
  - apply (pool_closed_once _ R).
Qed.

(* ... and it stays that way: a closed pool opens nothing and stores nothing *)
Theorem pool_closed_stays p l p' :
  p_closed p = true -> pool_step p l = Some p' ->
  p_closed p' = true /\ p_opened p' = p_opened p \/ (exists w, l = POpenOk w).
Proof.
  intros C H. destruct p as [files closed held opening next opened closedh]. cbn in *. subst.
  destruct l; pool_cases H; cbn; auto. right. eexists. reflexivity.
Qed.
