(* Kernel tie plan_reads (DESIGN.md 10.7): the definition translated from the Go source equals the model.
   One file per kernel, so that a changed kernel only breaks the property files that state its tie. *)
From BS Require Import Lib.Bytes Lib.Wrap64 Lib.GoPrim Generated.Kernels Generated.KernelTie Model.Validate Proofs.KernelEquiv Proofs.KernelEquivT.
From Coq Require Import ZArith List Bool Lia.
Import ListNotations.
Local Open Scope Z_scope.

Lemma k_plan_reads_tie : tie_plan_reads.
Proof.
  unfold tie_plan_reads.
  first [exact I |
    k_open_T;
    k_loop_spec (fun (mb : list blockJ) (hs : bool) =>
                   if forallb (fun b => validate_fs b regionOffset (add64 regionOffset regionSize)) mb
                   then @LDone bool (option (Z * Z * bool)) (hs || existsb (fun b => bfs b >? 0) mb)
                   else LReturn None) k_step_T;
    k_step_T; k_auto k_step_T
  | (* the loop no longer carries the flag: plain induction *)
    k_open_T; k_auto k_step_T ].
Qed.
