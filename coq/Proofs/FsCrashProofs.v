(* Durability invariant over Model/FsStore.v + Model/FsCrash.v and the crash-consistency
   theorems (C15). *)
From BS Require Import Lib.Bytes Model.FsStore Model.FsCrash Proofs.FsStoreProofs.
From Coq Require Import List NArith Bool Arith Lia.
Import ListNotations.
Open Scope nat_scope.

(* ---------------------------------------------------------------- bindings a name can have after power loss *)
Lemma filter_app_single {A} (p : A -> bool) l x : filter p (l ++ [x]) = filter p l ++ (if p x then [x] else []).
Proof. rewrite filter_app. simpl. destruct (p x); reflexivity. Qed.

Lemma In_choices_create v n o f m :
  In v (choices (fs_create n o f) m) <-> In v (choices f m) \/ (m = n /\ v = Some (length (f_ino f))).
Proof.
  unfold choices, fs_create; cbn [f_ddir f_pend]. rewrite filter_app_single, map_app. cbn [fst In].
  rewrite in_app_iff.
  destruct (fname_eqb n m) eqn:E; cbn [map snd In].
  - apply fname_eqb_eq in E. subst m. intuition.
  - apply fname_eqb_neq in E. intuition congruence.
Qed.

Lemma In_choices_unlink v n f m :
  In v (choices (fs_unlink n f) m) <-> In v (choices f m) \/ (D f n <> None /\ m = n /\ v = None).
Proof.
  unfold fs_unlink, D. destruct (dlookup n (f_dir f)) eqn:Ed.
  - unfold choices; cbn [f_ddir f_pend]. rewrite filter_app_single, map_app. cbn [fst In].
    rewrite in_app_iff.
    destruct (fname_eqb n m) eqn:E; cbn [map snd In].
    + apply fname_eqb_eq in E. subst m. intuition congruence.
    + apply fname_eqb_neq in E. intuition congruence.
  - intuition congruence.
Qed.

Lemma In_choices_rename v a b i f m : D f a = Some i -> a <> b ->
  In v (choices (fs_rename a b f) m) <->
  In v (choices f m) \/ (m = b /\ v = Some i) \/ (m = a /\ v = None).
Proof.
  intros Hd Hab. unfold fs_rename. unfold D in Hd. rewrite Hd.
  unfold choices; cbn [f_ddir f_pend].
  change (f_pend f ++ [(b, Some i); (a, None)]) with (f_pend f ++ [(b, Some i)] ++ [(a, None)]).
  rewrite app_assoc, !filter_app_single, !map_app. cbn [fst In]. rewrite !in_app_iff.
  destruct (fname_dec b m) as [E1|E1]; destruct (fname_dec a m) as [E2|E2].
  - congruence.
  - subst m. rewrite fname_eqb_refl. apply fname_eqb_neq in E2. rewrite E2. cbn [map snd In]. intuition congruence.
  - subst m. rewrite fname_eqb_refl. apply fname_eqb_neq in E1. rewrite E1. cbn [map snd In]. intuition congruence.
  - pose proof E1 as N1. pose proof E2 as N2. apply fname_eqb_neq in E1, E2. rewrite E1, E2. cbn [map snd In]. intuition congruence.
Qed.

Lemma In_choices_dirsync v f m : In v (choices (fs_dirsync f) m) <-> v = D f m.
Proof. unfold choices, fs_dirsync, D; cbn. intuition. Qed.

Lemma choices_append j b f m : choices (fs_append j b f) m = choices f m. Proof. reflexivity. Qed.
Lemma choices_fsync j f m : choices (fs_fsync j f) m = choices f m. Proof. reflexivity. Qed.

Lemma In_choices_apply_rm v r n f m : rres_ok r n f = true ->
  In v (choices (apply_rm r n f) m) <-> In v (choices f m) \/ (r = ROk /\ m = n /\ v = None).
Proof.
  intro Hr. destruct r; cbn [apply_rm].
  - rewrite In_choices_unlink. cbn in Hr. rewrite present_D in Hr.
    destruct (D f n) eqn:E; [|discriminate]. intuition congruence.
  - intuition congruence.
  - intuition congruence.
Qed.

(* ---------------------------------------------------------------- durable content of inodes *)
Definition synced (f : fsys) (i : nat) : Prop :=
  forall x, nth_error (f_ino f) i = Some x -> i_dur x = i_data x.

Lemma synced_create n o f i : synced f i -> synced (fs_create n o f) i.
Proof.
  unfold synced, fs_create; cbn [f_ino]. intros H x Hx.
  destruct (lt_dec i (length (f_ino f))).
  - rewrite nth_error_app1 in Hx by lia. auto.
  - rewrite nth_error_app2 in Hx by lia. destruct (i - length (f_ino f)) as [|k]; [inversion Hx; reflexivity|destruct k; discriminate].
Qed.

Lemma synced_ino_upd f g i j :
  (forall x, i_dur x = i_data x -> i_dur (g x) = i_data (g x)) ->
  (forall x, nth_error (f_ino f) i = Some x -> i_dur x = i_data x) ->
  forall x, nth_error (ino_upd j g (f_ino f)) i = Some x -> i_dur x = i_data x.
Proof.
  intros Hg H x Hx. rewrite nth_error_ino_upd in Hx. destruct (i =? j); [|auto].
  destruct (nth_error (f_ino f) i) as [y|]; [|discriminate]. inversion Hx; subst x. apply Hg. auto.
Qed.

Lemma synced_unlink n f i : synced f i -> synced (fs_unlink n f) i.
Proof.
  unfold synced, fs_unlink. intro H. destruct (dlookup n (f_dir f)); [|exact H]. cbn [f_ino].
  apply synced_ino_upd; [intros x E; exact E|exact H].
Qed.
Lemma synced_apply_rm r n f i : synced f i -> synced (apply_rm r n f) i.
Proof. destruct r; cbn [apply_rm]; auto. apply synced_unlink. Qed.

Lemma synced_rename a b f i : synced f i -> synced (fs_rename a b f) i.
Proof.
  unfold synced, fs_rename. intro H. destruct (dlookup a (f_dir f)); [|exact H]. cbn [f_ino].
  destruct (dlookup b (f_dir f)); [|exact H].
  apply synced_ino_upd; [intros x E; exact E|exact H].
Qed.

Lemma synced_fsync j f i : (i = j \/ synced f i) -> synced (fs_fsync j f) i.
Proof.
  unfold synced, fs_fsync; cbn [f_ino]. intros H x Hx. rewrite nth_error_ino_upd in Hx.
  destruct (i =? j) eqn:E.
  - destruct (nth_error (f_ino f) i); [|discriminate]. inversion Hx. reflexivity.
  - destruct H as [H|H]; [apply Nat.eqb_neq in E; contradiction|auto].
Qed.

Lemma synced_append j b f i : (i <> j \/ b = []) -> synced f i -> synced (fs_append j b f) i.
Proof.
  unfold synced, fs_append; cbn [f_ino]. intros Hc H x Hx. rewrite nth_error_ino_upd in Hx.
  destruct (i =? j) eqn:E; [|auto]. apply Nat.eqb_eq in E.
  destruct Hc as [Hc|Hc]; [contradiction|]. subst b.
  destruct (nth_error (f_ino f) i) as [y|] eqn:Ey; [|discriminate]. inversion Hx; subst x. cbn. rewrite app_nil_r. auto.
Qed.

Lemma synced_dirsync f i : synced f i -> synced (fs_dirsync f) i.
Proof. auto. Qed.

(* ---------------------------------------------------------------- file-system level invariant *)
Definition bound (f : fsys) (n : fname) (i : nat) : Prop := D f n = Some i \/ In (Some i) (choices f n).
Definition ibase (f : fsys) (i : nat) : option str := option_map i_base (nth_error (f_ino f) i).

Record FInv (f : fsys) : Prop := mkFInv {
  (* an inode is only ever bound -- now, durably, or in a pending change -- to names of the base it was created under *)
  f_base : forall n i, bound f n i -> ibase f i = Some (fst n);
  (* whatever is or was bound to a final path has all its bytes fsynced *)
  f_sync : forall b i, bound f (b, Dat) i -> synced f i
}.

Lemma finv_init : FInv fs0.
Proof. constructor; unfold bound, D, choices; cbn; intros; intuition discriminate. Qed.

Lemma ibase_lt f i b : ibase f i = Some b -> i < length (f_ino f).
Proof. unfold ibase. intro H. apply nth_error_Some. destruct (nth_error (f_ino f) i); [congruence|discriminate]. Qed.

Lemma ibase_create n o f i : ibase (fs_create n o f) i = if i =? length (f_ino f) then Some (fst n) else ibase f i.
Proof.
  unfold ibase, fs_create; cbn [f_ino]. destruct (i =? length (f_ino f)) eqn:E.
  - apply Nat.eqb_eq in E; subst. rewrite nth_error_app2, Nat.sub_diag by lia. reflexivity.
  - apply Nat.eqb_neq in E. destruct (lt_dec i (length (f_ino f))).
    + rewrite nth_error_app1 by lia. reflexivity.
    + rewrite (proj2 (nth_error_None _ _)) by (rewrite app_length; simpl; lia).
      rewrite (proj2 (nth_error_None _ _)) by lia. reflexivity.
Qed.

Lemma ibase_ino_upd l g i j : (forall x, i_base (g x) = i_base x) ->
  option_map i_base (nth_error (ino_upd j g l) i) = option_map i_base (nth_error l i).
Proof.
  intro Hg. rewrite nth_error_ino_upd. destruct (i =? j); [|reflexivity].
  destruct (nth_error l i); cbn; [rewrite Hg|]; reflexivity.
Qed.

Lemma ibase_unlink n f i : ibase (fs_unlink n f) i = ibase f i.
Proof. unfold ibase, fs_unlink. destruct (dlookup n (f_dir f)); [|reflexivity]. cbn [f_ino]. apply ibase_ino_upd. reflexivity. Qed.
Lemma ibase_apply_rm r n f i : ibase (apply_rm r n f) i = ibase f i.
Proof. destruct r; cbn [apply_rm]; auto. apply ibase_unlink. Qed.
Lemma ibase_rename a b f i : ibase (fs_rename a b f) i = ibase f i.
Proof.
  unfold ibase, fs_rename. destruct (dlookup a (f_dir f)); [|reflexivity]. cbn [f_ino].
  destruct (dlookup b (f_dir f)); [|reflexivity]. apply ibase_ino_upd. reflexivity.
Qed.
Lemma ibase_append j b f i : ibase (fs_append j b f) i = ibase f i.
Proof. unfold ibase, fs_append; cbn [f_ino]. apply ibase_ino_upd. reflexivity. Qed.
Lemma ibase_fsync j f i : ibase (fs_fsync j f) i = ibase f i.
Proof. unfold ibase, fs_fsync; cbn [f_ino]. apply ibase_ino_upd. reflexivity. Qed.

Lemma finv_create n o f : FInv f -> FInv (fs_create n o f).
Proof.
  intros [Hb Hs].
  assert (Hbd : forall m i, bound (fs_create n o f) m i -> bound f m i \/ (m = n /\ i = length (f_ino f))).
  { unfold bound. intros m i [H|H].
    - rewrite D_create in H. destruct (fname_eqb m n) eqn:E; [apply fname_eqb_eq in E; inversion H; auto|auto].
    - apply In_choices_create in H as [H|[E1 E2]]; [auto|inversion E2; auto]. }
  constructor.
  - intros m i H. rewrite ibase_create. destruct (Hbd _ _ H) as [H0|[-> ->]].
    + pose proof (Hb _ _ H0) as Hi. pose proof (ibase_lt _ _ _ Hi).
      destruct (i =? length (f_ino f)) eqn:E; [apply Nat.eqb_eq in E; lia|exact Hi].
    + rewrite Nat.eqb_refl. reflexivity.
  - intros b i H. destruct (Hbd _ _ H) as [H0|[_ ->]].
    + apply synced_create. apply (Hs _ _ H0).
    + intros x Hx. unfold fs_create in Hx; cbn [f_ino] in Hx. rewrite nth_error_app2, Nat.sub_diag in Hx by lia.
      inversion Hx. reflexivity.
Qed.

Lemma bound_unlink n f m i : bound (fs_unlink n f) m i -> bound f m i.
Proof.
  unfold bound. intros [H|H].
  - rewrite D_unlink in H. destruct (fname_eqb m n); [discriminate|auto].
  - apply In_choices_unlink in H as [H|[_ [_ E]]]; [auto|discriminate].
Qed.

Lemma finv_unlink n f : FInv f -> FInv (fs_unlink n f).
Proof.
  intros [Hb Hs]. constructor.
  - intros m i H. rewrite ibase_unlink. apply Hb, (bound_unlink _ _ _ _ H).
  - intros b i H. apply synced_unlink, (Hs b), (bound_unlink _ _ _ _ H).
Qed.
Lemma finv_apply_rm r n f : FInv f -> FInv (apply_rm r n f).
Proof. destruct r; cbn [apply_rm]; auto. apply finv_unlink. Qed.

Lemma finv_rename b f i :
  FInv f -> D f (b, Tmp) = Some i -> synced f i -> FInv (fs_rename (b, Tmp) (b, Dat) f).
Proof.
  intros [Hb Hs] Hd Hsy.
  assert (Hne : (b, Tmp) <> (b, Dat)) by congruence.
  assert (Hbd : forall m j, bound (fs_rename (b, Tmp) (b, Dat) f) m j -> bound f m j \/ (m = (b, Dat) /\ j = i)).
  { unfold bound. intros m j [H|H].
    - rewrite (D_rename _ _ _ _ Hne) in H by congruence.
      destruct (fname_eqb m (b, Dat)) eqn:E1; [apply fname_eqb_eq in E1; right; split; congruence|].
      destruct (fname_eqb m (b, Tmp)); [discriminate|auto].
    - apply (In_choices_rename _ _ _ _ _ _ Hd Hne) in H as [H|[[E1 E2]|[_ E2]]]; [auto|inversion E2; auto|discriminate]. }
  constructor.
  - intros m j H. rewrite ibase_rename. destruct (Hbd _ _ H) as [H0|[-> ->]]; [apply Hb; exact H0|].
    apply (Hb (b, Tmp) i). left. exact Hd.
  - intros b0 j H. apply synced_rename. destruct (Hbd _ _ H) as [H0|[_ ->]]; [apply (Hs b0); exact H0|exact Hsy].
Qed.

Lemma finv_append j bts f :
  FInv f -> (bts = [] \/ forall b, ~ bound f (b, Dat) j) -> FInv (fs_append j bts f).
Proof.
  intros [Hb Hs] Hc. constructor.
  - intros m i H. rewrite ibase_append. apply Hb. exact H.
  - intros b i H. apply synced_append; [|apply (Hs b); exact H].
    destruct Hc as [Hc|Hc]; [right; exact Hc|]. left. intro E. subst i. apply (Hc b). exact H.
Qed.

Lemma finv_fsync j f : FInv f -> FInv (fs_fsync j f).
Proof.
  intros [Hb Hs]. constructor.
  - intros m i H. rewrite ibase_fsync. apply Hb. exact H.
  - intros b i H. apply synced_fsync. right. apply (Hs b). exact H.
Qed.

Lemma bound_dirsync f m i : bound (fs_dirsync f) m i -> D f m = Some i.
Proof. unfold bound. intros [H|H]; [exact H|]. apply In_choices_dirsync in H. congruence. Qed.

Lemma finv_dirsync f : FInv f -> FInv (fs_dirsync f).
Proof.
  intros [Hb Hs]. constructor.
  - intros m i H. apply (Hb m i). left. apply bound_dirsync. exact H.
  - intros b i H. apply (Hs b). left. apply bound_dirsync. exact H.
Qed.

(* ---------------------------------------------------------------- writer level durability invariant *)
Record WInv (s : state) : Prop := mkWInv {
  w_ibase : forall a w, W s a = Some w -> w_hasino w = true -> ibase (s_fs s) (w_ino w) = Some (w_base w);
  (* once a temp file is (or was, durably or pending) at its final path, its handle is closed *)
  w_closed : forall a w, W s a = Some w -> w_hasino w = true ->
      bound (s_fs s) (w_base w, Dat) (w_ino w) -> w_hopen w = false;
  (* between a successful Sync and the rename all bytes are durable *)
  w_phase : forall a w, W s a = Some w -> (w_ph w = PSynced \/ w_ph w = PHClosed) -> synced (s_fs s) (w_ino w);
  (* after a successful Close, and until it is tombstoned, the final path durably names the file
     and no change of that entry is pending *)
  w_dur : forall a w, W s a = Some w -> w_cok w = true -> w_gone w = false ->
      forall v, In v (choices (s_fs s) (w_base w, Dat)) -> v = Some (w_ino w)
}.

Lemma winv_init : WInv s0.
Proof. constructor; unfold W; simpl; intros; destruct a; discriminate. Qed.

Definition wsame (w x : writer) : Prop :=
  w_base x = w_base w /\ w_ino x = w_ino w /\ w_hasino x = w_hasino w /\ w_hopen x = w_hopen w /\
  w_ph x = w_ph w /\ w_cok x = w_cok w /\ (w_gone x = false -> w_gone w = false).

Lemma wsame_refl w : wsame w w.
Proof. unfold wsame; intuition. Qed.

Lemma wsame_clear b e w : wsame w (clear_claim b e w).
Proof.
  destruct (clear_claim_fields b e w) as [F1 [F2 [F3 [F4 [F5 [F6 [F7 [F8 [F9 [F10 F11]]]]]]]]]].
  unfold wsame. repeat split; auto.
  unfold clear_claim. destruct (str_eqb (w_base w) b); [|auto].
  destruct e, (w_lay w); try destruct (w_cok w); cbn; auto; discriminate.
Qed.

Lemma winv_frame s s' a :
  WInv s ->
  (forall a' x, a' <> a -> W s' a' = Some x -> exists w2, W s a' = Some w2 /\ wsame w2 x) ->
  (forall i b, ibase (s_fs s) i = Some b -> ibase (s_fs s') i = Some b) ->
  (forall a' w2, a' <> a -> W s a' = Some w2 -> w_hasino w2 = true ->
     bound (s_fs s') (w_base w2, Dat) (w_ino w2) -> bound (s_fs s) (w_base w2, Dat) (w_ino w2)) ->
  (forall a' w2, a' <> a -> W s a' = Some w2 -> (w_ph w2 = PSynced \/ w_ph w2 = PHClosed) ->
     synced (s_fs s) (w_ino w2) -> synced (s_fs s') (w_ino w2)) ->
  (forall a' w2 x, a' <> a -> W s a' = Some w2 -> W s' a' = Some x -> w_cok x = true -> w_gone x = false ->
     forall v, In v (choices (s_fs s') (w_base w2, Dat)) ->
       In v (choices (s_fs s) (w_base w2, Dat)) \/ v = Some (w_ino w2)) ->
  (forall w', W s' a = Some w' ->
     (w_hasino w' = true -> ibase (s_fs s') (w_ino w') = Some (w_base w')) /\
     (w_hasino w' = true -> bound (s_fs s') (w_base w', Dat) (w_ino w') -> w_hopen w' = false) /\
     ((w_ph w' = PSynced \/ w_ph w' = PHClosed) -> synced (s_fs s') (w_ino w')) /\
     (w_cok w' = true -> w_gone w' = false -> forall v, In v (choices (s_fs s') (w_base w', Dat)) -> v = Some (w_ino w'))) ->
  WInv s'.
Proof.
  intros Wi Hoth F1 F2 F3 F4 Hact. constructor.
  - intros a' x Hx Hh. destruct (Nat.eq_dec a' a) as [->|Hne]; [apply (Hact _ Hx); exact Hh|].
    destruct (Hoth _ _ Hne Hx) as [w2 [H2 [E1 [E2 [E3 _]]]]]. rewrite E1, E2. apply F1.
    apply (w_ibase _ Wi _ _ H2). congruence.
  - intros a' x Hx Hh Hb. destruct (Nat.eq_dec a' a) as [->|Hne]; [apply (Hact _ Hx); assumption|].
    destruct (Hoth _ _ Hne Hx) as [w2 [H2 [E1 [E2 [E3 [E4 _]]]]]]. rewrite E4. rewrite E1, E2 in Hb.
    apply (w_closed _ Wi _ _ H2); [congruence|]. apply (F2 _ _ Hne H2); [congruence|exact Hb].
  - intros a' x Hx Hp. destruct (Nat.eq_dec a' a) as [->|Hne]; [apply (Hact _ Hx); assumption|].
    destruct (Hoth _ _ Hne Hx) as [w2 [H2 [E1 [E2 [E3 [E4 [E5 _]]]]]]]. rewrite E2.
    assert (Hp2 : w_ph w2 = PSynced \/ w_ph w2 = PHClosed) by (rewrite <- E5; exact Hp).
    apply (F3 _ _ Hne H2 Hp2). apply (w_phase _ Wi _ _ H2 Hp2).
  - intros a' x Hx Hc Hg v Hv. destruct (Nat.eq_dec a' a) as [->|Hne]; [apply (Hact _ Hx); assumption|].
    destruct (Hoth _ _ Hne Hx) as [w2 [H2 [E1 [E2 [E3 [E4 [E5 [E6 E7]]]]]]]]. rewrite E2. rewrite E1 in Hv.
    destruct (F4 _ _ _ Hne H2 Hx Hc Hg v Hv) as [Hv0|Hv0]; [|exact Hv0].
    apply (w_dur _ Wi _ _ H2); [congruence|auto|exact Hv0].
Qed.


Lemma oth_upd s a w' f rd sc a' x : a' <> a ->
  W (mkS f (upd a w' (s_ws s)) rd sc) a' = Some x -> exists w2, W s a' = Some w2 /\ wsame w2 x.
Proof.
  intros Hne Hx. unfold W in Hx; cbn [s_ws] in Hx. rewrite nth_error_upd_other in Hx by exact Hne.
  exists x. split; [exact Hx|apply wsame_refl].
Qed.

Lemma oth_map_upd s a w' b e f rd sc a' x : a' <> a ->
  W (mkS f (upd a w' (map (clear_claim b e) (s_ws s))) rd sc) a' = Some x -> exists w2, W s a' = Some w2 /\ wsame w2 x.
Proof.
  intros Hne Hx. unfold W in Hx; cbn [s_ws] in Hx. rewrite nth_error_upd_other, nth_error_map in Hx by exact Hne.
  destruct (nth_error (s_ws s) a') as [w2|] eqn:E; [|discriminate]. inversion Hx. exists w2. split; [exact E|apply wsame_clear].
Qed.

Lemma oth_map s b e f rd sc a' x :
  W (mkS f (map (clear_claim b e) (s_ws s)) rd sc) a' = Some x -> exists w2, W s a' = Some w2 /\ wsame w2 x.
Proof.
  intros Hx. unfold W in Hx; cbn [s_ws] in Hx. rewrite nth_error_map in Hx.
  destruct (nth_error (s_ws s) a') as [w2|] eqn:E; [|discriminate]. inversion Hx. exists w2. split; [exact E|apply wsame_clear].
Qed.

(* A: bindings unchanged in every layer; one writer's flags change *)
Lemma winv_A s f' a w w' rd sc :
  WInv s -> W s a = Some w ->
  (forall i, ibase f' i = ibase (s_fs s) i) ->
  (forall n i, bound f' n i -> bound (s_fs s) n i) ->
  (forall a' w2, a' <> a -> W s a' = Some w2 -> (w_ph w2 = PSynced \/ w_ph w2 = PHClosed) ->
     synced (s_fs s) (w_ino w2) -> synced f' (w_ino w2)) ->
  (forall n v, In v (choices f' n) -> In v (choices (s_fs s) n)) ->
  w_base w' = w_base w -> w_ino w' = w_ino w -> w_hasino w' = w_hasino w ->
  (w_hopen w' = true -> w_hopen w = true) ->
  ((w_ph w' = PSynced \/ w_ph w' = PHClosed) -> synced f' (w_ino w)) ->
  w_cok w' = w_cok w -> w_gone w' = w_gone w ->
  WInv (mkS f' (upd a w' (s_ws s)) rd sc).
Proof.
  intros Wi Hw Hib Hbd Hsy Hch Eb Ei Eh Hho Hph Ec Eg.
  apply (winv_frame s _ a Wi).
  - intros a' x Hne Hx. apply (oth_upd s a w' f' rd sc a' x Hne Hx).
  - cbn [s_fs]. intros i b H. rewrite Hib. exact H.
  - cbn [s_fs]. intros a' w2 Hne H2 Hh Hb. apply Hbd. exact Hb.
  - cbn [s_fs]. intros a' w2 Hne H2 Hp Hs. apply (Hsy _ _ Hne H2 Hp Hs).
  - cbn [s_fs]. intros a' w2 x Hne H2 Hx Hc Hg v Hv. left. apply Hch. exact Hv.
  - intros x Hx. unfold W in Hx; cbn [s_ws] in Hx. rewrite (nth_error_upd_same _ _ _ _ Hw) in Hx. inversion Hx; subst x. cbn [s_fs].
    repeat split.
    + intro Hh. rewrite Ei, Eb, Hib. apply (w_ibase _ Wi _ _ Hw). congruence.
    + intros Hh Hb. destruct (w_hopen w') eqn:Eo; [|reflexivity].
      rewrite <- (w_closed _ Wi _ _ Hw); [symmetry; apply Hho; reflexivity|congruence|]. rewrite <- Eb, <- Ei. apply Hbd. exact Hb.
    + intro Hp. rewrite Ei. apply Hph. exact Hp.
    + intros Hc Hg v Hv. rewrite Eb in Hv. rewrite Ei. apply (w_dur _ Wi _ _ Hw); [congruence|congruence|apply Hch; exact Hv].
Qed.

(* ---------------------------------------------------------------- the durability invariant is preserved by guarded steps *)

Lemma winv_begin s : WInv s -> WInv (mkS (s_fs s) (s_ws s ++ [w0]) (s_rd s) (s_sc s)).
Proof.
  intro Wi.
  assert (HW : forall a w, W (mkS (s_fs s) (s_ws s ++ [w0]) (s_rd s) (s_sc s)) a = Some w ->
                           W s a = Some w \/ w = w0).
  { unfold W; simpl. intros a w H. destruct (lt_dec a (length (s_ws s))).
    - rewrite nth_error_app1 in H by lia. auto.
    - rewrite nth_error_app2 in H by lia. destruct (a - length (s_ws s)) as [|k]; simpl in H; [inversion H; auto|destruct k; discriminate]. }
  constructor; cbn [s_fs]; intros a w H; destruct (HW _ _ H) as [H1| ->].
  - apply (w_ibase _ Wi _ _ H1).
  - discriminate.
  - apply (w_closed _ Wi _ _ H1).
  - discriminate.
  - apply (w_phase _ Wi _ _ H1).
  - cbn. intros [E|E]; discriminate.
  - apply (w_dur _ Wi _ _ H1).
  - discriminate.
Qed.

Lemma live_post s a w : LInv s -> W s a = Some w -> w_cok w = true -> w_gone w = false ->
  w_lay w = LPost /\ w_hasino w = true /\ D (s_fs s) (w_base w, Dat) = Some (w_ino w).
Proof.
  intros L Hw Hc Hg. pose proof (cok_rest _ (l_ph _ L _ _ Hw) Hc) as [_ [_ [H3 _]]].
  destruct (H3 Hc) as [_ [_ [_ [Hpost _]]]]. specialize (Hpost Hg).
  pose proof (l_lay _ L _ _ Hw) as Hl. unfold lay_ok in Hl. rewrite Hpost in Hl. tauto.
Qed.

Lemma ino_lt s a w : WInv s -> W s a = Some w -> w_hasino w = true -> w_ino w < length (f_ino (s_fs s)).
Proof. intros Wi Hw Hh. apply (ibase_lt _ _ (w_base w)). apply (w_ibase _ Wi _ _ Hw Hh). Qed.

Lemma ibase_create_old n o f i b : ibase f i = Some b -> ibase (fs_create n o f) i = Some b.
Proof.
  intro H. rewrite ibase_create. pose proof (ibase_lt _ _ _ H).
  destruct (i =? length (f_ino f)) eqn:E; [apply Nat.eqb_eq in E; lia|exact H].
Qed.

Ltac t_A Wi Ew :=
  repeat match goal with |- context [if ?b then _ else _] => is_var b; destruct b end;
  unfold set_w, set_fs_w;
  (eapply (winv_A _ _ _ _ _ _ _ Wi Ew);
   [intro; reflexivity | intros ? ? Hb0; exact Hb0 | intros ? ? _ _ _ Hs0; exact Hs0 | intros ? ? Hv0; exact Hv0
   | reflexivity | reflexivity | reflexivity
   | try (let Hx := fresh in intro Hx; first [exact Hx | (exfalso; cbv in Hx; discriminate Hx)])
   | | reflexivity | reflexivity ]).

Ltac ph_done := let E := fresh "E" in intros [E|E];
  cbn [w_ph set_ph set_att set_hopen set_lay set_lostf set_aborted set_published set_reserved set_tmp add_written] in E;
  try discriminate E;
  match goal with Hq : w_ph ?w = _ |- _ => rewrite Hq in E; discriminate E end.

Lemma dinv_step c s l s' :
  GInv s -> LInv s -> FInv (s_fs s) -> WInv s -> guard_ok s l = true -> step c s l = Some s' ->
  FInv (s_fs s') /\ WInv s'.
Proof.
  intros G L F Wi Hgd H. destruct l; cbn [step] in H.
  - (* LBegin *) step_inv H. split; [exact F|apply winv_begin; exact Wi].
  - (* LReserve *) step_inv H.
    + phase_of Hg. split; [cbn [s_fs set_fs_w]; apply finv_create; exact F|].
      assert (Habs : D (s_fs s) (b, Dat) = None).
      { unfold cres_ok in *. rewrite present_D in *. destruct (D (s_fs s) (b, Dat)); [discriminate|reflexivity]. }
      pose proof (l_ph _ L _ _ Ew) as Hp. unfold ph_ok in Hp. rewrite Heqp in Hp. destruct Hp as [_ [_ [Hck _]]].
      assert (Hno : w_hasino w = false) by (apply (early_hasino s a w G Ew); rewrite Heqp; reflexivity).
      unfold set_fs_w. apply (winv_frame s _ a Wi); cbn [s_fs].
      * intros a' x Hne Hx. apply (oth_upd s a _ _ _ _ a' x Hne Hx).
      * intros i b0. apply ibase_create_old.
      * intros a' w2 Hne H2 Hh [Hb|Hb].
        { rewrite D_create in Hb. destruct (fname_eqb (w_base w2, Dat) (b, Dat)); [|left; exact Hb].
          inversion Hb. pose proof (ino_lt s a' w2 Wi H2 Hh). lia. }
        { apply In_choices_create in Hb as [Hb|[_ Hb]]; [right; exact Hb|].
          inversion Hb. pose proof (ino_lt s a' w2 Wi H2 Hh). lia. }
      * intros a' w2 Hne H2 _ Hs. apply synced_create. exact Hs.
      * intros a' w2 x Hne H2 Hx Hc Hg2 v Hv.
        destruct (oth_upd s a _ _ _ _ a' x Hne Hx) as [w3 [H3 [_ [_ [_ [_ [_ [E6 E7]]]]]]]]. rewrite H2 in H3. inversion H3; subst w3.
        apply In_choices_create in Hv as [Hv|[Hn _]]; [left; exact Hv|]. exfalso. inversion Hn as [Eb].
        destruct (live_post s a' w2 L H2) as [_ [_ Hd]]; [congruence|auto|]. rewrite Eb in Hd. congruence.
      * intros x Hx. unfold W in Hx; cbn [s_ws] in Hx. rewrite (nth_error_upd_same _ _ _ _ Ew) in Hx. inversion Hx; subst x.
        cbn. repeat split; try (intro; congruence). intros [E|E]; discriminate.
    + split; [exact F|]. phase_of Hg. t_A Wi Ew. ph_done.
    + split; [exact F|]. phase_of Hg. t_A Wi Ew. ph_done.
  - (* LGiveUp *) step_inv H. split; [exact F|]. phase_of Hg. t_A Wi Ew. ph_done.
  - (* LResClose *) step_inv H. split; [exact F|]. phase_of Hg. t_A Wi Ew; ph_done.
  - (* LUnreserve *) step_inv H.
    split; [cbn [s_fs]; apply finv_apply_rm; exact F|].
    pose proof (l_ph _ L _ _ Ew) as Hp. unfold ph_ok in Hp. rewrite Heqp in Hp. destruct Hp as [Hlay [_ [Hck _]]].
    assert (Hno : w_hasino w = false) by (apply (early_hasino s a w G Ew); rewrite Heqp; reflexivity).
    apply (winv_frame s _ a Wi); cbn [s_fs].
    + intros a' x Hne Hx. destruct r; [apply (oth_map_upd s a _ _ _ _ _ _ a' x Hne Hx)|apply (oth_upd s a _ _ _ _ a' x Hne Hx)..].
    + intros i b0 Hi. rewrite ibase_apply_rm. exact Hi.
    + intros a' w2 Hne H2 Hh Hb. destruct r; cbn [apply_rm] in Hb; try exact Hb. apply (bound_unlink _ _ _ _ Hb).
    + intros a' w2 Hne H2 _ Hs. apply synced_apply_rm. exact Hs.
    + intros a' w2 x Hne H2 Hx Hc Hg2 v Hv.
      assert (Hw2 : w_cok w2 = true /\ w_gone w2 = false).
      { destruct r; [destruct (oth_map_upd s a _ _ _ _ _ _ a' x Hne Hx) as [w3 [H3 [_ [_ [_ [_ [_ [E6 E7]]]]]]]]
                    |destruct (oth_upd s a _ _ _ _ a' x Hne Hx) as [w3 [H3 [_ [_ [_ [_ [_ [E6 E7]]]]]]]]..];
          rewrite H2 in H3; inversion H3; subst w3; split; auto; congruence. }
      destruct Hw2 as [Hc2 Hg3].
      apply (In_choices_apply_rm _ _ _ _ _ Hg) in Hv as [Hv|[_ [Hn _]]]; [left; exact Hv|]. exfalso.
      inversion Hn as [Eb]. destruct (live_post s a' w2 L H2 Hc2 Hg3) as [Hl2 _].
      destruct (l_uniq _ L a' a w2 w Hne H2 Ew Eb); congruence.
    + intros x Hx. unfold W in Hx; cbn [s_ws] in Hx.
      destruct (clear_claim_fields (w_base w) Dat w) as [F1 [F2 [F3 [F4 [F5 [F6 [F7 [F8 [F9 [F10 F11]]]]]]]]]].
      assert (Ex : w_hasino x = false /\ w_cok x = false /\ early (w_ph x) = true).
      { destruct r; [rewrite nth_error_upd, map_length in Hx|rewrite nth_error_upd in Hx..];
          rewrite Nat.eqb_refl in Hx;
          (assert (Hlt : a < length (s_ws s)) by (apply nth_error_Some; congruence));
          apply Nat.ltb_lt in Hlt; rewrite Hlt in Hx; inversion Hx; subst x;
          rewrite ?nth_error_map, ?Ew; cbn [option_map]; cbn; rewrite ?F4, ?F9; destruct again; auto. }
      destruct Ex as [E1 [E2 E3]]. repeat split; try (intro; congruence).
      intros [E|E]; rewrite E in E3; discriminate.
  - (* LTmpCreate *) step_inv H.
    + phase_of Hg. split; [cbn [s_fs set_fs_w]; apply finv_create; exact F|].
      pose proof (l_ph _ L _ _ Ew) as Hp. unfold ph_ok in Hp. rewrite Heqp in Hp. destruct Hp as [Hlay [_ [Hck _]]].
      assert (Hdt : fname_eqb (w_base w, Dat) (w_base w, Tmp) = false) by (apply fname_eqb_neq; congruence).
      unfold set_fs_w. apply (winv_frame s _ a Wi); cbn [s_fs].
      * intros a' x Hne Hx. apply (oth_upd s a _ _ _ _ a' x Hne Hx).
      * intros i b0. apply ibase_create_old.
      * intros a' w2 Hne H2 Hh [Hb|Hb].
        { rewrite D_create in Hb. destruct (fname_eqb (w_base w2, Dat) (w_base w, Tmp)) eqn:E; [apply fname_eqb_eq in E; discriminate|left; exact Hb]. }
        { apply In_choices_create in Hb as [Hb|[Hn _]]; [right; exact Hb|discriminate]. }
      * intros a' w2 Hne H2 _ Hs. apply synced_create. exact Hs.
      * intros a' w2 x Hne H2 Hx Hc Hg2 v Hv.
        apply In_choices_create in Hv as [Hv|[Hn _]]; [left; exact Hv|discriminate].
      * intros x Hx. unfold W in Hx; cbn [s_ws] in Hx. rewrite (nth_error_upd_same _ _ _ _ Ew) in Hx. inversion Hx; subst x.
        cbn [w_hasino w_ino w_base w_hopen w_ph w_cok w_gone set_tmp]. repeat split.
        { intros _. rewrite ibase_create, Nat.eqb_refl. reflexivity. }
        { intros _ [Hb|Hb]; exfalso.
          - rewrite D_create, Hdt in Hb. pose proof (f_base _ F (w_base w, Dat) _ (or_introl Hb)) as Hi.
            apply ibase_lt in Hi. lia.
          - apply In_choices_create in Hb as [Hb|[Hn _]]; [|discriminate].
            pose proof (f_base _ F (w_base w, Dat) _ (or_intror Hb)) as Hi. apply ibase_lt in Hi. lia. }
        { intros [E|E]; discriminate. }
        { intro; congruence. }
    + split; [exact F|]. phase_of Hg. t_A Wi Ew. ph_done.
    + split; [exact F|]. phase_of Hg. t_A Wi Ew. ph_done.
  - (* LWrite *) step_inv H. ready_phase.
    assert (Hside : firstn n bytes = [] \/ forall b0, ~ bound (s_fs s) (b0, Dat) (w_ino w)).
    { destruct (w_hopen w) eqn:Eo.
      - right. intros b0 Hb. pose proof (f_base _ F _ _ Hb) as Hi. cbn [fst] in Hi.
        rewrite (w_ibase _ Wi _ _ Ew ltac:(assumption)) in Hi. inversion Hi; subst b0.
        rewrite (w_closed _ Wi _ _ Ew ltac:(assumption) Hb) in Eo. discriminate.
      - left. cbn in *. match goal with Hn : (n =? 0) = true |- _ => apply Nat.eqb_eq in Hn; subst n end. reflexivity. }
    split; [cbn [s_fs set_fs_w]; apply finv_append; assumption|].
    unfold set_fs_w. eapply (winv_A _ _ _ _ _ _ _ Wi Ew).
    + intro i; apply ibase_append.
    + intros m i Hb; exact Hb.
    + intros a' w2 Hne H2 Hp Hs. apply synced_append; [|exact Hs]. left.
      pose proof (l_ph _ L _ _ H2) as Hp2. pose proof (l_lay _ L _ _ H2) as Hl2.
      assert (Hh2 : w_hasino w2 = true).
      { unfold ph_ok in Hp2. unfold lay_ok in Hl2. destruct Hp as [Hp|Hp]; rewrite Hp in Hp2; destruct Hp2 as [El _]; rewrite El in Hl2; tauto. }
      intro E. destruct (g_w_ino _ G _ _ Ew ltac:(assumption)) as [O1 _]. destruct (g_w_ino _ G _ _ H2 Hh2) as [O2 _].
      rewrite E in O2. rewrite O1 in O2. inversion O2. congruence.
    + intros m v Hv; exact Hv.
    + reflexivity.
    + reflexivity.
    + reflexivity.
    + intro Hx; exact Hx.
    + ph_done.
    + reflexivity.
    + reflexivity.
  - (* LLost *) step_inv H. ready_phase. split; [exact F|]. destruct in_abort; t_A Wi Ew; ph_done.
  - (* LSync *) step_inv H; ready_phase.
    + split; [cbn [s_fs set_fs_w]; apply finv_fsync; exact F|].
      unfold set_fs_w. eapply (winv_A _ _ _ _ _ _ _ Wi Ew).
      * intro i; apply ibase_fsync.
      * intros m i Hb; exact Hb.
      * intros a' w2 Hne H2 Hp Hs. apply synced_fsync. right. exact Hs.
      * intros m v Hv; exact Hv.
      * reflexivity.
      * reflexivity.
      * reflexivity.
      * intro Hx; exact Hx.
      * intros _. apply synced_fsync. left. reflexivity.
      * reflexivity.
      * reflexivity.
    + split; [exact F|]. t_A Wi Ew. ph_done.
  - (* LHClose *) step_inv H; (split; [exact F|]).
    + destruct ok; t_A Wi Ew; try ph_done. intros _. apply (w_phase _ Wi _ _ Ew). left. assumption.
    + t_A Wi Ew; ph_done.
  - (* LRename *) step_inv H.
    + phase_of Hg. pose proof (l_ph _ L _ _ Ew) as Hp. pose proof (l_lay _ L _ _ Ew) as Hl.
      unfold ph_ok in Hp. rewrite Heqp in Hp. destruct Hp as [Hlay [Hho [Hck _]]].
      unfold lay_ok in Hl. rewrite Hlay in Hl. destruct Hl as [Hd [Hio [Hh Ht]]].
      assert (En : n = w_ino w) by (unfold D in Ht; congruence). subst n.
      assert (Hne : (w_base w, Tmp) <> (w_base w, Dat)) by congruence.
      assert (Hsy : synced (s_fs s) (w_ino w)) by (apply (w_phase _ Wi _ _ Ew); right; exact Heqp).
      split; [cbn [s_fs]; apply (finv_rename _ _ _ F Ht Hsy)|].
      rewrite Nat.eqb_refl, nth_error_map, Ew. cbn [option_map].
      destruct (clear_claim_fields (w_base w) Dat w) as [F1 [F2 [F3 [F4 [F5 [F6 [F7 [F8 [F9 [F10 F11]]]]]]]]]].
      apply (winv_frame s _ a Wi); cbn [s_fs].
      * intros a' x Hne' Hx. apply (oth_map_upd s a _ _ _ _ _ _ a' x Hne' Hx).
      * intros i b0 Hi. rewrite ibase_rename. exact Hi.
      * intros a' w2 Hne' H2 Hh2 [Hb|Hb].
        { rewrite (D_rename _ _ _ _ Hne) in Hb by congruence.
          destruct (fname_eqb (w_base w2, Dat) (w_base w, Dat)) eqn:E1.
          - exfalso. rewrite Ht in Hb. inversion Hb as [Ei].
            destruct (g_w_ino _ G _ _ Ew Hh) as [O1 _]. destruct (g_w_ino _ G _ _ H2 Hh2) as [O2 _].
            rewrite <- Ei in O2. rewrite O1 in O2. inversion O2. congruence.
          - destruct (fname_eqb (w_base w2, Dat) (w_base w, Tmp)); [discriminate|left; exact Hb]. }
        { apply (In_choices_rename _ _ _ _ _ _ Ht Hne) in Hb as [Hb|[[_ Hb]|[_ Hb]]]; [right; exact Hb| |discriminate].
          exfalso. inversion Hb as [Ei].
          destruct (g_w_ino _ G _ _ Ew Hh) as [O1 _]. destruct (g_w_ino _ G _ _ H2 Hh2) as [O2 _].
          rewrite Ei in O2. rewrite O1 in O2. inversion O2. congruence. }
      * intros a' w2 Hne' H2 _ Hs. apply synced_rename. exact Hs.
      * intros a' w2 x Hne' H2 Hx Hc Hg2 v Hv.
        destruct (oth_map_upd s a _ _ _ _ _ _ a' x Hne' Hx) as [w3 [H3 [_ [_ [_ [_ [_ [E6 E7]]]]]]]]. rewrite H2 in H3. inversion H3; subst w3.
        apply (In_choices_rename _ _ _ _ _ _ Ht Hne) in Hv as [Hv|[[Hn _]|[Hn _]]]; [left; exact Hv| |discriminate].
        exfalso. inversion Hn as [Eb]. destruct (live_post s a' w2 L H2) as [Hl2 _]; [congruence|auto|].
        destruct (l_uniq _ L a' a w2 w Hne' H2 Ew Eb); congruence.
      * intros x Hx. unfold W in Hx; cbn [s_ws] in Hx.
        rewrite nth_error_upd, map_length, Nat.eqb_refl in Hx.
        assert (Hlt : a < length (s_ws s)) by (apply nth_error_Some; congruence).
        apply Nat.ltb_lt in Hlt. rewrite Hlt in Hx. inversion Hx; subst x.
        cbn [w_hasino w_ino w_base w_hopen w_ph w_cok w_gone set_ph set_lay]. rewrite F1, F3, F4, F6, F9.
        repeat split.
        { intros _. rewrite ibase_rename. apply (w_ibase _ Wi _ _ Ew Hh). }
        { intros _ _. exact Hho. }
        { intros [E|E]; discriminate. }
        { intro; congruence. }
    + split; [exact F|]. phase_of Hg. t_A Wi Ew. ph_done.
  - (* LDirSync *) step_inv H.
    + phase_of Hg. pose proof (l_ph _ L _ _ Ew) as Hp. pose proof (l_lay _ L _ _ Ew) as Hl.
      unfold ph_ok in Hp. rewrite Heqp in Hp. destruct Hp as [Hlay [Hho [Hck _]]].
      unfold lay_ok in Hl. rewrite Hlay in Hl. destruct Hl as [Hh Hd].
      split; [cbn [s_fs set_fs_w]; apply finv_dirsync; exact F|].
      unfold set_fs_w. apply (winv_frame s _ a Wi); cbn [s_fs].
      * intros a' x Hne Hx. apply (oth_upd s a _ _ _ _ a' x Hne Hx).
      * intros i b0 Hi. exact Hi.
      * intros a' w2 Hne H2 Hh2 Hb. left. apply bound_dirsync. exact Hb.
      * intros a' w2 Hne H2 _ Hs. exact Hs.
      * intros a' w2 x Hne H2 Hx Hc Hg2 v Hv.
        destruct (oth_upd s a _ _ _ _ a' x Hne Hx) as [w3 [H3 [_ [_ [_ [_ [_ [E6 E7]]]]]]]]. rewrite H2 in H3. inversion H3; subst w3.
        right. apply In_choices_dirsync in Hv. rewrite Hv.
        destruct (live_post s a' w2 L H2) as [_ [_ Hd2]]; [congruence|auto|exact Hd2].
      * intros x Hx. unfold W in Hx; cbn [s_ws] in Hx. rewrite (nth_error_upd_same _ _ _ _ Ew) in Hx. inversion Hx; subst x.
        cbn [w_hasino w_ino w_base w_hopen w_ph w_cok w_gone set_published]. repeat split.
        { intros _. apply (w_ibase _ Wi _ _ Ew Hh). }
        { intros _ _. exact Hho. }
        { intros [E|E]; discriminate. }
        { intros _ _ v Hv. apply In_choices_dirsync in Hv. congruence. }
    + split; [exact F|]. phase_of Hg. t_A Wi Ew. ph_done.
  - (* LAbortHClose *) step_inv H. ready_phase. split; [exact F|]. t_A Wi Ew. ph_done.
  - (* LAbortRm *) step_inv H.
    split; [cbn [s_fs]; apply finv_apply_rm; exact F|].
    pose proof (l_ph _ L _ _ Ew) as Hp.
    assert (Hq : w_lay w <> LNone /\ quiet w) by (unfold ph_ok in Hp; phase_of Hg; destruct e; try discriminate Hg; exact Hp).
    destruct Hq as [Hnn [Hho [Hck _]]].
    destruct (clear_claim_fields (w_base w) e w) as [F1 [F2 [F3 [F4 [F5 [F6 [F7 [F8 [F9 [F10 F11]]]]]]]]]].
    apply (winv_frame s _ a Wi); cbn [s_fs].
    + intros a' x Hne Hx. destruct r; [apply (oth_map_upd s a _ _ _ _ _ _ a' x Hne Hx)|apply (oth_upd s a _ _ _ _ a' x Hne Hx)..].
    + intros i b0 Hi. rewrite ibase_apply_rm. exact Hi.
    + intros a' w2 Hne H2 Hh Hb. destruct r; cbn [apply_rm] in Hb; try exact Hb. apply (bound_unlink _ _ _ _ Hb).
    + intros a' w2 Hne H2 _ Hs. apply synced_apply_rm. exact Hs.
    + intros a' w2 x Hne H2 Hx Hc Hg2 v Hv.
      assert (Hw2 : w_cok w2 = true /\ w_gone w2 = false).
      { destruct r; [destruct (oth_map_upd s a _ _ _ _ _ _ a' x Hne Hx) as [w3 [H3 [_ [_ [_ [_ [_ [E6 E7]]]]]]]]
                    |destruct (oth_upd s a _ _ _ _ a' x Hne Hx) as [w3 [H3 [_ [_ [_ [_ [_ [E6 E7]]]]]]]]..];
          rewrite H2 in H3; inversion H3; subst w3; split; auto; congruence. }
      destruct Hw2 as [Hc2 Hg3].
      apply (In_choices_apply_rm _ _ _ _ _ Hg0) in Hv as [Hv|[_ [Hn _]]]; [left; exact Hv|]. exfalso.
      inversion Hn as [[Eb Ee]]. destruct (live_post s a' w2 L H2 Hc2 Hg3) as [Hl2 _].
      destruct (l_uniq _ L a' a w2 w Hne H2 Ew Eb); congruence.
    + intros x Hx. unfold W in Hx; cbn [s_ws] in Hx.
      assert (Ex : w_hasino x = w_hasino w /\ w_ino x = w_ino w /\ w_base x = w_base w /\ w_hopen x = false /\ w_cok x = false
                   /\ (w_ph x = PAbortRmTmp \/ w_ph x = PReady)).
      { destruct r; [rewrite nth_error_upd, map_length in Hx|rewrite nth_error_upd in Hx..];
          rewrite Nat.eqb_refl in Hx;
          (assert (Hlt : a < length (s_ws s)) by (apply nth_error_Some; congruence));
          apply Nat.ltb_lt in Hlt; rewrite Hlt in Hx; inversion Hx; subst x;
          rewrite ?nth_error_map, ?Ew; cbn [option_map]; destruct e, (own_check c); cbn; rewrite ?F1, ?F3, ?F4, ?F6, ?F9; auto 10. }
      destruct Ex as [E1 [E2 [E3 [E4 [E5 E6]]]]]. rewrite E1, E2, E3. repeat split.
      * intro Hh. rewrite ibase_apply_rm. apply (w_ibase _ Wi _ _ Ew Hh).
      * intros _ _. exact E4.
      * intros [E|E]; destruct E6 as [E6|E6]; congruence.
      * intro; congruence.
  - (* LRm *) step_inv H; try (split; assumption).
    split; [cbn [s_fs]; apply finv_unlink; exact F|].
    apply (winv_frame s _ (length (s_ws s)) Wi); cbn [s_fs].
    + intros a' x _ Hx. apply (oth_map s _ _ _ _ _ a' x Hx).
    + intros i b0 Hi. rewrite ibase_unlink. exact Hi.
    + intros a' w2 _ H2 Hh Hb. apply (bound_unlink _ _ _ _ Hb).
    + intros a' w2 _ H2 _ Hs. apply synced_unlink. exact Hs.
    + intros a' w2 x _ H2 Hx Hc Hg2 v Hv.
      apply In_choices_unlink in Hv as [Hv|[_ [Hn _]]]; [left; exact Hv|]. exfalso.
      inversion Hn as [[Eb Ee]]. subst e. subst b.
      unfold W in Hx; cbn [s_ws] in Hx. rewrite nth_error_map in Hx. unfold W in H2. rewrite H2 in Hx. cbn in Hx. inversion Hx; subst x.
      destruct (clear_claim_fields (w_base w2) Dat w2) as [_ [_ [_ [_ [_ [_ [_ [_ [F9 _]]]]]]]]].
      assert (Hc2 : w_cok w2 = true) by congruence.
      destruct (wsame_clear (w_base w2) Dat w2) as [_ [_ [_ [_ [_ [_ Hgw]]]]]].
      destruct (live_post s a' w2 L H2 Hc2 (Hgw Hg2)) as [Hl2 _].
      unfold clear_claim in Hg2. rewrite str_eqb_refl, Hl2, Hc2 in Hg2. cbn in Hg2. discriminate.
    + intros x Hx. exfalso. unfold W in Hx; cbn [s_ws] in Hx.
      assert (length (s_ws s) < length (map (clear_claim b e) (s_ws s))) by (apply nth_error_Some; congruence).
      rewrite map_length in H. lia.
  - (* LOpen *) step_inv H; split; try exact F; destruct Wi; constructor; auto.
  - (* LReadDir *) step_inv H. split; [exact F|]. destruct Wi; constructor; auto.
  - (* LParse *) step_inv H. auto.
Qed.

(* ---------------------------------------------------------------- what a step does to a finished file's writer *)
Definition clears (s : state) (l : label) : option str :=
  match l with
  | LRm b Dat ROk => Some b
  | LRename a true | LAbortRm a Dat ROk | LUnreserve a ROk => option_map w_base (nth_error (s_ws s) a)
  | _ => None
  end.

Definition keeps (b : option str) (w x : writer) : Prop :=
  same_core w x /\ (w_cok w = true -> w_cok x = true) /\
  (w_gone x = true -> w_gone w = true \/ b = Some (w_base w)).

Lemma keeps_refl b w : keeps b w w.
Proof. unfold keeps. split; [apply same_core_refl|]. auto. Qed.

Lemma keeps_clear b e w : keeps (match e with Dat => Some b | Tmp => None end) w (clear_claim b e w).
Proof.
  destruct (clear_claim_core b e w) as [C _]. destruct (clear_claim_fields b e w) as [_ [_ [_ [_ [_ [_ [_ [_ [F9 _]]]]]]]]].
  unfold keeps. split; [exact C|]. split; [congruence|].
  unfold clear_claim. destruct (str_eqb (w_base w) b) eqn:Eb; [|auto].
  apply str_eqb_eq in Eb. destruct e, (w_lay w); try destruct (w_cok w); cbn; auto; right; congruence.
Qed.

Lemma keeps_none_any b w x : keeps None w x -> keeps b w x.
Proof. unfold keeps. intros [A [B C]]. split; [exact A|]. split; [exact B|]. intro H. destruct (C H); [auto|discriminate]. Qed.

Lemma keeps_trans b w x y : keeps b w x -> keeps None x y -> keeps b w y.
Proof.
  unfold keeps, same_core. intros [[A1 [A2 [A3 A4]]] [B C]] [[D1 [D2 [D3 D4]]] [E F0]].
  split; [repeat split; congruence|]. split; [auto|]. intro H. destruct (F0 H) as [K|K]; [auto|discriminate].
Qed.

(* shapes of the writer list after a step *)
Lemma keeps_upd s a w' f rd sc a0 w b :
  W s a0 = Some w -> (forall wa, W s a = Some wa -> a0 = a -> keeps b wa w') ->
  exists x, W (mkS f (upd a w' (s_ws s)) rd sc) a0 = Some x /\ keeps b w x.
Proof.
  intros Hw Hk. unfold W; cbn [s_ws]. rewrite nth_error_upd.
  destruct (a0 =? a) eqn:E.
  - apply Nat.eqb_eq in E. subst a0.
    assert (Hlt : a < length (s_ws s)) by (apply nth_error_Some; unfold W in Hw; congruence).
    apply Nat.ltb_lt in Hlt. rewrite Hlt. exists w'. split; [reflexivity|]. apply (Hk w Hw eq_refl).
  - exists w. split; [exact Hw|apply keeps_refl].
Qed.

Lemma keeps_map_upd s a w' bb e f rd sc a0 w :
  W s a0 = Some w ->
  (forall wa, W s a = Some wa -> a0 = a -> keeps None (clear_claim bb e wa) w') ->
  exists x, W (mkS f (upd a w' (map (clear_claim bb e) (s_ws s))) rd sc) a0 = Some x /\
            keeps (match e with Dat => Some bb | Tmp => None end) w x.
Proof.
  intros Hw Hk. unfold W; cbn [s_ws]. rewrite nth_error_upd, map_length.
  destruct (a0 =? a) eqn:E.
  - apply Nat.eqb_eq in E. subst a0.
    assert (Hlt : a < length (s_ws s)) by (apply nth_error_Some; unfold W in Hw; congruence).
    apply Nat.ltb_lt in Hlt. rewrite Hlt. exists w'. split; [reflexivity|].
    apply (keeps_trans _ _ (clear_claim bb e w)); [apply keeps_clear|apply (Hk w Hw eq_refl)].
  - rewrite nth_error_map. unfold W in Hw. rewrite Hw. exists (clear_claim bb e w). split; [reflexivity|apply keeps_clear].
Qed.

Ltac kp_solve := unfold keeps, same_core; cbn; rewrite ?app_nil_r; intuition (try congruence).

(* in the callback of keeps_upd: the writer in question is the actor *)
Ltac is_actor Hw Ew :=
  let wa := fresh "wa" in let Hwa := fresh "Hwa" in let Ea := fresh "Ea" in
  intros wa Hwa Ea; subst; unfold W in *; rewrite Ew in Hw; rewrite Ew in Hwa;
  injection Hwa as Hwa; subst wa; injection Hw as Hw;
  match type of Hw with ?x = _ => subst x end.

Ltac early_contra := match goal with Hl : early (w_ph ?w) = false, Hq : w_ph ?w = _ |- _ => rewrite Hq in Hl; discriminate Hl end.

Lemma step_keeps c s l s' a0 w :
  GInv s -> step c s l = Some s' -> W s a0 = Some w -> w_hasino w = true -> w_hopen w = false ->
  exists x, W s' a0 = Some x /\ keeps (clears s l) w x.
Proof.
  intros G H Hw Hh Hho.
  assert (Hlate : early (w_ph w) = false) by (apply (g_late _ G _ _ Hw Hh)).
  destruct l; cbn [step] in H; cbn [clears].
  - (* LBegin *) step_inv H. exists w. split; [|apply keeps_refl]. unfold W in *; cbn [s_ws].
    rewrite nth_error_app1; [exact Hw|apply nth_error_Some; congruence].
  - step_inv H; phase_of Hg; unfold set_w, set_fs_w; (apply keeps_upd; [exact Hw|]); is_actor Hw Ew; early_contra.
  - step_inv H; phase_of Hg; unfold set_w, set_fs_w; (apply keeps_upd; [exact Hw|]); is_actor Hw Ew; early_contra.
  - step_inv H; phase_of Hg; unfold set_w, set_fs_w; (apply keeps_upd; [exact Hw|]); is_actor Hw Ew; early_contra.
  - (* LUnreserve *) step_inv H.
    destruct r; cbn iota beta; rewrite ?nth_error_map, ?Ew; cbn [option_map].
    + apply (keeps_map_upd s a _ (w_base w0) Dat); [exact Hw|]. is_actor Hw Ew; early_contra.
    + apply keeps_upd; [exact Hw|]. is_actor Hw Ew; early_contra.
    + apply keeps_upd; [exact Hw|]. is_actor Hw Ew; early_contra.
  - step_inv H; phase_of Hg; unfold set_w, set_fs_w; (apply keeps_upd; [exact Hw|]); is_actor Hw Ew; early_contra.
  - (* LWrite *) step_inv H. unfold set_fs_w. apply keeps_upd; [exact Hw|]. is_actor Hw Ew.
    rewrite Hho in *. cbn in *. match goal with Hn : (n =? 0) = true |- _ => apply Nat.eqb_eq in Hn; subst n end. kp_solve.
  - (* LLost *) step_inv H. unfold set_w. apply keeps_upd; [exact Hw|]. is_actor Hw Ew. destruct in_abort; kp_solve.
  - (* LSync *) step_inv H; unfold set_w, set_fs_w; (apply keeps_upd; [exact Hw|]); is_actor Hw Ew; kp_solve.
  - (* LHClose *) step_inv H; unfold set_w; try destruct ok; (apply keeps_upd; [exact Hw|]); is_actor Hw Ew; kp_solve.
  - (* LRename *) step_inv H; phase_of Hg.
    + rewrite nth_error_map, Ew. cbn [option_map].
      apply (keeps_map_upd s a _ (w_base w0) Dat); [exact Hw|]. is_actor Hw Ew.
      destruct (clear_claim_core (w_base w) Dat w) as [[C1 [C2 [C3 C4]]] _].
      destruct (clear_claim_fields (w_base w) Dat w) as [_ [_ [_ [_ [_ [_ [_ [_ [F9 _]]]]]]]]].
      destruct (n =? w_ino w); unfold keeps, same_core; cbn; intuition.
    + unfold set_w. apply keeps_upd; [exact Hw|]. is_actor Hw Ew; kp_solve.
  - (* LDirSync *) step_inv H; phase_of Hg; unfold set_w, set_fs_w; (apply keeps_upd; [exact Hw|]); is_actor Hw Ew; kp_solve.
  - (* LAbortHClose *) step_inv H. unfold set_w. apply keeps_upd; [exact Hw|]. is_actor Hw Ew; kp_solve.
  - (* LAbortRm *) step_inv H. phase_of Hg; destruct e; try discriminate Hg; destruct r; cbn iota beta;
      rewrite ?nth_error_map, ?Ew; cbn [option_map].
    all: try (apply (keeps_map_upd s a _ (w_base w0) Tmp); [exact Hw|]).
    all: try (apply (keeps_map_upd s a _ (w_base w0) Dat); [exact Hw|]).
    all: try (apply keeps_upd; [exact Hw|]).
    all: is_actor Hw Ew.
    all: try (destruct (clear_claim_core (w_base w) Tmp w) as [[C1 [C2 [C3 C4]]] _];
              destruct (clear_claim_fields (w_base w) Tmp w) as [_ [_ [_ [_ [_ [_ [_ [_ [F9 _]]]]]]]]]).
    all: try (destruct (clear_claim_core (w_base w) Dat w) as [[D1 [D2 [D3 D4]]] _];
              destruct (clear_claim_fields (w_base w) Dat w) as [_ [_ [_ [_ [_ [_ [_ [_ [G9 _]]]]]]]]]).
    all: destruct (own_check c); unfold keeps, same_core; cbn; intuition.
  - (* LRm *) step_inv H.
    + unfold W in *; cbn [s_ws]. rewrite nth_error_map, Hw. cbn [option_map]. eexists. split; [reflexivity|].
      destruct e; [apply keeps_clear|apply keeps_none_any, (keeps_clear b Tmp)].
    + exists w. split; [exact Hw|apply keeps_refl].
    + exists w. split; [exact Hw|apply keeps_refl].
  - step_inv H; exists w; (split; [exact Hw|apply keeps_refl]).
  - step_inv H; exists w; (split; [exact Hw|apply keeps_refl]).
  - step_inv H; exists w; (split; [exact Hw|apply keeps_refl]).
Qed.

(* ---------------------------------------------------------------- crash images (Prop level) *)
Definition prefix (p c : str) : Prop := exists t, c = p ++ t.

Definition power_image (f : fsys) (img : image) : Prop :=
  NoDup (map fst img) /\
  (forall n c, In (n, c) img ->
     exists i x, In (Some i) (choices f n) /\ nth_error (f_ino f) i = Some x /\ prefix (i_dur x) c /\ prefix c (i_data x)) /\
  (forall n, ~ In n (map fst img) -> In None (choices f n)).

Definition crash_image (f : fsys) (img : image) : Prop := img = proc_image f \/ power_image f img.

Lemma prefix_antisym p c : prefix p c -> prefix c p -> c = p.
Proof.
  intros [t1 E1] [t2 E2]. subst c. rewrite <- app_assoc in E2.
  assert (L : length p = length (p ++ t1 ++ t2)) by (rewrite <- E2; reflexivity).
  rewrite !app_length in L. destruct t1; [rewrite app_nil_r; reflexivity|simpl in L; lia].
Qed.

(* a final path bound (now, durably or pending) to an inode whose bytes parse: it is the complete,
   fsynced file of a writer of that base whose handle is closed *)
Lemma dat_bound_complete c s b i x :
  GInv s -> FInv (s_fs s) -> WInv s -> valid c [] = false ->
  bound (s_fs s) (b, Dat) i -> nth_error (f_ino (s_fs s)) i = Some x -> valid c (i_data x) = true ->
  i_dur x = i_data x /\
  exists a w, W s a = Some w /\ w_base w = b /\ w_hasino w = true /\ w_ino w = i /\
              i_data x = w_written w /\ w_hopen w = false.
Proof.
  intros G F Wi Hv Hb Hx Hval.
  split; [apply (f_sync _ F b i Hb x Hx)|].
  pose proof (f_base _ F _ _ Hb) as Hib. cbn [fst] in Hib.
  destruct (i_owner x) as [a|] eqn:Eo.
  - assert (Ho : iown (s_fs s) i = Some (Some a)) by (unfold iown; rewrite Hx; cbn; congruence).
    destruct (g_ino_w _ G _ _ Ho) as [w [Hw [Hh Hi]]]. destruct (g_w_ino _ G _ _ Hw Hh) as [_ Hd].
    pose proof (w_ibase _ Wi _ _ Hw Hh) as Hwb. rewrite Hi, Hib in Hwb. inversion Hwb as [Eb].
    exists a, w. repeat split; auto.
    + rewrite Hi in Hd. unfold idata in Hd. rewrite Hx in Hd. cbn in Hd. congruence.
    + apply (w_closed _ Wi _ _ Hw Hh). rewrite <- Eb, Hi. exact Hb.
  - exfalso. assert (Ho : iown (s_fs s) i = Some None) by (unfold iown; rewrite Hx; cbn; congruence).
    pose proof (g_res_empty _ G _ Ho) as Hd. unfold idata in Hd. rewrite Hx in Hd. cbn in Hd. inversion Hd. congruence.
Qed.

Lemma In_recover c img b d : In (b, d) (recover c img) <-> In ((b, Dat), d) img /\ valid c d = true.
Proof.
  unfold recover. rewrite in_flat_map. split.
  - intros [[[b0 e] d0] [Hin H]]. destruct e; [|destruct H]. destruct (valid c d0) eqn:E; [|destruct H].
    destruct H as [H|[]]. inversion H; subst. auto.
  - intros [Hin Hv]. exists ((b, Dat), d). split; [exact Hin|]. rewrite Hv. left. reflexivity.
Qed.

Lemma In_proc_image f n d : dwf (f_dir f) -> In (n, d) (proc_image f) <-> exists i, D f n = Some i /\ d = data_of f i.
Proof.
  intro Hwf. unfold proc_image. rewrite in_map_iff. split.
  - intros [[m i] [E Hin]]. cbn in E. inversion E; subst. exists i. split; [apply In_dlookup; assumption|reflexivity].
  - intros [i [Hd ->]]. exists (n, i). split; [reflexivity|apply dlookup_In; exact Hd].
Qed.

(* only complete files of writers, nothing invented *)
Lemma crash_sound c s img b d :
  GInv s -> FInv (s_fs s) -> WInv s -> valid c [] = false -> crash_image (s_fs s) img ->
  In (b, d) (recover c img) ->
  exists a w, W s a = Some w /\ w_base w = b /\ w_hasino w = true /\ d = w_written w /\ w_hopen w = false /\
              synced (s_fs s) (w_ino w) /\ bound (s_fs s) (b, Dat) (w_ino w).
Proof.
  intros G F Wi Hv Himg Hin. apply In_recover in Hin as [Hin Hval].
  destruct Himg as [->|[_ [Hent _]]].
  - apply (In_proc_image _ _ _ (g_dwf _ G)) in Hin as [i [Hd ->]].
    assert (Hb : bound (s_fs s) (b, Dat) i) by (left; exact Hd).
    rewrite data_of_idata in Hval. unfold idata in *.
    destruct (nth_error (f_ino (s_fs s)) i) as [x|] eqn:Hx; [|cbn in Hval; congruence]. cbn in Hval.
    destruct (dat_bound_complete c s b i x G F Wi Hv Hb Hx Hval) as [_ [a [w [Hw [Eb [Hh [Hi [Hd2 Hho]]]]]]]].
    exists a, w. rewrite data_of_idata. unfold idata. rewrite Hx. cbn. subst i. repeat split; auto.
    apply (f_sync _ F b _ Hb).
  - destruct (Hent _ _ Hin) as [i [x [Hc [Hx [P1 P2]]]]].
    assert (Hb : bound (s_fs s) (b, Dat) i) by (right; exact Hc).
    pose proof (f_sync _ F b i Hb x Hx) as Hs. rewrite Hs in P1.
    pose proof (prefix_antisym _ _ P1 P2) as Ed. subst d.
    destruct (dat_bound_complete c s b i x G F Wi Hv Hb Hx Hval) as [_ [a [w [Hw [Eb [Hh [Hi [Hd2 Hho]]]]]]]].
    exists a, w. subst i. repeat split; auto. apply (f_sync _ F b _ Hb).
Qed.

(* a file whose Close returned nil and that was not tombstoned survives every crash *)
Lemma crash_keeps_live c s img a w :
  GInv s -> LInv s -> FInv (s_fs s) -> WInv s -> crash_image (s_fs s) img ->
  W s a = Some w -> w_cok w = true -> w_gone w = false -> valid c (w_written w) = true ->
  In (w_base w, w_written w) (recover c img).
Proof.
  intros G L F Wi Himg Hw Hc Hg Hval. apply In_recover. split; [|exact Hval].
  destruct (live_post s a w L Hw Hc Hg) as [_ [Hh Hd]].
  destruct (g_w_ino _ G _ _ Hw Hh) as [_ Hdat].
  destruct Himg as [->|[Hnd [Hent Habs]]].
  - apply (In_proc_image _ _ _ (g_dwf _ G)). exists (w_ino w). split; [exact Hd|].
    rewrite data_of_idata, Hdat. reflexivity.
  - destruct (in_dec fname_dec (w_base w, Dat) (map fst img)) as [Hin|Hnin].
    + apply in_map_iff in Hin as [[n d] [En Hin]]. cbn in En. subst n.
      destruct (Hent _ _ Hin) as [i [x [Hc2 [Hx [P1 P2]]]]].
      pose proof (w_dur _ Wi _ _ Hw Hc Hg _ Hc2) as Ei. inversion Ei; subst i.
      assert (Hb : bound (s_fs s) (w_base w, Dat) (w_ino w)) by (left; exact Hd).
      pose proof (f_sync _ F _ _ Hb x Hx) as Hs. rewrite Hs in P1.
      pose proof (prefix_antisym _ _ P1 P2) as Ed. subst d.
      unfold idata in Hdat. rewrite Hx in Hdat. cbn in Hdat. inversion Hdat as [E]. first [exact Hin | rewrite E in Hin; exact Hin | rewrite <- E; exact Hin].
    + exfalso. pose proof (w_dur _ Wi _ _ Hw Hc Hg _ (Habs _ Hnin)). discriminate.
Qed.

Lemma recover_nodup c img : NoDup (map fst img) -> NoDup (map fst (recover c img)).
Proof.
  induction img as [|[[b e] d] t IH]; simpl; intro H; [constructor|].
  inversion H; subst. destruct e; [|auto]. destruct (valid c d); [|auto].
  simpl. constructor; [|auto]. intro Hin. apply in_map_iff in Hin as [[b0 d0] [E Hin]]. cbn in E. subst b0.
  apply In_recover in Hin as [Hin _]. apply H2. apply in_map_iff. exists ((b, Dat), d0). auto.
Qed.

Lemma proc_image_names f : map fst (proc_image f) = map fst (f_dir f).
Proof. unfold proc_image. rewrite map_map. reflexivity. Qed.

Lemma crash_nodup c s img : GInv s -> crash_image (s_fs s) img -> NoDup (map fst (recover c img)).
Proof.
  intros G [->|[H _]]; apply recover_nodup; [rewrite proc_image_names; apply (g_dwf _ G)|exact H].
Qed.

(* ---------------------------------------------------------------- engine level *)
Record SInv (s : state) : Prop := mkSInv {
  si_g : GInv s; si_l : LInv s; si_f : FInv (s_fs s); si_w : WInv s }.

Lemma sinv_init : SInv s0.
Proof. constructor; [apply ginv_init|apply linv_init|apply finv_init|apply winv_init]. Qed.

Lemma sinv_step c s l s' : SInv s -> guard_ok s l = true -> step c s l = Some s' -> SInv s'.
Proof.
  intros [G L F Wi] Hg H. destruct (dinv_step c s l s' G L F Wi Hg H) as [F' W'].
  constructor; [apply (ginv_step _ _ _ _ G H)|apply (linv_step _ _ _ _ G L Hg H)|exact F'|exact W'].
Qed.

Lemma In_enumerate {A} (l : list A) k a x : In (a, x) (enumerate k l) <-> k <= a /\ nth_error l (a - k) = Some x.
Proof.
  revert k. induction l as [|y t IH]; intro k; simpl.
  - split; [tauto|]. intros [_ H]. destruct (a - k); discriminate.
  - rewrite IH. split.
    + intros [E|[Hle Hn]].
      * inversion E; subst. split; [lia|]. rewrite Nat.sub_diag. reflexivity.
      * split; [lia|]. replace (a - k) with (S (a - S k)) by lia. exact Hn.
    + intros [Hle Hn]. destruct (Nat.eq_dec a k) as [->|Hne].
      * left. rewrite Nat.sub_diag in Hn. inversion Hn. reflexivity.
      * right. split; [lia|]. replace (a - k) with (S (a - S k)) in Hn by lia. exact Hn.
Qed.

Lemma memb_In a l : memb a l = true <-> In a l.
Proof.
  unfold memb. rewrite existsb_exists. split.
  - intros [x [Hx E]]. apply Nat.eqb_eq in E. subst. exact Hx.
  - intro H. exists a. split; [exact H|apply Nat.eqb_refl].
Qed.

Definition acks_live (es : estate) : Prop :=
  forall a, In a (e_acked es) -> exists w, W (e_s es) a = Some w /\ w_cok w = true /\ w_gone w = false.

(* the actor of a claim-clearing step holds a claim and has not finished *)
Lemma clears_actor c s l s' b :
  LInv s -> step c s l = Some s' -> clears s l = Some b ->
  (exists e r, l = LRm b e r) \/
  (exists a wa, W s a = Some wa /\ w_base wa = b /\ w_lay wa <> LNone /\ w_cok wa = false).
Proof.
  intros L H Hc. destruct l; cbn [clears] in Hc; try discriminate.
  - (* LUnreserve *) destruct r; try discriminate. cbn [step] in H. step_inv H. unfold W.
    cbn in Hc. inversion Hc. right. exists a, w. split; [exact Ew|]. split; [reflexivity|].
    pose proof (l_ph _ L _ _ Ew) as Hp. unfold ph_ok, quiet, calmf in Hp. rewrite Heqp in Hp. intuition congruence.
  - (* LRename *) destruct ok; try discriminate. cbn [step] in H. step_inv H. phase_of Hg.
    cbn in Hc. inversion Hc. right. exists a, w. split; [exact Ew|]. split; [reflexivity|].
    pose proof (l_ph _ L _ _ Ew) as Hp. unfold ph_ok, quiet, calmf in Hp. rewrite Heqp in Hp. intuition congruence.
  - (* LAbortRm *) destruct e; try discriminate. destruct r; try discriminate. cbn [step] in H. step_inv H.
    cbn in Hc. inversion Hc. right. exists a, w. split; [exact Ew|]. split; [reflexivity|].
    pose proof (l_ph _ L _ _ Ew) as Hp. unfold ph_ok, quiet, calmf in Hp. phase_of Hg; try discriminate Hg; intuition congruence.
  - (* LRm *) destruct e; try discriminate. destruct r; try discriminate. inversion Hc. left. eauto.
Qed.

(* a finished, untombstoned file stays so unless this very step is a removal of its pointer *)
Lemma live_step c s l s' a w :
  SInv s -> guard_ok s l = true -> step c s l = Some s' ->
  W s a = Some w -> w_cok w = true -> w_gone w = false ->
  exists x, W s' a = Some x /\ w_cok x = true /\ same_core w x /\
    (w_gone x = false \/ exists r, l = LRm (w_base w) Dat r).
Proof.
  intros [G L F Wi] Hg H Hw Hc Hgo.
  destruct (live_post s a w L Hw Hc Hgo) as [Hl [Hh _]].
  pose proof (cok_rest _ (l_ph _ L _ _ Hw) Hc) as [_ [_ [H3 _]]]. destruct (H3 Hc) as [_ [Hho _]].
  destruct (step_keeps c s l s' a w G H Hw Hh Hho) as [x [Hx [Hcore [Hck Hgone]]]].
  exists x. split; [exact Hx|]. split; [auto|]. split; [exact Hcore|].
  destruct (w_gone x) eqn:Egx; [|left; reflexivity]. right.
  destruct (Hgone eq_refl) as [K|K]; [congruence|].
  destruct (clears_actor c s l s' _ L H K) as [[e [r El]]|[a' [wa [Ha' [Eb [Hnn Hcf]]]]]].
  - subst l. cbn [clears] in K. destruct e; [|destruct r; discriminate]. exists r. reflexivity.
  - exfalso. assert (Hne : a' <> a) by (intro; subst a'; rewrite Hw in Ha'; inversion Ha'; congruence).
    destruct (l_uniq _ L a' a wa w Hne Ha' Hw Eb); congruence.
Qed.

Lemma flush_estep c es el es' :
  SInv (e_s es) -> acks_live es -> estep c flush_disc es el = Some es' -> SInv (e_s es') /\ acks_live es'.
Proof.
  intros S A H. destruct el as [l|a]; cbn [estep] in H.
  - destruct (flush_disc es l) eqn:Ed; [|discriminate]. destruct (step c (e_s es) l) as [s'|] eqn:E; [|discriminate].
    inversion H; subst es'. cbn [e_s e_acked]. unfold flush_disc in Ed. apply andb_true_iff in Ed as [Hg Hx].
    split; [apply (sinv_step _ _ _ _ S Hg E)|].
    intros a Ha. cbn [e_acked] in Ha. destruct (A a Ha) as [w [Hw [Hc Hgo]]].
    destruct (live_step c _ l s' a w S Hg E Hw Hc Hgo) as [x [Hx1 [Hx2 [_ [Hx3|[r El]]]]]]; [exists x; auto|].
    exfalso. subst l. rewrite forallb_forall in Hx.
    assert (Hin : In (a, w) (enumerate 0 (s_ws (e_s es)))) by (apply In_enumerate; split; [lia|rewrite Nat.sub_0_r; exact Hw]).
    specialize (Hx _ Hin). cbn [fst snd] in Hx. unfold live_file in Hx.
    rewrite str_eqb_refl, Hc, Hgo, (proj2 (memb_In a _) Ha) in Hx. discriminate.
  - destruct (nth_error (s_ws (e_s es)) a) as [w|] eqn:Ew; [|discriminate].
    destruct (live_file w) eqn:El; [|discriminate]. inversion H; subst es'. cbn [e_s e_acked].
    split; [exact S|]. intros a' [<-|Ha'].
    + exists w. unfold live_file in El. apply andb_true_iff in El as [E1 E2]. apply negb_true_iff in E2. auto.
    + apply (A a' Ha').
Qed.

Lemma flush_erun c els : forall es es',
  SInv (e_s es) -> acks_live es -> erun c flush_disc es els = Some es' -> SInv (e_s es') /\ acks_live es'.
Proof.
  induction els as [|el t IH]; simpl; intros es es' S A H.
  - inversion H; subst. auto.
  - destruct (estep c flush_disc es el) as [es1|] eqn:E; [|discriminate].
    destruct (flush_estep c es el es1 S A E) as [S1 A1]. apply (IH es1 es' S1 A1 H).
Qed.

(* C15, flush-only histories (ingest, flush, failed flushes with their cleanup), any failures,
   crash at any os-call boundary, process crash or power loss *)
Lemma crash_flush_only c els es img :
  erun c flush_disc e0 els = Some es -> valid c [] = false -> crash_image (s_fs (e_s es)) img ->
  (forall b d, In (b, d) (recover c img) ->
     exists a w, W (e_s es) a = Some w /\ w_base w = b /\ w_hasino w = true /\ d = w_written w /\
                 w_hopen w = false /\ synced (s_fs (e_s es)) (w_ino w) /\ bound (s_fs (e_s es)) (b, Dat) (w_ino w)) /\
  (forall a w, In a (e_acked es) -> W (e_s es) a = Some w -> valid c (w_written w) = true ->
     In (w_base w, w_written w) (recover c img)) /\
  NoDup (map fst (recover c img)).
Proof.
  intros H Hv Himg.
  assert (A0 : acks_live e0) by (intros a []).
  destruct (flush_erun c els e0 es sinv_init A0 H) as [[G L F Wi] A].
  split; [|split].
  - intros b d Hin. apply (crash_sound c _ img b d G F Wi Hv Himg Hin).
  - intros a w Ha Hw Hval. destruct (A a Ha) as [w' [Hw' [Hc Hg]]]. rewrite Hw in Hw'. inversion Hw'; subst w'.
    apply (crash_keeps_live c _ img a w G L F Wi Himg Hw Hc Hg Hval).
  - apply (crash_nodup c _ img G Himg).
Qed.

(* ---------------------------------------------------------------- histories with merges *)
Definition holders (rows : nat -> list nat) (es : estate) : Prop :=
  forall a r, In a (e_acked es) -> In r (rows a) ->
    exists m w, W (e_s es) m = Some w /\ w_cok w = true /\ w_gone w = false /\ In r (rows m).

Lemma merge_estep rows c es el es' :
  SInv (e_s es) -> holders rows es -> estep c (merge_disc rows) es el = Some es' ->
  SInv (e_s es') /\ holders rows es'.
Proof.
  intros S A H. destruct el as [l|a]; cbn [estep] in H.
  - destruct (merge_disc rows es l) eqn:Ed; [|discriminate]. destruct (step c (e_s es) l) as [s'|] eqn:E; [|discriminate].
    inversion H; subst es'. cbn [e_s e_acked]. unfold merge_disc in Ed. apply andb_true_iff in Ed as [Hg Hx].
    split; [apply (sinv_step _ _ _ _ S Hg E)|].
    intros a r Ha Hr. cbn [e_acked] in Ha. destruct (A a r Ha Hr) as [m [w [Hw [Hc [Hgo Hrm]]]]]. cbn [e_s].
    destruct (live_step c _ l s' m w S Hg E Hw Hc Hgo) as [x [Hx1 [Hx2 [_ [Hx3|[r0 El]]]]]]; [exists m, x; auto|].
    (* the holder's file is being removed: another live file holds all its rows *)
    assert (Hl1 : w_lay w = LPost) by (destruct S as [G L F Wi]; apply (live_post _ m w L Hw Hc Hgo)).
    subst l. rewrite forallb_forall in Hx.
    assert (Hin : In (m, w) (enumerate 0 (s_ws (e_s es)))) by (apply In_enumerate; split; [lia|rewrite Nat.sub_0_r; exact Hw]).
    specialize (Hx _ Hin). cbn [fst snd] in Hx. unfold live_file in Hx. rewrite str_eqb_refl, Hc, Hgo in Hx. cbn in Hx.
    unfold covered in Hx. apply existsb_exists in Hx as [[m' w'] [Hin' Hp]]. cbn [fst snd] in Hp.
    apply andb_true_iff in Hp as [Hp Hsub]. apply andb_true_iff in Hp as [Hne Hlive'].
    apply negb_true_iff, Nat.eqb_neq in Hne. unfold live_file in Hlive'. apply andb_true_iff in Hlive' as [Hc' Hg'].
    apply negb_true_iff in Hg'. apply In_enumerate in Hin' as [_ Hw']. rewrite Nat.sub_0_r in Hw'.
    rewrite forallb_forall in Hsub. specialize (Hsub r Hrm). apply memb_In in Hsub.
    destruct (live_step c _ _ s' m' w' S Hg E Hw' Hc' Hg') as [x' [Hy1 [Hy2 [_ [Hy3|[r1 El]]]]]]; [exists m', x'; auto|].
    exfalso. inversion El as [Eb]. destruct S as [G L F Wi].
    destruct (live_post _ m' w' L Hw' Hc' Hg') as [Hl2 _].
    destruct (l_uniq _ L m' m w' w Hne Hw' Hw (eq_sym Eb)); congruence.
  - destruct (nth_error (s_ws (e_s es)) a) as [w|] eqn:Ew; [|discriminate].
    destruct (live_file w) eqn:El; [|discriminate]. inversion H; subst es'. cbn [e_s e_acked].
    split; [exact S|]. intros a' r [<-|Ha'] Hr.
    + exists a, w. unfold live_file in El. apply andb_true_iff in El as [E1 E2]. apply negb_true_iff in E2. auto.
    + apply (A a' r Ha' Hr).
Qed.

Lemma merge_erun rows c els : forall es es',
  SInv (e_s es) -> holders rows es -> erun c (merge_disc rows) es els = Some es' -> SInv (e_s es') /\ holders rows es'.
Proof.
  induction els as [|el t IH]; simpl; intros es es' S A H.
  - inversion H; subst. auto.
  - destruct (estep c (merge_disc rows) es el) as [es1|] eqn:E; [|discriminate].
    destruct (merge_estep rows c es el es1 S A E) as [S1 A1]. apply (IH es1 es' S1 A1 H).
Qed.

(* C15 with merges: nothing is lost and nothing is invented; the no-duplicate clause is not claimed *)
Lemma crash_merge rows c els es img :
  erun c (merge_disc rows) e0 els = Some es -> valid c [] = false -> crash_image (s_fs (e_s es)) img ->
  (forall m w, W (e_s es) m = Some w -> w_cok w = true -> valid c (w_written w) = true) ->
  (forall b d, In (b, d) (recover c img) ->
     exists a w, W (e_s es) a = Some w /\ w_base w = b /\ w_hasino w = true /\ d = w_written w /\
                 w_hopen w = false /\ synced (s_fs (e_s es)) (w_ino w) /\ bound (s_fs (e_s es)) (b, Dat) (w_ino w)) /\
  (forall a r, In a (e_acked es) -> In r (rows a) ->
     exists m w, W (e_s es) m = Some w /\ In r (rows m) /\ In (w_base w, w_written w) (recover c img)) /\
  NoDup (map fst (recover c img)).
Proof.
  intros H Hv Himg Hval.
  assert (A0 : holders rows e0) by (intros a r []).
  destruct (merge_erun rows c els e0 es sinv_init A0 H) as [[G L F Wi] A].
  split; [|split].
  - intros b d Hin. apply (crash_sound c _ img b d G F Wi Hv Himg Hin).
  - intros a r Ha Hr. destruct (A a r Ha Hr) as [m [w [Hw [Hc [Hg Hrm]]]]]. exists m, w. split; [exact Hw|]. split; [exact Hrm|].
    apply (crash_keeps_live c _ img m w G L F Wi Himg Hw Hc Hg (Hval m w Hw Hc)).
  - apply (crash_nodup c _ img G Himg).
Qed.

(* ---------------------------------------------------------------- the executable check of power-loss images is sound *)
Lemma is_prefix_prefix p s : is_prefix p s = true -> prefix p s.
Proof.
  revert s. induction p as [|x p IH]; intros s H.
  - exists s. reflexivity.
  - destruct s as [|y s]; [discriminate|]. simpl in H. apply andb_true_iff in H as [E H].
    apply N.eqb_eq in E. subst y. destruct (IH s H) as [t ->]. exists t. reflexivity.
Qed.

Lemma nodup_names_NoDup l : nodup_names l = true -> NoDup l.
Proof.
  induction l as [|n t IH]; simpl; intro H; [constructor|].
  apply andb_true_iff in H as [H1 H2]. constructor; [|auto].
  intro Hin. apply negb_true_iff in H1. assert (existsb (fname_eqb n) t = true); [|congruence].
  apply existsb_exists. exists n. split; [exact Hin|apply fname_eqb_refl].
Qed.

Lemma dlookup_notin n d : ~ In n (map fst d) -> dlookup n d = None.
Proof.
  induction d as [|[m i] t IH]; simpl; intro H; [reflexivity|].
  destruct (fname_eqb n m) eqn:E; [apply fname_eqb_eq in E; subst; tauto|]. apply IH. tauto.
Qed.

Lemma power_okb_sound f img : power_okb f img = true -> power_image f img.
Proof.
  unfold power_okb. intro H. apply andb_true_iff in H as [H H3]. apply andb_true_iff in H as [H1 H2].
  split; [apply nodup_names_NoDup; exact H1|]. split.
  - intros n c Hin. rewrite forallb_forall in H2. specialize (H2 _ Hin). unfold entry_okb in H2. cbn [fst snd] in H2.
    apply existsb_exists in H2 as [v [Hv Hok]]. destruct v as [i|]; [|discriminate].
    destruct (nth_error (f_ino f) i) as [x|] eqn:Hx; [|discriminate].
    unfold content_okb in Hok. apply andb_true_iff in Hok as [P1 P2].
    exists i, x. repeat split; auto; apply is_prefix_prefix; assumption.
  - intros n Hn. rewrite forallb_forall in H3.
    destruct (in_dec fname_dec n (map fst (f_ddir f) ++ map fst (f_pend f))) as [Hin|Hnin].
    + specialize (H3 _ Hin). unfold absent_okb in H3. apply orb_true_iff in H3 as [H3|H3].
      * exfalso. apply existsb_exists in H3 as [e [He E]]. apply fname_eqb_eq in E. subst n. apply Hn. apply in_map. exact He.
      * apply existsb_exists in H3 as [v [Hv E]]. destruct v; [discriminate|exact Hv].
    + unfold choices. left. apply dlookup_notin. intro K. apply Hnin. apply in_or_app. left. exact K.
Qed.

(* ---------------------------------------------------------------- witnesses *)
Definition wcfg : cfg := mkC true 100 (fun d => negb (length d =? 0)).

Definition flush_labels (a : nat) (b : str) (d : str) : list elabel :=
  map EL [LBegin a; LReserve a b COk; LResClose a true; LTmpCreate a COk; LWrite a d (length d);
          LSync a true; LHClose a true; LRename a true; LDirSync a true].

(* two flushes (rows 1 and 2), acknowledged; then a merge writes and publishes its output *)
Definition wrows (a : nat) : list nat := match a with 0 => [1] | 1 => [2] | 2 => [1; 2] | _ => [] end.
Definition hist_publish : list elabel :=
  flush_labels 0 (lit "x") (lit "A") ++ [EAck 0] ++ flush_labels 1 (lit "y") (lit "B") ++ [EAck 1]
  ++ flush_labels 2 (lit "z") (lit "AB").
(* ... and its Update removes the sources (no directory fsync follows) *)
Definition hist_removed : list elabel :=
  hist_publish ++ map EL [LRm (lit "x") Dat ROk; LRm (lit "y") Dat ROk].

Definition img_all : image := [((lit "x", Dat), lit "A"); ((lit "y", Dat), lit "B"); ((lit "z", Dat), lit "AB")].

Lemma not_nodup_1212 : ~ NoDup [1; 2; 1; 2].
Proof. intro H. inversion H as [|? ? Hn _]. apply Hn. simpl. auto. Qed.

(* process crash between the publish of the merge output and the removal of its sources *)
Lemma merge_window_process :
  exists es, erun wcfg (merge_disc wrows) e0 hist_publish = Some es /\
    crash_image (s_fs (e_s es)) (proc_image (s_fs (e_s es))) /\
    e_acked es = [1; 0] /\
    ~ NoDup (rows_of wrows (recovered_writers wcfg (e_s es) (proc_image (s_fs (e_s es))))).
Proof.
  eexists. split; [vm_compute; reflexivity|]. split; [left; reflexivity|]. split; [reflexivity|].
  vm_compute. exact not_nodup_1212.
Qed.

(* power loss after the removal of the sources: the removals were never fsynced *)
Lemma merge_window_power :
  exists es, erun wcfg (merge_disc wrows) e0 hist_removed = Some es /\
    proc_image (s_fs (e_s es)) = [((lit "z", Dat), lit "AB")] /\
    crash_image (s_fs (e_s es)) img_all /\
    ~ NoDup (rows_of wrows (recovered_writers wcfg (e_s es) img_all)).
Proof.
  eexists. split; [vm_compute; reflexivity|]. split; [vm_compute; reflexivity|].
  split; [right; apply power_okb_sound; vm_compute; reflexivity|].
  vm_compute. exact not_nodup_1212.
Qed.

(* non-vacuity of the flush-only theorem: an acknowledged flush, then a failed flush with its
   cleanup, then a power loss that keeps the reservation of a third, unfinished flush *)
Definition hist_flush : list elabel :=
  flush_labels 0 (lit "x") (lit "A") ++ [EAck 0]
  ++ map EL [LBegin 1; LReserve 1 (lit "y") COk; LResClose 1 true; LTmpCreate 1 COk; LWrite 1 (lit "B") 1;
             LSync 1 true; LHClose 1 true; LRename 1 true; LDirSync 1 false;
             LAbortHClose 1; LAbortRm 1 Tmp RNoent; LAbortRm 1 Dat ROk; LRm (lit "y") Dat RNoent; LRm (lit "y") Tmp RNoent;
             LBegin 2; LReserve 2 (lit "z") COk].

Lemma flush_nonvacuous :
  exists es, erun wcfg flush_disc e0 hist_flush = Some es /\ e_acked es = [0] /\
    crash_image (s_fs (e_s es)) [((lit "x", Dat), lit "A"); ((lit "y", Dat), lit "B"); ((lit "z", Dat), [])] /\
    recover wcfg [((lit "x", Dat), lit "A"); ((lit "y", Dat), lit "B"); ((lit "z", Dat), [])]
      = [(lit "x", lit "A"); (lit "y", lit "B")].
Proof.
  eexists. split; [vm_compute; reflexivity|]. split; [reflexivity|].
  split; [right; apply power_okb_sound; vm_compute; reflexivity|reflexivity].
Qed.
