(* Tactics for the kernel ties of family G (merge.go, DataBlockMetadata.OnDiskSize): see Proofs/KernelEquiv.v. *)
From BS Require Import Lib.Bytes Lib.Wrap64 Lib.GoPrim Generated.Kernels Generated.KernelTie Model.MinMax Model.Validate Model.MergePlan Proofs.KernelEquiv.
From Coq Require Import ZArith List Bool Lia.
Import ListNotations.
Local Open Scope Z_scope.

Ltac k_proj_G :=
  cbn [rdo rds bfo bfs Validate.b_rows Validate.b_usize b_comp b_hash b_has_hash b_cnt
       c_max_rows c_max_bytes c_max_file_size c_max_files
       b_id b_meta b_nrows MergePlan.b_usize b_disk b_fparam b_ents MergePlan.b_rows] in *.

Ltac k_open_G :=
  intros; autounfold with go_kernels go_ties in *;
  unfold within in *;
  k_destruct_tuples; k_beta; k_proj_G.
