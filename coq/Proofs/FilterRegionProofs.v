(* Family T — filter section codec, block decoding, region cursor (Model/FilterRegion.v). *)
From BS Require Import Lib.Bytes Lib.Wrap64 Model.Framing Model.Validate Model.FilterRegion Proofs.FramingProofs Proofs.ValidateProofs.
From Coq Require Import List ZArith NArith Bool Lia.
Import ListNotations.
Open Scope Z_scope.

Section CodecProofs.
  Variable crc : str -> N.
  Variable dec_ok : str -> bool.
  Hypothesis crc_range : forall s, (crc s < 4294967296)%N.

  Definition is_some {A} (o : option A) : bool := match o with Some _ => true | None => false end.

  (* a filter the codec can carry: fits the length prefix and is what the bloom decoder accepts *)
  Definition filter_ok (f : option str) : Prop :=
    match f with None => True | Some x => lenZ x < 4294967296 /\ dec_ok x = true end.

  Lemma take_filter_enc f rest : filter_ok f ->
    take_filter dec_ok (is_some f) (enc_filter f ++ rest) = Some (f, rest).
  Proof.
    destruct f as [x|]; cbn [is_some enc_filter filter_ok take_filter negb]; [|intros _; reflexivity].
    intros [Hl Hd]. unfold LengthPrefixSize.
    pose proof (lenZ_nonneg x). pose proof (lenZ_nonneg rest).
    rewrite <- app_assoc.
    replace (lenZ (le32 (lenZ x) ++ x ++ rest) <? 4) with false
      by (symmetry; apply Z.ltb_ge; rewrite lenZ_app, lenZ_le32, lenZ_app; lia).
    rewrite rd32_le32 by lia.
    rewrite (skipn_app_exact (le32 (lenZ x))) by reflexivity.
    replace (lenZ (x ++ rest) <? lenZ x) with false by (symmetry; apply Z.ltb_ge; rewrite lenZ_app; lia).
    rewrite to_nat_lenZ, firstn_app_exact, skipn_app_exact by reflexivity.
    now rewrite Hd.
  Qed.

  Local Opaque rd32 le32.
  Lemma take_filter_sound p rest f rest' : bytes_ok rest ->
    take_filter dec_ok p rest = Some (f, rest') ->
    rest = enc_filter f ++ rest' /\ p = is_some f /\ filter_ok f.
  Proof.
    intros Hb. unfold take_filter, LengthPrefixSize.
    destruct p; cbn [negb].
    2:{ intro H; inversion H; subst. cbn. auto. }
    destruct (Z.ltb_spec (lenZ rest) 4) as [L|G]; [discriminate|].
    destruct rest as [|a [|b [|c [|d t]]]]; try (repeat rewrite lenZ_cons in G; try rewrite lenZ_nil in G; lia).
    set (rest := a :: b :: c :: d :: t) in *.
    assert (Hsk : skipn 4 rest = t) by reflexivity. rewrite Hsk. clear Hsk.
    pose proof (rd32_range rest Hb) as Hn.
    destruct (Z.ltb_spec (lenZ t) (rd32 rest)) as [L2|G2]; [discriminate|].
    destruct (dec_ok (firstn (Z.to_nat (rd32 rest)) t)) eqn:Hd; [|discriminate].
    intro H; inversion H; subst f rest'. clear H.
    assert (Hnat : (Z.to_nat (rd32 rest) <= length t)%nat) by (unfold lenZ in G2; lia).
    assert (Hl : lenZ (firstn (Z.to_nat (rd32 rest)) t) = rd32 rest) by (rewrite lenZ_firstn by exact Hnat; lia).
    cbn [enc_filter is_some filter_ok]. repeat split; try lia; try exact Hd.
    rewrite Hl.
    inversion Hb as [|? ? Ha Q1]; inversion Q1 as [|? ? Hb' Q2]; inversion Q2 as [|? ? Hc Q3]; inversion Q3 as [|? ? Hd' _]; subst.
    subst rest. rewrite (le32_rd32 a b c d t Ha Hb' Hc Hd'). cbn [app]. do 4 f_equal.
    apply firstn_skipn_split.
  Qed.

  Local Transparent rd32 le32.

  Definition flags_of (fs : filters) : N :=
    let '(f1, f2, f3) := fs in (flag_of f1 1 + flag_of f2 2 + flag_of f3 4)%N.

  Lemma flags_bits f1 f2 f3 :
    (flags_of (f1, f2, f3) < 8)%N /\
    N.testbit (flags_of (f1, f2, f3)) 0 = is_some f1 /\
    N.testbit (flags_of (f1, f2, f3)) 1 = is_some f2 /\
    N.testbit (flags_of (f1, f2, f3)) 2 = is_some f3.
  Proof. destruct f1, f2, f3; cbn; repeat split; reflexivity. Qed.

  Definition filters_ok (fs : filters) : Prop :=
    let '(f1, f2, f3) := fs in filter_ok f1 /\ filter_ok f2 /\ filter_ok f3.

  Lemma filter_ok_fits f : filter_ok f -> filter_fits f = true.
  Proof. destruct f as [x|]; cbn; [intros [H _]; apply Z.leb_le; lia|reflexivity]. Qed.

  (* what is written is what is read *)
  Lemma parse_encode fs : filters_ok fs ->
    exists s, encode_section crc fs = Some s /\ parse_section crc dec_ok s = Some fs.
  Proof.
    destruct fs as [[f1 f2] f3]. intros (H1 & H2 & H3).
    unfold encode_section. rewrite !filter_ok_fits by assumption. cbn [andb].
    eexists. split; [reflexivity|].
    set (p := section_payload (f1, f2, f3)).
    unfold parse_section, HashSize.
    assert (Hp : 1 <= lenZ p) by (subst p; cbn [section_payload]; rewrite lenZ_cons; pose proof (lenZ_nonneg (enc_filter f1 ++ enc_filter f2 ++ enc_filter f3)); lia).
    rewrite lenZ_app, lenZ_le32.
    replace (lenZ p + 4 <? 4 + 1) with false by (symmetry; apply Z.ltb_ge; lia).
    replace (lenZ p + 4 - 4) with (lenZ p) by lia.
    rewrite to_nat_lenZ, firstn_app_exact, skipn_app_exact by reflexivity.
    rewrite <- (app_nil_r (le32 _)), rd32_le32 by (pose proof (crc_range p); lia).
    rewrite Z.eqb_refl. cbn [negb].
    subst p. cbn [section_payload]. fold (flags_of (f1, f2, f3)).
    destruct (flags_bits f1 f2 f3) as (Hlt & B0 & B1 & B2).
    replace (8 <=? flags_of (f1, f2, f3))%N with false by (symmetry; apply N.leb_gt; exact Hlt).
    rewrite B0, B1, B2.
    rewrite take_filter_enc by assumption.
    rewrite take_filter_enc by assumption.
    rewrite <- (app_nil_r (enc_filter f3)), take_filter_enc by assumption.
    reflexivity.
  Qed.

  Lemma flags_of_bits (flags : N) f1 f2 f3 : (flags < 8)%N ->
    N.testbit flags 0 = is_some f1 -> N.testbit flags 1 = is_some f2 -> N.testbit flags 2 = is_some f3 ->
    flags = flags_of (f1, f2, f3).
  Proof.
    intros Hlt. assert (C : (flags = 0 \/ flags = 1 \/ flags = 2 \/ flags = 3 \/ flags = 4 \/ flags = 5 \/ flags = 6 \/ flags = 7)%N) by lia.
    destruct C as [->|[->|[->|[->|[->|[->|[->| ->]]]]]]]; destruct f1, f2, f3; cbn; intros; try reflexivity; discriminate.
  Qed.

  (* C19: a section the parser accepts is exactly the canonical encoding of what it returns,
     checksum included: no slack bytes, no out-of-range length, nothing read beyond the section *)
  Lemma parse_section_sound s fs : bytes_ok s ->
    parse_section crc dec_ok s = Some fs -> encode_section crc fs = Some s /\ filters_ok fs.
  Proof.
    intros Hb. unfold parse_section, HashSize.
    destruct (Z.ltb_spec (lenZ s) (4 + 1)) as [L|G]; [discriminate|].
    set (n := Z.to_nat (lenZ s - 4)).
    assert (Hn : (n <= length s)%nat) by (unfold lenZ in *; lia).
    assert (Hs : s = firstn n s ++ skipn n s) by apply firstn_skipn_split.
    assert (Hb1 : bytes_ok (firstn n s)).
    { unfold bytes_ok in *. rewrite Forall_forall in *. intros x Hx. apply Hb. rewrite Hs. apply in_or_app. now left. }
    assert (Hb2 : bytes_ok (skipn n s)) by now apply bytes_ok_skipn.
    destruct (Z.eqb_spec (Z.of_N (crc (firstn n s))) (rd32 (skipn n s))) as [E|NE]; [|discriminate]. cbn [negb].
    destruct (firstn n s) as [|flags rest] eqn:Ep; [discriminate|].
    destruct (N.leb_spec 8 flags) as [L8|G8]; [discriminate|].
    assert (Hbr : bytes_ok rest) by (inversion Hb1; assumption).
    destruct (take_filter dec_ok (N.testbit flags 0) rest) as [[f1 r1]|] eqn:T1; [|discriminate].
    destruct (take_filter_sound _ _ _ _ Hbr T1) as (E1 & P1 & O1).
    assert (Hb_r1 : bytes_ok r1).
    { unfold bytes_ok in *. rewrite Forall_forall in *. intros x Hx. apply Hbr. rewrite E1. apply in_or_app. now right. }
    destruct (take_filter dec_ok (N.testbit flags 1) r1) as [[f2 r2]|] eqn:T2; [|discriminate].
    destruct (take_filter_sound _ _ _ _ Hb_r1 T2) as (E2 & P2 & O2).
    assert (Hb_r2 : bytes_ok r2).
    { unfold bytes_ok in *. rewrite Forall_forall in *. intros x Hx. apply Hb_r1. rewrite E2. apply in_or_app. now right. }
    destruct (take_filter dec_ok (N.testbit flags 2) r2) as [[f3 r3]|] eqn:T3; [|discriminate].
    destruct (take_filter_sound _ _ _ _ Hb_r2 T3) as (E3 & P3 & O3).
    destruct r3; [|discriminate].
    intro H; inversion H; subst fs. clear H.
    split; [|cbn; auto].
    unfold encode_section. rewrite !filter_ok_fits by assumption. cbn [andb]. f_equal.
    assert (Hpay : section_payload (f1, f2, f3) = flags :: rest).
    { cbn [section_payload]. fold (flags_of (f1, f2, f3)).
      rewrite <- (flags_of_bits flags f1 f2 f3 G8 P1 P2 P3). f_equal.
      rewrite E1, E2, E3, app_nil_r. reflexivity. }
    rewrite Hpay. transitivity ((flags :: rest) ++ skipn n s); [|symmetry; exact Hs]. f_equal.
    (* the trailing four bytes are the encoding of the checksum *)
    assert (Hl4 : length (skipn n s) = 4%nat) by (rewrite skipn_length; unfold lenZ in *; lia).
    destruct (skipn n s) as [|a [|b [|c [|d [|e t]]]]] eqn:Et; cbn in Hl4; try lia.
    rewrite E.
    inversion Hb2 as [|? ? Ha Q1]; inversion Q1 as [|? ? Hb' Q2]; inversion Q2 as [|? ? Hc Q3]; inversion Q3 as [|? ? Hd _]; subst.
    apply le32_rd32; assumption.
  Qed.

  (* C19: the checksum is verified before anything in the section is interpreted *)
  Lemma parse_section_crc_gate s fs : parse_section crc dec_ok s = Some fs ->
    Z.of_N (crc (firstn (Z.to_nat (lenZ s - 4)) s)) = rd32 (skipn (Z.to_nat (lenZ s - 4)) s).
  Proof.
    unfold parse_section, HashSize.
    destruct (lenZ s <? 4 + 1); [discriminate|].
    destruct (Z.eqb_spec (Z.of_N (crc (firstn (Z.to_nat (lenZ s - 4)) s))) (rd32 (skipn (Z.to_nat (lenZ s - 4)) s))); [auto|discriminate].
  Qed.

End CodecProofs.

Section Decode.
  Variable crc : str -> N.
  Variable decompress : comp -> str -> option str.

  (* C19: CRC and size-bounded decompression before any row can be scanned *)
  Lemma decode_block_crc_gate b c d : b_has_hash b = true ->
    decode_block crc decompress b c = Some d -> crc c = b_hash b.
  Proof.
    intros Hh. unfold decode_block. rewrite Hh. cbn [andb].
    destruct (N.eqb_spec (crc c) (b_hash b)); [auto|discriminate].
  Qed.

  Lemma decode_block_size b c d : b_comp b <> CNone ->
    decode_block crc decompress b c = Some d -> lenZ d = b_usize b /\ 0 <= b_usize b.
  Proof.
    intros Hc. unfold decode_block.
    destruct (b_has_hash b && negb (crc c =? b_hash b)%N); [discriminate|].
    destruct (b_comp b) eqn:Ec; try congruence; try discriminate.
    all: destruct (Z.ltb_spec (b_usize b) 0); [discriminate|];
         destruct (decompress _ c) as [x|]; [|discriminate];
         destruct (Z.eqb_spec (lenZ x) (b_usize b)); [|discriminate];
         intro Q; inversion Q; subst; lia.
  Qed.

  (* the bytes decoded are a function of the compressed bytes and the metadata only *)
  Lemma decode_block_same b c c' d : c = c' -> decode_block crc decompress b c' = Some d -> decode_block crc decompress b c = Some d.
  Proof. intros ->. auto. Qed.

  (* C19: with the metadata held elsewhere (MetaStore), whatever the file's bytes have become, a block
     read either fails or returns exactly the rows it returned before -- provided the new bytes at
     the block's extent are not a CRC collision of the old ones *)
  Lemma read_rows_exact_or_error file file' b rows rows' :
    b_has_hash b = true ->
    read_rows crc decompress file b = Some rows -> read_rows crc decompress file' b = Some rows' ->
    (forall c c', read_at file (rdo b) (rds b) = Some c -> read_at file' (rdo b) (rds b) = Some c' ->
                  crc c' = crc c -> c' = c) ->
    rows' = rows.
  Proof.
    intros Hh H1 H2 Hcol. unfold read_rows, read_block in *.
    destruct ((rdo b <? 0) || (rds b <? 0)); [discriminate|].
    destruct (read_at file (rdo b) (rds b)) as [c|] eqn:R1; [|discriminate].
    destruct (read_at file' (rdo b) (rds b)) as [c'|] eqn:R2; [|discriminate].
    destruct (decode_block crc decompress b c) as [d|] eqn:D1; [|discriminate].
    destruct (decode_block crc decompress b c') as [d'|] eqn:D2; [|discriminate].
    pose proof (decode_block_crc_gate b c d Hh D1) as G1.
    pose proof (decode_block_crc_gate b c' d' Hh D2) as G2.
    assert (c' = c) by (apply Hcol; auto; congruence). subst c'.
    rewrite D1 in D2. inversion D2; subst d'.
    destruct (scan d) as [rs ok]. destruct ok; [|discriminate]. congruence.
  Qed.
End Decode.


(* ---- the chunked region reader ---- *)
Definition chunk_ok (rs re : Z) (c : option chunk) : Prop :=
  match c with
  | None => True
  | Some ck => rs <= ck_start ck /\ 0 < ck_len ck /\ ck_start ck + ck_len ck <= re
  end.

Ltac i64u := unfold i64, Min64, Max64 in *.

(* heldSection hands out a slice only when the chunk covers the section, and then the slice
   sits at the section's recorded file offset *)
Lemma held_sound rs re c b off sz :
  0 <= rs -> i64 re -> chunk_ok rs re c -> i64 (bfo b) -> i64 (bfs b) -> 0 <= bfo b -> 0 <= bfs b ->
  held c b = Some (off, sz) ->
  exists ck, c = Some ck /\ sz = bfs b /\ 0 <= off /\ ck_start ck + off = bfo b /\ off + sz <= ck_len ck.
Proof.
  intros Hrs Ire Hc Io Is Ho Hs. unfold held. destruct c as [ck|]; [|discriminate].
  destruct Hc as (H1 & H2 & H3).
  rewrite (sub64_small (bfo b) (ck_start ck)) by (i64u; lia).
  destruct (Z.ltb_spec (bfo b - ck_start ck) 0); cbn [orb]; [discriminate|].
  destruct (Z.gtb_spec (bfo b - ck_start ck) (ck_len ck)); cbn [orb]; [discriminate|].
  rewrite sub64_small by (i64u; lia).
  destruct (Z.gtb_spec (bfs b) (ck_len ck - (bfo b - ck_start ck))); [discriminate|].
  intro Q; inversion Q; subst. exists ck. repeat split; lia.
Qed.

Lemma held_complete rs re ck b :
  0 <= rs -> i64 re -> chunk_ok rs re (Some ck) -> i64 (bfo b) -> i64 (bfs b) -> 0 <= bfs b ->
  ck_start ck <= bfo b -> bfo b + bfs b <= ck_start ck + ck_len ck ->
  held (Some ck) b = Some (bfo b - ck_start ck, bfs b).
Proof.
  intros Hrs Ire (H1 & H2 & H3) Io Is Hs Hlo Hhi. unfold held.
  rewrite (sub64_small (bfo b) (ck_start ck)) by (i64u; lia).
  destruct (Z.ltb_spec (bfo b - ck_start ck) 0); cbn [orb]; [lia|].
  destruct (Z.gtb_spec (bfo b - ck_start ck) (ck_len ck)); cbn [orb]; [lia|].
  rewrite sub64_small by (i64u; lia).
  destruct (Z.gtb_spec (bfs b) (ck_len ck - (bfo b - ck_start ck))); [lia|reflexivity].
Qed.

Lemma grow_bounds rest : forall rs re target start e0,
  0 <= rs -> i64 re -> Forall block_i64 rest -> rs <= start -> start <= e0 -> e0 <= re -> 0 <= target ->
  e0 <= grow rest rs re target start e0 /\ grow rest rs re target start e0 <= re /\
  grow rest rs re target start e0 - start <= Z.max (e0 - start) target.
Proof.
  induction rest as [|nb t IH]; intros rs re target start e0 Hrs Ire Hb Hs He0 Hre Ht; cbn [grow]; [lia|].
  inversion Hb as [|? ? (Io & Is & Ifo & Ifs) Hbt]; subst.
  destruct (Z.eqb_spec (bfs nb) 0); [apply IH; auto|].
  destruct (validate_fs nb rs re) eqn:V; cbn [negb]; [|lia].
  apply (validate_fs_spec nb rs re) in V; try (i64u; lia); auto.
  destruct V as (Hsz & [Hz|[Hlo Hhi]]); [lia|].
  rewrite (add64_small (bfo nb) (bfs nb)) by (i64u; lia).
  destruct (Z.ltb_spec (bfo nb) start); cbn [orb]; [lia|].
  rewrite sub64_small by (i64u; lia).
  destruct (Z.gtb_spec (bfo nb + bfs nb - start) target); [lia|].
  destruct (Z.gtb_spec (bfo nb + bfs nb) e0).
  - specialize (IH rs re target start (bfo nb + bfs nb) Hrs Ire Hbt Hs ltac:(lia) ltac:(lia) Ht). lia.
  - specialize (IH rs re target start e0 Hrs Ire Hbt Hs He0 Hre Ht). lia.
Qed.

(* what a good filtersFor outcome looks like for block b *)
Definition step_good (rs re target : Z) (b : blockJ) (st : fstep) : Prop :=
  chunk_ok rs re (fs_chunk st) /\
  match fs_read st with
  | None => True
  | Some (o, n) => rs <= o /\ 0 < n /\ o + n <= re /\ n <= Z.max (bfs b) target
  end /\
  (0 < bfs b -> fs_kind st = KSection /\
     exists ck off, fs_chunk st = Some ck /\ fs_held st = Some (off, bfs b) /\
                    0 <= off /\ ck_start ck + off = bfo b /\ off + bfs b <= ck_len ck) /\
  (bfs b = 0 -> fs_kind st = KEmpty /\ fs_read st = None).

Lemma Forall_skipn {A} (P : A -> Prop) l n : Forall P l -> Forall P (skipn n l).
Proof.
  rewrite !Forall_forall. intros H x Hx. apply H. rewrite (firstn_skipn_split l n). apply in_or_app. now right.
Qed.

(* C19: with validated metadata and a file that holds the region, every filtersFor call reads
   only inside the region, at most max(section, cap) bytes, and serves the block from the bytes
   at its recorded offset *)
Lemma filters_for_good blocks rs re target fsize c i b :
  0 <= rs -> rs <= re -> i64 re -> re <= fsize -> 0 <= target ->
  Forall block_i64 blocks -> Forall (section_in rs re) blocks ->
  chunk_ok rs re c -> nth_error blocks i = Some b ->
  step_good rs re target b (filters_for blocks rs re target fsize c i).
Proof.
  intros Hrs Hre Ire Hf Ht Hi Hin Hc Hnth.
  assert (Hbi : block_i64 b) by (rewrite Forall_forall in Hi; apply Hi; eapply nth_error_In; eauto).
  assert (Hbin : section_in rs re b) by (rewrite Forall_forall in Hin; apply Hin; eapply nth_error_In; eauto).
  destruct Hbi as (_ & _ & Ifo & Ifs). destruct Hbin as (Hsz & Hloc).
  unfold filters_for. rewrite Hnth.
  assert (V : validate_fs b rs re = true) by (apply validate_fs_spec; try (i64u; lia); auto; split; auto).
  rewrite V. cbn [negb].
  destruct (Z.eqb_spec (bfs b) 0) as [E0|N0].
  { unfold step_good. cbn. repeat split; auto; lia. }
  destruct Hloc as [Hz|[Hlo Hhi]]; [lia|].
  destruct (held c b) as [[off sz]|] eqn:Hh.
  - destruct (held_sound rs re c b off sz Hrs Ire Hc Ifo Ifs ltac:(lia) Hsz Hh) as (ck & Ec & Esz & Hoff & Habs & Hfit).
    subst sz. unfold step_good. cbn. split; [exact Hc|]. split; [exact I|]. split; [|intro; lia].
    intros _. split; [reflexivity|]. exists ck, off. repeat split; auto.
  - unfold read_chunk_from. rewrite Hnth.
    rewrite (add64_small (bfo b) (bfs b)) by (i64u; lia).
    pose proof (grow_bounds (skipn (S i) blocks) rs re target (bfo b) (bfo b + bfs b) Hrs Ire
                  (Forall_skipn _ _ _ Hi) Hlo ltac:(lia) Hhi Ht) as (G1 & G2 & G3).
    set (e := grow (skipn (S i) blocks) rs re target (bfo b) (bfo b + bfs b)) in *.
    rewrite sub64_small by (i64u; lia).
    destruct (Z.leb_spec (e - bfo b) 0) as [L|G]; [lia|].
    replace ((bfo b <? 0) || (0 <? e - bfo b) && (fsize <? bfo b + (e - bfo b))) with false
      by (symmetry; apply orb_false_iff; split; [apply Z.ltb_ge; lia|apply andb_false_iff; right; apply Z.ltb_ge; lia]).
    set (ck := {| ck_start := bfo b; ck_len := e - bfo b |}).
    assert (Hck : chunk_ok rs re (Some ck)) by (unfold chunk_ok, ck; cbn [ck_start ck_len]; lia).
    rewrite (held_complete rs re ck b Hrs Ire Hck Ifo Ifs Hsz) by (unfold ck; cbn [ck_start ck_len]; lia).
    unfold step_good. cbn [fs_chunk fs_read fs_kind fs_held]. split; [exact Hck|]. split; [lia|]. split; [|intro; lia].
    intros _. split; [reflexivity|]. exists ck, (bfo b - bfo b). unfold ck; cbn [ck_start ck_len]. repeat split; try lia; auto.
Qed.

(* the same for a whole pass, from no chunk in hand, for any order of in-range indexes *)
Lemma cursor_pass_good blocks rs re target fsize : forall order c,
  0 <= rs -> rs <= re -> i64 re -> re <= fsize -> 0 <= target ->
  Forall block_i64 blocks -> Forall (section_in rs re) blocks ->
  chunk_ok rs re c -> Forall (fun i => (i < length blocks)%nat) order ->
  Forall2 (fun i st => exists b, nth_error blocks i = Some b /\ step_good rs re target b st)
          order (cursor_pass blocks rs re target fsize c order).
Proof.
  induction order as [|i t IH]; intros c Hrs Hre Ire Hf Ht Hi Hin Hc Ho; cbn [cursor_pass]; [constructor|].
  inversion Ho as [|? ? Hlt Hot]; subst.
  destruct (nth_error blocks i) as [b|] eqn:Hnth; [|apply nth_error_None in Hnth; lia].
  pose proof (filters_for_good blocks rs re target fsize c i b Hrs Hre Ire Hf Ht Hi Hin Hc Hnth) as G.
  assert (K : fs_kind (filters_for blocks rs re target fsize c i) <> KReadFail).
  { destruct G as (_ & _ & G1 & G2). destruct (Z.eq_dec (bfs b) 0) as [E|NE].
    - destruct (G2 E) as [-> _]. discriminate.
    - assert (Hsz : 0 <= bfs b) by (rewrite Forall_forall in Hin; destruct (Hin b (nth_error_In _ _ Hnth)); lia).
      destruct (G1 ltac:(lia)) as [-> _]. discriminate. }
  destruct (fs_kind (filters_for blocks rs re target fsize c i)) eqn:Ek; try congruence.
  all: constructor; [exists b; split; [exact Hnth|exact G]|apply IH; auto; apply G].
Qed.

(* Known finding (C19): a filter section certifies itself and nothing in the block metadata binds
   it to its block.  With the metadata of block b held fixed, swapping two equally long valid
   sections in the file makes read_filters return the other block's filters, without an error and
   without any checksum collision (the two sections even carry different checksums). *)
From BS Require Import Lib.Crc32c.

Lemma filter_section_unbound :
  exists (file file' : str) (b : blockJ) (fs fs' : filters),
    lenZ file' = lenZ file /\
    read_filters crc32c (fun _ => true) file b = Some fs /\
    read_filters crc32c (fun _ => true) file' b = Some fs' /\ fs' <> fs.
Proof.
  set (f1 := (Some [1%N; 2%N], None, None) : filters).
  set (f2 := (Some [3%N; 4%N], None, None) : filters).
  set (s1 := match encode_section crc32c f1 with Some s => s | None => [] end).
  set (s2 := match encode_section crc32c f2 with Some s => s | None => [] end).
  exists (s1 ++ s2), (s2 ++ s1),
    {| rdo := 0; rds := 0; bfo := 0; bfs := lenZ s1; b_rows := 0; b_usize := 0; b_comp := CNone;
       b_hash := 0%N; b_has_hash := false; b_cnt := (0%Z, 0%Z, 0%Z) |}, f1, f2.
  split; [vm_compute; reflexivity|]. split; [vm_compute; reflexivity|]. split; [vm_compute; reflexivity|].
  subst f1 f2. intro H. inversion H.
Qed.
