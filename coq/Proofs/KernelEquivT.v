(* Tactics for the kernel ties of family T (file_format.go): see Proofs/KernelEquiv.v. *)
From BS Require Import Lib.Bytes Lib.Wrap64 Lib.GoPrim Generated.Kernels Generated.KernelTie Model.Validate Proofs.KernelEquiv.
From Coq Require Import ZArith List Bool Lia.
Import ListNotations.
Local Open Scope Z_scope.

Ltac k_proj_T :=
  cbn [rdo rds bfo bfs b_rows b_usize b_comp b_hash b_has_hash b_cnt m_roff m_rsize m_ffs m_cnt m_blocks] in *.

Ltac k_open_T :=
  intros; autounfold with go_kernels go_ties in *;
  unfold validate_fs, validate, validate_block, plan_reads in *;
  k_destruct_tuples; k_beta; k_proj_T.

Ltac k_step_T :=
  autounfold with go_kernels go_ties in *; unfold validate_fs, validate_block in *; k_destruct_tuples; k_beta; k_proj_T.
