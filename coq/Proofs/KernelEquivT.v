(* Kernel ties of family T (file_format.go): see Proofs/KernelEquiv.v. *)
From BS Require Import Lib.Bytes Lib.Wrap64 Lib.GoPrim Generated.Kernels Generated.KernelTie Model.Validate Proofs.KernelEquiv.
From Coq Require Import ZArith List Bool Lia.
Import ListNotations.
Local Open Scope Z_scope.

Ltac k_proj_T :=
  cbn [rdo rds bfo bfs b_rows b_usize b_comp b_hash b_has_hash b_cnt m_roff m_rsize m_ffs m_cnt m_blocks] in *.

Ltac k_open_T :=
  intros; autounfold with go_kernels go_ties in *;
  unfold validate_fs, validate, validate_block, plan_reads in *;
  k_destruct_tuples; k_beta; k_proj_T.

Ltac k_step_T :=
  autounfold with go_kernels go_ties in *; unfold validate_fs, validate_block in *; k_destruct_tuples; k_beta; k_proj_T.

Lemma k_validate_fs_tie : tie_validate_fs.
Proof. unfold tie_validate_fs. first [exact I | k_open_T; k_arith]. Qed.

Lemma k_validate_tie : tie_validate.
Proof. unfold tie_validate. first [exact I | k_open_T; k_auto k_step_T]. Qed.

Lemma k_plan_reads_tie : tie_plan_reads.
Proof.
  unfold tie_plan_reads.
  first [exact I |
    k_open_T;
    k_loop_spec (fun (mb : list blockJ) (hs : bool) =>
                   if forallb (fun b => validate_fs b regionOffset (add64 regionOffset regionSize)) mb
                   then @LDone bool (option (Z * Z * bool)) (hs || existsb (fun b => bfs b >? 0) mb)
                   else LReturn None) k_step_T;
    k_step_T; k_auto k_step_T].
Qed.
