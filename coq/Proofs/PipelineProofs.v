(* Family P proofs, part 4: the lemmas Properties/C05..C10.v are closed with, and the
   witnesses refuting the statements on the pinned tree (defects D5, D6, D9). *)
From BS Require Import Model.Pipeline Proofs.PipelineBase Proofs.PipelineTruth Proofs.PipelineBounds.
From Coq Require Import List ZArith Bool Arith Lia Permutation.
Import ListNotations.
Open Scope Z_scope.

Lemma run_steps c s ls s' : run c s ls = Some s' -> steps c s ls s'.
Proof.
  revert s. induction ls as [|l t IH]; cbn; intros s H.
  - inversion H; constructor.
  - destruct (step c s l) eqn:E; [|discriminate]. econstructor; eauto.
Qed.
Lemma steps_reachable c s ls s' : reachable c s -> steps c s ls s' -> reachable c s'.
Proof. intros R H. induction H; auto. apply IHsteps. eapply reach_step; eauto. Qed.
Lemma run_reachable c ls s : run c init ls = Some s -> reachable c s.
Proof. intro H. eapply steps_reachable; [apply reach_init|apply run_steps; eauto]. Qed.

(* ------------------------------------------------------------------ C05 *)
Lemma answers_count fin r : NoDup (map fst fin) ->
  forall f, In (r, f) fin ->
  length (filter (fun '(q, g) => Nat.eqb q r && is_answer g) fin) = if is_answer f then 1%nat else 0%nat.
Proof.
  induction fin as [|[q g] t IH]; cbn [map fst filter]; [intros _ f []|].
  intros ND f Hin. inversion ND as [|? ? Hq NDt]; subst.
  assert (Hnone : forall l, ~ In r (map fst l) -> filter (fun '(q0, g0) => Nat.eqb q0 r && is_answer g0) l = []).
  { induction l as [|[a b] l' IHl]; cbn; auto. intro Hn. destruct (Nat.eqb a r) eqn:E; cbn.
    - apply Nat.eqb_eq in E; subst. tauto.
    - apply IHl. tauto. }
  destruct Hin as [E|Hin].
  - inversion E; subst. rewrite Nat.eqb_refl. cbn. rewrite (Hnone t Hq). destruct (is_answer f); reflexivity.
  - destruct (Nat.eqb q r) eqn:E; cbn.
    + apply Nat.eqb_eq in E; subst. exfalso. apply Hq. change r with (fst (r, f)). now apply in_map.
    + eauto.
Qed.

Lemma answers_zero fin r : ~ In r (map fst fin) ->
  length (filter (fun '(q, g) => Nat.eqb q r && is_answer g) fin) = 0%nat.
Proof.
  induction fin as [|[a b] l' IHl]; cbn; auto. intro Hn. destruct (Nat.eqb a r) eqn:E; cbn.
  - apply Nat.eqb_eq in E; subst. tauto.
  - apply IHl. tauto.
Qed.

Lemma fin_nodup c s : reachable c s -> NoDup (map fst (finished s)).
Proof. intro R. eapply NoDup_app_r. apply (inv1_places _ _ R). Qed.

Lemma at_most_once c s : reachable c s -> forall r, (answers s r <= 1)%nat.
Proof.
  intros R r. unfold answers. pose proof (fin_nodup _ _ R) as ND.
  destruct (in_dec Nat.eq_dec r (map fst (finished s))) as [Hin|Hout].
  - apply in_map_iff in Hin as ((q & f) & E & Hin). cbn in E; subst.
    rewrite (answers_count _ _ ND f Hin). destruct (is_answer f); lia.
  - rewrite answers_zero; auto.
Qed.

(* Stop returned nil: both workers exited (they existed, fix D6) and nothing was given up (fix D9) *)
Lemma graceful_drained c s : c_fixD6 c = true -> reachable c s ->
  spc s = SBr RNil \/ spc s = SReturned RNil -> pipeline s = [].
Proof.
  intros F6 R Hs. destruct (reachable_inv2 _ _ R) as [L1 L2 L3 L4 L5 L6 L7 L8 L9 LS L10 L11 L12 L13].
  destruct (L9 Hs) as [[Ea Ew]|Hn].
  - destruct (L8 Ew) as [Hm Hf]. specialize (L6 Ea). destruct (L5 L6) as (Hi & Hb & _).
    unfold pipeline, wk_part, a_pre, a_post. rewrite Ea, Ew, Hf, Hi, Hb. reflexivity.
  - exfalso. destruct L3 as [[E|E]|E].
    + destruct Hs; congruence.
    + destruct Hs; congruence.
    + rewrite (L10 F6 E) in Hn. discriminate.
Qed.

Lemma graceful c s : c_fixD6 c = true -> c_fixD9 c = true -> reachable c s -> stop_returned s = Some RNil ->
  forall r, In r (accepted s) -> chan_of s r <> Some ChNil -> answers s r = 1%nat.
Proof.
  intros F6 F9 R Hs r Hacc Hch. unfold stop_returned in Hs. destruct (spc s) eqn:Es; try discriminate. inversion Hs; subst.
  pose proof (graceful_drained _ _ F6 R (or_intror Es)) as Hp.
  destruct (reachable_inv1 _ _ R) as [_ _ _ P _]. rewrite Hp in P. cbn in P.
  pose proof (Permutation_in _ P Hacc) as Hin. apply in_map_iff in Hin as ((q & f) & E & Hin). cbn in E; subst.
  unfold answers. rewrite (answers_count _ _ (fin_nodup _ _ R) f Hin).
  pose proof (reachable_fates _ _ R _ _ Hin) as Hf.
  destruct (l_d9 _ _ (reachable_inv2 _ _ R) F9 Es) as [Hfc _].
  destruct f; cbn in *; auto.
  - destruct Hf. congruence.
  - contradiction.
Qed.

(* ------------------------------------------------------------------ C06 *)
Lemma ack_in s r x : ack s r = Some x -> In (r, FAnswered x) (finished s).
Proof.
  unfold ack. destruct (assoc r (finished s)) as [[y|y|y]|] eqn:E; try discriminate.
  intro H; inversion H; subst. now apply assoc_In.
Qed.

Lemma nil_durable c s r : reachable c s -> ack s r = Some RNil -> is_rows s r = true ->
  count_occ Nat.eq_dec (visible s) r = 1%nat /\ exists ws, In (ws, true) (commits s) /\ In r ws.
Proof.
  intros R Ha Hr. apply ack_in in Ha. destruct (reachable_invv _ _ R) as [V1 V2 V3 V4 V5 V6].
  pose proof (V4 _ Ha Hr) as Hv. split; auto.
  apply NoDup_count_occ' with (decA := Nat.eq_dec); auto.
Qed.

Lemma finished_persist c s ls s' x : steps c s ls s' -> In x (finished s) -> In x (finished s').
Proof.
  induction 1; auto. intro Hin. apply IHsteps.
  destruct (step_mono _ _ _ _ H) as (_ & _ & _ & [f' E] & _). rewrite E, in_app_iff. auto.
Qed.

Lemma err_absent c s r : reachable c s -> ack s r = Some RErr ->
  forall ls s', steps c s ls s' -> ~ In r (visible s').
Proof.
  intros R Ha ls s' Hs. apply ack_in in Ha.
  pose proof (steps_reachable _ _ _ _ R Hs) as R'.
  eapply (v_err _ (reachable_invv _ _ R')); [eapply finished_persist; eauto|reflexivity].
Qed.

Lemma invalid_no_trace c s s' : step c s LActorReject = Some s' ->
  buf s' = buf s /\ fch s' = fch s /\ visible s' = visible s /\
  exists r, apc s = AHold r /\ apc s' = AAckNow r RErr.
Proof. intro H. cbn [step] in H. step_inv H; sproj. repeat split; eauto. Qed.

Lemma commits_closed c s ws b : reachable c s -> In (ws, b) (commits s) -> b = true.
Proof. intros R. apply (w_commits _ (reachable_invw _ _ R)). Qed.

(* ------------------------------------------------------------------ C07 *)
Definition before (l : list nat) (a r : nat) : Prop := exists l1 l2 l3, l = l1 ++ a :: l2 ++ r :: l3.

(* the request at the head of the in-flight list: everything accepted before it is finished *)
Lemma head_first c s r t a : reachable c s -> pipeline s = r :: t -> before (accepted s) a r ->
  In a (map fst (finished s)).
Proof.
  intros R Hp (l1 & l2 & l3 & E). destruct (reachable_inv1 _ _ R) as [_ ND _ P S].
  apply NoDup_app_r in ND. rewrite Hp in S. rewrite E in S, ND.
  pose proof (subseq_head_first _ _ _ _ _ _ ND S) as Hn.
  assert (Ha : In a (accepted s)) by (rewrite E, in_app_iff; right; now left).
  apply (Permutation_in _ P) in Ha. rewrite Hp in Ha. apply in_app_iff in Ha as [Ha|Ha]; tauto.
Qed.

Lemma answered_or_nilchan c s a : reachable c s -> fcanc s = false -> In a (map fst (finished s)) ->
  answers s a = 1%nat \/ chan_of s a = Some ChNil.
Proof.
  intros R Hf Hin. apply in_map_iff in Hin as ((q & f) & E & Hin). cbn in E; subst.
  pose proof (reachable_fates _ _ R _ _ Hin) as Hok. unfold answers.
  rewrite (answers_count _ _ (fin_nodup _ _ R) f Hin). destruct f; cbn in *; auto.
  destruct Hok; congruence.
Qed.

Lemma order c s x r t : reachable c s -> wpc s = WAck x (r :: t) ->
  forall a, before (accepted s) a r ->
    In a (map fst (finished s)) /\
    (fcanc s = false -> answers s a = 1%nat \/ chan_of s a = Some ChNil) /\
    (ack s a = Some RNil -> is_rows s a = true -> In a (visible s)).
Proof.
  intros R Hw a Hb.
  assert (Hp : pipeline s = r :: (t ++ concat (map fw (fch s)) ++ a_pre s ++ b_w (buf s) ++ a_post s ++ ich s)).
  { unfold pipeline, wk_part. rewrite Hw. reflexivity. }
  pose proof (head_first _ _ _ _ _ R Hp Hb) as Hin. split; auto. split.
  - intro Hf. now apply answered_or_nilchan with (c := c).
  - intros Ha Hr. apply ack_in in Ha. eapply (v_nil _ (reachable_invv _ _ R)); eauto.
Qed.

(* a nil that carries a durability claim is only ever sent by the flush worker *)
Lemma actor_nil_is_empty c s r : reachable c s -> apc s = AAckNow r RNil -> exists v, kind_of s r = Some (KBatch v []).
Proof. intros R. apply (k_acknow _ (reachable_invk _ _ R)). Qed.

(* ------------------------------------------------------------------ C08 *)
Lemma refuse c s : stopped s = true ->
  (forall r k ch, step c s (LTry r k ch) = None) /\ step c s LRefuse = Some s.
Proof. intro H. cbn [step]. rewrite H. cbn. auto. Qed.

Lemma stopped_persists c s ls s' : steps c s ls s' -> stopped s = true -> stopped s' = true.
Proof. induction 1; auto. intro Hs. apply IHsteps. destruct (step_mono _ _ _ _ H) as (_ & _ & M & _). auto. Qed.

Lemma no_accept_after_stop c s r : reachable c s -> stopped s = true -> step c s (LSent r) = None.
Proof.
  intros R Hs. cbn [step]. rewrite (l_pend _ _ (reachable_inv2 _ _ R) Hs). reflexivity.
Qed.

Lemma deadline_returns c s : c_fixD5 c = true -> spc s = SWait -> sdone s = true ->
  exists s1, step c s (LStopBr RErr) = Some s1 /\
  exists s2, step c s1 LFlushCancel = Some s2 /\
  exists s3, step c s2 (LStopReturn RErr) = Some s3 /\ stop_returned s3 = Some RErr.
Proof.
  intros F5 Hs Hd. cbn [step]. rewrite Hs, Hd. eexists; split; [reflexivity|].
  cbn [step]. sproj. eexists; split; [rewrite F5, orb_true_r; reflexivity|].
  cbn [step]. sproj. eexists; split; [rewrite F5; reflexivity|reflexivity].
Qed.

Lemma quiet_after_deadline c s : c_fixD5 c = true -> reachable c s -> stop_returned s = Some RErr ->
  (fcanc s = true \/ wpc s = WExited \/ started s = false) /\
  (forall s1, step c s LWorkerTake = Some s1 -> step c s1 LFlBegin = None /\ step c s1 LFlAckOnly = None).
Proof.
  intros F5 R Hs. unfold stop_returned in Hs. destruct (spc s) eqn:Es; try discriminate. inversion Hs; subst.
  pose proof (l_d5 _ _ (reachable_inv2 _ _ R) F5 Es) as Hq. split; auto.
  intros s1 H. cbn [step] in H. step_inv H. sproj.
  destruct Hq as [Hf|[Hw|Hn]].
  - rewrite Hf. cbn. destruct (fparts f); auto.
  - congruence.
  - destruct (i_idle _ (reachable_inv1 _ _ R) Hn). congruence.
Qed.

(* a waiter whose channel has buffer space is never given up, and nothing is given up before the
   flush context is cancelled *)
Lemma no_silence c s r x : reachable c s -> In (r, FGivenUp x) (finished s) ->
  fcanc s = true /\ chan_of s r <> Some ChBuf /\ chan_of s r <> Some ChNil.
Proof.
  intros R Hin. destruct (reachable_fates _ _ R _ _ Hin) as [Hf Hc]. split; auto.
  destruct Hc as [Hc|Hc]; rewrite Hc; split; discriminate.
Qed.

(* a delivery attempt never blocks when the channel can receive (C05: the caller that keeps receiving) *)
Lemma delivery_enabled c s w r x : target s w = Some (r, x) ->
  (chan_of s r = Some ChBuf \/ chan_of s r = Some ChDrain -> exists s', step c s (LAck w AOk) = Some s') /\
  (chan_of s r = Some ChNil -> exists s', step c s (LAck w ANil) = Some s') /\
  (fcanc s = true -> chan_of s r = Some ChAbandon -> exists s', step c s (LAck w AGiveUp) = Some s').
Proof.
  intro Ht. unfold target in Ht.
  destruct w; [destruct (apc s) as [| | | | |[|q t]|] eqn:E|destruct (wpc s) as [| | | | |y [|q t]|] eqn:E];
    try discriminate; inversion Ht; subst; cbn [step]; rewrite E; unfold ack_fate;
    (split; [intros [Hc|Hc]; rewrite Hc; eexists; reflexivity|split; [intros Hc; rewrite Hc; eexists; reflexivity|
       intros Hf Hc; rewrite Hc, Hf; eexists; reflexivity]]).
Qed.

(* ------------------------------------------------------------------ the pinned tree: witnesses *)
Definition cfg0 (d5 d6 d9 : bool) : cfg := mkCfg 4 1 1000 1048576 1000 1048576 true true d5 d6 d9.
Definition one_row : kind := KBatch true [(0%nat, (1, 20))].

(* D6: an engine that is never started accepts a batch; Stop returns nil; nobody is answered *)
Definition trace_D6 : list label :=
  [LTry 0 one_row ChBuf; LSent 0; LStopBegin; LStopFlag; LCtxCancel; LStopBr RNil; LStopReturn RNil].

Lemma graceful_refuted_never_started :
  exists s, reachable (cfg0 true false true) s /\ stop_returned s = Some RNil /\
            In 0%nat (accepted s) /\ chan_of s 0%nat = Some ChBuf /\ answers s 0%nat = 0%nat.
Proof.
  destruct (run (cfg0 true false true) init trace_D6) as [s|] eqn:E; [|vm_compute in E; discriminate].
  exists s. split; [eapply run_reachable; eauto|]. vm_compute in E. inversion E; subst. vm_compute. auto.
Qed.

(* D9: the deadline fires, the delivery to a receiver that is not parked yet is given up, the
   workers exit, and Stop's select still takes the done branch and returns nil *)
Definition flush_ok : list label :=
  [LWorkerTake; LFlBegin; LSBegin KCreate; LSEnd KCreate true; LSBegin KWrite; LSEnd KWrite true;
   LSBegin KClose; LSEnd KClose true; LSBegin KUpdate; LSEnd KUpdate true].
Definition trace_D9 : list label :=
  [LStart; LTry 0 one_row ChDrain; LSent 0; LStopBegin; LStopFlag; LCtxCancel; LActorCtxDone; LActorTake 0;
   LActorBuffer false; LDrainEnd; LFqSent; LActorExit] ++ flush_ok ++
  [LStopCtxDone; LFlushCancel; LAck Worker AGiveUp; LWorkerCtxDone; LWorkerIngestDone; LWorkerExit;
   LStopBr RNil; LStopReturn RNil].

Lemma graceful_refuted_giveup :
  exists s, reachable (cfg0 true true false) s /\ stop_returned s = Some RNil /\
            In 0%nat (accepted s) /\ chan_of s 0%nat = Some ChDrain /\ answers s 0%nat = 0%nat.
Proof.
  destruct (run (cfg0 true true false) init trace_D9) as [s|] eqn:E; [|vm_compute in E; discriminate].
  exists s. split; [eapply run_reachable; eauto|]. vm_compute in E. inversion E; subst. vm_compute. auto.
Qed.

(* D5: Stop returns its deadline error without cancelling the flush context; the AfterFunc callback has not
   run yet; a queued flush is then taken and starts CreateFile *)
Definition trace_D5 : list label :=
  [LStart; LTry 0 one_row ChBuf; LSent 0; LStopBegin; LStopFlag; LCtxCancel; LStopCtxDone; LStopBr RErr; LStopReturn RErr;
   LActorCtxDone; LActorTake 0; LActorBuffer false; LDrainEnd; LFqSent].

Lemma quiet_refuted_pinned :
  exists s s1 s2 s3, reachable (cfg0 false true true) s /\ stop_returned s = Some RErr /\
    step (cfg0 false true true) s LWorkerTake = Some s1 /\ step (cfg0 false true true) s1 LFlBegin = Some s2 /\
    step (cfg0 false true true) s2 (LSBegin KCreate) = Some s3 /\ fcanc s3 = false.
Proof.
  destruct (run (cfg0 false true true) init trace_D5) as [s|] eqn:E; [|vm_compute in E; discriminate].
  destruct (run (cfg0 false true true) s [LWorkerTake]) as [s1|] eqn:E1; [|vm_compute in E; inversion E; subst; vm_compute in E1; discriminate].
  destruct (run (cfg0 false true true) s1 [LFlBegin]) as [s2|] eqn:E2;
    [|vm_compute in E; inversion E; subst; vm_compute in E1; inversion E1; subst; vm_compute in E2; discriminate].
  destruct (run (cfg0 false true true) s2 [LSBegin KCreate]) as [s3|] eqn:E3;
    [|vm_compute in E; inversion E; subst; vm_compute in E1; inversion E1; subst; vm_compute in E2; inversion E2; subst; vm_compute in E3; discriminate].
  exists s, s1, s2, s3. split; [eapply run_reachable; eauto|].
  vm_compute in E; inversion E; subst. vm_compute in E1; inversion E1; subst.
  vm_compute in E2; inversion E2; subst. vm_compute in E3; inversion E3; subst. vm_compute. auto 10.
Qed.

(* the same histories are not runs of the fixed model *)
Lemma fixed_rejects_D6 : run (cfg0 true true true) init trace_D6 = None.
Proof. vm_compute. reflexivity. Qed.
Lemma fixed_rejects_D9 : run (cfg0 true true true) init trace_D9 = None.
Proof. vm_compute. reflexivity. Qed.
Lemma fixed_rejects_D5 : run (cfg0 true true true) init trace_D5 = None.
Proof. vm_compute. reflexivity. Qed.

(* non-vacuity: a graceful run of the fixed model in which a batch is accepted before Start, another
   races with Stop, and both are answered nil *)
Definition trace_good : list label :=
  [LTry 0 one_row ChBuf; LSent 0; LStart; LTry 1 one_row ChDrain; LSent 1; LStopBegin; LStopFlag; LCtxCancel;
   LActorTake 0; LActorBuffer false; LActorCtxDone; LActorTake 1; LActorBuffer false; LDrainEnd; LFqSent; LActorExit] ++
  flush_ok ++ [LAck Worker AOk; LAck Worker AOk; LWorkerCtxDone; LWorkerIngestDone; LWorkerExit; LStopBr RNil; LStopReturn RNil].

Lemma good_run :
  exists s, reachable (cfg0 true true true) s /\ stop_returned s = Some RNil /\ accepted s = [0%nat; 1%nat] /\
            ack s 0%nat = Some RNil /\ ack s 1%nat = Some RNil /\ visible s = [0%nat; 1%nat].
Proof.
  destruct (run (cfg0 true true true) init trace_good) as [s|] eqn:E; [|vm_compute in E; discriminate].
  exists s. split; [eapply run_reachable; eauto|]. vm_compute in E. inversion E; subst. vm_compute. auto 10.
Qed.

(* ------------------------------------------------------------------ wrappers used by Properties/ *)
Lemma loc c s : reachable c s ->
  NoDup (pipeline s ++ map fst (finished s)) /\ Permutation (accepted s) (pipeline s ++ map fst (finished s)).
Proof. intro R. split; [apply (inv1_places _ _ R)|apply (i_perm _ (reachable_inv1 _ _ R))]. Qed.
Lemma fifo c s : reachable c s -> subseq (pipeline s) (accepted s).
Proof. intro R. apply (i_sub _ (reachable_inv1 _ _ R)). Qed.
Lemma flush_barrier c s r t : reachable c s -> wpc s = WAck RNil (r :: t) -> kind_of s r = Some KForce ->
  forall a, before (accepted s) a r ->
    In a (map fst (finished s)) /\
    (fcanc s = false -> answers s a = 1%nat \/ chan_of s a = Some ChNil) /\
    (ack s a = Some RNil -> is_rows s a = true -> In a (visible s)).
Proof. intros R Hw _. eapply order; eauto. Qed.
Lemma visible_nodup c s : reachable c s -> NoDup (visible s).
Proof. intro R. apply (v_nodup _ (reachable_invv _ _ R)). Qed.
Lemma always_below c s : cfg_wf c -> reachable c s -> below_limits c (buf s).
Proof. intros Hc R. apply (b_below _ _ (reachable_invb _ _ Hc R)). Qed.

(* ------------------------------------------------------------------ no deadlock (C05 progress, partial) *)
Record InvN (s : state) : Prop := {
  n_wack : forall x l, wpc s = WAck x l -> l <> [];
  n_aab : forall l, apc s = AAbandon l -> l <> [];
  n_live : forall f, wpc s = WHold f -> wlive s = false -> fcanc s = true }.

Lemma mk_wack_nonnil x l y l' : mk_wack x l = WAck y l' -> l' <> [].
Proof. destruct l; cbn; intro H; inversion H; discriminate. Qed.
Lemma mk_aab_nonnil l l' : mk_aab l = AAbandon l' -> l' <> [].
Proof. destruct l; cbn; intro H; inversion H; discriminate. Qed.

Lemma invn_step c s l s' : Idle0 s -> InvN s -> step c s l = Some s' -> InvN s'.
Proof.
  intros I0 [A B C] H. unfold Idle0 in I0.
  step_cases H; bool_hyps; split; sproj; rw_pcs; rw_hyps; try assumption;
    try solve [ intros; first [ discriminate | congruence | eapply mk_wack_nonnil; eassumption | eapply mk_aab_nonnil; eassumption
                              | eauto ] ].
  - intros f0 E0 E1. specialize (C _ E0 E1). congruence.
  - intros f0 _ E1. now apply negb_false_iff in E1.
  - intros f0 E0. destruct (fw f); discriminate.
  - intros f0 E0. destruct (fw f); discriminate.
  - intros f0 E0. destruct l0; discriminate.
Qed.

Lemma reachable_invn c s : reachable c s -> InvN s.
Proof.
  induction 1.
  - split; cbn; intros; discriminate.
  - eapply invn_step; eauto. eapply i_idle, reachable_inv1; eauto.
Qed.

Definition internal (l : label) : Prop :=
  match l with
  | LActorTake _ | LActorForce | LActorAckNow | LActorReject | LActorBuffer _ | LTickFlush | LFqSent | LFqAbandon
  | LDrainEnd | LActorExit | LWorkerTake | LFlAbandoned | LFlAckOnly | LFlBegin | LSBegin _ | LSEnd _ _ | LAck _ _ => True
  | _ => False
  end.

Lemma assoc_some {A} r (l : list (nat * A)) : In r (map fst l) -> exists v, assoc r l = Some v.
Proof.
  induction l as [|[q a] t IH]; cbn; [tauto|]. intros [->|Hin].
  - rewrite Nat.eqb_refl. eauto.
  - destruct (Nat.eqb r q); eauto.
Qed.

(* with a started engine, time able to elapse, stores that answer and no abandoned channel among the
   in-flight requests, the engine itself always has an enabled step while a request is in flight *)
Lemma no_deadlock c s : cfg_wf c -> reachable c s -> started s = true -> c_timeless c = false ->
  pipeline s <> [] ->
  (forall r, In r (pipeline s) -> chan_of s r <> Some ChAbandon) ->
  exists l s', internal l /\ step c s l = Some s'.
Proof.
  intros Hc R Hst Htl Hne Hch.
  pose proof (reachable_inv2 _ _ R) as [L1 L2 L3 L4 L5 L6 L7 L8 L9 LS L10 L11 L12 L13].
  pose proof (reachable_invn _ _ R) as [N1 N2 N3].
  pose proof (reachable_invb _ _ Hc R) as [B1 B2 B3 B4 B5 B6 B7 B8 B9].
  destruct (LS Hst) as [Han Hwn]. destruct Hc as (C1 & C2 & C3 & C4).
  (* every in-flight request has a description *)
  assert (Hlk : forall r, In r (pipeline s) -> exists k ch, lookup s r = Some (k, ch)).
  { intros r Hin. assert (Hk : In r (keys s)) by (eapply places_keys; eauto; apply in_app_iff; auto).
    destruct (assoc_some _ _ Hk) as [[k ch] E]. exists k, ch. exact E. }
  (* a delivery attempt on an in-flight request is enabled *)
  assert (Hdel : forall w r x, target s w = Some (r, x) -> exists o s', step c s (LAck w o) = Some s').
  { intros w r x Ht. pose proof (target_in_pipeline _ _ _ _ Ht) as Hin.
    destruct (Hlk _ Hin) as (k & ch & E). destruct (delivery_enabled c s w r x Ht) as (D1 & D2 & _).
    specialize (Hch _ Hin). unfold chan_of in *. rewrite E in *. cbn in *.
    destruct ch; [destruct (D2 eq_refl) as [s' Hs]; exists ANil, s'; exact Hs
                 |destruct (D1 (or_introl eq_refl)) as [s' Hs]; exists AOk, s'; exact Hs
                 |destruct (D1 (or_intror eq_refl)) as [s' Hs]; exists AOk, s'; exact Hs
                 |congruence]. }
  destruct (wpc s) eqn:Ew.
  - congruence.
  - (* worker idle *)
    destruct (fch s) as [|f t] eqn:Ef.
    + (* look at the actor *)
      destruct (apc s) eqn:Ea.
      * congruence.
      * destruct (amode s) eqn:Em.
        -- destruct (ich s) as [|q t] eqn:Ei.
           ++ assert (Hw : b_w (buf s) <> []).
              { intro Hb. apply Hne. unfold pipeline, wk_part, a_pre, a_post. now rewrite Ew, Ef, Ea, Hb, Ei. }
              assert (0 < b_rows (buf s)).
              { destruct (b_w (buf s)) eqn:Eb; [congruence|]. rewrite len_cons in B4. pose proof (len_nonneg l). lia. }
              destruct (tick_enabled c s Ea Em H Htl) as (s' & Hs & _). exists LTickFlush, s'. split; [exact I|exact Hs].
           ++ exists (LActorTake q). eexists. split; [exact I|]. cbn [step]. rewrite Ea, Em, Ei, Nat.eqb_refl. reflexivity.
        -- destruct (ich s) as [|q t] eqn:Ei.
           ++ exists LDrainEnd. cbn [step]. rewrite Ea, Em, Ei. destruct (buf_nonempty (buf s)); eexists; split; try exact I; reflexivity.
           ++ exists (LActorTake q). eexists. split; [exact I|]. cbn [step]. rewrite Ea, Em, Ei, Nat.eqb_refl. reflexivity.
        -- destruct (L5 eq_refl) as (Hi & Hb & _). exfalso. apply Hne. unfold pipeline, wk_part, a_pre, a_post. now rewrite Ew, Ef, Ea, Hb, Hi.
      * (* AHold r *)
        assert (Hin : In r (pipeline s)) by (unfold pipeline, a_post; rewrite Ea; rewrite !in_app_iff; cbn; auto 8).
        destruct (Hlk _ Hin) as (k & ch & E).
        assert (Hkw : kind_wf k = true).
        { apply (kind_of_wf s r); [eapply reachable_invk; eauto|]. unfold kind_of. now rewrite E. }
        destruct k as [|v ct].
        -- exists LActorForce. eexists. split; [exact I|]. cbn [step]. unfold kind_of. rewrite Ea, E. reflexivity.
        -- destruct ct as [|p ct'].
           ++ exists LActorAckNow. eexists. split; [exact I|]. cbn [step]. unfold kind_of. rewrite Ea, E. reflexivity.
           ++ destruct v.
              ** exists (LActorBuffer (limit_flush c (buf_add r (p :: ct') (buf s)) (p :: ct'))). cbn [step]. unfold kind_of. rewrite Ea, E. cbn [option_map fst].
                 destruct (limit_flush c (buf_add r (p :: ct') (buf s)) (p :: ct')) eqn:El; cbn; eexists; split; try exact I; reflexivity.
              ** exists LActorReject. eexists. split; [exact I|]. cbn [step]. unfold kind_of. rewrite Ea, E. reflexivity.
      * destruct (Hdel Actor r x) as (o & s' & Hs); [unfold target; now rewrite Ea|]. exists (LAck Actor o), s'. split; [exact I|exact Hs].
      * exists LFqSent. eexists. split; [exact I|]. cbn [step]. rewrite Ea, Ef. unfold len. cbn.
        replace (0 <? c_fcap c) with true by (symmetry; apply Z.ltb_lt; lia). reflexivity.
      * destruct l as [|q t]; [exfalso; eapply N2; eauto|].
        destruct (Hdel Actor q RErr) as (o & s' & Hs); [unfold target; now rewrite Ea|]. exists (LAck Actor o), s'. split; [exact I|exact Hs].
      * specialize (L6 eq_refl). destruct (L5 L6) as (Hi & Hb & _). exfalso. apply Hne. unfold pipeline, wk_part, a_pre, a_post. now rewrite Ew, Ef, Ea, Hb, Hi.
    + exists LWorkerTake. eexists. split; [exact I|]. cbn [step]. rewrite Ew, Ef. reflexivity.
  - (* WHold *)
    destruct (wlive s) eqn:El.
    + destruct (fparts f) eqn:Ep.
      * exists LFlAckOnly. eexists. split; [exact I|]. cbn [step]. rewrite Ew, Ep, El. reflexivity.
      * exists LFlBegin. eexists. split; [exact I|]. cbn [step]. rewrite Ew, Ep, El. reflexivity.
    + exists LFlAbandoned. eexists. split; [exact I|]. cbn [step]. rewrite Ew, (N3 _ eq_refl eq_refl). reflexivity.
  - (* WStep *)
    assert (exists k, allowed ph k = true) as [k Hk] by (destruct ph; [exists KCreate|exists KWrite|exists KAbort|exists KClose|exists KTomb|exists KUpdate]; reflexivity).
    exists (LSBegin k). eexists. split; [exact I|]. cbn [step]. rewrite Ew, Hk. reflexivity.
  - (* WIn *)
    exists (LSEnd k true). cbn [step]. rewrite Ew.
    replace (skind_eqb k k) with true by (destruct k; reflexivity).
    destruct (next_phase c ph k true); eexists; split; try exact I; reflexivity.
  - destruct l as [|q t]; [exfalso; eapply N1; eauto|].
    destruct (Hdel Worker q x) as (o & s' & Hs); [unfold target; now rewrite Ew|]. exists (LAck Worker o), s'. split; [exact I|exact Hs].
  - destruct (L8 eq_refl) as [Hm Hf]. specialize (L7 Hm). specialize (L6 L7). destruct (L5 L6) as (Hi & Hb & _).
    exfalso. apply Hne. unfold pipeline, wk_part, a_pre, a_post. now rewrite Ew, Hf, L7, Hb, Hi.
Qed.

(* a history without any Flush and without Stop in which a limit-triggered flush answers both batches *)
Definition cfg_small : cfg := mkCfg 4 1 2 1048576 1000 1048576 true true true true true.
Definition trace_limit : list label :=
  [LStart; LTry 0 one_row ChBuf; LSent 0; LTry 1 one_row ChDrain; LSent 1;
   LActorTake 0; LActorBuffer false; LActorTake 1; LActorBuffer true; LFqSent] ++ flush_ok ++
  [LAck Worker AOk; LAck Worker AOk].
Lemma limit_run :
  exists s, reachable cfg_small s /\ stop_returned s = None /\ stopped s = false /\
            ack s 0%nat = Some RNil /\ ack s 1%nat = Some RNil /\ visible s = [0%nat; 1%nat] /\ pipeline s = [].
Proof.
  destruct (run cfg_small init trace_limit) as [s|] eqn:E; [|vm_compute in E; discriminate].
  exists s. split; [eapply run_reachable; eauto|]. vm_compute in E. inversion E; subst. vm_compute. auto 10.
Qed.
