(* C25 lemmas: flattening constructors, QueryBuilder = nested conjunction, JSON value round trips. *)
From BS Require Import Lib.Bytes Model.Json Model.Expr Model.MinMax Model.QueryFn Model.Builder
  Proofs.ExprProofs Proofs.MinMaxProofs.
From Coq Require Import List Bool Lia String Arith.
Import ListNotations.
Local Open Scope nat_scope.

(* ---------------------------------------------------------------- flattening, all tree kinds *)
Section FlattenP.
  Variable ev : pexpr -> bool.
  Hypothesis ev_and : forall cs, ev (PAnd cs) = forallb ev cs.
  Hypothesis ev_or : forall cs, ev (POr cs) = existsb ev cs.
  Lemma ev_mk_pand es : ev (mk_pand es) = forallb ev es.
  Proof.
    unfold mk_pand. rewrite ev_and. induction es as [|e es IH]; simpl; [reflexivity|].
    unfold flatten_pand in *. simpl. rewrite forallb_app, IH. f_equal.
    destruct e; simpl; rewrite ?andb_true_r; try reflexivity. symmetry. apply ev_and.
  Qed.
  Lemma ev_mk_por es : ev (mk_por es) = existsb ev es.
  Proof.
    unfold mk_por. rewrite ev_or. induction es as [|e es IH]; simpl; [reflexivity|].
    unfold flatten_por in *. simpl. rewrite existsb_app, IH. f_equal.
    destruct e; simpl; rewrite ?orb_false_r; try reflexivity. symmetry. apply ev_or.
  Qed.
End FlattenP.

Section FlattenR.
  Variable ev : rexpr -> bool.
  Hypothesis ev_and : forall cs, ev (RAnd cs) = forallb ev cs.
  Hypothesis ev_or : forall cs, ev (ROr cs) = existsb ev cs.
  Lemma ev_mk_rand es : ev (mk_rand es) = forallb ev es.
  Proof.
    unfold mk_rand. rewrite ev_and. induction es as [|e es IH]; simpl; [reflexivity|].
    unfold flatten_rand in *. simpl. rewrite forallb_app, IH. f_equal.
    destruct e; simpl; rewrite ?andb_true_r; try reflexivity. symmetry. apply ev_and.
  Qed.
  Lemma ev_mk_ror es : ev (mk_ror es) = existsb ev es.
  Proof.
    unfold mk_ror. rewrite ev_or. induction es as [|e es IH]; simpl; [reflexivity|].
    unfold flatten_ror in *. simpl. rewrite existsb_app, IH. f_equal.
    destruct e; simpl; rewrite ?orb_false_r; try reflexivity. symmetry. apply ev_or.
  Qed.
End FlattenR.

(* the concrete evaluators *)
Lemma ctor_and_sat tok es l : sat_bexpr tok es (mk_and l) = sat_bexpr tok es (BAnd l).
Proof. rewrite sat_mk_and. reflexivity. Qed.
Lemma ctor_or_sat tok es l : sat_bexpr tok es (mk_or l) = sat_bexpr tok es (BOr l).
Proof. rewrite sat_mk_or. reflexivity. Qed.
Lemma ctor_and_prune F l : prune_eval F (mk_and l) = prune_eval F (BAnd l).
Proof. rewrite prune_mk_and. reflexivity. Qed.
Lemma ctor_or_prune F l : prune_eval F (mk_or l) = prune_eval F (BOr l).
Proof. rewrite prune_mk_or. reflexivity. Qed.
Lemma ctor_pand_block b l : eval_pexpr b (mk_pand l) = eval_pexpr b (PAnd l).
Proof. rewrite ev_mk_pand by reflexivity. reflexivity. Qed.
Lemma ctor_por_block b l : eval_pexpr b (mk_por l) = eval_pexpr b (POr l).
Proof. rewrite ev_mk_por by reflexivity. reflexivity. Qed.
Lemma ctor_pand_row r l : row_pexpr r (mk_pand l) = row_pexpr r (PAnd l).
Proof. rewrite ev_mk_pand by reflexivity. reflexivity. Qed.
Lemma ctor_por_row r l : row_pexpr r (mk_por l) = row_pexpr r (POr l).
Proof. rewrite ev_mk_por by reflexivity. reflexivity. Qed.
Lemma ctor_rand_sat re es l : sat_rexpr re es (mk_rand l) = sat_rexpr re es (RAnd l).
Proof. rewrite ev_mk_rand by reflexivity. reflexivity. Qed.
Lemma ctor_ror_sat re es l : sat_rexpr re es (mk_ror l) = sat_rexpr re es (ROr l).
Proof. rewrite ev_mk_ror by reflexivity. reflexivity. Qed.

(* ---------------------------------------------------------------- QueryBuilder *)
Section Builder.
  Variable evb : bexpr -> bool.
  Hypothesis evb_and : forall cs, evb (BAnd cs) = forallb evb cs.
  Hypothesis evb_or : forall cs, evb (BOr cs) = existsb evb cs.
  Variable evr : rexpr -> bool.
  Hypothesis evr_and : forall cs, evr (RAnd cs) = forallb evr cs.
  Hypothesis evr_or : forall cs, evr (ROr cs) = existsb evr cs.

  Definition evqb (q : option bexpr) : bool := match q with None => true | Some e => evb e end.
  Definition evqr (q : option rexpr) : bool := match q with None => true | Some e => evr e end.

  (* builder state vs the denotation of the calls so far *)
  Definition inv_b (s : bstate) (cur : option bexpr) : Prop :=
    if st_bexplicit s then st_bloom s <> None /\ cur <> None /\ evqb (st_bloom s) = evqb cur
    else st_bloom s = None /\
         ((st_bimplicit s = [] /\ cur = None) \/ (st_bimplicit s <> [] /\ cur <> None /\ evqb cur = forallb evb (st_bimplicit s))).

  Definition inv_r (s : bstate) (cur : option rexpr) : Prop :=
    if st_rexplicit s then st_regex s <> None /\ cur <> None /\ evqr (st_regex s) = evqr cur
    else st_regex s = None /\
         ((st_rimplicit s = [] /\ cur = None) \/ (st_rimplicit s <> [] /\ cur <> None /\ evqr cur = forallb evr (st_rimplicit s))).

  Lemma evqb_and_b cur e : evqb (and_b cur e) = evqb cur && evb e.
  Proof. destruct cur; simpl; [rewrite evb_and; simpl; rewrite andb_true_r|]; reflexivity. Qed.
  Lemma evqr_and_r cur e : evqr (and_r cur e) = evqr cur && evr e.
  Proof. destruct cur; simpl; [rewrite evr_and; simpl; rewrite andb_true_r|]; reflexivity. Qed.

  Lemma add_bloom_inv s cur e : inv_b s cur -> inv_b (add_bloom s e) (and_b cur e).
  Proof.
    unfold inv_b, add_bloom. destruct (st_bexplicit s) eqn:Ex; simpl.
    - intros [H1 [H2 H3]]. destruct (st_bloom s) as [b|]; [|contradiction]. destruct cur as [c|]; [|contradiction].
      repeat split; try discriminate. simpl. rewrite (ev_mk_and evb evb_and). simpl.
      rewrite evb_and. simpl. simpl in H3. rewrite H3. reflexivity.
    - intros [H1 H2]. split; [exact H1|]. right. split; [destruct (st_bimplicit s); discriminate|].
      split; [destruct cur; discriminate|]. rewrite evqb_and_b, forallb_app. simpl. rewrite andb_true_r.
      destruct H2 as [[Hi Hc]|[Hi [Hc He]]].
      + rewrite Hi, Hc. reflexivity.
      + rewrite He. reflexivity.
  Qed.

  Lemma set_bloom_inv s e : inv_b (set_bloom s e) (Some e).
  Proof. unfold inv_b, set_bloom. simpl. repeat split; discriminate. Qed.

  Lemma add_regex_inv s cur e : inv_r s cur -> inv_r (add_regex s e) (and_r cur e).
  Proof.
    unfold inv_r, add_regex. destruct (st_rexplicit s) eqn:Ex; simpl.
    - intros [H1 [H2 H3]]. destruct (st_regex s) as [b|]; [|contradiction]. destruct cur as [c|]; [|contradiction].
      repeat split; try discriminate. simpl. rewrite (ev_mk_rand evr evr_and). simpl.
      rewrite evr_and. simpl. simpl in H3. rewrite H3. reflexivity.
    - intros [H1 H2]. split; [exact H1|]. right. split; [destruct (st_rimplicit s); discriminate|].
      split; [destruct cur; discriminate|]. rewrite evqr_and_r, forallb_app. simpl. rewrite andb_true_r.
      destruct H2 as [[Hi Hc]|[Hi [Hc He]]].
      + rewrite Hi, Hc. reflexivity.
      + rewrite He. reflexivity.
  Qed.

  Lemma set_regex_inv s e : inv_r (set_regex s e) (Some e).
  Proof. unfold inv_r, set_regex. simpl. repeat split; discriminate. Qed.

  Definition inv (s : bstate) (q : query) : Prop :=
    inv_b s (q_bloom q) /\ inv_r s (q_regex q) /\ st_pre s = q_pre q.

  Lemma bstep_inv s q k : inv s q -> inv (bstep s k) (den_step q k).
  Proof.
    intros [Hb [Hr Hp]]. destruct k; simpl; unfold inv; simpl.
    1-3: (split; [apply add_bloom_inv; exact Hb|]; split; [|unfold add_bloom; destruct (st_bexplicit s); exact Hp];
          unfold inv_r, add_bloom in *; destruct (st_bexplicit s); simpl; exact Hr).
    - split; [apply set_bloom_inv|]. split; [|exact Hp]. exact Hr.
    - split; [|split; [apply add_regex_inv; exact Hr| unfold add_regex; destruct (st_rexplicit s); exact Hp]].
      unfold inv_b, add_regex in *; destruct (st_rexplicit s); simpl; exact Hb.
    - split; [exact Hb|]. split; [apply set_regex_inv| exact Hp].
    - split; [exact Hb|]. split; [exact Hr| reflexivity].
  Qed.

  Lemma fold_inv calls s q : inv s q -> inv (fold_left bstep calls s) (fold_left den_step calls q).
  Proof. revert s q. induction calls as [|k ks IH]; intros s q H; simpl; [exact H|]. apply IH. apply bstep_inv. exact H. Qed.

  Lemma init_inv : inv st_init {| q_pre := None; q_bloom := None; q_regex := None |}.
  Proof. unfold inv, inv_b, inv_r. simpl. repeat split; left; split; reflexivity. Qed.

  Theorem builder_means_conjunction calls :
    evqb (q_bloom (build calls)) = evqb (q_bloom (den calls)) /\
    evqr (q_regex (build calls)) = evqr (q_regex (den calls)) /\
    q_pre (build calls) = q_pre (den calls).
  Proof.
    unfold build, den. pose proof (fold_inv calls _ _ init_inv) as [Hb [Hr Hp]].
    set (s := fold_left bstep calls st_init) in *.
    set (q := fold_left den_step calls _) in *.
    unfold build_state. simpl. repeat split; [| |exact Hp].
    - unfold inv_b in Hb. destruct (st_bexplicit s); simpl.
      + destruct Hb as [_ [_ H]]. exact H.
      + destruct Hb as [Hn [[Hi Hc]|[Hi [Hc He]]]].
        * rewrite Hi, Hn, Hc. reflexivity.
        * destruct (st_bimplicit s) as [|x l] eqn:E; [contradiction|]. simpl.
          rewrite (ev_mk_and evb evb_and). rewrite He. reflexivity.
    - unfold inv_r in Hr. destruct (st_rexplicit s); simpl.
      + destruct Hr as [_ [_ H]]. exact H.
      + destruct Hr as [Hn [[Hi Hc]|[Hi [Hc He]]]].
        * rewrite Hi, Hn, Hc. reflexivity.
        * destruct (st_rimplicit s) as [|x l] eqn:E; [contradiction|]. simpl.
          rewrite (ev_mk_rand evr evr_and). rewrite He. reflexivity.
  Qed.
End Builder.

(* instantiated: a built query and the written conjunction select the same rows and prune the same filters *)
Theorem builder_row_sat tok re calls row :
  row_sat tok re (q_bloom (build calls)) (q_regex (build calls)) row =
  row_sat tok re (q_bloom (den calls)) (q_regex (den calls)) row.
Proof.
  unfold row_sat.
  destruct (builder_means_conjunction (sat_bexpr tok (walk_row row)) (fun _ => eq_refl)
              (sat_rexpr re (walk_row row)) (fun _ => eq_refl) calls) as [Hb [Hr _]].
  unfold evqb, evqr, sat_bq, sat_rq in *. rewrite Hb, Hr. reflexivity.
Qed.

(* ---------------------------------------------------------------- JSON value round trips *)
Lemma jfield_app k a b : jfield k (a ++ b) = match jfield k a with Some v => Some v | None => jfield k b end.
Proof. induction a as [|[k' v] a IH]; simpl; [reflexivity|]. destruct (String.eqb k k'); [reflexivity| exact IH]. Qed.

Lemma max_le_fold {A} (f : A -> nat) l x : In x l -> f x <= fold_right (fun c acc => Nat.max (f c) acc) O l.
Proof. induction l as [|y l IH]; simpl; [intros []|]. intros [->|H]; [lia| specialize (IH H); lia]. Qed.

Lemma map_id_in {A} (f : A -> A) l : (forall x, In x l -> f x = x) -> map f l = l.
Proof. induction l as [|x l IH]; simpl; intro H; [reflexivity|]. rewrite H by auto. rewrite IH; auto. Qed.

Lemma bcond_rt c : bcond_of_json (bcond_json c) = c.
Proof. destruct c; reflexivity. Qed.

Lemma children_rt {A} (J : A -> gj) (D : gj -> A) cs :
  (forall x, In x cs -> D (J x) = x) ->
  match jfield "Children" (omit_arr "Children" (map J cs)) with Some (GArr xs) => map D xs | _ => [] end = cs.
Proof.
  intro H. destruct cs as [|c cs']; [reflexivity|].
  change (omit_arr "Children" (map J (c :: cs'))) with [("Children"%string, GArr (map J (c :: cs')))].
  change (jfield "Children" [("Children"%string, GArr (map J (c :: cs')))]) with (Some (GArr (map J (c :: cs')))).
  lazy iota beta. rewrite map_map. apply map_id_in. exact H.
Qed.

Lemma obj_type ty R : jfield "ExpressionType" (("ExpressionType"%string, GStr ty) :: R) = Some (GStr ty).
Proof. reflexivity. Qed.
Lemma obj_children ty R : jfield "Children" (("ExpressionType"%string, GStr ty) :: R) = jfield "Children" R.
Proof. reflexivity. Qed.

Lemma bexpr_rt e : forall n, bexpr_depth e <= n -> bexpr_of_json n (bexpr_json e) = e.
Proof.
  induction e as [c|cs IH|cs IH|] using bexpr_ind'; intros n Hn; (destruct n as [|m]; [simpl in Hn; lia|]).
  - destruct c as [c|]; [|reflexivity]. destruct c; reflexivity.
  - cbn [bexpr_json]. unfold bexpr_of_json; fold bexpr_of_json. rewrite obj_type, obj_children. cbn [jstr].
    change (str_eqb s_and s_condition) with false. change (str_eqb s_and s_and) with true. cbn iota. f_equal.
    apply children_rt. intros x Hx. rewrite Forall_forall in IH. apply IH; [exact Hx|].
    pose proof (max_le_fold bexpr_depth cs x Hx). simpl in Hn. lia.
  - cbn [bexpr_json]. unfold bexpr_of_json; fold bexpr_of_json. rewrite obj_type, obj_children. cbn [jstr].
    change (str_eqb s_or s_condition) with false. change (str_eqb s_or s_and) with false.
    change (str_eqb s_or s_or) with true. cbn iota. f_equal.
    apply children_rt. intros x Hx. rewrite Forall_forall in IH. apply IH; [exact Hx|].
    pose proof (max_le_fold bexpr_depth cs x Hx). simpl in Hn. lia.
  - reflexivity.
Qed.

Lemma rexpr_rt e : forall n, rexpr_depth e <= n -> rexpr_of_json n (rexpr_json e) = e.
Proof.
  induction e as [c|cs IH|cs IH|] using rexpr_ind'; intros n Hn; (destruct n as [|m]; [simpl in Hn; lia|]).
  - destruct c as [[f p]|]; reflexivity.
  - cbn [rexpr_json]. unfold rexpr_of_json; fold rexpr_of_json. rewrite obj_type, obj_children. cbn [jstr].
    change (str_eqb s_and s_condition) with false. change (str_eqb s_and s_and) with true. cbn iota. f_equal.
    apply children_rt. intros x Hx. rewrite Forall_forall in IH. apply IH; [exact Hx|].
    pose proof (max_le_fold rexpr_depth cs x Hx). simpl in Hn. lia.
  - cbn [rexpr_json]. unfold rexpr_of_json; fold rexpr_of_json. rewrite obj_type, obj_children. cbn [jstr].
    change (str_eqb s_or s_condition) with false. change (str_eqb s_or s_and) with false.
    change (str_eqb s_or s_or) with true. cbn iota. f_equal.
    apply children_rt. intros x Hx. rewrite Forall_forall in IH. apply IH; [exact Hx|].
    pose proof (max_le_fold rexpr_depth cs x Hx). simpl in Hn. lia.
  - reflexivity.
Qed.

Lemma op_rt o : op_of_str (op_str o) = o.
Proof. destruct o; reflexivity. Qed.

Lemma op_str_nonempty o : op_str o <> [].
Proof. destruct o; discriminate. Qed.

Lemma jfield_omit_str k k' s :
  jfield k (omit_str k' s) = if String.eqb k k' then match s with [] => None | _ => Some (GStr s) end else None.
Proof. unfold omit_str. destruct s; simpl; destruct (String.eqb k k'); reflexivity. Qed.

Lemma jfield_omit_int k k' z :
  jfield k (omit_int k' z) = if String.eqb k k' then (if Z.eqb z 0%Z then None else Some (GInt z)) else None.
Proof. unfold omit_int. destruct (Z.eqb z 0); simpl; destruct (String.eqb k k'); reflexivity. Qed.

Lemma jfield_omit_arr k k' xs :
  jfield k (omit_arr k' xs) = if String.eqb k k' then match xs with [] => None | _ => Some (GArr xs) end else None.
Proof. unfold omit_arr. destruct xs; simpl; destruct (String.eqb k k'); reflexivity. Qed.

Lemma jstr_omit s : jstr (match s with [] => None | _ => Some (GStr s) end) = s.
Proof. destruct s; reflexivity. Qed.

Lemma jint_omit z : jint (if Z.eqb z 0%Z then None else Some (GInt z)) = z.
Proof. destruct (Z.eqb_spec z 0%Z); [subst; reflexivity| reflexivity]. Qed.

Lemma strs_rt vs : map (fun x => jstr (Some x)) (map GStr vs) = vs.
Proof. induction vs as [|v vs IH]; [reflexivity|]. cbn [map jstr]. f_equal. exact IH. Qed.
Lemma ints_rt vs : map (fun x => jint (Some x)) (map GInt vs) = vs.
Proof. induction vs as [|v vs IH]; [reflexivity|]. cbn [map jint]. f_equal. exact IH. Qed.

Lemma scond_rt c kvs : scond_json c = GObj kvs -> scond_of_json kvs = c.
Proof.
  destruct c as [o v vs mn mx]. unfold scond_json. intro H. inversion H; subst kvs; clear H.
  unfold scond_of_json.
  destruct o, v, vs, mn, mx; cbn [map]; cbn -[map]; cbn [map]; rewrite ?strs_rt; reflexivity.
Qed.

Lemma ncond_rt c kvs : ncond_json c = GObj kvs -> ncond_of_json kvs = c.
Proof.
  destruct c as [o v vs mn mx]. unfold ncond_json. intro H. inversion H; subst kvs; clear H.
  unfold ncond_of_json, omit_int.
  destruct o, vs; destruct (Z.eqb_spec v 0%Z), (Z.eqb_spec mn 0%Z), (Z.eqb_spec mx 0%Z); subst;
    cbn [map]; cbn -[map]; cbn [map]; rewrite ?ints_rt; reflexivity.
Qed.

Lemma pcond_rt c kvs : pcond_json c = GObj kvs -> pcond_of_json kvs = c.
Proof.
  destruct c as [[sc|]|f [nc|]|]; simpl; intro H; inversion H; subst kvs; clear H.
  - unfold pcond_of_json. cbn -[scond_json scond_of_json].
    destruct (scond_json sc) as [| | | |kvs] eqn:E; try discriminate.
    rewrite (scond_rt sc kvs E). reflexivity.
  - reflexivity.
  - unfold pcond_of_json. destruct f as [|f0 f']; cbn -[ncond_json ncond_of_json];
      (destruct (ncond_json nc) as [| | | |kvs] eqn:E; try discriminate; rewrite (ncond_rt nc kvs E); reflexivity).
  - unfold pcond_of_json. destruct f as [|f0 f']; reflexivity.
  - reflexivity.
Qed.

Lemma obj_condition ty c R : jfield "Condition" (("ExpressionType"%string, GStr ty) :: ("Condition"%string, c) :: R) = Some c.
Proof. reflexivity. Qed.

Lemma pexpr_rt e : forall n, pexpr_depth e <= n -> pexpr_of_json n (pexpr_json e) = e.
Proof.
  induction e as [c|cs IH|cs IH|] using pexpr_ind'; intros n Hn; (destruct n as [|m]; [simpl in Hn; lia|]).
  - destruct c as [c|]; [|reflexivity].
    cbn [pexpr_json]. unfold pexpr_of_json. rewrite obj_type, obj_condition. cbn [jstr].
    change (str_eqb s_condition s_condition) with true. cbn iota.
    destruct (pcond_json c) as [| | | |kvs] eqn:E; try (destruct c as [[?|]|? [?|]|]; discriminate).
    rewrite (pcond_rt c kvs E). reflexivity.
  - cbn [pexpr_json]. unfold pexpr_of_json; fold pexpr_of_json. rewrite obj_type, obj_children. cbn [jstr].
    change (str_eqb s_and s_condition) with false. change (str_eqb s_and s_and) with true. cbn iota. f_equal.
    apply children_rt. intros x Hx. rewrite Forall_forall in IH. apply IH; [exact Hx|].
    pose proof (max_le_fold pexpr_depth cs x Hx). simpl in Hn. lia.
  - cbn [pexpr_json]. unfold pexpr_of_json; fold pexpr_of_json. rewrite obj_type, obj_children. cbn [jstr].
    change (str_eqb s_or s_condition) with false. change (str_eqb s_or s_and) with false.
    change (str_eqb s_or s_or) with true. cbn iota. f_equal.
    apply children_rt. intros x Hx. rewrite Forall_forall in IH. apply IH; [exact Hx|].
    pose proof (max_le_fold pexpr_depth cs x Hx). simpl in Hn. lia.
  - reflexivity.
Qed.
